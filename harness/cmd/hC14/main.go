// hC14: blocks of coins / none / manage transactions connected on a fresh chain33 test node
// (every index plugin the node can run: txindex, addrindex, addrfeeindex, fee, stat) and then
// removed again (BlockChain.Rollback -> disBlock -> BlockStore.DelTxs -> executor EventDelBlock),
// with a full dump of the local-index key ranges of the blockchain DB before, after every
// connect and after the removal, plus the query answers before and after.
//
// The executor-level mvcc plugin cannot run on a node past height 0 on this tree (the
// hash->version entry of version 0 is the empty encoding of Int64{0}, which the local
// transaction layer reads as deleted, so enableMVCC panics at height 1); its AddMVCC/DelMVCC
// pair is driven directly (executor.AddMVCC / executor.DelMVCC on a KVDB) in the mvcc stream.
package main

import (
	"bytes"
	"encoding/hex"
	"fmt"
	"os"
	"sort"
	"strings"
	"time"

	"github.com/33cn/chain33/common"
	"github.com/33cn/chain33/common/address"
	"github.com/33cn/chain33/common/crypto"
	dbm "github.com/33cn/chain33/common/db"
	"github.com/33cn/chain33/common/log"
	"github.com/33cn/chain33/executor"
	_ "github.com/33cn/chain33/system"
	cty "github.com/33cn/chain33/system/dapp/coins/types"
	"github.com/33cn/chain33/types"
	"github.com/33cn/chain33/util"
	"github.com/33cn/chain33/util/testnode"
	"verifharness/hlib"
)

// ---------- replay format ----------

type txSpec struct {
	Kind   string `json:"kind"` // transfer | toexec | withdraw | none | manage
	From   int    `json:"from"` // account index, -1 = genesis account
	To     int    `json:"to"`   // account index (transfer), ignored otherwise
	Amount int64  `json:"amount"`
	Nonce  int64  `json:"nonce"`
	Group  int    `json:"group,omitempty"` // >0: consecutive txs with the same id form a tx group
}

type verSpec struct { // one version of the mvcc stream
	KVs [][2]string `json:"kvs"` // key, value ("" = nil value)
}

type runIn struct {
	Stream  string     `json:"stream"`
	NAcct   int        `json:"nacct"`
	Prefix  [][]txSpec `json:"prefix,omitempty"` // blocks below the base height
	Blocks  [][]txSpec `json:"blocks,omitempty"` // blocks connected and then removed
	LevelDB bool       `json:"leveldb,omitempty"`
	Base    int        `json:"base,omitempty"`     // mvcc stream: versions kept
	Vers    []verSpec  `json:"versions,omitempty"` // mvcc stream
}

// ---------- node ----------

func quiet() { log.SetLogLevel("crit") }

func newNode(leveldb bool) *testnode.Chain33Mock {
	cfg := types.NewChain33Config(types.GetDefaultCfgstring())
	mc := cfg.GetModuleConfig()
	if !leveldb {
		mc.BlockChain.Driver = "memdb"
	}
	mc.Store.Driver = "memdb"
	mc.Wallet.Driver = "memdb"
	mc.Exec.EnableMVCC = false // see the comment at the top
	mc.Exec.EnableStat = true
	mc.Exec.EnableAddrFeeIndex = true
	mc.Exec.DisableAddrIndex = false
	mc.Exec.DisableTxIndex = false
	mc.Exec.DisableFeeIndex = false
	m := testnode.NewWithConfig(cfg, nil)
	quiet()
	cl := m.GetClient()
	_ = cl.Send(cl.NewMessage("consensus", types.EventMinerStop, nil), false)
	deadline := time.Now().Add(30 * time.Second)
	for m.GetBlockChain().GetBlockHeight() < 0 {
		if time.Now().After(deadline) {
			panic("genesis block not created")
		}
		time.Sleep(2 * time.Millisecond)
	}
	return m
}

func acctKey(i int) crypto.PrivKey {
	c, err := crypto.Load(types.GetSignName("", types.SECP256K1), -1)
	if err != nil {
		panic(err)
	}
	k, err := c.PrivKeyFromBytes(common.Sha256([]byte(fmt.Sprintf("hC14 account %d", i))))
	if err != nil {
		panic(err)
	}
	return k
}

type accounts struct {
	keys  []crypto.PrivKey
	addrs []string
	gkey  crypto.PrivKey
	gaddr string
}

func (a *accounts) key(i int) crypto.PrivKey {
	if i < 0 {
		return a.gkey
	}
	return a.keys[i%len(a.keys)]
}
func (a *accounts) addr(i int) string {
	if i < 0 {
		return a.gaddr
	}
	return a.addrs[i%len(a.addrs)]
}

func buildTx(cfg *types.Chain33Config, ac *accounts, s txSpec) *types.Transaction {
	var tx *types.Transaction
	var err error
	coins := types.LoadExecutorType(cfg.GetCoinExec())
	switch s.Kind {
	case "transfer":
		tx, err = coins.AssertCreate(&types.CreateTx{To: ac.addr(s.To), Amount: s.Amount})
		if err == nil {
			tx.To = ac.addr(s.To)
			tx, err = types.FormatTx(cfg, cfg.GetCoinExec(), tx)
		}
	case "toexec":
		to := address.ExecAddress("manage")
		tx, err = coins.AssertCreate(&types.CreateTx{To: to, Amount: s.Amount, ExecName: "manage"})
		if err == nil {
			tx.To = to
			tx, err = types.FormatTx(cfg, cfg.GetCoinExec(), tx)
		}
	case "withdraw":
		to := address.ExecAddress("manage")
		tx, err = coins.AssertCreate(&types.CreateTx{To: to, Amount: s.Amount, ExecName: "manage", IsWithdraw: true})
		if err == nil {
			tx.To = to
			tx, err = types.FormatTx(cfg, cfg.GetCoinExec(), tx)
		}
	case "manage":
		v := &types.ModifyConfig{Key: "k", Op: "add", Value: fmt.Sprint(s.Nonce), Addr: ""}
		tx, err = types.LoadExecutorType("manage").Create("Modify", v)
		if err == nil {
			tx, err = types.FormatTx(cfg, "manage", tx)
		}
	default: // none
		tx = &types.Transaction{Execer: []byte("none"), Payload: []byte("none")}
		tx.To = address.ExecAddress("none")
		tx, err = types.FormatTx(cfg, "none", tx)
	}
	if err != nil || tx == nil {
		panic(fmt.Sprint("buildTx: ", s.Kind, " ", err))
	}
	tx.Nonce = s.Nonce
	return tx
}

func buildTxs(cfg *types.Chain33Config, ac *accounts, specs []txSpec) []*types.Transaction {
	var txs []*types.Transaction
	for i := 0; i < len(specs); {
		s := specs[i]
		j := i + 1
		if s.Group > 0 {
			for j < len(specs) && specs[j].Group == s.Group {
				j++
			}
		}
		if j-i >= 2 {
			var g []*types.Transaction
			for k := i; k < j; k++ {
				g = append(g, buildTx(cfg, ac, specs[k]))
			}
			grp, err := types.CreateTxGroup(g, cfg.GetMinTxFeeRate())
			if err != nil {
				panic(err)
			}
			for k := i; k < j; k++ {
				if err := grp.SignN(k-i, types.SECP256K1, ac.key(specs[k].From)); err != nil {
					panic(err)
				}
			}
			txs = append(txs, grp.GetTxs()...)
		} else {
			tx := buildTx(cfg, ac, s)
			tx.Sign(types.SECP256K1, ac.key(s.From))
			txs = append(txs, tx)
		}
		i = j
	}
	return txs
}

// connect builds, executes and delivers one block on top of the tip; returns the stored detail
func connect(m *testnode.Chain33Mock, txs []*types.Transaction) *types.BlockDetail {
	cfg := m.GetClient().GetConfig()
	chain := m.GetBlockChain()
	pb, err := chain.GetBlock(chain.GetBlockHeight())
	if err != nil {
		panic(err)
	}
	b := util.CreateNewBlock(cfg, pb.Block, txs)
	d, _, err := util.ExecBlock(m.GetClient(), pb.Block.StateHash, b, false, true, false)
	if err != nil {
		panic(fmt.Sprint("exec block: ", err))
	}
	_, main, orphan, err := chain.ProcessBlock(false, &types.BlockDetail{Block: types.Clone(d.Block).(*types.Block)}, "peer1", true, 0)
	if err != nil || !main || orphan {
		panic(fmt.Sprint("process block: ", err, main, orphan))
	}
	sd, err := chain.GetBlock(d.Block.Height)
	if err != nil {
		panic(err)
	}
	return sd
}

// ---------- interning and rendering ----------

// table: every byte string of a case is written once; long strings containing ':' are written
// as the concatenation of their ':'-terminated chunks (shared between keys), which keeps the
// Gallina term small (Coq's elaboration time is what limits the number of cases)
type table struct {
	idx map[string]int
	all []string // rendered entries
}

func newTable() *table { return &table{idx: map[string]int{}} }
func (t *table) id(b []byte) int {
	if i, ok := t.idx[string(b)]; ok {
		return i
	}
	ent := ""
	var chunks [][]byte
	if len(b) > 20 {
		rest := b
		for {
			i := bytes.IndexByte(rest, ':')
			if i < 0 || i == len(rest)-1 {
				break
			}
			chunks = append(chunks, rest[:i+1])
			rest = rest[i+1:]
		}
		if len(chunks) > 0 {
			chunks = append(chunks, rest)
		}
	}
	if len(chunks) > 1 {
		ids := make([]string, len(chunks))
		for i, c := range chunks {
			ids[i] = fmt.Sprint(t.id(c))
		}
		ent = "C [" + strings.Join(ids, "; ") + "]"
	} else {
		ent = "L " + hlib.Hx(b)
	}
	t.idx[string(b)] = len(t.all)
	t.all = append(t.all, ent)
	return len(t.all) - 1
}
func (t *table) n(b []byte) string { return fmt.Sprint(t.id(b)) }
func (t *table) render() string    { return hlib.List(t.all) }

// zs renders an int64 for a file with Z_scope open
func zs(v int64) string {
	if v < 0 {
		return fmt.Sprintf("(%d)", v)
	}
	return fmt.Sprint(v)
}

type entry struct {
	K string `json:"k"`
	V string `json:"v"`
}

var dumpPrefixes = []string{"TX:", "STX:", "ETX:", "TxAddrHash:", "TxAddrDirHash:", "TxFeeAddrDirHash:", "AddrTxsCount:",
	"TotalFeeKey:", ".-mvcc-.", "LODB", "FLAG:", "Statistics:"}

func dumpDB(db dbm.DB, all bool) []entry {
	var res []entry
	it := db.Iterator(nil, nil, false)
	defer it.Close()
	for it.Rewind(); it.Valid(); it.Next() {
		k := string(it.Key())
		ok := all
		for _, p := range dumpPrefixes {
			if strings.HasPrefix(k, p) {
				ok = true
				break
			}
		}
		if ok {
			res = append(res, entry{K: k, V: string(it.Value())})
		}
	}
	sort.Slice(res, func(i, j int) bool { return res[i].K < res[j].K })
	return res
}

func unhex0x(s string) []byte {
	b, err := common.FromHex(s)
	if err != nil {
		return []byte(s)
	}
	return b
}

// renderVal decodes a stored value by its key family into the tagged form of the model
func renderVal(t *table, k string, v []byte) string {
	other := func() string { return hlib.App("COther", t.n(v)) }
	reenc := func(m types.Message) bool { return bytes.Equal(types.Encode(m), v) }
	switch {
	case strings.HasPrefix(k, "TX:"):
		var r types.TxResult
		if types.Decode(v, &r) != nil || r.Tx == nil || r.Receiptdate == nil {
			return other()
		}
		return hlib.App("CTxRes", zs(r.Height), zs(int64(r.Index)), t.n(r.Tx.Hash()), zs(int64(r.Receiptdate.Ty)), zs(r.Blocktime))
	case strings.HasPrefix(k, "STX:"):
		if string(v) == "1" {
			return "COne"
		}
		return other()
	case strings.HasPrefix(k, "TxAddrHash:"), strings.HasPrefix(k, "TxAddrDirHash:"):
		var r types.ReplyTxInfo
		if types.Decode(v, &r) != nil {
			return other()
		}
		return hlib.App("CInfo", t.n(r.Hash), zs(r.Height), zs(r.Index))
	case strings.HasPrefix(k, "TxFeeAddrDirHash:"):
		var r types.AddrTxFeeInfo
		if types.Decode(v, &r) != nil || !reenc(&r) {
			return other()
		}
		return hlib.App("CFeeInfo", t.n(unhex0x(r.TxHash)), zs(r.Height), zs(r.Index), zs(r.Fee), zs(int64(r.TxStatus)),
			t.n([]byte(r.FromAddr)), t.n([]byte(r.ToAddr)), t.n([]byte(r.Exec)))
	case strings.HasPrefix(k, "AddrTxsCount:"), strings.HasPrefix(k, "LODB-coins-Addr:"):
		var r types.Int64
		if types.Decode(v, &r) != nil || !reenc(&r) {
			return other()
		}
		return hlib.App("CInt", zs(r.Data))
	case strings.HasPrefix(k, "TotalFeeKey:"):
		var r types.TotalFee
		if types.Decode(v, &r) != nil || !reenc(&r) {
			return other()
		}
		return hlib.App("CTotal", zs(r.Fee), zs(r.TxCount))
	case strings.HasPrefix(k, ".-mvcc-.m.versionkl."):
		var r types.LocalDBSet
		if types.Decode(v, &r) != nil || !reenc(&r) {
			return other()
		}
		ks := make([]string, len(r.KV))
		for i, kv := range r.KV {
			if len(kv.Value) != 0 {
				return other()
			}
			ks[i] = t.n(kv.Key)
		}
		return hlib.App("CKeys", hlib.List(ks))
	case strings.HasPrefix(k, ".-mvcc-.m.version."), strings.HasPrefix(k, ".-mvcc-.d."):
		return hlib.App("CRaw", t.n(v))
	case strings.HasPrefix(k, ".-mvcc-.m."):
		var r types.Int64
		if types.Decode(v, &r) != nil || !reenc(&r) {
			return other()
		}
		return hlib.App("CInt", zs(r.Data))
	}
	return other()
}

func renderDump(t *table, d []entry) string {
	it := make([]string, len(d))
	for i, e := range d {
		it[i] = hlib.Pair(t.n([]byte(e.K)), renderVal(t, e.K, []byte(e.V)))
	}
	return hlib.List(it)
}

// renderDiff renders dump cur as its changes relative to dump prev (both sorted by key)
func renderDiff(t *table, prev, cur []entry) string {
	pm := map[string]string{}
	for _, e := range prev {
		pm[e.K] = e.V
	}
	var it []string
	for _, e := range cur {
		v, ok := pm[e.K]
		if !ok || v != e.V {
			it = append(it, hlib.Pair(t.n([]byte(e.K)), "Some "+renderVal(t, e.K, []byte(e.V))))
		}
		delete(pm, e.K)
	}
	var gone []string
	for k := range pm {
		gone = append(gone, k)
	}
	sort.Strings(gone)
	for _, k := range gone {
		it = append(it, hlib.Pair(t.n([]byte(k)), "None"))
	}
	return hlib.List(it)
}

// ---------- block description ----------

type txDesc struct {
	Hash   []byte
	From   string
	To     string
	Fee    int64
	Rty    int32
	Exec   string
	Kind   int
	Amount int64
}

func describe(cfg *types.Chain33Config, d *types.BlockDetail) []txDesc {
	res := make([]txDesc, len(d.Block.Txs))
	for i, tx := range d.Block.Txs {
		td := txDesc{Hash: tx.Hash(), From: tx.From(), To: tx.GetRealToAddr(), Fee: tx.Fee, Rty: d.Receipts[i].Ty, Exec: string(tx.Execer)}
		if string(tx.Execer) == cfg.GetCoinExec() {
			var act cty.CoinsAction
			if types.Decode(tx.Payload, &act) == nil {
				switch act.Ty {
				case cty.CoinsActionTransfer:
					if x := act.GetTransfer(); x != nil {
						td.Kind, td.Amount = 1, x.Amount
					}
				case cty.CoinsActionTransferToExec:
					if x := act.GetTransferToExec(); x != nil {
						td.Kind, td.Amount = 2, x.Amount
					}
				case cty.CoinsActionWithdraw:
					if x := act.GetWithdraw(); x != nil {
						td.Kind, td.Amount = 3, x.Amount
					}
				}
			}
		}
		res[i] = td
	}
	return res
}

func renderBlock(t *table, cfg *types.Chain33Config, d *types.BlockDetail, descs []txDesc) string {
	txs := make([]string, len(descs))
	for i, x := range descs {
		txs[i] = hlib.App("CTx", t.n(x.Hash), t.n([]byte(x.From)), t.n([]byte(x.To)), zs(x.Fee), zs(int64(x.Rty)),
			t.n([]byte(x.Exec)), zs(int64(x.Kind)), zs(x.Amount))
	}
	b := d.Block
	return hlib.App("CBlk", zs(b.Height), zs(b.BlockTime), t.n(b.Hash(cfg)), t.n(b.ParentHash), hlib.List(txs),
		t.n(b.StateHash), "None", "[]")
}

// ---------- queries ----------

type addrAns struct {
	Addr  string     `json:"addr"`
	Count int64      `json:"count"`
	Recv  int64      `json:"recv"`
	L     [3][]tinfo `json:"l"`
	Fees  []finfo    `json:"fees"`
}
type tinfo struct {
	Hash   string `json:"h"`
	Height int64  `json:"ht"`
	Index  int64  `json:"ix"`
}
type finfo struct {
	Hash   string `json:"h"`
	Height int64  `json:"ht"`
	Index  int64  `json:"ix"`
	Fee    int64  `json:"fee"`
}
type txAns struct {
	Hash   string `json:"h"`
	Found  bool   `json:"found"`
	Height int64  `json:"ht"`
	Index  int64  `json:"ix"`
}
type totAns struct {
	Hash  string `json:"h"`
	Found bool   `json:"found"`
	Fee   int64  `json:"fee"`
	Count int64  `json:"count"`
}
type queryAns struct {
	Addrs  []addrAns `json:"addrs"`
	Txs    []txAns   `json:"txs"`
	Totals []totAns  `json:"totals"`
}

func runQueries(m *testnode.Chain33Mock, addrs []string, txhashes, blockhashes [][]byte) queryAns {
	api := m.GetAPI()
	cfg := m.GetClient().GetConfig()
	coin := cfg.GetCoinExec()
	var q queryAns
	for _, a := range addrs {
		ans := addrAns{Addr: a}
		if r, err := api.Query(coin, "GetAddrTxsCount", &types.ReqKey{Key: types.CalcAddrTxsCountKey(a)}); err == nil {
			ans.Count = r.(*types.Int64).Data
		}
		if r, err := api.Query(coin, "GetAddrReciver", &types.ReqAddr{Addr: a}); err == nil {
			ans.Recv = r.(*types.Int64).Data
		}
		for flag := int32(0); flag < 3; flag++ {
			r, err := api.Query(coin, "GetTxsByAddr", &types.ReqAddr{Addr: a, Flag: flag, Count: 1000, Direction: 1, Height: -1})
			if err != nil {
				continue
			}
			for _, x := range r.(*types.ReplyTxInfos).TxInfos {
				ans.L[flag] = append(ans.L[flag], tinfo{hex.EncodeToString(x.Hash), x.Height, x.Index})
			}
		}
		if r, err := api.Query(coin, "GetTxsFeeByAddr", &types.ReqAddr{Addr: a, Count: 1000, Direction: 1, Height: -1}); err == nil {
			for _, x := range r.(*types.AddrTxFeeInfos).TxInfos {
				ans.Fees = append(ans.Fees, finfo{hex.EncodeToString(unhex0x(x.TxHash)), x.Height, x.Index, x.Fee})
			}
		}
		q.Addrs = append(q.Addrs, ans)
	}
	for _, h := range txhashes {
		ans := txAns{Hash: hex.EncodeToString(h)}
		if r, err := m.GetBlockChain().GetTxResultFromDb(h); err == nil && r != nil {
			ans.Found, ans.Height, ans.Index = true, r.Height, int64(r.Index)
		}
		q.Txs = append(q.Txs, ans)
	}
	for _, h := range blockhashes {
		ans := totAns{Hash: hex.EncodeToString(h)}
		if r, err := api.LocalGet(&types.LocalDBGet{Keys: [][]byte{types.TotalFeeKey(h)}}); err == nil && len(r.Values) == 1 && len(r.Values[0]) > 0 {
			var tf types.TotalFee
			if types.Decode(r.Values[0], &tf) == nil {
				ans.Found, ans.Fee, ans.Count = true, tf.Fee, tf.TxCount
			}
		}
		q.Totals = append(q.Totals, ans)
	}
	return q
}

func unhex(s string) []byte { b, _ := hex.DecodeString(s); return b }

func renderQuery(t *table, q queryAns) string {
	as := make([]string, len(q.Addrs))
	for i, a := range q.Addrs {
		var ls [3]string
		for f := 0; f < 3; f++ {
			it := make([]string, len(a.L[f]))
			for j, x := range a.L[f] {
				it[j] = fmt.Sprintf("(%s, %s, %s)", t.n(unhex(x.Hash)), zs(x.Height), zs(x.Index))
			}
			ls[f] = hlib.List(it)
		}
		fs := make([]string, len(a.Fees))
		for j, x := range a.Fees {
			fs[j] = fmt.Sprintf("(%s, %s, %s, %s)", t.n(unhex(x.Hash)), zs(x.Height), zs(x.Index), zs(x.Fee))
		}
		as[i] = hlib.App("CAddr", t.n([]byte(a.Addr)), zs(a.Count), zs(a.Recv), ls[0], ls[1], ls[2], hlib.List(fs))
	}
	txs := make([]string, len(q.Txs))
	for i, x := range q.Txs {
		txs[i] = hlib.Pair(t.n(unhex(x.Hash)), hlib.Opt(x.Found, hlib.Pair(zs(x.Height), zs(x.Index))))
	}
	tots := make([]string, len(q.Totals))
	for i, x := range q.Totals {
		tots[i] = hlib.Pair(t.n(unhex(x.Hash)), hlib.Opt(x.Found, hlib.Pair(zs(x.Fee), zs(x.Count))))
	}
	return hlib.App("mkQ", hlib.List(as), hlib.List(txs), hlib.List(tots))
}

// ---------- one node run ----------

type runOut struct {
	D0      []entry   `json:"-"`
	Dumps   [][]entry `json:"-"`
	DEnd    []entry   `json:"-"`
	Q0      queryAns  `json:"q0"`
	QEnd    queryAns  `json:"qend"`
	Rtys    [][]int32 `json:"receipt_types"`
	Diff    []string  `json:"diff_end_vs_base,omitempty"`
	Panic   string    `json:"panic,omitempty"`
	Guarded bool      `json:"guarded"`
	Heights [2]int64  `json:"heights"`
	descs   [][]txDesc
	details []*types.BlockDetail
}

func diffDumps(a, b []entry) []string {
	am := map[string]string{}
	for _, e := range a {
		am[e.K] = e.V
	}
	var res []string
	for _, e := range b {
		v, ok := am[e.K]
		if !ok {
			res = append(res, fmt.Sprintf("+ %q = %x", e.K, e.V))
		} else if v != e.V {
			res = append(res, fmt.Sprintf("~ %q : %x -> %x", e.K, v, e.V))
		}
		delete(am, e.K)
	}
	for k, v := range am {
		res = append(res, fmt.Sprintf("- %q = %x", k, v))
	}
	sort.Strings(res)
	return res
}

func runNode(in runIn) (out runOut, cfg *types.Chain33Config) {
	m := newNode(in.LevelDB)
	defer m.Close()
	cfg = m.GetClient().GetConfig()
	ac := &accounts{gkey: m.GetGenesisKey(), gaddr: m.GetGenesisAddress()}
	for i := 0; i < in.NAcct; i++ {
		k := acctKey(i)
		ac.keys = append(ac.keys, k)
		ac.addrs = append(ac.addrs, address.PubKeyToAddr(address.DefaultID, k.PubKey().Bytes()))
	}
	chain := m.GetBlockChain()
	db := chain.GetDB()
	var txhashes, blockhashes [][]byte
	for _, specs := range in.Prefix {
		d := connect(m, buildTxs(cfg, ac, specs))
		blockhashes = append(blockhashes, d.Block.Hash(cfg))
	}
	base := chain.GetBlockHeight()
	out.Heights[0] = base
	out.D0 = dumpDB(db, false)
	out.Guarded = true
	for _, specs := range in.Blocks {
		d := connect(m, buildTxs(cfg, ac, specs))
		out.details = append(out.details, d)
		ds := describe(cfg, d)
		out.descs = append(out.descs, ds)
		var rt []int32
		for _, x := range ds {
			txhashes = append(txhashes, x.Hash)
			rt = append(rt, x.Rty)
			if x.Kind != 0 && x.Rty != types.ExecOk {
				out.Guarded = false
			}
		}
		out.Rtys = append(out.Rtys, rt)
		blockhashes = append(blockhashes, d.Block.Hash(cfg))
		out.Dumps = append(out.Dumps, dumpDB(db, false))
	}
	addrs := append([]string{ac.gaddr, address.ExecAddress("manage"), address.ExecAddress("none")}, ac.addrs...)
	out.Heights[1] = chain.GetBlockHeight()
	// remove the blocks again
	func() {
		defer func() {
			if e := recover(); e != nil {
				out.Panic = fmt.Sprint(e)
			}
		}()
		m.GetCfg().BlockChain.RollbackBlock = base
		chain.Rollback()
	}()
	out.DEnd = dumpDB(db, false)
	out.QEnd = runQueries(m, addrs, txhashes, blockhashes)
	out.Diff = diffDumps(out.D0, out.DEnd)
	// the "before" answers come from a twin node that only gets the prefix blocks (same
	// transactions, hence the same local DB at the base height: checked)
	m2 := newNode(in.LevelDB)
	defer m2.Close()
	for _, specs := range in.Prefix {
		connect(m2, buildTxs(cfg, ac, specs))
	}
	if d2 := dumpDB(m2.GetBlockChain().GetDB(), false); len(diffDumps(out.D0, d2)) != 0 {
		out.Panic += " twin node differs at the base height"
	}
	out.Q0 = runQueries(m2, addrs, txhashes, blockhashes)
	return out, cfg
}

func renderRun(in runIn, out runOut, cfg *types.Chain33Config) string {
	t := newTable()
	d0 := renderDump(t, out.D0)
	blocks := make([]string, len(out.details))
	for i, d := range out.details {
		blocks[i] = renderBlock(t, cfg, d, out.descs[i])
	}
	dumps := make([]string, len(out.Dumps))
	prev := out.D0
	for i, d := range out.Dumps {
		dumps[i] = renderDiff(t, prev, d)
		prev = d
	}
	dend := renderDiff(t, out.D0, out.DEnd)
	if out.Panic != "" {
		dend = "[(0, Some COne)]" // not what any model run produces
	}
	q0 := renderQuery(t, out.Q0)
	qend := renderQuery(t, out.QEnd)
	cf := "(mkCfg true true true false true true)"
	return hlib.App("CRun", t.render(), cf, d0, hlib.List(blocks), hlib.List(dumps), dend, q0, qend, hlib.Bool(out.Guarded))
}

// ---------- mvcc stream: executor.AddMVCC / executor.DelMVCC on a KVDB ----------

func applyKVs(db dbm.DB, kvs []*types.KeyValue) {
	// what BlockStore.AddTxs / DelTxs do with the returned list
	batch := db.NewBatch(true)
	for _, kv := range kvs {
		if kv.Value == nil {
			batch.Delete(kv.Key)
		} else {
			batch.Set(kv.Key, kv.Value)
		}
	}
	dbm.MustWrite(batch)
}

func runMvcc(in runIn) (coq string, impl map[string]interface{}, nontrivial bool) {
	dir, ldb, kvdb := util.CreateTestDB()
	defer util.CloseTestDB(dir, ldb)
	t := newTable()
	impl = map[string]interface{}{}
	hashOf := func(v int) []byte { return common.Sha256([]byte(fmt.Sprintf("state %d", v))) }
	mk := func(v int) *types.BlockDetail {
		d := &types.BlockDetail{Block: &types.Block{Height: int64(v), StateHash: hashOf(v)}}
		if v > 0 {
			d.PrevStatusHash = hashOf(v - 1)
		}
		for _, kv := range in.Vers[v].KVs {
			x := &types.KeyValue{Key: []byte(kv[0])}
			if kv[1] != "" {
				x.Value = []byte(kv[1])
			}
			d.KV = append(d.KV, x)
		}
		return d
	}
	call := func(f func() []*types.KeyValue) (kvs []*types.KeyValue, pan string) {
		defer func() {
			if e := recover(); e != nil {
				pan = fmt.Sprint(e)
			}
		}()
		return f(), ""
	}
	panics := ""
	for v := 0; v < in.Base; v++ {
		d := mk(v)
		kvs, pan := call(func() []*types.KeyValue { return executor.AddMVCC(kvdb, d) })
		panics += pan
		applyKVs(ldb, kvs)
	}
	d0 := dumpDB(ldb, true)
	r0 := renderDump(t, d0)
	var blocks, dumps []string
	prevDump := d0
	for v := in.Base; v < len(in.Vers); v++ {
		d := mk(v)
		kvs, pan := call(func() []*types.KeyValue { return executor.AddMVCC(kvdb, d) })
		panics += pan
		applyKVs(ldb, kvs)
		kvr := make([]string, len(d.KV))
		for i, kv := range d.KV {
			val := "None"
			if kv.Value != nil {
				val = "(Some " + t.n(kv.Value) + ")"
			}
			kvr[i] = hlib.Pair(t.n(kv.Key), val)
		}
		prev := "None"
		if d.PrevStatusHash != nil {
			prev = "(Some " + t.n(d.PrevStatusHash) + ")"
		}
		blocks = append(blocks, hlib.App("CBlk", zs(int64(v)), zs(0), t.n(nil), t.n(nil), "[]", t.n(d.Block.StateHash), prev, hlib.List(kvr)))
		cur := dumpDB(ldb, true)
		dumps = append(dumps, renderDiff(t, prevDump, cur))
		prevDump = cur
		nontrivial = nontrivial || len(d.KV) > 0
	}
	for v := len(in.Vers) - 1; v >= in.Base; v-- {
		d := mk(v)
		d.KV = nil // a block loaded from the store carries no state KVs
		kvs, pan := call(func() []*types.KeyValue { return executor.DelMVCC(kvdb, d) })
		panics += pan
		applyKVs(ldb, kvs)
	}
	dend := dumpDB(ldb, true)
	impl["panic"] = panics
	impl["diff_end_vs_base"] = diffDumps(d0, dend)
	rend := renderDiff(t, d0, dend)
	if panics != "" {
		rend = "[(0, Some COne)]" // a panic is an observable: the model never fails on these inputs
	}
	empty := "(mkQ [] [] [])"
	cf := "(mkCfg false false false true false false)"
	return hlib.App("CRun", t.render(), cf, r0, hlib.List(blocks), hlib.List(dumps), rend, empty, empty, "true"), impl, nontrivial
}

// ---------- generators ----------

func genBlock(r *hlib.Rng, nacct, ntx int, nonce *int64, failing bool, groups bool) []txSpec {
	var res []txSpec
	gid := 0
	for len(res) < ntx {
		*nonce++
		s := txSpec{From: r.Intn(nacct), To: r.Intn(nacct), Amount: int64(r.Range(1, 5)) * 1000, Nonce: *nonce}
		switch x := r.Intn(20); {
		case x < 9:
			s.Kind = "transfer"
			if s.To == s.From { // a self-transfer is rejected by the account layer (ExecPack)
				if !failing {
					s.To = (s.From + 1) % nacct
				}
			}
			if failing && r.Chance(1, 4) {
				s.Amount = 1e15 // more than the balance: ExecPack
			}
		case x < 12:
			s.Kind = "toexec"
		case x < 14:
			s.Kind = "none"
		case x < 16:
			s.Kind = "manage"
		case x < 17 && failing:
			s.Kind = "withdraw"
		default:
			s.Kind = "transfer"
			s.To = r.Intn(2) // repeated addresses
			if s.To == s.From && !failing {
				s.To = (s.From + 1) % nacct
			}
		}
		if groups && r.Chance(1, 5) && len(res)+2 <= ntx {
			gid++
			s.Group = gid
			res = append(res, s)
			*nonce++
			s2 := txSpec{Kind: "transfer", From: r.Intn(nacct), To: r.Intn(nacct), Amount: 700, Nonce: *nonce, Group: gid}
			if s2.To == s2.From && !failing {
				s2.To = (s2.From + 1) % nacct
			}
			res = append(res, s2)
			continue
		}
		res = append(res, s)
	}
	return res
}

func fundBlock(nacct int, nonce *int64) []txSpec {
	var res []txSpec
	for i := 0; i < nacct; i++ {
		*nonce++
		res = append(res, txSpec{Kind: "transfer", From: -1, To: i, Amount: 50 * types.DefaultCoinPrecision, Nonce: *nonce})
	}
	return res
}

func genMvcc(r *hlib.Rng) runIn {
	keys := []string{"a", "b", "a.", "mavl-coins-x", "k1", "k2"}
	n := r.Range(1, 4)
	base := r.Intn(n)
	in := runIn{Stream: "mvcc", Base: base}
	for v := 0; v < n; v++ {
		var vs verSpec
		for i := r.Range(1, 4); i > 0; i-- {
			val := fmt.Sprintf("v%d", r.Intn(50))
			if r.Chance(1, 6) {
				val = "" // nil value: the state key is deleted at this version
			}
			vs.KVs = append(vs.KVs, [2]string{hlib.Pick(r, keys), val})
		}
		in.Vers = append(in.Vers, vs)
	}
	return in
}

// ---------- main ----------

func main() {
	quiet()
	opts := hlib.ParseFlags()
	o := hlib.NewOut(opts.OutDir)
	defer o.Close()
	start := time.Now()

	emit := func(in runIn) {
		if in.Stream == "mvcc" {
			coq, impl, nt := runMvcc(in)
			o.Emit("mvcc-direct", nt, coq, in, impl)
			return
		}
		out, cfg := runNode(in)
		if out.Panic != "" {
			fmt.Fprintln(os.Stderr, "hC14: removal panicked:", out.Panic)
			// renderRun turns this into a final dump that no model run produces
		}
		kind := in.Stream
		// label: did a coins transaction with a local effect fail (the runs that exercise the
		// receipt test of Coins.ExecLocal / callLocal)
		if out.Guarded {
			kind = "allok/" + kind
		} else {
			kind = "failed/" + kind
		}
		ntx := 0
		for _, b := range out.descs {
			ntx += len(b)
		}
		o.Emit(kind, ntx >= 2, renderRun(in, out, cfg), in, out)
	}

	if opts.Replay != "" {
		var in runIn
		if err := hlib.ReplayInput(opts.Replay, &in); err != nil {
			panic(err)
		}
		emit(in)
		return
	}

	r := hlib.NewRng(opts.Seed)
	nRuns, nMvcc, budget := 40, 60, 70*time.Second
	if opts.Thorough() {
		nRuns, nMvcc, budget = 600, 2000, 40*time.Minute
	}
	over := func() bool { return time.Since(start) > budget }

	// the witness of the fixed finding 1 (failed self-transfer: the receiver total must not move) and its successful twin, first
	{
		nonce := int64(1000)
		emit(runIn{Stream: "witness-failed-transfer", NAcct: 2, Prefix: [][]txSpec{fundBlock(2, &nonce)},
			Blocks: [][]txSpec{{{Kind: "transfer", From: 0, To: 0, Amount: 5, Nonce: 1}}}})
		emit(runIn{Stream: "witness-ok-transfer", NAcct: 2, Prefix: [][]txSpec{fundBlock(2, &nonce)},
			Blocks: [][]txSpec{{{Kind: "transfer", From: 0, To: 1, Amount: 5, Nonce: 1}}}})
	}
	for i := 0; i < nMvcc && !over(); i++ {
		emit(genMvcc(r))
	}
	for i := 0; i < nRuns && !over(); i++ {
		nacct := r.Range(2, 4)
		nonce := int64(i) * 100000
		in := runIn{Stream: "node", NAcct: nacct, LevelDB: i%7 == 3}
		in.Prefix = append(in.Prefix, fundBlock(nacct, &nonce))
		failing := i%3 == 2
		groups := i%4 == 1
		for k := r.Intn(2); k > 0; k-- {
			in.Prefix = append(in.Prefix, genBlock(r, nacct, r.Range(1, 4), &nonce, failing, false))
		}
		nb := r.Range(1, 3)
		if i < 6 {
			nb = 1
		}
		for k := 0; k < nb; k++ {
			in.Blocks = append(in.Blocks, genBlock(r, nacct, r.Range(1, 5), &nonce, failing, groups))
		}
		if failing {
			in.Stream = "node-failing"
		} else if groups {
			in.Stream = "node-groups"
		}
		emit(in)
	}
	if over() {
		fmt.Fprintln(os.Stderr, "hC14: time budget reached after", o.Count(), "cases")
	}
}
