package main

// Child roles of hC29 (selected by the environment variable VERIF_C29_ROLE, so that the parent's
// command line stays the common one):
//
//	crash    start a node on the "crashleveldb" backend over VERIF_C29_DATA, deliver the
//	         job's blocks in order through BlockChain.ProcessBlock; the backend terminates the
//	         process at the chosen durable write (exit 77).  When the history completes, the
//	         observables are written and the process exits WITHOUT closing anything (exit 0).
//	restart  start a node on the same data directory, read the observables, then deliver the
//	         whole order again and read the observables once more.

import (
	"encoding/hex"
	"encoding/json"
	"fmt"
	"os"
	"time"

	"github.com/33cn/chain33/client"
	"github.com/33cn/chain33/common/log"
	_ "github.com/33cn/chain33/system"
	"github.com/33cn/chain33/types"
	"github.com/33cn/chain33/util/testnode"
)

type job struct {
	Blocks []string `json:"blocks"` // hex(types.Encode(block)), index 0 = genesis
	Order  []int    `json:"order"`
	Keys   []string `json:"keys"` // state keys (hex) read at the tip's state hash
	Out    string   `json:"out"`
}

// obs: what a node reports about its persisted chain.  Block identities are indices into the
// job's block list (unknownID for a hash that is none of them, -1 for "absent").
type obs struct {
	Height    int64    `json:"height"`
	Last      int      `json:"last"`      // last header's hash
	LastH     int64    `json:"lasth"`     // last header's height
	Tip       int      `json:"tip"`       // best-chain tip of the in-memory view
	ByHeight  []int    `json:"byheight"`  // hash at heights 0..Height+3 (-1 = none)
	Loadable  []bool   `json:"loadable"`  // LoadBlock(height) gives header, body and receipts: heights 0..Height
	HdrByH    []int    `json:"hdrbyh"`    // GetBlockHeaderByHeight: heights 0..Height+3 (-1 = none)
	Tx        []int64  `json:"tx"`        // per block i: height recorded by GetTx for its transactions, -1 = none found, txMixed = they disagree
	Td        []string `json:"td"`        // per block i: stored total difficulty, "" = none
	Stored    []bool   `json:"stored"`    // per block i: LoadBlockByHash works
	State     []string `json:"state"`     // values (hex) of the job's keys at the tip's state hash
	LastSeq   int64    `json:"lastseq"`   // -1 = none
	Seq       [][2]int `json:"seq"`       // records 0..LastSeq: (block, type), (-1,0) = missing
	SeqOfHash []int64  `json:"seqofhash"` // per block i: GetSequenceByHash, -1 = none
}

type childOut struct {
	First obs    `json:"first"`
	Steps []int  `json:"steps,omitempty"` // restart: error class per re-delivery
	Final *obs   `json:"final,omitempty"`
	Panic string `json:"panic,omitempty"`
}

const unknownID = 999999

// txMixed: the index records of one block's transactions disagree (some present, some absent,
// or different heights)
const txMixed = -2

func quiet() { log.SetLogLevel("crit") }

func stopMiner(m *testnode.Chain33Mock) {
	cl := m.GetClient()
	msg := cl.NewMessage("consensus", types.EventMinerStop, nil)
	_ = cl.Send(msg, false)
}

// noAPI: never called (the RPC server of the test node does not listen).
type noAPI struct{ client.QueueProtocolAPI }

func crashNode() *testnode.Chain33Mock {
	cfg := types.NewChain33Config(types.GetDefaultCfgstring())
	mc := cfg.GetModuleConfig()
	mc.BlockChain.Driver = "crashleveldb"
	mc.Store.Driver = "crashleveldb"
	mc.Wallet.Driver = "memdb"
	// A non-nil API makes testnode skip its wallet set-up (seed, key imports).  The imports start
	// background rescans that query the blockchain while blocks are being (dis)connected, and
	// wallet.GetTxDetailByHashs dereferences a nil Transaction when a listed transaction has just
	// been removed by a disconnect: the process dies.  The wallet is not part of this property.
	m := testnode.NewWithConfig(cfg, noAPI{})
	quiet()
	stopMiner(m)
	deadline := time.Now().Add(60 * time.Second)
	for m.GetBlockChain().GetBlockHeight() < 0 {
		if time.Now().After(deadline) {
			panic("genesis block not created")
		}
		time.Sleep(2 * time.Millisecond)
	}
	return m
}

func errClass(err error) int {
	switch err {
	case nil:
		return 0
	case types.ErrBlockExist:
		return 1
	case types.ErrParentBlockNoExist:
		return 2
	case types.ErrBlockHeightNoMatch:
		return 3
	}
	return 9
}

func loadJob(path string) (job, []*types.Block) {
	var j job
	b, err := os.ReadFile(path)
	if err != nil {
		panic(err)
	}
	if err := json.Unmarshal(b, &j); err != nil {
		panic(err)
	}
	blocks := make([]*types.Block, len(j.Blocks))
	for i, h := range j.Blocks {
		raw, err := hex.DecodeString(h)
		if err != nil {
			panic(err)
		}
		var blk types.Block
		if err := types.Decode(raw, &blk); err != nil {
			panic(err)
		}
		blocks[i] = &blk
	}
	return j, blocks
}

func observe(m *testnode.Chain33Mock, blocks []*types.Block, keys []string) obs {
	cfg := m.GetClient().GetConfig()
	chain := m.GetBlockChain()
	store := chain.GetStore()
	ids := map[string]int{}
	for i, b := range blocks {
		ids[string(b.Hash(cfg))] = i
	}
	idOf := func(h []byte) int {
		if i, ok := ids[string(h)]; ok {
			return i
		}
		return unknownID
	}
	var o obs
	o.Height = store.Height()
	last := store.LastHeader()
	o.Last, o.LastH = idOf(last.Hash), last.Height
	o.Tip = -1
	if hdr, err := chain.ProcGetLastHeaderMsg(); err == nil && hdr != nil {
		o.Tip = idOf(hdr.Hash)
	}
	for h := int64(0); h <= o.Height+3; h++ {
		id := -1
		if hash, err := store.GetBlockHashByHeight(h); err == nil && hash != nil {
			id = idOf(hash)
		}
		o.ByHeight = append(o.ByHeight, id)
		hid := -1
		if hdr, err := store.GetBlockHeaderByHeight(h); err == nil && hdr != nil {
			hid = idOf(hdr.Hash)
		}
		o.HdrByH = append(o.HdrByH, hid)
		if h <= o.Height {
			d, err := store.LoadBlock(h, nil)
			ok := err == nil && d != nil && d.Block != nil && idOf(d.Block.Hash(cfg)) == id &&
				len(d.Receipts) == len(d.Block.Txs) && len(d.Block.Txs) > 0
			o.Loadable = append(o.Loadable, ok)
		}
	}
	var tipState []byte
	for i, b := range blocks {
		hash := b.Hash(cfg)
		// every transaction of the block: the height its index record gives (-1 = no record);
		// txMixed when the transactions of one block disagree
		th := int64(-1)
		for ti, tx := range b.Txs {
			x := int64(-1)
			if r, err := store.GetTx(tx.Hash()); err == nil && r != nil {
				x = r.Height
				if x < 0 {
					x = txMixed
				}
			}
			if ti == 0 {
				th = x
			} else if x != th {
				th = txMixed
			}
		}
		o.Tx = append(o.Tx, th)
		td := ""
		if v, err := store.GetTdByBlockHash(hash); err == nil && v != nil {
			td = v.String()
		}
		o.Td = append(o.Td, td)
		d, err := store.LoadBlockByHash(hash)
		o.Stored = append(o.Stored, err == nil && d != nil && d.Block != nil)
		sq, err := store.GetSequenceByHash(hash)
		if err != nil {
			sq = -1
		}
		o.SeqOfHash = append(o.SeqOfHash, sq)
		if i == o.Last {
			tipState = b.StateHash
		}
	}
	if o.Last == unknownID {
		tipState = last.StateHash
	}
	// state at the tip
	if tipState != nil && len(keys) > 0 {
		ks := make([][]byte, len(keys))
		for i, k := range keys {
			ks[i], _ = hex.DecodeString(k)
		}
		cl := m.GetClient()
		msg := cl.NewMessage("store", types.EventStoreGet, &types.StoreGet{StateHash: tipState, Keys: ks})
		if err := cl.Send(msg, true); err == nil {
			if resp, err := cl.WaitTimeout(msg, 20*time.Second); err == nil {
				if rv, ok := resp.GetData().(*types.StoreReplyValue); ok {
					for _, v := range rv.Values {
						o.State = append(o.State, hex.EncodeToString(v))
					}
				}
			}
		}
	}
	o.LastSeq = -1
	if ls, err := store.LoadBlockLastSequence(); err == nil {
		o.LastSeq = ls
	}
	for k := int64(0); k <= o.LastSeq; k++ {
		seq, err := store.GetBlockSequence(k)
		if err != nil || seq == nil {
			o.Seq = append(o.Seq, [2]int{-1, 0})
			continue
		}
		o.Seq = append(o.Seq, [2]int{idOf(seq.Hash), int(seq.Type)})
	}
	return o
}

func deliverAll(m *testnode.Chain33Mock, blocks []*types.Block, order []int) (steps []int, pan string) {
	chain := m.GetBlockChain()
	for _, i := range order {
		func() {
			defer func() {
				if e := recover(); e != nil {
					pan = fmt.Sprint(e)
				}
			}()
			_, _, _, err := chain.ProcessBlock(false, &types.BlockDetail{Block: types.Clone(blocks[i]).(*types.Block)}, "peer1", true, 0)
			steps = append(steps, errClass(err))
		}()
		if pan != "" {
			return
		}
	}
	return
}

func writeOut(path string, v interface{}) {
	b, err := json.Marshal(v)
	if err != nil {
		panic(err)
	}
	if err := os.WriteFile(path+".tmp", b, 0o644); err != nil {
		panic(err)
	}
	if err := os.Rename(path+".tmp", path); err != nil {
		panic(err)
	}
}

func childMain(role string) {
	quiet()
	crashInit()
	j, blocks := loadJob(os.Getenv("VERIF_C29_JOB"))
	var out childOut
	defer func() {
		if e := recover(); e != nil {
			out.Panic = fmt.Sprint(e)
			writeOut(j.Out, out)
			os.Exit(3)
		}
	}()
	m := crashNode()
	cfg := m.GetClient().GetConfig()
	if g0, err := m.GetBlockChain().GetBlock(0); err != nil || string(g0.Block.Hash(cfg)) != string(blocks[0].Hash(cfg)) {
		panic("different genesis block")
	}
	switch role {
	case "crash":
		steps, pan := deliverAll(m, blocks, j.Order)
		out.Steps, out.Panic = steps, pan
		out.First = observe(m, blocks, j.Keys)
		writeOut(j.Out, out)
		os.Exit(0) // no Close: the history ended, the process just stops
	case "restart":
		out.First = observe(m, blocks, j.Keys)
		steps, pan := deliverAll(m, blocks, j.Order)
		out.Steps, out.Panic = steps, pan
		f := observe(m, blocks, j.Keys)
		out.Final = &f
		writeOut(j.Out, out)
		os.Exit(0)
	}
	panic("unknown role " + role)
}
