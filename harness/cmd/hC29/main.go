// hC29: crash consistency of block connection (C29).
//
// A factory test node builds real, executed blocks (one coins transfer to a fresh address each, so
// every block has its own state root) forming a tree rooted at the genesis block.  A history is a
// tree plus a delivery order.  For a history the harness runs
//
//   - one child process that delivers the whole order to a node whose blockchain and store
//     databases are the fault-injecting backend "crashleveldb" (crashdb.go), never crashes, reports
//     what the node persisted and exits without closing anything;
//   - per crash point k one child on a fresh data directory that is terminated (exit 77) at its
//     k-th durable write, and then a second child that starts a node on the same data directory,
//     reports what it recovered, delivers the whole order again and reports the final records.
//
// One case = one crash point: the durable writes the crashed process completed (classified into
// the model's facts) and the observables of the restarted node.
package main

import (
	"bytes"
	"encoding/hex"
	"encoding/json"
	"fmt"
	"math/big"
	"os"
	"os/exec"
	"path/filepath"
	"regexp"
	"sort"
	"strconv"
	"strings"
	"sync"
	"time"

	"github.com/33cn/chain33/common/difficulty"
	"github.com/33cn/chain33/types"
	"github.com/33cn/chain33/util"
	"github.com/33cn/chain33/util/testnode"
	"verifharness/hlib"
)

// ---------- histories (the replay format) ----------

type treeSpec struct {
	Par   []int    `json:"par"`           // Par[i] = parent of block i (i >= 1), Par[0] = -1 (genesis)
	Dbits []uint32 `json:"dbits"`         // Difficulty bits of block i (Dbits[0] unused)
	Ntx   []int    `json:"ntx,omitempty"` // Ntx[i] = number of `none` transactions of block i beside its coins transfer (nil: none)
}

func (t treeSpec) ntx(i int) int {
	if i < len(t.Ntx) {
		return t.Ntx[i]
	}
	return 0
}

type caseIn struct {
	Tree  treeSpec `json:"tree"`
	Order []int    `json:"order"`
	K     int      `json:"k"`    // crash at the K-th durable write; 0 = the history completes, then the process stops
	Mode  string   `json:"mode"` // before | after
	Kind  string   `json:"kind"`
}

type caseOut struct {
	Writes   int       `json:"writes"` // durable writes the crashed process completed
	Exit     int       `json:"exit"`
	Started  bool      `json:"started"`
	Restart  *childOut `json:"restart,omitempty"`
	Full     *obs      `json:"full,omitempty"`
	Note     string    `json:"note,omitempty"`
	NextUnit string    `json:"next,omitempty"`
}

var diffChoices = []uint32{0x1f2fffff, 0x1f27ffff, 0x1f1fffff, 0x1f17ffff}

func work(bits uint32) int64 { return difficulty.CalcWork(bits).Int64() }

// ---------- factory ----------

type factory struct {
	node *testnode.Chain33Mock
	cfg  *types.Chain33Config
	gen  *types.Block
}

func newFactory() *factory {
	cfg := types.NewChain33Config(types.GetDefaultCfgstring())
	cfg.GetModuleConfig().BlockChain.Driver = "memdb"
	cfg.GetModuleConfig().Store.Driver = "memdb"
	cfg.GetModuleConfig().Wallet.Driver = "memdb"
	m := testnode.NewWithConfig(cfg, nil)
	quiet()
	stopMiner(m)
	deadline := time.Now().Add(30 * time.Second)
	for m.GetBlockChain().GetBlockHeight() < 0 {
		if time.Now().After(deadline) {
			panic("genesis block not created")
		}
		time.Sleep(2 * time.Millisecond)
	}
	return &factory{node: m, cfg: m.GetClient().GetConfig(), gen: m.GetBlock(0)}
}

// hist: everything about one built history.
type hist struct {
	tree   treeSpec
	order  []int
	kind   string
	blocks []*types.Block
	keys   [][]byte
	expect [][]string // per block: expected values (hex) of keys at the block's state hash (from the factory)
	sid    []int      // per block: smallest index of a block with the same state hash
	hashID map[string]int
	txID   map[string]int
	stID   map[string]int
	job    job
}

func (f *factory) stateValues(stateHash []byte, keys [][]byte) []string {
	cl := f.node.GetClient()
	msg := cl.NewMessage("store", types.EventStoreGet, &types.StoreGet{StateHash: stateHash, Keys: keys})
	if err := cl.Send(msg, true); err != nil {
		panic(err)
	}
	resp, err := cl.WaitTimeout(msg, 30*time.Second)
	if err != nil {
		panic(err)
	}
	var out []string
	for _, v := range resp.GetData().(*types.StoreReplyValue).Values {
		out = append(out, hex.EncodeToString(v))
	}
	return out
}

func (f *factory) build(t treeSpec, order []int, kind string) *hist {
	h := &hist{tree: t, order: order, kind: kind, hashID: map[string]int{}, txID: map[string]int{}, stID: map[string]int{}}
	blocks := make([]*types.Block, len(t.Par))
	blocks[0] = f.gen
	keyset := map[string]bool{}
	for i := 1; i < len(t.Par); i++ {
		parent := blocks[t.Par[i]]
		to, _ := util.Genaddress()
		txs := []*types.Transaction{util.CreateCoinsTx(f.cfg, f.node.GetGenesisKey(), to, int64(1000+i))}
		// a BIG block: many cheap transactions, so that the local (tx index) KVs of the block
		// are more than 1 MiB
		txs = append(txs, util.GenNoneTxs(f.cfg, f.node.GetGenesisKey(), int64(t.ntx(i)))...)
		b := util.CreateNewBlock(f.cfg, parent, txs)
		b.Difficulty = t.Dbits[i]
		d, _, err := util.ExecBlock(f.node.GetClient(), parent.StateHash, b, false, true, false)
		if err != nil {
			panic(fmt.Sprintf("factory: exec block %d: %v", i, err))
		}
		if len(d.Block.Txs) != len(txs) {
			panic("factory: transaction dropped")
		}
		blocks[i] = d.Block
		for _, kv := range d.KV {
			if !keyset[string(kv.Key)] {
				keyset[string(kv.Key)] = true
				h.keys = append(h.keys, kv.Key)
			}
		}
	}
	h.blocks = blocks
	for i, b := range blocks {
		h.hashID[string(b.Hash(f.cfg))] = i
		for _, tx := range b.Txs {
			h.txID[string(tx.Hash())] = i
		}
		if _, ok := h.stID[string(b.StateHash)]; !ok {
			h.stID[string(b.StateHash)] = i
		}
		h.sid = append(h.sid, h.stID[string(b.StateHash)])
		h.expect = append(h.expect, f.stateValues(b.StateHash, h.keys))
	}
	h.job = job{Order: order}
	for _, b := range blocks {
		h.job.Blocks = append(h.job.Blocks, hex.EncodeToString(types.Encode(b)))
	}
	for _, k := range h.keys {
		h.job.Keys = append(h.job.Keys, hex.EncodeToString(k))
	}
	return h
}

// ---------- children ----------

func runChild(role, dir, jobPath, tracePath string, crashAt int, mode string) (int, string) {
	self, _ := os.Executable()
	cmd := exec.Command(self)
	tmp := filepath.Join(dir, "tmp")
	os.MkdirAll(tmp, 0o755)
	cmd.Env = append(os.Environ(),
		"VERIF_C29_ROLE="+role,
		"VERIF_C29_DATA="+filepath.Join(dir, "data"),
		"VERIF_C29_JOB="+jobPath,
		"VERIF_C29_TRACE="+tracePath,
		fmt.Sprintf("VERIF_CRASH_AT=%d", crashAt),
		"VERIF_CRASH_MODE="+mode,
		"TMPDIR="+tmp,
		"GOMAXPROCS=1",
	)
	var sb bytes.Buffer
	cmd.Stdout = &sb
	cmd.Stderr = &sb
	if err := cmd.Start(); err != nil {
		return -1, err.Error()
	}
	done := make(chan error, 1)
	go func() { done <- cmd.Wait() }()
	select {
	case err := <-done:
		code := 0
		if err != nil {
			if ee, ok := err.(*exec.ExitError); ok {
				code = ee.ExitCode()
			} else {
				code = -1
			}
		}
		s := sb.String()
		if len(s) > 1500 {
			s = s[len(s)-1500:]
		}
		return code, s
	case <-time.After(180 * time.Second):
		cmd.Process.Kill()
		<-done
		return -2, "timeout"
	}
}

func readTrace(path string) []traceRec {
	b, err := os.ReadFile(path)
	if err != nil {
		return nil
	}
	var out []traceRec
	for _, ln := range strings.Split(string(b), "\n") {
		if strings.TrimSpace(ln) == "" {
			continue
		}
		var r traceRec
		if json.Unmarshal([]byte(ln), &r) == nil {
			out = append(out, r)
		}
	}
	return out
}

func readChildOut(path string) *childOut {
	b, err := os.ReadFile(path)
	if err != nil {
		return nil
	}
	var o childOut
	if json.Unmarshal(b, &o) != nil {
		return nil
	}
	return &o
}

// ---------- classification of durable writes into the model's facts ----------

type fact struct {
	rank int
	coq  string
}

// keys that are not part of the property's records: the per-address transaction lists and
// counters, fee totals and short-hash markers written by the executors' local-db hooks, the
// coins executor's local records, and the para-chain title table
var ignoredPrefixes = []string{"TxAddrDirHash:", "TxAddrHash:", "AddrTxsCount:", "TotalFeeKey:", "STX:", "LODB-", "CHAIN-paratx-"}

func decInt64(v []byte) (int64, bool) {
	var x types.Int64
	if err := types.Decode(v, &x); err != nil {
		return 0, false
	}
	return x.Data, true
}

func (h *hist) classify(r traceRec) []fact {
	other := fact{99, "FOther"}
	var out []fact
	if r.DB == "store" {
		if r.Op != "batch" {
			return []fact{other}
		}
		sid := -1
		for _, kv := range r.KV {
			k, _ := hex.DecodeString(kv.K)
			if id, ok := h.stID[string(k)]; ok && !kv.Del {
				if sid >= 0 && sid != id {
					return []fact{other}
				}
				sid = id
			}
		}
		if sid < 0 {
			return []fact{other}
		}
		return []fact{{11, hlib.App("FState", hlib.N(uint64(sid)))}}
	}
	if r.DB != "blockchain" {
		return []fact{other}
	}
	if r.Op != "batch" {
		if len(r.KV) == 1 && !r.KV[0].Del {
			k, _ := hex.DecodeString(r.KV[0].K)
			switch string(k) {
			case "FLAG:FlagTxQuickIndex":
				return []fact{{0, "(FFlag 1%N)"}}
			case "BlockChainVerKey":
				return []fact{{0, "(FFlag 2%N)"}}
			}
		}
		// any other point write is classified like a one-entry batch
	}
	type rows struct{ bodyD, bodyM, rcptD, rcptM, hdrD, hdrM bool }
	blk := map[int]*rows{}
	var blkOrder []int
	// tx index records per block: FTx is "the index records of ALL transactions of the block"
	type txAgg struct {
		seen        map[string]bool
		set, del    int
		height      int64
		bad, hasSet bool
	}
	txs := map[int]*txAgg{}
	var txOrder []int
	getRows := func(id int) *rows {
		if blk[id] == nil {
			blk[id] = &rows{}
			blkOrder = append(blkOrder, id)
		}
		return blk[id]
	}
	tableKey := func(k []byte, table string) (id int, isData bool, ok bool) {
		dp := []byte("CHAIN-" + table + "-" + table + "-d-")
		mp := []byte("CHAIN-" + table + "-" + table + "-m-hash-")
		if bytes.HasPrefix(k, dp) && len(k) == len(dp)+12+32 {
			hid, found := h.hashID[string(k[len(dp)+12:])]
			ht, err := strconv.ParseInt(string(k[len(dp):len(dp)+12]), 10, 64)
			if found && err == nil && ht == h.blocks[hid].Height {
				return hid, true, true
			}
			return 0, false, false
		}
		// index row: prefix + hash + "-" + primary key (height, hash)
		if bytes.HasPrefix(k, mp) && len(k) == len(mp)+32+1+12+32 && k[len(mp)+32] == '-' {
			hid, found := h.hashID[string(k[len(mp):len(mp)+32])]
			ht, err := strconv.ParseInt(string(k[len(mp)+33:len(mp)+45]), 10, 64)
			if found && err == nil && ht == h.blocks[hid].Height && bytes.Equal(k[len(mp)+45:], k[len(mp):len(mp)+32]) {
				return hid, false, true
			}
		}
		return 0, false, false
	}
	for _, kv := range r.KV {
		k, _ := hex.DecodeString(kv.K)
		v, _ := hex.DecodeString(kv.V)
		ks := string(k)
		ign := false
		for _, p := range ignoredPrefixes {
			if strings.HasPrefix(ks, p) {
				ign = true
			}
		}
		if ign {
			continue
		}
		matched := false
		for _, tb := range []string{"body", "receipt", "header"} {
			if !strings.HasPrefix(ks, "CHAIN-"+tb+"-") {
				continue
			}
			id, isData, ok := tableKey(k, tb)
			if !ok || kv.Del {
				out = append(out, other)
				matched = true
				break
			}
			rw := getRows(id)
			switch {
			case tb == "body" && isData:
				rw.bodyD = true
			case tb == "body":
				rw.bodyM = true
			case tb == "receipt" && isData:
				rw.rcptD = true
			case tb == "receipt":
				rw.rcptM = true
			case tb == "header" && isData:
				rw.hdrD = true
			default:
				rw.hdrM = true
			}
			matched = true
			break
		}
		if matched {
			continue
		}
		switch {
		case ks == "blockLastHeight":
			if x, ok := decInt64(v); ok && !kv.Del && kv.Len == len(v) {
				out = append(out, fact{5, hlib.App("FLast", hlib.Z(x))})
			} else {
				out = append(out, other)
			}
		case strings.HasPrefix(ks, "Height:"):
			ht, err := strconv.ParseInt(ks[len("Height:"):], 10, 64)
			if err != nil {
				out = append(out, other)
			} else if kv.Del {
				out = append(out, fact{6, hlib.App("FHash", hlib.Z(ht), "None")})
			} else if id, ok := h.hashID[string(v)]; ok {
				out = append(out, fact{6, hlib.App("FHash", hlib.Z(ht), hlib.Opt(true, hlib.N(uint64(id))))})
			} else {
				out = append(out, other)
			}
		case strings.HasPrefix(ks, "Seq:"):
			n, err := strconv.ParseInt(ks[len("Seq:"):], 10, 64)
			var sq types.BlockSequence
			if err != nil || kv.Del || types.Decode(v, &sq) != nil {
				out = append(out, other)
				break
			}
			id, ok := h.hashID[string(sq.Hash)]
			if !ok || (sq.Type != types.AddBlock && sq.Type != types.DelBlock) {
				out = append(out, other)
				break
			}
			out = append(out, fact{7, hlib.App("FSeq", hlib.Z(n), hlib.N(uint64(id)), hlib.Bool(sq.Type == types.AddBlock))})
		case strings.HasPrefix(ks, "HashToSeq:"):
			id, ok := h.hashID[ks[len("HashToSeq:"):]]
			n, ok2 := decInt64(v)
			if !ok || !ok2 || kv.Del {
				out = append(out, other)
				break
			}
			out = append(out, fact{8, hlib.App("FHSeq", hlib.N(uint64(id)), hlib.Z(n))})
		case ks == "LastSequence":
			if n, ok := decInt64(v); ok && !kv.Del {
				out = append(out, fact{9, hlib.App("FLastSeq", hlib.Z(n))})
			} else {
				out = append(out, other)
			}
		case strings.HasPrefix(ks, "TD:"):
			id, ok := h.hashID[ks[len("TD:"):]]
			if !ok || kv.Del || kv.Len != len(v) {
				out = append(out, other)
				break
			}
			out = append(out, fact{10, hlib.App("FTd", hlib.N(uint64(id)), hlib.ZBig(new(big.Int).SetBytes(v)))})
		case strings.HasPrefix(ks, "TX:"):
			id, ok := h.txID[ks[len("TX:"):]]
			if !ok {
				out = append(out, other)
				break
			}
			a := txs[id]
			if a == nil {
				a = &txAgg{seen: map[string]bool{}}
				txs[id] = a
				txOrder = append(txOrder, id)
			}
			if a.seen[ks] {
				a.bad = true
			}
			a.seen[ks] = true
			if kv.Del {
				a.del++
				break
			}
			var tr types.TxResult
			if kv.Len != len(v) || types.Decode(v, &tr) != nil {
				a.bad = true
				break
			}
			if a.hasSet && a.height != tr.Height {
				a.bad = true
			}
			a.set++
			a.hasSet, a.height = true, tr.Height
		default:
			out = append(out, other)
		}
	}
	for _, id := range txOrder {
		a := txs[id]
		n := len(h.blocks[id].Txs)
		switch {
		case !a.bad && a.set == n && a.del == 0:
			out = append(out, fact{1, hlib.App("FTx", hlib.N(uint64(id)), hlib.Opt(true, hlib.Z(a.height)))})
		case !a.bad && a.del == n && a.set == 0:
			out = append(out, fact{1, hlib.App("FTx", hlib.N(uint64(id)), "None")})
		default:
			// the index records of only a part of the block's transactions: not a write of the model
			out = append(out, other)
		}
	}
	for _, id := range blkOrder {
		rw := blk[id]
		switch {
		case rw.bodyD && rw.bodyM && rw.rcptD && rw.rcptM && rw.hdrD && rw.hdrM:
			out = append(out, fact{2, hlib.App("FBlk", hlib.N(uint64(id)))})
		case rw.bodyD && rw.rcptD && !rw.bodyM && !rw.rcptM && !rw.hdrM:
			// the header data row is rewritten only when execution changed the header (genesis)
			out = append(out, fact{3, hlib.App("FBlkUpd", hlib.N(uint64(id)))})
		default:
			out = append(out, other)
		}
	}
	sort.SliceStable(out, func(i, j int) bool { return out[i].rank < out[j].rank })
	return out
}

var (
	reUB = mustRe(`^\(FBlk (\d+)%N\); \(FTd (\d+)%N (\S+)\)$`)
	reUS = mustRe(`^\(FState (\d+)%N\)$`)
	reUF = mustRe(`^\(FFlag (\d+)%N\)$`)
	reUC = mustRe(`^\(FTx (\d+)%N \(Some (\(\d+\)%Z)\)\); \(FBlkUpd (\d+)%N\); \(FLast (\(\d+\)%Z)\); \(FHash (\(\d+\)%Z) \(Some (\d+)%N\)\); \(FSeq (\(\d+\)%Z) (\d+)%N true\); \(FHSeq (\d+)%N (\(\d+\)%Z)\); \(FLastSeq (\(\d+\)%Z)\); \(FTd (\d+)%N (\S+)\)$`)
	reUD = mustRe(`^\(FTx (\d+)%N None\); \(FLast (\(-?\d+\)%Z)\); \(FHash (\(\d+\)%Z) None\); \(FSeq (\(\d+\)%Z) (\d+)%N false\); \(FLastSeq (\(\d+\)%Z)\)$`)
)

// renderUnit: the compact forms of Check.v when the fact list matches them exactly, else the list.
func renderUnit(fs []fact) (string, string) {
	items := make([]string, len(fs))
	for i, f := range fs {
		items[i] = f.coq
	}
	flat := strings.Join(items, "; ")
	if m := reUF.FindStringSubmatch(flat); m != nil {
		return "(uf " + m[1] + "%N)", "flag"
	}
	if m := reUS.FindStringSubmatch(flat); m != nil {
		return "(us " + m[1] + "%N)", "state-commit"
	}
	if m := reUB.FindStringSubmatch(flat); m != nil && m[1] == m[2] {
		return "(ub " + m[1] + "%N " + m[3] + ")", "block-store"
	}
	if m := reUC.FindStringSubmatch(flat); m != nil {
		b := m[1]
		if m[3] == b && m[6] == b && m[8] == b && m[9] == b && m[12] == b && m[2] == m[4] && m[2] == m[5] && m[7] == m[10] && m[7] == m[11] {
			return "(uc " + b + "%N " + m[2] + " " + m[7] + " " + m[13] + ")", "connect-batch"
		}
	}
	if m := reUD.FindStringSubmatch(flat); m != nil {
		if m[5] == m[1] && m[4] == m[6] {
			hv, _ := strconv.ParseInt(strings.Trim(m[3], "()%Z"), 10, 64)
			lv, _ := strconv.ParseInt(strings.Trim(m[2], "()%Z"), 10, 64)
			if lv == hv-1 {
				return "(ud " + m[1] + "%N " + m[3] + " " + m[4] + ")", "disconnect-batch"
			}
		}
	}
	return "[" + flat + "]", "other"
}

// ---------- Gallina rendering ----------

func optN(v int) string {
	if v < 0 {
		return "None"
	}
	return "(Some " + hlib.N(uint64(v)) + ")"
}

func renderObs(h *hist, o *obs) string {
	if o == nil {
		return "(mkO (-1)%Z 0%N (-1)%Z 0%N [] [] [] [] [] [] false (-1)%Z [] [])"
	}
	nid := func(v int) string {
		if v < 0 {
			return hlib.N(unknownID + 1)
		}
		return hlib.N(uint64(v))
	}
	var byh, hdr, load, tx, td, st, seq, hseq []string
	for _, v := range o.ByHeight {
		byh = append(byh, optN(v))
	}
	for _, v := range o.HdrByH {
		hdr = append(hdr, optN(v))
	}
	for _, v := range o.Loadable {
		load = append(load, hlib.Bool(v))
	}
	for _, v := range o.Tx {
		// -1 = no index record; txMixed (-2) = the block's transactions disagree: Some (-2)
		tx = append(tx, hlib.Opt(v != -1, hlib.Z(v)))
	}
	for _, v := range o.Td {
		if v == "" {
			td = append(td, "None")
		} else {
			x, _ := new(big.Int).SetString(v, 10)
			td = append(td, "(Some "+hlib.ZBig(x)+")")
		}
	}
	for _, v := range o.Stored {
		st = append(st, hlib.Bool(v))
	}
	for _, e := range o.Seq {
		if e[0] < 0 || (e[1] != 1 && e[1] != 2) {
			seq = append(seq, "None")
		} else {
			seq = append(seq, "(Some ("+hlib.N(uint64(e[0]))+", "+hlib.Bool(e[1] == 1)+"))")
		}
	}
	for _, v := range o.SeqOfHash {
		hseq = append(hseq, hlib.Opt(v >= 0, hlib.Z(v)))
	}
	// state at the tip: every key has the value the factory has at that block's state hash
	stateOK := false
	if o.Last >= 0 && o.Last < len(h.expect) && len(o.State) == len(h.expect[o.Last]) && len(o.State) > 0 {
		stateOK = true
		for i := range o.State {
			if o.State[i] != h.expect[o.Last][i] {
				stateOK = false
			}
		}
	}
	return hlib.App("mkO", hlib.Z(o.Height), nid(o.Last), hlib.Z(o.LastH), nid(o.Tip),
		hlib.List(byh), hlib.List(load), hlib.List(hdr), hlib.List(tx), hlib.List(td), hlib.List(st),
		hlib.Bool(stateOK), hlib.Z(o.LastSeq), hlib.List(seq), hlib.List(hseq))
}

func renderTree(h *hist) (string, string) {
	items := make([]string, len(h.blocks))
	sm := make([]string, len(h.blocks))
	for i, b := range h.blocks {
		par := uint64(unknownID + 1)
		if i > 0 {
			par = uint64(h.tree.Par[i])
		}
		items[i] = hlib.App("mkB", hlib.N(uint64(i)), hlib.N(par), hlib.Z(b.Height), hlib.Z(work(b.Difficulty)))
		sm[i] = hlib.N(uint64(h.sid[i]))
	}
	return hlib.List(items), hlib.List(sm)
}

// ---------- one history ----------

type fullRun struct {
	trace []traceRec
	units []string
	kinds []string
	obs   *obs
	note  string
}

func (h *hist) writeJob(dir, outName string) string {
	j := h.job
	j.Out = filepath.Join(dir, outName)
	b, _ := json.Marshal(j)
	p := filepath.Join(dir, outName+".job")
	os.WriteFile(p, b, 0o644)
	return p
}

func (h *hist) renderTrace(tr []traceRec) ([]string, []string) {
	var us, ks []string
	for _, r := range tr {
		u, k := renderUnit(h.classify(r))
		us = append(us, u)
		ks = append(ks, k)
	}
	return us, ks
}

func (h *hist) runFull(base string) *fullRun {
	dir := filepath.Join(base, "full")
	os.RemoveAll(dir)
	os.MkdirAll(dir, 0o755)
	jp := h.writeJob(dir, "crash.json")
	tp := filepath.Join(dir, "trace.jsonl")
	code, msg := runChild("crash", dir, jp, tp, 0, "before")
	fr := &fullRun{trace: readTrace(tp)}
	co := readChildOut(filepath.Join(dir, "crash.json"))
	if code != 0 || co == nil || co.Panic != "" {
		fr.note = fmt.Sprintf("uninterrupted run: exit %d %s", code, msg)
		if co != nil {
			fr.note += " " + co.Panic
		}
		return fr
	}
	fr.obs = &co.First
	fr.units, fr.kinds = h.renderTrace(fr.trace)
	return fr
}

type result struct {
	in   caseIn
	out  caseOut
	coq  string
	kind string
	nt   bool
}

// runPoint: crash at write k (k == 0: after the history completed), restart, observe.  With
// reuse != "" the crashed process's data directory is the given one (the uninterrupted run's).
func (h *hist) runPoint(base string, fr *fullRun, k int, mode string, fin int64) result {
	in := caseIn{Tree: h.tree, Order: h.order, K: k, Mode: mode, Kind: h.kind}
	dir := filepath.Join(base, fmt.Sprintf("k%d%s", k, mode))
	var out caseOut
	var tr []traceRec
	if k == 0 {
		dir = filepath.Join(base, "full")
		tr = fr.trace
		out.Exit = 0
	} else {
		os.RemoveAll(dir)
		os.MkdirAll(dir, 0o755)
		jp := h.writeJob(dir, "crash.json")
		tp := filepath.Join(dir, "trace.jsonl")
		code, msg := runChild("crash", dir, jp, tp, k, mode)
		out.Exit = code
		tr = readTrace(tp)
		if code != crashExit {
			out.Note = fmt.Sprintf("crash child exit %d: %s", code, msg)
		}
	}
	out.Writes = len(tr)
	units, kinds := h.renderTrace(tr)
	// restart on the same data directory
	jp := h.writeJob(dir, "restart.json")
	code, msg := runChild("restart", dir, jp, filepath.Join(dir, "trace-restart.jsonl"), 0, "before")
	ro := readChildOut(filepath.Join(dir, "restart.json"))
	out.Restart = ro
	out.Started = code == 0 && ro != nil && ro.Panic == "" && ro.Final != nil
	if !out.Started {
		out.Note += fmt.Sprintf(" restart child exit %d: %s", code, msg)
	}
	out.Full = fr.obs
	next := "end"
	if len(tr) < len(fr.kinds) {
		next = fr.kinds[len(tr)]
	}
	out.NextUnit = next
	var o1, o2 *obs
	if out.Started {
		o1, o2 = &ro.First, ro.Final
	}
	tree, smap := renderTree(h)
	ord := make([]string, len(h.order))
	for i, v := range h.order {
		ord[i] = hlib.N(uint64(v))
	}
	coq := hlib.App("CCrash", hlib.Z(fin), tree, smap, hlib.List(ord), hlib.List(units),
		hlib.Bool(out.Started), renderObs(h, o1), renderObs(h, o2), renderObs(h, fr.obs))
	_ = kinds
	if os.Getenv("VERIF_C29_KEEP") == "" && k != 0 {
		os.RemoveAll(dir)
	}
	return result{in: in, out: out, coq: coq, kind: h.kind + "/" + mode + "-" + next, nt: next != "end"}
}

type pt struct {
	k    int
	mode string
}

// firstUnit: index (0-based) of the first write at or after from whose rendering starts with
// prefix; -1 = none
func (fr *fullRun) firstUnit(from int, prefix string) int {
	for i := from; i < len(fr.units); i++ {
		if i >= 0 && strings.HasPrefix(fr.units[i], prefix) {
			return i
		}
	}
	return -1
}

// lastUnit: index of the last write whose rendering starts with prefix; -1 = none
func (fr *fullRun) lastUnit(prefix string) int {
	for i := len(fr.units) - 1; i >= 0; i-- {
		if strings.HasPrefix(fr.units[i], prefix) {
			return i
		}
	}
	return -1
}

// batchBytes: the size goleveldb's Batch.ValueSize reports for the write (keys + values of
// the sets, keys of the deletions)
func batchBytes(r traceRec) int {
	n := 0
	for _, kv := range r.KV {
		n += len(kv.K)/2 + kv.Len
	}
	return n
}

// needBig: the writes lo..hi-1 (0-based) of the uninterrupted run hold more than 1 MiB + 10%
// in the blockchain database - otherwise the history is not of the input class it is meant for
func (fr *fullRun) needBig(what string, lo, hi int) {
	n := 0
	for i := lo; i < hi && i < len(fr.trace); i++ {
		if fr.trace[i].DB == "blockchain" {
			n += batchBytes(fr.trace[i])
		}
	}
	if os.Getenv("VERIF_C29_DEBUG") != "" {
		fmt.Fprintf(os.Stderr, "hC29: %s: %d bytes in writes %d..%d\n", what, n, lo+1, hi)
	}
	if n < (1<<20)*11/10 {
		panic(fmt.Sprintf("hC29: %s: only %d bytes of chain records, not a BIG block", what, n))
	}
}

// selBigConnect: every boundary from the write that stores block big to the end of the history
// (its block rows, its state commit, every write of its connect, the next block), each write
// up to the state commit of the NEXT block also in after mode.  The window is found from the
// writes the node really made, so a connect that takes more than one write gets a crash point
// between any two of them.
func selBigConnect(big int, all bool) func(fr *fullRun) []pt {
	return func(fr *fullRun) []pt {
		n := len(fr.trace)
		lo := fr.firstUnit(0, fmt.Sprintf("(ub %d%%N ", big))
		if lo < 0 || all {
			lo = 0
		}
		hi := fr.firstUnit(lo, fmt.Sprintf("(ub %d%%N ", big+1))
		if hi < 0 {
			hi = n - 1
		}
		// the connect writes of the big block: after its state commit, before the next store
		if sc := fr.firstUnit(lo, "(us "); sc >= 0 {
			fr.needBig("connect of the big block", sc+1, hi)
		}
		var pts []pt
		for k := lo + 1; k <= n; k++ {
			pts = append(pts, pt{k, "before"})
			if k-1 >= lo && k-1 < hi {
				pts = append(pts, pt{k, "after"})
			}
		}
		return pts
	}
}

// selBigDisconnect: the reorganisation that detaches the big block: every boundary after the
// last block-store write (the branch block that triggers the reorganisation) up to the first
// state commit that follows (the first connect of the branch) - the disconnect writes, each also
// in after mode.
func selBigDisconnect(fr *fullRun) []pt {
	n := len(fr.trace)
	lo := fr.lastUnit("(ub ") + 1
	hi := fr.firstUnit(lo, "(us ")
	if hi < 0 {
		hi = n - 1
	}
	fr.needBig("disconnect of the big block", lo, hi)
	var pts []pt
	for k := lo + 1; k <= hi+1 && k <= n; k++ {
		pts = append(pts, pt{k, "before"})
		if k-1 < hi {
			pts = append(pts, pt{k, "after"})
		}
	}
	return pts
}

// ---------- generators ----------

func linearTree(n int) treeSpec {
	t := treeSpec{Par: []int{-1}, Dbits: []uint32{0}}
	for i := 0; i < n; i++ {
		t.Par = append(t.Par, i)
		t.Dbits = append(t.Dbits, diffChoices[0])
	}
	return t
}

func seqOrder(n int) []int {
	o := make([]int, n-1)
	for i := range o {
		o[i] = i + 1
	}
	return o
}

// reorgTree: trunk of trunkLen blocks, a branch from trunk height fork with blen blocks.
func reorgTree(trunkLen, fork, blen int, bbits uint32) treeSpec {
	t := linearTree(trunkLen)
	p := fork
	for i := 0; i < blen; i++ {
		t.Par = append(t.Par, p)
		t.Dbits = append(t.Dbits, bbits)
		p = len(t.Par) - 1
	}
	return t
}

// randomHistory: trunk 12..15, two or three branches (one overtakes the trunk above the 12-block
// margin), delivery nearly in creation order with local swaps (children before parents: orphans)
// and re-deliveries.  The heaviest block is unique and at height >= 12 (C25's guard).
func randomHistory(r *hlib.Rng) (treeSpec, []int) {
	for {
		trunk := r.Range(12, 15)
		t := linearTree(trunk)
		heights := make([]int, trunk+1)
		for i := range heights {
			heights[i] = i
		}
		add := func(p int, bits uint32) int {
			t.Par = append(t.Par, p)
			t.Dbits = append(t.Dbits, bits)
			heights = append(heights, heights[p]+1)
			return len(t.Par) - 1
		}
		nb := r.Range(2, 3)
		for k := 0; k < nb; k++ {
			fp := r.Range(trunk-4, trunk-1)
			n := r.Range(1, 3)
			if k == 0 {
				n = trunk - fp + r.Range(1, 2)
			}
			bits := diffChoices[0]
			if r.Chance(1, 3) {
				bits = hlib.Pick(r, diffChoices)
			}
			q := fp
			for i := 0; i < n; i++ {
				q = add(q, bits)
			}
		}
		// guard: unique heaviest, height >= 12
		td := make([]int64, len(t.Par))
		td[0] = work(diffChoices[0])
		best, cnt, bi := int64(0), 0, 0
		for i := 1; i < len(t.Par); i++ {
			td[i] = td[t.Par[i]] + work(t.Dbits[i])
		}
		for i := range td {
			if td[i] > best {
				best, cnt, bi = td[i], 1, i
			} else if td[i] == best {
				cnt++
			}
		}
		if cnt != 1 || heights[bi] < 12 {
			continue
		}
		o := seqOrder(len(t.Par))
		for k := 0; k < len(o)/2; k++ {
			i := trunk - 3 + r.Intn(len(o)-(trunk-3))
			j := i + r.Range(-2, 2)
			if j >= trunk-3 && j < len(o) {
				o[i], o[j] = o[j], o[i]
			}
		}
		var res []int
		for i, v := range o {
			res = append(res, v)
			if i > trunk && r.Chance(1, 5) {
				res = append(res, o[r.Intn(i+1)])
			}
		}
		return t, res
	}
}

// ---------- main ----------

func mustRe(s string) *regexp.Regexp { return regexp.MustCompile(s) }

func main() {
	if role := os.Getenv("VERIF_C29_ROLE"); role != "" {
		childMain(role)
		return
	}
	quiet()
	opts := hlib.ParseFlags()
	o := hlib.NewOut(opts.OutDir)
	defer o.Close()
	f := newFactory()
	quiet()
	start := time.Now()
	// data directories of the children: on tmpfs when there is one (LevelDB syncs are the
	// bulk of a child's system time); the injected fault is process termination, which a
	// memory-backed file system survives like a disk does
	if old, _ := filepath.Glob("/dev/shm/hC29-*"); len(old) > 0 {
		for _, d := range old { // left behind by a killed run
			if st, err := os.Stat(d); err == nil && time.Since(st.ModTime()) > 6*time.Hour {
				os.RemoveAll(d)
			}
		}
	}
	base, err := os.MkdirTemp("/dev/shm", "hC29-")
	if err != nil {
		base = filepath.Join(opts.OutDir, "c29run")
		os.RemoveAll(base)
		os.MkdirAll(base, 0o755)
	}
	defer os.RemoveAll(base)
	const fin = 0

	workers := 4
	emit := func(rs []result) {
		for _, r := range rs {
			o.Emit(r.kind, r.nt, r.coq, r.in, r.out)
		}
	}
	// runPoints: the uninterrupted run, then the crash points sel chooses from its trace + the
	// end point
	runPoints := func(hi int, h *hist, sel func(fr *fullRun) []pt) {
		hb := filepath.Join(base, fmt.Sprintf("h%d", hi))
		fr := h.runFull(hb)
		if fr.obs == nil {
			// the uninterrupted run failed: one case that cannot agree with the model
			fmt.Fprintln(os.Stderr, "hC29:", fr.note)
			r := h.runPoint(hb, fr, 0, "before", fin)
			emit([]result{r})
			return
		}
		pts := sel(fr)
		res := make([]result, len(pts))
		var wg sync.WaitGroup
		sem := make(chan struct{}, workers)
		for i, p := range pts {
			wg.Add(1)
			sem <- struct{}{}
			go func(i int, p pt) {
				defer wg.Done()
				defer func() { <-sem }()
				res[i] = h.runPoint(hb, fr, p.k, p.mode, fin)
			}(i, p)
		}
		wg.Wait()
		emit(res)
		emit([]result{h.runPoint(hb, fr, 0, "before", fin)})
		os.RemoveAll(hb)
	}
	// runHistory: the crash points lo..N (before mode) + a few after-mode points
	runHistory := func(hi int, h *hist, tail int, afterEvery int) {
		runPoints(hi, h, func(fr *fullRun) []pt {
			n := len(fr.trace)
			lo := 1
			if tail > 0 && n-tail+1 > lo {
				lo = n - tail + 1
			}
			var pts []pt
			for k := lo; k <= n; k++ {
				pts = append(pts, pt{k, "before"})
				if afterEvery > 0 && (k-lo)%afterEvery == afterEvery-1 {
					pts = append(pts, pt{k, "after"})
				}
			}
			return pts
		})
	}

	if opts.Replay != "" {
		var in caseIn
		if err := hlib.ReplayInput(opts.Replay, &in); err != nil {
			panic(err)
		}
		h := f.build(in.Tree, in.Order, in.Kind)
		hb := filepath.Join(base, "replay")
		fr := h.runFull(hb)
		mode := in.Mode
		if mode == "" {
			mode = "before"
		}
		emit([]result{h.runPoint(hb, fr, in.K, mode, fin)})
		return
	}

	r := hlib.NewRng(opts.Seed)
	hi := 0
	// development aid: VERIF_C29_ONLY=kind[,kind] runs only those history kinds
	want := func(kind string) bool {
		only := os.Getenv("VERIF_C29_ONLY")
		if only == "" {
			return true
		}
		for _, k := range strings.Split(only, ",") {
			if k == kind {
				return true
			}
		}
		return false
	}
	// 1. a node's first blocks: every boundary from the very first write (flags, genesis)
	if want("genesis-linear") {
		n := 2
		if opts.Thorough() {
			n = 4
		}
		t := linearTree(n)
		runHistory(hi, f.build(t, seqOrder(len(t.Par)), "genesis-linear"), 0, 5)
		hi++
	}
	// 2. reorganisation above the margin: trunk 13, branch of 3 from height 11; the boundaries of
	// the last two trunk blocks, the branch and the reorganisation
	if want("reorg-2-3") {
		t := reorgTree(13, 11, 3, diffChoices[0])
		tail := 14
		if opts.Thorough() {
			tail = 0
		}
		runHistory(hi, f.build(t, seqOrder(len(t.Par)), "reorg-2-3"), tail, 6)
		hi++
	}
	// 3. BIG blocks: the local KVs (tx index, address index) of the block are more than 1 MiB
	// (bigTxs transactions), the write sizes of neighbouring code (reduce.go, prune.go) flush at.
	// 3a. linear: block 1 small, block 2 big, block 3 small; the boundaries of every write from
	// the big block's store on
	// (a disconnect batch holds only the keys of the index records: more transactions)
	bigTxs, bigDelTxs := 1500, 2800
	if v, err := strconv.Atoi(os.Getenv("VERIF_C29_BIGTXS")); err == nil && v > 0 {
		bigTxs, bigDelTxs = v, v
	}
	if want("big-linear") {
		t := linearTree(3)
		t.Ntx = []int{0, 0, bigTxs, 0}
		runPoints(hi, f.build(t, seqOrder(len(t.Par)), "big-linear"), selBigConnect(2, opts.Thorough()))
		hi++
	}
	// 3b. the big block is the trunk's tip and is detached by a reorganisation (trunk 13, branch
	// of 3 from height 11): the boundaries of the disconnect writes
	if want("big-reorg") {
		t := reorgTree(13, 11, 3, diffChoices[0])
		t.Ntx = make([]int, len(t.Par))
		t.Ntx[13] = bigDelTxs
		runPoints(hi, f.build(t, seqOrder(len(t.Par)), "big-reorg"), selBigDisconnect)
		hi++
	}
	// 4. random guarded histories
	nRandom, tail, budget := 1, 12, 240*time.Second
	if opts.Thorough() {
		nRandom, tail, budget = 38, 0, 45*time.Minute
	}
	if !want("random") {
		nRandom = 0
	}
	for i := 0; i < nRandom; i++ {
		if time.Since(start) > budget {
			fmt.Fprintln(os.Stderr, "hC29: time budget reached after", hi, "histories")
			break
		}
		t, ord := randomHistory(r)
		tl := tail
		if opts.Thorough() && i%4 != 0 {
			tl = 30
		}
		runHistory(hi, f.build(t, ord, "random"), tl, 7)
		hi++
	}
}
