package main

// "crashleveldb": a goleveldb backend that counts durable writes over all databases opened
// through it (Set / SetSync / Delete / DeleteSync / Batch.Write / Tx.Commit), appends a
// description of every completed write to a trace file and terminates the process with
// exit status 77 before (or after) the N-th write.
//
// Registered from outside chain33 through the add-only hook
// /repo/common/db/creator_verif.go (RegisterDBCreatorVerif).
//
// Environment:
//
//	VERIF_CRASH_AT    N >= 1: stop at the N-th durable write; 0 / unset: never
//	VERIF_CRASH_MODE  "before" (default): exit instead of performing write N;
//	                  "after": perform write N, record it, exit
//	VERIF_C29_DATA    directory that holds the databases (the dir argument given by the
//	                  node is ignored: testnode always picks a fresh temporary directory)
//	VERIF_C29_TRACE   trace file (JSON lines), appended

import (
	"crypto/sha256"
	"encoding/hex"
	"encoding/json"
	"os"
	"path/filepath"
	"strconv"
	"sync"

	dbm "github.com/33cn/chain33/common/db"
)

type traceKV struct {
	K   string `json:"k"`             // key, hex
	Del bool   `json:"del,omitempty"` // deletion
	V   string `json:"v,omitempty"`   // value, hex (only when at most 80 bytes)
	Len int    `json:"len"`           // value length
	Sum string `json:"sum,omitempty"` // first 8 bytes of sha256(value), hex (long values)
}

type traceRec struct {
	N  int       `json:"n"`
	DB string    `json:"db"`
	Op string    `json:"op"`
	KV []traceKV `json:"kv"`
}

const crashExit = 77

var crashState struct {
	mu    sync.Mutex
	count int
	at    int
	after bool
	trace *os.File
}

func crashInit() {
	crashState.at, _ = strconv.Atoi(os.Getenv("VERIF_CRASH_AT"))
	crashState.after = os.Getenv("VERIF_CRASH_MODE") == "after"
	if p := os.Getenv("VERIF_C29_TRACE"); p != "" {
		f, err := os.OpenFile(p, os.O_CREATE|os.O_WRONLY|os.O_APPEND, 0o644)
		if err != nil {
			panic(err)
		}
		crashState.trace = f
	}
	dbm.RegisterDBCreatorVerif("crashleveldb", func(name string, dir string, cache int) (dbm.DB, error) {
		base := os.Getenv("VERIF_C29_DATA")
		if base == "" {
			panic("VERIF_C29_DATA not set")
		}
		_ = cache // small caches: the databases of a history hold a few hundred KB
		inner, err := dbm.NewGoLevelDB(name, filepath.Join(base, name+"-dir"), 4)
		if err != nil {
			return nil, err
		}
		return &crashDB{GoLevelDB: inner, name: name}, nil
	})
}

func mkKV(k, v []byte, del bool) traceKV {
	t := traceKV{K: hex.EncodeToString(k), Del: del, Len: len(v)}
	if len(v) <= 80 || (len(k) > 3 && string(k[:3]) == "TX:" && len(v) <= 16384) {
		t.V = hex.EncodeToString(v)
	} else {
		s := sha256.Sum256(v)
		t.Sum = hex.EncodeToString(s[:8])
	}
	return t
}

// durable runs one durable write under the global counter.
func durable(db, op string, kv []traceKV, do func() error) error {
	crashState.mu.Lock()
	defer crashState.mu.Unlock()
	crashState.count++
	n := crashState.count
	if crashState.at > 0 && n == crashState.at && !crashState.after {
		os.Exit(crashExit)
	}
	err := do()
	if crashState.trace != nil {
		b, _ := json.Marshal(traceRec{N: n, DB: db, Op: op, KV: kv})
		crashState.trace.Write(append(b, '\n'))
	}
	if crashState.at > 0 && n == crashState.at && crashState.after {
		os.Exit(crashExit)
	}
	return err
}

type crashDB struct {
	*dbm.GoLevelDB
	name string
}

func (d *crashDB) Set(k, v []byte) error {
	return durable(d.name, "set", []traceKV{mkKV(k, v, false)}, func() error { return d.GoLevelDB.Set(k, v) })
}

func (d *crashDB) SetSync(k, v []byte) error {
	return durable(d.name, "setsync", []traceKV{mkKV(k, v, false)}, func() error { return d.GoLevelDB.SetSync(k, v) })
}

func (d *crashDB) Delete(k []byte) error {
	return durable(d.name, "delete", []traceKV{mkKV(k, nil, true)}, func() error { return d.GoLevelDB.Delete(k) })
}

func (d *crashDB) DeleteSync(k []byte) error {
	return durable(d.name, "deletesync", []traceKV{mkKV(k, nil, true)}, func() error { return d.GoLevelDB.DeleteSync(k) })
}

func (d *crashDB) NewBatch(sync bool) dbm.Batch {
	return &crashBatch{Batch: d.GoLevelDB.NewBatch(sync), name: d.name}
}

func (d *crashDB) BeginTx() (dbm.TxKV, error) {
	tx, err := d.GoLevelDB.BeginTx()
	if err != nil {
		return nil, err
	}
	return &crashTx{TxKV: tx, name: d.name}, nil
}

type crashBatch struct {
	dbm.Batch
	name string
	kv   []traceKV
}

func (b *crashBatch) Set(k, v []byte) {
	b.kv = append(b.kv, mkKV(k, v, false))
	b.Batch.Set(k, v)
}

func (b *crashBatch) Delete(k []byte) {
	b.kv = append(b.kv, mkKV(k, nil, true))
	b.Batch.Delete(k)
}

func (b *crashBatch) Reset() {
	b.kv = nil
	b.Batch.Reset()
}

func (b *crashBatch) Write() error {
	kv := b.kv
	return durable(b.name, "batch", kv, func() error { return b.Batch.Write() })
}

type crashTx struct {
	dbm.TxKV
	name string
}

func (t *crashTx) Commit() error {
	return durable(t.name, "txcommit", nil, func() error { return t.TxKV.Commit() })
}
