package hlib

// Helpers shared by hC07 / hC08: sorted key/value layers as Gallina literals.

import (
	"bytes"
	"sort"
	"strings"
)

// KV is one stored entry; an empty Val is a tombstone (what Set(k, nil) stores).
type KV struct {
	Key string `json:"k"` // hex
	Val string `json:"v"` // hex
}

// Layer is the content of one database, as a map from key to value.
type Layer map[string][]byte

// SortedKeys returns the keys in bytes.Compare order.
func (l Layer) SortedKeys() [][]byte {
	ks := make([][]byte, 0, len(l))
	for k := range l {
		ks = append(ks, []byte(k))
	}
	sort.Slice(ks, func(i, j int) bool { return bytes.Compare(ks[i], ks[j]) < 0 })
	return ks
}

// HB renders a list of byte strings as the compact literal (hb "6162,,ff,") of C07/Check.v
// (every item is followed by a comma).
func HB(items [][]byte) string {
	var sb strings.Builder
	sb.WriteString(`(hb "`)
	for _, b := range items {
		sb.WriteString(HexS(b))
		sb.WriteByte(',')
	}
	sb.WriteString(`")`)
	return sb.String()
}

// Coq renders the layer as a strictly sorted association list: (ly "key,value,key,value,").
func (l Layer) Coq() string {
	var sb strings.Builder
	sb.WriteString(`(ly "`)
	for _, k := range l.SortedKeys() {
		sb.WriteString(HexS(k))
		sb.WriteByte(',')
		sb.WriteString(HexS(l[string(k)]))
		sb.WriteByte(',')
	}
	sb.WriteString(`")`)
	return sb.String()
}

// JSON renders the layer for the replay input.
func (l Layer) JSON() []KV {
	out := []KV{}
	for _, k := range l.SortedKeys() {
		out = append(out, KV{HexS(k), HexS(l[string(k)])})
	}
	return out
}

// LayersCoq renders a list of layers.
func LayersCoq(ls []Layer) string {
	items := []string{}
	for _, l := range ls {
		items = append(items, l.Coq())
	}
	return List(items)
}
