package hlib

// Helpers shared by hC07 / hC08: sorted key/value layers as Gallina literals.

import (
	"bytes"
	"sort"
	"strings"
)

// KV is one stored entry; an empty Val is a tombstone (what Set(k, nil) stores).
type KV struct {
	Key string `json:"k"` // hex
	Val string `json:"v"` // hex
}

// Layer is the content of one database, as a map from key to value.
type Layer map[string][]byte

// SortedKeys returns the keys in bytes.Compare order.
func (l Layer) SortedKeys() [][]byte {
	ks := make([][]byte, 0, len(l))
	for k := range l {
		ks = append(ks, []byte(k))
	}
	sort.Slice(ks, func(i, j int) bool { return bytes.Compare(ks[i], ks[j]) < 0 })
	return ks
}

// HB renders a list of byte strings as the compact literal (hb "6162,,ff,") of C07/Check.v
// (every item is followed by a comma).
func HB(items [][]byte) string {
	var sb strings.Builder
	sb.WriteString(`(hb "`)
	for _, b := range items {
		sb.WriteString(HexS(b))
		sb.WriteByte(',')
	}
	sb.WriteString(`")`)
	return sb.String()
}

// Coq renders the layer as a strictly sorted association list: (ly "key,value,key,value,").
func (l Layer) Coq() string {
	var sb strings.Builder
	sb.WriteString(`(ly "`)
	for _, k := range l.SortedKeys() {
		sb.WriteString(HexS(k))
		sb.WriteByte(',')
		sb.WriteString(HexS(l[string(k)]))
		sb.WriteByte(',')
	}
	sb.WriteString(`")`)
	return sb.String()
}

// JSON renders the layer for the replay input.
func (l Layer) JSON() []KV {
	out := []KV{}
	for _, k := range l.SortedKeys() {
		out = append(out, KV{HexS(k), HexS(l[string(k)])})
	}
	return out
}

// LayersCoq renders a list of layers.
func LayersCoq(ls []Layer) string {
	items := []string{}
	for _, l := range ls {
		items = append(items, l.Coq())
	}
	return List(items)
}

// ---------- long keys: byte strings around a common stem (C07/Check.v: rl, hbs, lys, h1s) ----------

// minStem: shorter stems are not worth the notation (and "U" needs three bytes).
const minStem = 8

// Stem is a long byte string given run-length encoded: Runs[i] = {byte, repeat count}.
// The zero value (no runs) means "no stem": every renderer falls back to plain hex.
type Stem struct {
	Runs [][2]int
}

// Bytes expands the runs.
func (s Stem) Bytes() []byte {
	var b []byte
	for _, r := range s.Runs {
		for i := 0; i < r[1]; i++ {
			b = append(b, byte(r[0]))
		}
	}
	return b
}

// Coq renders the stem as (rl [(97%N, 150%N); ...]).
func (s Stem) Coq() string {
	items := []string{}
	for _, r := range s.Runs {
		items = append(items, Pair(N(uint64(r[0])), N(uint64(r[1]))))
	}
	return "(rl " + List(items) + ")"
}

// HexStem writes b in hex, with every occurrence of stem replaced by "S", every remaining
// occurrence of stem-without-its-last-byte by "T" and of stem-without-its-last-two-bytes by "U"
// (the notation read by hbs in C07/Check.v).
func HexStem(b, stem []byte) string {
	if len(stem) < minStem {
		return HexS(b)
	}
	t := stem[:len(stem)-1]
	u := stem[:len(stem)-2]
	var sb strings.Builder
	for i := 0; i < len(b); {
		switch {
		case bytes.HasPrefix(b[i:], stem):
			sb.WriteByte('S')
			i += len(stem)
		case bytes.HasPrefix(b[i:], t):
			sb.WriteByte('T')
			i += len(t)
		case bytes.HasPrefix(b[i:], u):
			sb.WriteByte('U')
			i += len(u)
		default:
			sb.WriteString(HexS(b[i : i+1]))
			i++
		}
	}
	return sb.String()
}

// HBStem is HB in the stem notation; the Coq variable s must be bound to the stem.
func HBStem(items [][]byte, stem []byte) string {
	if len(stem) < minStem {
		return HB(items)
	}
	var sb strings.Builder
	sb.WriteString(`(hbs s "`)
	for _, b := range items {
		sb.WriteString(HexStem(b, stem))
		sb.WriteByte(',')
	}
	sb.WriteString(`")`)
	return sb.String()
}

// H1Stem renders one byte string.
func H1Stem(b, stem []byte) string {
	if len(stem) < minStem {
		return Hx(b)
	}
	return `(h1s s "` + HexStem(b, stem) + `,")`
}

// LayersCoqStem is LayersCoq in the stem notation.
func LayersCoqStem(ls []Layer, stem []byte) string {
	if len(stem) < minStem {
		return LayersCoq(ls)
	}
	items := []string{}
	for _, l := range ls {
		var sb strings.Builder
		sb.WriteString(`(lys s "`)
		for _, k := range l.SortedKeys() {
			sb.WriteString(HexStem(k, stem))
			sb.WriteByte(',')
			sb.WriteString(HexStem(l[string(k)], stem))
			sb.WriteByte(',')
		}
		sb.WriteString(`")`)
		items = append(items, sb.String())
	}
	return List(items)
}

// WithStem binds the Coq variable s around a case term written in the stem notation.
func WithStem(st Stem, stem []byte, term string) string {
	if len(stem) < minStem {
		return term
	}
	return "(let s := " + st.Coq() + " in " + term + ")"
}
