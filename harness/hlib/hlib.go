// Package hlib: shared helpers for the correspondence harness commands.
//
// Every command cmd/hCxx takes  --seed N --tier quick|thorough --out DIR
// [--replay FILE]  and writes DIR/cases.jsonl: one JSON object per case with
//
//	id          int     running number
//	coq         string  a Gallina term of the property's type `case`
//	            (input + the observables the implementation returned)
//	kind        string  generator stream / operation class (for the histogram)
//	nontrivial  bool    case is non-trivial by the property's stated rule
//	input       any     human-readable input (the replay format)
//	impl        any     human-readable observables of the implementation
//
// All random choices come from one splitmix64 state seeded by --seed.
package hlib

import (
	"bufio"
	"encoding/hex"
	"encoding/json"
	"flag"
	"fmt"
	"math/big"
	"os"
	"path/filepath"
	"strings"
)

// ---------- PRNG ----------

// Rng is a splitmix64 generator.
type Rng struct{ s uint64 }

// NewRng seeds a generator.
func NewRng(seed uint64) *Rng { return &Rng{s: seed*0x9E3779B97F4A7C15 + 0x1234567} }

// U64 returns the next 64 random bits.
func (r *Rng) U64() uint64 {
	r.s += 0x9E3779B97F4A7C15
	z := r.s
	z = (z ^ (z >> 30)) * 0xBF58476D1CE4E5B9
	z = (z ^ (z >> 27)) * 0x94D049BB133111EB
	return z ^ (z >> 31)
}

// Intn returns a value in [0,n).
func (r *Rng) Intn(n int) int {
	if n <= 0 {
		return 0
	}
	return int(r.U64() % uint64(n))
}

// Range returns a value in [lo,hi].
func (r *Rng) Range(lo, hi int) int { return lo + r.Intn(hi-lo+1) }

// Bool returns true with probability num/den.
func (r *Rng) Chance(num, den int) bool { return r.Intn(den) < num }

// Pick returns a random element index helper.
func Pick[T any](r *Rng, xs []T) T { return xs[r.Intn(len(xs))] }

// Bytes returns n random bytes.
func (r *Rng) Bytes(n int) []byte {
	b := make([]byte, n)
	for i := range b {
		b[i] = byte(r.U64())
	}
	return b
}

// Fork derives an independent generator (for sub-streams).
func (r *Rng) Fork() *Rng { return NewRng(r.U64()) }

// Shuffle permutes xs in place.
func Shuffle[T any](r *Rng, xs []T) {
	for i := len(xs) - 1; i > 0; i-- {
		j := r.Intn(i + 1)
		xs[i], xs[j] = xs[j], xs[i]
	}
}

// ---------- Gallina literals ----------

// Z renders an int64 as a Coq Z literal.
func Z(v int64) string { return fmt.Sprintf("(%d)%%Z", v) }

// ZBig renders a big.Int as a Coq Z literal.
func ZBig(v *big.Int) string {
	if v.BitLen() <= 62 {
		return "(" + v.String() + ")%Z"
	}
	if v.Sign() < 0 {
		return `(zxn "` + new(big.Int).Neg(v).Text(16) + `")`
	}
	return `(zx "` + v.Text(16) + `")`
}

// N renders a uint64 as a Coq N literal.
func N(v uint64) string { return fmt.Sprintf("%d%%N", v) }

// Nat renders a small int as a Coq nat literal (keep it below a few thousand).
func Nat(v int) string { return fmt.Sprintf("%d%%nat", v) }

// Bool renders a Coq bool.
func Bool(b bool) string {
	if b {
		return "true"
	}
	return "false"
}

// Hx renders a byte string as (hx "…") : list N  (Lib.Harness.hx).
func Hx(b []byte) string { return `(hx "` + hex.EncodeToString(b) + `")` }

// OptHx renders nil as None and a (possibly empty) byte string as Some.
func OptHx(b []byte) string {
	if b == nil {
		return "None"
	}
	return "(Some " + Hx(b) + ")"
}

// Opt renders an optional term.
func Opt(present bool, term string) string {
	if !present {
		return "None"
	}
	return "(Some " + term + ")"
}

// List renders a Coq list of already-rendered terms.
func List(items []string) string { return "[" + strings.Join(items, "; ") + "]" }

// ListHx renders a list of byte strings.
func ListHx(bs [][]byte) string {
	it := make([]string, len(bs))
	for i, b := range bs {
		it[i] = Hx(b)
	}
	return List(it)
}

// Pair renders a Coq pair.
func Pair(a, b string) string { return "(" + a + ", " + b + ")" }

// App renders a constructor application.
func App(ctor string, args ...string) string {
	if len(args) == 0 {
		return ctor
	}
	return "(" + ctor + " " + strings.Join(args, " ") + ")"
}

// ---------- case output ----------

// Case is one line of cases.jsonl.
type Case struct {
	ID         int         `json:"id"`
	Coq        string      `json:"coq"`
	Kind       string      `json:"kind"`
	Nontrivial bool        `json:"nontrivial"`
	Input      interface{} `json:"input,omitempty"`
	Impl       interface{} `json:"impl,omitempty"`
}

// Out collects cases.
type Out struct {
	w   *bufio.Writer
	f   *os.File
	n   int
	Dir string
}

// Opts are the common command-line options.
type Opts struct {
	Seed   uint64
	Tier   string
	OutDir string
	Replay string
	Extra  string
}

// ParseFlags parses the common flags.
func ParseFlags() Opts {
	var o Opts
	flag.Uint64Var(&o.Seed, "seed", 1, "PRNG seed")
	flag.StringVar(&o.Tier, "tier", "quick", "quick|thorough")
	flag.StringVar(&o.OutDir, "out", ".", "output directory")
	flag.StringVar(&o.Replay, "replay", "", "replay file (JSON with .case.input)")
	flag.StringVar(&o.Extra, "extra", "", "property-specific extra argument")
	flag.Parse()
	return o
}

// Thorough reports whether the thorough tier was requested.
func (o Opts) Thorough() bool { return o.Tier == "thorough" }

// NewOut opens DIR/cases.jsonl.
func NewOut(dir string) *Out {
	if err := os.MkdirAll(dir, 0o755); err != nil {
		panic(err)
	}
	f, err := os.Create(filepath.Join(dir, "cases.jsonl"))
	if err != nil {
		panic(err)
	}
	return &Out{w: bufio.NewWriterSize(f, 1<<20), f: f, Dir: dir}
}

// Emit writes one case and returns its id.
func (o *Out) Emit(kind string, nontrivial bool, coq string, input, impl interface{}) int {
	c := Case{ID: o.n, Coq: coq, Kind: kind, Nontrivial: nontrivial, Input: input, Impl: impl}
	b, err := json.Marshal(c)
	if err != nil {
		panic(err)
	}
	o.w.Write(b)
	o.w.WriteByte('\n')
	// flush per case: if the implementation under test crashes the process later,
	// the cases emitted so far are still evaluated by the driver
	o.w.Flush()
	o.n++
	return c.ID
}

// Count is the number of cases emitted so far.
func (o *Out) Count() int { return o.n }

// Close flushes the file.
func (o *Out) Close() {
	o.w.Flush()
	o.f.Close()
}

// ReplayInput loads .case.input of a replay file into v.
func ReplayInput(path string, v interface{}) error {
	b, err := os.ReadFile(path)
	if err != nil {
		return err
	}
	var r struct {
		Case struct {
			Input json.RawMessage `json:"input"`
		} `json:"case"`
	}
	if err := json.Unmarshal(b, &r); err != nil {
		return err
	}
	return json.Unmarshal(r.Case.Input, v)
}

// HexS is hex.EncodeToString.
func HexS(b []byte) string { return hex.EncodeToString(b) }
