(** C36 — after Client.Close / Queue.Close: every newly started send fails with an error,
    every newly started wait returns. *)
From Coq Require Import List NArith Bool Lia.
From C33 Require Import C36.Model C36.ProofsBase.
Import ListNotations.
Open Scope N_scope.

(** *** the closed flags never go back *)
Lemma closed_mono s e s' c :
  step s e = Some s' -> c_closed (gc s c) = true -> c_closed (gc s' c) = true.
Proof.
  intros H Hc. destruct e; step_inv H; autorewrite with frame; eqb_cases; bool_hyps; simpl; auto; congruence.
Qed.

Lemma qclosed_mono s e s' :
  step s e = Some s' -> s_qclosed s = true -> s_qclosed s' = true.
Proof.
  intros H Hc. destruct e; step_inv H; autorewrite with frame; simpl; auto; congruence.
Qed.

Lemma aget_map_close_gen cp t m :
  t_closed (aget topic0 t m) = true ->
  t_closed (aget topic0 t (map (fun kv => (fst kv, close_topic_rec cp (snd kv))) m)) = true.
Proof.
  induction m as [|[k v] m IH]; simpl; intros H; [exact H|].
  destruct (t =? k); [apply close_topic_closed|apply IH, H].
Qed.
Lemma aget_map_close s t :
  t_closed (gt s t) = true -> t_closed (aget topic0 t (close_all s)) = true.
Proof. apply aget_map_close_gen. Qed.

Lemma tclosed_mono s e s' t :
  step s e = Some s' -> t_closed (gt s t) = true -> t_closed (gt s' t) = true.
Proof.
  intros H Hc. destruct e; step_inv H; autorewrite with frame; eqb_cases; simpl;
    rewrite ?set_chan_closed, ?close_topic_closed; auto; try congruence.
  all: apply aget_map_close, Hc.
Qed.

(** Queue.Close closes every topic that exists at that moment *)
Lemma close_all_closes s t :
  In t (map fst (s_topics s)) -> t_closed (aget topic0 t (close_all s)) = true.
Proof.
  unfold close_all. intros Hin.
  induction (s_topics s) as [|[k v] m IH]; simpl in *; [contradiction|].
  destruct (t =? k) eqn:E; [apply close_topic_closed|].
  destruct Hin as [->|Hin]; [rewrite N.eqb_refl in E; discriminate|apply IH, Hin].
Qed.

Lemma close_queue_closes_all s s' t :
  step s ECloseQueue = Some s' -> s_qclosed s = false ->
  In t (map fst (s_topics s)) -> t_closed (gt s' t) = true.
Proof.
  intros H Hq Hin. simpl in H. rewrite Hq in H.
  destruct (s_qclosing s); [discriminate|]. injection H as <-. rewrite gt_sq.
  apply close_all_closes, Hin.
Qed.

Lemma close_qbegin_closes_all s s' t :
  step s ECloseQBegin = Some s' -> In t (map fst (s_topics s)) -> t_closed (gt s' t) = true.
Proof.
  intros H Hin. simpl in H. destruct (s_qclosing s); [discriminate|]. injection H as <-. rewrite gt_sqb.
  apply close_all_closes, Hin.
Qed.

(** along traces *)
Lemma closed_mono_run tr : forall s s' c,
  run s tr = Some s' -> c_closed (gc s c) = true -> c_closed (gc s' c) = true.
Proof.
  intros s s' c Hr Hc. eapply (run_invariant (fun s => c_closed (gc s c) = true)); eauto.
  intros; eapply closed_mono; eauto.
Qed.
Lemma qclosed_mono_run tr : forall s s',
  run s tr = Some s' -> s_qclosed s = true -> s_qclosed s' = true.
Proof.
  intros s s' Hr Hc. eapply (run_invariant (fun s => s_qclosed s = true)); eauto.
  intros; eapply qclosed_mono; eauto.
Qed.
Lemma tclosed_mono_run tr : forall s s' t,
  run s tr = Some s' -> t_closed (gt s t) = true -> t_closed (gt s' t) = true.
Proof.
  intros s s' t Hr Hc. eapply (run_invariant (fun s => t_closed (gt s t) = true)); eauto.
  intros; eapply tclosed_mono; eauto.
Qed.

(** *** a closed client has its [done] channel closed *)
Definition closed_closing (s : state) : Prop :=
  forall c, c_closed (gc s c) = true -> c_closing (gc s c) = true.

Lemma closed_closing_init cp : closed_closing (init cp).
Proof. intros c; simpl; discriminate. Qed.

Lemma closed_closing_step s e s' :
  closed_closing s -> step s e = Some s' -> closed_closing s'.
Proof.
  intros I H c. specialize (I c). revert I.
  destruct e; step_inv H; autorewrite with frame; eqb_cases; bool_hyps; simpl; auto; try congruence.
Qed.

(** *** what a send / wait started in a closed situation does *)
Lemma send_after_close s c o hi m r s' :
  c_closed (gc s c) = true \/ s_qclosed s = true ->
  step s (ESend c o hi m r) = Some s' -> is_err r = true.
Proof.
  intros Hc H. simpl in H. unfold pre_check in H.
  destruct (c_closed (gc s c)) eqn:E1.
  - destruct r; simpl in H; try discriminate; reflexivity.
  - destruct Hc as [Hc|Hc]; [discriminate|]. rewrite Hc in H.
    destruct r; simpl in H; try discriminate; reflexivity.
Qed.

Lemma block_after_close s p c o hi m :
  c_closed (gc s c) = true \/ s_qclosed s = true ->
  step s (EBlock p c o hi m) = None.
Proof.
  intros Hc. simpl. unfold pre_check.
  destruct (c_closed (gc s c)) eqn:E1; [reflexivity|].
  destruct Hc as [Hc|Hc]; [discriminate|]. rewrite Hc. reflexivity.
Qed.

Lemma wait_after_client_close s c o timed :
  c_closing (gc s c) = true -> exists s', step s (EWait c o timed WClient) = Some s'.
Proof. intros H. simpl. rewrite H. eauto. Qed.

Lemma wait_after_topic_close s c o timed :
  t_closed (gt s (o_topic (go s o))) = true -> exists s', step s (EWait c o timed WChan) = Some s'.
Proof. intros H. simpl. rewrite H. eauto. Qed.

Definition reachable (cp : caps) (s : state) : Prop := exists tr, run (init cp) tr = Some s.

Lemma reachable_closed_closing cp s : reachable cp s -> closed_closing s.
Proof.
  intros [tr Hr]. eapply (run_invariant closed_closing); eauto using closed_closing_init.
  intros; eapply closed_closing_step; eauto.
Qed.

(** the theorem: [s] is any reachable state in which client [c] is closed or the queue is
    closed; [s2] any later state.  In [s2] a send of [c] that completes at once returns an
    error, no send of [c] parks, and a wait of [c] returns (with ErrIsQueueClosed if the
    client is closed; with ErrChannelClosed if the message's topic existed when the queue
    was closed -- more generally whenever that topic is closed). *)
Definition after_close_errors_base_stmt : Prop :=
  forall cp tr1 s c, run (init cp) tr1 = Some s ->
    c_closed (gc s c) = true \/ s_qclosed s = true ->
  forall tr2 s2, run s tr2 = Some s2 ->
    (forall o hi m r s3, step s2 (ESend c o hi m r) = Some s3 -> is_err r = true)
    /\ (forall p o hi m, step s2 (EBlock p c o hi m) = None)
    /\ (c_closed (gc s c) = true -> forall o timed, exists r s3, step s2 (EWait c o timed r) = Some s3)
    /\ (forall o timed, t_closed (gt s (o_topic (go s2 o))) = true ->
          exists r s3, step s2 (EWait c o timed r) = Some s3).

Lemma after_close_errors_base : after_close_errors_base_stmt.
Proof.
  intros cp tr1 s c Hr1 Hc tr2 s2 Hr2.
  assert (Hc2 : c_closed (gc s2 c) = true \/ s_qclosed s2 = true).
  { destruct Hc as [Hc|Hc]; [left; eapply closed_mono_run|right; eapply qclosed_mono_run]; eauto. }
  assert (R2 : reachable cp s2).
  { exists (tr1 ++ tr2). rewrite run_app, Hr1. exact Hr2. }
  repeat split.
  - intros; eapply send_after_close; eauto.
  - intros; eapply block_after_close; eauto.
  - intros Hcc o timed. exists WClient.
    apply wait_after_client_close. apply (reachable_closed_closing cp s2 R2).
    eapply closed_mono_run; eauto.
  - intros o timed Ht. exists WChan. apply wait_after_topic_close.
    eapply tclosed_mono_run; eauto.
Qed.

(** Queue.Close: every topic that existed is closed afterwards, for ever *)
Lemma queue_close_topics s s' t tr s2 :
  step s ECloseQueue = Some s' -> s_qclosed s = false -> In t (map fst (s_topics s)) ->
  run s' tr = Some s2 -> t_closed (gt s2 t) = true.
Proof.
  intros H Hq Hin Hr. eapply tclosed_mono_run; eauto. eapply close_queue_closes_all; eauto.
Qed.

(** *** a Close call that has returned leaves the client closed, whether or not it had
    subscribed.  The call is [ECloseNoop] (already closed) or [ECloseBegin] ... [ECloseEnd]
    with anything in between (the pump exits, other participants go on). *)
Definition close_returned (s : state) (c : N) (s1 : state) : Prop :=
  step s (ECloseNoop c) = Some s1
  \/ exists s0 tr s0', step s (ECloseBegin c) = Some s0 /\ run s0 tr = Some s0' /\ step s0' (ECloseEnd c) = Some s1.

Lemma close_returned_closed s c s1 : close_returned s c s1 -> c_closed (gc s1 c) = true.
Proof.
  intros [H|(s0 & tr & s0' & _ & _ & H)].
  - simpl in H. destruct (c_closed (gc s c)) eqn:E; [injection H as <-; exact E|discriminate].
  - step_inv H; autorewrite with frame; rewrite N.eqb_refl; reflexivity.
Qed.

Definition close_call_closes_full : Prop :=
  forall cp tr s c s1, run (init cp) tr = Some s -> close_returned s c s1 ->
    forall tr2 s2, run s1 tr2 = Some s2 ->
      (forall o hi m r s3, step s2 (ESend c o hi m r) = Some s3 -> is_err r = true)
      /\ (forall p o hi m, step s2 (EBlock p c o hi m) = None).

Lemma close_call_closes_proof : close_call_closes_full.
Proof.
  intros cp tr s c s1 _ Hc tr2 s2 Hr2.
  pose proof (closed_mono_run _ _ _ c Hr2 (close_returned_closed _ _ _ Hc)) as Hc2.
  split; intros; [eapply send_after_close|eapply block_after_close]; eauto.
Qed.

(* non-vacuity: a client that never subscribed (the case that used to fail: its Close did
   nothing) is closed by its Close call; its next send fails, its next wait returns *)
Lemma never_subscribed_close_runs :
  exists s s1, run (init (mkCaps 2 2 5)) [ENew 0 0 1] = Some s
    /\ c_pump (gc s 0) = PNone
    /\ close_returned s 0 s1
    /\ step s1 (ESend 0 0 true MForever SErrClient) = Some s1
    /\ step s1 (ESend 0 0 true MForever SOk) = None
    /\ step s1 (ERecvClosed 0) = Some s1
    /\ (exists s2, step s1 (EWait 0 0 false WClient) = Some s2).
Proof.
  eexists _, _. split; [reflexivity|]. split; [reflexivity|]. split.
  - right. eexists _, [], _. split; [vm_compute; reflexivity|]. split; [reflexivity|vm_compute; reflexivity].
  - repeat split; try (vm_compute; reflexivity). eexists; vm_compute; reflexivity.
Qed.
