(** C36 — delivery bookkeeping is preserved by every disciplined step. *)
From Coq Require Import List NArith Bool Lia.
From C33 Require Import C36.Model C36.ProofsBase C36.ProofsOcc C36.ProofsEff C36.ProofsInv
  C36.ProofsSteps C36.ProofsInv2 C36.ProofsInvX C36.ProofsInv3 C36.ProofsInv4 C36.ProofsDeliv.
Import ListNotations.
Open Scope N_scope.

Ltac go_goal := let ox := fresh "ox" in intros ox; autorewrite with frame; try reflexivity.
Ltac upd s o0 :=
  eapply (deliv_update s _ o0);
  [eassumption | reflexivity | reflexivity | go_goal | simpl; try reflexivity | simpl; auto | simpl; auto].

Lemma sent_of_place s o : ids_ok s -> o_where (go s o) <> P0 -> o_sent (go s o) = true.
Proof.
  intros (_ & _ & _ & I4) H. destruct (o_sent (go s o)) eqn:E; [reflexivity|]. exfalso. apply H, I4, E.
Qed.

Lemma deliv_new s o t i s' : Deliv s -> step s (ENew o t i) = Some s' -> Deliv s'.
Proof.
  intros (D1 & D2 & D3 & D4 & D5 & D6) H. step_inv H. bool_hyps.
  match goal with H : (s_gid s <? i) = true |- _ => apply N.ltb_lt in H; rename H into Hlt end.
  unfold Deliv. autorewrite with frame.
  split; [exact D1|]. split; [|split; [|split; [|split]]].
  - intros i0 Hin. destruct (D2 _ Hin). split; [lia|assumption].
  - intros o'. autorewrite with frame. destruct (o' =? o); simpl; [lia|]. pose proof (D3 o'). lia.
  - intros o1 o2 Hne. autorewrite with frame.
    destruct (o1 =? o) eqn:E1, (o2 =? o) eqn:E2; simpl; try (apply N.eqb_eq in E1); try (apply N.eqb_eq in E2);
      try congruence; intros Heq.
    + pose proof (D3 o2). lia.
    + pose proof (D3 o1). lia.
    + apply D4 with (o' := o2); auto.
  - intros o'. autorewrite with frame. destruct (o' =? o) eqn:E; simpl; [|apply D5].
    intros Hin. destruct (D2 _ Hin). lia.
  - intros o'. autorewrite with frame. destruct (o' =? o) eqn:E; simpl; [lia|apply D6].
Qed.

Lemma deliv_recv s c o0 i s' : Inv s -> Deliv s -> step s (ERecv c o0 i) = Some s' -> Deliv s'.
Proof.
  intros (W & N & I) (D1 & D2 & D3 & D4 & D5 & D6) H. apply step_recv in H. cbv zeta in H.
  destruct H as (Hi & f' & Hpop & ->).
  pose proof (fpop_objs _ _ _ Hpop) as Hv. simpl in Hv.
  assert (HA : o_where (go s o0) = PRecv c).
  { apply W. simpl. unfold vrecv. rewrite Hv. apply in_or_app; right; left; reflexivity. }
  assert (Hnz : i <> 0).
  { intros H0. subst i. pose proof (D6 _ H0) as Hp.
    destruct I as (_ & _ & I3 & _). destruct (I3 _ Hp) as [Hw _]. congruence. }
  assert (Hnew : ~ In i (s_deliv s)).
  { intros Hin. subst i. apply D5 in Hin. revert Hin. apply not_delivered_place; rewrite HA; discriminate. }
  assert (Hids : forall o, o_id (go (sd (set_where (sc s c (mkC f' (c_hold (gc s c)) (c_pump (gc s c)) (c_topic (gc s c))
                     (c_closing (gc s c)) (c_closed (gc s c)) ((o0, i) :: c_held (gc s c)))) o0 (PHeld c)) i) o) = o_id (go s o)).
  { intros o. autorewrite with frame. destruct (o =? o0) eqn:E; [apply N.eqb_eq in E; subst|]; reflexivity. }
  unfold Deliv. autorewrite with frame.
  split; [constructor; assumption|]. split; [|split; [|split; [|split]]].
  - intros i0 [<-|Hin]; [split; [subst i; apply D3|exact Hnz]|apply D2; exact Hin].
  - intros o. rewrite Hids. apply D3.
  - intros o o' Hne. rewrite !Hids. apply D4; auto.
  - intros o. rewrite Hids. autorewrite with frame.
    destruct (o =? o0) eqn:E; [left; exists c; reflexivity|].
    apply N.eqb_neq in E. intros [Heq|Hin]; [|apply D5; exact Hin].
    exfalso. assert (Hz : o_id (go s o) = 0) by (apply (D4 o o0 E); congruence). apply Hnz. congruence.
  - intros o. rewrite Hids. autorewrite with frame.
    destruct (o =? o0) eqn:E; [apply N.eqb_eq in E; subst; simpl|]; apply D6.
Qed.

Lemma deliv_step s e s' : Inv s -> Deliv s -> disc s e = true -> step s e = Some s' -> Deliv s'.
Proof.
  intros II D Dc H. pose proof II as (W & N & I).
  destruct e.
  - eapply deliv_new; eauto.
  - (* EFree *) step_inv H. upd s o.
  - (* ESub *) step_inv H; auto; apply (deliv_same s); auto.
  - (* ESend *)
    destruct r; try (step_inv H; auto;
                     try (match goal with E : sres_eqb _ _ = true |- _ => simpl in E; discriminate E end);
                     apply (deliv_same s); auto; fail).
    apply step_send_ok in H. cbv zeta in H. subst s'. simpl in Dc. bool_hyps.
    upd s o.
    destruct I as (_ & _ & _ & I4). intros [[c0 Hc]|[_ Hc]]; [rewrite I4 in Hc by assumption; discriminate|congruence].
  - (* EBlock *)
    apply step_block in H. cbv zeta in H. destruct H as (_ & timed & ->). simpl in Dc. bool_hyps.
    upd s o.
    destruct I as (_ & _ & _ & I4). intros [[c0 Hc]|[_ Hc]]; [rewrite I4 in Hc by assumption; discriminate|congruence].
  - (* EUnblock *)
    apply step_unblock in H. destruct H as (pd & Hg & H). cbv zeta in H.
    assert (HA : o_where (go s (p_obj pd)) = PPend p).
    { apply W. simpl. unfold vpend. apply pend_get_vpend. exact Hg. }
    destruct H as [(-> & ->)|(Hr & ->)];
      upd s (p_obj pd);
      try (intros Hd; exfalso; revert Hd; apply not_delivered_place; rewrite HA; discriminate).
  - (* EPumpTake *)
    apply step_pump_take in H. cbv zeta in H. destruct H as (Hh & x & f' & Hpop & ->).
    pose proof (fpop_objs _ _ _ Hpop) as Hv.
    destruct x as [o0|]; [|apply (deliv_same s); auto].
    assert (HA : o_where (go s o0) = PChan (c_topic (gc s c)) hi).
    { apply W. simpl. unfold vchan. rewrite Hv. apply in_or_app; right; left; reflexivity. }
    upd s o0.
    intros Hd; exfalso; revert Hd; apply not_delivered_place; rewrite HA; discriminate.
  - (* EPumpPut *)
    apply step_pump_put in H. cbv zeta in H. destruct H as (x & Hh & ->).
    destruct x as [o0|]; [|apply (deliv_same s); auto].
    assert (HA : o_where (go s o0) = PHold c).
    { apply W. simpl. unfold vhold. rewrite Hh. left; reflexivity. }
    upd s o0.
    intros Hd; exfalso; revert Hd; apply not_delivered_place; rewrite HA; discriminate.
  - step_inv H; apply (deliv_same s); auto.
  - eapply deliv_recv; eauto.
  - step_inv H; auto.
  - (* EReply *)
    apply step_reply in H. cbv zeta in H. destruct H as (Hm & Hslot & ->).
    assert (HA : o_where (go s o) = PHeld c).
    { apply W. simpl. unfold vheld. apply in_map_iff. exists (o, i). split; [reflexivity|apply mem_pair_in; exact Hm]. }
    upd s o.
    intros _. right. split; [reflexivity|]. apply sent_of_place; [exact I|rewrite HA; discriminate].
  - (* EWait *)
    destruct r; try (step_inv H; apply (deliv_same s); auto; fail).
    apply step_wait_got in H. cbv zeta in H. destruct H as (_ & ->).
    upd s o.
  - step_inv H; auto.
  - step_inv H; apply (deliv_same s); auto.
  - step_inv H; apply (deliv_same s); auto.
  - (* EDrain *)
    apply step_drain in H. cbv zeta in H. destruct H as (Hh & x & f' & Hpop & ->).
    pose proof (fpop_objs _ _ _ Hpop) as Hv.
    destruct x as [o0|]; [|apply (deliv_same s); auto].
    assert (HA : o_where (go s o0) = PRecv c).
    { apply W. simpl. unfold vrecv. rewrite Hv. apply in_or_app; right; left; reflexivity. }
    upd s o0.
    intros Hd; exfalso; revert Hd; apply not_delivered_place; rewrite HA; discriminate.
  - (* EDrainReply *)
    apply step_drain_reply in H. cbv zeta in H.
    destruct H as [(Hh & ->)|(o0 & Hh & Hslot & ->)]; [apply (deliv_same s); auto|].
    assert (HA : o_where (go s o0) = PHold c).
    { apply W. simpl. unfold vhold. rewrite Hh. left; reflexivity. }
    upd s o0.
    intros Hd; exfalso; revert Hd; apply not_delivered_place; rewrite HA; discriminate.
  - step_inv H; auto; apply (deliv_same s); auto.
  - discriminate Dc.
  - (* ESub2 *) step_inv H; apply (deliv_same s); auto.
  - (* EXTake *)
    apply step_xtake in H. cbv zeta in H. destruct H as (Hh & x & f' & Hpop & ->).
    pose proof (fpop_objs _ _ _ Hpop) as Hv.
    destruct x as [o0|]; [|apply (deliv_same s); auto].
    assert (HA : o_where (go s o0) = PChan (x_topic (gx s k)) hi).
    { apply W. simpl. unfold vchan. rewrite Hv. apply in_or_app; right; left; reflexivity. }
    upd s o0.
    intros Hd; exfalso; revert Hd; apply not_delivered_place; rewrite HA; discriminate.
  - (* EXPut *)
    apply step_xput in H. cbv zeta in H. destruct H as (x & Hh & ->).
    destruct x as [o0|]; [|apply (deliv_same s); auto].
    assert (HA : o_where (go s o0) = PXHold k).
    { apply W. simpl. unfold vxhold. rewrite Hh. left; reflexivity. }
    upd s o0.
    intros Hd; exfalso; revert Hd; apply not_delivered_place; rewrite HA; discriminate.
  - step_inv H; apply (deliv_same s); auto.
  - step_inv H; auto.
  - step_inv H; apply (deliv_same s); auto.
  - step_inv H; apply (deliv_same s); auto.
Qed.
