(** C36 — the abstract specification, evaluated on API-level observations only
    (what each participant called and what it got back).  It does not mention the
    model's state. *)
From Coq Require Import List NArith Bool.
From C33 Require Import C36.Model.
Import ListNotations.
Open Scope N_scope.

(** One scripted API call with what the implementation answered. *)
Inductive op :=
| ONew (o t i : N)                                        (* NewMessage gave object o, ID i *)
| OFree (o : N)
| OSub (c t : N)
| OSend (p c o : N) (hi : bool) (m : mode) (out : option sres)   (* None: still blocked after 200 ms *)
| OFill (c t o0 i0 n : N)                                 (* n x (NewMessage; SendTimeout(msg,false,0)) all nil *)
| ORecv (c : N) (out : option (option (N * N)))           (* non-blocking receive: None empty, Some None closed *)
| OReply (c o i : N) (ret : bool)
| OWait (c o : N) (timed : bool) (out : option wres)      (* None: still blocked after 200 ms *)
| OClose (c : N) (ret : bool)                             (* Client.Close; false: still blocked after 200 ms *)
| OCloseQ
| OPanic (k : N).                                         (* an API call panicked (1 send 2 wait 3 close 4 reply 5 other) *)

(** Calls that were blocked and returned as a consequence of a later call. *)
Inductive comp := CSend (p : N) (r : sres) | CClose (c : N).

Fixpoint memN (x : N) (l : list N) : bool :=
  match l with [] => false | y :: tl => (x =? y) || memN x tl end.
Fixpoint nodupN (l : list N) : bool :=
  match l with [] => true | x :: tl => negb (memN x tl) && nodupN tl end.

Definition reply_names (r : reply) (i : N) : bool := match r with RFor j => j =? i | RClosed => true end.

(** *** clause 1: a requester only ever takes the reply produced for its own request *)
Fixpoint own_reply (cur : list (N * N)) (ops : list op) : bool :=
  match ops with
  | [] => true
  | ONew o _ i :: tl => own_reply (aset o i cur) tl
  | OWait _ o _ (Some (WGot r)) :: tl => reply_names r (aget 0 o cur) && own_reply cur tl
  | _ :: tl => own_reply cur tl
  end.

(** *** clause 2: a subscriber sees each message at most once *)
Fixpoint recv_ids (ops : list op) : list N :=
  match ops with
  | [] => []
  | ORecv _ (Some (Some (_, i))) :: tl => i :: recv_ids tl
  | _ :: tl => recv_ids tl
  end.
Definition at_most_once (ops : list op) : bool := nodupN (recv_ids ops).

(** *** clause 3: after Client.Close / Queue.Close returned, new sends fail and new waits return *)
Definition comps_closed (cs : list comp) : list N :=
  flat_map (fun x => match x with CClose c => [c] | _ => [] end) cs.

Fixpoint after_close (closed : list N) (qclosed : bool) (ops : list (op * list comp)) : bool :=
  match ops with
  | [] => true
  | (o, cs) :: tl =>
      let ok := match o with
                | OSend _ c _ _ _ out =>
                    if qclosed || memN c closed
                    then match out with Some r => is_err r | None => false end else true
                | OWait c _ _ out =>
                    if qclosed || memN c closed
                    then match out with Some _ => true | None => false end else true
                | _ => true
                end in
      let closed' := match o with OClose c true => c :: closed | _ => closed end in
      let q' := match o with OCloseQ => true | _ => qclosed end in
      ok && after_close (comps_closed cs ++ closed') q' tl
  end.

(** *** clause 4: once the queue is closed no send stays blocked for ever
    ([still]: the sends that were still blocked 3 s after the last call) *)
Definition queue_closed_at_end (ops : list op) : bool :=
  existsb (fun o => match o with OCloseQ => true | _ => false end) ops.
Definition no_block_forever (ops : list op) (still : list N) : bool :=
  if queue_closed_at_end ops then match still with [] => true | _ => false end else true.

(** *** no call crashes *)
Definition no_panic (ops : list op) : bool :=
  forallb (fun o => match o with OPanic _ => false | _ => true end) ops.

(** *** the client discipline under which clauses 1 and 2 are promised
    (FreeMessage's contract: "the context must no longer reference the message"):
    a message is freed only before it was sent or after its reply was taken, it is sent
    at most once per NewMessage and never after FreeMessage.  Per-object status:
    0 unknown/free, 1 new, 2 sent (or parked in a send), 3 reply taken. *)
Fixpoint disciplined (stt : list (N * N)) (ops : list op) : bool :=
  match ops with
  | [] => true
  | ONew o _ _ :: tl => disciplined (aset o 1 stt) tl
  | OFree o :: tl =>
      let x := aget 0 o stt in ((x =? 1) || (x =? 3)) && disciplined (aset o 0 stt) tl
  | OSend _ _ o _ _ out :: tl =>
      (aget 0 o stt =? 1) &&
      disciplined (match out with
                   | Some SOk | None => aset o 2 stt
                   | Some _ => stt
                   end) tl
  | OWait _ o _ (Some (WGot _)) :: tl =>
      disciplined (if aget 0 o stt =? 2 then aset o 3 stt else stt) tl
  | _ :: tl => disciplined stt tl
  end.

(** *** (b) the monitor for concurrent runs (merged per-participant logs) *)
Inductive cevent :=
| CRecv (i : N)                      (* a subscriber read ID i from Recv *)
| CGot (own named : N)               (* a requester took a reply naming [named] for its request [own] *)
| CSendAfterClose (failed : bool)    (* a send started after Queue.Close returned *)
| CWaitAfterClose (returned : bool)  (* a wait started after Queue.Close returned *)
| CBad (k : N).                      (* 1 Client.Close did not return, 2 a call panicked, 3 a requester never came back *)

Fixpoint conc_recv_ids (l : list cevent) : list N :=
  match l with [] => [] | CRecv i :: tl => i :: conc_recv_ids tl | _ :: tl => conc_recv_ids tl end.

Definition conc_ok (l : list cevent) : bool :=
  nodupN (conc_recv_ids l)
  && forallb (fun e => match e with
                       | CGot own named => own =? named
                       | CSendAfterClose b | CWaitAfterClose b => b
                       | CRecv _ => true
                       | CBad _ => false
                       end) l.
