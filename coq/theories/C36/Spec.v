(** C36 — the abstract specification, evaluated on API-level observations only
    (what each participant called and what it got back).  It does not mention the
    model's state. *)
From Coq Require Import List NArith Bool.
From C33 Require Import C36.Model.
Import ListNotations.
Open Scope N_scope.

(** One scripted API call with what the implementation answered. *)
Inductive op :=
| ONew (o t i : N)                                        (* NewMessage gave object o, ID i *)
| OFree (o : N)
| OSub (c t : N)
| OSend (p c o : N) (hi : bool) (m : mode) (out : option sres)   (* None: still blocked after 200 ms *)
| OFill (c t o0 i0 n : N)                                 (* n x (NewMessage; SendTimeout(msg,false,0)) all nil *)
| ORecv (c : N) (out : option (option (N * N)))           (* non-blocking receive: None empty, Some None closed *)
| OReply (c o i : N) (ret : bool)
| OWait (c o : N) (timed : bool) (out : option wres)      (* None: still blocked after 200 ms *)
| OClose (c : N) (ret : bool)                             (* Client.Close; false: still blocked after 200 ms *)
| OCloseQ
| OPanic (k : N)                                          (* an API call panicked (1 send 2 wait 3 close 4 reply 5 other) *)
| ONewRaw (o t : N)                                       (* queue.NewMessage(0, topic, 0, nil) gave object o *)
| OClosePanic (c : N)                                     (* Client.Close panicked: close of closed channel *)
| OCloseQB                                                (* Queue.Close was called and is walking the topics *)
| OCloseQE.                                               (* ... and has returned *)

(** Calls that were blocked and returned as a consequence of a later call. *)
Inductive comp := CSend (p : N) (r : sres) | CClose (c : N).

Fixpoint memN (x : N) (l : list N) : bool :=
  match l with [] => false | y :: tl => (x =? y) || memN x tl end.
Fixpoint nodupN (l : list N) : bool :=
  match l with [] => true | x :: tl => negb (memN x tl) && nodupN tl end.

Definition reply_names (r : reply) (i : N) : bool := match r with RFor j => j =? i | RClosed => true end.

(** *** clause 1: a requester only ever takes the reply produced for its own request *)
Fixpoint own_reply (cur : list (N * N)) (ops : list op) : bool :=
  match ops with
  | [] => true
  | ONew o _ i :: tl => own_reply (aset o i cur) tl
  | ONewRaw o _ :: tl => own_reply (aset o 0 cur) tl
  | OWait _ o _ (Some (WGot r)) :: tl => reply_names r (aget 0 o cur) && own_reply cur tl
  | _ :: tl => own_reply cur tl
  end.

(** *** clause 2: a subscriber sees each message at most once *)
Fixpoint recv_ids (ops : list op) : list N :=
  match ops with
  | [] => []
  | ORecv _ (Some (Some (_, i))) :: tl => if i =? 0 then recv_ids tl else i :: recv_ids tl   (* 0: not numbered by the bus *)
  | _ :: tl => recv_ids tl
  end.
Definition at_most_once (ops : list op) : bool := nodupN (recv_ids ops).

(** *** clause 3: after Client.Close / Queue.Close returned, new sends fail and new waits return;
    a closed subscriber's topics do not accept requests any more (a send to them fails, a wait
    on them returns).
    [lastonly]: count only the topic of a closed client's last Sub as closed (signature of
    finding 3).  [skiplate]: do not ask waits on topics first named after Queue.Close was called
    to return (signature of finding 6). *)
Definition comps_closed (cs : list comp) : list N :=
  flat_map (fun x => match x with CClose c => [c] | _ => [] end) cs.

Record acs := mkAcs {
  a_closed : list N;      (* clients whose Close has returned *)
  a_closing : list N;     (* clients whose Close has been called *)
  a_q : bool;             (* Queue.Close has returned *)
  a_qb : bool;            (* Queue.Close has been called *)
  a_subs : list (N * N);  (* effective subscriptions (client, topic), newest first *)
  a_dead : list N;        (* topics of closed subscribers *)
  a_known : list N;       (* topics that existed when Queue.Close was called *)
  a_otop : list (N * N)   (* object -> topic *)
}.
Definition acs0 (known : list N) : acs := mkAcs [] [] false false [] [] known [].

Definition topics_of (lastonly : bool) (c : N) (subs : list (N * N)) : list N :=
  let l := map snd (filter (fun ct => fst ct =? c) subs) in
  if lastonly then firstn 1 l else l.

Definition acs_top (a : acs) (ob : N) : N := aget 0 ob (a_otop a).

Definition acs_ok (skiplate : bool) (a : acs) (o : op) : bool :=
  match o with
  | OSend _ c ob _ _ out =>
      if a_q a || memN c (a_closed a) || memN (acs_top a ob) (a_dead a)
      then match out with Some r => is_err r | None => false end else true
  | OWait c ob _ out =>
      let t := acs_top a ob in
      let exempt := skiplate && a_q a && negb (memN c (a_closed a)) && negb (memN t (a_dead a))
                    && negb (memN t (a_known a)) in
      if (a_q a || memN c (a_closed a) || memN t (a_dead a)) && negb exempt
      then match out with Some _ => true | None => false end else true
  | _ => true
  end.

Definition acs_next (lastonly : bool) (a : acs) (x : op * list comp) : acs :=
  let '(o, cs) := x in
  let know t l := if a_qb a then l else t :: l in
  let newly := comps_closed cs ++ match o with OClose c true => [c] | _ => [] end in
  mkAcs (newly ++ a_closed a)
        (match o with OClose c _ => c :: a_closing a | _ => a_closing a end)
        (match o with OCloseQ | OCloseQE => true | _ => a_q a end)
        (match o with OCloseQ | OCloseQB => true | _ => a_qb a end)
        (match o with
         | OSub c t => if memN c (a_closing a) then a_subs a else (c, t) :: a_subs a
         | _ => a_subs a
         end)
        (flat_map (fun c => topics_of lastonly c (a_subs a)) newly ++ a_dead a)
        (match o with
         | OSub c t => if memN c (a_closing a) then a_known a else know t (a_known a)
         | OSend _ c ob _ _ out =>
             match out with Some SErrClient => a_known a | _ => know (acs_top a ob) (a_known a) end
         | OWait _ ob _ _ => know (acs_top a ob) (a_known a)
         | OFill _ t _ _ _ => know t (a_known a)
         | _ => a_known a
         end)
        (match o with ONew ob t _ | ONewRaw ob t => aset ob t (a_otop a) | _ => a_otop a end).

Fixpoint after_close (lastonly skiplate : bool) (a : acs) (ops : list (op * list comp)) : bool :=
  match ops with
  | [] => true
  | x :: tl => acs_ok skiplate a (fst x) && after_close lastonly skiplate (acs_next lastonly a x) tl
  end.

(* the topics of the sends that parked, and the topics known when Queue.Close was called *)
Fixpoint parked_topics (a : acs) (ops : list (op * list comp)) : list (N * N) :=
  match ops with
  | [] => []
  | x :: tl =>
      match fst x with
      | OSend p _ ob _ _ None => [(p, acs_top a ob)]
      | _ => []
      end ++ parked_topics (acs_next false a x) tl
  end.
Definition known_at_close (a : acs) (ops : list (op * list comp)) : list N :=
  a_known (fold_left (acs_next false) ops a).

(** *** clause 4: once the queue is closed no send stays blocked for ever
    ([still]: the sends that were still blocked 3 s after the last call) *)
Definition queue_closed_at_end (ops : list op) : bool :=
  existsb (fun o => match o with OCloseQ | OCloseQE => true | _ => false end) ops.
Definition no_block_forever (ops : list op) (still : list N) : bool :=
  if queue_closed_at_end ops then match still with [] => true | _ => false end else true.
(* signature of finding 6: every send still parked is on a topic first named after Queue.Close was called *)
Definition only_late_parked (known : list N) (ptop : list (N * N)) (still : list N) : bool :=
  forallb (fun p => match find (fun x => fst x =? p) ptop with
                    | Some (_, t) => negb (memN t known)
                    | None => false
                    end) still.

(** *** no call crashes *)
Definition no_panic (ops : list op) : bool :=
  forallb (fun o => match o with OPanic _ | OClosePanic _ => false | _ => true end) ops.

(* signature of finding 4: every crash is a Client.Close that started while another Close of
   the same client had been called and had not returned *)
Fixpoint only_overlap_panics (inprog : list N) (ops : list (op * list comp)) : bool :=
  match ops with
  | [] => true
  | (o, cs) :: tl =>
      let ok := match o with OPanic _ => false | OClosePanic c => memN c inprog | _ => true end in
      let inprog1 := match o with OClose c false => c :: inprog | _ => inprog end in
      ok && only_overlap_panics (filter (fun c => negb (memN c (comps_closed cs))) inprog1) tl
  end.

(** *** clause 5: no request is silently lost.  While nothing has been closed: when a subscriber
    finds its Recv channel empty (everything at rest), every message accepted (send returned
    nil) for a topic it is the only subscriber of has been read from Recv.
    [skipraw]: leave out topics that were sent a sentinel look-alike (was the signature of
    finding 5, repaired; not used by the check any more). *)
Record nls := mkNls {
  n_off : bool;             (* a close was called: the clause is not evaluated any more *)
  n_subs : list (N * N);
  n_sent : list (N * N);    (* topic -> messages accepted *)
  n_got : list (N * N);     (* topic -> messages read from Recv *)
  n_rawt : list N;          (* topics that accepted a sentinel look-alike *)
  n_otop : list (N * N);
  n_raw : list (N * bool);  (* object is a sentinel look-alike *)
  n_pend : list (N * (N * bool))   (* parked send -> topic, look-alike *)
}.
Definition nls0 : nls := mkNls false [] [] [] [] [] [] [].

Definition bump (t n : N) (m : list (N * N)) : list (N * N) := aset t (aget 0 t m + n) m.

Fixpoint no_lost (skipraw : bool) (a : nls) (ops : list (op * list comp)) : bool :=
  match ops with
  | [] => true
  | (o, cs) :: tl =>
      let top ob := aget 0 ob (n_otop a) in
      let ok := match o with
                | ORecv c None =>
                    n_off a ||
                    forallb (fun ct =>
                               negb (fst ct =? c)
                               || negb (N.of_nat (length (filter (fun x => snd x =? snd ct) (n_subs a))) =? 1)
                               || (skipraw && memN (snd ct) (n_rawt a))
                               || (aget 0 (snd ct) (n_sent a) =? aget 0 (snd ct) (n_got a))) (n_subs a)
                | _ => true
                end in
      (* the call itself *)
      let sent1 := match o with
                   | OSend _ _ ob _ _ (Some SOk) => bump (top ob) 1 (n_sent a)
                   | OFill _ t _ _ n => bump t n (n_sent a)
                   | _ => n_sent a
                   end in
      let rawt1 := match o with
                   | OSend _ _ ob _ _ (Some SOk) => if aget false ob (n_raw a) then top ob :: n_rawt a else n_rawt a
                   | _ => n_rawt a
                   end in
      let pend1 := match o with
                   | OSend p _ ob _ _ None => (p, (top ob, aget false ob (n_raw a))) :: n_pend a
                   | _ => n_pend a
                   end in
      (* parked sends that returned nil afterwards *)
      let done := flat_map (fun x => match x with CSend p SOk => [aget (0, false) p pend1] | _ => [] end) cs in
      let sent2 := fold_left (fun m tr => bump (fst tr) 1 m) done sent1 in
      let rawt2 := flat_map (fun tr : N * bool => if snd tr then [fst tr] else []) done ++ rawt1 in
      let a1 := mkNls (match o with
                       | OClose _ _ | OCloseQ | OCloseQB | OCloseQE | OClosePanic _ | OPanic _ => true
                       | _ => n_off a
                       end)
                      (match o with OSub c t => (c, t) :: n_subs a | _ => n_subs a end)
                      sent2
                      (match o with ORecv _ (Some (Some (ob, _))) => bump (top ob) 1 (n_got a) | _ => n_got a end)
                      rawt2
                      (match o with ONew ob t _ | ONewRaw ob t => aset ob t (n_otop a) | _ => n_otop a end)
                      (match o with ONew ob _ _ => aset ob false (n_raw a) | ONewRaw ob _ => aset ob true (n_raw a) | _ => n_raw a end)
                      pend1 in
      ok && no_lost skipraw a1 tl
  end.

(** *** the client discipline under which clauses 1 and 2 are promised
    (FreeMessage's contract: "the context must no longer reference the message"):
    a message is freed only before it was sent or after its reply was taken, it is sent
    at most once per NewMessage and never after FreeMessage.  Per-object status:
    0 unknown/free, 1 new, 2 sent (or parked in a send), 3 reply taken. *)
Fixpoint disciplined (stt : list (N * N)) (ops : list op) : bool :=
  match ops with
  | [] => true
  | ONew o _ _ :: tl => disciplined (aset o 1 stt) tl
  | ONewRaw o _ :: tl => disciplined (aset o 1 stt) tl
  | OFree o :: tl =>
      let x := aget 0 o stt in ((x =? 1) || (x =? 3)) && disciplined (aset o 0 stt) tl
  | OSend _ _ o _ _ out :: tl =>
      (aget 0 o stt =? 1) &&
      disciplined (match out with
                   | Some SOk | None => aset o 2 stt
                   | Some _ => stt
                   end) tl
  | OWait _ o _ (Some (WGot _)) :: tl =>
      disciplined (if aget 0 o stt =? 2 then aset o 3 stt else stt) tl
  | _ :: tl => disciplined stt tl
  end.

(** *** (b) the monitor for concurrent runs (merged per-participant logs) *)
Inductive cevent :=
| CRecv (i : N)                      (* a subscriber read ID i from Recv *)
| CGot (own named : N)               (* a requester took a reply naming [named] for its request [own] *)
| CSendAfterClose (failed : bool)    (* a send started after Queue.Close returned *)
| CWaitAfterClose (returned : bool)  (* a wait started after Queue.Close returned *)
| CBad (k : N).                      (* 1 Client.Close did not return, 2 a call panicked, 3 a requester never came back *)

Fixpoint conc_recv_ids (l : list cevent) : list N :=
  match l with [] => [] | CRecv i :: tl => i :: conc_recv_ids tl | _ :: tl => conc_recv_ids tl end.

Definition conc_ok (l : list cevent) : bool :=
  nodupN (conc_recv_ids l)
  && forallb (fun e => match e with
                       | CGot own named => own =? named
                       | CSendAfterClose b | CWaitAfterClose b => b
                       | CRecv _ => true
                       | CBad _ => false
                       end) l.
