(** C36 — the reference invariant: the pumps of second and later subscriptions
    ([EXTake], [EXPut]) and the sentinel look-alike ([ENewRaw]). *)
From Coq Require Import List NArith Bool Lia.
From C33 Require Import C36.Model C36.ProofsBase C36.ProofsOcc C36.ProofsEff C36.ProofsInv C36.ProofsSteps C36.ProofsInv2.
Import ListNotations.
Open Scope N_scope.

Lemma inv_xtake s k hi s' : Inv s -> step s (EXTake k hi) = Some s' -> Inv s'.
Proof.
  intros (W & N & I) H. apply step_xtake in H. cbv zeta in H.
  destruct H as (Hh & x & f' & Hpop & ->).
  set (T := x_topic (gx s k)) in *.
  pose proof (fpop_objs _ _ _ Hpop) as Hv.
  destruct N as (N1 & N2 & N3 & N4).
  pose proof (N1 T hi) as Nd. unfold vchan in Nd. rewrite Hv in Nd.
  destruct x as [o0|].
  - simpl in Hv.
    assert (HA : o_where (go s o0) = PChan T hi).
    { apply W. simpl. unfold vchan. rewrite Hv. apply in_or_app; right; left; reflexivity. }
    apply nodup_app_single in Nd as [Nd1 Nd2].
    split; [|split].
      * apply (where_ok_move s _ o0 (PChan T hi) (PXHold k)); auto.
        -- intros o pl Hocc. destruct pl; occ_transfer Hocc.
           ++ destruct (eqb hi0 hi) eqn:Eh; [apply eqb_prop in Eh; subst hi0|right; exact Hocc].
              right. simpl. unfold vchan. fold T. rewrite Hv. apply in_or_app; left; exact Hocc.
           ++ destruct Hocc as [->|[]]. left; auto.
        -- intros _ Hocc. occ_transfer Hocc. rewrite eqb_reflx in Hocc. contradiction.
        -- intros o. autorewrite with frame. destruct (o =? o0); reflexivity.
      * repeat split; intros; unfold_views; autorewrite with frame; eqb_cases; simpl;
          rewrite ?vchan_set_chan; auto; try apply N1; try apply N2; try apply N3.
        destruct (eqb hi0 hi); [exact Nd1|apply N1].
      * apply (ids_ok_set_where s _ o0 (PXHold k) I); [left; rewrite HA; discriminate| |].
        -- intros c0. autorewrite with frame. reflexivity.
        -- intros o. autorewrite with frame. reflexivity.
  - simpl in Hv. rewrite app_nil_r in Hv.
    apply (static_all s); [exact (conj W (conj (conj N1 (conj N2 (conj N3 N4))) I))| | | | | | |];
      intros; unfold_views; autorewrite with frame; eqb_cases; simpl; rewrite ?vchan_set_chan; auto.
    + destruct (eqb hi0 hi) eqn:Eh; [apply eqb_prop in Eh; subst hi0; fold T; rewrite Hv|]; reflexivity.
    + rewrite Hh. reflexivity.
Qed.

Lemma inv_xput s k s' : Inv s -> step s (EXPut k) = Some s' -> Inv s'.
Proof.
  intros (W & N & I) H. apply step_xput in H. cbv zeta in H.
  destruct H as (x & Hh & ->).
  set (c := x_client (gx s k)) in *.
  destruct N as (N1 & N2 & N3 & N4).
  destruct x as [o0|].
  - assert (HA : o_where (go s o0) = PXHold k).
    { apply W. simpl. unfold vxhold. rewrite Hh. left; reflexivity. }
    assert (Hnot : ~ In o0 (vrecv s c)).
    { intros Hin. assert (Hw : o_where (go s o0) = PRecv c) by (apply W; exact Hin). congruence. }
    simpl item_where. split; [|split].
    + apply (where_ok_move s _ o0 (PXHold k) (PRecv c)); auto.
      * intros o pl Hocc. destruct pl; occ_transfer Hocc.
        destruct Hocc as [->|Hocc]; [left; auto|right; exact Hocc].
      * intros _ Hocc. occ_transfer Hocc.
      * intros o. autorewrite with frame. destruct (o =? o0); reflexivity.
    + repeat split; intros; unfold_views; autorewrite with frame; eqb_cases; simpl;
        auto; try apply N1; try apply N2; try apply N3.
      constructor; [exact Hnot|apply N2].
    + apply (ids_ok_set_where s _ o0 (PRecv c) I); [left; rewrite HA; discriminate| |].
      * intros c0. autorewrite with frame. destruct (c0 =? c) eqn:E; [apply N.eqb_eq in E; subst|]; reflexivity.
      * intros o. autorewrite with frame. reflexivity.
  - simpl item_where.
    apply (static_all s); [exact (conj W (conj (conj N1 (conj N2 (conj N3 N4))) I))| | | | | | |];
      intros; unfold_views; autorewrite with frame; eqb_cases; simpl; auto.
    rewrite Hh. reflexivity.
Qed.
