(** C36 — parked sends and Close: the low-priority wait-forever send stays parked for ever
    (refutation of "no send blocks for ever after close"), every other parked send can
    return once the queue is closed (partial theorem). *)
From Coq Require Import List NArith Bool Lia.
From C33 Require Import C36.Model C36.ProofsBase C36.ProofsClose.
Import ListNotations.
Open Scope N_scope.

Lemma pend_get_in p l pd : pend_get p l = Some pd -> In (p, pd) l.
Proof.
  induction l as [|[p' x] l IH]; simpl; [discriminate|].
  destruct (p =? p') eqn:E; [apply N.eqb_eq in E; subst; intros [= ->]; auto|auto].
Qed.
Lemma pend_del_in p q pd l : In (q, pd) (pend_del p l) -> In (q, pd) l.
Proof.
  induction l as [|[p' x] l IH]; simpl; [auto|].
  destruct (p =? p'); simpl; intuition.
Qed.
Lemma pend_get_del_other p q l : q <> p -> pend_get q (pend_del p l) = pend_get q l.
Proof.
  intros Hn. induction l as [|[p' x] l IH]; simpl; [reflexivity|].
  destruct (p =? p') eqn:E.
  - apply N.eqb_eq in E; subst p'. destruct (q =? p) eqn:E2; [apply N.eqb_eq in E2; contradiction|reflexivity].
  - simpl. destruct (q =? p'); [reflexivity|apply IH].
Qed.

(** *** a closed topic's low channel never shrinks and never grows *)
Lemma aget_map_close_low cp t m :
  t_closed (aget topic0 t m) = true ->
  aget topic0 t (map (fun kv => (fst kv, close_topic_rec cp (snd kv))) m) = aget topic0 t m.
Proof.
  induction m as [|[k v] m IH]; simpl; intros H; [reflexivity|].
  destruct (t =? k); [unfold close_topic_rec; rewrite H; reflexivity|apply IH, H].
Qed.

Lemma closed_low_full_step s e s' t :
  step s e = Some s' ->
  t_closed (gt s t) = true -> fspace (lcap (s_caps s)) (t_low (gt s t)) = false ->
  t_low (gt s' t) = t_low (gt s t) /\ s_caps s' = s_caps s.
Proof.
  intros H Hc Hf.
  destruct e; step_inv H; autorewrite with frame; split; auto; eqb_cases; auto.
  all: try (unfold pre_check in *; break_match_hyp E; congruence).
  all: try match goal with
           | hi : bool |- context [set_chan _ ?hi _] => destruct hi; [reflexivity|]
           end.
  all: try (unfold pre_check, cap_of, chan_of in *; simpl in *; bool_hyps; congruence).
  all: try (unfold close_topic_rec; rewrite Hc; reflexivity).
  all: try (rewrite aget_map_close_low by exact Hc; reflexivity).
  destruct (p_high p0); [reflexivity|]. unfold cap_of, chan_of in *. congruence.
Qed.

Definition stuck (s : state) (p : N) (pd : pend) : Prop :=
  pend_get p (s_pend s) = Some pd /\ p_high pd = false /\ p_timed pd = false
  /\ t_closed (gt s (p_topic pd)) = true
  /\ fspace (lcap (s_caps s)) (t_low (gt s (p_topic pd))) = false.

Lemma stuck_step s e s' p pd : stuck s p pd -> step s e = Some s' -> stuck s' p pd.
Proof.
  intros (Hg & Hh & Ht & Hc & Hf) H.
  destruct (closed_low_full_step s e s' _ H Hc Hf) as [Hl Hcp].
  assert (Hc' := tclosed_mono _ _ _ _ H Hc).
  unfold stuck. rewrite Hl, Hcp. repeat split; auto.
  clear Hl Hcp Hc'.
  destruct e; step_inv H; autorewrite with frame; auto.
  all: try (simpl; destruct (p =? p0) eqn:Epp; [apply N.eqb_eq in Epp; subst; congruence|exact Hg]).
  all: destruct (N.eq_dec p p0) as [->|Hn]; [|rewrite pend_get_del_other; auto];
    rewrite Hg in E; injection E as <-; unfold cap_of, chan_of in *; rewrite ?Hh in *;
    try congruence; try discriminate.
Qed.

Lemma stuck_forever s p pd tr s2 : stuck s p pd -> run s tr = Some s2 -> stuck s2 p pd.
Proof.
  intros Hs Hr. eapply (run_invariant (fun s => stuck s p pd)); eauto.
  intros; eapply stuck_step; eauto.
Qed.

(** *** the full-strength statement and its refutation *)
Definition no_block_forever_full : Prop :=
  forall cp tr s p pd, run (init cp) tr = Some s -> s_qclosed s = true ->
    pend_get p (s_pend s) = Some pd ->
    exists tr2 s2, run s tr2 = Some s2 /\ pend_get p (s_pend s2) = None.

(* subscriber 0 on topic 0 stops draining; requester 1 fills recv (1), the pump's hand (1)
   and the low channel (1), parks one more Send(msg,false) (#7); then the subscriber reads
   one message, Client.Close of 0 runs to the end, Queue.Close. *)
Definition witness_caps : caps := mkCaps 1 1 1.
Definition witness_trace : list event :=
  [ ESub 0 0;
    ENew 0 0 1; ESend 1 0 false MNow SOk; EPumpTake 0 false; EPumpPut 0;
    ENew 1 0 2; ESend 1 1 false MNow SOk; EPumpTake 0 false;
    ENew 2 0 3; ESend 1 2 false MNow SOk;
    ENew 3 0 4; EBlock 7 1 3 false MForever;
    ECloseBegin 0; ERecv 0 0 1; EPumpPut 0; EPumpExit 0; ECloseEnd 0; EDrain 0; EDrainReply 0;
    ECloseQueue ].

Lemma witness_runs :
  exists s, run (init witness_caps) witness_trace = Some s
            /\ s_qclosed s = true /\ c_closed (gc s 0) = true /\ close_done s 0 = true
            /\ stuck s 7 (mkP 1 3 false false 0).
Proof. eexists. split; [vm_compute; reflexivity|]. vm_compute. intuition. Qed.

Lemma no_block_forever_refuted_proof : ~ no_block_forever_full.
Proof.
  intros F. destruct witness_runs as (s & Hr & Hq & _ & _ & Hs).
  destruct (F _ _ _ 7 _ Hr Hq (proj1 Hs)) as (tr2 & s2 & Hr2 & Hn).
  pose proof (stuck_forever _ _ _ _ _ Hs Hr2) as (Hg & _). congruence.
Qed.

(** *** partial: every parked send other than a low-priority wait-forever one can return
    once the queue is closed *)
Definition can_return (pd : pend) : bool := p_high pd || p_timed pd.

Definition tkeys (s : state) : list N := map fst (s_topics s).

Lemma aset_keys {A} k (v : A) m k' : In k' (map fst m) -> In k' (map fst (aset k v m)).
Proof.
  induction m as [|[k0 v0] m IH]; simpl; [tauto|].
  destruct (k =? k0) eqn:E; simpl; [apply N.eqb_eq in E; subst; tauto|intuition].
Qed.
Lemma aset_key_in {A} k (v : A) m : In k (map fst (aset k v m)).
Proof.
  induction m as [|[k0 v0] m IH]; simpl; [auto|].
  destruct (k =? k0) eqn:E; simpl; auto.
Qed.

Definition pend_inv (s : state) : Prop :=
  forall p pd, In (p, pd) (s_pend s) ->
    In (p_topic pd) (tkeys s) /\ (s_qclosed s = true -> t_closed (gt s (p_topic pd)) = true).

Lemma tkeys_mono s e s' t : step s e = Some s' -> In t (tkeys s) -> In t (tkeys s').
Proof.
  intros H Hin. unfold tkeys in *.
  destruct e; step_inv H; simpl; auto;
    repeat match goal with
           | x : item |- _ => destruct x; simpl
           | |- In _ (map fst (aset _ _ _)) => apply aset_keys
           end; auto.
  rewrite map_map; simpl. exact Hin.
Qed.

Lemma pend_inv_init cp : pend_inv (init cp).
Proof. intros p pd []. Qed.

Lemma pend_inv_step s e s' : pend_inv s -> step s e = Some s' -> pend_inv s'.
Proof.
  intros I H p pd Hin.
  assert (Hold : In (p, pd) (s_pend s) ->
                 In (p_topic pd) (tkeys s') /\ (s_qclosed s' = true -> t_closed (gt s' (p_topic pd)) = true)).
  { intros Hi. destruct (I _ _ Hi) as [Hk Hc]. split; [eapply tkeys_mono; eauto|].
    intros Hq'. destruct (s_qclosed s) eqn:Eq.
    - eapply tclosed_mono; eauto.
    - (* the queue is closed by this very step *)
      destruct e; try (step_inv H; autorewrite with frame in Hq'; congruence).
      eapply close_queue_closes_all; [exact H|exact Eq|exact Hk]. }
  destruct e; try (apply Hold; step_inv H; autorewrite with frame in Hin; exact Hin).
  - (* EBlock *)
    step_inv H; autorewrite with frame in Hin; destruct Hin as [Heq|Hin]; try (apply Hold; exact Hin).
    all: injection Heq as <- <-; simpl; split;
      [unfold tkeys; simpl; apply aset_key_in
      |autorewrite with frame; unfold pre_check in *; break_match_hyp E; congruence].
  - (* EUnblock *)
    apply Hold. step_inv H; autorewrite with frame in Hin; eapply pend_del_in; eauto.
Qed.

Lemma reachable_pend_inv cp s : reachable cp s -> pend_inv s.
Proof.
  intros [tr Hr]. eapply (run_invariant pend_inv); eauto using pend_inv_init.
  intros; eapply pend_inv_step; eauto.
Qed.

Lemma no_block_forever_partial_proof :
  forall cp tr s p pd, run (init cp) tr = Some s -> s_qclosed s = true ->
    pend_get p (s_pend s) = Some pd -> can_return pd = true ->
    exists r s2, is_err r = true /\ step s (EUnblock p r) = Some s2.
Proof.
  intros cp tr s p pd Hr Hq Hg Hcan.
  destruct (p_timed pd) eqn:Et.
  - exists STimeout. simpl. rewrite Hg, Et. eauto.
  - unfold can_return in Hcan. rewrite Et, orb_false_r in Hcan.
    destruct (reachable_pend_inv cp s (ex_intro _ tr Hr) _ _ (pend_get_in _ _ _ Hg)) as [_ Hc].
    exists SErrChan. simpl. rewrite Hg, Hcan, Et, (Hc Hq). simpl. eauto.
Qed.
