(** C36 — parked sends and Close: once the queue is closed every parked send can return,
    with an error, and is then gone from the set of parked sends ("no send blocks for ever
    after close").  Wait-forever sends of both priorities select on the topic's done
    channel; timed sends have their timer. *)
From Coq Require Import List NArith Bool Lia.
From C33 Require Import C36.Model C36.ProofsBase C36.ProofsClose.
Import ListNotations.
Open Scope N_scope.

Lemma pend_get_in p l pd : pend_get p l = Some pd -> In (p, pd) l.
Proof.
  induction l as [|[p' x] l IH]; simpl; [discriminate|].
  destruct (p =? p') eqn:E; [apply N.eqb_eq in E; subst; intros [= ->]; auto|auto].
Qed.
Lemma pend_del_in p q pd l : In (q, pd) (pend_del p l) -> In (q, pd) l.
Proof.
  induction l as [|[p' x] l IH]; simpl; [auto|].
  destruct (p =? p'); simpl; intuition.
Qed.
Lemma pend_get_del_other p q l : q <> p -> pend_get q (pend_del p l) = pend_get q l.
Proof.
  intros Hn. induction l as [|[p' x] l IH]; simpl; [reflexivity|].
  destruct (p =? p') eqn:E.
  - apply N.eqb_eq in E; subst p'. destruct (q =? p) eqn:E2; [apply N.eqb_eq in E2; contradiction|reflexivity].
  - simpl. destruct (q =? p'); [reflexivity|apply IH].
Qed.

(** *** the numbers of the parked sends are pairwise distinct *)
Definition pend_nodup (s : state) : Prop := NoDup (map fst (s_pend s)).

Lemma pend_get_none_notin p l : pend_get p l = None -> ~ In p (map fst l).
Proof.
  induction l as [|[p' x] l IH]; simpl; [tauto|].
  destruct (p =? p') eqn:E; [discriminate|]. apply N.eqb_neq in E.
  intros H [Heq|Hin]; [congruence|exact (IH H Hin)].
Qed.
Lemma pend_del_keys p q l : In q (map fst (pend_del p l)) -> In q (map fst l).
Proof.
  induction l as [|[p' x] l IH]; simpl; [auto|].
  destruct (p =? p'); simpl; intuition.
Qed.
Lemma pend_del_nodup p l : NoDup (map fst l) -> NoDup (map fst (pend_del p l)).
Proof.
  induction l as [|[p' x] l IH]; simpl; intros H; [constructor|].
  inversion H as [|? ? Hn Hd]; subst.
  destruct (p =? p'); simpl; [exact Hd|].
  constructor; [intros Hin; apply Hn; eapply pend_del_keys; exact Hin|apply IH, Hd].
Qed.
Lemma pend_get_del_same p l : NoDup (map fst l) -> pend_get p (pend_del p l) = None.
Proof.
  induction l as [|[p' x] l IH]; simpl; intros H; [reflexivity|].
  inversion H as [|? ? Hn Hd]; subst.
  destruct (p =? p') eqn:E.
  - apply N.eqb_eq in E; subst p'.
    destruct (pend_get p l) eqn:G; [|reflexivity].
    exfalso. apply Hn. apply pend_get_in in G. apply in_map_iff. exists (p, p0). auto.
  - simpl. rewrite E. apply IH, Hd.
Qed.

Lemma pend_nodup_init cp : pend_nodup (init cp).
Proof. constructor. Qed.

Lemma pend_nodup_step s e s' : pend_nodup s -> step s e = Some s' -> pend_nodup s'.
Proof.
  unfold pend_nodup. intros I H.
  destruct e; try (step_inv H; autorewrite with frame; exact I).
  - (* EBlock *)
    step_inv H; autorewrite with frame; simpl;
      (constructor; [apply pend_get_none_notin; assumption|exact I]).
  - (* EUnblock *)
    step_inv H; autorewrite with frame; apply pend_del_nodup, I.
Qed.

Lemma reachable_pend_nodup cp s : reachable cp s -> pend_nodup s.
Proof.
  intros [tr Hr]. eapply (run_invariant pend_nodup); eauto using pend_nodup_init.
  intros; eapply pend_nodup_step; eauto.
Qed.

(** *** the full-strength statement *)
Definition no_block_forever_full : Prop :=
  forall cp tr s p pd, run (init cp) tr = Some s -> s_qclosed s = true ->
    pend_get p (s_pend s) = Some pd ->
    exists tr2 s2, run s tr2 = Some s2 /\ pend_get p (s_pend s2) = None.

(* subscriber 0 on topic 0 stops draining; requester 1 fills recv (1), the pump's hand (1)
   and the low channel (1), parks one more Send(msg,false) (#7); then the subscriber reads
   one message, Client.Close of 0 runs to the end, Queue.Close.  (Before the repair of
   sendLowTimeout this parked send could never return.) *)
Definition witness_caps : caps := mkCaps 1 1 1.
Definition witness_trace : list event :=
  [ ESub 0 0;
    ENew 0 0 1; ESend 1 0 false MNow SOk; EPumpTake 0 false; EPumpPut 0;
    ENew 1 0 2; ESend 1 1 false MNow SOk; EPumpTake 0 false;
    ENew 2 0 3; ESend 1 2 false MNow SOk;
    ENew 3 0 4; EBlock 7 1 3 false MForever;
    ECloseBegin 0; ERecv 0 0 1; EPumpPut 0; EPumpExit 0; ECloseEnd 0; EDrain 0; EDrainReply 0;
    ECloseQueue ].

Lemma witness_runs :
  exists s s2, run (init witness_caps) witness_trace = Some s
            /\ s_qclosed s = true /\ c_closed (gc s 0) = true /\ close_done s 0 = true
            /\ pend_get 7 (s_pend s) = Some (mkP 1 3 false false 0)
            /\ fspace (lcap (s_caps s)) (t_low (gt s 0)) = false
            /\ step s (EUnblock 7 SOk) = None
            /\ step s (EUnblock 7 SErrChan) = Some s2 /\ s_pend s2 = [].
Proof. eexists _, _. split; [vm_compute; reflexivity|]. vm_compute. intuition. Qed.

Definition tkeys (s : state) : list N := map fst (s_topics s).

Lemma aset_keys {A} k (v : A) m k' : In k' (map fst m) -> In k' (map fst (aset k v m)).
Proof.
  induction m as [|[k0 v0] m IH]; simpl; [tauto|].
  destruct (k =? k0) eqn:E; simpl; [apply N.eqb_eq in E; subst; tauto|intuition].
Qed.
Lemma aset_key_in {A} k (v : A) m : In k (map fst (aset k v m)).
Proof.
  induction m as [|[k0 v0] m IH]; simpl; [auto|].
  destruct (k =? k0) eqn:E; simpl; auto.
Qed.

Definition pend_inv (s : state) : Prop :=
  forall p pd, In (p, pd) (s_pend s) ->
    In (p_topic pd) (tkeys s) /\ (s_qclosed s = true -> t_closed (gt s (p_topic pd)) = true).

Lemma tkeys_mono s e s' t : step s e = Some s' -> In t (tkeys s) -> In t (tkeys s').
Proof.
  intros H Hin. unfold tkeys in *.
  destruct e; step_inv H; simpl; auto;
    repeat match goal with
           | x : item |- _ => destruct x; simpl
           | |- In _ (map fst (aset _ _ _)) => apply aset_keys
           end; auto.
  rewrite map_map; simpl. exact Hin.
Qed.

Lemma pend_inv_init cp : pend_inv (init cp).
Proof. intros p pd []. Qed.

Lemma pend_inv_step s e s' : pend_inv s -> step s e = Some s' -> pend_inv s'.
Proof.
  intros I H p pd Hin.
  assert (Hold : In (p, pd) (s_pend s) ->
                 In (p_topic pd) (tkeys s') /\ (s_qclosed s' = true -> t_closed (gt s' (p_topic pd)) = true)).
  { intros Hi. destruct (I _ _ Hi) as [Hk Hc]. split; [eapply tkeys_mono; eauto|].
    intros Hq'. destruct (s_qclosed s) eqn:Eq.
    - eapply tclosed_mono; eauto.
    - (* the queue is closed by this very step *)
      destruct e; try (step_inv H; autorewrite with frame in Hq'; congruence).
      eapply close_queue_closes_all; [exact H|exact Eq|exact Hk]. }
  destruct e; try (apply Hold; step_inv H; autorewrite with frame in Hin; exact Hin).
  - (* EBlock *)
    step_inv H; autorewrite with frame in Hin; destruct Hin as [Heq|Hin]; try (apply Hold; exact Hin).
    all: injection Heq as <- <-; simpl; split;
      [unfold tkeys; simpl; apply aset_key_in
      |autorewrite with frame; unfold pre_check in *; break_match_hyp E; congruence].
  - (* EUnblock *)
    apply Hold. step_inv H; autorewrite with frame in Hin; eapply pend_del_in; eauto.
Qed.

Lemma reachable_pend_inv cp s : reachable cp s -> pend_inv s.
Proof.
  intros [tr Hr]. eapply (run_invariant pend_inv); eauto using pend_inv_init.
  intros; eapply pend_inv_step; eauto.
Qed.

(** every parked send can return once the queue is closed; it returns an error and is no
    longer parked afterwards *)
Lemma parked_send_returns_error_proof :
  forall cp tr s p pd, run (init cp) tr = Some s -> s_qclosed s = true ->
    pend_get p (s_pend s) = Some pd ->
    exists r s2, is_err r = true /\ step s (EUnblock p r) = Some s2 /\ pend_get p (s_pend s2) = None.
Proof.
  intros cp tr s p pd Hr Hq Hg.
  pose proof (reachable_pend_nodup cp s (ex_intro _ tr Hr)) as Hnd.
  destruct (p_timed pd) eqn:Et.
  - exists STimeout. eexists. split; [reflexivity|]. simpl. rewrite Hg, Et. split; [reflexivity|].
    autorewrite with frame. apply pend_get_del_same, Hnd.
  - destruct (reachable_pend_inv cp s (ex_intro _ tr Hr) _ _ (pend_get_in _ _ _ Hg)) as [_ Hc].
    exists SErrChan. eexists. split; [reflexivity|]. simpl. rewrite Hg, Et, (Hc Hq). simpl. split; [reflexivity|].
    autorewrite with frame. apply pend_get_del_same, Hnd.
Qed.

Lemma no_block_forever_proof : no_block_forever_full.
Proof.
  intros cp tr s p pd Hr Hq Hg.
  destruct (parked_send_returns_error_proof cp tr s p pd Hr Hq Hg) as (r & s2 & _ & Hs & Hn).
  exists [EUnblock p r], s2. split; [cbn [run]; rewrite Hs; reflexivity|exact Hn].
Qed.
