(** C36 — parked sends and Close: once the queue is closed every parked send can return,
    with an error, and is then gone from the set of parked sends ("no send blocks for ever
    after close").  Wait-forever sends of both priorities select on the topic's done
    channel; timed sends have their timer.  Since Queue.Close is modelled in two parts this
    needs a guard: a send that parks between the walk over the topics and isClose = 1 on a
    topic created after the walk is never woken by the close (finding 6).
    (The purely existential form "some continuation lets it return" holds trivially -- a
    third client could subscribe to the late topic and close itself -- and is not stated.) *)
From Coq Require Import List NArith Bool Lia.
From C33 Require Import C36.Model C36.ProofsBase C36.ProofsClose.
Import ListNotations.
Open Scope N_scope.

Lemma pend_get_in p l pd : pend_get p l = Some pd -> In (p, pd) l.
Proof.
  induction l as [|[p' x] l IH]; simpl; [discriminate|].
  destruct (p =? p') eqn:E; [apply N.eqb_eq in E; subst; intros [= ->]; auto|auto].
Qed.
Lemma pend_del_in p q pd l : In (q, pd) (pend_del p l) -> In (q, pd) l.
Proof.
  induction l as [|[p' x] l IH]; simpl; [auto|].
  destruct (p =? p'); simpl; intuition.
Qed.
Lemma pend_get_del_other p q l : q <> p -> pend_get q (pend_del p l) = pend_get q l.
Proof.
  intros Hn. induction l as [|[p' x] l IH]; simpl; [reflexivity|].
  destruct (p =? p') eqn:E.
  - apply N.eqb_eq in E; subst p'. destruct (q =? p) eqn:E2; [apply N.eqb_eq in E2; contradiction|reflexivity].
  - simpl. destruct (q =? p'); [reflexivity|apply IH].
Qed.

(** *** the numbers of the parked sends are pairwise distinct *)
Definition pend_nodup (s : state) : Prop := NoDup (map fst (s_pend s)).

Lemma pend_get_none_notin p l : pend_get p l = None -> ~ In p (map fst l).
Proof.
  induction l as [|[p' x] l IH]; simpl; [tauto|].
  destruct (p =? p') eqn:E; [discriminate|]. apply N.eqb_neq in E.
  intros H [Heq|Hin]; [congruence|exact (IH H Hin)].
Qed.
Lemma pend_del_keys p q l : In q (map fst (pend_del p l)) -> In q (map fst l).
Proof.
  induction l as [|[p' x] l IH]; simpl; [auto|].
  destruct (p =? p'); simpl; intuition.
Qed.
Lemma pend_del_nodup p l : NoDup (map fst l) -> NoDup (map fst (pend_del p l)).
Proof.
  induction l as [|[p' x] l IH]; simpl; intros H; [constructor|].
  inversion H as [|? ? Hn Hd]; subst.
  destruct (p =? p'); simpl; [exact Hd|].
  constructor; [intros Hin; apply Hn; eapply pend_del_keys; exact Hin|apply IH, Hd].
Qed.
Lemma pend_get_del_same p l : NoDup (map fst l) -> pend_get p (pend_del p l) = None.
Proof.
  induction l as [|[p' x] l IH]; simpl; intros H; [reflexivity|].
  inversion H as [|? ? Hn Hd]; subst.
  destruct (p =? p') eqn:E.
  - apply N.eqb_eq in E; subst p'.
    destruct (pend_get p l) eqn:G; [|reflexivity].
    exfalso. apply Hn. apply pend_get_in in G. apply in_map_iff. exists (p, p0). auto.
  - simpl. rewrite E. apply IH, Hd.
Qed.

Lemma pend_nodup_init cp : pend_nodup (init cp).
Proof. constructor. Qed.

Lemma pend_nodup_step s e s' : pend_nodup s -> step s e = Some s' -> pend_nodup s'.
Proof.
  unfold pend_nodup. intros I H.
  destruct e; try (step_inv H; autorewrite with frame; exact I).
  - (* EBlock *)
    step_inv H; autorewrite with frame; simpl;
      (constructor; [apply pend_get_none_notin; assumption|exact I]).
  - (* EUnblock *)
    step_inv H; autorewrite with frame; apply pend_del_nodup, I.
Qed.

Lemma reachable_pend_nodup cp s : reachable cp s -> pend_nodup s.
Proof.
  intros [tr Hr]. eapply (run_invariant pend_nodup); eauto using pend_nodup_init.
  intros; eapply pend_nodup_step; eauto.
Qed.

(* subscriber 0 on topic 0 stops draining; requester 1 fills recv (1), the pump's hand (1)
   and the low channel (1), parks one more Send(msg,false) (#7); then the subscriber reads
   one message, Client.Close of 0 runs to the end, Queue.Close.  (Before the repair of
   sendLowTimeout this parked send could never return.) *)
Definition witness_caps : caps := mkCaps 1 1 1.
Definition witness_trace : list event :=
  [ ESub 0 0;
    ENew 0 0 1; ESend 1 0 false MNow SOk; EPumpTake 0 false; EPumpPut 0;
    ENew 1 0 2; ESend 1 1 false MNow SOk; EPumpTake 0 false;
    ENew 2 0 3; ESend 1 2 false MNow SOk;
    ENew 3 0 4; EBlock 7 1 3 false MForever;
    ECloseBegin 0; ERecv 0 0 1; EPumpPut 0; EPumpExit 0; ECloseEnd 0; EDrain 0; EDrainReply 0;
    ECloseQueue ].

Lemma witness_runs :
  exists s s2, run (init witness_caps) witness_trace = Some s
            /\ s_qclosed s = true /\ c_closed (gc s 0) = true /\ close_done s 0 = true
            /\ pend_get 7 (s_pend s) = Some (mkP 1 3 false false 0)
            /\ fspace (lcap (s_caps s)) (t_low (gt s 0)) = false
            /\ step s (EUnblock 7 SOk) = None
            /\ step s (EUnblock 7 SErrChan) = Some s2 /\ s_pend s2 = [].
Proof. eexists _, _. split; [vm_compute; reflexivity|]. vm_compute. intuition. Qed.

Lemma high_sender_woken_runs :
  exists s pd s2, run (init (mkCaps 1 1 5))
                 [ENew 0 0 1; ESend 1 0 true MNow SOk; ENew 1 0 2; EBlock 9 1 1 true MForever; ECloseQueue] = Some s
               /\ s_qclosed s = true /\ pend_get 9 (s_pend s) = Some pd /\ p_high pd = true
               /\ step s (EUnblock 9 SErrChan) = Some s2 /\ s_pend s2 = [].
Proof.
  eexists _, _, _. split; [vm_compute; reflexivity|]. split; [vm_compute; reflexivity|].
  split; [vm_compute; reflexivity|]. split; [vm_compute; reflexivity|]. split; vm_compute; reflexivity.
Qed.

Definition tkeys (s : state) : list N := map fst (s_topics s).

Lemma aset_keys {A} k (v : A) m k' : In k' (map fst m) -> In k' (map fst (aset k v m)).
Proof.
  induction m as [|[k0 v0] m IH]; simpl; [tauto|].
  destruct (k =? k0) eqn:E; simpl; [apply N.eqb_eq in E; subst; tauto|intuition].
Qed.
Lemma aset_key_in {A} k (v : A) m : In k (map fst (aset k v m)).
Proof.
  induction m as [|[k0 v0] m IH]; simpl; [auto|].
  destruct (k =? k0) eqn:E; simpl; auto.
Qed.

(** the topic of a parked send exists (all traces) *)
Definition pend_inv (s : state) : Prop :=
  forall p pd, In (p, pd) (s_pend s) -> In (p_topic pd) (tkeys s).

Lemma tkeys_mono s e s' t : step s e = Some s' -> In t (tkeys s) -> In t (tkeys s').
Proof.
  intros H Hin. unfold tkeys in *.
  destruct e; step_inv H; simpl; auto;
    repeat match goal with
           | x : item |- _ => destruct x; simpl
           | |- In _ (map fst (aset _ _ _)) => apply aset_keys
           end; auto.
  all: unfold close_all; rewrite map_map; simpl; exact Hin.
Qed.

Lemma pend_inv_init cp : pend_inv (init cp).
Proof. intros p pd []. Qed.

Lemma pend_inv_step s e s' : pend_inv s -> step s e = Some s' -> pend_inv s'.
Proof.
  intros I H p pd Hin.
  assert (Hold : In (p, pd) (s_pend s) -> In (p_topic pd) (tkeys s')).
  { intros Hi. eapply tkeys_mono; eauto. }
  destruct e; try (apply Hold; step_inv H; autorewrite with frame in Hin; exact Hin).
  - (* EBlock *)
    step_inv H; autorewrite with frame in Hin; destruct Hin as [Heq|Hin]; try (apply Hold; exact Hin).
    all: injection Heq as <- <-; simpl; unfold tkeys; simpl; apply aset_key_in.
  - (* EUnblock *)
    apply Hold. step_inv H; autorewrite with frame in Hin; eapply pend_del_in; eauto.
Qed.

Lemma reachable_pend_inv cp s : reachable cp s -> pend_inv s.
Proof.
  intros [tr Hr]. eapply (run_invariant pend_inv); eauto using pend_inv_init.
  intros; eapply pend_inv_step; eauto.
Qed.

(** isClose = 1 is stored after the topics were walked *)
Definition qflags (s : state) : Prop := s_qclosed s = true -> s_qclosing s = true.
Lemma qflags_step s e s' : qflags s -> step s e = Some s' -> qflags s'.
Proof.
  unfold qflags. intros I H.
  destruct e; step_inv H; autorewrite with frame; bool_hyps; auto; try congruence.
Qed.
Lemma reachable_qflags cp s : reachable cp s -> qflags s.
Proof.
  intros [tr Hr]. eapply (run_invariant qflags); eauto; [intros; eapply qflags_step; eauto|discriminate].
Qed.

(** *** guarded runs *)
Lemma grun_run g tr : forall s s', grun g s tr = Some s' -> run s tr = Some s'.
Proof.
  induction tr as [|e tr IH]; intros s s' H; simpl in *; [exact H|].
  destruct (g s e); [|discriminate]. destruct (step s e); [apply IH; exact H|discriminate].
Qed.
Lemma grun_invariant g (P : state -> Prop) :
  (forall s e s', P s -> g s e = true -> step s e = Some s' -> P s') ->
  forall tr s s', P s -> grun g s tr = Some s' -> P s'.
Proof.
  intros Hstep tr; induction tr as [|e tr IH]; intros s s' HP Hr; simpl in Hr.
  - injection Hr as <-; exact HP.
  - destruct (g s e) eqn:G; [|discriminate].
    destruct (step s e) as [s1|] eqn:E; [|discriminate]. eapply IH; [|exact Hr]. eapply Hstep; eauto.
Qed.
Lemma grun_true tr : forall s, grun (fun _ _ => true) s tr = run s tr.
Proof. induction tr as [|e tr IH]; intros s; simpl; [reflexivity|]. destruct (step s e); auto. Qed.

(** as long as no send parks while Queue.Close is between its loop and isClose = 1, the
    topic of every parked send is closed once the loop has run *)
Definition pend_closed (s : state) : Prop :=
  pend_inv s /\
  (s_qclosing s = true -> forall p pd, In (p, pd) (s_pend s) -> t_closed (gt s (p_topic pd)) = true).

Lemma pend_closed_init cp : pend_closed (init cp).
Proof. split; [apply pend_inv_init|intros _ p pd []]. Qed.

Lemma pend_closed_step s e s' :
  pend_closed s -> bdisc s e = true -> step s e = Some s' -> pend_closed s'.
Proof.
  intros [I J] G H. split; [eapply pend_inv_step; eauto|].
  intros Hq' p pd Hin.
  assert (Hold : In (p, pd) (s_pend s) -> t_closed (gt s' (p_topic pd)) = true).
  { intros Hi. destruct (s_qclosing s) eqn:Eq.
    - eapply tclosed_mono; eauto.
    - (* the topics are walked by this very step *)
      destruct e; try (step_inv H; autorewrite with frame in Hq'; congruence).
      + eapply close_queue_closes_all; [exact H| |apply (I _ _ Hi)].
        simpl in H. destruct (s_qclosed s); [injection H as <-; congruence|reflexivity].
      + eapply close_qbegin_closes_all; [exact H|apply (I _ _ Hi)]. }
  destruct e; try (apply Hold; step_inv H; autorewrite with frame in Hin; exact Hin).
  - (* EBlock: excluded by the guard once the loop has run *)
    simpl in G. apply negb_true_iff in G.
    step_inv H; autorewrite with frame in Hq'; congruence.
  - (* EUnblock *)
    apply Hold. step_inv H; autorewrite with frame in Hin; eapply pend_del_in; eauto.
Qed.

Lemma brun_pend_closed cp tr s : grun bdisc (init cp) tr = Some s -> pend_closed s.
Proof.
  intros Hr. eapply (grun_invariant bdisc pend_closed); eauto using pend_closed_init.
  intros; eapply pend_closed_step; eauto.
Qed.

(** *** the statements *)
Definition parked_send_returns_error_full : Prop :=
  forall cp tr s p pd, run (init cp) tr = Some s -> s_qclosed s = true ->
    pend_get p (s_pend s) = Some pd ->
    exists r s2, is_err r = true /\ step s (EUnblock p r) = Some s2 /\ pend_get p (s_pend s2) = None.

(* a wait-forever send that passed q.isClosed() before the store, reached a topic created
   after the loop (open, inside the closed queue) and found it full: nothing wakes it *)
Definition late_park_trace : list event :=
  [ ECloseQBegin; ENew 0 7 1; ESend 1 0 true MNow SOk; ENew 1 7 2; EBlock 9 1 1 true MForever; ECloseQEnd ].

Lemma late_park_runs :
  exists s, run (init (mkCaps 1 1 5)) late_park_trace = Some s
            /\ s_qclosed s = true /\ t_closed (gt s 7) = false
            /\ pend_get 9 (s_pend s) = Some (mkP 1 1 true false 7)
            /\ forall r, is_err r = true -> step s (EUnblock 9 r) = None.
Proof.
  eexists. split; [vm_compute; reflexivity|]. repeat split; try (vm_compute; reflexivity).
  intros r Hr. destruct r; try discriminate Hr; vm_compute; reflexivity.
Qed.

Lemma parked_send_returns_error_refuted : ~ parked_send_returns_error_full.
Proof.
  intros F. destruct late_park_runs as (s & Hr & Hq & _ & Hg & Hn).
  destruct (F _ _ _ _ _ Hr Hq Hg) as (r & s2 & He & Hs & _).
  rewrite (Hn r He) in Hs. discriminate.
Qed.

(** every parked send can return once the queue is closed; it returns an error and is no
    longer parked afterwards -- in runs where no send parks inside Queue.Close's window *)
Lemma parked_send_returns_error_proof :
  forall cp tr s p pd, grun bdisc (init cp) tr = Some s -> s_qclosed s = true ->
    pend_get p (s_pend s) = Some pd ->
    exists r s2, is_err r = true /\ step s (EUnblock p r) = Some s2 /\ pend_get p (s_pend s2) = None.
Proof.
  intros cp tr s p pd Hb Hq Hg.
  pose proof (grun_run _ _ _ _ Hb) as Hr.
  pose proof (reachable_pend_nodup cp s (ex_intro _ tr Hr)) as Hnd.
  pose proof (reachable_qflags cp s (ex_intro _ tr Hr) Hq) as Hqq.
  destruct (p_timed pd) eqn:Et.
  - exists STimeout. eexists. split; [reflexivity|]. simpl. rewrite Hg, Et. split; [reflexivity|].
    autorewrite with frame. apply pend_get_del_same, Hnd.
  - destruct (brun_pend_closed cp tr s Hb) as [_ Hc].
    pose proof (Hc Hqq _ _ (pend_get_in _ _ _ Hg)) as Hcl.
    exists SErrChan. eexists. split; [reflexivity|]. simpl. rewrite Hg, Et, Hcl. simpl. split; [reflexivity|].
    autorewrite with frame. apply pend_get_del_same, Hnd.
Qed.

Definition no_block_forever_stmt : Prop :=
  forall cp tr s p pd, grun bdisc (init cp) tr = Some s -> s_qclosed s = true ->
    pend_get p (s_pend s) = Some pd ->
    exists tr2 s2, run s tr2 = Some s2 /\ pend_get p (s_pend s2) = None.

Lemma no_block_forever_proof : no_block_forever_stmt.
Proof.
  intros cp tr s p pd Hr Hq Hg.
  destruct (parked_send_returns_error_proof cp tr s p pd Hr Hq Hg) as (r & s2 & _ & Hs & Hn).
  exists [EUnblock p r], s2. split; [cbn [run]; rewrite Hs; reflexivity|exact Hn].
Qed.

(* the guard is met by every trace without the split close events (the scope of the
   statements before Queue.Close was split) *)
Lemma bdisc_atomic tr : forall s s',
  (s_qclosing s = true -> s_qclosed s = true) ->
  forallb (fun e => match e with ECloseQBegin => false | _ => true end) tr = true ->
  run s tr = Some s' -> grun bdisc s tr = Some s'.
Proof.
  induction tr as [|e tr IH]; intros s s' I Hf Hr; simpl in *; [exact Hr|].
  apply andb_true_iff in Hf as [He Hf].
  destruct (step s e) as [s1|] eqn:E; [|discriminate].
  assert (G : bdisc s e = true).
  { destruct e; try reflexivity. simpl. destruct (s_qclosing s) eqn:Q; [|reflexivity].
    exfalso. simpl in E. unfold pre_check in E. rewrite (I eq_refl) in E.
    destruct (c_closed (gc s c)); simpl in E; discriminate. }
  rewrite G. apply IH; auto.
  intros Q1. destruct e; try discriminate He;
    step_inv E; autorewrite with frame in *; bool_hyps; auto; congruence.
Qed.

Lemma bdisc_atomic_init :
  forall cp tr s, forallb (fun e => match e with ECloseQBegin => false | _ => true end) tr = true ->
    run (init cp) tr = Some s -> grun bdisc (init cp) tr = Some s.
Proof. intros cp tr s. apply bdisc_atomic. discriminate. Qed.
