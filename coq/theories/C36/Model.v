(** C36 — model of the chain33 message bus (queue/queue.go, queue/client.go) as a
    labelled transition system  [step : state -> event -> option state].
    Blocking is "event not enabled".  The model follows the code as it is.

    Granularity: one event = one channel operation / one API call section that the
    code performs under a lock or that cannot be observed in parts:
    - [ESend]     a send that completes at once (result included in the label)
    - [EBlock]    a blocking send (timeout -1 or > 0) finds its channel full and parks;
                  it has passed the closed checks and captured the topic's channels
    - [EUnblock]  a parked send completes (space / done closed / timer)
    - [EPumpTake|EPumpPut|EPumpExit]  the goroutine started by [Sub]
    - [ECloseBegin|ECloseEnd]  Client.Close before / after [wg.Wait()] (up to close(recv));
      [EDrain|EDrainReply] one round of its final loop over the messages left in recv
    - [ESub2|EXTake|EXPut|EXExit]  a second or later [Sub] of the same client and the pump
      goroutine it starts (all pumps of a client put into the same [recv]; [client.topic]
      remembers the last topic only: [s_last])
    - [ENewRaw]  a message built with queue.NewMessage(0, topic, 0, nil): ID 0, Ty 0, nil Data
      (an object whose ID is 0).  Since the repair of isEnd (the sentinel is one package-level
      message recognised by identity) it is delivered like any other message
    - [EClosePanic]  a Client.Close that starts while another Close of the same client is
      between close(client.done) and isClosed = 1: close of closed channel
    - [ECloseQBegin|ECloseQEnd]  Queue.Close in two parts: the loop over the topics under
      q.mu, and the store isClose = 1 after the unlock ([ECloseQueue] is both at once)
    No proofs here. *)
From Coq Require Import List NArith Bool.
Import ListNotations.
Open Scope N_scope.

(** ** association maps with a default (total-function view, in-place update) *)
Fixpoint aget {A} (d : A) (k : N) (m : list (N * A)) : A :=
  match m with
  | [] => d
  | (k', v) :: tl => if k =? k' then v else aget d k tl
  end.

Fixpoint aset {A} (k : N) (v : A) (m : list (N * A)) : list (N * A) :=
  match m with
  | [] => [(k, v)]
  | (k', v') :: tl => if k =? k' then (k, v) :: tl else (k', v') :: aset k v tl
  end.

(** ** channels *)
Inductive item := IMsg (o : N) | ISent.   (* ISent = the empty &Message{} pushed on close *)

(** A Go buffered channel: newest element first, plus its length (kept as a counter
    so that a 40960-slot channel can be filled without quadratic cost). *)
Record fifo := mkF { f_items : list item; f_len : N }.
Definition fempty : fifo := mkF [] 0.
Definition fpush (x : item) (f : fifo) : fifo := mkF (x :: f_items f) (N.succ (f_len f)).
Definition fpop (f : fifo) : option (item * fifo) :=
  match rev (f_items f) with
  | [] => None
  | x :: r => Some (x, mkF (rev r) (N.pred (f_len f)))
  end.
Definition fspace (cap : N) (f : fifo) : bool := f_len f <? cap.
Definition fis_empty (f : fifo) : bool := match f_items f with [] => true | _ => false end.

(** ** components *)
Record topic := mkT { t_high : fifo; t_low : fifo; t_closed : bool }.
Definition topic0 : topic := mkT fempty fempty false.   (* q.chanSub creates it on demand *)

Inductive pump_st := PNone | PRun | PExit.

Record client := mkC {
  c_recv : fifo;              (* client.recv, capacity 5 *)
  c_hold : option item;       (* item the pump has taken and not yet put into recv *)
  c_pump : pump_st;
  c_topic : N;                (* topic given to Sub *)
  c_closing : bool;           (* client.done closed, isCloseing = 1 *)
  c_closed : bool;            (* isClosed = 1, recv closed *)
  c_held : list (N * N)       (* (object, ID read at Recv time) the subscriber still has to answer *)
}.
Definition client0 : client := mkC fempty None PNone 0 false false [].

(* the pump goroutine of a second or later Sub (the first one lives in the client record) *)
Record xpump := mkX { x_client : N; x_topic : N; x_st : pump_st; x_hold : option item }.
Definition xpump0 : xpump := mkX 0 0 PNone None.

Inductive reply := RFor (i : N) | RClosed.
(* RFor i: the responder's answer to the request whose ID it read as i.
   RClosed: the ErrChannelClosed reply Client.Close produces for a message left in recv
   (it carries nothing that names the request). *)

(* ghost: where the (single) outstanding reference to a message object is *)
Inductive place := P0 | PChan (t : N) (hi : bool) | PHold (c : N) | PRecv (c : N) | PHeld (c : N) | PPend (p : N)
  | PXHold (k : N).

Record obj := mkO {
  o_id : N; o_topic : N;
  o_slot : option reply;      (* chReply, capacity 1 *)
  o_pool : bool;              (* lies in msgPool (objects never seen are "in the pool": Pool.New) *)
  o_sent : bool;              (* ghost: enqueued since the last NewMessage *)
  o_where : place             (* ghost: maintained by [step], never read by it *)
}.
Definition obj0 : obj := mkO 0 0 None true false P0.

Record pend := mkP { p_client : N; p_obj : N; p_high : bool; p_timed : bool; p_topic : N }.

Record caps := mkCaps { hcap : N; lcap : N; rcap : N }.

Record state := mkS {
  s_caps : caps;
  s_topics : list (N * topic);
  s_clients : list (N * client);
  s_objs : list (N * obj);
  s_pend : list (N * pend);
  s_qclosed : bool;
  s_gid : N;                  (* largest message ID handed out *)
  s_deliv : list N;           (* ghost: IDs the subscribers have read from Recv, newest first *)
  s_xp : list (N * xpump);    (* pumps of second and later subscriptions, by pump number *)
  s_last : list (N * N);      (* client.topic of clients that subscribed more than once *)
  s_qclosing : bool           (* Queue.Close has closed the topics (closeOnce entered) *)
}.

Definition init (cp : caps) : state := mkS cp [] [] [] [] false 0 [] [] [] false.

Definition gt (s : state) (t : N) : topic := aget topic0 t (s_topics s).
Definition gc (s : state) (c : N) : client := aget client0 c (s_clients s).
Definition go (s : state) (o : N) : obj := aget obj0 o (s_objs s).
Definition gx (s : state) (k : N) : xpump := aget xpump0 k (s_xp s).
(* the topic Client.Close closes: the one given to the last Sub *)
Definition last_of (s : state) (c : N) : N := aget (c_topic (gc s c)) c (s_last s).

Definition st (s : state) (t : N) (v : topic) : state :=
  mkS (s_caps s) (aset t v (s_topics s)) (s_clients s) (s_objs s) (s_pend s) (s_qclosed s) (s_gid s) (s_deliv s) (s_xp s) (s_last s) (s_qclosing s).
Definition sc (s : state) (c : N) (v : client) : state :=
  mkS (s_caps s) (s_topics s) (aset c v (s_clients s)) (s_objs s) (s_pend s) (s_qclosed s) (s_gid s) (s_deliv s) (s_xp s) (s_last s) (s_qclosing s).
Definition so (s : state) (o : N) (v : obj) : state :=
  mkS (s_caps s) (s_topics s) (s_clients s) (aset o v (s_objs s)) (s_pend s) (s_qclosed s) (s_gid s) (s_deliv s) (s_xp s) (s_last s) (s_qclosing s).
Definition sp (s : state) (l : list (N * pend)) : state :=
  mkS (s_caps s) (s_topics s) (s_clients s) (s_objs s) l (s_qclosed s) (s_gid s) (s_deliv s) (s_xp s) (s_last s) (s_qclosing s).

Definition set_where (s : state) (o : N) (w : place) : state :=
  let ob := go s o in so s o (mkO (o_id ob) (o_topic ob) (o_slot ob) (o_pool ob) (o_sent ob) w).
(* ghost bookkeeping of a parked send: counts as sent while parked, as not sent when it fails *)
Definition set_parked (s : state) (o : N) (sent : bool) (w : place) : state :=
  let ob := go s o in so s o (mkO (o_id ob) (o_topic ob) (o_slot ob) (o_pool ob) sent w).
Definition item_where (s : state) (x : item) (w : place) : state :=
  match x with IMsg o => set_where s o w | ISent => s end.

Definition sg (s : state) (i : N) : state :=
  mkS (s_caps s) (s_topics s) (s_clients s) (s_objs s) (s_pend s) (s_qclosed s) i (s_deliv s) (s_xp s) (s_last s) (s_qclosing s).
Definition sd (s : state) (i : N) : state :=
  mkS (s_caps s) (s_topics s) (s_clients s) (s_objs s) (s_pend s) (s_qclosed s) (s_gid s) (i :: s_deliv s) (s_xp s) (s_last s) (s_qclosing s).
Definition sq (s : state) (m : list (N * topic)) : state :=
  mkS (s_caps s) m (s_clients s) (s_objs s) (s_pend s) true (s_gid s) (s_deliv s) (s_xp s) (s_last s) true.
Definition sx (s : state) (k : N) (v : xpump) : state :=
  mkS (s_caps s) (s_topics s) (s_clients s) (s_objs s) (s_pend s) (s_qclosed s) (s_gid s) (s_deliv s)
      (aset k v (s_xp s)) (s_last s) (s_qclosing s).
Definition sl (s : state) (c t : N) : state :=
  mkS (s_caps s) (s_topics s) (s_clients s) (s_objs s) (s_pend s) (s_qclosed s) (s_gid s) (s_deliv s)
      (s_xp s) (aset c t (s_last s)) (s_qclosing s).
Definition sqb (s : state) (m : list (N * topic)) : state :=
  mkS (s_caps s) m (s_clients s) (s_objs s) (s_pend s) (s_qclosed s) (s_gid s) (s_deliv s) (s_xp s) (s_last s) true.
Definition sqe (s : state) : state :=
  mkS (s_caps s) (s_topics s) (s_clients s) (s_objs s) (s_pend s) true (s_gid s) (s_deliv s) (s_xp s) (s_last s) (s_qclosing s).

Definition touch (s : state) (t : N) : state := st s t (gt s t).

(** ** labels *)
Inductive mode := MForever | MNow | MTimed.      (* timeout -1 / 0 / > 0 *)
Inductive sres := SOk | SErrClient | SErrChan | SFull | STimeout | SOther.
(* nil / ErrIsQueueClosed / types.ErrChannelClosed / ErrQueueChannelFull / ErrQueueTimeout /
   any other error or a panic (never produced by the model) *)
Inductive wres := WGot (r : reply) | WChan | WClient | WTimeout.
(* reply taken / ErrChannelClosed (sub.done) / ErrIsQueueClosed (client.done) / ErrQueueTimeout *)

Inductive event :=
| ENew (o t i : N)                              (* NewMessage returns object o with new ID i *)
| EFree (o : N)
| ESub (c t : N)
| ESend (c o : N) (hi : bool) (m : mode) (r : sres)
| EBlock (p c o : N) (hi : bool) (m : mode)
| EUnblock (p : N) (r : sres)
| EPumpTake (c : N) (hi : bool)
| EPumpPut (c : N)
| EPumpExit (c : N)
| ERecv (c o i : N)
| ERecvClosed (c : N)
| EReply (c o i : N)
| EWait (c o : N) (timed : bool) (r : wres)
| ECloseNoop (c : N)
| ECloseBegin (c : N)
| ECloseEnd (c : N)
| EDrain (c : N)
| EDrainReply (c : N)
| ECloseQueue
| ENewRaw (o t : N)                             (* queue.NewMessage(0, topic, 0, nil) *)
| ESub2 (k c t : N)                             (* a later Sub of client c; its pump gets number k *)
| EXTake (k : N) (hi : bool)
| EXPut (k : N)
| EXExit (k : N)
| EClosePanic (c : N)                           (* Close overlapping a Close of the same client *)
| ECloseQBegin
| ECloseQEnd.

Definition sres_eqb (a b : sres) : bool :=
  match a, b with
  | SOk, SOk | SErrClient, SErrClient | SErrChan, SErrChan | SFull, SFull | STimeout, STimeout | SOther, SOther => true
  | _, _ => false
  end.
Definition is_err (r : sres) : bool := negb (sres_eqb r SOk).

Definition reply_eqb (a b : reply) : bool :=
  match a, b with
  | RFor i, RFor j => i =? j
  | RClosed, RClosed => true
  | _, _ => false
  end.

(** ** helpers *)
Definition chan_of (t : topic) (hi : bool) : fifo := if hi then t_high t else t_low t.
Definition cap_of (s : state) (hi : bool) : N := if hi then hcap (s_caps s) else lcap (s_caps s).
Definition set_chan (t : topic) (hi : bool) (f : fifo) : topic :=
  if hi then mkT f (t_low t) (t_closed t) else mkT (t_high t) f (t_closed t).

(* the checks at the head of SendTimeout / send / sendLowTimeout *)
Definition pre_check (s : state) (c t : N) : option sres :=
  if c_closed (gc s c) then Some SErrClient
  else if s_qclosed s then Some SErrChan
  else if t_closed (gt s t) then Some SErrChan
  else None.

Definition enqueue (s : state) (t o : N) (hi : bool) : state :=
  let tp := gt s t in
  let s1 := st s t (set_chan tp hi (fpush (IMsg o) (chan_of tp hi))) in
  let ob := go s1 o in
  so s1 o (mkO (o_id ob) (o_topic ob) (o_slot ob) (o_pool ob) true (PChan t hi)).

(* closeTopic / the loop body of queue.Close *)
Definition close_topic_rec (cp : caps) (tp : topic) : topic :=
  if t_closed tp then tp else
  let h := if fspace (hcap cp) (t_high tp) then fpush ISent (t_high tp) else t_high tp in
  let l := if fspace (lcap cp) (t_low tp) then fpush ISent (t_low tp) else t_low tp in
  mkT h l true.

Definition set_pump (cl : client) (p : pump_st) (h : option item) : client :=
  mkC (c_recv cl) h p (c_topic cl) (c_closing cl) (c_closed cl) (c_held cl).
Definition set_xp (xp : xpump) (p : pump_st) (h : option item) : xpump :=
  mkX (x_client xp) (x_topic xp) p h.

(* wg.Wait() of Client.Close: every later pump of the client has returned *)
Definition xp_done (s : state) (c : N) : bool :=
  forallb (fun kv => negb (x_client (snd kv) =? c)
                     || match x_st (snd kv), x_hold (snd kv) with
                        | PRun, _ | _, Some _ => false
                        | _, None => true
                        end) (s_xp s).
Definition close_all (s : state) : list (N * topic) :=
  map (fun kv => (fst kv, close_topic_rec (s_caps s) (snd kv))) (s_topics s).

Fixpoint remove_pair (o i : N) (l : list (N * N)) : list (N * N) :=
  match l with
  | [] => []
  | (o', i') :: tl => if (o =? o') && (i =? i') then tl else (o', i') :: remove_pair o i tl
  end.
Fixpoint mem_pair (o i : N) (l : list (N * N)) : bool :=
  match l with
  | [] => false
  | (o', i') :: tl => ((o =? o') && (i =? i')) || mem_pair o i tl
  end.

Fixpoint pend_get (p : N) (l : list (N * pend)) : option pend :=
  match l with
  | [] => None
  | (p', x) :: tl => if p =? p' then Some x else pend_get p tl
  end.
Fixpoint pend_del (p : N) (l : list (N * pend)) : list (N * pend) :=
  match l with
  | [] => []
  | (p', x) :: tl => if p =? p' then tl else (p', x) :: pend_del p tl
  end.

(* objects (not sentinels) of an item list *)
Fixpoint objs_of (l : list item) : list N :=
  match l with
  | [] => []
  | IMsg o :: tl => o :: objs_of tl
  | ISent :: tl => objs_of tl
  end.

(** ** the transition function *)
Definition step (s : state) (e : event) : option state :=
  match e with
  | ENew o t i =>
      let ob := go s o in
      if o_pool ob && (s_gid s <? i) then
        Some (sg (so s o (mkO i t (o_slot ob) false false (o_where ob))) i)
      else None
  | EFree o =>
      let ob := go s o in
      if o_pool ob then None
      else Some (so s o (mkO (o_id ob) (o_topic ob) (o_slot ob) true (o_sent ob) (o_where ob)))
  | ESub c t =>
      let cl := gc s c in
      if c_closing cl || c_closed cl then Some s
      else match c_pump cl with
           | PNone => let s1 := touch s t in
                      Some (sc s1 c (mkC (c_recv cl) (c_hold cl) PRun t false false (c_held cl)))
           | _ => None      (* a later Sub of the same client: [ESub2] *)
           end
  | ESend c o hi m r =>
      let t := o_topic (go s o) in
      match pre_check s c t with
      | Some e => if sres_eqb r e then Some s else None
      | None =>
          let s1 := touch s t in
          if fspace (cap_of s hi) (chan_of (gt s t) hi) then
            if sres_eqb r SOk then Some (enqueue s1 t o hi)
            else match m, r with
                 | MTimed, STimeout => Some s1   (* the timer may fire before the select is reached *)
                 | _, _ => None
                 end
          else match m with
               | MNow => if sres_eqb r SFull then Some s1 else None
               | _ => None
               end
      end
  | EBlock p c o hi m =>
      let t := o_topic (go s o) in
      match pre_check s c t, m, pend_get p (s_pend s) with
      | None, MForever, None | None, MTimed, None =>
          if fspace (cap_of s hi) (chan_of (gt s t) hi) then None
          else let s1 := touch s t in
               Some (set_parked (sp s1 ((p, mkP c o hi (match m with MTimed => true | _ => false end) t) :: s_pend s1)) o true (PPend p))
      | _, _, _ => None
      end
  | EUnblock p r =>
      match pend_get p (s_pend s) with
      | None => None
      | Some pd =>
          let s1 := sp s (pend_del p (s_pend s)) in
          let tp := gt s (p_topic pd) in
          match r with
          | SOk => if fspace (cap_of s (p_high pd)) (chan_of tp (p_high pd))
                   then Some (enqueue s1 (p_topic pd) (p_obj pd) (p_high pd)) else None
          (* wait-forever sends of both priorities select on the topic's done channel *)
          | SErrChan => if negb (p_timed pd) && t_closed tp then Some (set_parked s1 (p_obj pd) false P0) else None
          | STimeout => if p_timed pd then Some (set_parked s1 (p_obj pd) false P0) else None
          | _ => None
          end
      end
  | EPumpTake c hi =>
      let cl := gc s c in
      let tp := gt s (c_topic cl) in
      match c_pump cl, c_hold cl with
      | PRun, None =>
          let ok := if hi then true else fis_empty (t_high tp) && negb (t_closed tp) in
          if ok then
            match fpop (chan_of tp hi) with
            | None => None
            | Some (x, f') =>
                let s1 := st s (c_topic cl) (set_chan tp hi f') in
                match x with
                | ISent => Some (sc s1 c (set_pump cl PExit None))
                | IMsg o =>   (* isEnd knows the sentinel by identity: every message goes on to recv *)
                    Some (set_where (sc s1 c (set_pump cl PRun (Some x))) o (PHold c))
                end
            end
          else None
      | _, _ => None
      end
  | EPumpPut c =>
      let cl := gc s c in
      match c_hold cl with
      | Some x =>
          if fspace (rcap (s_caps s)) (c_recv cl) && negb (c_closed cl)
          then Some (item_where (sc s c (mkC (fpush x (c_recv cl)) None (c_pump cl) (c_topic cl) (c_closing cl) (c_closed cl) (c_held cl))) x (PRecv c))
          else None
      | None => None
      end
  | EPumpExit c =>
      let cl := gc s c in
      match c_pump cl, c_hold cl with
      | PRun, None =>       (* sub.done (outer select) or client.done (inner select) *)
          if t_closed (gt s (c_topic cl)) || c_closing cl then Some (sc s c (set_pump cl PExit None)) else None
      | _, _ => None
      end
  | ERecv c o i =>
      let cl := gc s c in
      match fpop (c_recv cl) with
      | Some (IMsg o', f') =>
          if (o =? o') && (i =? o_id (go s o)) then
            let s1 := sc s c (mkC f' (c_hold cl) (c_pump cl) (c_topic cl) (c_closing cl) (c_closed cl) ((o, i) :: c_held cl)) in
            Some (sd (set_where s1 o (PHeld c)) i)
          else None
      | _ => None
      end
  | ERecvClosed c =>
      let cl := gc s c in
      if c_closed cl && fis_empty (c_recv cl) then Some s else None
  | EReply c o i =>
      let cl := gc s c in
      let ob := go s o in
      match mem_pair o i (c_held cl), o_slot ob with
      | true, None =>
          let s1 := sc s c (mkC (c_recv cl) (c_hold cl) (c_pump cl) (c_topic cl) (c_closing cl) (c_closed cl) (remove_pair o i (c_held cl))) in
          Some (so s1 o (mkO (o_id ob) (o_topic ob) (Some (RFor i)) (o_pool ob) (o_sent ob) P0))
      | _, _ => None
      end
  | EWait c o timed r =>
      let ob := go s o in
      let s1 := touch s (o_topic ob) in
      match r with
      | WGot x =>
          match o_slot ob with
          | Some y => if reply_eqb x y
                      then Some (so s1 o (mkO (o_id ob) (o_topic ob) None (o_pool ob) (o_sent ob) (o_where ob))) else None
          | None => None
          end
      | WChan => if t_closed (gt s (o_topic ob)) then Some s1 else None
      | WClient => if c_closing (gc s c) then Some s1 else None
      | WTimeout => if timed then Some s1 else None
      end
  | ECloseNoop c =>   (* Close of a client that is already closed returns at once *)
      if c_closed (gc s c) then Some s else None
  | ECloseBegin c =>
      let cl := gc s c in
      match c_closed cl, c_closing cl, c_pump cl with
      | false, false, PRun | false, false, PExit =>
          let t := last_of s c in    (* closeTopic(client.getTopic()): the last Sub's topic only *)
          let s1 := st s t (close_topic_rec (s_caps s) (gt s t)) in
          Some (sc s1 c (mkC (c_recv cl) (c_hold cl) (c_pump cl) (c_topic cl) true false (c_held cl)))
      | false, false, PNone =>   (* never subscribed: no topic to close, the rest is the same *)
          Some (sc s c (mkC (c_recv cl) (c_hold cl) PNone (c_topic cl) true false (c_held cl)))
      | _, _, _ => None     (* Close overlapping another Close of the same client: [EClosePanic] *)
      end
  | ECloseEnd c =>    (* wg.Wait() has returned (pump gone, or there never was one) *)
      let cl := gc s c in
      match c_closing cl, c_closed cl, c_pump cl, c_hold cl with
      | true, false, PExit, None | true, false, PNone, None =>
          if xp_done s c then Some (sc s c (mkC (c_recv cl) None (c_pump cl) (c_topic cl) true true (c_held cl)))
          else None
      | _, _, _, _ => None
      end
  | EDrain c =>       (* for msg := range client.Recv() : takes the next left message *)
      let cl := gc s c in
      match c_closed cl, c_hold cl, fpop (c_recv cl) with
      | true, None, Some (x, f') =>
          Some (item_where (sc s c (mkC f' (Some x) (c_pump cl) (c_topic cl) (c_closing cl) true (c_held cl))) x (PHold c))
      | _, _, _ => None
      end
  | EDrainReply c =>  (* msg.Reply(ErrChannelClosed): blocks while the reply slot is occupied *)
      let cl := gc s c in
      match c_closed cl, c_hold cl with
      | true, Some (IMsg o) =>
          let ob := go s o in
          match o_slot ob with
          | Some _ => None
          | None =>
              let s1 := sc s c (mkC (c_recv cl) None (c_pump cl) (c_topic cl) (c_closing cl) true (c_held cl)) in
              Some (so s1 o (mkO (o_id ob) (o_topic ob) (Some RClosed) (o_pool ob) (o_sent ob) P0))
          end
      | true, Some ISent => Some (sc s c (mkC (c_recv cl) None (c_pump cl) (c_topic cl) (c_closing cl) true (c_held cl)))
      | _, _ => None
      end
  | ECloseQueue =>
      if s_qclosed s then Some s      (* closeOnce *)
      else if s_qclosing s then None  (* a second caller waits in closeOnce.Do *)
      else Some (sq s (close_all s))
  | ENewRaw o t =>      (* a new object (never handed out before), not one from the pool *)
      let ob := go s o in
      if o_pool ob && (o_id ob =? 0) && negb (o_sent ob)
      then Some (so s o (mkO 0 t (o_slot ob) false false (o_where ob))) else None
  | ESub2 k c t =>
      let cl := gc s c in
      let xp := gx s k in
      match c_closing cl || c_closed cl, c_pump cl, x_st xp, x_hold xp with
      | false, PRun, PNone, None | false, PExit, PNone, None =>
          Some (sl (sx (touch s t) k (mkX c t PRun None)) c t)
      | _, _, _, _ => None
      end
  | EXTake k hi =>
      let xp := gx s k in
      let tp := gt s (x_topic xp) in
      match x_st xp, x_hold xp with
      | PRun, None =>
          let ok := if hi then true else fis_empty (t_high tp) && negb (t_closed tp) in
          if ok then
            match fpop (chan_of tp hi) with
            | None => None
            | Some (x, f') =>
                let s1 := st s (x_topic xp) (set_chan tp hi f') in
                match x with
                | ISent => Some (sx s1 k (set_xp xp PExit None))
                | IMsg o => Some (set_where (sx s1 k (set_xp xp PRun (Some x))) o (PXHold k))
                end
            end
          else None
      | _, _ => None
      end
  | EXPut k =>
      let xp := gx s k in
      let c := x_client xp in
      let cl := gc s c in
      match x_hold xp with
      | Some x =>
          if fspace (rcap (s_caps s)) (c_recv cl) && negb (c_closed cl)
          then Some (item_where (sx (sc s c (mkC (fpush x (c_recv cl)) (c_hold cl) (c_pump cl) (c_topic cl) (c_closing cl) (c_closed cl) (c_held cl)))
                                    k (set_xp xp (x_st xp) None)) x (PRecv c))
          else None
      | None => None
      end
  | EXExit k =>
      let xp := gx s k in
      match x_st xp, x_hold xp with
      | PRun, None =>
          if t_closed (gt s (x_topic xp)) || c_closing (gc s (x_client xp))
          then Some (sx s k (set_xp xp PExit None)) else None
      | _, _ => None
      end
  | EClosePanic c =>    (* isClosed is still 0, closeTopic finds the topic closed, close(client.done) panics *)
      let cl := gc s c in
      if c_closing cl && negb (c_closed cl) then Some s else None
  | ECloseQBegin =>
      if s_qclosing s then None else Some (sqb s (close_all s))
  | ECloseQEnd =>
      if s_qclosing s && negb (s_qclosed s) then Some (sqe s) else None
  end.

(** ** the client discipline (FreeMessage: "the context must no longer reference the message")
    under which the reply / delivery theorems are stated:
    - messages are made with client.NewMessage (not the sentinel look-alike of [ENewRaw]);
    - a message is sent only between NewMessage and FreeMessage, and at most once per NewMessage
      (a send that failed does not count);
    - a message is freed only when nobody else can still reference it: it was not sent, or
      its send failed, or the responder has answered it ([o_where = P0]), and an
      answer, if any, has been taken out of the reply channel ([o_slot = None]). *)
Definition place_is0 (w : place) : bool := match w with P0 => true | _ => false end.
Definition disc (s : state) (e : event) : bool :=
  match e with
  | EFree o => place_is0 (o_where (go s o)) && match o_slot (go s o) with None => true | Some _ => false end
  | ESend _ o _ _ _ | EBlock _ _ o _ _ => negb (o_pool (go s o)) && negb (o_sent (go s o))
  | ENewRaw _ _ => false       (* requests are made with client.NewMessage *)
  | _ => true
  end.

Fixpoint drun (s : state) (tr : list event) : option state :=
  match tr with
  | [] => Some s
  | e :: tl => if disc s e then match step s e with Some s' => drun s' tl | None => None end else None
  end.

(** ** guarded runs in general, and the guards of the close theorems *)
Fixpoint grun (g : state -> event -> bool) (s : state) (tr : list event) : option state :=
  match tr with
  | [] => Some s
  | e :: tl => if g s e then match step s e with Some s' => grun g s' tl | None => None end else None
  end.

Fixpoint mem_key (x : N) (l : list N) : bool :=
  match l with [] => false | y :: tl => (x =? y) || mem_key x tl end.
Definition topic_known (s : state) (t : N) : bool := mem_key t (map fst (s_topics s)).

(* no send parks while Queue.Close is between its loop over the topics and isClose = 1 *)
Definition bdisc (s : state) (e : event) : bool :=
  match e with EBlock _ _ _ _ _ => negb (s_qclosing s) | _ => true end.
(* once Queue.Close has walked the topics, no call names a topic that did not exist then
   (q.chanSub would create it, open, inside the closed queue) *)
Definition qdisc (s : state) (e : event) : bool :=
  if s_qclosing s then
    match e with
    | ESend _ o _ _ _ | EBlock _ _ o _ _ | EWait _ o _ _ => topic_known s (o_topic (go s o))
    | ESub _ t | ESub2 _ _ t => topic_known s t
    | _ => true
    end
  else true.
(* one Sub per client *)
Definition sdisc (s : state) (e : event) : bool := match e with ESub2 _ _ _ => false | _ => true end.
(* no Close of client c is between close(client.done) and isClosed = 1 *)
Definition close_in_progress (s : state) (c : N) : bool := c_closing (gc s c) && negb (c_closed (gc s c)).
(* the topics client c has subscribed to *)
Definition subs_of (s : state) (c : N) : list N :=
  match c_pump (gc s c) with
  | PNone => []
  | _ => c_topic (gc s c) :: map (fun kv => x_topic (snd kv)) (filter (fun kv => x_client (snd kv) =? c) (s_xp s))
  end.
Definition single_sub (s : state) (c : N) : bool := forallb (fun t => t =? last_of s c) (subs_of s c).
Definition wait_returns_guard (s : state) (c o : N) (timed : bool) : bool :=
  timed || c_closing (gc s c) || t_closed (gt s (o_topic (go s o)))
  || match o_slot (go s o) with Some _ => true | None => false end.

(* Client.Close has returned *)
Definition close_done (s : state) (c : N) : bool :=
  let cl := gc s c in
  c_closed cl && fis_empty (c_recv cl) && match c_hold cl with None => true | Some _ => false end.

Fixpoint run (s : state) (tr : list event) : option state :=
  match tr with
  | [] => Some s
  | e :: tl => match step s e with Some s' => run s' tl | None => None end
  end.
