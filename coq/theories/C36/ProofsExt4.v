(** C36 — the extension, former finding 5 (repaired: isEnd knows the sentinel by identity):
    a subscriber's pump stops only when its topic or its client is closed, whatever the
    messages look like. *)
From Coq Require Import List NArith Bool Lia.
From C33 Require Import C36.Model C36.ProofsBase C36.ProofsClose C36.ProofsBlock C36.ProofsOcc C36.ProofsExt C36.ProofsExt2.
Import ListNotations.
Open Scope N_scope.

Definition citems (s : state) (t : N) (hi : bool) : list item := f_items (chan_of (gt s t) hi).

(** *** how the topic updates act on the channel contents *)
Lemma in_set_chan x tp h f hi :
  In x (f_items (chan_of (set_chan tp h f) hi)) -> In x (f_items f) \/ In x (f_items (chan_of tp hi)).
Proof. destruct h, hi; simpl; auto. Qed.
Lemma in_close_topic x cp tp hi :
  In x (f_items (chan_of (close_topic_rec cp tp) hi)) -> x = ISent \/ In x (f_items (chan_of tp hi)).
Proof.
  unfold close_topic_rec. destruct (t_closed tp); [auto|].
  destruct hi; simpl; [destruct (fspace (hcap cp) (t_high tp))|destruct (fspace (lcap cp) (t_low tp))]; simpl; intuition.
Qed.
Lemma in_close_all x s t hi :
  In x (f_items (chan_of (aget topic0 t (close_all s)) hi)) ->
  t_closed (aget topic0 t (close_all s)) = true /\ (x = ISent \/ In x (citems s t hi)).
Proof.
  unfold citems, gt, close_all. induction (s_topics s) as [|[k v] m IH]; simpl.
  - destruct hi; simpl; tauto.
  - destruct (t =? k); [|exact IH]. intros H. split; [apply close_topic_closed|]. eapply in_close_topic; eauto.
Qed.
Lemma fpop_in f x f' : fpop f = Some (x, f') -> In x (f_items f) /\ (forall y, In y (f_items f') -> In y (f_items f)).
Proof.
  intros H. rewrite (fpop_items _ _ _ H). split; [apply in_or_app; right; left; reflexivity|].
  intros y Hy. apply in_or_app; left; exact Hy.
Qed.

(** *** the invariant: the sentinel lies only in closed topics, a pump has returned only
    after a close *)
Definition sentinel_ok (s : state) : Prop :=
  forall t hi, In ISent (citems s t hi) -> t_closed (gt s t) = true.
Definition pump_exit_ok (s : state) : Prop :=
  (forall c, c_pump (gc s c) = PExit -> t_closed (gt s (c_topic (gc s c))) = true \/ c_closing (gc s c) = true)
  /\ (forall k, x_st (gx s k) = PExit ->
        t_closed (gt s (x_topic (gx s k))) = true \/ c_closing (gc s (x_client (gx s k))) = true).

Lemma closing_mono s e s' c : step s e = Some s' -> c_closing (gc s c) = true -> c_closing (gc s' c) = true.
Proof.
  intros H Hc. destruct e; step_inv H; autorewrite with frame; eqb_cases; bool_hyps; simpl; auto; congruence.
Qed.

(** *** what one step does to one topic *)
Definition sent_obj (s : state) (e : event) : option N :=
  match e with
  | ESend _ o _ _ SOk => Some o
  | EUnblock p SOk => match pend_get p (s_pend s) with Some pd => Some (p_obj pd) | None => None end
  | _ => None
  end.

Lemma gt_step s e s' t :
  step s e = Some s' ->
  gt s' t = gt s t
  \/ (exists hi o, gt s' t = set_chan (gt s t) hi (fpush (IMsg o) (chan_of (gt s t) hi)) /\ sent_obj s e = Some o)
  \/ (exists hi x f', fpop (chan_of (gt s t) hi) = Some (x, f') /\ gt s' t = set_chan (gt s t) hi f')
  \/ gt s' t = close_topic_rec (s_caps s) (gt s t)
  \/ gt s' t = aget topic0 t (close_all s).
Proof.
  intros H.
  destruct e; step_inv H;
    repeat match goal with x : item |- _ => destruct x end;
    simpl sent_obj; autorewrite with frame; eqb_cases; auto;
    try (right; left; eexists _, _; split; [reflexivity|];
         repeat match goal with E : pend_get _ _ = Some _ |- _ => rewrite E; clear E end;
         repeat match goal with E : sres_eqb ?r SOk = true |- _ => destruct r; try discriminate E; clear E end;
         reflexivity);
    try (right; right; left; eexists _, _, _; split; [eassumption|reflexivity]);
    auto 6.
Qed.

Lemma sentinel_step s e s' : sentinel_ok s -> step s e = Some s' -> sentinel_ok s'.
Proof.
  intros A H t hi Hin. unfold citems in Hin.
  destruct (gt_step s e s' t H) as [Hg|[(h & o1 & Hg & Hs)|[(h & x & f' & Hp & Hg)|[Hg|Hg]]]].
  - rewrite Hg in Hin. eapply tclosed_mono; eauto.
  - rewrite Hg in Hin. apply in_set_chan in Hin as [Hin|Hin]; [|eapply tclosed_mono; eauto].
    simpl in Hin. destruct Hin as [Hin|Hin]; [discriminate|eapply tclosed_mono; eauto].
  - rewrite Hg in Hin. apply in_set_chan in Hin as [Hin|Hin]; [|eapply tclosed_mono; eauto].
    eapply tclosed_mono; eauto. eapply A. apply (proj2 (fpop_in _ _ _ Hp)). exact Hin.
  - rewrite Hg. apply close_topic_closed.
  - rewrite Hg in *. apply in_close_all in Hin. tauto.
Qed.

(* the first subscription's pump: it has returned before, or returns now -- through a
   closed done channel or the sentinel *)
Lemma pump_step s e s' c :
  step s e = Some s' -> c_pump (gc s' c) = PExit ->
  c_topic (gc s' c) = c_topic (gc s c)
  /\ (c_pump (gc s c) = PExit
      \/ t_closed (gt s (c_topic (gc s c))) = true \/ c_closing (gc s c) = true
      \/ (exists hi x f', fpop (chan_of (gt s (c_topic (gc s c))) hi) = Some (x, f')
                          /\ x = ISent)).
Proof.
  intros H.
  destruct e; step_inv H; autorewrite with frame; eqb_cases; simpl; auto; try congruence;
    repeat match goal with x : item |- _ => destruct x; autorewrite with frame; eqb_cases; simpl; auto end;
    try congruence; bool_hyps; auto.
  all: intros _; split; [reflexivity|].
  all: try (right; right; right; eexists _, _, _; (split; [eassumption|]); reflexivity).
  all: match goal with E : (_ || _) = true |- _ => apply orb_true_iff in E as [E|E]; auto end.
Qed.

Lemma xpump_step s e s' k :
  step s e = Some s' -> x_st (gx s' k) = PExit ->
  x_topic (gx s' k) = x_topic (gx s k) /\ x_client (gx s' k) = x_client (gx s k)
  /\ (x_st (gx s k) = PExit
      \/ t_closed (gt s (x_topic (gx s k))) = true \/ c_closing (gc s (x_client (gx s k))) = true
      \/ (exists hi x f', fpop (chan_of (gt s (x_topic (gx s k))) hi) = Some (x, f')
                          /\ x = ISent)).
Proof.
  intros H.
  destruct e; step_inv H; autorewrite with frame; eqb_cases; simpl; auto; try congruence;
    repeat match goal with x : item |- _ => destruct x; autorewrite with frame; eqb_cases; simpl; auto end;
    try congruence; bool_hyps; auto.
  all: intros _; split; [reflexivity|]; split; [reflexivity|].
  all: try (right; right; right; eexists _, _, _; (split; [eassumption|]); reflexivity).
  all: match goal with E : (_ || _) = true |- _ => apply orb_true_iff in E as [E|E]; auto end.
Qed.

Definition rinv (s : state) : Prop := sentinel_ok s /\ pump_exit_ok s.

Lemma rinv_init cp : rinv (init cp).
Proof.
  split; [|split].
  - intros t hi H. destruct hi; contradiction H.
  - intros c H. discriminate H.
  - intros k H. discriminate H.
Qed.

Lemma popped_means_closed s t hi x f' :
  sentinel_ok s -> fpop (chan_of (gt s t) hi) = Some (x, f') -> x = ISent -> t_closed (gt s t) = true.
Proof. intros S Hp ->. destruct (fpop_in _ _ _ Hp) as [Hin _]. eapply S; exact Hin. Qed.

Lemma rinv_step s e s' : rinv s -> step s e = Some s' -> rinv s'.
Proof.
  intros (S & [P1 P2]) H. split; [eapply sentinel_step; eauto|].
  split.
  - intros c Hc. destruct (pump_step s e s' c H Hc) as (Ht & Hcase). rewrite Ht.
    assert (Hold : t_closed (gt s (c_topic (gc s c))) = true \/ c_closing (gc s c) = true).
    { destruct Hcase as [Hx|[Hx|[Hx|(hi & x & f' & Hp & Hx)]]]; auto.
      left. eapply popped_means_closed; eauto. }
    destruct Hold as [Hx|Hx]; [left; eapply tclosed_mono; eauto|right; eapply closing_mono; eauto].
  - intros k Hk. destruct (xpump_step s e s' k H Hk) as (Ht & Hcl & Hcase). rewrite Ht, Hcl.
    assert (Hold : t_closed (gt s (x_topic (gx s k))) = true \/ c_closing (gc s (x_client (gx s k))) = true).
    { destruct Hcase as [Hx|[Hx|[Hx|(hi & x & f' & Hp & Hx)]]]; auto.
      left. eapply popped_means_closed; eauto. }
    destruct Hold as [Hx|Hx]; [left; eapply tclosed_mono; eauto|right; eapply closing_mono; eauto].
Qed.

(** *** the statement, at full strength: a subscriber's pump stops only when its topic or its
    client is closed (so accepted requests do not stay in the channel for ever) *)
Lemma pump_stops_only_on_close_proof :
  forall cp tr s, run (init cp) tr = Some s ->
    (forall c, c_pump (gc s c) = PExit -> t_closed (gt s (c_topic (gc s c))) = true \/ c_closing (gc s c) = true)
    /\ (forall k, x_st (gx s k) = PExit ->
          t_closed (gt s (x_topic (gx s k))) = true \/ c_closing (gc s (x_client (gx s k))) = true).
Proof.
  intros cp tr s Hr.
  assert (I : rinv s).
  { eapply (run_invariant rinv); [|apply rinv_init|exact Hr]. intros; eapply rinv_step; eauto. }
  exact (proj2 I).
Qed.

(* and a message lying in an open topic's channel in front of a running idle pump can be
   taken: it is not lost *)
Lemma running_pump_takes :
  forall s c, c_pump (gc s c) = PRun -> c_hold (gc s c) = None ->
    fis_empty (t_high (gt s (c_topic (gc s c)))) = false ->
    exists s', step s (EPumpTake c true) = Some s'.
Proof.
  intros s c Hp Hh Hne. simpl. rewrite Hp, Hh.
  unfold fis_empty in Hne. unfold fpop.
  destruct (f_items (t_high (gt s (c_topic (gc s c))))) as [|x l] eqn:E; [discriminate|].
  destruct (rev (x :: l)) as [|y r] eqn:Er.
  { apply (f_equal (@length item)) in Er. rewrite rev_length in Er. discriminate. }
  destruct y as [o|]; eauto.
Qed.

(* the former witness: client 1 sends queue.NewMessage(0, topic, 0, nil) to subscriber 0. It is
   delivered (the subscriber reads ID 0), the pump keeps running and the next request arrives *)
Definition lookalike_trace : list event :=
  [ ESub 0 0; ENewRaw 0 0; ESend 1 0 true MForever SOk; EPumpTake 0 true; EPumpPut 0; ERecv 0 0 0;
    ENew 1 0 1; ESend 1 1 true MForever SOk; EPumpTake 0 true; EPumpPut 0; ERecv 0 1 1 ].

Lemma lookalike_runs :
  exists s, run (init (mkCaps 2 2 5)) lookalike_trace = Some s
    /\ c_pump (gc s 0) = PRun /\ t_closed (gt s 0) = false
    /\ c_held (gc s 0) = [(1, 1); (0, 0)] /\ s_deliv s = [1; 0].
Proof. eexists. split; [vm_compute; reflexivity|]. repeat split; vm_compute; reflexivity. Qed.
