(** C36 — the extension, finding 6 continued: under the guard [qdisc] (no call names a new
    topic once Queue.Close has walked the topics) a closed queue holds no open topic and
    every wait returns. *)
From Coq Require Import List NArith Bool Lia.
From C33 Require Import C36.Model C36.ProofsBase C36.ProofsClose C36.ProofsBlock C36.ProofsOcc C36.ProofsExt.
Import ListNotations.
Open Scope N_scope.

Lemma tkeys_sc s c v : tkeys (sc s c v) = tkeys s. Proof. reflexivity. Qed.
Lemma tkeys_so s o v : tkeys (so s o v) = tkeys s. Proof. reflexivity. Qed.
Lemma tkeys_sp s l : tkeys (sp s l) = tkeys s. Proof. reflexivity. Qed.
Lemma tkeys_sg s i : tkeys (sg s i) = tkeys s. Proof. reflexivity. Qed.
Lemma tkeys_sd s i : tkeys (sd s i) = tkeys s. Proof. reflexivity. Qed.
Lemma tkeys_sx s k v : tkeys (sx s k v) = tkeys s. Proof. reflexivity. Qed.
Lemma tkeys_sl s c t : tkeys (sl s c t) = tkeys s. Proof. reflexivity. Qed.
Lemma tkeys_sqe s : tkeys (sqe s) = tkeys s. Proof. reflexivity. Qed.
Lemma tkeys_set_where s o w : tkeys (set_where s o w) = tkeys s. Proof. reflexivity. Qed.
Lemma tkeys_set_parked s o b w : tkeys (set_parked s o b w) = tkeys s. Proof. reflexivity. Qed.
Lemma tkeys_item_where s x w : tkeys (item_where s x w) = tkeys s. Proof. destruct x; reflexivity. Qed.
Lemma tkeys_enqueue s t o hi :
  tkeys (enqueue s t o hi) = tkeys (st s t (set_chan (gt s t) hi (fpush (IMsg o) (chan_of (gt s t) hi)))).
Proof. reflexivity. Qed.
Lemma tkeys_close_all s : map fst (close_all s) = tkeys s.
Proof. unfold close_all, tkeys. rewrite map_map. reflexivity. Qed.
Lemma tkeys_sq s : tkeys (sq s (close_all s)) = tkeys s. Proof. apply tkeys_close_all. Qed.
Lemma tkeys_sqb s : tkeys (sqb s (close_all s)) = tkeys s. Proof. apply tkeys_close_all. Qed.
Global Hint Rewrite tkeys_sc tkeys_so tkeys_sp tkeys_sg tkeys_sd tkeys_sx tkeys_sl tkeys_sqe tkeys_set_where
  tkeys_set_parked tkeys_item_where tkeys_enqueue tkeys_sq tkeys_sqb : tk.

Lemma tkeys_st_in s t v t' : In t' (tkeys (st s t v)) -> t' = t \/ In t' (tkeys s).
Proof.
  unfold tkeys, st. simpl.
  induction (s_topics s) as [|[k w] m IH]; simpl; [intros [H|[]]; auto|].
  destruct (t =? k) eqn:E; simpl.
  - apply N.eqb_eq in E; subst. tauto.
  - intros [H|H]; [tauto|]. destruct (IH H); tauto.
Qed.

(* a topic that is not in the table is the empty open topic *)
Lemma gt_unknown s t : ~ In t (tkeys s) -> gt s t = topic0.
Proof.
  unfold gt, tkeys. induction (s_topics s) as [|[k w] m IH]; simpl; [reflexivity|].
  intros Hn. destruct (t =? k) eqn:E; [apply N.eqb_eq in E; subst; tauto|]. apply IH. tauto.
Qed.
Lemma fpop_known s t hi x f' : fpop (chan_of (gt s t) hi) = Some (x, f') -> In t (tkeys s).
Proof.
  intros H. destruct (in_dec N.eq_dec t (tkeys s)) as [Hin|Hn]; [exact Hin|].
  rewrite (gt_unknown s t Hn) in H. destruct hi; discriminate H.
Qed.

Lemma topic_known_in s t : topic_known s t = true -> In t (tkeys s).
Proof. unfold topic_known. apply mem_key_in. Qed.

(* [st] at a known key, or with a closed value, keeps "all topics closed" *)
Lemma all_closed_st s t v :
  all_topics_closed s -> t_closed v = true -> all_topics_closed (st s t v).
Proof.
  intros A Hv t' Hin. rewrite gt_st. destruct (t' =? t) eqn:E; [exact Hv|].
  apply tkeys_st_in in Hin as [->|Hin]; [rewrite N.eqb_refl in E; discriminate|apply A, Hin].
Qed.
Lemma all_closed_ext s s' :
  all_topics_closed s -> tkeys s' = tkeys s -> (forall t, gt s' t = gt s t) -> all_topics_closed s'.
Proof. intros A Hk Hg t Hin. rewrite Hg. apply A. rewrite <- Hk. exact Hin. Qed.
Lemma all_closed_touch s t : all_topics_closed s -> In t (tkeys s) -> all_topics_closed (touch s t).
Proof. intros A Hin. unfold touch. apply all_closed_st; [exact A|apply A, Hin]. Qed.
Lemma all_closed_set_chan s t hi f :
  all_topics_closed s -> In t (tkeys s) -> all_topics_closed (st s t (set_chan (gt s t) hi f)).
Proof. intros A Hin. apply all_closed_st; [exact A|]. rewrite set_chan_closed. apply A, Hin. Qed.

Lemma all_closed_enqueue s t o hi :
  all_topics_closed s -> In t (tkeys s) -> all_topics_closed (enqueue s t o hi).
Proof.
  intros A Hin. unfold enqueue.
  eapply all_closed_ext; [exact (all_closed_set_chan s t hi (fpush (IMsg o) (chan_of (gt s t) hi)) A Hin)|reflexivity|reflexivity].
Qed.
Lemma tkeys_touch_in s t : In t (tkeys (touch s t)).
Proof. unfold touch, tkeys, st; simpl. apply aset_key_in. Qed.

Ltac ac_ext := eapply all_closed_ext; [eassumption|reflexivity|reflexivity].

Lemma walked_closed_step s e s' :
  walked_closed s -> pend_inv s -> qdisc s e = true -> step s e = Some s' -> walked_closed s'.
Proof.
  intros J P G H. unfold walked_closed in *. unfold qdisc in G.
  destruct (s_qclosing s) eqn:Q.
  - specialize (J eq_refl). intros _.
    destruct e; try (step_inv H; try exact J; repeat match goal with x : item |- _ => destruct x end; ac_ext; fail).
    + (* ESub *) apply topic_known_in in G. step_inv H; try exact J.
      eapply all_closed_ext; [apply (all_closed_touch s t J G)|reflexivity|reflexivity].
    + (* ESend *) apply topic_known_in in G. step_inv H; try exact J; try (apply all_closed_touch; assumption).
      apply all_closed_enqueue; [apply all_closed_touch; assumption|apply tkeys_touch_in].
    + (* EBlock *) apply topic_known_in in G. step_inv H;
        (eapply all_closed_ext; [apply (all_closed_touch s _ J G)|reflexivity|reflexivity]).
    + (* EUnblock *)
      step_inv H; try ac_ext.
      apply all_closed_enqueue; [ac_ext|].
      apply (P p p0). apply pend_get_in. assumption.
    + (* EPumpTake *)
      step_inv H;
        match goal with Hp : fpop (chan_of (gt s ?T) ?hi) = Some _ |- _ => pose proof (fpop_known _ _ _ _ _ Hp) as HK end;
        (eapply all_closed_ext; [eapply all_closed_set_chan; [exact J|exact HK]|reflexivity|reflexivity]).
    + (* EWait *) apply topic_known_in in G.
      step_inv H; (eapply all_closed_ext; [apply (all_closed_touch s _ J G)|reflexivity|reflexivity]).
    + (* ECloseBegin *)
      step_inv H; try ac_ext.
      all: eapply all_closed_ext; [eapply all_closed_st; [exact J|apply close_topic_closed]|reflexivity|reflexivity].
    + (* ECloseQueue *) step_inv H; [exact J|congruence].
    + (* ESub2 *) apply topic_known_in in G. step_inv H;
        (eapply all_closed_ext; [apply (all_closed_touch s _ J G)|reflexivity|reflexivity]).
    + (* EXTake *)
      step_inv H;
        match goal with Hp : fpop (chan_of (gt s ?T) ?hi) = Some _ |- _ => pose proof (fpop_known _ _ _ _ _ Hp) as HK end;
        (eapply all_closed_ext; [eapply all_closed_set_chan; [exact J|exact HK]|reflexivity|reflexivity]).
    + (* ECloseQBegin *) step_inv H; congruence.
  - (* the topics are walked by this step, or not yet *)
    destruct e; try (step_inv H; autorewrite with frame; intros Hq; congruence).
    + step_inv H; [congruence|]. intros _ t Hin. rewrite gt_sq. rewrite tkeys_sq in Hin. apply close_all_closes, Hin.
    + step_inv H. intros _ t Hin. rewrite gt_sqb. rewrite tkeys_sqb in Hin. apply close_all_closes, Hin.
Qed.

Lemma qrun_walked_closed cp tr s : grun qdisc (init cp) tr = Some s -> walked_closed s.
Proof.
  intros Hr.
  assert (Hb : walked_closed s /\ pend_inv s).
  { eapply (grun_invariant qdisc (fun s => walked_closed s /\ pend_inv s)); [| |exact Hr].
    - intros s0 e s1 [J P] G H. split; [eapply walked_closed_step; eauto|eapply pend_inv_step; eauto].
    - split; [intros Hq; discriminate Hq|apply pend_inv_init]. }
  exact (proj1 Hb).
Qed.

(** a closed queue holds no open topic -- when no call names a new topic after the walk *)
Lemma closed_queue_no_open_topic_proof :
  forall cp tr s, grun qdisc (init cp) tr = Some s -> s_qclosing s = true -> all_topics_closed s.
Proof. intros cp tr s Hr Hq. exact (qrun_walked_closed cp tr s Hr Hq). Qed.

Lemma wait_after_queue_close_proof :
  forall cp tr s, grun qdisc (init cp) tr = Some s -> s_qclosed s = true ->
    forall c o timed, topic_known s (o_topic (go s o)) = true ->
      exists r s', step s (EWait c o timed r) = Some s'.
Proof.
  intros cp tr s Hr Hq c o timed Hk.
  pose proof (grun_run _ _ _ _ Hr) as Hrun.
  pose proof (reachable_qflags cp s (ex_intro _ tr Hrun) Hq) as Hqq.
  exists WChan. apply wait_after_topic_close. apply (qrun_walked_closed cp tr s Hr Hqq). apply topic_known_in, Hk.
Qed.

(** in any run: a topic that exists when Queue.Close walks the topics is closed from then
    on, and a wait on a message of such a topic returns, whatever happens later *)
Lemma known_topic_wait_returns :
  forall cp tr s0 s1, run (init cp) tr = Some s0 -> s_qclosing s0 = false ->
    (step s0 ECloseQueue = Some s1 \/ step s0 ECloseQBegin = Some s1) ->
    forall tr2 s2, run s1 tr2 = Some s2 ->
    forall t, topic_known s0 t = true ->
      t_closed (gt s2 t) = true
      /\ forall c o timed, o_topic (go s2 o) = t -> exists r s3, step s2 (EWait c o timed r) = Some s3.
Proof.
  intros cp tr s0 s1 Hr0 Hq Hs tr2 s2 Hr2 t Hk. apply topic_known_in in Hk.
  assert (Hc : t_closed (gt s2 t) = true).
  { eapply tclosed_mono_run; [exact Hr2|].
    destruct Hs as [Hs|Hs]; [|eapply close_qbegin_closes_all; eauto].
    eapply close_queue_closes_all; eauto.
    destruct (s_qclosed s0) eqn:E; [|reflexivity].
    pose proof (reachable_qflags cp s0 (ex_intro _ tr Hr0) E). congruence. }
  split; [exact Hc|]. intros c o timed <-. exists WChan. apply wait_after_topic_close, Hc.
Qed.

(* non-vacuity of the guard: calls on existing topics go on after the walk and after the store *)
Definition guarded_close_trace : list event :=
  [ ESub 0 0; ENew 0 0 1; ESend 1 0 true MForever SOk; ENew 1 0 2; ECloseQBegin;
    ESend 1 1 true MForever SErrChan; ECloseQEnd; EWait 1 0 false WChan; EPumpTake 0 true; EPumpPut 0 ].
Lemma guarded_close_runs :
  exists s, grun qdisc (init (mkCaps 2 2 5)) guarded_close_trace = Some s
            /\ s_qclosed s = true /\ tkeys s = [0] /\ t_closed (gt s 0) = true.
Proof. eexists. split; [vm_compute; reflexivity|]. repeat split; vm_compute; reflexivity. Qed.
Lemma race_trace_not_guarded : grun qdisc (init (mkCaps 2 2 5)) race_trace = None.
Proof. vm_compute. reflexivity. Qed.
