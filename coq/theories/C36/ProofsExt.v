(** C36 — the extension: exact condition for a wait to return, overlapping Close calls
    (finding 4), topics created inside a closed queue (finding 6). *)
From Coq Require Import List NArith Bool Lia.
From C33 Require Import C36.Model C36.ProofsBase C36.ProofsClose C36.ProofsBlock.
Import ListNotations.
Open Scope N_scope.

(** *** a wait returns iff it has a timer, its client's done channel is closed, the topic of
    its message is closed, or a reply lies in the reply channel *)
Lemma wait_enabled_iff s c o timed :
  (exists r s', step s (EWait c o timed r) = Some s') <-> wait_returns_guard s c o timed = true.
Proof.
  unfold wait_returns_guard. split.
  - intros (r & s' & H). destruct r as [x| | |]; simpl in H.
    + destruct (o_slot (go s o)); [|discriminate]. rewrite !orb_true_r. reflexivity.
    + destruct (t_closed (gt s (o_topic (go s o)))); [|discriminate]. rewrite !orb_true_r. reflexivity.
    + destruct (c_closing (gc s c)); [|discriminate]. rewrite !orb_true_r. reflexivity.
    + destruct timed; [reflexivity|discriminate].
  - intros G. destruct timed.
    { exists WTimeout. simpl. eauto. }
    destruct (c_closing (gc s c)) eqn:E1.
    { exists WClient. simpl. rewrite E1. eauto. }
    destruct (t_closed (gt s (o_topic (go s o)))) eqn:E2.
    { exists WChan. simpl. rewrite E2. eauto. }
    simpl in G. destruct (o_slot (go s o)) as [y|] eqn:E3; [|discriminate].
    exists (WGot y). simpl. rewrite E3.
    assert (R : reply_eqb y y = true) by (destruct y; simpl; [apply N.eqb_refl|reflexivity]).
    rewrite R. eauto.
Qed.

(** the strengthened statement: all events of the extended system may occur before and after *)
Definition after_close_errors_stmt : Prop :=
  forall cp tr1 s c, run (init cp) tr1 = Some s ->
    c_closed (gc s c) = true \/ s_qclosed s = true ->
  forall tr2 s2, run s tr2 = Some s2 ->
    (forall o hi m r s3, step s2 (ESend c o hi m r) = Some s3 -> is_err r = true)
    /\ (forall p o hi m, step s2 (EBlock p c o hi m) = None)
    /\ (c_closed (gc s c) = true -> forall o timed, exists r s3, step s2 (EWait c o timed r) = Some s3)
    /\ (forall o timed, t_closed (gt s (o_topic (go s2 o))) = true ->
          exists r s3, step s2 (EWait c o timed r) = Some s3)
    /\ (forall o timed, (exists r s3, step s2 (EWait c o timed r) = Some s3)
                        <-> wait_returns_guard s2 c o timed = true).

Lemma after_close_errors_proof : after_close_errors_stmt.
Proof.
  intros cp tr1 s c Hr1 Hc tr2 s2 Hr2.
  destruct (after_close_errors_base cp tr1 s c Hr1 Hc tr2 s2 Hr2) as (A & B & C & D).
  repeat split; auto; apply wait_enabled_iff.
Qed.

(** *** finding 4: a Close that starts while another Close of the same client is in progress *)
Definition close_never_panics_full : Prop :=
  forall cp tr s c, run (init cp) tr = Some s -> step s (EClosePanic c) = None.

(* subscriber 0 does not read: recv (1) is full and the pump holds the next message, so the
   first Close waits in wg.Wait(); the second Close closes client.done again *)
Definition overlap_trace : list event :=
  [ ESub 0 0; ENew 0 0 1; ESend 1 0 true MNow SOk; EPumpTake 0 true; EPumpPut 0;
    ENew 1 0 2; ESend 1 1 true MNow SOk; EPumpTake 0 true; ECloseBegin 0 ].

Lemma overlap_runs :
  exists s, run (init (mkCaps 2 2 1)) overlap_trace = Some s
            /\ close_in_progress s 0 = true
            /\ step s (ECloseEnd 0) = None /\ step s (EPumpPut 0) = None /\ step s (EPumpExit 0) = None
            /\ step s (EClosePanic 0) = Some s.
Proof. eexists. split; [vm_compute; reflexivity|]. repeat split; vm_compute; reflexivity. Qed.

Lemma close_never_panics_refuted : ~ close_never_panics_full.
Proof.
  intros F. destruct overlap_runs as (s & Hr & _ & _ & _ & _ & Hp).
  rewrite (F _ _ _ 0 Hr) in Hp. discriminate.
Qed.

(* a Close call that starts when no other Close of that client is in progress does not
   panic: it returns at once (already closed) or begins *)
Lemma close_no_overlap_no_panic s c :
  close_in_progress s c = false ->
  step s (EClosePanic c) = None
  /\ ((exists s1, step s (ECloseNoop c) = Some s1) \/ (exists s1, step s (ECloseBegin c) = Some s1)).
Proof.
  unfold close_in_progress. intros G. simpl. rewrite G. split; [reflexivity|].
  destruct (c_closed (gc s c)) eqn:E1; [left; eauto|right].
  destruct (c_closing (gc s c)) eqn:E2; [discriminate|].
  destruct (c_pump (gc s c)); eauto.
Qed.

(* and the guard is exactly the condition: the panic is enabled iff a Close is in progress *)
Lemma close_panic_iff s c : (exists s1, step s (EClosePanic c) = Some s1) <-> close_in_progress s c = true.
Proof.
  unfold close_in_progress. simpl. destruct (c_closing (gc s c) && negb (c_closed (gc s c))); split; eauto.
  - intros (s1 & H); discriminate.
  - discriminate.
Qed.

(* non-vacuity: Close calls one after the other *)
Lemma sequential_closes_run :
  exists s s1 s2, run (init (mkCaps 2 2 5)) [ESub 0 0; ECloseBegin 0; EPumpTake 0 true; ECloseEnd 0] = Some s
    /\ close_in_progress s 0 = false /\ step s (ECloseNoop 0) = Some s1
    /\ run (init (mkCaps 2 2 5)) [ESub 0 0] = Some s2 /\ close_in_progress s2 0 = false
    /\ step s2 (EClosePanic 0) = None.
Proof.
  eexists _, _, _. split; [vm_compute; reflexivity|]. split; [vm_compute; reflexivity|].
  split; [vm_compute; reflexivity|]. split; [vm_compute; reflexivity|]. split; vm_compute; reflexivity.
Qed.

(** *** finding 6: q.chanSub creates topics inside a queue that Queue.Close has walked *)
Lemma mem_key_in x l : mem_key x l = true <-> In x l.
Proof.
  induction l as [|y l IH]; simpl; [split; [discriminate|tauto]|].
  rewrite orb_true_iff, IH, N.eqb_eq. split; intros [H|H]; auto.
Qed.

Definition all_topics_closed (s : state) : Prop := forall t, In t (tkeys s) -> t_closed (gt s t) = true.

Definition closed_queue_no_open_topic_full : Prop :=
  forall cp tr s, run (init cp) tr = Some s -> s_qclosed s = true -> all_topics_closed s.

(* the race: a Send that read isClose = 0 reaches chanSub after the loop *)
Definition race_trace : list event :=
  [ ENew 0 7 1; ECloseQBegin; ESend 1 0 true MForever SOk; ECloseQEnd ].
(* no race needed: a Wait (or Sub) that names a new topic after Queue.Close *)
Definition late_wait_trace : list event :=
  [ ENew 0 7 1; ECloseQueue; ESend 1 0 true MForever SErrChan; EWait 1 0 true WTimeout ].

Lemma race_runs :
  exists s, run (init (mkCaps 2 2 5)) race_trace = Some s
            /\ s_qclosed s = true /\ In 7 (tkeys s) /\ t_closed (gt s 7) = false
            /\ f_len (t_high (gt s 7)) = 1
            /\ forall r, step s (EWait 1 0 false r) = None.
Proof.
  eexists. split; [vm_compute; reflexivity|]. repeat split; try (vm_compute; reflexivity).
  - vm_compute. auto.
  - intros r. destruct r as [[i|]| | |]; vm_compute; reflexivity.
Qed.

Lemma late_wait_runs :
  exists s, run (init (mkCaps 2 2 5)) late_wait_trace = Some s
            /\ s_qclosed s = true /\ In 7 (tkeys s) /\ t_closed (gt s 7) = false
            /\ forall r, step s (EWait 1 0 false r) = None.
Proof.
  eexists. split; [vm_compute; reflexivity|]. repeat split; try (vm_compute; reflexivity).
  - vm_compute. auto.
  - intros r. destruct r as [[i|]| | |]; vm_compute; reflexivity.
Qed.

Lemma closed_queue_no_open_topic_refuted : ~ closed_queue_no_open_topic_full.
Proof.
  intros F. destruct race_runs as (s & Hr & Hq & Hin & Ho & _).
  rewrite (F _ _ _ Hr Hq 7 Hin) in Ho. discriminate.
Qed.

Definition wait_after_queue_close_full : Prop :=
  forall cp tr s, run (init cp) tr = Some s -> s_qclosed s = true ->
    forall c o timed, exists r s', step s (EWait c o timed r) = Some s'.

Lemma wait_after_queue_close_refuted : ~ wait_after_queue_close_full.
Proof.
  intros F. destruct race_runs as (s & Hr & Hq & _ & _ & _ & Hn).
  destruct (F _ _ _ Hr Hq 1 0 false) as (r & s' & H). rewrite Hn in H. discriminate.
Qed.

(** under the guard [qdisc]: once the topics were walked, every topic is closed *)
Definition walked_closed (s : state) : Prop := s_qclosing s = true -> all_topics_closed s.

Lemma tkeys_touch s t t' : In t' (tkeys (touch s t)) -> t' = t \/ In t' (tkeys s).
Proof.
  unfold tkeys, touch, st. simpl. generalize (gt s t). intros v.
  induction (s_topics s) as [|[k w] m IH]; simpl; [intros [H|[]]; auto|].
  destruct (t =? k) eqn:E; simpl.
  - apply N.eqb_eq in E; subst. tauto.
  - intros [H|H]; [tauto|]. destruct (IH H); tauto.
Qed.

Lemma tkeys_st_known s t v t' : In t (tkeys s) -> In t' (tkeys (st s t v)) -> In t' (tkeys s).
Proof.
  unfold tkeys, st. simpl. intros Hin.
  induction (s_topics s) as [|[k w] m IH]; simpl in *; [contradiction|].
  destruct (t =? k) eqn:E; simpl.
  - apply N.eqb_eq in E; subst. tauto.
  - intros [H|H]; [tauto|]. destruct Hin as [Hin|Hin]; [apply N.eqb_neq in E; congruence|]. right. apply IH; auto.
Qed.
