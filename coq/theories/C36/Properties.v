From Coq Require Import List NArith Bool.
From C33 Require Import C36.Model C36.ProofsBase C36.ProofsClose C36.ProofsBlock C36.ProofsMain
  C36.ProofsExt C36.ProofsExt2 C36.ProofsExt3 C36.ProofsExt4.
Import ListNotations.
Open Scope N_scope.

Theorem C36_reply_to_own_request :
  forall cp tr s, drun (init cp) tr = Some s ->
  forall c o timed r s', step s (EWait c o timed (WGot r)) = Some s' ->
    r = RClosed \/ r = RFor (o_id (go s o)).
Proof. exact reply_to_own_request_proof. Qed.
Print Assumptions C36_reply_to_own_request.

Theorem C36_responder_holds_current_request :
  forall cp tr s, drun (init cp) tr = Some s ->
  forall c o i, In (o, i) (c_held (gc s c)) -> i = o_id (go s o) /\ o_pool (go s o) = false.
Proof. exact responder_holds_current_proof. Qed.
Print Assumptions C36_responder_holds_current_request.

Theorem C36_at_most_once_delivery :
  forall cp tr s, drun (init cp) tr = Some s -> NoDup (recv_ids_tr tr).
Proof. exact at_most_once_delivery_proof. Qed.
Print Assumptions C36_at_most_once_delivery.

Theorem C36_reply_without_discipline_refuted : ~ reply_any_trace_full.
Proof. exact reply_any_trace_refuted. Qed.
Print Assumptions C36_reply_without_discipline_refuted.

Example C36_discipline_satisfiable :
  exists s, drun (init (mkCaps 2 2 5)) roundtrip_trace = Some s /\ recv_ids_tr roundtrip_trace = [1; 2].
Proof. exact roundtrip_disciplined. Qed.
Print Assumptions C36_discipline_satisfiable.

Example C36_discipline_satisfiable_two_subscriptions :
  exists s, drun (init (mkCaps 2 2 5)) two_subs_trace = Some s /\ recv_ids_tr two_subs_trace = [1; 2]
            /\ subs_of s 0 = [0; 1].
Proof. exact two_subs_disciplined. Qed.
Print Assumptions C36_discipline_satisfiable_two_subscriptions.

Theorem C36_after_close_errors : ProofsExt.after_close_errors_stmt.
Proof. exact ProofsExt.after_close_errors_proof. Qed.
Print Assumptions C36_after_close_errors.

Theorem C36_queue_close_closes_topics :
  forall s s' t tr s2, step s ECloseQueue = Some s' -> s_qclosed s = false -> In t (map fst (s_topics s)) ->
    run s' tr = Some s2 -> t_closed (gt s2 t) = true.
Proof. exact queue_close_topics. Qed.
Print Assumptions C36_queue_close_closes_topics.

Theorem C36_close_call_closes :
  forall cp tr s c s1, run (init cp) tr = Some s ->
    (step s (ECloseNoop c) = Some s1
     \/ exists s0 tr' s0', step s (ECloseBegin c) = Some s0 /\ run s0 tr' = Some s0' /\ step s0' (ECloseEnd c) = Some s1) ->
    forall tr2 s2, run s1 tr2 = Some s2 ->
      (forall o hi m r s3, step s2 (ESend c o hi m r) = Some s3 -> is_err r = true)
      /\ (forall p o hi m, step s2 (EBlock p c o hi m) = None).
Proof. exact close_call_closes_proof. Qed.
Print Assumptions C36_close_call_closes.

Theorem C36_close_call_sets_closed :
  forall s c s1, close_returned s c s1 -> c_closed (gc s1 c) = true.
Proof. exact close_returned_closed. Qed.
Print Assumptions C36_close_call_sets_closed.

Example C36_never_subscribed_client_closes :
  exists s s1, run (init (mkCaps 2 2 5)) [ENew 0 0 1] = Some s
    /\ c_pump (gc s 0) = PNone
    /\ close_returned s 0 s1
    /\ step s1 (ESend 0 0 true MForever SErrClient) = Some s1
    /\ step s1 (ESend 0 0 true MForever SOk) = None
    /\ step s1 (ERecvClosed 0) = Some s1
    /\ (exists s2, step s1 (EWait 0 0 false WClient) = Some s2).
Proof. exact never_subscribed_close_runs. Qed.
Print Assumptions C36_never_subscribed_client_closes.

Theorem C36_after_close_parked_send_returns_error_refuted : ~ parked_send_returns_error_full.
Proof. exact parked_send_returns_error_refuted. Qed.
Print Assumptions C36_after_close_parked_send_returns_error_refuted.

Theorem C36_after_close_parked_send_returns_error_partial :
  forall cp tr s p pd, grun bdisc (init cp) tr = Some s -> s_qclosed s = true ->
    pend_get p (s_pend s) = Some pd ->
    exists r s2, is_err r = true /\ step s (EUnblock p r) = Some s2 /\ pend_get p (s_pend s2) = None.
Proof. exact parked_send_returns_error_proof. Qed.
Print Assumptions C36_after_close_parked_send_returns_error_partial.

Theorem C36_after_close_no_block_forever_partial :
  forall cp tr s p pd, grun bdisc (init cp) tr = Some s -> s_qclosed s = true ->
    pend_get p (s_pend s) = Some pd ->
    exists tr2 s2, run s tr2 = Some s2 /\ pend_get p (s_pend s2) = None.
Proof. exact no_block_forever_proof. Qed.
Print Assumptions C36_after_close_no_block_forever_partial.

Theorem C36_atomic_queue_close_meets_guard :
  forall cp tr s, forallb (fun e => match e with ECloseQBegin => false | _ => true end) tr = true ->
    run (init cp) tr = Some s -> grun bdisc (init cp) tr = Some s.
Proof. exact bdisc_atomic_init. Qed.
Print Assumptions C36_atomic_queue_close_meets_guard.

Example C36_send_parked_inside_queue_close_never_woken :
  exists s, run (init (mkCaps 1 1 5)) late_park_trace = Some s
            /\ s_qclosed s = true /\ t_closed (gt s 7) = false
            /\ pend_get 9 (s_pend s) = Some (mkP 1 1 true false 7)
            /\ forall r, is_err r = true -> step s (EUnblock 9 r) = None.
Proof. exact late_park_runs. Qed.
Print Assumptions C36_send_parked_inside_queue_close_never_woken.

Example C36_parked_low_sender_woken :
  exists s s2, run (init witness_caps) witness_trace = Some s
            /\ s_qclosed s = true /\ c_closed (gc s 0) = true /\ close_done s 0 = true
            /\ pend_get 7 (s_pend s) = Some (mkP 1 3 false false 0)
            /\ fspace (lcap (s_caps s)) (t_low (gt s 0)) = false
            /\ step s (EUnblock 7 SOk) = None
            /\ step s (EUnblock 7 SErrChan) = Some s2 /\ s_pend s2 = [].
Proof. exact witness_runs. Qed.
Print Assumptions C36_parked_low_sender_woken.

Example C36_parked_high_sender_woken :
  exists s pd s2, run (init (mkCaps 1 1 5))
                 [ENew 0 0 1; ESend 1 0 true MNow SOk; ENew 1 0 2; EBlock 9 1 1 true MForever; ECloseQueue] = Some s
               /\ s_qclosed s = true /\ pend_get 9 (s_pend s) = Some pd /\ p_high pd = true
               /\ step s (EUnblock 9 SErrChan) = Some s2 /\ s_pend s2 = [].
Proof. exact high_sender_woken_runs. Qed.
Print Assumptions C36_parked_high_sender_woken.

Example C36_bulk_fill_agrees :
  forallb (fun n => same_view (C36.Check.bulk_fill n (init (mkCaps 2 30 5)) 1 0 3 7)
                              (C36.Check.fill (N.to_nat n) 8%nat 0%nat (init (mkCaps 2 30 5)) 1 0 3 7))
          [1; 2; 5; 17; 30; 31] = true.
Proof. exact bulk_fill_agrees. Qed.
Print Assumptions C36_bulk_fill_agrees.

(** *** the extension: exact wait condition *)
Theorem C36_wait_returns_iff :
  forall s c o timed,
    (exists r s', step s (EWait c o timed r) = Some s') <-> wait_returns_guard s c o timed = true.
Proof. exact wait_enabled_iff. Qed.
Print Assumptions C36_wait_returns_iff.

(** *** finding 3: several subscriptions of one client *)
Theorem C36_closed_subscriber_topics_closed_refuted : ~ closed_subscriber_topics_closed_full.
Proof. exact closed_subscriber_topics_closed_refuted. Qed.
Print Assumptions C36_closed_subscriber_topics_closed_refuted.

Theorem C36_closed_subscriber_topics_closed_partial :
  forall cp tr s c s1, run (init cp) tr = Some s -> close_returned s c s1 ->
    single_sub s1 c = true ->
    forall tr2 s2, run s1 tr2 = Some s2 ->
    forall t, In t (subs_of s1 c) -> t_closed (gt s2 t) = true.
Proof. exact closed_subscriber_topics_closed_partial. Qed.
Print Assumptions C36_closed_subscriber_topics_closed_partial.

Theorem C36_closed_subscriber_last_topic_closed :
  forall cp tr s c s1, run (init cp) tr = Some s -> close_returned s c s1 ->
    c_pump (gc s1 c) <> PNone ->
    forall tr2 s2, run s1 tr2 = Some s2 ->
      t_closed (gt s2 (last_of s1 c)) = true
      /\ (forall c' o hi m r s3, o_topic (go s2 o) = last_of s1 c ->
            step s2 (ESend c' o hi m r) = Some s3 -> is_err r = true)
      /\ (forall c' o timed, o_topic (go s2 o) = last_of s1 c ->
            exists r s3, step s2 (EWait c' o timed r) = Some s3).
Proof. exact closed_subscriber_last_topic_closed. Qed.
Print Assumptions C36_closed_subscriber_last_topic_closed.

Example C36_two_topic_subscriber_leaves_topic_open :
  exists s s1 s2, run (init (mkCaps 2 2 5)) two_topics_trace = Some s
    /\ step s (ECloseEnd 0) = Some s1
    /\ subs_of s1 0 = [0; 1] /\ last_of s1 0 = 1
    /\ t_closed (gt s1 1) = true /\ t_closed (gt s1 0) = false
    /\ close_done s1 0 = true
    /\ run s1 two_topics_after = Some s2
    /\ f_len (t_high (gt s2 0)) = 1
    /\ (forall r, step s2 (EWait 1 0 false r) = None)
    /\ step s2 (EPumpTake 0 true) = None /\ step s2 (EXTake 0 true) = None.
Proof. exact two_topics_runs. Qed.
Print Assumptions C36_two_topic_subscriber_leaves_topic_open.

Example C36_single_sub_satisfiable :
  exists s s1, run (init (mkCaps 2 2 5)) [ESub 0 3] = Some s
    /\ close_returned s 0 s1 /\ single_sub s1 0 = true /\ subs_of s1 0 = [3] /\ t_closed (gt s1 3) = true.
Proof. exact one_topic_runs. Qed.
Print Assumptions C36_single_sub_satisfiable.

(** *** finding 4: overlapping Close calls *)
Theorem C36_close_never_panics_refuted : ~ close_never_panics_full.
Proof. exact close_never_panics_refuted. Qed.
Print Assumptions C36_close_never_panics_refuted.

Theorem C36_close_never_panics_partial :
  forall s c, close_in_progress s c = false ->
    step s (EClosePanic c) = None
    /\ ((exists s1, step s (ECloseNoop c) = Some s1) \/ (exists s1, step s (ECloseBegin c) = Some s1)).
Proof. exact close_no_overlap_no_panic. Qed.
Print Assumptions C36_close_never_panics_partial.

Theorem C36_close_panics_iff_overlap :
  forall s c, (exists s1, step s (EClosePanic c) = Some s1) <-> close_in_progress s c = true.
Proof. exact close_panic_iff. Qed.
Print Assumptions C36_close_panics_iff_overlap.

Example C36_overlapping_close_panics :
  exists s, run (init (mkCaps 2 2 1)) overlap_trace = Some s
            /\ close_in_progress s 0 = true
            /\ step s (ECloseEnd 0) = None /\ step s (EPumpPut 0) = None /\ step s (EPumpExit 0) = None
            /\ step s (EClosePanic 0) = Some s.
Proof. exact overlap_runs. Qed.
Print Assumptions C36_overlapping_close_panics.

Example C36_sequential_closes_satisfiable :
  exists s s1 s2, run (init (mkCaps 2 2 5)) [ESub 0 0; ECloseBegin 0; EPumpTake 0 true; ECloseEnd 0] = Some s
    /\ close_in_progress s 0 = false /\ step s (ECloseNoop 0) = Some s1
    /\ run (init (mkCaps 2 2 5)) [ESub 0 0] = Some s2 /\ close_in_progress s2 0 = false
    /\ step s2 (EClosePanic 0) = None.
Proof. exact sequential_closes_run. Qed.
Print Assumptions C36_sequential_closes_satisfiable.

(** *** former finding 5 (repaired): the sentinel look-alike is an ordinary message *)
Theorem C36_pump_stops_only_on_close :
  forall cp tr s, run (init cp) tr = Some s ->
    (forall c, c_pump (gc s c) = PExit -> t_closed (gt s (c_topic (gc s c))) = true \/ c_closing (gc s c) = true)
    /\ (forall k, x_st (gx s k) = PExit ->
          t_closed (gt s (x_topic (gx s k))) = true \/ c_closing (gc s (x_client (gx s k))) = true).
Proof. exact pump_stops_only_on_close_proof. Qed.
Print Assumptions C36_pump_stops_only_on_close.

Theorem C36_running_pump_takes :
  forall s c, c_pump (gc s c) = PRun -> c_hold (gc s c) = None ->
    fis_empty (t_high (gt s (c_topic (gc s c)))) = false ->
    exists s', step s (EPumpTake c true) = Some s'.
Proof. exact running_pump_takes. Qed.
Print Assumptions C36_running_pump_takes.

Example C36_lookalike_is_delivered :
  exists s, run (init (mkCaps 2 2 5)) lookalike_trace = Some s
    /\ c_pump (gc s 0) = PRun /\ t_closed (gt s 0) = false
    /\ c_held (gc s 0) = [(1, 1); (0, 0)] /\ s_deliv s = [1; 0].
Proof. exact lookalike_runs. Qed.
Print Assumptions C36_lookalike_is_delivered.

(** *** finding 6: topics created inside a closed queue *)
Theorem C36_closed_queue_no_open_topic_refuted : ~ closed_queue_no_open_topic_full.
Proof. exact closed_queue_no_open_topic_refuted. Qed.
Print Assumptions C36_closed_queue_no_open_topic_refuted.

Theorem C36_closed_queue_no_open_topic_partial :
  forall cp tr s, grun qdisc (init cp) tr = Some s -> s_qclosing s = true ->
    forall t, In t (map fst (s_topics s)) -> t_closed (gt s t) = true.
Proof. exact closed_queue_no_open_topic_proof. Qed.
Print Assumptions C36_closed_queue_no_open_topic_partial.

Theorem C36_wait_after_queue_close_refuted : ~ wait_after_queue_close_full.
Proof. exact wait_after_queue_close_refuted. Qed.
Print Assumptions C36_wait_after_queue_close_refuted.

Theorem C36_wait_after_queue_close_partial :
  forall cp tr s, grun qdisc (init cp) tr = Some s -> s_qclosed s = true ->
    forall c o timed, topic_known s (o_topic (go s o)) = true ->
      exists r s', step s (EWait c o timed r) = Some s'.
Proof. exact wait_after_queue_close_proof. Qed.
Print Assumptions C36_wait_after_queue_close_partial.

Theorem C36_known_topic_wait_returns :
  forall cp tr s0 s1, run (init cp) tr = Some s0 -> s_qclosing s0 = false ->
    (step s0 ECloseQueue = Some s1 \/ step s0 ECloseQBegin = Some s1) ->
    forall tr2 s2, run s1 tr2 = Some s2 ->
    forall t, topic_known s0 t = true ->
      t_closed (gt s2 t) = true
      /\ forall c o timed, o_topic (go s2 o) = t -> exists r s3, step s2 (EWait c o timed r) = Some s3.
Proof. exact known_topic_wait_returns. Qed.
Print Assumptions C36_known_topic_wait_returns.

Example C36_send_racing_queue_close :
  exists s, run (init (mkCaps 2 2 5)) race_trace = Some s
            /\ s_qclosed s = true /\ In 7 (map fst (s_topics s)) /\ t_closed (gt s 7) = false
            /\ f_len (t_high (gt s 7)) = 1
            /\ forall r, step s (EWait 1 0 false r) = None.
Proof. exact race_runs. Qed.
Print Assumptions C36_send_racing_queue_close.

Example C36_late_topic_wait_blocks :
  exists s, run (init (mkCaps 2 2 5)) late_wait_trace = Some s
            /\ s_qclosed s = true /\ In 7 (map fst (s_topics s)) /\ t_closed (gt s 7) = false
            /\ forall r, step s (EWait 1 0 false r) = None.
Proof. exact late_wait_runs. Qed.
Print Assumptions C36_late_topic_wait_blocks.

Example C36_topic_guard_satisfiable :
  exists s, grun qdisc (init (mkCaps 2 2 5)) guarded_close_trace = Some s
            /\ s_qclosed s = true /\ map fst (s_topics s) = [0] /\ t_closed (gt s 0) = true.
Proof. exact guarded_close_runs. Qed.
Print Assumptions C36_topic_guard_satisfiable.
