From Coq Require Import List NArith Bool.
From C33 Require Import C36.Model C36.ProofsBase C36.ProofsClose C36.ProofsBlock C36.ProofsMain.
Import ListNotations.
Open Scope N_scope.

Theorem C36_reply_to_own_request :
  forall cp tr s, drun (init cp) tr = Some s ->
  forall c o timed r s', step s (EWait c o timed (WGot r)) = Some s' ->
    r = RClosed \/ r = RFor (o_id (go s o)).
Proof. exact reply_to_own_request_proof. Qed.
Print Assumptions C36_reply_to_own_request.

Theorem C36_responder_holds_current_request :
  forall cp tr s, drun (init cp) tr = Some s ->
  forall c o i, In (o, i) (c_held (gc s c)) -> i = o_id (go s o) /\ o_pool (go s o) = false.
Proof. exact responder_holds_current_proof. Qed.
Print Assumptions C36_responder_holds_current_request.

Theorem C36_at_most_once_delivery :
  forall cp tr s, drun (init cp) tr = Some s -> NoDup (recv_ids_tr tr).
Proof. exact at_most_once_delivery_proof. Qed.
Print Assumptions C36_at_most_once_delivery.

Theorem C36_reply_without_discipline_refuted : ~ reply_any_trace_full.
Proof. exact reply_any_trace_refuted. Qed.
Print Assumptions C36_reply_without_discipline_refuted.

Example C36_discipline_satisfiable :
  exists s, drun (init (mkCaps 2 2 5)) roundtrip_trace = Some s /\ recv_ids_tr roundtrip_trace = [1; 2].
Proof. exact roundtrip_disciplined. Qed.
Print Assumptions C36_discipline_satisfiable.

Theorem C36_after_close_errors : after_close_errors_stmt.
Proof. exact after_close_errors_proof. Qed.
Print Assumptions C36_after_close_errors.

Theorem C36_queue_close_closes_topics :
  forall s s' t tr s2, step s ECloseQueue = Some s' -> s_qclosed s = false -> In t (map fst (s_topics s)) ->
    run s' tr = Some s2 -> t_closed (gt s2 t) = true.
Proof. exact queue_close_topics. Qed.
Print Assumptions C36_queue_close_closes_topics.

Theorem C36_close_call_closes :
  forall cp tr s c s1, run (init cp) tr = Some s ->
    (step s (ECloseNoop c) = Some s1
     \/ exists s0 tr' s0', step s (ECloseBegin c) = Some s0 /\ run s0 tr' = Some s0' /\ step s0' (ECloseEnd c) = Some s1) ->
    forall tr2 s2, run s1 tr2 = Some s2 ->
      (forall o hi m r s3, step s2 (ESend c o hi m r) = Some s3 -> is_err r = true)
      /\ (forall p o hi m, step s2 (EBlock p c o hi m) = None).
Proof. exact close_call_closes_proof. Qed.
Print Assumptions C36_close_call_closes.

Theorem C36_close_call_sets_closed :
  forall s c s1, close_returned s c s1 -> c_closed (gc s1 c) = true.
Proof. exact close_returned_closed. Qed.
Print Assumptions C36_close_call_sets_closed.

Example C36_never_subscribed_client_closes :
  exists s s1, run (init (mkCaps 2 2 5)) [ENew 0 0 1] = Some s
    /\ c_pump (gc s 0) = PNone
    /\ close_returned s 0 s1
    /\ step s1 (ESend 0 0 true MForever SErrClient) = Some s1
    /\ step s1 (ESend 0 0 true MForever SOk) = None
    /\ step s1 (ERecvClosed 0) = Some s1
    /\ (exists s2, step s1 (EWait 0 0 false WClient) = Some s2).
Proof. exact never_subscribed_close_runs. Qed.
Print Assumptions C36_never_subscribed_client_closes.

Theorem C36_after_close_no_block_forever :
  forall cp tr s p pd, run (init cp) tr = Some s -> s_qclosed s = true ->
    pend_get p (s_pend s) = Some pd ->
    exists tr2 s2, run s tr2 = Some s2 /\ pend_get p (s_pend s2) = None.
Proof. exact no_block_forever_proof. Qed.
Print Assumptions C36_after_close_no_block_forever.

Theorem C36_after_close_parked_send_returns_error :
  forall cp tr s p pd, run (init cp) tr = Some s -> s_qclosed s = true ->
    pend_get p (s_pend s) = Some pd ->
    exists r s2, is_err r = true /\ step s (EUnblock p r) = Some s2 /\ pend_get p (s_pend s2) = None.
Proof. exact parked_send_returns_error_proof. Qed.
Print Assumptions C36_after_close_parked_send_returns_error.

Example C36_parked_low_sender_woken :
  exists s s2, run (init witness_caps) witness_trace = Some s
            /\ s_qclosed s = true /\ c_closed (gc s 0) = true /\ close_done s 0 = true
            /\ pend_get 7 (s_pend s) = Some (mkP 1 3 false false 0)
            /\ fspace (lcap (s_caps s)) (t_low (gt s 0)) = false
            /\ step s (EUnblock 7 SOk) = None
            /\ step s (EUnblock 7 SErrChan) = Some s2 /\ s_pend s2 = [].
Proof. exact witness_runs. Qed.
Print Assumptions C36_parked_low_sender_woken.

Example C36_parked_high_sender_woken :
  exists s pd s2, run (init (mkCaps 1 1 5))
                 [ENew 0 0 1; ESend 1 0 true MNow SOk; ENew 1 0 2; EBlock 9 1 1 true MForever; ECloseQueue] = Some s
               /\ s_qclosed s = true /\ pend_get 9 (s_pend s) = Some pd /\ p_high pd = true
               /\ step s (EUnblock 9 SErrChan) = Some s2 /\ s_pend s2 = [].
Proof. eexists _, _, _. repeat split; vm_compute; reflexivity. Qed.
Print Assumptions C36_parked_high_sender_woken.

Example C36_bulk_fill_agrees :
  forallb (fun n => same_view (C36.Check.bulk_fill n (init (mkCaps 2 30 5)) 1 0 3 7)
                              (C36.Check.fill (N.to_nat n) 8%nat 0%nat (init (mkCaps 2 30 5)) 1 0 3 7))
          [1; 2; 5; 17; 30; 31] = true.
Proof. exact bulk_fill_agrees. Qed.
Print Assumptions C36_bulk_fill_agrees.
