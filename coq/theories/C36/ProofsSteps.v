(** C36 — inversion lemmas: what a successful step of each reference-moving event did. *)
From Coq Require Import List NArith Bool Lia.
From C33 Require Import C36.Model C36.ProofsBase.
Import ListNotations.
Open Scope N_scope.

Lemma step_pump_take s c hi s' :
  step s (EPumpTake c hi) = Some s' ->
  let cl := gc s c in let T := c_topic cl in let tp := gt s T in
  c_hold cl = None /\
  exists x f', fpop (chan_of tp hi) = Some (x, f') /\
    s' = match x with
         | ISent => sc (st s T (set_chan tp hi f')) c (set_pump cl PExit None)
         | IMsg o => set_where (sc (st s T (set_chan tp hi f')) c (set_pump cl PRun (Some x))) o (PHold c)
         end.
Proof.
  intros H. step_inv H; simpl; split; auto; eexists _, _; (split; [eassumption|]);
    reflexivity.
Qed.

Lemma step_xtake s k hi s' :
  step s (EXTake k hi) = Some s' ->
  let xp := gx s k in let T := x_topic xp in let tp := gt s T in
  x_hold xp = None /\
  exists x f', fpop (chan_of tp hi) = Some (x, f') /\
    s' = match x with
         | ISent => sx (st s T (set_chan tp hi f')) k (set_xp xp PExit None)
         | IMsg o => set_where (sx (st s T (set_chan tp hi f')) k (set_xp xp PRun (Some x))) o (PXHold k)
         end.
Proof.
  intros H. step_inv H; simpl; split; auto; eexists _, _; (split; [eassumption|]);
    reflexivity.
Qed.

Lemma step_xput s k s' :
  step s (EXPut k) = Some s' ->
  let xp := gx s k in let c := x_client xp in let cl := gc s c in
  exists x, x_hold xp = Some x /\
    s' = item_where (sx (sc s c (mkC (fpush x (c_recv cl)) (c_hold cl) (c_pump cl) (c_topic cl) (c_closing cl) (c_closed cl) (c_held cl)))
                        k (set_xp xp (x_st xp) None)) x (PRecv c).
Proof. intros H. step_inv H; simpl; eexists; split; eauto. Qed.

Lemma step_pump_put s c s' :
  step s (EPumpPut c) = Some s' ->
  let cl := gc s c in
  exists x, c_hold cl = Some x /\
    s' = item_where (sc s c (mkC (fpush x (c_recv cl)) None (c_pump cl) (c_topic cl) (c_closing cl) (c_closed cl) (c_held cl))) x (PRecv c).
Proof. intros H. step_inv H; simpl; eexists; split; eauto. Qed.

Lemma step_recv s c o i s' :
  step s (ERecv c o i) = Some s' ->
  let cl := gc s c in
  i = o_id (go s o) /\
  exists f', fpop (c_recv cl) = Some (IMsg o, f') /\
    s' = sd (set_where (sc s c (mkC f' (c_hold cl) (c_pump cl) (c_topic cl) (c_closing cl) (c_closed cl) ((o, i) :: c_held cl))) o (PHeld c)) i.
Proof.
  intros H. step_inv H. bool_hyps.
  match goal with H1 : (o =? _) = true, H2 : (i =? _) = true |- _ => apply N.eqb_eq in H1, H2; subst end.
  simpl. split; auto. eexists; split; eauto.
Qed.

Lemma step_reply s c o i s' :
  step s (EReply c o i) = Some s' ->
  let cl := gc s c in let ob := go s o in
  mem_pair o i (c_held cl) = true /\ o_slot ob = None /\
  s' = so (sc s c (mkC (c_recv cl) (c_hold cl) (c_pump cl) (c_topic cl) (c_closing cl) (c_closed cl) (remove_pair o i (c_held cl))))
          o (mkO (o_id ob) (o_topic ob) (Some (RFor i)) (o_pool ob) (o_sent ob) P0).
Proof. intros H. step_inv H. simpl. auto. Qed.

Lemma step_drain s c s' :
  step s (EDrain c) = Some s' ->
  let cl := gc s c in
  c_hold cl = None /\
  exists x f', fpop (c_recv cl) = Some (x, f') /\
    s' = item_where (sc s c (mkC f' (Some x) (c_pump cl) (c_topic cl) (c_closing cl) true (c_held cl))) x (PHold c).
Proof. intros H. step_inv H. simpl. split; auto. eexists _, _; split; eauto. Qed.

Lemma step_drain_reply s c s' :
  step s (EDrainReply c) = Some s' ->
  let cl := gc s c in
  let cl' := mkC (c_recv cl) None (c_pump cl) (c_topic cl) (c_closing cl) true (c_held cl) in
  (c_hold cl = Some ISent /\ s' = sc s c cl') \/
  (exists o, c_hold cl = Some (IMsg o) /\ o_slot (go s o) = None /\
     s' = so (sc s c cl') o (mkO (o_id (go s o)) (o_topic (go s o)) (Some RClosed) (o_pool (go s o)) (o_sent (go s o)) P0)).
Proof. intros H. step_inv H; simpl; [right; eexists; eauto|left; auto]. Qed.

Lemma step_send_ok s c o hi m s' :
  step s (ESend c o hi m SOk) = Some s' ->
  let t := o_topic (go s o) in s' = enqueue (touch s t) t o hi.
Proof.
  intros H. unfold step in H. break_match_hyp H; try (injection H as <-; reflexivity).
  exfalso. unfold pre_check in *. break_match_hyp E; injection E as <-; discriminate.
Qed.

Lemma step_block s p c o hi m s' :
  step s (EBlock p c o hi m) = Some s' ->
  let t := o_topic (go s o) in
  pend_get p (s_pend s) = None /\
  exists timed, s' = set_parked (sp (touch s t) ((p, mkP c o hi timed t) :: s_pend s)) o true (PPend p).
Proof. intros H. step_inv H; simpl; split; auto; eexists; reflexivity. Qed.

Lemma step_unblock s p r s' :
  step s (EUnblock p r) = Some s' ->
  exists pd, pend_get p (s_pend s) = Some pd /\
    let s1 := sp s (pend_del p (s_pend s)) in
    (r = SOk /\ s' = enqueue s1 (p_topic pd) (p_obj pd) (p_high pd)) \/
    (r <> SOk /\ s' = set_parked s1 (p_obj pd) false P0).
Proof.
  intros H. destruct r; step_inv H; eexists; (split; [reflexivity|]); simpl;
    first [left; split; [reflexivity|reflexivity] | right; split; [discriminate|reflexivity]].
Qed.

Lemma step_wait_got s c o timed x s' :
  step s (EWait c o timed (WGot x)) = Some s' ->
  let ob := go s o in
  o_slot ob = Some x /\
  s' = so (touch s (o_topic ob)) o (mkO (o_id ob) (o_topic ob) None (o_pool ob) (o_sent ob) (o_where ob)).
Proof.
  intros H. step_inv H. simpl.
  destruct x, r; simpl in *; try discriminate; try (apply N.eqb_eq in E0; subst); auto.
Qed.
