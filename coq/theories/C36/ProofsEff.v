(** C36 — how the elementary state updates act on the views (which objects are referenced
    from where). *)
From Coq Require Import List NArith Bool Lia.
From C33 Require Import C36.Model C36.ProofsBase C36.ProofsOcc.
Import ListNotations.
Open Scope N_scope.

(** views only look at gt / gc / s_pend *)
Lemma vchan_ext s s' t hi : gt s' t = gt s t -> vchan s' t hi = vchan s t hi.
Proof. unfold vchan; intros ->; reflexivity. Qed.
Lemma vrecv_ext s s' c : gc s' c = gc s c -> vrecv s' c = vrecv s c.
Proof. unfold vrecv; intros ->; reflexivity. Qed.
Lemma vhold_ext s s' c : gc s' c = gc s c -> vhold s' c = vhold s c.
Proof. unfold vhold; intros ->; reflexivity. Qed.
Lemma vheld_ext s s' c : gc s' c = gc s c -> vheld s' c = vheld s c.
Proof. unfold vheld; intros ->; reflexivity. Qed.
Lemma vxhold_ext s s' k : gx s' k = gx s k -> vxhold s' k = vxhold s k.
Proof. unfold vxhold; intros ->; reflexivity. Qed.
Lemma vxhold_sx s k v k' :
  vxhold (sx s k v) k' = if k' =? k then match x_hold v with Some (IMsg o) => [o] | _ => [] end else vxhold s k'.
Proof. unfold vxhold. rewrite gx_sx. destruct (k' =? k); reflexivity. Qed.

(** updates of objects / ids / delivered list do not change any view *)
Lemma views_so s o v :
  (forall t hi, vchan (so s o v) t hi = vchan s t hi) /\ (forall c, vrecv (so s o v) c = vrecv s c)
  /\ (forall c, vhold (so s o v) c = vhold s c) /\ (forall c, vheld (so s o v) c = vheld s c)
  /\ vpend (so s o v) = vpend s /\ (forall k, vxhold (so s o v) k = vxhold s k).
Proof. repeat split. Qed.

Lemma vchan_st s t v t' hi :
  vchan (st s t v) t' hi = if t' =? t then objs_of (f_items (chan_of v hi)) else vchan s t' hi.
Proof. unfold vchan. rewrite gt_st. destruct (t' =? t); reflexivity. Qed.

Lemma vchan_touch s t t' hi : vchan (touch s t) t' hi = vchan s t' hi.
Proof. apply vchan_ext, gt_touch. Qed.

Lemma vrecv_sc s c v c' : vrecv (sc s c v) c' = if c' =? c then objs_of (f_items (c_recv v)) else vrecv s c'.
Proof. unfold vrecv. rewrite gc_sc. destruct (c' =? c); reflexivity. Qed.
Lemma vhold_sc s c v c' :
  vhold (sc s c v) c' = if c' =? c then match c_hold v with Some (IMsg o) => [o] | _ => [] end else vhold s c'.
Proof. unfold vhold. rewrite gc_sc. destruct (c' =? c); reflexivity. Qed.
Lemma vheld_sc s c v c' : vheld (sc s c v) c' = if c' =? c then map fst (c_held v) else vheld s c'.
Proof. unfold vheld. rewrite gc_sc. destruct (c' =? c); reflexivity. Qed.

Lemma vchan_set_chan tp hi f h :
  objs_of (f_items (chan_of (set_chan tp hi f) h)) =
  if Bool.eqb h hi then objs_of (f_items f) else objs_of (f_items (chan_of tp h)).
Proof. destruct hi, h; reflexivity. Qed.

(** closing a topic only adds sentinels *)
Lemma vchan_close_topic cp tp h :
  objs_of (f_items (chan_of (close_topic_rec cp tp) h)) = objs_of (f_items (chan_of tp h)).
Proof.
  unfold close_topic_rec. destruct (t_closed tp); [reflexivity|].
  destruct h; simpl; [destruct (fspace (hcap cp) (t_high tp))|destruct (fspace (lcap cp) (t_low tp))]; reflexivity.
Qed.

Lemma aget_map_close_view_gen cp t m h :
  objs_of (f_items (chan_of (aget topic0 t (map (fun kv => (fst kv, close_topic_rec cp (snd kv))) m)) h))
  = objs_of (f_items (chan_of (aget topic0 t m) h)).
Proof.
  induction m as [|[k v] m IH]; simpl; [reflexivity|].
  destruct (t =? k); [apply vchan_close_topic|apply IH].
Qed.
Lemma aget_map_close_view s t h :
  objs_of (f_items (chan_of (aget topic0 t (close_all s)) h)) = objs_of (f_items (chan_of (gt s t) h)).
Proof. apply aget_map_close_view_gen. Qed.

(** popping *)
Lemma fpop_objs f x f' :
  fpop f = Some (x, f') ->
  objs_of (f_items f) = objs_of (f_items f') ++ match x with IMsg o => [o] | ISent => [] end.
Proof.
  intros H. rewrite (fpop_items _ _ _ H), objs_of_app. destruct x; reflexivity.
Qed.

(** pending list *)
Lemma vpend_del_in p q o l :
  In (q, o) (map (fun x => (fst x, p_obj (snd x))) (pend_del p l)) ->
  In (q, o) (map (fun x => (fst x, p_obj (snd x))) l).
Proof.
  induction l as [|[p' x] l IH]; simpl; [auto|].
  destruct (p =? p'); simpl; intuition.
Qed.

Lemma pend_del_keys_nodup p l :
  NoDup (map fst l) -> NoDup (map fst (pend_del p l)) /\ ~ In p (map fst (pend_del p l)).
Proof.
  induction l as [|[p' x] l IH]; simpl; intros H; [split; [constructor|tauto]|].
  inversion H as [|? ? Hn Hd]; subst.
  destruct (p =? p') eqn:E.
  - apply N.eqb_eq in E; subst p'. split; assumption.
  - apply N.eqb_neq in E. destruct (IH Hd) as [H1 H2]. simpl. split.
    + constructor; [|exact H1]. intros Hin. apply Hn.
      clear -Hin. induction l as [|[q y] l IH]; simpl in *; [tauto|].
      destruct (p =? q); simpl in *; intuition.
    + intros [Heq|Hin]; [congruence|tauto].
Qed.

Lemma pend_get_none_keys p l : pend_get p l = None -> ~ In p (map fst l).
Proof.
  induction l as [|[p' x] l IH]; simpl; [tauto|].
  destruct (p =? p') eqn:E; [discriminate|]. apply N.eqb_neq in E.
  intros H [Heq|Hin]; [congruence|exact (IH H Hin)].
Qed.

Lemma vpend_keys s : map fst (vpend s) = map fst (s_pend s).
Proof. unfold vpend. rewrite map_map. reflexivity. Qed.

Lemma pend_get_vpend p l pd :
  pend_get p l = Some pd -> In (p, p_obj pd) (map (fun x => (fst x, p_obj (snd x))) l).
Proof.
  induction l as [|[p' x] l IH]; simpl; [discriminate|].
  destruct (p =? p') eqn:E; [apply N.eqb_eq in E; subst; intros [= ->]; auto|auto].
Qed.

(** held list *)
Lemma remove_pair_in o i o' l : In o' (map fst (remove_pair o i l)) -> In o' (map fst l).
Proof.
  induction l as [|[a b] l IH]; simpl; [auto|].
  destruct ((o =? a) && (i =? b)); simpl; intuition.
Qed.
Lemma remove_pair_in2 o i x l : In x (remove_pair o i l) -> In x l.
Proof.
  induction l as [|[a b] l IH]; simpl; [auto|].
  destruct ((o =? a) && (i =? b)); simpl; intuition.
Qed.
Lemma remove_pair_nodup o i l :
  NoDup (map fst l) -> mem_pair o i l = true ->
  NoDup (map fst (remove_pair o i l)) /\ ~ In o (map fst (remove_pair o i l)).
Proof.
  induction l as [|[a b] l IH]; simpl; intros H Hm; [discriminate|].
  inversion H as [|? ? Hn Hd]; subst.
  destruct ((o =? a) && (i =? b)) eqn:E.
  - apply andb_true_iff in E as [E1 _]. apply N.eqb_eq in E1; subst a. split; assumption.
  - simpl in Hm. destruct (IH Hd Hm) as [H1 H2]. simpl. split.
    + constructor; [|exact H1]. intros Hin. apply Hn. eapply remove_pair_in; eauto.
    + intros [Heq|Hin]; [|tauto]. subst a. apply Hn.
      clear -Hm. induction l as [|[a b] l IH]; simpl in *; [discriminate|].
      apply orb_true_iff in Hm as [Hm|Hm]; [apply andb_true_iff in Hm as [Hm _]; apply N.eqb_eq in Hm; auto|auto].
Qed.
Lemma mem_pair_in o i l : mem_pair o i l = true -> In (o, i) l.
Proof.
  induction l as [|[a b] l IH]; simpl; [discriminate|].
  intros H. apply orb_true_iff in H as [H|H]; [|auto].
  apply andb_true_iff in H as [H1 H2]. apply N.eqb_eq in H1, H2. subst. auto.
Qed.
