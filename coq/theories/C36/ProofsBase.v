(** C36 — basic lemmas: association maps, frame rules for the state updates, fifo facts. *)
From Coq Require Import List NArith Bool Lia.
From C33 Require Import C36.Model.
Import ListNotations.
Open Scope N_scope.

Lemma aget_aset {A} (d : A) k k' v m :
  aget d k' (aset k v m) = if k' =? k then v else aget d k' m.
Proof.
  induction m as [|[k0 v0] m IH]; simpl.
  - destruct (k' =? k); reflexivity.
  - destruct (k =? k0) eqn:E; simpl.
    + apply N.eqb_eq in E; subst k0. destruct (k' =? k); reflexivity.
    + destruct (k' =? k0) eqn:E2.
      * apply N.eqb_eq in E2; subst k0.
        destruct (k' =? k) eqn:E3; [apply N.eqb_eq in E3; subst; rewrite N.eqb_refl in E; discriminate|reflexivity].
      * apply IH.
Qed.

(** *** frame rules *)
Lemma gt_st s t v t' : gt (st s t v) t' = if t' =? t then v else gt s t'.
Proof. unfold gt, st; simpl. apply aget_aset. Qed.
Lemma gc_st s t v c : gc (st s t v) c = gc s c. Proof. reflexivity. Qed.
Lemma go_st s t v o : go (st s t v) o = go s o. Proof. reflexivity. Qed.
Lemma gt_sc s c v t : gt (sc s c v) t = gt s t. Proof. reflexivity. Qed.
Lemma gc_sc s c v c' : gc (sc s c v) c' = if c' =? c then v else gc s c'.
Proof. unfold gc, sc; simpl. apply aget_aset. Qed.
Lemma go_sc s c v o : go (sc s c v) o = go s o. Proof. reflexivity. Qed.
Lemma gt_so s o v t : gt (so s o v) t = gt s t. Proof. reflexivity. Qed.
Lemma gc_so s o v c : gc (so s o v) c = gc s c. Proof. reflexivity. Qed.
Lemma go_so s o v o' : go (so s o v) o' = if o' =? o then v else go s o'.
Proof. unfold go, so; simpl. apply aget_aset. Qed.
Lemma gt_sp s l t : gt (sp s l) t = gt s t. Proof. reflexivity. Qed.
Lemma gc_sp s l c : gc (sp s l) c = gc s c. Proof. reflexivity. Qed.
Lemma go_sp s l o : go (sp s l) o = go s o. Proof. reflexivity. Qed.

Lemma gt_touch s t t' : gt (touch s t) t' = gt s t'.
Proof. unfold touch. rewrite gt_st. destruct (t' =? t) eqn:E; [apply N.eqb_eq in E; subst|]; reflexivity. Qed.
Lemma gc_touch s t c : gc (touch s t) c = gc s c. Proof. reflexivity. Qed.
Lemma go_touch s t o : go (touch s t) o = go s o. Proof. reflexivity. Qed.

Lemma gt_set_where s o w t : gt (set_where s o w) t = gt s t. Proof. reflexivity. Qed.
Lemma gc_set_where s o w c : gc (set_where s o w) c = gc s c. Proof. reflexivity. Qed.
Lemma go_set_where s o w o' :
  go (set_where s o w) o' =
  if o' =? o then mkO (o_id (go s o)) (o_topic (go s o)) (o_slot (go s o)) (o_pool (go s o)) (o_sent (go s o)) w
  else go s o'.
Proof. unfold set_where. apply go_so. Qed.
Lemma gt_set_parked s o b w t : gt (set_parked s o b w) t = gt s t. Proof. reflexivity. Qed.
Lemma gc_set_parked s o b w c : gc (set_parked s o b w) c = gc s c. Proof. reflexivity. Qed.
Lemma go_set_parked s o b w o' :
  go (set_parked s o b w) o' =
  if o' =? o then mkO (o_id (go s o)) (o_topic (go s o)) (o_slot (go s o)) (o_pool (go s o)) b w
  else go s o'.
Proof. unfold set_parked. apply go_so. Qed.
Lemma qclosed_set_parked s o b w : s_qclosed (set_parked s o b w) = s_qclosed s. Proof. reflexivity. Qed.
Lemma pend_set_parked s o b w : s_pend (set_parked s o b w) = s_pend s. Proof. reflexivity. Qed.
Lemma caps_set_parked s o b w : s_caps (set_parked s o b w) = s_caps s. Proof. reflexivity. Qed.
Lemma gt_item_where s x w t : gt (item_where s x w) t = gt s t. Proof. destruct x; reflexivity. Qed.
Lemma gc_item_where s x w c : gc (item_where s x w) c = gc s c. Proof. destruct x; reflexivity. Qed.

Lemma gt_sg s i t : gt (sg s i) t = gt s t. Proof. reflexivity. Qed.
Lemma gc_sg s i c : gc (sg s i) c = gc s c. Proof. reflexivity. Qed.
Lemma go_sg s i o : go (sg s i) o = go s o. Proof. reflexivity. Qed.
Lemma gt_sd s i t : gt (sd s i) t = gt s t. Proof. reflexivity. Qed.
Lemma gc_sd s i c : gc (sd s i) c = gc s c. Proof. reflexivity. Qed.
Lemma go_sd s i o : go (sd s i) o = go s o. Proof. reflexivity. Qed.
Lemma gt_sq s m t : gt (sq s m) t = aget topic0 t m. Proof. reflexivity. Qed.
Lemma gc_sq s m c : gc (sq s m) c = gc s c. Proof. reflexivity. Qed.
Lemma go_sq s m o : go (sq s m) o = go s o. Proof. reflexivity. Qed.
Lemma qclosed_sg s i : s_qclosed (sg s i) = s_qclosed s. Proof. reflexivity. Qed.
Lemma qclosed_sd s i : s_qclosed (sd s i) = s_qclosed s. Proof. reflexivity. Qed.
Lemma qclosed_sq s m : s_qclosed (sq s m) = true. Proof. reflexivity. Qed.
Lemma pend_sg s i : s_pend (sg s i) = s_pend s. Proof. reflexivity. Qed.
Lemma pend_sd s i : s_pend (sd s i) = s_pend s. Proof. reflexivity. Qed.
Lemma pend_sq s m : s_pend (sq s m) = s_pend s. Proof. reflexivity. Qed.
Lemma caps_sg s i : s_caps (sg s i) = s_caps s. Proof. reflexivity. Qed.
Lemma caps_sd s i : s_caps (sd s i) = s_caps s. Proof. reflexivity. Qed.
Lemma caps_sq s m : s_caps (sq s m) = s_caps s. Proof. reflexivity. Qed.

(* fields that the updates do not touch *)
Lemma qclosed_st s t v : s_qclosed (st s t v) = s_qclosed s. Proof. reflexivity. Qed.
Lemma qclosed_sc s c v : s_qclosed (sc s c v) = s_qclosed s. Proof. reflexivity. Qed.
Lemma qclosed_so s o v : s_qclosed (so s o v) = s_qclosed s. Proof. reflexivity. Qed.
Lemma qclosed_sp s l : s_qclosed (sp s l) = s_qclosed s. Proof. reflexivity. Qed.
Lemma qclosed_touch s t : s_qclosed (touch s t) = s_qclosed s. Proof. reflexivity. Qed.
Lemma qclosed_set_where s o w : s_qclosed (set_where s o w) = s_qclosed s. Proof. reflexivity. Qed.
Lemma qclosed_item_where s x w : s_qclosed (item_where s x w) = s_qclosed s. Proof. destruct x; reflexivity. Qed.
Lemma pend_st s t v : s_pend (st s t v) = s_pend s. Proof. reflexivity. Qed.
Lemma pend_sc s c v : s_pend (sc s c v) = s_pend s. Proof. reflexivity. Qed.
Lemma pend_so s o v : s_pend (so s o v) = s_pend s. Proof. reflexivity. Qed.
Lemma pend_sp s l : s_pend (sp s l) = l. Proof. reflexivity. Qed.
Lemma pend_touch s t : s_pend (touch s t) = s_pend s. Proof. reflexivity. Qed.
Lemma pend_set_where s o w : s_pend (set_where s o w) = s_pend s. Proof. reflexivity. Qed.
Lemma pend_item_where s x w : s_pend (item_where s x w) = s_pend s. Proof. destruct x; reflexivity. Qed.
Lemma caps_st s t v : s_caps (st s t v) = s_caps s. Proof. reflexivity. Qed.
Lemma caps_sc s c v : s_caps (sc s c v) = s_caps s. Proof. reflexivity. Qed.
Lemma caps_so s o v : s_caps (so s o v) = s_caps s. Proof. reflexivity. Qed.
Lemma caps_sp s l : s_caps (sp s l) = s_caps s. Proof. reflexivity. Qed.
Lemma caps_touch s t : s_caps (touch s t) = s_caps s. Proof. reflexivity. Qed.
Lemma caps_set_where s o w : s_caps (set_where s o w) = s_caps s. Proof. reflexivity. Qed.
Lemma caps_item_where s x w : s_caps (item_where s x w) = s_caps s. Proof. destruct x; reflexivity. Qed.

Global Hint Rewrite gt_st gc_st go_st gt_sc gc_sc go_sc gt_so gc_so go_so gt_sp gc_sp go_sp
  gt_touch gc_touch go_touch gt_set_where gc_set_where go_set_where gt_item_where gc_item_where
  qclosed_st qclosed_sc qclosed_so qclosed_sp qclosed_touch qclosed_set_where qclosed_item_where
  pend_st pend_sc pend_so pend_sp pend_touch pend_set_where pend_item_where
  caps_st caps_sc caps_so caps_sp caps_touch caps_set_where caps_item_where
  gt_sg gc_sg go_sg gt_sd gc_sd go_sd gt_sq gc_sq go_sq qclosed_sg qclosed_sd qclosed_sq
  pend_sg pend_sd pend_sq caps_sg caps_sd caps_sq
  gt_set_parked gc_set_parked go_set_parked qclosed_set_parked pend_set_parked caps_set_parked : frame.

(** *** frame rules for the later-subscription pumps, [s_last], [s_qclosing] and their updates *)
Lemma gx_st s t v k : gx (st s t v) k = gx s k. Proof. reflexivity. Qed.
Lemma gx_sc s c v k : gx (sc s c v) k = gx s k. Proof. reflexivity. Qed.
Lemma gx_so s o v k : gx (so s o v) k = gx s k. Proof. reflexivity. Qed.
Lemma gx_sp s l k : gx (sp s l) k = gx s k. Proof. reflexivity. Qed.
Lemma gx_sg s i k : gx (sg s i) k = gx s k. Proof. reflexivity. Qed.
Lemma gx_sd s i k : gx (sd s i) k = gx s k. Proof. reflexivity. Qed.
Lemma gx_sq s m k : gx (sq s m) k = gx s k. Proof. reflexivity. Qed.
Lemma gx_sqb s m k : gx (sqb s m) k = gx s k. Proof. reflexivity. Qed.
Lemma gx_sqe s k : gx (sqe s) k = gx s k. Proof. reflexivity. Qed.
Lemma gx_sl s c t k : gx (sl s c t) k = gx s k. Proof. reflexivity. Qed.
Lemma gx_touch s t k : gx (touch s t) k = gx s k. Proof. reflexivity. Qed.
Lemma gx_set_where s o w k : gx (set_where s o w) k = gx s k. Proof. reflexivity. Qed.
Lemma gx_set_parked s o b w k : gx (set_parked s o b w) k = gx s k. Proof. reflexivity. Qed.
Lemma gx_item_where s x w k : gx (item_where s x w) k = gx s k. Proof. destruct x; reflexivity. Qed.
Lemma gx_sx s k v k' : gx (sx s k v) k' = if k' =? k then v else gx s k'.
Proof. unfold gx, sx; simpl. apply aget_aset. Qed.

Lemma gt_sx s k v t : gt (sx s k v) t = gt s t. Proof. reflexivity. Qed.
Lemma gc_sx s k v c : gc (sx s k v) c = gc s c. Proof. reflexivity. Qed.
Lemma go_sx s k v o : go (sx s k v) o = go s o. Proof. reflexivity. Qed.
Lemma gt_sl s c x t : gt (sl s c x) t = gt s t. Proof. reflexivity. Qed.
Lemma gc_sl s c x c' : gc (sl s c x) c' = gc s c'. Proof. reflexivity. Qed.
Lemma go_sl s c x o : go (sl s c x) o = go s o. Proof. reflexivity. Qed.
Lemma gt_sqb s m t : gt (sqb s m) t = aget topic0 t m. Proof. reflexivity. Qed.
Lemma gc_sqb s m c : gc (sqb s m) c = gc s c. Proof. reflexivity. Qed.
Lemma go_sqb s m o : go (sqb s m) o = go s o. Proof. reflexivity. Qed.
Lemma gt_sqe s t : gt (sqe s) t = gt s t. Proof. reflexivity. Qed.
Lemma gc_sqe s c : gc (sqe s) c = gc s c. Proof. reflexivity. Qed.
Lemma go_sqe s o : go (sqe s) o = go s o. Proof. reflexivity. Qed.

Lemma qclosed_sx s k v : s_qclosed (sx s k v) = s_qclosed s. Proof. reflexivity. Qed.
Lemma qclosed_sl s c t : s_qclosed (sl s c t) = s_qclosed s. Proof. reflexivity. Qed.
Lemma qclosed_sqb s m : s_qclosed (sqb s m) = s_qclosed s. Proof. reflexivity. Qed.
Lemma qclosed_sqe s : s_qclosed (sqe s) = true. Proof. reflexivity. Qed.
Lemma pend_sx s k v : s_pend (sx s k v) = s_pend s. Proof. reflexivity. Qed.
Lemma pend_sl s c t : s_pend (sl s c t) = s_pend s. Proof. reflexivity. Qed.
Lemma pend_sqb s m : s_pend (sqb s m) = s_pend s. Proof. reflexivity. Qed.
Lemma pend_sqe s : s_pend (sqe s) = s_pend s. Proof. reflexivity. Qed.
Lemma caps_sx s k v : s_caps (sx s k v) = s_caps s. Proof. reflexivity. Qed.
Lemma caps_sl s c t : s_caps (sl s c t) = s_caps s. Proof. reflexivity. Qed.
Lemma caps_sqb s m : s_caps (sqb s m) = s_caps s. Proof. reflexivity. Qed.
Lemma caps_sqe s : s_caps (sqe s) = s_caps s. Proof. reflexivity. Qed.

Lemma qclosing_st s t v : s_qclosing (st s t v) = s_qclosing s. Proof. reflexivity. Qed.
Lemma qclosing_sc s c v : s_qclosing (sc s c v) = s_qclosing s. Proof. reflexivity. Qed.
Lemma qclosing_so s o v : s_qclosing (so s o v) = s_qclosing s. Proof. reflexivity. Qed.
Lemma qclosing_sp s l : s_qclosing (sp s l) = s_qclosing s. Proof. reflexivity. Qed.
Lemma qclosing_sg s i : s_qclosing (sg s i) = s_qclosing s. Proof. reflexivity. Qed.
Lemma qclosing_sd s i : s_qclosing (sd s i) = s_qclosing s. Proof. reflexivity. Qed.
Lemma qclosing_sx s k v : s_qclosing (sx s k v) = s_qclosing s. Proof. reflexivity. Qed.
Lemma qclosing_sl s c t : s_qclosing (sl s c t) = s_qclosing s. Proof. reflexivity. Qed.
Lemma qclosing_sq s m : s_qclosing (sq s m) = true. Proof. reflexivity. Qed.
Lemma qclosing_sqb s m : s_qclosing (sqb s m) = true. Proof. reflexivity. Qed.
Lemma qclosing_sqe s : s_qclosing (sqe s) = s_qclosing s. Proof. reflexivity. Qed.
Lemma qclosing_touch s t : s_qclosing (touch s t) = s_qclosing s. Proof. reflexivity. Qed.
Lemma qclosing_set_where s o w : s_qclosing (set_where s o w) = s_qclosing s. Proof. reflexivity. Qed.
Lemma qclosing_set_parked s o b w : s_qclosing (set_parked s o b w) = s_qclosing s. Proof. reflexivity. Qed.
Lemma qclosing_item_where s x w : s_qclosing (item_where s x w) = s_qclosing s. Proof. destruct x; reflexivity. Qed.

Global Hint Rewrite gx_st gx_sc gx_so gx_sp gx_sg gx_sd gx_sq gx_sqb gx_sqe gx_sl gx_touch gx_set_where gx_set_parked
  gx_item_where gx_sx gt_sx gc_sx go_sx gt_sl gc_sl go_sl gt_sqb gc_sqb go_sqb gt_sqe gc_sqe go_sqe
  qclosed_sx qclosed_sl qclosed_sqb qclosed_sqe pend_sx pend_sl pend_sqb pend_sqe caps_sx caps_sl caps_sqb caps_sqe
  qclosing_st qclosing_sc qclosing_so qclosing_sp qclosing_sg qclosing_sd qclosing_sx qclosing_sl qclosing_sq
  qclosing_sqb qclosing_sqe qclosing_touch qclosing_set_where qclosing_set_parked qclosing_item_where : frame.

Lemma enqueue_gt s t o hi t' :
  gt (enqueue s t o hi) t' =
  if t' =? t then set_chan (gt s t) hi (fpush (IMsg o) (chan_of (gt s t) hi)) else gt s t'.
Proof. unfold enqueue. rewrite gt_so, gt_st. reflexivity. Qed.
Lemma enqueue_gc s t o hi c : gc (enqueue s t o hi) c = gc s c.
Proof. reflexivity. Qed.
Lemma enqueue_qclosed s t o hi : s_qclosed (enqueue s t o hi) = s_qclosed s.
Proof. reflexivity. Qed.
Lemma enqueue_pend s t o hi : s_pend (enqueue s t o hi) = s_pend s.
Proof. reflexivity. Qed.
Lemma enqueue_go s t o hi o' :
  go (enqueue s t o hi) o' =
  if o' =? o then mkO (o_id (go s o)) (o_topic (go s o)) (o_slot (go s o)) (o_pool (go s o)) true (PChan t hi)
  else go s o'.
Proof. unfold enqueue. rewrite go_so, go_st. reflexivity. Qed.
Lemma enqueue_gx s t o hi k : gx (enqueue s t o hi) k = gx s k.
Proof. reflexivity. Qed.
Lemma enqueue_qclosing s t o hi : s_qclosing (enqueue s t o hi) = s_qclosing s.
Proof. reflexivity. Qed.
Global Hint Rewrite enqueue_gt enqueue_gc enqueue_qclosed enqueue_pend enqueue_go enqueue_gx enqueue_qclosing : frame.

Lemma set_chan_closed tp hi f : t_closed (set_chan tp hi f) = t_closed tp.
Proof. destruct hi; reflexivity. Qed.
Lemma close_topic_closed cp tp : t_closed (close_topic_rec cp tp) = true.
Proof. unfold close_topic_rec. destruct (t_closed tp) eqn:E; [exact E|reflexivity]. Qed.

(** generic decomposition of a hypothesis [step s e = Some s'] *)
Ltac break_match_hyp H :=
  repeat match type of H with
         | context [match ?x with _ => _ end] =>
             let E := fresh "E" in destruct x eqn:E; try discriminate H
         | context [if ?x then _ else _] =>
             let E := fresh "E" in destruct x eqn:E; try discriminate H
         end.

Ltac step_inv H :=
  unfold step in H; break_match_hyp H;
  try (injection H as H; subst).

Ltac bool_hyps :=
  repeat match goal with
         | H : (_ || _) = false |- _ => apply orb_false_iff in H; destruct H
         | H : (_ && _) = true |- _ => apply andb_true_iff in H; destruct H
         | H : negb _ = true |- _ => apply negb_true_iff in H
         | H : negb _ = false |- _ => apply negb_false_iff in H
         end.

Ltac eqb_cases :=
  repeat match goal with
         | |- context [?a =? ?b] =>
             let E := fresh "E" in destruct (a =? b) eqn:E;
             [apply N.eqb_eq in E; try subst|apply N.eqb_neq in E]
         end.

(** [run] over concatenation *)
Lemma run_app s tr1 tr2 :
  run s (tr1 ++ tr2) = match run s tr1 with Some s1 => run s1 tr2 | None => None end.
Proof.
  revert s; induction tr1 as [|e tr1 IH]; intros s; simpl; [reflexivity|].
  destruct (step s e); [apply IH|reflexivity].
Qed.

(** invariants along traces *)
Lemma run_invariant (P : state -> Prop) :
  (forall s e s', P s -> step s e = Some s' -> P s') ->
  forall tr s s', P s -> run s tr = Some s' -> P s'.
Proof.
  intros Hstep tr; induction tr as [|e tr IH]; intros s s' HP Hr; simpl in Hr.
  - injection Hr as <-; exact HP.
  - destruct (step s e) as [s1|] eqn:E; [|discriminate]. eapply IH; [|exact Hr]. eapply Hstep; eauto.
Qed.
