(** C36 — where message objects occur in a state; fifo facts; the generic "one object
    moves" lemma used by the invariant proofs. *)
From Coq Require Import List NArith Bool Lia.
From C33 Require Import C36.Model C36.ProofsBase.
Import ListNotations.
Open Scope N_scope.

(** *** fifo *)
Lemma fpush_items x f : f_items (fpush x f) = x :: f_items f.
Proof. reflexivity. Qed.

Lemma fpop_items f x f' : fpop f = Some (x, f') -> f_items f = f_items f' ++ [x].
Proof.
  unfold fpop. destruct (rev (f_items f)) as [|y r] eqn:E; [discriminate|].
  intros [= <- <-]. simpl. rewrite <- (rev_involutive (f_items f)), E. reflexivity.
Qed.

Lemma objs_of_app l1 l2 : objs_of (l1 ++ l2) = objs_of l1 ++ objs_of l2.
Proof. induction l1 as [|[o|] l1 IH]; simpl; congruence. Qed.

Lemma in_objs_of o l : In o (objs_of l) <-> In (IMsg o) l.
Proof.
  induction l as [|[o'|] l IH]; simpl; [tauto| |].
  - rewrite IH. split; intros [H|H]; auto; left; congruence.
  - rewrite IH. split; [auto|intros [H|H]; [discriminate|auto]].
Qed.

Lemma nodup_app_single (l : list N) x : NoDup (l ++ [x]) <-> NoDup l /\ ~ In x l.
Proof.
  split.
  - intros H. apply NoDup_remove in H. rewrite app_nil_r in H. exact H.
  - intros [H1 H2].
    induction l as [|y l IH]; simpl; [constructor; [tauto|constructor]|].
    inversion H1; subst. constructor.
    + rewrite in_app_iff. simpl. intros [H|[H|[]]]; [tauto|subst; apply H2; left; reflexivity].
    + apply IH; [assumption|]. intros Hx; apply H2; right; exact Hx.
Qed.

Lemma place_eq_dec_aux (A B : place) : {A = B} + {A <> B}.
Proof. decide equality; try apply N.eq_dec; apply Bool.bool_dec. Qed.

(** *** views: the message objects referenced from each part of the state *)
Definition vchan (s : state) (t : N) (hi : bool) : list N := objs_of (f_items (chan_of (gt s t) hi)).
Definition vrecv (s : state) (c : N) : list N := objs_of (f_items (c_recv (gc s c))).
Definition vhold (s : state) (c : N) : list N :=
  match c_hold (gc s c) with Some (IMsg o) => [o] | _ => [] end.
Definition vheld (s : state) (c : N) : list N := map fst (c_held (gc s c)).
Definition vxhold (s : state) (k : N) : list N :=
  match x_hold (gx s k) with Some (IMsg o) => [o] | _ => [] end.
Definition vpend (s : state) : list (N * N) := map (fun x => (fst x, p_obj (snd x))) (s_pend s).

Definition occurs (s : state) (o : N) (pl : place) : Prop :=
  match pl with
  | P0 => False
  | PChan t hi => In o (vchan s t hi)
  | PHold c => In o (vhold s c)
  | PRecv c => In o (vrecv s c)
  | PHeld c => In o (vheld s c)
  | PPend p => In (p, o) (vpend s)
  | PXHold k => In o (vxhold s k)
  end.

(** each object is referenced from at most one place, and the ghost field says which *)
Definition where_ok (s : state) : Prop := forall o pl, occurs s o pl -> o_where (go s o) = pl.

Definition nodup_ok (s : state) : Prop :=
  (forall t hi, NoDup (vchan s t hi))
  /\ (forall c, NoDup (vrecv s c))
  /\ (forall c, NoDup (vheld s c))
  /\ NoDup (map fst (vpend s)).

(** identifiers, reply slots, pool *)
Definition ids_ok (s : state) : Prop :=
  (forall c o i, In (o, i) (c_held (gc s c)) -> i = o_id (go s o))
  /\ (forall o i, o_slot (go s o) = Some (RFor i) -> i = o_id (go s o))
  /\ (forall o, o_pool (go s o) = true -> o_where (go s o) = P0 /\ o_slot (go s o) = None)
  /\ (forall o, o_sent (go s o) = false -> o_where (go s o) = P0).

(** one object [o0] moves from place [A] to place [B]; everything else stays *)
Lemma where_ok_move s s' o0 A B :
  where_ok s ->
  o_where (go s o0) = A ->
  (forall o pl, occurs s' o pl -> (o = o0 /\ pl = B) \/ occurs s o pl) ->
  (A <> B -> ~ occurs s' o0 A) ->
  (forall o, o_where (go s' o) = if o =? o0 then B else o_where (go s o)) ->
  where_ok s'.
Proof.
  intros W HA Htr Hgone Hw o pl Hocc. rewrite Hw.
  destruct (Htr _ _ Hocc) as [[-> ->]|Hold].
  - rewrite N.eqb_refl. reflexivity.
  - destruct (o =? o0) eqn:E; [apply N.eqb_eq in E; subst o|apply W, Hold].
    pose proof (W _ _ Hold) as Hpl. rewrite HA in Hpl. subst pl.
    destruct (place_eq_dec_aux A B) as [->|Hne]; [reflexivity|].
    exfalso. exact (Hgone Hne Hocc).
Qed.
