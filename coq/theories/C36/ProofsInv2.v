(** C36 — the reference invariant, events that move a reference (pump, receive, reply). *)
From Coq Require Import List NArith Bool Lia.
From C33 Require Import C36.Model C36.ProofsBase C36.ProofsOcc C36.ProofsEff C36.ProofsInv C36.ProofsSteps.
Import ListNotations.
Open Scope N_scope.

Ltac unfold_views := unfold vchan, vrecv, vhold, vheld, vpend in *.

Ltac split_eqb_in H :=
  repeat match type of H with
         | context [?a =? ?b] =>
             let E := fresh "Eq" in destruct (a =? b) eqn:E;
             [apply N.eqb_eq in E; try subst|apply N.eqb_neq in E; try (exfalso; apply E; reflexivity)]
         end.

(* occurrences in the new state, place by place; solves the places the event did not touch *)
Ltac occ_transfer Hocc :=
  simpl in Hocc; unfold_views; autorewrite with frame in Hocc; split_eqb_in Hocc;
  simpl in Hocc; rewrite ?vchan_set_chan in Hocc; try contradiction; try (right; exact Hocc).

(* only the ghost place of one object changes (from a non-P0 place, or to P0) *)
Lemma ids_ok_set_where s s' o0 B :
  ids_ok s -> o_where (go s o0) <> P0 \/ B = P0 ->
  (forall c, c_held (gc s' c) = c_held (gc s c)) ->
  (forall o, go s' o = if o =? o0
                       then mkO (o_id (go s o0)) (o_topic (go s o0)) (o_slot (go s o0)) (o_pool (go s o0)) (o_sent (go s o0)) B
                       else go s o) ->
  ids_ok s'.
Proof.
  intros (I1 & I2 & I3 & I4) HB Hh Hg. unfold ids_ok. split; [|split; [|split]].
  - intros c o i Hin. rewrite Hh in Hin. rewrite Hg.
    destruct (o =? o0) eqn:Eo; [apply N.eqb_eq in Eo; subst|]; simpl; eauto.
  - intros o i Hs. rewrite Hg in *.
    destruct (o =? o0) eqn:Eo; [apply N.eqb_eq in Eo; subst|]; simpl in *; eauto.
  - intros o Hp. rewrite Hg in *. destruct (o =? o0) eqn:Eo; simpl in *; [|apply I3; auto].
    apply N.eqb_eq in Eo; subst. destruct (I3 _ Hp) as [Hw Hs]. split; [|exact Hs].
    destruct HB as [HB| ->]; [contradiction|reflexivity].
  - intros o Hs. rewrite Hg in *. destruct (o =? o0) eqn:Eo; simpl in *; [|apply I4; auto].
    apply N.eqb_eq in Eo; subst. destruct HB as [HB| ->]; [exfalso; apply HB, I4; auto|reflexivity].
Qed.

(* one object's record is replaced *)
Lemma ids_ok_update s s' o0 v :
  ids_ok s ->
  (forall c o i, In (o, i) (c_held (gc s' c)) -> In (o, i) (c_held (gc s c)) \/ (o = o0 /\ i = o_id v)) ->
  (forall o, go s' o = if o =? o0 then v else go s o) ->
  o_id v = o_id (go s o0) ->
  (forall i, o_slot v = Some (RFor i) -> i = o_id v) ->
  (o_pool v = true -> o_where v = P0 /\ o_slot v = None) ->
  (o_sent v = false -> o_where v = P0) ->
  ids_ok s'.
Proof.
  intros (I1 & I2 & I3 & I4) Hh Hg Hid H2 H3 H4. unfold ids_ok. split; [|split; [|split]].
  - intros c o i Hin. rewrite Hg. destruct (Hh _ _ _ Hin) as [Hold|[-> ->]].
    + destruct (o =? o0) eqn:Eo; [apply N.eqb_eq in Eo; subst; rewrite Hid|]; eauto.
    + rewrite N.eqb_refl. reflexivity.
  - intros o i Hs. rewrite Hg in *. destruct (o =? o0) eqn:Eo; eauto.
  - intros o Hp. rewrite Hg in *. destruct (o =? o0) eqn:Eo; auto.
  - intros o Hs. rewrite Hg in *. destruct (o =? o0) eqn:Eo; auto.
Qed.

Ltac unfold_views ::= unfold vchan, vrecv, vhold, vheld, vpend, vxhold in *.

Lemma inv_pump_take s c hi s' : Inv s -> step s (EPumpTake c hi) = Some s' -> Inv s'.
Proof.
  intros (W & N & I) H. apply step_pump_take in H. cbv zeta in H.
  destruct H as (Hh & x & f' & Hpop & ->).
  set (T := c_topic (gc s c)) in *.
  pose proof (fpop_objs _ _ _ Hpop) as Hv.
  destruct N as (N1 & N2 & N3 & N4).
  pose proof (N1 T hi) as Nd. unfold vchan in Nd. rewrite Hv in Nd.
  destruct x as [o0|].
  - simpl in Hv.
    assert (HA : o_where (go s o0) = PChan T hi).
    { apply W. simpl. unfold vchan. rewrite Hv. apply in_or_app; right; left; reflexivity. }
    apply nodup_app_single in Nd as [Nd1 Nd2].
    split; [|split].
      * apply (where_ok_move s _ o0 (PChan T hi) (PHold c)); auto.
        -- intros o pl Hocc. destruct pl; occ_transfer Hocc.
           ++ destruct (eqb hi0 hi) eqn:Eh; [apply eqb_prop in Eh; subst hi0|right; exact Hocc].
              right. simpl. unfold vchan. fold T. rewrite Hv. apply in_or_app; left; exact Hocc.
           ++ destruct Hocc as [->|[]]. left; auto.
        -- intros _ Hocc. occ_transfer Hocc. rewrite eqb_reflx in Hocc. contradiction.
        -- intros o. autorewrite with frame. destruct (o =? o0); reflexivity.
      * repeat split; intros; unfold_views; autorewrite with frame; eqb_cases; simpl;
          rewrite ?vchan_set_chan; auto; try apply N1; try apply N2; try apply N3.
        destruct (eqb hi0 hi); [exact Nd1|apply N1].
      * apply (ids_ok_set_where s _ o0 (PHold c) I); [left; rewrite HA; discriminate| |].
        -- intros c0. autorewrite with frame. destruct (c0 =? c) eqn:E; [apply N.eqb_eq in E; subst|]; reflexivity.
        -- intros o. autorewrite with frame. reflexivity.
  - (* the sentinel: no reference moves *)
    simpl in Hv. rewrite app_nil_r in Hv.
    apply (static_all s); [exact (conj W (conj (conj N1 (conj N2 (conj N3 N4))) I))| | | | | | |];
      intros; unfold_views; autorewrite with frame; eqb_cases; simpl; rewrite ?vchan_set_chan; auto.
    + destruct (eqb hi0 hi) eqn:Eh; [apply eqb_prop in Eh; subst hi0; fold T; rewrite Hv|]; reflexivity.
    + rewrite Hh. reflexivity.
Qed.

Lemma inv_pump_put s c s' : Inv s -> step s (EPumpPut c) = Some s' -> Inv s'.
Proof.
  intros (W & N & I) H. apply step_pump_put in H. cbv zeta in H.
  destruct H as (x & Hh & ->).
  destruct N as (N1 & N2 & N3 & N4).
  destruct x as [o0|].
  - assert (HA : o_where (go s o0) = PHold c).
    { apply W. simpl. unfold vhold. rewrite Hh. left; reflexivity. }
    assert (Hnot : ~ In o0 (vrecv s c)).
    { intros Hin. assert (Hw : o_where (go s o0) = PRecv c) by (apply W; exact Hin). congruence. }
    simpl item_where. split; [|split].
    + apply (where_ok_move s _ o0 (PHold c) (PRecv c)); auto.
      * intros o pl Hocc. destruct pl; occ_transfer Hocc.
        destruct Hocc as [->|Hocc]; [left; auto|right; exact Hocc].
      * intros _ Hocc. occ_transfer Hocc.
      * intros o. autorewrite with frame. destruct (o =? o0); reflexivity.
    + repeat split; intros; unfold_views; autorewrite with frame; eqb_cases; simpl;
        auto; try apply N1; try apply N2; try apply N3.
      constructor; [exact Hnot|apply N2].
    + apply (ids_ok_set_where s _ o0 (PRecv c) I); [left; rewrite HA; discriminate| |].
      * intros c0. autorewrite with frame. destruct (c0 =? c) eqn:E; [apply N.eqb_eq in E; subst|]; reflexivity.
      * intros o. autorewrite with frame. reflexivity.
  - simpl item_where.
    apply (static_all s); [exact (conj W (conj (conj N1 (conj N2 (conj N3 N4))) I))| | | | | | |];
      intros; unfold_views; autorewrite with frame; eqb_cases; simpl; auto.
    rewrite Hh. reflexivity.
Qed.

Lemma inv_drain s c s' : Inv s -> step s (EDrain c) = Some s' -> Inv s'.
Proof.
  intros (W & N & I) H. apply step_drain in H. cbv zeta in H.
  destruct H as (Hh & x & f' & Hpop & ->).
  pose proof (fpop_objs _ _ _ Hpop) as Hv.
  destruct N as (N1 & N2 & N3 & N4).
  pose proof (N2 c) as Nd. unfold vrecv in Nd. rewrite Hv in Nd.
  destruct x as [o0|].
  - simpl in Hv. simpl item_where.
    assert (HA : o_where (go s o0) = PRecv c).
    { apply W. simpl. unfold vrecv. rewrite Hv. apply in_or_app; right; left; reflexivity. }
    apply nodup_app_single in Nd as [Nd1 Nd2].
    split; [|split].
    + apply (where_ok_move s _ o0 (PRecv c) (PHold c)); auto.
      * intros o pl Hocc. destruct pl; occ_transfer Hocc.
        -- destruct Hocc as [->|[]]. left; auto.
        -- right. simpl. unfold vrecv. rewrite Hv. apply in_or_app; left; exact Hocc.
      * intros _ Hocc. occ_transfer Hocc.
      * intros o. autorewrite with frame. destruct (o =? o0); reflexivity.
    + repeat split; intros; unfold_views; autorewrite with frame; eqb_cases; simpl;
        auto; try apply N1; try apply N2; try apply N3.
    + apply (ids_ok_set_where s _ o0 (PHold c) I); [left; rewrite HA; discriminate| |].
      * intros c0. autorewrite with frame. destruct (c0 =? c) eqn:E; [apply N.eqb_eq in E; subst|]; reflexivity.
      * intros o. autorewrite with frame. reflexivity.
  - simpl in Hv. rewrite app_nil_r in Hv. simpl item_where.
    apply (static_all s); [exact (conj W (conj (conj N1 (conj N2 (conj N3 N4))) I))| | | | | | |];
      intros; unfold_views; autorewrite with frame; eqb_cases; simpl; auto.
    rewrite Hh. reflexivity.
Qed.
