(** C36 — the reference invariant: sends (immediate, parked, resumed); the invariant holds
    in every state reachable by a disciplined trace. *)
From Coq Require Import List NArith Bool Lia.
From C33 Require Import C36.Model C36.ProofsBase C36.ProofsOcc C36.ProofsEff C36.ProofsInv
  C36.ProofsSteps C36.ProofsInv2 C36.ProofsInvX C36.ProofsInv3.
Import ListNotations.
Open Scope N_scope.

Lemma inv_send_ok s c o0 hi m s' :
  Inv s -> disc s (ESend c o0 hi m SOk) = true -> step s (ESend c o0 hi m SOk) = Some s' -> Inv s'.
Proof.
  intros (W & N & I) D H. apply step_send_ok in H. cbv zeta in H. subst s'.
  simpl in D. bool_hyps. rename H into Hpool. rename H0 into Hsent.
  set (t := o_topic (go s o0)) in *.
  destruct N as (N1 & N2 & N3 & N4).
  assert (HA : o_where (go s o0) = P0) by (destruct I as (_ & _ & _ & I4); apply I4; exact Hsent).
  assert (Hnot : ~ In o0 (vchan s t hi)).
  { intros Hin. assert (Hw : o_where (go s o0) = PChan t hi) by (apply W; exact Hin). congruence. }
  split; [|split].
  - apply (where_ok_move s _ o0 P0 (PChan t hi)); auto.
    + intros o pl Hocc. destruct pl; occ_transfer Hocc.
      destruct (eqb hi0 hi) eqn:Eh; [apply eqb_prop in Eh; subst hi0|right; exact Hocc].
      simpl in Hocc. destruct Hocc as [->|Hocc]; [left; auto|right; exact Hocc].
    + intros o. autorewrite with frame. destruct (o =? o0); reflexivity.
  - repeat split; intros; unfold_views; autorewrite with frame; eqb_cases; simpl;
      rewrite ?vchan_set_chan; auto; try apply N1; try apply N2; try apply N3.
    destruct (eqb hi0 hi) eqn:Eh; [apply eqb_prop in Eh; subst hi0|apply N1].
    simpl. constructor; [exact Hnot|apply N1].
  - apply (ids_ok_update s _ o0
             (mkO (o_id (go s o0)) (o_topic (go s o0)) (o_slot (go s o0)) (o_pool (go s o0)) true (PChan t hi)) I);
      simpl.
    + intros c0 o i0 Hin0. autorewrite with frame in Hin0. left; exact Hin0.
    + intros o. autorewrite with frame. reflexivity.
    + reflexivity.
    + destruct I as (_ & I2 & _). apply I2.
    + intros Hp. congruence.
    + discriminate.
Qed.

Lemma inv_block s p c o0 hi m s' :
  Inv s -> disc s (EBlock p c o0 hi m) = true -> step s (EBlock p c o0 hi m) = Some s' -> Inv s'.
Proof.
  intros (W & N & I) D H. apply step_block in H. cbv zeta in H. destruct H as (Hnone & timed & ->).
  simpl in D. bool_hyps. rename H into Hpool. rename H0 into Hsent.
  set (t := o_topic (go s o0)) in *.
  destruct N as (N1 & N2 & N3 & N4).
  assert (HA : o_where (go s o0) = P0) by (destruct I as (_ & _ & _ & I4); apply I4; exact Hsent).
  split; [|split].
  - apply (where_ok_move s _ o0 P0 (PPend p)); auto.
    + intros o pl Hocc. destruct pl; occ_transfer Hocc.
      destruct Hocc as [[= <- <-]|Hocc]; [left; auto|right; exact Hocc].
    + intros o. autorewrite with frame. destruct (o =? o0); reflexivity.
  - repeat split; intros; unfold_views; autorewrite with frame; eqb_cases; simpl;
      auto; try apply N1; try apply N2; try apply N3.
    constructor; [|exact N4]. rewrite map_map. simpl. apply pend_get_none_keys. exact Hnone.
  - apply (ids_ok_update s _ o0
             (mkO (o_id (go s o0)) (o_topic (go s o0)) (o_slot (go s o0)) (o_pool (go s o0)) true (PPend p)) I);
      simpl.
    + intros c0 o i0 Hin0. autorewrite with frame in Hin0. left; exact Hin0.
    + intros o. autorewrite with frame. reflexivity.
    + reflexivity.
    + destruct I as (_ & I2 & _). apply I2.
    + intros Hp. congruence.
    + discriminate.
Qed.

Lemma inv_unblock s p r s' : Inv s -> step s (EUnblock p r) = Some s' -> Inv s'.
Proof.
  intros (W & N & I) H. apply step_unblock in H. destruct H as (pd & Hg & H). cbv zeta in H.
  destruct N as (N1 & N2 & N3 & N4).
  set (o0 := p_obj pd) in *.
  assert (HA : o_where (go s o0) = PPend p).
  { apply W. simpl. unfold vpend. apply pend_get_vpend. exact Hg. }
  assert (Hkeys : NoDup (map fst (s_pend s))) by (rewrite <- vpend_keys; exact N4).
  destruct (pend_del_keys_nodup p _ Hkeys) as [Kd1 Kd2].
  assert (Hgone : forall o, ~ In (p, o) (map (fun x => (fst x, p_obj (snd x))) (pend_del p (s_pend s)))).
  { intros o Hin. apply Kd2. apply in_map_iff in Hin as ((q & x) & [= <- <-] & Hin).
    apply in_map_iff. exists (q, x). auto. }
  destruct H as [(-> & ->)|(Hr & ->)].
  - (* resumed: enqueued *)
    set (t := p_topic pd) in *. set (hi := p_high pd) in *.
    assert (Hnot : ~ In o0 (vchan s t hi)).
    { intros Hin. assert (Hw : o_where (go s o0) = PChan t hi) by (apply W; exact Hin). congruence. }
    split; [|split].
    + apply (where_ok_move s _ o0 (PPend p) (PChan t hi)); auto.
      * intros o pl Hocc. destruct pl; occ_transfer Hocc.
        -- destruct (eqb hi0 hi) eqn:Eh; [apply eqb_prop in Eh; subst hi0|right; exact Hocc].
           simpl in Hocc. destruct Hocc as [->|Hocc]; [left; auto|right; exact Hocc].
        -- right. simpl. unfold vpend. eapply vpend_del_in; eauto.
      * intros _ Hocc. occ_transfer Hocc. exact (Hgone _ Hocc).
      * intros o. autorewrite with frame. destruct (o =? o0); reflexivity.
    + repeat split; intros; unfold_views; autorewrite with frame; eqb_cases; simpl;
        rewrite ?vchan_set_chan; auto; try apply N1; try apply N2; try apply N3.
      * destruct (eqb hi0 hi) eqn:Eh; [apply eqb_prop in Eh; subst hi0|apply N1].
        simpl. constructor; [exact Hnot|apply N1].
      * rewrite map_map. simpl. exact Kd1.
    + apply (ids_ok_update s _ o0
               (mkO (o_id (go s o0)) (o_topic (go s o0)) (o_slot (go s o0)) (o_pool (go s o0)) true (PChan t hi)) I);
        simpl.
      * intros c0 o i0 Hin0. autorewrite with frame in Hin0. left; exact Hin0.
      * intros o. autorewrite with frame. reflexivity.
      * reflexivity.
      * destruct I as (_ & I2 & _). apply I2.
      * intros Hp. destruct I as (_ & _ & I3 & _). destruct (I3 _ Hp) as [Hw _]. congruence.
      * discriminate.
  - (* gave up: error *)
    split; [|split].
    + apply (where_ok_move s _ o0 (PPend p) P0); auto.
      * intros o pl Hocc. destruct pl; occ_transfer Hocc.
        right. simpl. unfold vpend. eapply vpend_del_in; eauto.
      * intros _ Hocc. occ_transfer Hocc. exact (Hgone _ Hocc).
      * intros o. autorewrite with frame. destruct (o =? o0); reflexivity.
    + repeat split; intros; unfold_views; autorewrite with frame; eqb_cases; simpl;
        auto; try apply N1; try apply N2; try apply N3.
      rewrite map_map. simpl. exact Kd1.
    + apply (ids_ok_update s _ o0
               (mkO (o_id (go s o0)) (o_topic (go s o0)) (o_slot (go s o0)) (o_pool (go s o0)) false P0) I);
        simpl.
      * intros c0 o i0 Hin0. autorewrite with frame in Hin0. left; exact Hin0.
      * intros o. autorewrite with frame. reflexivity.
      * reflexivity.
      * destruct I as (_ & I2 & _). apply I2.
      * intros Hp. destruct I as (_ & _ & I3 & _). destruct (I3 _ Hp) as [_ Hs]. auto.
      * reflexivity.
Qed.

(** *** every step of a disciplined trace preserves the invariant *)
Lemma inv_step s e s' : Inv s -> disc s e = true -> step s e = Some s' -> Inv s'.
Proof.
  intros I D H. destruct e.
  - eapply inv_new; eauto.
  - eapply inv_free; eauto.
  - eapply inv_static_events; eauto. exact Logic.I.
  - destruct r; try (eapply inv_static_events; eauto; discriminate). eapply inv_send_ok; eauto.
  - eapply inv_block; eauto.
  - eapply inv_unblock; eauto.
  - eapply inv_pump_take; eauto.
  - eapply inv_pump_put; eauto.
  - eapply inv_static_events; eauto. exact Logic.I.
  - eapply inv_recv; eauto.
  - eapply inv_static_events; eauto. exact Logic.I.
  - eapply inv_reply; eauto.
  - destruct r; try (eapply inv_static_events; eauto; exact Logic.I). eapply inv_wait_got; eauto.
  - eapply inv_static_events; eauto. exact Logic.I.
  - eapply inv_static_events; eauto. exact Logic.I.
  - eapply inv_static_events; eauto. exact Logic.I.
  - eapply inv_drain; eauto.
  - eapply inv_drain_reply; eauto.
  - eapply inv_static_events; eauto. exact Logic.I.
  - discriminate D.      (* ENewRaw is not disciplined *)
  - eapply inv_static_events; eauto. exact Logic.I.
  - eapply inv_xtake; eauto.
  - eapply inv_xput; eauto.
  - eapply inv_static_events; eauto. exact Logic.I.
  - eapply inv_static_events; eauto. exact Logic.I.
  - eapply inv_static_events; eauto. exact Logic.I.
  - eapply inv_static_events; eauto. exact Logic.I.
Qed.

Lemma drun_inv tr : forall s s', Inv s -> drun s tr = Some s' -> Inv s'.
Proof.
  induction tr as [|e tr IH]; intros s s' I H; simpl in H.
  - injection H as <-. exact I.
  - destruct (disc s e) eqn:D; [|discriminate].
    destruct (step s e) as [s1|] eqn:E; [|discriminate].
    eapply IH; [|exact H]. eapply inv_step; eauto.
Qed.

Lemma drun_run tr : forall s s', drun s tr = Some s' -> run s tr = Some s'.
Proof.
  induction tr as [|e tr IH]; intros s s' H; simpl in *; [exact H|].
  destruct (disc s e); [|discriminate]. destruct (step s e); [apply IH; exact H|discriminate].
Qed.
