(** C36 — the reference invariant: receive, reply, the replies of Client.Close, wait. *)
From Coq Require Import List NArith Bool Lia.
From C33 Require Import C36.Model C36.ProofsBase C36.ProofsOcc C36.ProofsEff C36.ProofsInv
  C36.ProofsSteps C36.ProofsInv2.
Import ListNotations.
Open Scope N_scope.

Lemma inv_recv s c o0 i s' : Inv s -> step s (ERecv c o0 i) = Some s' -> Inv s'.
Proof.
  intros (W & N & I) H. apply step_recv in H. cbv zeta in H.
  destruct H as (Hi & f' & Hpop & ->).
  pose proof (fpop_objs _ _ _ Hpop) as Hv. simpl in Hv.
  destruct N as (N1 & N2 & N3 & N4).
  pose proof (N2 c) as Nd. unfold vrecv in Nd. rewrite Hv in Nd. apply nodup_app_single in Nd as [Nd1 Nd2].
  assert (HA : o_where (go s o0) = PRecv c).
  { apply W. simpl. unfold vrecv. rewrite Hv. apply in_or_app; right; left; reflexivity. }
  assert (Hnot : ~ In o0 (vheld s c)).
  { intros Hin. assert (Hw : o_where (go s o0) = PHeld c) by (apply W; exact Hin). congruence. }
  split; [|split].
  - apply (where_ok_move s _ o0 (PRecv c) (PHeld c)); auto.
    + intros o pl Hocc. destruct pl; occ_transfer Hocc.
      * right. simpl. unfold vrecv. rewrite Hv. apply in_or_app; left; exact Hocc.
      * destruct Hocc as [->|Hocc]; [left; auto|right; exact Hocc].
    + intros _ Hocc. occ_transfer Hocc.
    + intros o. autorewrite with frame. destruct (o =? o0); reflexivity.
  - repeat split; intros; unfold_views; autorewrite with frame; eqb_cases; simpl;
      auto; try apply N1; try apply N2; try apply N3.
    constructor; [exact Hnot|apply N3].
  - apply (ids_ok_update s _ o0
             (mkO (o_id (go s o0)) (o_topic (go s o0)) (o_slot (go s o0)) (o_pool (go s o0)) (o_sent (go s o0)) (PHeld c)) I);
      simpl.
    + intros c0 o i0 Hin. autorewrite with frame in Hin.
      destruct (c0 =? c) eqn:E; [apply N.eqb_eq in E; subst c0; simpl in Hin|left; exact Hin].
      destruct Hin as [[= <- <-]|Hin]; [right; auto|left; exact Hin].
    + intros o. autorewrite with frame. reflexivity.
    + reflexivity.
    + destruct I as (_ & I2 & _). apply I2.
    + intros Hp. destruct I as (_ & _ & I3 & _). destruct (I3 _ Hp) as [Hw _]. congruence.
    + intros Hs. destruct I as (_ & _ & _ & I4). pose proof (I4 _ Hs). congruence.
Qed.

Lemma inv_reply s c o0 i s' : Inv s -> step s (EReply c o0 i) = Some s' -> Inv s'.
Proof.
  intros (W & N & I) H. apply step_reply in H. cbv zeta in H.
  destruct H as (Hm & Hslot & ->).
  destruct N as (N1 & N2 & N3 & N4).
  destruct (remove_pair_nodup o0 i _ (N3 c) Hm) as [Nd1 Nd2].
  assert (Hin : In (o0, i) (c_held (gc s c))) by (apply mem_pair_in; exact Hm).
  assert (HA : o_where (go s o0) = PHeld c).
  { apply W. simpl. unfold vheld. apply in_map_iff. exists (o0, i). auto. }
  split; [|split].
  - apply (where_ok_move s _ o0 (PHeld c) P0); auto.
    + intros o pl Hocc. destruct pl; occ_transfer Hocc.
      right. simpl. unfold vheld. eapply remove_pair_in; eauto.
    + intros _ Hocc. occ_transfer Hocc.
    + intros o. autorewrite with frame. destruct (o =? o0); reflexivity.
  - repeat split; intros; unfold_views; autorewrite with frame; eqb_cases; simpl;
      auto; try apply N1; try apply N2; try apply N3.
  - apply (ids_ok_update s _ o0
             (mkO (o_id (go s o0)) (o_topic (go s o0)) (Some (RFor i)) (o_pool (go s o0)) (o_sent (go s o0)) P0) I);
      simpl.
    + intros c0 o i0 Hin0. autorewrite with frame in Hin0.
      destruct (c0 =? c) eqn:E; [apply N.eqb_eq in E; subst c0; simpl in Hin0|left; exact Hin0].
      left. eapply remove_pair_in2; eauto.
    + intros o. autorewrite with frame. reflexivity.
    + reflexivity.
    + intros i0 [= <-]. destruct I as (I1 & _). eapply I1; eauto.
    + intros Hp. destruct I as (_ & _ & I3 & _). destruct (I3 _ Hp) as [Hw _]. congruence.
    + reflexivity.
Qed.

Lemma inv_drain_reply s c s' : Inv s -> step s (EDrainReply c) = Some s' -> Inv s'.
Proof.
  intros (W & N & I) H. apply step_drain_reply in H. cbv zeta in H.
  destruct N as (N1 & N2 & N3 & N4).
  destruct H as [(Hh & ->)|(o0 & Hh & Hslot & ->)].
  - apply (static_all s); [exact (conj W (conj (conj N1 (conj N2 (conj N3 N4))) I))| | | | | | |];
      intros; unfold_views; autorewrite with frame; eqb_cases; simpl; auto.
    rewrite Hh. reflexivity.
  - assert (HA : o_where (go s o0) = PHold c).
    { apply W. simpl. unfold vhold. rewrite Hh. left; reflexivity. }
    split; [|split].
    + apply (where_ok_move s _ o0 (PHold c) P0); auto.
      * intros o pl Hocc. destruct pl; occ_transfer Hocc.
      * intros _ Hocc. occ_transfer Hocc.
      * intros o. autorewrite with frame. destruct (o =? o0); reflexivity.
    + repeat split; intros; unfold_views; autorewrite with frame; eqb_cases; simpl;
        auto; try apply N1; try apply N2; try apply N3.
    + apply (ids_ok_update s _ o0
               (mkO (o_id (go s o0)) (o_topic (go s o0)) (Some RClosed) (o_pool (go s o0)) (o_sent (go s o0)) P0) I);
        simpl.
      * intros c0 o i0 Hin0. autorewrite with frame in Hin0.
        destruct (c0 =? c) eqn:E; [apply N.eqb_eq in E; subst c0; simpl in Hin0|]; left; exact Hin0.
      * intros o. autorewrite with frame. reflexivity.
      * reflexivity.
      * intros i0 [=].
      * intros Hp. destruct I as (_ & _ & I3 & _). destruct (I3 _ Hp) as [Hw _]. congruence.
      * reflexivity.
Qed.

Lemma inv_wait_got s c o0 timed x s' : Inv s -> step s (EWait c o0 timed (WGot x)) = Some s' -> Inv s'.
Proof.
  intros (W & N & I) H. apply step_wait_got in H. cbv zeta in H. destruct H as (Hslot & ->).
  set (v := mkO (o_id (go s o0)) (o_topic (go s o0)) None (o_pool (go s o0)) (o_sent (go s o0)) (o_where (go s o0))).
  assert (Hst : where_ok (so (touch s (o_topic (go s o0))) o0 v) /\ nodup_ok (so (touch s (o_topic (go s o0))) o0 v)).
  { apply (static_where_nodup s); auto; intros; unfold_views; autorewrite with frame; auto.
    destruct (o =? o0) eqn:E; [apply N.eqb_eq in E; subst|]; reflexivity. }
  destruct Hst as [W' N']. split; [exact W'|split; [exact N'|]].
  apply (ids_ok_update s _ o0 v I); simpl.
  - intros c0 o i0 Hin0. autorewrite with frame in Hin0. left; exact Hin0.
  - intros o. autorewrite with frame. reflexivity.
  - reflexivity.
  - intros i0 [=].
  - intros Hp. destruct I as (_ & _ & I3 & _). destruct (I3 _ Hp) as [Hw _]. auto.
  - destruct I as (_ & _ & _ & I4). apply I4.
Qed.
