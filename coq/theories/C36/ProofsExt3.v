(** C36 — the extension, finding 3: Client.Close closes the topic of the last Sub only. *)
From Coq Require Import List NArith Bool Lia.
From C33 Require Import C36.Model C36.ProofsBase C36.ProofsClose C36.ProofsBlock.
Import ListNotations.
Open Scope N_scope.

Lemma last_sx s k v : s_last (sx s k v) = s_last s. Proof. reflexivity. Qed.
Lemma last_st s t v : s_last (st s t v) = s_last s. Proof. reflexivity. Qed.
Lemma last_sc s c v : s_last (sc s c v) = s_last s. Proof. reflexivity. Qed.
Lemma last_so s o v : s_last (so s o v) = s_last s. Proof. reflexivity. Qed.
Lemma last_sp s l : s_last (sp s l) = s_last s. Proof. reflexivity. Qed.
Lemma last_sg s i : s_last (sg s i) = s_last s. Proof. reflexivity. Qed.
Lemma last_sd s i : s_last (sd s i) = s_last s. Proof. reflexivity. Qed.
Lemma last_sq s m : s_last (sq s m) = s_last s. Proof. reflexivity. Qed.
Lemma last_sqb s m : s_last (sqb s m) = s_last s. Proof. reflexivity. Qed.
Lemma last_sqe s : s_last (sqe s) = s_last s. Proof. reflexivity. Qed.
Lemma last_touch s t : s_last (touch s t) = s_last s. Proof. reflexivity. Qed.
Lemma last_set_where s o w : s_last (set_where s o w) = s_last s. Proof. reflexivity. Qed.
Lemma last_set_parked s o b w : s_last (set_parked s o b w) = s_last s. Proof. reflexivity. Qed.
Lemma last_item_where s x w : s_last (item_where s x w) = s_last s. Proof. destruct x; reflexivity. Qed.
Lemma last_enqueue s t o hi : s_last (enqueue s t o hi) = s_last s. Proof. reflexivity. Qed.
Lemma last_sl s c t : s_last (sl s c t) = aset c t (s_last s). Proof. reflexivity. Qed.
Global Hint Rewrite last_sx last_st last_sc last_so last_sp last_sg last_sd last_sq last_sqb last_sqe last_touch
  last_set_where last_set_parked last_item_where last_enqueue last_sl : frame.

(** while a client is closing or closed, the topic of its last Sub is closed *)
Definition last_closed (s : state) : Prop :=
  forall c, c_closing (gc s c) = true -> c_pump (gc s c) <> PNone -> t_closed (gt s (last_of s c)) = true.

Lemma last_closed_init cp : last_closed (init cp).
Proof. intros c H. discriminate H. Qed.

Lemma last_stable s e s' c :
  step s e = Some s' -> c_closing (gc s' c) = true -> last_of s' c = last_of s c.
Proof.
  intros H. unfold last_of.
  destruct e; step_inv H; autorewrite with frame; rewrite ?aget_aset; eqb_cases; bool_hyps; simpl; congruence.
Qed.

Lemma closing_origin s e s' c :
  step s e = Some s' -> c_closing (gc s' c) = true -> c_closing (gc s c) = true \/ e = ECloseBegin c.
Proof.
  intros H. destruct e; step_inv H; autorewrite with frame; eqb_cases; bool_hyps; simpl; auto; congruence.
Qed.

Lemma pump_origin s e s' c :
  step s e = Some s' -> c_closing (gc s' c) = true -> c_pump (gc s' c) <> PNone -> c_pump (gc s c) <> PNone.
Proof.
  intros H. destruct e; step_inv H; autorewrite with frame; eqb_cases; bool_hyps; simpl; auto; congruence.
Qed.

Lemma close_begin_closes_last s c s' :
  step s (ECloseBegin c) = Some s' -> c_pump (gc s c) <> PNone -> t_closed (gt s' (last_of s c)) = true.
Proof.
  intros H Hp. step_inv H; autorewrite with frame; rewrite ?N.eqb_refl, ?close_topic_closed; auto; congruence.
Qed.

Lemma last_step_client s e s' c :
  step s e = Some s' -> c_closing (gc s' c) = true -> c_pump (gc s' c) <> PNone ->
  last_of s' c = last_of s c /\ c_pump (gc s c) <> PNone
  /\ (c_closing (gc s c) = true \/ t_closed (gt s' (last_of s c)) = true).
Proof.
  intros H Hc Hp. pose proof (pump_origin s e s' c H Hc Hp) as Hp0.
  split; [eapply last_stable; eauto|]. split; [exact Hp0|].
  destruct (closing_origin s e s' c H Hc) as [Hc0| ->]; [left; exact Hc0|right].
  eapply close_begin_closes_last; eauto.
Qed.

Lemma last_closed_step s e s' : last_closed s -> step s e = Some s' -> last_closed s'.
Proof.
  intros I H c Hc Hp.
  destruct (last_step_client s e s' c H Hc Hp) as (Hl & Hp0 & [Hc0|Hcl]).
  - rewrite Hl. eapply tclosed_mono; [exact H|]. apply I; assumption.
  - rewrite Hl. exact Hcl.
Qed.

Lemma reachable_last_closed cp s : reachable cp s -> last_closed s.
Proof.
  intros [tr Hr]. eapply (run_invariant last_closed); eauto using last_closed_init.
  intros; eapply last_closed_step; eauto.
Qed.

(** *** the statements *)
(* full strength: after Close of a subscriber returned, none of its topics takes requests *)
Definition closed_subscriber_topics_closed_full : Prop :=
  forall cp tr s c s1, run (init cp) tr = Some s -> close_returned s c s1 ->
    forall t, In t (subs_of s1 c) -> t_closed (gt s1 t) = true.

(* client 0 subscribes to topics 0 and 1 and is closed: topic 1 is closed, the pump of topic 0
   leaves through client.done, topic 0 stays open; client 1's request to topic 0 is accepted,
   nobody will ever read it and its wait has nothing to wake it *)
Definition two_topics_trace : list event :=
  [ ESub 0 0; ESub2 0 0 1; ECloseBegin 0; EPumpExit 0; EXTake 0 true ].
Definition two_topics_after : list event :=
  [ ENew 0 0 1; ESend 1 0 true MForever SOk ].

Lemma two_topics_runs :
  exists s s1 s2, run (init (mkCaps 2 2 5)) two_topics_trace = Some s
    /\ step s (ECloseEnd 0) = Some s1
    /\ subs_of s1 0 = [0; 1] /\ last_of s1 0 = 1
    /\ t_closed (gt s1 1) = true /\ t_closed (gt s1 0) = false
    /\ close_done s1 0 = true
    /\ run s1 two_topics_after = Some s2
    /\ f_len (t_high (gt s2 0)) = 1
    /\ (forall r, step s2 (EWait 1 0 false r) = None)
    /\ step s2 (EPumpTake 0 true) = None /\ step s2 (EXTake 0 true) = None.
Proof.
  eexists _, _, _. split; [vm_compute; reflexivity|].
  repeat split; try (vm_compute; reflexivity).
  intros r. destruct r as [[i|]| | |]; vm_compute; reflexivity.
Qed.

Lemma closed_subscriber_topics_closed_refuted : ~ closed_subscriber_topics_closed_full.
Proof.
  intros F. destruct two_topics_runs as (s & s1 & s2 & Hr & He & Hs & _ & _ & Ho & _).
  assert (Hcr : exists s0, run (init (mkCaps 2 2 5)) [ESub 0 0; ESub2 0 0 1] = Some s0
                           /\ close_returned s0 0 s1).
  { eexists. split; [vm_compute; reflexivity|]. right.
    eexists _, [EPumpExit 0; EXTake 0 true], s. split; [vm_compute; reflexivity|]. split; [|exact He].
    revert Hr. vm_compute. intros [= <-]. reflexivity. }
  destruct Hcr as (s0 & Hr0 & Hcr).
  assert (Hin : In 0 (subs_of s1 0)) by (rewrite Hs; left; reflexivity).
  rewrite (F _ _ _ _ _ Hr0 Hcr 0 Hin) in Ho. discriminate.
Qed.

(** the topic of the last Sub is closed once Close has returned, for ever *)
Lemma closed_subscriber_last_topic_closed :
  forall cp tr s c s1, run (init cp) tr = Some s -> close_returned s c s1 ->
    c_pump (gc s1 c) <> PNone ->
    forall tr2 s2, run s1 tr2 = Some s2 ->
      t_closed (gt s2 (last_of s1 c)) = true
      /\ (forall c' o hi m r s3, o_topic (go s2 o) = last_of s1 c ->
            step s2 (ESend c' o hi m r) = Some s3 -> is_err r = true)
      /\ (forall c' o timed, o_topic (go s2 o) = last_of s1 c ->
            exists r s3, step s2 (EWait c' o timed r) = Some s3).
Proof.
  intros cp tr s c s1 Hr Hcr Hp tr2 s2 Hr2.
  assert (R1 : reachable cp s1).
  { destruct Hcr as [H|(s0 & tr' & s0' & H1 & H2 & H3)].
    - exists (tr ++ [ECloseNoop c]). rewrite run_app, Hr. cbn [run]. rewrite H. reflexivity.
    - exists (tr ++ ECloseBegin c :: tr' ++ [ECloseEnd c]). rewrite run_app, Hr. cbn [run]. rewrite H1.
      rewrite run_app, H2. cbn [run]. rewrite H3. reflexivity. }
  pose proof (close_returned_closed _ _ _ Hcr) as Hc.
  pose proof (reachable_closed_closing cp s1 R1 c Hc) as Hcg.
  pose proof (reachable_last_closed cp s1 R1 c Hcg Hp) as Hl.
  pose proof (tclosed_mono_run tr2 _ _ _ Hr2 Hl) as Hl2.
  split; [exact Hl2|]. split.
  - intros c' o hi m r s3 Ho H. simpl in H. unfold pre_check in H. rewrite Ho, Hl2 in H.
    destruct (c_closed (gc s2 c')), (s_qclosed s2); destruct r; simpl in H; try discriminate; reflexivity.
  - intros c' o timed Ho. exists WChan. apply wait_after_topic_close. rewrite Ho. exact Hl2.
Qed.

(** with the guard "every topic the client subscribed to is the topic of its last Sub" (one
    Sub per client, or repeated Subs of one topic) every subscribed topic is closed *)
Lemma closed_subscriber_topics_closed_partial :
  forall cp tr s c s1, run (init cp) tr = Some s -> close_returned s c s1 ->
    single_sub s1 c = true ->
    forall tr2 s2, run s1 tr2 = Some s2 ->
    forall t, In t (subs_of s1 c) -> t_closed (gt s2 t) = true.
Proof.
  intros cp tr s c s1 Hr Hcr G tr2 s2 Hr2 t Hin.
  assert (Hp : c_pump (gc s1 c) <> PNone).
  { unfold subs_of in Hin. destruct (c_pump (gc s1 c)); [contradiction|discriminate|discriminate]. }
  unfold single_sub in G. rewrite forallb_forall in G. apply G in Hin. apply N.eqb_eq in Hin. subst t.
  exact (proj1 (closed_subscriber_last_topic_closed cp tr s c s1 Hr Hcr Hp tr2 s2 Hr2)).
Qed.

(* non-vacuity: the one-topic subscriber *)
Lemma one_topic_runs :
  exists s s1, run (init (mkCaps 2 2 5)) [ESub 0 3] = Some s
    /\ close_returned s 0 s1 /\ single_sub s1 0 = true /\ subs_of s1 0 = [3] /\ t_closed (gt s1 3) = true.
Proof.
  eexists _, _. split; [vm_compute; reflexivity|]. split.
  - right. eexists _, [EPumpTake 0 true], _. split; [vm_compute; reflexivity|]. split; vm_compute; reflexivity.
  - repeat split; vm_compute; reflexivity.
Qed.
