(** C36 — correspondence check: a scripted scenario on the real queue (one API call
    after the other, the pump goroutines left to run to quiescence after each call),
    compared call by call with the LTS of Model.v.  A step whose observation is empty
    (no client listed) is one of several calls that overlapped (the Queue.Close race): the
    pumps are run and the lengths compared at the next step that carries an observation. *)
From Coq Require Import List NArith Bool.
From C33 Require Import Lib.Harness C36.Model C36.Spec.
Import ListNotations.
Open Scope N_scope.

(** Observation after a call: completions of earlier blocked calls, then
    (len high, len low) per topic 0..  and len recv per client 0.. *)
Record obs := mkObs { ob_comps : list comp; ob_tl : list (N * N); ob_cl : list N }.

Inductive case :=
| Scripted (cp : caps) (npre : N) (steps : list (op * obs)) (still : list N)   (* topics 0 .. npre-1 are preset *)
| Concurrent (log : list cevent).     (* (b): a test; only the monitor is evaluated *)

(** *** the pump goroutines run to quiescence (high before low).
    After the topic was closed Go's select may either take another high message or see
    [done]; both continuations are followed ([pump_client_nd]) and the observations decide. *)
Inductive pump_move := PM (s : state) | PMChoice (take exit : option state) | PMRest.

Definition of_opt (o : option state) : pump_move := match o with Some s' => PM s' | None => PMRest end.

(* what a pump at rest on (topic, client.done) does next; [take hi] / [exit] are its events *)
Definition pump_next (s : state) (tp : topic) (closing : bool) (take : bool -> option state) (exit : option state) : pump_move :=
  if t_closed tp then
    if fis_empty (t_high tp) then of_opt exit else PMChoice (take true) exit
  else if negb (fis_empty (t_high tp)) then of_opt (take true)
  else if closing then      (* inner select: low against client.done *)
    if fis_empty (t_low tp) then of_opt exit else PMChoice (take false) exit
  else of_opt (take false).

Definition pump_one (s : state) (c : N) : pump_move :=
  let cl := gc s c in
  match c_pump cl with
  | PRun =>
      match c_hold cl with
      | Some _ => of_opt (step s (EPumpPut c))
      | None => pump_next s (gt s (c_topic cl)) (c_closing cl) (fun hi => step s (EPumpTake c hi)) (step s (EPumpExit c))
      end
  | PExit =>
      if c_closed cl then
        match c_hold cl with
        | Some _ => of_opt (step s (EDrainReply c))
        | None => of_opt (step s (EDrain c))
        end
      else of_opt (step s (ECloseEnd c))
  | PNone =>        (* Close of a client that never subscribed: wg.Wait() returns at once *)
      if c_closing cl && negb (c_closed cl) then of_opt (step s (ECloseEnd c)) else PMRest
  end.

(* the pump of a later subscription *)
Definition xpump_one (s : state) (k : N) : pump_move :=
  let xp := gx s k in
  match x_st xp with
  | PRun =>
      match x_hold xp with
      | Some _ => of_opt (step s (EXPut k))
      | None => pump_next s (gt s (x_topic xp)) (c_closing (gc s (x_client xp))) (fun hi => step s (EXTake k hi)) (step s (EXExit k))
      end
  | _ => PMRest
  end.

Fixpoint pump_unit_nd (one : state -> N -> pump_move) (fuel : nat) (s : state) (c : N) : list state :=
  match fuel with
  | O => [s]
  | S f =>
      match one s c with
      | PM s' => pump_unit_nd one f s' c
      | PMChoice a b =>
          match a with Some s' => pump_unit_nd one f s' c | None => [] end
          ++ match b with Some s' => pump_unit_nd one f s' c | None => [] end
      | PMRest => [s]
      end
  end.
Definition pump_client_nd := pump_unit_nd pump_one.

Fixpoint pump_units_nd (one : state -> N -> pump_move) (fuel : nat) (ss : list state) (c : N) (n : nat) : list state :=
  match n with
  | O => ss
  | S n' => pump_units_nd one fuel (flat_map (fun s => pump_unit_nd one fuel s c) ss) (N.succ c) n'
  end.

(* one round over all pumps.  Pumps of one client compete for its recv channel: both orders
   (later subscriptions first / first subscription first) are followed; the clients come last
   in either case so that a Close that was waiting for its pumps can go on. *)
Definition pump_all_nd (fuel : nat) (ss : list state) (c : N) (n : nat) : list state :=
  flat_map (fun s =>
    match s_xp s with
    | [] => pump_units_nd pump_one fuel [s] c n
    | _ =>
        let nx := length (s_xp s) in
        pump_units_nd pump_one fuel (pump_units_nd xpump_one fuel [s] 0 nx) c n
        ++ pump_units_nd pump_one fuel (pump_units_nd xpump_one fuel (pump_units_nd pump_one fuel [s] c n) 0 nx) c n
    end) ss.

(* deterministic version (the choice does not arise while the topic is open) *)
Definition pump_all (fuel : nat) (s : state) (n : nat) : state :=
  match pump_all_nd fuel [s] 0 n with x :: _ => x | [] => s end.

(** completions: apply the observed ones that are enabled, pumping in between *)
Definition comp_event (x : comp) : event :=
  match x with CSend p r => EUnblock p r | CClose c => ECloseNoop c end.

Fixpoint take_enabled (s : state) (cs acc : list comp) : option (state * list comp) :=
  match cs with
  | [] => None
  | x :: tl => match step s (comp_event x) with
               | Some s' => Some (s', rev acc ++ tl)
               | None => take_enabled s tl (x :: acc)
               end
  end.

Fixpoint settle (n : nat) (fuel : nat) (nc : nat) (s : state) (cs : list comp) : list (state * list comp) :=
  flat_map (fun s1 =>
              match n with
              | O => [(s1, cs)]
              | S n' => match take_enabled s1 cs [] with
                        | Some (s2, cs') => settle n' fuel nc s2 cs'
                        | None => [(s1, cs)]
                        end
              end) (pump_all_nd fuel [s] 0 nc).

(** nothing that the model says can complete (without a timer) was left blocked *)
Definition pend_quiet (s : state) : bool :=
  forallb (fun kp => match step s (EUnblock (fst kp) SOk), step s (EUnblock (fst kp) SErrChan) with
                     | None, None => true
                     | _, _ => false
                     end) (s_pend s).
(* clients whose Close has returned *)
Definition closes_done (s : state) : list N :=
  map fst (filter (fun kc => close_done s (fst kc)) (s_clients s)).
Definition sends_of (cs : list comp) : list comp :=
  filter (fun x => match x with CSend _ _ => true | CClose _ => false end) cs.
Fixpoint subset (a b : list N) : bool :=
  match a with [] => true | x :: tl => memN x b && subset tl b end.

Definition lens_t (s : state) (t : N) : N * N :=
  let tp := gt s t in if t_closed tp then (0, 0) else (f_len (t_high tp), f_len (t_low tp)).
Fixpoint lens_ok_t (s : state) (t : N) (l : list (N * N)) : bool :=
  match l with
  | [] => true
  | (h, lo) :: tl => let '(h', lo') := lens_t s t in (h =? h') && (lo =? lo') && lens_ok_t s (N.succ t) tl
  end.
Fixpoint lens_ok_c (s : state) (c : N) (l : list N) : bool :=
  match l with
  | [] => true
  | r :: tl => (r =? f_len (c_recv (gc s c))) && lens_ok_c s (N.succ c) tl
  end.

(** n x (NewMessage; low-priority non-blocking send), the pumps settling after each send *)
Fixpoint fill (n : nat) (fuel : nat) (nc : nat) (s : state) (c t o i : N) : option state :=
  match n with
  | O => Some s
  | S n' => match run s [ENew o t i; ESend c o false MNow SOk] with
            | Some s' => fill n' fuel nc (pump_all fuel s' nc) c t (N.succ o) (N.succ i)
            | None => None
            end
  end.

(** The same for a large n (filling the real 40960-slot channel) without walking the object
    table once per message: allowed when the objects o.. are all new; [bulk_fill_agrees]
    (Proofs) replays it against [fill] on samples. *)
Fixpoint seq_objs (n : nat) (o i t : N) (acc : list (N * obj)) : list (N * obj) :=
  match n with
  | O => acc
  | S n' => seq_objs n' (N.succ o) (N.succ i) t ((o, mkO i t None false true (PChan t false)) :: acc)
  end.
Fixpoint seq_items (n : nat) (o : N) (acc : list item) : list item :=
  match n with O => acc | S n' => seq_items n' (N.succ o) (IMsg o :: acc) end.

Definition bulk_fill (n : N) (s : state) (c t o i : N) : option state :=
  let tp := gt s t in
  match pre_check s c t with
  | Some _ => None
  | None =>
      if (0 <? n) && (f_len (t_low tp) + n <=? lcap (s_caps s)) && (s_gid s <? i)
         && forallb (fun kv => fst kv <? o) (s_objs s)
      then
        let low' := mkF (seq_items (N.to_nat n) o (f_items (t_low tp))) (f_len (t_low tp) + n) in
        let s1 := st s t (mkT (t_high tp) low' (t_closed tp)) in
        Some (mkS (s_caps s1) (s_topics s1) (s_clients s1) (seq_objs (N.to_nat n) o i t (s_objs s1))
                  (s_pend s1) (s_qclosed s1) (i + n - 1) (s_deliv s1) (s_xp s1) (s_last s1) (s_qclosing s1))
      else None
  end.

Definition wait_blocked (s : state) (c o : N) : bool :=
  match o_slot (go s o) with
  | Some _ => false
  | None => negb (t_closed (gt s (o_topic (go s o)))) && negb (c_closing (gc s c))
  end.

(** the model's reading of one API call; [None] = the model cannot do what was observed *)
Definition apply_op (fuel : nat) (nc : nat) (s : state) (o : op) : option state :=
  match o with
  | ONew ob t i => step s (ENew ob t i)
  | OFree ob => step s (EFree ob)
  | OSub c t =>       (* the first Sub of a client, or a later one (its pump gets the next number) *)
      match step s (ESub c t) with
      | Some s' => Some s'
      | None => step s (ESub2 (N.of_nat (length (s_xp s))) c t)
      end
  | OSend p c ob hi m (Some STimeout) =>
      match m with
      | MTimed => match step s (EBlock p c ob hi m) with
                  | Some s' => step s' (EUnblock p STimeout)
                  | None => None
                  end
      | _ => None
      end
  | OSend p c ob hi m (Some r) => step s (ESend c ob hi m r)
  | OSend p c ob hi m None => match m with MForever => step s (EBlock p c ob hi m) | _ => None end
  | OFill c t o0 i0 n => if n <=? 64 then fill (N.to_nat n) fuel nc s c t o0 i0 else bulk_fill n s c t o0 i0
  | ORecv c (Some (Some (ob, i))) => step s (ERecv c ob i)
  | ORecv c (Some None) => step s (ERecvClosed c)
  | ORecv c None =>
      let cl := gc s c in if fis_empty (c_recv cl) && negb (c_closed cl) then Some s else None
  | OReply c ob i true => step s (EReply c ob i)
  | OReply c ob i false => match step s (EReply c ob i) with None => Some s | Some _ => None end
  | OWait c ob timed (Some WTimeout) =>
      if wait_blocked s c ob then step s (EWait c ob timed WTimeout) else None
  | OWait c ob timed (Some r) => step s (EWait c ob timed r)
  | OWait c ob timed None =>
      if negb timed && wait_blocked s c ob then Some (touch s (o_topic (go s ob))) else None
  | OClose c ret =>
      match step s (ECloseNoop c) with
      | Some s' => if ret then Some s' else None
      | None => step s (ECloseBegin c)      (* ECloseEnd: see [close_ret] *)
      end
  | OCloseQ => step s ECloseQueue
  | OPanic _ => None
  | ONewRaw ob t => step s (ENewRaw ob t)
  | OClosePanic c => step s (EClosePanic c)
  | OCloseQB => step s ECloseQBegin
  | OCloseQE => step s ECloseQEnd
  end.

(* for OClose: the call returns iff ECloseEnd is enabled after the pump has settled *)
Definition close_comps (o : op) (s_before : state) : list comp :=
  match o with
  | OClose c true => match step s_before (ECloseNoop c) with Some _ => [] | None => [CClose c] end
  | _ => []
  end.

Definition caps_fuel (cp : caps) : nat := N.to_nat (2 * (hcap cp + lcap cp + rcap cp) + 16).

Definition step_cands (fuel : nat) (cands : list state) (x : op * obs) : list state :=
  let '(o, ob) := x in
  let nc := length (ob_cl ob) in
  flat_map (fun s =>
    match apply_op fuel nc s o with
    | None => []
    | Some s1 =>
        let cs := close_comps o s ++ ob_comps ob in
        let seen := comps_closed cs in
        flat_map (fun r : state * list comp =>
                    let '(s2, rest) := r in
                    let newly := filter (fun c => negb (memN c (closes_done s))) (closes_done s2) in
                    match rest with
                    | [] => if pend_quiet s2 && subset newly seen && subset seen newly
                               && lens_ok_t s2 0 (ob_tl ob) && lens_ok_c s2 0 (ob_cl ob)
                            then [s2] else []
                    | _ => []
                    end)
                 (settle (S (length cs)) fuel nc s1 (sends_of cs))
    end) cands.

(* the model states compatible with everything observed so far (at most a handful) *)
Fixpoint replay (fuel : nat) (cands : list state) (steps : list (op * obs)) : list state :=
  match steps with
  | [] => cands
  | x :: tl => match step_cands fuel cands x with
               | [] => []
               | cs => replay fuel (firstn 8 cs) tl
               end
  end.

Definition still_ok (s : state) (still : list N) : bool :=
  list_eqb N.eqb (rev (map fst (s_pend s))) still.

(* the preset topics exist from the start *)
Fixpoint init_pre (n : nat) (s : state) : state :=
  match n with O => s | S n' => touch (init_pre n' s) (N.of_nat n') end.

Definition check_case (c : case) : verdict :=
  match c with
  | Scripted cp npre steps still =>
      let ops := map fst steps in
      let m := existsb (fun s => still_ok s still) (replay (caps_fuel cp) [init_pre (N.to_nat npre) (init cp)] steps) in
      let d := disciplined [] ops in
      let steps' := map (fun x => (fst x, ob_comps (snd x))) steps in
      let known := map N.of_nat (seq 0 (N.to_nat npre)) in
      let s0 := no_panic ops in
      let s12 := negb d || (own_reply [] ops && at_most_once ops) in
      let s3 := after_close false false (acs0 known) steps' in
      let s4 := no_block_forever ops still in
      let s5 := negb d || no_lost false nls0 steps' in
      let kf :=
        if s0 && s12 && s3 && s4 && s5 then 0
        else if s0 && s12 && s4 && s5 && after_close true false (acs0 known) steps' then 3
        else if s12 && s3 && s4 && s5 && only_overlap_panics [] steps' then 4
        else if s0 && s12 && s5 && after_close false true (acs0 known) steps'
                && (s4 || only_late_parked (known_at_close (acs0 known) steps') (parked_topics (acs0 known) steps') still) then 6
        else 0 in
      (m, s0 && s12 && s3 && s4 && s5, kf)
  | Concurrent log => mk_verdict true (conc_ok log)
  end.
