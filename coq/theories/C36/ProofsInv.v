(** C36 — the reference invariant: under the client discipline every message object is
    referenced from at most one place, the ghost field [o_where] names it, identifiers read
    by responders and carried by replies are the object's current identifier. *)
From Coq Require Import List NArith Bool Lia.
From C33 Require Import C36.Model C36.ProofsBase C36.ProofsOcc C36.ProofsEff.
Import ListNotations.
Open Scope N_scope.

Definition Inv (s : state) : Prop := where_ok s /\ nodup_ok s /\ ids_ok s.

Lemma inv_init cp : Inv (init cp).
Proof.
  split; [|split].
  - intros o pl H. destruct pl as [|t hi| | | | |]; try destruct hi; cbv in H; contradiction.
  - repeat split; intros; try destruct hi; cbv; constructor.
  - repeat split; intros; simpl in *; try contradiction; try discriminate; reflexivity.
Qed.

(** *** events that move no reference *)
Lemma static_where_nodup s s' :
  where_ok s -> nodup_ok s ->
  (forall t hi, vchan s' t hi = vchan s t hi) -> (forall c, vrecv s' c = vrecv s c) ->
  (forall c, vhold s' c = vhold s c) -> (forall c, vheld s' c = vheld s c) -> vpend s' = vpend s ->
  (forall k, vxhold s' k = vxhold s k) ->
  (forall o, o_where (go s' o) = o_where (go s o)) ->
  where_ok s' /\ nodup_ok s'.
Proof.
  intros W (N1 & N2 & N3 & N4) H1 H2 H3 H4 H5 H7 H6. split.
  - intros o pl Hocc. rewrite H6. apply W.
    destruct pl; simpl in *; rewrite ?H1, ?H2, ?H3, ?H4, ?H5, ?H7 in Hocc; exact Hocc.
  - repeat split; intros; rewrite ?H1, ?H2, ?H4, ?H5; auto.
Qed.

(* the object table changes only in fields other than [o_where]; nothing else changes *)
Lemma static_obj s o v :
  where_ok s -> nodup_ok s -> o_where v = o_where (go s o) ->
  where_ok (so s o v) /\ nodup_ok (so s o v).
Proof.
  intros W N Hw. apply (static_where_nodup s); auto.
  intros o'. rewrite go_so. destruct (o' =? o) eqn:E; [apply N.eqb_eq in E; subst; exact Hw|reflexivity].
Qed.

Ltac ids_intro := unfold ids_ok; intros (I1 & I2 & I3 & I4).

Lemma inv_new s o t i s' : Inv s -> step s (ENew o t i) = Some s' -> Inv s'.
Proof.
  intros (W & N & I) H. step_inv H. bool_hyps.
  destruct (static_obj s o (mkO i t (o_slot (go s o)) false false (o_where (go s o))) W N eq_refl) as [W' N'].
  split; [exact W'|split; [exact N'|]].
  revert I; ids_intro. destruct (I3 o H) as [Hw Hs].
  repeat split; intros; autorewrite with frame in *.
  - destruct (o0 =? o) eqn:Eo; [apply N.eqb_eq in Eo; subst o0|eapply I1; eauto].
    exfalso. assert (Hocc : occurs s o (PHeld c)) by (simpl; unfold vheld; apply in_map_iff; exists (o, i0); auto).
    apply W in Hocc. congruence.
  - destruct (o0 =? o) eqn:Eo; [apply N.eqb_eq in Eo; subst o0; simpl in *; congruence|auto].
  - destruct (o0 =? o) eqn:Eo; [simpl in *; discriminate|auto]. apply I3; auto.
  - destruct (o0 =? o) eqn:Eo; [simpl in *; discriminate|auto]. apply I3; auto.
  - destruct (o0 =? o) eqn:Eo; [apply N.eqb_eq in Eo; subst o0; simpl; exact Hw|auto].
Qed.

Lemma inv_free s o s' : Inv s -> disc s (EFree o) = true -> step s (EFree o) = Some s' -> Inv s'.
Proof.
  intros (W & N & I) D H. step_inv H. simpl in D. bool_hyps.
  destruct (static_obj s o (mkO (o_id (go s o)) (o_topic (go s o)) (o_slot (go s o)) true (o_sent (go s o)) (o_where (go s o))) W N eq_refl) as [W' N'].
  split; [exact W'|split; [exact N'|]].
  revert I; ids_intro.
  repeat split; intros; autorewrite with frame in *.
  - destruct (o0 =? o) eqn:Eo; [apply N.eqb_eq in Eo; subst o0; simpl; eapply I1; eauto|eapply I1; eauto].
  - destruct (o0 =? o) eqn:Eo; [apply N.eqb_eq in Eo; subst o0; simpl in *; auto|auto].
  - destruct (o0 =? o) eqn:Eo; [apply N.eqb_eq in Eo; subst o0; simpl in *|apply I3; auto].
    destruct (o_where (go s o)); try discriminate; reflexivity.
  - destruct (o0 =? o) eqn:Eo; [apply N.eqb_eq in Eo; subst o0; simpl in *|apply I3; auto].
    destruct (o_slot (go s o)); [discriminate|reflexivity].
  - destruct (o0 =? o) eqn:Eo; [apply N.eqb_eq in Eo; subst o0; simpl in *; auto|auto].
Qed.

(* nothing about objects or held lists changes *)
Lemma static_all s s' :
  Inv s ->
  (forall t hi, vchan s' t hi = vchan s t hi) -> (forall c, vrecv s' c = vrecv s c) ->
  (forall c, vhold s' c = vhold s c) -> (forall c, c_held (gc s' c) = c_held (gc s c)) ->
  vpend s' = vpend s -> (forall k, vxhold s' k = vxhold s k) -> (forall o, go s' o = go s o) ->
  Inv s'.
Proof.
  intros (W & N & I) H1 H2 H3 H4 H5 H7 H6.
  assert (H4' : forall c, vheld s' c = vheld s c) by (intros; unfold vheld; rewrite H4; reflexivity).
  destruct (static_where_nodup s s' W N H1 H2 H3 H4' H5 H7) as [W' N']; [intros; rewrite H6; reflexivity|].
  split; [exact W'|split; [exact N'|]].
  revert I; ids_intro. repeat split; intros; rewrite ?H6 in *; rewrite ?H4 in *; eauto.
  - apply I3; auto.
  - apply I3; auto.
Qed.

Ltac view_goals :=
  unfold vchan, vrecv, vhold, vheld, vpend, vxhold; intros; autorewrite with frame; eqb_cases; simpl;
  rewrite ?vchan_set_chan, ?vchan_close_topic, ?aget_map_close_view; auto.

Lemma inv_static_events s e s' :
  Inv s -> step s e = Some s' ->
  match e with
  | ESub _ _ | EPumpExit _ | ERecvClosed _ | ECloseNoop _ | ECloseBegin _ | ECloseEnd _ | ECloseQueue
  | ESub2 _ _ _ | EXExit _ | EClosePanic _ | ECloseQBegin | ECloseQEnd => True
  | ESend _ _ _ _ r => r <> SOk
  | EWait _ _ _ r => match r with WGot _ => False | _ => True end
  | _ => False
  end -> Inv s'.
Proof.
  intros I H Hk.
  destruct e; try contradiction;
    try match goal with r : sres |- _ => destruct r; try congruence end;
    try match goal with r : wres |- _ => destruct r; try contradiction end;
    step_inv H; try exact I; try congruence;
    try (match goal with E : sres_eqb _ _ = true |- _ => simpl in E; discriminate E end);
    (apply (static_all s); [exact I| | | | | | |]; view_goals);
    repeat match goal with
           | E : c_hold _ = None |- _ => rewrite E; clear E
           | E : x_hold _ = None |- _ => rewrite E; clear E
           end; auto.
Qed.
