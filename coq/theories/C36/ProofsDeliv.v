(** C36 — delivery bookkeeping: under the discipline no message identifier is read twice
    from a subscriber's Recv channel. *)
From Coq Require Import List NArith Bool Lia.
From C33 Require Import C36.Model C36.ProofsBase C36.ProofsOcc C36.ProofsEff C36.ProofsInv
  C36.ProofsSteps C36.ProofsInv2 C36.ProofsInvX C36.ProofsInv3 C36.ProofsInv4.
Import ListNotations.
Open Scope N_scope.

(* frame rules for the two remaining fields *)
Lemma deliv_st s t v : s_deliv (st s t v) = s_deliv s. Proof. reflexivity. Qed.
Lemma deliv_sc s c v : s_deliv (sc s c v) = s_deliv s. Proof. reflexivity. Qed.
Lemma deliv_so s o v : s_deliv (so s o v) = s_deliv s. Proof. reflexivity. Qed.
Lemma deliv_sp s l : s_deliv (sp s l) = s_deliv s. Proof. reflexivity. Qed.
Lemma deliv_sg s i : s_deliv (sg s i) = s_deliv s. Proof. reflexivity. Qed.
Lemma deliv_sd s i : s_deliv (sd s i) = i :: s_deliv s. Proof. reflexivity. Qed.
Lemma deliv_sq s m : s_deliv (sq s m) = s_deliv s. Proof. reflexivity. Qed.
Lemma deliv_touch s t : s_deliv (touch s t) = s_deliv s. Proof. reflexivity. Qed.
Lemma deliv_set_where s o w : s_deliv (set_where s o w) = s_deliv s. Proof. reflexivity. Qed.
Lemma deliv_set_parked s o b w : s_deliv (set_parked s o b w) = s_deliv s. Proof. reflexivity. Qed.
Lemma deliv_item_where s x w : s_deliv (item_where s x w) = s_deliv s. Proof. destruct x; reflexivity. Qed.
Lemma deliv_enqueue s t o hi : s_deliv (enqueue s t o hi) = s_deliv s. Proof. reflexivity. Qed.
Lemma gid_st s t v : s_gid (st s t v) = s_gid s. Proof. reflexivity. Qed.
Lemma gid_sc s c v : s_gid (sc s c v) = s_gid s. Proof. reflexivity. Qed.
Lemma gid_so s o v : s_gid (so s o v) = s_gid s. Proof. reflexivity. Qed.
Lemma gid_sp s l : s_gid (sp s l) = s_gid s. Proof. reflexivity. Qed.
Lemma gid_sg s i : s_gid (sg s i) = i. Proof. reflexivity. Qed.
Lemma gid_sd s i : s_gid (sd s i) = s_gid s. Proof. reflexivity. Qed.
Lemma gid_sq s m : s_gid (sq s m) = s_gid s. Proof. reflexivity. Qed.
Lemma gid_touch s t : s_gid (touch s t) = s_gid s. Proof. reflexivity. Qed.
Lemma gid_set_where s o w : s_gid (set_where s o w) = s_gid s. Proof. reflexivity. Qed.
Lemma gid_set_parked s o b w : s_gid (set_parked s o b w) = s_gid s. Proof. reflexivity. Qed.
Lemma gid_item_where s x w : s_gid (item_where s x w) = s_gid s. Proof. destruct x; reflexivity. Qed.
Lemma gid_enqueue s t o hi : s_gid (enqueue s t o hi) = s_gid s. Proof. reflexivity. Qed.
Lemma deliv_sx s k v : s_deliv (sx s k v) = s_deliv s. Proof. reflexivity. Qed.
Lemma deliv_sl s c t : s_deliv (sl s c t) = s_deliv s. Proof. reflexivity. Qed.
Lemma deliv_sqb s m : s_deliv (sqb s m) = s_deliv s. Proof. reflexivity. Qed.
Lemma deliv_sqe s : s_deliv (sqe s) = s_deliv s. Proof. reflexivity. Qed.
Lemma gid_sx s k v : s_gid (sx s k v) = s_gid s. Proof. reflexivity. Qed.
Lemma gid_sl s c t : s_gid (sl s c t) = s_gid s. Proof. reflexivity. Qed.
Lemma gid_sqb s m : s_gid (sqb s m) = s_gid s. Proof. reflexivity. Qed.
Lemma gid_sqe s : s_gid (sqe s) = s_gid s. Proof. reflexivity. Qed.
Global Hint Rewrite deliv_sx deliv_sl deliv_sqb deliv_sqe gid_sx gid_sl gid_sqb gid_sqe : frame.
Lemma go_item_where s x w o' :
  go (item_where s x w) o' = match x with IMsg o => go (set_where s o w) o' | ISent => go s o' end.
Proof. destruct x; reflexivity. Qed.
Global Hint Rewrite deliv_st deliv_sc deliv_so deliv_sp deliv_sg deliv_sd deliv_sq deliv_touch deliv_set_where
  deliv_set_parked deliv_item_where deliv_enqueue gid_st gid_sc gid_so gid_sp gid_sg gid_sd gid_sq gid_touch
  gid_set_where gid_set_parked gid_item_where gid_enqueue go_item_where : frame.

(** an object whose current identifier has been read by a subscriber is with a responder,
    or was answered / given up *)
Definition delivered_place (ob : obj) : Prop :=
  (exists c, o_where ob = PHeld c) \/ (o_where ob = P0 /\ o_sent ob = true).

Definition Deliv (s : state) : Prop :=
  NoDup (s_deliv s)
  /\ (forall i, In i (s_deliv s) -> i <= s_gid s /\ i <> 0)
  /\ (forall o, o_id (go s o) <= s_gid s)
  /\ (forall o o', o <> o' -> o_id (go s o) = o_id (go s o') -> o_id (go s o) = 0)
  /\ (forall o, In (o_id (go s o)) (s_deliv s) -> delivered_place (go s o))
  /\ (forall o, o_id (go s o) = 0 -> o_pool (go s o) = true).

Lemma deliv_init cp : Deliv (init cp).
Proof.
  repeat split; simpl; intros; try constructor; try contradiction; auto.
  - apply N.le_0_l.
Qed.

(* one object's record changes; identifier kept *)
Lemma deliv_update s s' o0 v :
  Deliv s -> s_deliv s' = s_deliv s -> s_gid s' = s_gid s ->
  (forall o, go s' o = if o =? o0 then v else go s o) ->
  o_id v = o_id (go s o0) ->
  (o_pool (go s o0) = true -> o_pool v = true) ->
  (delivered_place (go s o0) -> delivered_place v) ->
  Deliv s'.
Proof.
  intros (D1 & D2 & D3 & D4 & D5 & D6) Hd Hg Hgo Hid Hp Hdp.
  assert (Hids : forall o, o_id (go s' o) = o_id (go s o)).
  { intros o. rewrite Hgo. destruct (o =? o0) eqn:E; [apply N.eqb_eq in E; subst; exact Hid|reflexivity]. }
  unfold Deliv. rewrite Hd, Hg. repeat split; auto.
  - apply D2; auto.
  - apply D2; auto.
  - intros o. rewrite Hids. apply D3.
  - intros o o' Hne. rewrite !Hids. apply D4; auto.
  - intros o Hin. rewrite Hids in Hin. rewrite Hgo.
    destruct (o =? o0) eqn:E; [apply N.eqb_eq in E; subst; apply Hdp|]; apply D5; exact Hin.
  - intros o H0. rewrite Hids in H0. rewrite Hgo.
    destruct (o =? o0) eqn:E; [apply N.eqb_eq in E; subst; apply Hp|]; apply D6; exact H0.
Qed.

Lemma deliv_same s s' :
  Deliv s -> s_deliv s' = s_deliv s -> s_gid s' = s_gid s -> (forall o, go s' o = go s o) -> Deliv s'.
Proof.
  intros D Hd Hg Hgo. apply (deliv_update s s' 0 (go s 0) D Hd Hg); auto.
  intros o. rewrite Hgo. destruct (o =? 0) eqn:E; [apply N.eqb_eq in E; subst|]; reflexivity.
Qed.

Lemma not_delivered_place ob : o_where ob <> P0 -> (forall c, o_where ob <> PHeld c) -> ~ delivered_place ob.
Proof. intros H0 H1 [[c Hc]|[Hc _]]; [exact (H1 c Hc)|exact (H0 Hc)]. Qed.
