(** C36 — the main statements, assembled. *)
From Coq Require Import List NArith Bool Lia.
From C33 Require Import Lib.Harness C36.Model C36.Spec C36.Check C36.ProofsBase C36.ProofsOcc C36.ProofsEff C36.ProofsInv
  C36.ProofsSteps C36.ProofsInv2 C36.ProofsInv3 C36.ProofsInv4 C36.ProofsDeliv C36.ProofsDeliv2.
Import ListNotations.
Open Scope N_scope.

Lemma drun_invs tr : forall s s', Inv s -> Deliv s -> drun s tr = Some s' -> Inv s' /\ Deliv s'.
Proof.
  induction tr as [|e tr IH]; intros s s' I D H; simpl in H.
  - injection H as <-. auto.
  - destruct (disc s e) eqn:Dc; [|discriminate].
    destruct (step s e) as [s1|] eqn:E; [|discriminate].
    eapply IH; [| |exact H]; [eapply inv_step|eapply deliv_step]; eauto.
Qed.

Lemma reply_eqb_eq a b : reply_eqb a b = true -> a = b.
Proof. destruct a, b; simpl; try discriminate; [intros H; apply N.eqb_eq in H; congruence|reflexivity]. Qed.

(** a requester only ever takes the reply made for the current use of its message *)
Lemma reply_to_own_request_proof :
  forall cp tr s, drun (init cp) tr = Some s ->
  forall c o timed r s', step s (EWait c o timed (WGot r)) = Some s' ->
    r = RClosed \/ r = RFor (o_id (go s o)).
Proof.
  intros cp tr s Hr c o timed r s' H.
  destruct (drun_invs tr _ _ (inv_init cp) (deliv_init cp) Hr) as [(_ & _ & (_ & I2 & _)) _].
  apply step_wait_got in H. cbv zeta in H. destruct H as (Hs & _).
  destruct r as [i|]; [right|left; reflexivity]. rewrite (I2 _ _ Hs). reflexivity.
Qed.

(** what a responder holds (and will answer) is the current use of the message *)
Lemma responder_holds_current_proof :
  forall cp tr s, drun (init cp) tr = Some s ->
  forall c o i, In (o, i) (c_held (gc s c)) -> i = o_id (go s o) /\ o_pool (go s o) = false.
Proof.
  intros cp tr s Hr c o i Hin.
  destruct (drun_invs tr _ _ (inv_init cp) (deliv_init cp) Hr) as [(W & _ & (I1 & _ & I3 & _)) _].
  split; [eapply I1; eauto|].
  destruct (o_pool (go s o)) eqn:E; [|reflexivity]. destruct (I3 _ E) as [Hw _].
  assert (Ho : occurs s o (PHeld c)) by (simpl; unfold vheld; apply in_map_iff; exists (o, i); auto).
  apply W in Ho. congruence.
Qed.

(** the identifiers subscribers read, in trace order *)
Definition recv_ids_tr (tr : list event) : list N :=
  flat_map (fun e => match e with ERecv _ _ i => [i] | _ => [] end) tr.

Lemma step_deliv s e s' :
  step s e = Some s' ->
  s_deliv s' = match e with ERecv _ _ i => [i] | _ => [] end ++ s_deliv s.
Proof. intros H. destruct e; step_inv H; autorewrite with frame; reflexivity. Qed.

Lemma run_deliv tr : forall s s', run s tr = Some s' -> s_deliv s' = rev (recv_ids_tr tr) ++ s_deliv s.
Proof.
  induction tr as [|e tr IH]; intros s s' H; simpl in H; [injection H as <-; reflexivity|].
  destruct (step s e) as [s1|] eqn:E; [|discriminate].
  rewrite (IH _ _ H), (step_deliv _ _ _ E). unfold recv_ids_tr. simpl. fold (recv_ids_tr tr).
  rewrite rev_app_distr, <- app_assoc. destruct e; simpl; reflexivity.
Qed.

Lemma at_most_once_delivery_proof :
  forall cp tr s, drun (init cp) tr = Some s -> NoDup (recv_ids_tr tr).
Proof.
  intros cp tr s Hr.
  destruct (drun_invs tr _ _ (inv_init cp) (deliv_init cp) Hr) as [_ (D1 & _)].
  rewrite (run_deliv tr _ _ (drun_run _ _ _ Hr)) in D1. simpl in D1. rewrite app_nil_r in D1.
  apply NoDup_rev in D1. rewrite rev_involutive in D1. exact D1.
Qed.

(** without the discipline both statements fail *)
Definition reply_any_trace_full : Prop :=
  forall cp tr s c o timed i s', run (init cp) tr = Some s ->
    step s (EWait c o timed (WGot (RFor i))) = Some s' -> i = o_id (go s o).

(* wait times out (no event), the message is freed and recycled while the responder still
   holds it, the late reply reaches the next user of the object *)
Definition stale_trace : list event :=
  [ ESub 0 0; ENew 0 0 1; ESend 1 0 true MForever SOk; EPumpTake 0 true; EPumpPut 0; ERecv 0 0 1;
    EFree 0; ENew 0 0 2; ESend 1 0 true MForever SOk; EReply 0 0 1 ].

Lemma stale_run :
  exists s, run (init (mkCaps 2 2 5)) stale_trace = Some s
            /\ (exists s', step s (EWait 1 0 true (WGot (RFor 1))) = Some s')
            /\ o_id (go s 0) = 2.
Proof.
  eexists. split; [vm_compute; reflexivity|]. split; [eexists; vm_compute; reflexivity|vm_compute; reflexivity].
Qed.

Lemma reply_any_trace_refuted : ~ reply_any_trace_full.
Proof.
  intros F. destruct stale_run as (s & Hr & (s' & Hw) & Hid).
  pose proof (F _ _ _ _ _ _ _ _ Hr Hw) as H. rewrite Hid in H. discriminate.
Qed.

Lemma stale_trace_not_disciplined : drun (init (mkCaps 2 2 5)) stale_trace = None.
Proof. vm_compute. reflexivity. Qed.

(** non-vacuity: a disciplined trace with a complete round trip, FreeMessage, and reuse of the
    same pooled object for a second round trip *)
Definition roundtrip_trace : list event :=
  [ ESub 0 0; ENew 0 0 1; ESend 1 0 true MForever SOk; EPumpTake 0 true; EPumpPut 0; ERecv 0 0 1;
    EReply 0 0 1; EWait 1 0 false (WGot (RFor 1)); EFree 0;
    ENew 0 0 2; ESend 1 0 false MNow SOk; EPumpTake 0 false; EPumpPut 0; ERecv 0 0 2;
    EReply 0 0 2; EWait 1 0 true (WGot (RFor 2)) ].

Lemma roundtrip_disciplined :
  exists s, drun (init (mkCaps 2 2 5)) roundtrip_trace = Some s /\ recv_ids_tr roundtrip_trace = [1; 2].
Proof. eexists. split; vm_compute; reflexivity. Qed.

(* the same through two subscriptions of one client: the request to topic 1 travels through the
   later pump, the one to topic 0 through the first; both arrive in the one recv channel *)
Definition two_subs_trace : list event :=
  [ ESub 0 0; ESub2 0 0 1; ENew 0 1 1; ESend 1 0 true MForever SOk; EXTake 0 true; EXPut 0; ERecv 0 0 1;
    EReply 0 0 1; EWait 1 0 false (WGot (RFor 1)); EFree 0;
    ENew 0 0 2; ESend 1 0 false MNow SOk; EPumpTake 0 false; EPumpPut 0; ERecv 0 0 2;
    EReply 0 0 2; EWait 1 0 true (WGot (RFor 2)) ].

Lemma two_subs_disciplined :
  exists s, drun (init (mkCaps 2 2 5)) two_subs_trace = Some s /\ recv_ids_tr two_subs_trace = [1; 2]
            /\ subs_of s 0 = [0; 1].
Proof. eexists. split; [vm_compute; reflexivity|]. split; vm_compute; reflexivity. Qed.

(** Check.bulk_fill (used for the 40960-slot channel) agrees with the event-by-event [fill] *)
Definition same_view (a b : option state) : bool :=
  match a, b with
  | Some x, Some y =>
      forallb (fun o => let p := go x o in let q := go y o in
                        (o_id p =? o_id q) && (o_topic p =? o_topic q) && Bool.eqb (o_pool p) (o_pool q)
                        && Bool.eqb (o_sent p) (o_sent q)) (map N.of_nat (seq 0 40))
      && list_eqb (fun i j => match i, j with IMsg u, IMsg v => u =? v | ISent, ISent => true | _, _ => false end)
           (f_items (t_low (gt x 0))) (f_items (t_low (gt y 0)))
      && (f_len (t_low (gt x 0)) =? f_len (t_low (gt y 0))) && (s_gid x =? s_gid y)
  | None, None => true
  | _, _ => false
  end.

Lemma bulk_fill_agrees :
  forallb (fun n => same_view (bulk_fill n (init (mkCaps 2 30 5)) 1 0 3 7) (fill (N.to_nat n) 8%nat 0%nat (init (mkCaps 2 30 5)) 1 0 3 7))
          [1; 2; 5; 17; 30; 31] = true.
Proof. vm_compute. reflexivity. Qed.
