(** C24 layer 2 — every operation of the multi-level model refines its level-0
    effect, for every level stream; histories. *)
From Coq Require Import List ZArith NArith Bool Arith Lia Sorted.
From C33 Require Import C24.Model C24.ProofsSpec C24.SkipModel C24.SkipLemmas C24.SkipSearch
  C24.SkipInsert C24.SkipDelete.
Import ListNotations.
Local Open Scope nat_scope.

Section R.
  Context {V : Type}.
  Notation heap := (heap V).
  Notation skl := (skl V).
  Implicit Types (h : heap) (sk : skl) (x y z i k : nat).

  Definition eq_score h (s : Z) y : bool := (sv_compare (nscore (h y)) s =? 0)%Z.

  (** ** the level-0 functions in terms of the split at the search position *)
  Section L0.
    Variables (h : heap) (s : Z).
    Let f := fun y => go_lt s (score_of h y).

    Lemma sl_find_split ids :
      sl_find s (absl h ids) =
      match dw f ids with
      | y :: _ => if eq_score h s y then Some (nval (h y)) else None
      | [] => None
      end.
    Proof.
      induction ids as [|y ids IH]; simpl; auto.
      unfold f, score_of, go_lt, eq_score in *.
      destruct (sv_compare (nscore (h y)) s <? 0)%Z; auto.
    Qed.

    Lemma sl_ge_split ids :
      sl_ge s (absl h ids) = option_map (entry h) (hd_error (dw f ids)).
    Proof.
      induction ids as [|y ids IH]; simpl; auto.
      unfold f, score_of, go_lt in *.
      destruct (sv_compare (nscore (h y)) s <? 0)%Z; auto.
    Qed.

    Lemma sl_delete_split ids :
      sl_delete s (absl h ids) =
      absl h (tw f ids ++ match dw f ids with
                          | y :: tl => if eq_score h s y then tl else y :: tl
                          | [] => []
                          end).
    Proof.
      induction ids as [|y ids IH]; simpl; auto.
      unfold f, score_of, go_lt, eq_score in *.
      destruct (sv_compare (nscore (h y)) s <? 0)%Z.
      - simpl. now rewrite IH.
      - simpl. destruct (sv_compare (nscore (h y)) s =? 0)%Z; reflexivity.
    Qed.

    Lemma sl_update_split (v : V) ids :
      sl_update s v (absl h ids) =
      absl h (tw f ids) ++ match dw f ids with
                           | y :: tl => if eq_score h s y then (nscore (h y), v) :: absl h tl
                                        else absl h (y :: tl)
                           | [] => []
                           end.
    Proof.
      induction ids as [|y ids IH]; simpl; auto.
      unfold f, score_of, go_lt, eq_score in *.
      destruct (sv_compare (nscore (h y)) s <? 0)%Z.
      - simpl. now rewrite IH.
      - simpl. destruct (sv_compare (nscore (h y)) s =? 0)%Z; reflexivity.
    Qed.
  End L0.

  Lemma inv_findc sk ids c : inv sk ids -> inv (with_findc sk c) ids.
  Proof. intros [A B C D E F G H I J]. split; auto. Qed.

  (** ** find *)
  Lemma find_node_spec sk ids s :
    inv sk ids ->
    exists cnt,
      sk_find_node s sk =
      Ok (with_findc sk cnt,
          match dw (fun y => go_lt s (score_of (sheap sk) y)) ids with
          | y :: _ => if eq_score (sheap sk) s y then Some y else None
          | [] => None
          end).
  Proof.
    intro HI. unfold sk_find_node.
    destruct (locate_spec sk ids (go_lt s) HI (antitone_lt s)) as [cnt ->].
    rewrite (nxt_stop sk ids (go_lt s) HI). exists cnt.
    destruct (dw _ ids) as [|y tl]; simpl; auto.
    unfold eq_score. destruct (sv_compare (nscore (sheap sk y)) s =? 0)%Z; reflexivity.
  Qed.

  Lemma sk_find_spec sk ids s :
    inv sk ids ->
    exists sk', sk_find s sk = Ok (sk', found s (absl (sheap sk) ids)) /\ inv sk' ids /\
                sheap sk' = sheap sk.
  Proof.
    intro HI. unfold sk_find. destruct (find_node_spec sk ids s HI) as [cnt ->]. simpl.
    exists (with_findc sk cnt). split; [|split; [now apply inv_findc|reflexivity]].
    f_equal. f_equal. unfold found. rewrite sl_find_split.
    pose proof (post_stop sk ids (go_lt s) HI (antitone_lt s)) as Hst.
    destruct (dw _ ids) as [|y tl]; simpl; auto.
    unfold eq_score. destruct (sv_compare (nscore (sheap sk y)) s =? 0)%Z eqn:E; auto.
    simpl. f_equal. f_equal.
    unfold sv_compare, cBig, cEqual, cSmall in E.
    destruct (nscore (sheap sk y) >? s)%Z; [discriminate|].
    destruct (nscore (sheap sk y) =? s)%Z eqn:E2; [|discriminate].
    now apply Z.eqb_eq in E2.
  Qed.

  Lemma sk_ge_spec sk ids s :
    inv sk ids ->
    exists sk', sk_ge s sk = Ok (sk', sl_ge s (absl (sheap sk) ids)) /\ inv sk' ids /\
                sheap sk' = sheap sk.
  Proof.
    intro HI. unfold sk_ge.
    destruct (locate_spec sk ids (go_lt s) HI (antitone_lt s)) as [cnt ->].
    rewrite (nxt_stop sk ids (go_lt s) HI).
    exists (with_findc sk cnt). split; [|split; [now apply inv_findc|reflexivity]].
    f_equal. f_equal. rewrite sl_ge_split.
    destruct (dw _ ids) as [|y tl]; reflexivity.
  Qed.

  (** ** a heap that differs only in values *)
  Lemma inv_frame sk ids h' fc :
    inv sk ids ->
    (forall z, nnext (h' z) = nnext (sheap sk z) /\ nprev (h' z) = nprev (sheap sk z) /\
               nscore (h' z) = nscore (sheap sk z)) ->
    inv (mkSkl h' (ssize sk) (stail sk) (slevel sk) (scount sk) fc) ids.
  Proof.
    intros [A B C D E F G H I J] Hf.
    assert (Hh : forall z, height h' z = height (sheap sk) z).
    { intro z. unfold height. now destruct (Hf z) as (-> & _). }
    assert (Hn : forall z i, nxt h' z i = nxt (sheap sk) z i).
    { intros z i. unfold nxt. now destruct (Hf z) as (-> & _). }
    split; cbn [sheap ssize stail slevel scount]; auto.
    - now rewrite Hh.
    - intros p1 p p2 Ep i Hi. rewrite Hh in Hi. rewrite Hn, (D p1 p p2 Ep i Hi). f_equal.
      symmetry. apply succ_at_ext. intros z _. apply Hh.
    - rewrite Forall_forall in *. intros z Hz. rewrite Hh. auto.
    - intros p1 p p2 Ep. destruct (Hf p) as (_ & -> & _). now apply (G p1 p p2).
    - apply (ssorted_ext (desc (sheap sk))); auto. intros a b _ _. unfold desc, score_of.
      destruct (Hf a) as (_ & _ & ->). destruct (Hf b) as (_ & _ & ->). auto.
  Qed.

  (** ** in-place update of a found value *)
  Lemma sk_update_spec sk ids s (v : V) :
    inv sk ids ->
    exists sk',
      sk_update s v sk =
        Ok (sk', match sl_find s (absl (sheap sk) ids) with Some _ => true | None => false end) /\
      inv sk' ids /\
      absl (sheap sk') ids = sl_update s v (absl (sheap sk) ids).
  Proof.
    intro HI. unfold sk_update. destruct (find_node_spec sk ids s HI) as [cnt ->]. simpl.
    rewrite sl_find_split, sl_update_split.
    set (f := fun y => go_lt s (score_of (sheap sk) y)).
    pose proof (tw_dw f ids) as Hpp.
    destruct (dw f ids) as [|y tl] eqn:Ed.
    - exists (with_findc sk cnt). simpl. split; auto. split; [now apply inv_findc|].
      rewrite app_nil_r in *. now rewrite Hpp.
    - destruct (eq_score (sheap sk) s y) eqn:Ee.
      + eexists. split; [reflexivity|]. cbn [sheap ssize stail slevel scount sfindc with_findc].
        split.
        * apply (inv_frame sk ids); auto. intro z.
          rewrite next_set_val, prev_set_val, score_set_val. auto.
        * pose proof (i_nodup _ _ HI) as Hnd. rewrite <- Hpp in Hnd.
          inversion Hnd as [|? ? _ Hnd']; subst.
          apply nodup_mid_notin in Hnd' as [N1 N2].
          rewrite <- Hpp at 1. unfold absl. rewrite map_app. simpl. f_equal; [|f_equal].
          -- apply map_ext_in. intros z Hz. unfold entry.
             rewrite score_set_val, val_set_val_other; auto. intros ->. auto.
          -- unfold entry. now rewrite score_set_val, val_set_val_same.
          -- apply map_ext_in. intros z Hz. unfold entry.
             rewrite score_set_val, val_set_val_other; auto. intros ->. auto.
      + exists (with_findc sk cnt). simpl. split; auto. split; [now apply inv_findc|].
        rewrite <- Hpp at 1. unfold absl. now rewrite map_app.
  Qed.

  (** ** Delete *)
  Lemma sk_delete_spec sk ids s :
    inv sk ids ->
    exists sk' ids',
      sk_delete s sk =
        Ok (sk', match sl_find s (absl (sheap sk) ids) with Some _ => 1%Z | None => 0%Z end) /\
      inv sk' ids' /\
      absl (sheap sk') ids' = sl_delete s (absl (sheap sk) ids).
  Proof.
    intro HI.
    set (h := sheap sk). set (L := slevel sk).
    set (f := fun y => go_lt s (score_of h y)).
    set (pre := tw f ids). set (post := dw f ids).
    set (U := upd_at sk ids (go_lt s)).
    pose proof (antitone_lt s) as HA.
    pose proof (pre_post sk ids (go_lt s)) as Hpp. fold h f pre post in Hpp.
    pose proof (i_lvl _ _ HI) as HL. fold L in HL.
    assert (HU : forall i, U i = last_above h i pre 0) by reflexivity.
    assert (HUs : forall i, i < maxLevel ->
              exists r1 r2, 0 :: pre = r1 ++ U i :: r2 /\ i < height h (U i) /\ low h i r2).
    { intros i Hi. rewrite HU. apply last_above_split. unfold h. rewrite (i_hd _ _ HI). exact Hi. }
    pose proof (nxt_stop sk ids (go_lt s) HI) as Hst. fold h f pre post in Hst.
    pose proof (sl_find_split h s ids) as Hfind. fold f post in Hfind.
    pose proof (sl_delete_split h s ids) as Hdel. fold f pre post in Hdel.
    destruct (locate_spec sk ids (go_lt s) HI HA) as [cnt Hloc]. fold h f pre U L in Hloc.
    unfold sk_delete. rewrite Hloc. fold h L. rewrite Hst, Hfind, Hdel.
    clearbody pre post U. clear Hloc Hfind Hdel f.
    destruct post as [|y post']; simpl.
    { exists sk, ids. split; auto. split; auto. fold h. now rewrite app_nil_r in *; subst. }
    fold (eq_score h s y). destruct (eq_score h s y) eqn:Ee.
    2:{ exists sk, ids. split; auto. split; auto. fold h. now rewrite Hpp. }
    (* the node y is unlinked *)
    pose proof (i_nodup _ _ HI) as Hnd. rewrite <- Hpp in Hnd.
    pose proof (i_next _ _ HI) as Hnx. fold h in Hnx. rewrite <- Hpp in Hnx.
    pose proof (i_hts _ _ HI) as Hhts. fold h L in Hhts. rewrite <- Hpp in Hhts.
    assert (Hyh : 1 <= height h y <= L).
    { apply Forall_app in Hhts as [_ H]. now inversion H. }
    assert (Hynx : forall i, i < height h y -> nxt h y i = Some (succ_at h i post')).
    { intros i Hi. apply (Hnx (0 :: pre) y post'); auto. }
    assert (Hypost : ~ In y post').
    { inversion Hnd as [|? ? _ Hnd']; subst. apply nodup_mid_notin in Hnd'. tauto. }
    assert (HUy : forall i, i < maxLevel -> U i <> y).
    { intros i Hi Hc. destruct (HUs i Hi) as (r1 & r2 & E & _).
      change (NoDup ((0 :: pre) ++ y :: post')) in Hnd. apply nodup_mid_notin in Hnd as [N _].
      apply N. rewrite E, Hc. apply in_or_app. right. now left. }
    assert (HUn : forall i, i < maxLevel ->
              nxt h (U i) i = Some (if i <? height h y then Some y else succ_at h i post')).
    { intros i Hi. destruct (HUs i Hi) as (r1 & r2 & E & Hh & Lo).
      rewrite (Hnx r1 (U i) (r2 ++ y :: post')); auto.
      - now rewrite succ_at_low_app.
      - change (0 :: pre ++ y :: post') with ((0 :: pre) ++ y :: post'). rewrite E.
        now rewrite <- app_assoc. }
    assert (Hptr : forall i, i < maxLevel -> is_ptr (nxt h (U i) i) y = (i <? height h y)).
    { intros i Hi. rewrite (HUn i Hi). simpl. destruct (i <? height h y); [apply Nat.eqb_refl|].
      destruct (succ_at h i post') as [w|] eqn:E; auto. apply Nat.eqb_neq. intros ->.
      apply succ_at_some in E as [Hin _]. auto. }
    destruct (unlink_spec y U L 0 h) as (h1 & -> & Hf1 & Hn1).
    { intros i Hi. assert (Hi' : i < maxLevel) by lia. split; [now apply HUy|]. split.
      - destruct (HUs i Hi') as (_ & _ & _ & Hh & _). exact Hh.
      - rewrite (Hptr i Hi'). apply Nat.ltb_lt. }
    assert (Ey1 : forall i, nxt h1 y i = nxt h y i).
    { intro i. rewrite Hn1. destruct (Nat.ltb_spec i (0 + L)) as [Hi|Hi].
      - replace (U i =? y) with false by (symmetry; apply Nat.eqb_neq; apply HUy; lia).
        now rewrite andb_false_r.
      - now rewrite andb_false_r. }
    rewrite Ey1, (Hynx 0) by lia.
    assert (E0 : succ_at h 0 post' = hd_error post').
    { apply succ_at_level0. apply Forall_app in Hhts as [_ H]. inversion H; subst.
      rewrite Forall_forall in *. intros z Hz. specialize (H3 z Hz). lia. }
    rewrite E0.
    set (p := nprev (h1 y)).
    set (h2 := match hd_error post' with Some z => set_prev h1 z p | None => h1 end).
    set (tail' := match hd_error post' with Some _ => stail sk | None => p end).
    assert (Hh2 : forall z, height h2 z = height h z /\ nscore (h2 z) = nscore (h z) /\
                            nval (h2 z) = nval (h z) /\ nnext (h2 z) = nnext (h1 z)).
    { intro z. destruct (Hf1 z) as (A & _ & C & D). unfold h2.
      destruct (hd_error post'); rewrite ?height_set_prev, ?score_set_prev, ?val_set_prev,
        ?next_set_prev; auto. }
    destruct (shrink_spec (nnext (h2 0)) L) as (l' & -> & Hl1 & Hl2 & Hl3).
    { destruct (Hh2 0) as (A & _). unfold height in A. rewrite A. fold (height h 0).
      unfold h. rewrite (i_hd _ _ HI). lia. }
    exists (mkSkl h2 (ssize sk) tail' l' (pred (scount sk)) (sfindc sk)), (pre ++ post').
    split.
    { unfold h2, tail'. destruct (hd_error post'); reflexivity. }
    assert (Ep : p = nprev (h y)) by (unfold p; now destruct (Hf1 y) as (_ & -> & _)).
    split.
    - apply (delete_inv sk ids pre post' y h2 U tail' l' (sfindc sk)); auto; fold h L.
      + intro z. destruct (Hh2 z) as (A & B & C & _). auto.
      + intros z i. destruct (Hh2 z) as (_ & _ & _ & D). unfold nxt at 1. rewrite D.
        fold (nxt h1 z i). rewrite Hn1. simpl. reflexivity.
      + intro z. unfold h2. destruct post' as [|w post'']; simpl.
        * now destruct (Hf1 z) as (_ & -> & _).
        * destruct (Nat.eqb_spec w z) as [->|N].
          -- rewrite prev_set_prev_same. exact Ep.
          -- rewrite prev_set_prev_other by auto. now destruct (Hf1 z) as (_ & -> & _).
      + unfold tail'. rewrite Ep. destruct post'; reflexivity.
      + split; [lia|]. intros m Hm. unfold nxt. apply Hl3. exact Hm.
    - cbn [sheap]. rewrite (delete_abs sk pre post' h2); auto.
      intro z. destruct (Hh2 z) as (A & B & C & _). auto.
  Qed.

  (** ** histories *)
  Lemma step_refines sk ids (o : sop V) rnd :
    inv sk ids ->
    exists sk' ids' rnd',
      sk_step o sk rnd = Ok (sk', rnd', snd (l0_step o (absl (sheap sk) ids))) /\
      inv sk' ids' /\
      absl (sheap sk') ids' = fst (l0_step o (absl (sheap sk) ids)).
  Proof.
    intro HI. destruct o as [s v|s|s|s|s v]; simpl.
    - destruct (sk_insert_spec sk ids s v rnd HI) as (sk' & ids' & -> & HI' & Ea).
      simpl. eauto 6.
    - destruct (sk_delete_spec sk ids s HI) as (sk' & ids' & -> & HI' & Ea).
      simpl. eauto 6.
    - destruct (sk_find_spec sk ids s HI) as (sk' & -> & HI' & Eh).
      simpl. exists sk', ids, rnd. rewrite Eh. auto.
    - destruct (sk_ge_spec sk ids s HI) as (sk' & -> & HI' & Eh).
      simpl. exists sk', ids, rnd. rewrite Eh. auto.
    - destruct (sk_update_spec sk ids s v HI) as (sk' & -> & HI' & Ea).
      simpl. exists sk', ids, rnd. split; auto.
      destruct (sl_find s (absl (sheap sk) ids)); reflexivity.
  Qed.

  Lemma run_refines (ops : list (sop V)) : forall sk ids rnd,
    inv sk ids ->
    exists sk' ids',
      sk_run ops sk rnd = Ok (sk', snd (l0_run ops (absl (sheap sk) ids))) /\
      inv sk' ids' /\
      absl (sheap sk') ids' = fst (l0_run ops (absl (sheap sk) ids)).
  Proof.
    induction ops as [|o ops IH]; intros sk ids rnd HI; simpl.
    - eauto.
    - destruct (step_refines sk ids o rnd HI) as (sk1 & ids1 & rnd1 & -> & HI1 & E1).
      simpl. destruct (l0_step o (absl (sheap sk) ids)) as [l1 r1]. simpl in *.
      destruct (IH sk1 ids1 rnd1 HI1) as (sk2 & ids2 & -> & HI2 & E2).
      simpl. rewrite E1 in *. destruct (l0_run ops l1) as [l2 rs]. simpl in *.
      eauto.
  Qed.

  (** The multi-level model, started empty, never panics or runs out of fuel,
      returns what the level-0 sorted list returns, and its level-0 chain (read
      forwards, and backwards over [prev] from [tail]) is that list — for every
      stream of random numbers. *)
  Theorem skiplist_refines (ms : Z) (mv : V) (rnd : list Z) (ops : list (sop V)) :
    let l := fst (l0_run ops []) in
    exists sk,
      sk_run ops (sk_new ms mv) rnd = Ok (sk, snd (l0_run ops [])) /\
      sk_walk sk = Ok l /\
      sk_back sk = Ok (rev l) /\
      sk_first sk = Ok (hd_error l) /\
      sk_last sk = last_opt l /\
      scount sk = length l.
  Proof.
    intro l.
    destruct (run_refines ops (sk_new ms mv) [] rnd (inv_new ms mv)) as (sk & ids & E & HI & Ea).
    exists sk. split; [exact E|]. simpl in Ea. fold l in Ea.
    destruct (observers sk ids HI) as (A & B & C & D & F). rewrite Ea in *. auto.
  Qed.

  Corollary skiplist_level_independent (ms : Z) (mv : V) (rnd1 rnd2 : list Z) (ops : list (sop V)) :
    exists sk1 sk2 rs,
      sk_run ops (sk_new ms mv) rnd1 = Ok (sk1, rs) /\
      sk_run ops (sk_new ms mv) rnd2 = Ok (sk2, rs) /\
      sk_walk sk1 = sk_walk sk2 /\ sk_back sk1 = sk_back sk2 /\
      sk_first sk1 = sk_first sk2 /\ sk_last sk1 = sk_last sk2 /\ scount sk1 = scount sk2.
  Proof.
    destruct (skiplist_refines ms mv rnd1 ops) as (sk1 & E1 & A1 & B1 & C1 & D1 & F1).
    destruct (skiplist_refines ms mv rnd2 ops) as (sk2 & E2 & A2 & B2 & C2 & D2 & F2).
    exists sk1, sk2, (snd (l0_run ops [])). repeat split; congruence.
  Qed.
End R.

(** ** what the Queue model does with its skip list are such histories *)
Definition insert_ops (it : item) (ql : list (Z * list item)) : list (sop (list item)) :=
  match sl_find (iscore it) ql with
  | None => [SFind (iscore it); SInsert (iscore it) [it]]
  | Some l => [SFind (iscore it); SUpdate (iscore it) (l ++ [it])]
  end.

Definition delete_ops (it : item) (ql : list (Z * list item)) : list (sop (list item)) :=
  match sl_find (iscore it) ql with
  | None => [SFind (iscore it)]
  | Some l =>
      match remove_elem (ihash it) l with
      | [] => [SFind (iscore it); SDelete (iscore it)]
      | l' => [SFind (iscore it); SUpdate (iscore it) l']
      end
  end.

Lemma queue_uses_level0 it ql :
  insert_skip it ql = fst (l0_run (insert_ops it ql) ql) /\
  delete_skip it ql = match sl_find (iscore it) ql with
                      | None => None
                      | Some _ => Some (fst (l0_run (delete_ops it ql) ql))
                      end.
Proof.
  unfold insert_skip, delete_skip, insert_ops, delete_ops.
  destruct (sl_find (iscore it) ql) as [l|]; simpl; split; auto.
  destruct (remove_elem (ihash it) l); reflexivity.
Qed.

(** non-vacuity: a history that builds several levels, deletes in the middle
    and drains; two different level streams *)
Example ex_skip_ops : list (sop Z) :=
  [SInsert 5 1; SInsert 3 2; SInsert 5 3; SInsert 9 4; SInsert (-2) 5; SFind 5; SDelete 5;
   SFind 5; SGe 4; SDelete 7; SUpdate 3 77; SFind 3; SDelete 9; SDelete (-2); SDelete 5; SDelete 3]%Z.

Example ex_skip_levels :
  (exists sk rs, sk_run (firstn 5 ex_skip_ops) (sk_new (-1)%Z 0%Z) [1; 1; 70000; 1; 65535; 3; 3; 3; 65535; 65535]%Z
                 = Ok (sk, rs) /\ slevel sk = 5) /\
  (exists sk rs, sk_run (firstn 5 ex_skip_ops) (sk_new (-1)%Z 0%Z) []%Z = Ok (sk, rs) /\ slevel sk = 1) /\
  fst (l0_run ex_skip_ops []) = [] /\
  fst (l0_run (firstn 12 ex_skip_ops) []) = [(9, 4); (5, 3); (3, 77); (-2, 5)]%Z.
Proof.
  split; [|split; [|split]].
  - eexists. eexists. split; vm_compute; reflexivity.
  - eexists. eexists. split; vm_compute; reflexivity.
  - vm_compute. reflexivity.
  - vm_compute. reflexivity.
Qed.
