(** C24 — the abstract specification: a flat list of items, best first.

    State: the items in yield order.  A new item goes behind every item whose
    score is at least its own (descending scores, ties in arrival order).
    When the list is full the worst item is its last one; a newcomer gets in
    only if it ranks strictly higher than that one (higher score, or equal score
    and the item's own tie-break says Big), and then exactly that one leaves. *)
From Coq Require Import List ZArith NArith Bool.
From C33 Require Import C24.Model.
Import ListNotations.
Open Scope Z_scope.

Fixpoint spec_insert (it : item) (l : list item) : list item :=
  match l with
  | [] => [it]
  | x :: tl => if iscore x >=? iscore it then x :: spec_insert it tl else it :: l
  end.

Definition has_hash (h : N) (x : item) : bool := N.eqb (ihash x) h.

Definition spec_exist (h : N) (l : list item) : bool := existsb (has_hash h) l.
Definition spec_get (h : N) (l : list item) : option item := find (has_hash h) l.
Definition spec_size (l : list item) : Z := Z.of_nat (length l).
Fixpoint spec_bytes (l : list item) : Z :=
  match l with [] => 0 | x :: tl => isize x + spec_bytes tl end.
Definition spec_first (l : list item) : option item := hd_error l.
Definition spec_last (l : list item) : option item := last_opt l.

Definition spec_remove_list (h : N) (l : list item) : list item :=
  filter (fun x => negb (has_hash h x)) l.

(** "ranks strictly higher" *)
Definition ranks_higher (a b : item) : bool :=
  (iscore a >? iscore b) || ((iscore a =? iscore b) && (irank a >? irank b)).

Definition spec_push (cap : Z) (it : item) (l : list item) : list item * err :=
  if spec_exist (ihash it) l then (l, EExist)
  else if spec_size l <? cap then (spec_insert it l, ENone)
  else match spec_last l with
       | None => (l, EFull)
       | Some worst =>
           if ranks_higher it worst then (spec_insert it (removelast l), ENone)
           else (l, EFull)
       end.

Definition spec_remove (h : N) (l : list item) : list item * err :=
  if spec_exist h l then (spec_remove_list h l, ENone) else (l, ENotFound).

Definition spec_walk (count : Z) (l : list item) : list item :=
  if count <=? 0 then l else firstn (Z.to_nat count) l.

Definition spec_step (cap : Z) (o : op) (l : list item) : list item * res :=
  match o with
  | OPush it => let (l', e) := spec_push cap it l in (l', RErr e)
  | ORemove h => let (l', e) := spec_remove h l in (l', RErr e)
  | OWalk c => (l, RList (spec_walk c l))
  end.

Fixpoint spec_run (cap : Z) (ops : list op) (l : list item) : list item * list res :=
  match ops with
  | [] => (l, [])
  | o :: tl => let (l1, r) := spec_step cap o l in
               let (l2, rs) := spec_run cap tl l1 in (l2, r :: rs)
  end.

(** State predicates of the property text (boolean: they are also the oracle). *)
Fixpoint sorted_desc (l : list item) : bool :=
  match l with
  | [] => true
  | x :: tl => match tl with [] => true | y :: _ => (iscore x >=? iscore y) && sorted_desc tl end
  end.

Fixpoint nodup_hash (l : list item) : bool :=
  match l with
  | [] => true
  | x :: tl => negb (spec_exist (ihash x) tl) && nodup_hash tl
  end.

Definition within_cap (cap : Z) (l : list item) : bool :=
  (cap <? 0) || (spec_size l <=? cap).

Definition state_ok (cap : Z) (l : list item) : bool :=
  sorted_desc l && nodup_hash l && within_cap cap l.
