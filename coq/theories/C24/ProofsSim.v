(** C24 — the Queue model simulates the flat-list specification. *)
From Coq Require Import List ZArith NArith Bool Lia Sorted Permutation.
From C33 Require Import C24.Model C24.Spec C24.ProofsSpec.
Import ListNotations.
Open Scope Z_scope.

(** ** SkipValue.Compare *)
Lemma cmp_lt a b : (sv_compare a b <? 0) = (a >? b).
Proof.
  unfold sv_compare, cBig, cEqual, cSmall.
  destruct (Z.gtb_spec a b); [reflexivity|]. destruct (Z.eqb_spec a b); reflexivity.
Qed.

Lemma cmp_eq a b : (sv_compare a b =? 0) = (a =? b).
Proof.
  unfold sv_compare, cBig, cEqual, cSmall.
  destruct (Z.gtb_spec a b).
  - symmetry. apply Z.eqb_neq. lia.
  - destruct (Z.eqb_spec a b); reflexivity.
Qed.

Lemma cmp_le a b : (sv_compare a b <=? 0) = (a >=? b).
Proof.
  unfold sv_compare, cBig, cEqual, cSmall. rewrite Z.geb_leb.
  destruct (Z.gtb_spec a b).
  - symmetry. apply Z.leb_le. lia.
  - destruct (Z.eqb_spec a b).
    + symmetry. apply Z.leb_le. lia.
    + symmetry. apply Z.leb_gt. lia.
Qed.

Lemma cmp_big a b : (sv_compare a b =? cBig) = (a >? b).
Proof.
  unfold sv_compare, cBig, cEqual, cSmall.
  destruct (Z.gtb_spec a b); [reflexivity|]. destruct (Z.eqb_spec a b); reflexivity.
Qed.

Lemma better_ranks it t : better it t = ranks_higher it t.
Proof.
  unfold better, ranks_higher, item_compare, cEqual.
  now rewrite !cmp_big, cmp_eq.
Qed.

(** ** bucket list invariant *)
Definition blist := list (Z * list item).
Definition contents (ql : blist) : list item := concat (map snd ql).

Fixpoint bk_ok (ql : blist) : Prop :=
  match ql with
  | [] => True
  | (s, l) :: tl =>
      l <> [] /\ Forall (fun x => iscore x = s) l /\
      Forall (fun b => fst b < s) tl /\ bk_ok tl
  end.

Lemma bk_scores s ql :
  bk_ok ql -> Forall (fun b => fst b < s) ql -> Forall (fun x => iscore x < s) (contents ql).
Proof.
  induction ql as [|[s' l'] tl IH]; simpl; intros Hb Hf.
  - constructor.
  - destruct Hb as (_ & Hl & _ & Hb). inversion Hf; subst. simpl in *.
    unfold contents in *. simpl. apply Forall_app. split; auto.
    rewrite Forall_forall in *. intros x Hx. rewrite (Hl x Hx). lia.
Qed.

Section FstForall.
  Variable Q : Z -> Prop.
  Let P := fun b : Z * list item => Q (fst b).

  Lemma sl_insert_Forall s v (l : blist) : Forall P l -> Q s -> Forall P (sl_insert s v l).
  Proof.
    induction l as [|[s' v'] tl IH]; simpl; intros H Hq.
    - repeat constructor; auto.
    - inversion H; subst. destruct (sv_compare s' s <=? 0); constructor; auto.
  Qed.

  Lemma sl_update_Forall s v (l : blist) : Forall P l -> Forall P (sl_update s v l).
  Proof.
    induction l as [|[s' v'] tl IH]; simpl; intros H; auto.
    inversion H; subst. destruct (sv_compare s' s <? 0); [constructor; auto|].
    destruct (sv_compare s' s =? 0); auto.
  Qed.

  Lemma sl_delete_Forall s (l : blist) : Forall P l -> Forall P (sl_delete s l).
  Proof.
    induction l as [|[s' v'] tl IH]; simpl; intros H; auto.
    inversion H; subst. destruct (sv_compare s' s <? 0); [constructor; auto|].
    destruct (sv_compare s' s =? 0); auto.
  Qed.

  Lemma insert_skip_Forall it (l : blist) :
    Forall P l -> Q (iscore it) -> Forall P (insert_skip it l).
  Proof.
    intros H Hq. unfold insert_skip. destruct (sl_find (iscore it) l).
    - now apply sl_update_Forall.
    - now apply sl_insert_Forall.
  Qed.

  Lemma delete_skip_Forall it (l l' : blist) :
    Forall P l -> delete_skip it l = Some l' -> Forall P l'.
  Proof.
    intros H. unfold delete_skip. destruct (sl_find (iscore it) l); [|discriminate].
    destruct (remove_elem (ihash it) l0); intro E; inversion E; subst.
    - now apply sl_delete_Forall.
    - now apply sl_update_Forall.
  Qed.
End FstForall.

(** unfolding of insertSkipValue along the list *)
Lemma insert_skip_nil it : insert_skip it [] = [(iscore it, [it])].
Proof. reflexivity. Qed.

Lemma insert_skip_gt it s' l' tl :
  s' > iscore it -> insert_skip it ((s', l') :: tl) = (s', l') :: insert_skip it tl.
Proof.
  intro H. unfold insert_skip. cbn [sl_find sl_insert sl_update].
  rewrite cmp_lt, cmp_le.
  assert (E1 : (s' >? iscore it) = true) by (apply Z.gtb_lt; lia).
  assert (E2 : (s' >=? iscore it) = true) by (rewrite Z.geb_leb; apply Z.leb_le; lia).
  rewrite E1, E2. destruct (sl_find (iscore it) tl); reflexivity.
Qed.

Lemma insert_skip_eq it s' l' tl :
  s' = iscore it -> insert_skip it ((s', l') :: tl) = (s', l' ++ [it]) :: tl.
Proof.
  intro H. unfold insert_skip. cbn [sl_find sl_insert sl_update].
  rewrite cmp_lt, cmp_eq.
  assert (E1 : (s' >? iscore it) = false) by (rewrite Z.gtb_ltb; apply Z.ltb_ge; lia).
  assert (E2 : (s' =? iscore it) = true) by (apply Z.eqb_eq; lia).
  rewrite E1, E2. cbn [sl_update]. rewrite ?cmp_lt, ?cmp_eq, ?E1, ?E2. reflexivity.
Qed.

Lemma insert_skip_lt it s' l' tl :
  s' < iscore it -> insert_skip it ((s', l') :: tl) = (iscore it, [it]) :: (s', l') :: tl.
Proof.
  intro H. unfold insert_skip. cbn [sl_find sl_insert sl_update].
  rewrite cmp_lt, cmp_eq, cmp_le.
  assert (E1 : (s' >? iscore it) = false) by (rewrite Z.gtb_ltb; apply Z.ltb_ge; lia).
  assert (E2 : (s' =? iscore it) = false) by (apply Z.eqb_neq; lia).
  assert (E3 : (s' >=? iscore it) = false) by (rewrite Z.geb_leb; apply Z.leb_gt; lia).
  rewrite E1, E2. cbn [sl_insert]. rewrite ?cmp_le, ?E3. reflexivity.
Qed.

Lemma contents_head_lt s ql :
  bk_ok ql -> Forall (fun b => fst b < s) ql ->
  match contents ql with [] => True | x :: _ => iscore x < s end.
Proof.
  intros Hb Hf. pose proof (bk_scores s ql Hb Hf) as H.
  destruct (contents ql); auto. now inversion H.
Qed.

Lemma insert_skip_sim it ql :
  bk_ok ql ->
  contents (insert_skip it ql) = spec_insert it (contents ql) /\ bk_ok (insert_skip it ql).
Proof.
  induction ql as [|[s' l'] tl IH]; intro Hb.
  - rewrite insert_skip_nil. simpl. repeat split; auto. discriminate.
  - simpl in Hb. destruct Hb as (Hne & Hl & Hlt & Hb).
    destruct (Z.lt_trichotomy s' (iscore it)) as [C|[C|C]].
    + rewrite insert_skip_lt by lia. split.
      * unfold contents. simpl. symmetry. apply spec_insert_lt.
        destruct l' as [|x l']; [contradiction|]. simpl. inversion Hl; subst. lia.
      * simpl. repeat split; auto; try discriminate.
        constructor; [simpl; lia|]. rewrite Forall_forall in *. intros b Hi.
        specialize (Hlt b Hi). lia.
    + rewrite insert_skip_eq by lia. split.
      * unfold contents. simpl. rewrite <- app_assoc. rewrite spec_insert_app_ge.
        -- f_equal. simpl. symmetry. apply spec_insert_lt.
           apply (contents_head_lt (iscore it) tl Hb). now rewrite <- C.
        -- rewrite Forall_forall in *. intros x Hx. rewrite (Hl x Hx). lia.
      * simpl. repeat split; auto.
        -- intro E. apply app_eq_nil in E as [_ E]. discriminate.
        -- apply Forall_app. split; auto.
    + rewrite insert_skip_gt by lia. destruct (IH Hb) as [IC IB]. split.
      * unfold contents in *. simpl. rewrite IC. symmetry. apply spec_insert_app_ge.
        rewrite Forall_forall in *. intros x Hx. rewrite (Hl x Hx). lia.
      * simpl. repeat split; auto.
        apply (insert_skip_Forall (fun z => z < s')); [auto | lia].
Qed.

(** unfolding of deleteSkipValue along the list *)
Lemma delete_skip_gt it s' l' tl :
  s' > iscore it ->
  delete_skip it ((s', l') :: tl) = option_map (cons (s', l')) (delete_skip it tl).
Proof.
  intro H. unfold delete_skip. cbn [sl_find sl_delete sl_update].
  rewrite cmp_lt.
  assert (E1 : (s' >? iscore it) = true) by (apply Z.gtb_lt; lia).
  rewrite E1. destruct (sl_find (iscore it) tl); [|reflexivity].
  destruct (remove_elem (ihash it) l); reflexivity.
Qed.

Lemma delete_skip_eq it s' l' tl :
  s' = iscore it ->
  delete_skip it ((s', l') :: tl) =
  Some (match remove_elem (ihash it) l' with [] => tl | l'' => (s', l'') :: tl end).
Proof.
  intro H. unfold delete_skip. cbn [sl_find sl_delete sl_update].
  rewrite cmp_lt, cmp_eq.
  assert (E1 : (s' >? iscore it) = false) by (rewrite Z.gtb_ltb; apply Z.ltb_ge; lia).
  assert (E2 : (s' =? iscore it) = true) by (apply Z.eqb_eq; lia).
  rewrite E1, E2. destruct (remove_elem (ihash it) l'); reflexivity.
Qed.

Lemma remove_elem_Forall (P : item -> Prop) h l : Forall P l -> Forall P (remove_elem h l).
Proof.
  induction l as [|x l IH]; simpl; intro H; auto. inversion H; subst.
  destruct (N.eqb (ihash x) h); auto.
Qed.

Lemma delete_skip_sim it ql :
  bk_ok ql -> NoDup (hashes (contents ql)) -> In it (contents ql) ->
  exists ql', delete_skip it ql = Some ql' /\
    contents ql' = spec_remove_list (ihash it) (contents ql) /\ bk_ok ql'.
Proof.
  induction ql as [|[s' l'] tl IH]; intros Hb Hn Hi.
  - contradiction.
  - simpl in Hb. destruct Hb as (Hne & Hl & Hlt & Hb).
    unfold contents in Hn, Hi. simpl in Hn, Hi. fold (contents tl) in Hn, Hi.
    unfold hashes in Hn. rewrite map_app in Hn.
    destruct (nodup_app_inv _ _ Hn) as (Hn1 & Hn2 & Hdis).
    apply in_app_or in Hi as [Hi|Hi].
    + (* the item sits in this bucket *)
      assert (C : s' = iscore it) by (rewrite Forall_forall in Hl; symmetry; auto).
      rewrite delete_skip_eq by auto.
      set (ql' := match remove_elem (ihash it) l' with [] => tl | l'' => (s', l'') :: tl end).
      exists ql'. split; [reflexivity|].
      assert (EC : contents ql' = remove_elem (ihash it) l' ++ contents tl).
      { unfold ql'. destruct (remove_elem (ihash it) l'); reflexivity. }
      split.
      * rewrite EC. unfold contents at 2. simpl. fold (contents tl).
        unfold spec_remove_list. rewrite filter_app. f_equal.
        -- now apply remove_elem_filter.
        -- symmetry. apply filter_no_hash. apply Hdis. now apply in_map.
      * pose proof (remove_elem_Forall _ (ihash it) l' Hl) as Hl2.
        unfold ql'. destruct (remove_elem (ihash it) l') eqn:ER; auto.
        simpl. repeat split; auto. discriminate.
    + (* the item sits further down: this bucket has a larger score *)
      pose proof (bk_scores s' tl Hb Hlt) as Hsc. rewrite Forall_forall in Hsc.
      specialize (Hsc it Hi).
      rewrite delete_skip_gt by lia.
      destruct (IH Hb Hn2 Hi) as (tl' & E & EC & Hb').
      rewrite E. simpl. eexists. split; [reflexivity|]. split.
      * unfold contents. simpl. fold (contents tl') (contents tl). rewrite EC.
        unfold spec_remove_list. rewrite filter_app. f_equal.
        symmetry. apply filter_no_hash. intro Hh. apply (Hdis _ Hh). now apply in_map.
      * simpl. repeat split; auto.
        eapply (delete_skip_Forall (fun z => z < s')); eauto.
Qed.

Lemma last_opt_contents ql :
  bk_ok ql ->
  last_opt (contents ql) =
  match last_opt ql with None => None | Some (_, b) => last_opt b end.
Proof.
  induction ql as [|[s l] tl IH]; intro Hb; auto.
  simpl in Hb. destruct Hb as (Hne & _ & _ & Hb).
  unfold contents. simpl. fold (contents tl).
  destruct tl as [|b tl'].
  - simpl. now rewrite app_nil_r.
  - rewrite last_opt_app.
    + rewrite (IH Hb). reflexivity.
    + destruct b as [s2 l2]. simpl in Hb. destruct Hb as (Hne2 & _).
      unfold contents. simpl. intro E. apply app_eq_nil in E as [E _]. contradiction.
Qed.

(** ** txMap *)
Definition map_ok (m : tmap) (l : list item) : Prop :=
  NoDup (map fst m) /\ length m = length l /\
  forall h it, map_get h m = Some it <-> (In it l /\ ihash it = h).

Lemma map_get_in h m it : map_get h m = Some it -> In h (map fst m).
Proof.
  induction m as [|[k v] m IH]; simpl; [discriminate|].
  destruct (N.eqb_spec k h); auto.
Qed.

Lemma map_get_notin h m : ~ In h (map fst m) -> map_get h m = None.
Proof.
  intro H. destruct (map_get h m) eqn:E; auto. exfalso. eauto using map_get_in.
Qed.

Lemma map_del_notin h m : ~ In h (map fst m) -> map_del h m = m.
Proof.
  induction m as [|[k v] m IH]; simpl; intro H; auto.
  destruct (N.eqb_spec k h); simpl.
  - exfalso. apply H. now left.
  - f_equal. apply IH. intro. apply H. now right.
Qed.

Lemma map_del_keys h m x : In x (map fst (map_del h m)) -> In x (map fst m) /\ x <> h.
Proof.
  unfold map_del. rewrite !in_map_iff. intros ([k v] & E & Hi). simpl in E. subst.
  apply filter_In in Hi as [Hi Hk]. simpl in Hk. apply negb_true_iff, N.eqb_neq in Hk.
  split; auto. exists (x, v). auto.
Qed.

Lemma map_del_nodup h m : NoDup (map fst m) -> NoDup (map fst (map_del h m)).
Proof.
  induction m as [|[k v] m IH]; simpl; intro H; auto.
  inversion H as [|? ? Hn Hd]; subst. destruct (N.eqb k h); simpl; auto.
  constructor; auto. intro Hi. apply map_del_keys in Hi. tauto.
Qed.

Lemma map_del_get h h' m :
  map_get h' (map_del h m) = if N.eqb h' h then None else map_get h' m.
Proof.
  induction m as [|[k v] m IH]; simpl.
  - now destruct (N.eqb h' h).
  - destruct (N.eqb_spec k h); simpl.
    + subst. destruct (N.eqb_spec h h').
      * subst. rewrite N.eqb_refl in IH. rewrite N.eqb_refl. exact IH.
      * rewrite IH. reflexivity.
    + destruct (N.eqb_spec k h'); auto.
      subst. destruct (N.eqb_spec h' h); congruence.
Qed.

Lemma map_del_length h m it :
  NoDup (map fst m) -> map_get h m = Some it -> S (length (map_del h m)) = length m.
Proof.
  induction m as [|[k v] m IH]; simpl; intros Hn Hg; [discriminate|].
  inversion Hn as [|? ? Hni Hd]; subst.
  destruct (N.eqb_spec k h); simpl.
  - subst. now rewrite map_del_notin.
  - f_equal. auto.
Qed.

Lemma map_ok_mem m l h : map_ok m l -> map_mem h m = spec_exist h l.
Proof.
  intros (_ & _ & Hg). unfold map_mem.
  destruct (map_get h m) eqn:E.
  - apply Hg in E as [Hi Hh]. symmetry. apply spec_exist_in. subst. now apply in_map.
  - symmetry. apply spec_exist_false. intro Hi. unfold hashes in Hi.
    apply in_map_iff in Hi as (x & Hx & Hi).
    assert (map_get h m = Some x) by (apply Hg; auto). congruence.
Qed.

Lemma map_ok_get m l h : map_ok m l -> map_get h m = spec_get h l.
Proof.
  intros (_ & _ & Hg). unfold spec_get.
  destruct (find (has_hash h) l) eqn:E.
  - apply find_some in E as [Hi Hh]. apply has_hash_true in Hh. apply Hg. auto.
  - destruct (map_get h m) eqn:E2; auto. apply Hg in E2 as [Hi Hh].
    pose proof (find_none _ _ E _ Hi) as Hf. apply has_hash_true in Hh. congruence.
Qed.

(** ** the simulation relation *)
Record R (cap : Z) (q : queue) (l : list item) : Prop := mkR {
  R_cap : qcap q = cap;
  R_bk : bk_ok (qlist q);
  R_cont : q_contents q = l;
  R_map : map_ok (qmap q) l;
  R_bytes : qbytes q = spec_bytes l;
  R_nodup : NoDup (hashes l);
  R_sorted : StronglySorted score_ge l;
  R_within : 0 <= cap -> spec_size l <= cap }.

Lemma R_new cap : R cap (newq cap) [].
Proof.
  constructor; simpl; auto.
  all: try (now constructor).
  split; [constructor|]. split; [reflexivity|]. intros h it. split.
  - discriminate.
  - intros [[] _].
Qed.

Lemma R_size cap q l : R cap q l -> q_size q = spec_size l.
Proof. intros H. destruct (R_map _ _ _ H) as (_ & E & _). unfold q_size, spec_size. now rewrite E. Qed.

Lemma spec_bytes_app a b : spec_bytes (a ++ b) = spec_bytes a + spec_bytes b.
Proof. induction a; simpl; lia. Qed.

Lemma spec_bytes_remove l it :
  NoDup (hashes l) -> In it l ->
  spec_bytes (spec_remove_list (ihash it) l) = spec_bytes l - isize it.
Proof.
  induction l as [|x l IH]; simpl; intros Hn Hi; [contradiction|].
  inversion Hn as [|? ? Hni Hd]; subst.
  destruct Hi as [->|Hi].
  - unfold has_hash at 1. rewrite N.eqb_refl. simpl.
    unfold spec_remove_list in *. rewrite filter_no_hash by auto. lia.
  - destruct (has_hash (ihash it) x) eqn:E; simpl.
    + apply has_hash_true in E. exfalso. apply Hni. rewrite E. now apply in_map.
    + rewrite IH by auto. lia.
Qed.

Lemma remove_list_length l it :
  NoDup (hashes l) -> In it l ->
  S (length (spec_remove_list (ihash it) l)) = length l.
Proof.
  induction l as [|x l IH]; simpl; intros Hn Hi; [contradiction|].
  inversion Hn as [|? ? Hni Hd]; subst.
  destruct Hi as [->|Hi].
  - unfold has_hash at 1. rewrite N.eqb_refl. simpl.
    unfold spec_remove_list in *. now rewrite filter_no_hash by auto.
  - destruct (has_hash (ihash it) x) eqn:E; simpl.
    + apply has_hash_true in E. exfalso. apply Hni. rewrite E. now apply in_map.
    + f_equal. auto.
Qed.

(** Insert of an absent hash (capacity is the caller's business). *)
Lemma sim_insert cap q l it :
  R cap q l -> ~ In (ihash it) (hashes l) -> (0 <= cap -> spec_size l < cap) ->
  R cap (q_insert (ihash it) it q) (spec_insert it l).
Proof.
  intros H Hni Hroom. destruct H as [Hc Hb Hco Hm Hby Hn Hs Hw].
  destruct (insert_skip_sim it (qlist q) Hb) as [IC IB].
  unfold q_contents in Hco. fold (contents (qlist q)) in Hco.
  constructor; simpl; auto.
  - unfold q_contents. simpl. fold (contents (insert_skip it (qlist q))). now rewrite IC, Hco.
  - destruct Hm as (Hk & Hlen & Hg).
    assert (Hnk : ~ In (ihash it) (map fst (qmap q))).
    { intro Hi. destruct (map_get (ihash it) (qmap q)) eqn:E.
      - apply Hg in E as [Hi2 Hh]. apply Hni. rewrite <- Hh. now apply in_map.
      - clear - Hi E. induction (qmap q) as [|[k v] m IH]; simpl in *; auto.
        destruct (N.eqb_spec k (ihash it)); [discriminate|]. destruct Hi; auto. }
    unfold map_set. rewrite map_del_notin by auto. repeat split.
    + simpl. constructor; auto.
    + simpl. now rewrite spec_insert_length, Hlen.
    + simpl in H. destruct (N.eqb_spec (ihash it) h).
      * apply spec_insert_in. left. congruence.
      * apply Hg in H as [H _]. apply spec_insert_in. now right.
    + simpl in H. destruct (N.eqb_spec (ihash it) h).
      * congruence.
      * apply Hg in H. tauto.
    + intros [Hi Hh]. simpl. apply spec_insert_in in Hi as [->|Hi].
      * subst. now rewrite N.eqb_refl.
      * destruct (N.eqb_spec (ihash it) h).
        -- exfalso. apply Hni. rewrite e, <- Hh. now apply in_map.
        -- apply Hg. auto.
  - rewrite spec_insert_bytes. lia.
  - now apply spec_insert_hashes.
  - now apply spec_insert_sorted.
  - intro Hc0. specialize (Hroom Hc0). unfold spec_size in *. rewrite spec_insert_length. lia.
Qed.

(** Remove. *)
Lemma sim_remove cap q l h :
  R cap q l ->
  R cap (fst (q_remove h q)) (fst (spec_remove h l)) /\
  snd (q_remove h q) = snd (spec_remove h l).
Proof.
  intros H. pose proof H as [Hc Hb Hco Hm Hby Hn Hs Hw].
  unfold q_remove, spec_remove.
  rewrite <- (map_ok_mem _ _ h Hm). unfold map_mem.
  destruct (map_get h (qmap q)) as [it|] eqn:E; [|simpl; auto].
  pose proof Hm as (Hk & Hlen & Hg). apply Hg in E as E'. destruct E' as [Hi Hh]. subst h.
  unfold q_contents in Hco. fold (contents (qlist q)) in Hco.
  destruct (delete_skip_sim it (qlist q) Hb) as (ql' & ED & EC & Hb'); try (rewrite Hco; auto).
  rewrite ED. simpl. split; auto.
  constructor; simpl; auto.
  - unfold q_contents. simpl. fold (contents ql'). now rewrite EC, Hco.
  - repeat split.
    + now apply map_del_nodup.
    + pose proof (map_del_length _ _ _ Hk E). pose proof (remove_list_length _ _ Hn Hi). lia.
    + rewrite map_del_get in H0. destruct (N.eqb_spec h (ihash it)); [discriminate|].
      apply Hg in H0 as [A B]. apply in_remove_list. split; auto. congruence.
    + rewrite map_del_get in H0. destruct (N.eqb_spec h (ihash it)); [discriminate|].
      apply Hg in H0. tauto.
    + intros [A B]. apply in_remove_list in A as [A A']. rewrite map_del_get.
      destruct (N.eqb_spec h (ihash it)); [congruence|]. apply Hg. auto.
  - rewrite spec_bytes_remove by auto. lia.
  - now apply hashes_filter_nodup.
  - now apply ssorted_filter.
  - intro Hc0. specialize (Hw Hc0). unfold spec_size in *.
    pose proof (remove_list_length _ _ Hn Hi). lia.
Qed.

Lemma R_last cap q l :
  R cap q l ->
  q_last q = match last_opt l with None => LNil | Some t => LItem t end.
Proof.
  intro H. pose proof (R_size _ _ _ H) as Hsz. destruct H as [Hc Hb Hco Hm Hby Hn Hs Hw].
  unfold q_last. rewrite Hsz. unfold spec_size.
  unfold q_contents in Hco. fold (contents (qlist q)) in Hco.
  pose proof (last_opt_contents _ Hb) as HL. rewrite Hco in HL.
  destruct l as [|x l'].
  - reflexivity.
  - replace (Z.of_nat (length (x :: l')) =? 0) with false
      by (symmetry; apply Z.eqb_neq; simpl; lia).
    destruct (last_opt (x :: l')) eqn:EL.
    + destruct (last_opt (qlist q)) as [[s b]|]; [|discriminate]. now rewrite <- HL.
    + apply last_opt_none in EL. discriminate.
Qed.

Lemma R_first cap q l :
  R cap q l ->
  q_first q = match l with [] => LNil | t :: _ => LItem t end.
Proof.
  intro H. pose proof (R_size _ _ _ H) as Hsz. destruct H as [Hc Hb Hco Hm Hby Hn Hs Hw].
  unfold q_first. rewrite Hsz. unfold spec_size.
  unfold q_contents in Hco.
  destruct l as [|x l']; [reflexivity|].
  replace (Z.of_nat (length (x :: l')) =? 0) with false
    by (symmetry; apply Z.eqb_neq; simpl; lia).
  destruct (qlist q) as [|[s b] tl]; [discriminate|].
  simpl in Hb. destruct Hb as (Hne & _). destruct b as [|y b]; [contradiction|].
  simpl in Hco. now inversion Hco.
Qed.

(** Push.  With capacity <= 0 the empty queue is "full" and has no tail: both
    sides answer ErrMemFull. *)
Lemma sim_push cap q l it :
  R cap q l ->
  R cap (fst (q_push it q)) (fst (spec_push cap it l)) /\
  snd (q_push it q) = snd (spec_push cap it l).
Proof.
  intros H. pose proof H as [Hc Hb Hco Hm Hby Hn Hs Hw].
  unfold q_push, spec_push, q_exist.
  rewrite (map_ok_mem _ _ (ihash it) Hm).
  destruct (spec_exist (ihash it) l) eqn:EX; [simpl; auto|].
  apply spec_exist_false in EX.
  rewrite (R_size _ _ _ H), Hc.
  destruct (spec_size l <? cap) eqn:EF.
  - (* room *)
    apply Z.ltb_lt in EF.
    replace (spec_size l >=? cap) with false by (symmetry; rewrite Z.geb_leb; apply Z.leb_gt; lia).
    simpl. split; auto. apply sim_insert; auto.
  - apply Z.ltb_ge in EF.
    replace (spec_size l >=? cap) with true by (symmetry; rewrite Z.geb_leb; apply Z.leb_le; lia).
    rewrite (R_last _ _ _ H). unfold spec_last.
    destruct (last_opt l) as [t|] eqn:EL.
    + rewrite better_ranks. destruct (ranks_higher it t) eqn:EB; [|simpl; auto].
      pose proof (last_opt_some _ _ EL) as El.
      assert (Hit : In t l) by (rewrite El; apply in_or_app; right; now left).
      destruct (sim_remove cap q l (ihash t) H) as [HR HE].
      unfold spec_remove in HR, HE.
      assert (EXt : spec_exist (ihash t) l = true) by (apply spec_exist_in; now apply in_map).
      rewrite EXt in HR, HE. simpl in HR, HE.
      assert (ERL : spec_remove_list (ihash t) l = removelast l).
      { rewrite El at 1. rewrite remove_last_hash; auto. now rewrite <- El. }
      rewrite ERL in HR.
      destruct (q_remove (ihash t) q) as [q' e] eqn:EQ. simpl in HR, HE. subst e.
      simpl. split; auto. apply sim_insert; auto.
      * intro Hi. apply EX. unfold hashes in *. apply in_map_iff in Hi as (x & Ex & Hx).
        apply in_map_iff. exists x. split; auto. rewrite El. apply in_or_app. now left.
      * intro Hc0. specialize (Hw Hc0). unfold spec_size in *.
        rewrite El in Hw. rewrite app_length in Hw. simpl in Hw. lia.
    + apply last_opt_none in EL. revert EL; intros ->. simpl. split; auto.
Qed.
