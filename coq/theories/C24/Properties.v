(** C24 — property theorems only. *)
From Coq Require Import List ZArith NArith Sorted.
From C33 Require Import C24.Model C24.Spec C24.ProofsSpec C24.ProofsSim C24.Proofs.
From C33 Require Import C24.SkipModel C24.SkipRun.
Import ListNotations.
Open Scope Z_scope.

(** Every observable of every history equals that of the sorted-list specification. *)
Theorem C24_refines_sorted_list : forall cap ops,
  snd (q_run ops (newq cap)) = snd (spec_run cap ops []) /\
  q_walk 0 (q_final cap ops) = fst (spec_run cap ops []).
Proof. exact refines. Qed.
Print Assumptions C24_refines_sorted_list.

Theorem C24_order : forall cap ops,
  StronglySorted (fun a b => iscore a >= iscore b) (q_walk 0 (q_final cap ops)).
Proof. exact order_final. Qed.
Print Assumptions C24_order.

Theorem C24_fifo_ties : forall cap ops,
  stamps_from 0 ops ->
  StronglySorted
    (fun a b => iscore a > iscore b \/ (iscore a = iscore b /\ (iseq a < iseq b)%N))
    (q_walk 0 (q_final cap ops)).
Proof. exact fifo_final. Qed.
Print Assumptions C24_fifo_ties.

Theorem C24_capacity : forall cap ops,
  0 <= cap ->
  q_size (q_final cap ops) <= cap /\
  Z.of_nat (length (q_walk 0 (q_final cap ops))) <= cap.
Proof. exact capacity_final. Qed.
Print Assumptions C24_capacity.

Theorem C24_no_duplicates : forall cap ops,
  NoDup (map ihash (q_walk 0 (q_final cap ops))).
Proof. exact nodup_final. Qed.
Print Assumptions C24_no_duplicates.

Theorem C24_observers_agree : forall cap ops,
  let q := q_final cap ops in
  let w := q_walk 0 q in
  (forall h, q_exist h q = existsb (fun x => N.eqb (ihash x) h) w) /\
  (forall h, q_get h q = find (fun x => N.eqb (ihash x) h) w) /\
  q_size q = Z.of_nat (length w) /\
  q_bytes q = spec_bytes w /\
  q_first q = match w with [] => LNil | t :: _ => LItem t end /\
  q_last q = match last_opt w with None => LNil | Some t => LItem t end /\
  (forall c, q_walk c q = if c <=? 0 then w else firstn (Z.to_nat c) w).
Proof. exact observers_final. Qed.
Print Assumptions C24_observers_agree.

(** Admission: with room the newcomer is inserted behind all items scoring at
    least as much; on a full queue exactly the last (worst) item leaves, and only
    for a newcomer that ranks strictly higher than it. *)
Theorem C24_push_rule : forall cap ops it,
  let q := q_final cap ops in
  let w := q_walk 0 q in
  let r := q_push it q in
  let w' := q_walk 0 (fst r) in
  snd r = ENone ->
  (q_size q < cap /\ w' = spec_insert it w) \/
  (cap <= q_size q /\ exists rest worst,
      w = rest ++ [worst] /\
      ((iscore it >? iscore worst)
       || ((iscore it =? iscore worst) && (irank it >? irank worst)))%bool = true /\
      w' = spec_insert it rest).
Proof. exact push_rule. Qed.
Print Assumptions C24_push_rule.

Theorem C24_reject_unchanged : forall cap ops it,
  let q := q_final cap ops in
  snd (q_push it q) <> ENone -> fst (q_push it q) = q.
Proof. exact reject_unchanged. Qed.
Print Assumptions C24_reject_unchanged.

Theorem C24_remove_rule : forall cap ops h,
  let q := q_final cap ops in
  let w := q_walk 0 q in
  let r := q_remove h q in
  (q_exist h q = true ->
     snd r = ENone /\
     q_walk 0 (fst r) = filter (fun x => negb (N.eqb (ihash x) h)) w) /\
  (q_exist h q = false -> snd r = ENotFound /\ fst r = q).
Proof. exact remove_rule. Qed.
Print Assumptions C24_remove_rule.

(** What [spec_insert] does: stable insertion. *)
Theorem C24_insert_position : forall it l,
  StronglySorted (fun a b => iscore a >= iscore b) l ->
  exists l1 l2, l = l1 ++ l2 /\ spec_insert it l = l1 ++ it :: l2 /\
    Forall (fun x => iscore x >= iscore it) l1 /\
    Forall (fun x => iscore x < iscore it) l2.
Proof. exact spec_insert_split. Qed.
Print Assumptions C24_insert_position.

(** Push is total (never a nil dereference), for every capacity including <= 0. *)
Theorem C24_push_total : forall cap ops it,
  snd (q_push it (q_final cap ops)) <> EPanic.
Proof. exact push_total. Qed.
Print Assumptions C24_push_total.

(** Layer 2.  The multi-level skip list (nodes with next arrays, prev, tail,
    level; random levels drawn from an arbitrary stream [rnd]) started empty:
    every history of Insert / Delete / Find / FindGreaterOrEqual / in-place
    update runs without nil dereference, index error or unbounded loop, returns
    exactly what the level-0 sorted list of the Queue model returns
    ([sl_insert] / [sl_delete] / [sl_find] / [sl_update]), and its level-0 chain
    read forwards (Walk), backwards over prev from tail (Iterator.Last / Prev),
    First, Last and Len are those of that list. *)
Theorem C24_skiplist_refines_level0 :
  forall (V : Type) (ms : Z) (mv : V) (rnd : list Z) (ops : list (sop V)),
  let l := fst (l0_run ops []) in
  exists sk,
    sk_run ops (sk_new ms mv) rnd = Ok (sk, snd (l0_run ops [])) /\
    sk_walk sk = Ok l /\
    sk_back sk = Ok (rev l) /\
    sk_first sk = Ok (hd_error l) /\
    sk_last sk = last_opt l /\
    scount sk = length l.
Proof. exact @skiplist_refines. Qed.
Print Assumptions C24_skiplist_refines_level0.

(** Results and contents do not depend on the level stream. *)
Theorem C24_skiplist_level_independent :
  forall (V : Type) (ms : Z) (mv : V) (rnd1 rnd2 : list Z) (ops : list (sop V)),
  exists sk1 sk2 rs,
    sk_run ops (sk_new ms mv) rnd1 = Ok (sk1, rs) /\
    sk_run ops (sk_new ms mv) rnd2 = Ok (sk2, rs) /\
    sk_walk sk1 = sk_walk sk2 /\ sk_back sk1 = sk_back sk2 /\
    sk_first sk1 = sk_first sk2 /\ sk_last sk1 = sk_last sk2 /\ scount sk1 = scount sk2.
Proof. exact @skiplist_level_independent. Qed.
Print Assumptions C24_skiplist_level_independent.

(** What the Queue model does with its skip list (insertSkipValue /
    deleteSkipValue) are such histories. *)
Theorem C24_queue_uses_level0 : forall it ql,
  insert_skip it ql = fst (l0_run (insert_ops it ql) ql) /\
  delete_skip it ql = match sl_find (iscore it) ql with
                      | None => None
                      | Some _ => Some (fst (l0_run (delete_ops it ql) ql))
                      end.
Proof. exact queue_uses_level0. Qed.
Print Assumptions C24_queue_uses_level0.
