(** C24 — history-level results about the Queue model. *)
From Coq Require Import List ZArith NArith Bool Lia Sorted Permutation.
From C33 Require Import C24.Model C24.Spec C24.ProofsSpec C24.ProofsSim.
Import ListNotations.
Open Scope Z_scope.

(** ** simulation along histories *)
Lemma walk_sim cap q l c : R cap q l -> q_walk c q = spec_walk c l.
Proof.
  intro H. unfold q_walk, spec_walk. rewrite (R_cont _ _ _ H). apply take_count_spec.
Qed.

Lemma walk0_contents q : q_walk 0 q = q_contents q.
Proof. unfold q_walk. apply take_count_all. lia. Qed.

Lemma sim_step cap o q l :
  R cap q l ->
  R cap (fst (q_step o q)) (fst (spec_step cap o l)) /\
  snd (q_step o q) = snd (spec_step cap o l).
Proof.
  intro H. destruct o as [it|h|c]; simpl.
  - destruct (sim_push cap q l it H) as [HR HE].
    destruct (q_push it q) as [q' e], (spec_push cap it l) as [l' e']. simpl in *.
    split; auto. now subst.
  - destruct (sim_remove cap q l h H) as [HR HE].
    destruct (q_remove h q) as [q' e], (spec_remove h l) as [l' e']. simpl in *.
    split; auto. now subst.
  - split; auto. now rewrite (walk_sim cap q l c H).
Qed.

Lemma sim_run cap ops : forall q l,
  R cap q l ->
  R cap (fst (q_run ops q)) (fst (spec_run cap ops l)) /\
  snd (q_run ops q) = snd (spec_run cap ops l).
Proof.
  induction ops as [|o ops IH]; intros q l H; simpl.
  - auto.
  - destruct (sim_step cap o q l H) as [HR HE].
    destruct (q_step o q) as [q1 r], (spec_step cap o l) as [l1 r']. simpl in *.
    destruct (IH q1 l1 HR) as [HR2 HE2].
    destruct (q_run ops q1) as [q2 rs], (spec_run cap ops l1) as [l2 rs']. simpl in *.
    split; auto. now rewrite HE, HE2.
Qed.

Definition spec_final (cap : Z) (ops : list op) : list item := fst (spec_run cap ops []).

Lemma R_final cap ops : R cap (q_final cap ops) (spec_final cap ops).
Proof. apply sim_run. apply R_new. Qed.

Lemma refines cap ops :
  snd (q_run ops (newq cap)) = snd (spec_run cap ops []) /\
  q_walk 0 (q_final cap ops) = spec_final cap ops.
Proof.
  split.
  - apply sim_run. apply R_new.
  - rewrite walk0_contents. apply (R_cont _ _ _ (R_final cap ops)).
Qed.

(** ** state properties after every history *)
Lemma order_final cap ops : StronglySorted score_ge (q_walk 0 (q_final cap ops)).
Proof.
  rewrite walk0_contents, (R_cont _ _ _ (R_final cap ops)).
  apply (R_sorted _ _ _ (R_final cap ops)).
Qed.

Lemma nodup_final cap ops : NoDup (map ihash (q_walk 0 (q_final cap ops))).
Proof.
  rewrite walk0_contents, (R_cont _ _ _ (R_final cap ops)).
  apply (R_nodup _ _ _ (R_final cap ops)).
Qed.

Lemma capacity_final cap ops :
  0 <= cap ->
  q_size (q_final cap ops) <= cap /\
  Z.of_nat (length (q_walk 0 (q_final cap ops))) <= cap.
Proof.
  intro Hc. pose proof (R_final cap ops) as H.
  rewrite walk0_contents, (R_cont _ _ _ H), (R_size _ _ _ H).
  pose proof (R_within _ _ _ H Hc). unfold spec_size in *. auto.
Qed.

Definition first_of (w : list item) : lres :=
  match w with [] => LNil | t :: _ => LItem t end.
Definition last_of (w : list item) : lres :=
  match last_opt w with None => LNil | Some t => LItem t end.

Lemma observers_final cap ops :
  let q := q_final cap ops in
  let w := q_walk 0 q in
  (forall h, q_exist h q = spec_exist h w) /\
  (forall h, q_get h q = spec_get h w) /\
  q_size q = Z.of_nat (length w) /\
  q_bytes q = spec_bytes w /\
  q_first q = first_of w /\
  q_last q = last_of w /\
  (forall c, q_walk c q = spec_walk c w).
Proof.
  intros q w. pose proof (R_final cap ops) as H. fold q in H.
  assert (Ew : w = spec_final cap ops).
  { unfold w. rewrite walk0_contents. apply (R_cont _ _ _ H). }
  rewrite Ew. repeat split.
  - intro h. apply map_ok_mem. apply (R_map _ _ _ H).
  - intro h. apply map_ok_get. apply (R_map _ _ _ H).
  - apply (R_size _ _ _ H).
  - apply (R_bytes _ _ _ H).
  - apply (R_first _ _ _ H).
  - apply (R_last _ _ _ H).
  - intro c. apply (walk_sim _ _ _ c H).
Qed.

(** ** the admission rule *)
Lemma spec_push_rule cap it l l' :
  spec_push cap it l = (l', ENone) ->
  (spec_size l < cap /\ l' = spec_insert it l) \/
  (cap <= spec_size l /\ exists rest worst,
      l = rest ++ [worst] /\ ranks_higher it worst = true /\ l' = spec_insert it rest).
Proof.
  unfold spec_push. destruct (spec_exist (ihash it) l); [discriminate|].
  destruct (spec_size l <? cap) eqn:EF.
  - intro E. inversion E. left. apply Z.ltb_lt in EF. auto.
  - apply Z.ltb_ge in EF. unfold spec_last.
    destruct (last_opt l) as [t|] eqn:EL; [|discriminate].
    destruct (ranks_higher it t) eqn:EB; [|discriminate].
    intro E. inversion E. right. split; auto.
    exists (removelast l), t. repeat split; auto. now apply last_opt_some.
Qed.

Lemma push_rule cap ops it :
  let q := q_final cap ops in
  let w := q_walk 0 q in
  let r := q_push it q in
  let w' := q_walk 0 (fst r) in
  snd r = ENone ->
  (q_size q < cap /\ w' = spec_insert it w) \/
  (cap <= q_size q /\ exists rest worst,
      w = rest ++ [worst] /\ ranks_higher it worst = true /\ w' = spec_insert it rest).
Proof.
  intros q w r w' He. pose proof (R_final cap ops) as H. fold q in H.
  destruct (sim_push cap q _ it H) as [HR HE]. fold r in HR, HE.
  assert (HE' : snd (spec_push cap it (spec_final cap ops)) = ENone).
  { rewrite <- HE. exact He. }
  unfold w', w. rewrite !walk0_contents.
  rewrite (R_cont _ _ _ HR), (R_cont _ _ _ H), (R_size _ _ _ H).
  apply spec_push_rule.
  destruct (spec_push cap it (spec_final cap ops)) as [l' e]. simpl in HE' |- *. now rewrite HE'.
Qed.

Lemma reject_unchanged_R cap q l it :
  R cap q l -> snd (q_push it q) <> ENone -> fst (q_push it q) = q.
Proof.
  intros H. unfold q_push.
  destruct (q_exist (ihash it) q); [reflexivity|].
  destruct (q_size q >=? qcap q); [|simpl; congruence].
  rewrite (R_last _ _ _ H).
  destruct (last_opt l) as [t|] eqn:EL; [|reflexivity].
  destruct (better it t); [|reflexivity].
  pose proof (last_opt_some _ _ EL) as El.
  assert (Hit : In t l) by (rewrite El; apply in_or_app; right; now left).
  destruct (sim_remove cap q l (ihash t) H) as [_ HE].
  unfold spec_remove in HE.
  assert (EXt : spec_exist (ihash t) l = true) by (apply spec_exist_in; now apply in_map).
  rewrite EXt in HE. simpl in HE.
  destruct (q_remove (ihash t) q) as [q' e]. simpl in HE. subst e. simpl. congruence.
Qed.

Lemma reject_unchanged cap ops it :
  let q := q_final cap ops in
  snd (q_push it q) <> ENone -> fst (q_push it q) = q.
Proof. intros q. apply (reject_unchanged_R cap q _ it (R_final cap ops)). Qed.

Lemma remove_rule cap ops h :
  let q := q_final cap ops in
  let w := q_walk 0 q in
  let r := q_remove h q in
  (q_exist h q = true ->
     snd r = ENone /\ q_walk 0 (fst r) = spec_remove_list h w) /\
  (q_exist h q = false -> snd r = ENotFound /\ fst r = q).
Proof.
  intros q w r. pose proof (R_final cap ops) as H. fold q in H.
  destruct (sim_remove cap q _ h H) as [HR HE]. fold r in HR, HE.
  assert (EX : q_exist h q = spec_exist h (spec_final cap ops)).
  { apply map_ok_mem. apply (R_map _ _ _ H). }
  unfold w. rewrite !walk0_contents, (R_cont _ _ _ HR), (R_cont _ _ _ H), EX.
  unfold spec_remove in HR, HE |- *. split; intro E.
  - rewrite E in HE; rewrite ?E. simpl in *. split; auto.
  - rewrite E in HE; rewrite ?E. simpl in *. split; auto.
    unfold r, q_remove. unfold q_exist, map_mem in EX. rewrite E in EX.
    destruct (map_get h (qmap q)); [discriminate|reflexivity].
Qed.

(** ** ties: arrival order *)
Definition arrival_order (a b : item) : Prop :=
  iscore a > iscore b \/ (iscore a = iscore b /\ (iseq a < iseq b)%N).

(** Every Push of the history carries a stamp larger than all earlier ones. *)
Fixpoint stamps_from (n : N) (ops : list op) : Prop :=
  match ops with
  | [] => True
  | OPush it :: tl => (n <= iseq it)%N /\ stamps_from (iseq it + 1) tl
  | _ :: tl => stamps_from n tl
  end.

Definition lexinv (n : N) (l : list item) : Prop :=
  StronglySorted arrival_order l /\ Forall (fun x => (iseq x < n)%N) l.

Lemma lexinv_mono n n' l : (n <= n')%N -> lexinv n l -> lexinv n' l.
Proof.
  intros Hn [A B]. split; auto. rewrite Forall_forall in *. intros x Hx.
  specialize (B x Hx). lia.
Qed.

Lemma lexinv_insert n it l :
  (n <= iseq it)%N -> lexinv n l -> lexinv (iseq it + 1) (spec_insert it l).
Proof.
  intros Hn [A B]. split.
  - apply spec_insert_ssorted; auto.
    + intros a b [C|[C _]]; lia.
    + rewrite Forall_forall in *. intros x Hx Hs. specialize (B x Hx).
      unfold arrival_order. destruct (Z.eq_dec (iscore x) (iscore it)); [right|left]; lia.
    + rewrite Forall_forall. intros x Hx Hs. left. lia.
  - rewrite Forall_forall in *. intros x Hx. apply spec_insert_in in Hx as [->|Hx].
    + lia.
    + specialize (B x Hx). lia.
Qed.

Lemma lexinv_removelast n l : lexinv n l -> lexinv n (removelast l).
Proof.
  intros [A B]. destruct l as [|x l]; [split; auto|].
  destruct (@exists_last _ (x :: l)) as (r & t & E); [discriminate|].
  rewrite E in *. rewrite removelast_last. split.
  - eapply ssorted_app_l; eauto.
  - apply Forall_app in B. tauto.
Qed.

Lemma lexinv_filter n f l : lexinv n l -> lexinv n (filter f l).
Proof.
  intros [A B]. split.
  - now apply ssorted_filter.
  - rewrite Forall_forall in *. intros x Hx. apply filter_In in Hx as [Hx _]. auto.
Qed.

Lemma lexinv_run cap ops : forall n l,
  stamps_from n ops -> lexinv n l -> exists n', lexinv n' (fst (spec_run cap ops l)).
Proof.
  induction ops as [|o ops IH]; intros n l Hs Hl; simpl.
  - eauto.
  - destruct o as [it|h|c]; simpl in *.
    + destruct Hs as [Hn Hs].
      assert (Hl' : lexinv (iseq it + 1) (fst (spec_push cap it l))).
      { unfold spec_push. destruct (spec_exist (ihash it) l).
        - simpl. apply (lexinv_mono n); [lia|auto].
        - destruct (spec_size l <? cap).
          + simpl. now apply (lexinv_insert n).
          + destruct (spec_last l).
            * destruct (ranks_higher it i); simpl.
              -- apply (lexinv_insert n); auto. now apply lexinv_removelast.
              -- apply (lexinv_mono n); [lia|auto].
            * simpl. apply (lexinv_mono n); [lia|auto]. }
      destruct (spec_push cap it l) as [l1 e]. simpl in *.
      destruct (IH _ l1 Hs Hl') as [n' Hn'].
      destruct (spec_run cap ops l1). simpl in *. eauto.
    + assert (Hl' : lexinv n (fst (spec_remove h l))).
      { unfold spec_remove. destruct (spec_exist h l); simpl; auto.
        now apply lexinv_filter. }
      destruct (spec_remove h l) as [l1 e]. simpl in *.
      destruct (IH _ l1 Hs Hl') as [n' Hn'].
      destruct (spec_run cap ops l1). simpl in *. eauto.
    + destruct (IH _ l Hs Hl) as [n' Hn'].
      destruct (spec_run cap ops l). simpl in *. eauto.
Qed.

Lemma fifo_final cap ops :
  stamps_from 0 ops -> StronglySorted arrival_order (q_walk 0 (q_final cap ops)).
Proof.
  intro Hs. rewrite walk0_contents, (R_cont _ _ _ (R_final cap ops)).
  destruct (lexinv_run cap ops 0%N [] Hs) as [n' [A _]]; auto.
  split; constructor.
Qed.

(** ** Push never panics, whatever the capacity *)
Lemma push_total cap ops it : snd (q_push it (q_final cap ops)) <> EPanic.
Proof.
  destruct (sim_push cap _ _ it (R_final cap ops)) as [_ E].
  rewrite E. unfold spec_push.
  destruct (spec_exist _ _); [discriminate|].
  destruct (_ <? _); [discriminate|].
  destruct (spec_last _); [|discriminate].
  destruct (ranks_higher _ _); discriminate.
Qed.

(** ** non-vacuity *)
Definition ex_a := mkItem 0 5 0 10 0.
Definition ex_b := mkItem 1 5 0 20 1.
Definition ex_c := mkItem 2 7 0 30 2.
Definition ex_d := mkItem 3 5 1 40 3.
Definition ex_ops := [OPush ex_a; OPush ex_b; OPush ex_c; OWalk 0; ORemove 7%N; OPush ex_d].

(** capacity 2: c evicts b (the later of the two 5s); d (same score as the worst
    item a, higher tie-break) evicts a and goes behind c. *)
Example ex_run :
  q_run ex_ops (newq 2) =
  (q_final 2 ex_ops,
   [RErr ENone; RErr ENone; RErr ENone; RList [ex_c; ex_a]; RErr ENotFound; RErr ENone])
  /\ q_walk 0 (q_final 2 ex_ops) = [ex_c; ex_d]
  /\ q_bytes (q_final 2 ex_ops) = 70.
Proof. vm_compute. repeat split. Qed.

Example ex_stamps : stamps_from 0 ex_ops.
Proof. simpl. repeat split; lia. Qed.

(** hypotheses of the admission rule on a full queue *)
Example ex_push_full :
  let q := q_final 2 [OPush ex_a; OPush ex_b] in
  q_size q = 2 /\ snd (q_push ex_c q) = ENone /\ snd (q_push ex_d q) = ENone /\
  snd (q_push (mkItem 4 5 0 1 9) q) = EFull /\ snd (q_push (mkItem 1 9 9 1 9) q) = EExist.
Proof. vm_compute. repeat split. Qed.

Example ex_remove :
  let q := q_final 3 [OPush ex_a; OPush ex_b; OPush ex_c] in
  q_exist 0%N q = true /\ q_exist 9%N q = false /\
  q_walk 0 (fst (q_remove 0%N q)) = [ex_c; ex_b].
Proof. vm_compute. repeat split. Qed.

(** capacity 0 and -1: every Push is answered ErrMemFull, nothing changes. *)
Example ex_cap_nonpositive :
  q_run [OPush ex_a; OWalk 0; OPush ex_c] (newq 0) = (newq 0, [RErr EFull; RList []; RErr EFull]) /\
  q_run [OPush ex_a; OWalk 0; OPush ex_c] (newq (-1)) = (newq (-1), [RErr EFull; RList []; RErr EFull]).
Proof. vm_compute. split; reflexivity. Qed.
