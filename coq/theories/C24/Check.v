(** C24 — correspondence cases: one operation history on a skiplist.Queue with
    what the Go implementation returned per operation.

    To keep the case files small every step is a flat list of integers
    (layout below).  Items are referred to by their arrival stamp ([iseq] =
    index of the Push step that created the object; unique within a history).

    step      ::= push | remove | walk
    push      ::= 0 key score rank size err snap
    remove    ::= 1 key err snap
    walk      ::= 2 count n stamp_1 … stamp_n snap        (items Walk(count) visited)
    snap      ::= (empty: no observers recorded at this step)
                | first last size bytes np (key code)^np stamp*   (stamp* = Walk(0))
    err       ::= 0 ok | 1 ErrTxExist | 2 ErrMemFull | 3 ErrNotFound | 4 panic | 9 other
    first/last::= -1 nil | -2 panic | stamp
    code      ::= 0  Exist false and GetItem ErrNotFound
                | stamp+1  Exist true and GetItem returned that item
                | negative: any other combination

    Layer 2, one history on a skiplist.SkipList ([CSkip]): [rnd] are the
    [rand.Int() & 0xFFFF] results in the order randomLevel drew them; values are
    integer ids.

    step      ::= 3 score val ret snap               Insert
                | 4 score ret snap                   Delete
                | 5 score ret found fs fv snap       Find               (ret: 0, -99 = panic)
                | 6 score ret found fs fv snap       FindGreaterOrEqual
                | 7 score val ret snap               v := Find(score); if v != nil { v.Value = val }; ret = found
    snap      ::= (empty) | len level findcount hasfirst fs fv haslast ls lv
                  n (score val)^n  m (score val)^m   (WalkS; Iterator.Last + Prev until nil) *)
From Coq Require Import List ZArith NArith Bool.
From C33 Require Import Lib.Harness C24.Model C24.Spec C24.SkipModel.
Import ListNotations.
Open Scope Z_scope.

(** [det]: two more runs of the same history under different math/rand seeds
    gave identical observables. *)
Inductive case :=
| CHist (cap nkeys : Z) (det : bool) (steps : list (list Z))
| CSkip (rnd : list Z) (steps : list (list Z)).

Record snap := mkSnap {
  s_first : Z; s_last : Z; s_size : Z; s_bytes : Z;
  s_probes : list (Z * Z); s_walk : list Z }.

Inductive ires := IErr (e : Z) | ISeqs (l : list Z).

Definition dstep : Type := (op * ires * option snap)%type.

Fixpoint take_pairs (n : nat) (l : list Z) : option (list (Z * Z) * list Z) :=
  match n with
  | O => Some ([], l)
  | S n' =>
      match l with
      | k :: c :: tl =>
          match take_pairs n' tl with
          | Some (ps, r) => Some ((k, c) :: ps, r)
          | None => None
          end
      | _ => None
      end
  end.

Definition decode_snap (l : list Z) : option (option snap) :=
  match l with
  | [] => Some None
  | f :: la :: sz :: bt :: np :: rest =>
      if (np <? 0) || (1000 <? np) then None else
      match take_pairs (Z.to_nat np) rest with
      | Some (ps, w) => Some (Some (mkSnap f la sz bt ps w))
      | None => None
      end
  | _ => None
  end.

Definition decode_step (i : N) (l : list Z) : option dstep :=
  match l with
  | 0 :: key :: score :: rank :: size :: e :: rest =>
      match decode_snap rest with
      | Some s => Some (OPush (mkItem (Z.to_N key) score rank size i), IErr e, s)
      | None => None
      end
  | 1 :: key :: e :: rest =>
      match decode_snap rest with
      | Some s => Some (ORemove (Z.to_N key), IErr e, s)
      | None => None
      end
  | 2 :: count :: n :: rest =>
      if (n <? 0) || (Z.of_nat (length rest) <? n) then None else
      match decode_snap (skipn (Z.to_nat n) rest) with
      | Some s => Some (OWalk count, ISeqs (firstn (Z.to_nat n) rest), s)
      | None => None
      end
  | _ => None
  end.

Fixpoint decode (i : N) (steps : list (list Z)) : option (list dstep) :=
  match steps with
  | [] => Some []
  | l :: tl =>
      match decode_step i l, decode (i + 1) tl with
      | Some d, Some ds => Some (d :: ds)
      | _, _ => None
      end
  end.

Definition zseq (it : item) : Z := Z.of_N (iseq it).
Definition seqs (l : list item) : list Z := map zseq l.
Definition zlist_eqb := list_eqb Z.eqb.

Definition res_eqb (r : res) (i : ires) : bool :=
  match r, i with
  | RErr e, IErr n => Z.of_N (err_code e) =? n
  | RList l, ISeqs s => zlist_eqb (seqs l) s
  | _, _ => false
  end.

Definition code_of_lres (r : lres) : Z :=
  match r with LNil => -1 | LItem it => zseq it | LPanic => -2 end.
Definition code_of_opt (r : option item) : Z :=
  match r with None => -1 | Some it => zseq it end.

Definition probe_code (ex : bool) (g : option item) : Z :=
  match ex, g with
  | false, None => 0
  | true, Some it => zseq it + 1
  | true, None => -5
  | false, Some _ => -6
  end.

Definition probes_eqb (f : Z -> Z) (ps : list (Z * Z)) : bool :=
  forallb (fun kc => f (fst kc) =? snd kc) ps.

(** ** model side *)
Definition snap_model (q : queue) (s : snap) : bool :=
  zlist_eqb (seqs (q_walk 0 q)) (s_walk s)
  && (code_of_lres (q_first q) =? s_first s)
  && (code_of_lres (q_last q) =? s_last s)
  && (q_size q =? s_size s) && (q_bytes q =? s_bytes s)
  && probes_eqb (fun k => probe_code (q_exist (Z.to_N k) q) (q_get (Z.to_N k) q)) (s_probes s).

Fixpoint model_ok (q : queue) (steps : list dstep) : bool :=
  match steps with
  | [] => true
  | (o, r, s) :: tl =>
      let (q', r') := q_step o q in
      res_eqb r' r
      && match s with None => true | Some sn => snap_model q' sn end
      && model_ok q' tl
  end.

(** ** spec side: everything is computed from the implementation's outputs. *)
Fixpoint pushed (steps : list dstep) : list item :=
  match steps with
  | [] => []
  | (OPush it, _, _) :: tl => it :: pushed tl
  | _ :: tl => pushed tl
  end.

Fixpoint resolve (all : list item) (l : list Z) : option (list item) :=
  match l with
  | [] => Some []
  | n :: tl =>
      match find (fun it => zseq it =? n) all, resolve all tl with
      | Some it, Some r => Some (it :: r)
      | _, _ => None
      end
  end.

Definition snap_spec (cap : Z) (w : list item) (s : snap) : bool :=
  state_ok cap w
  && (code_of_opt (spec_first w) =? s_first s)
  && (code_of_opt (spec_last w) =? s_last s)
  && (spec_size w =? s_size s) && (spec_bytes w =? s_bytes s)
  && probes_eqb (fun k => probe_code (spec_exist (Z.to_N k) w) (spec_get (Z.to_N k) w)) (s_probes s).

(** Result: 0 = the implementation satisfies the spec on the whole history;
    2 = some divergence.  (Former known finding 1 — Push on a queue of capacity
    <= 0 panicked instead of answering ErrMemFull — is fixed; a panic is a
    divergence like any other.) *)
Fixpoint spec_ok (cap : Z) (all : list item) (l : list item) (steps : list dstep) : N :=
  match steps with
  | [] => 0%N
  | (o, r, s) :: tl =>
      let (l', r') := spec_step cap o l in
      if res_eqb r' r then
        match s with
        | None => spec_ok cap all l' tl
        | Some sn =>
            match resolve all (s_walk sn) with
            | Some w =>
                if zlist_eqb (seqs l') (s_walk sn) && snap_spec cap w sn
                then spec_ok cap all w tl else 2%N
            | None => 2%N
            end
        end
      else 2%N
  end.

(** * Layer 2: SkipList histories *)
Record ssnap := mkSS {
  ss_len : Z; ss_level : Z; ss_findc : Z;
  ss_first : option (Z * Z); ss_last : option (Z * Z);
  ss_fwd : list (Z * Z); ss_bwd : list (Z * Z) }.

Inductive sires := SIInt (n : Z) | SIVal (ret : Z) (o : option (Z * Z)).

Definition sdstep : Type := (sop Z * sires * option ssnap)%type.

Definition opt_entry (has s v : Z) : option (Z * Z) := if has =? 0 then None else Some (s, v).

Definition take_counted (l : list Z) : option (list (Z * Z) * list Z) :=
  match l with
  | n :: rest => if (n <? 0) || (5000 <? n) then None else take_pairs (Z.to_nat n) rest
  | [] => None
  end.

Definition decode_ssnap (l : list Z) : option (option ssnap) :=
  match l with
  | [] => Some None
  | len :: level :: fc :: hf :: fs :: fv :: hl :: ls :: lv :: rest =>
      match take_counted rest with
      | Some (fwd, rest2) =>
          match take_counted rest2 with
          | Some (bwd, []) =>
              Some (Some (mkSS len level fc (opt_entry hf fs fv) (opt_entry hl ls lv) fwd bwd))
          | _ => None
          end
      | None => None
      end
  | _ => None
  end.

Definition decode_sstep (l : list Z) : option sdstep :=
  match l with
  | 3 :: s :: v :: ret :: rest =>
      match decode_ssnap rest with Some sn => Some (SInsert s v, SIInt ret, sn) | None => None end
  | 4 :: s :: ret :: rest =>
      match decode_ssnap rest with Some sn => Some (SDelete s, SIInt ret, sn) | None => None end
  | 5 :: s :: ret :: f :: fs :: fv :: rest =>
      match decode_ssnap rest with
      | Some sn => Some (SFind s, SIVal ret (opt_entry f fs fv), sn) | None => None end
  | 6 :: s :: ret :: f :: fs :: fv :: rest =>
      match decode_ssnap rest with
      | Some sn => Some (SGe s, SIVal ret (opt_entry f fs fv), sn) | None => None end
  | 7 :: s :: v :: ret :: rest =>
      match decode_ssnap rest with Some sn => Some (SUpdate s v, SIInt ret, sn) | None => None end
  | _ => None
  end.

Fixpoint decode_s (steps : list (list Z)) : option (list sdstep) :=
  match steps with
  | [] => Some []
  | l :: tl =>
      match decode_sstep l, decode_s tl with
      | Some d, Some ds => Some (d :: ds)
      | _, _ => None
      end
  end.

Definition entry_eqb (a b : Z * Z) : bool := (fst a =? fst b) && (snd a =? snd b).
Definition entries_eqb := list_eqb entry_eqb.
Definition oentry_eqb := option_eqb entry_eqb.

Definition sres_eqb (r : sres Z) (i : sires) : bool :=
  match r, i with
  | SInt n, SIInt m => n =? m
  | SVal o, SIVal ret o' => (ret =? 0) && oentry_eqb o o'
  | _, _ => false
  end.

Definition ok_entries (o : outcome (list (Z * Z))) (l : list (Z * Z)) : bool :=
  match o with Ok l' => entries_eqb l' l | _ => false end.

(** model side: the multi-level model, fed with the draws of the run *)
Definition ssnap_model (sk : skl Z) (s : ssnap) : bool :=
  (Z.of_nat (scount sk) =? ss_len s) && (Z.of_nat (slevel sk) =? ss_level s)
  && (sfindc sk =? ss_findc s)
  && match sk_first sk with Ok o => oentry_eqb o (ss_first s) | _ => false end
  && oentry_eqb (sk_last sk) (ss_last s)
  && ok_entries (sk_walk sk) (ss_fwd s) && ok_entries (sk_back sk) (ss_bwd s).

Fixpoint smodel_ok (sk : skl Z) (rnd : list Z) (steps : list sdstep) : bool :=
  match steps with
  | [] => true
  | (o, r, s) :: tl =>
      match sk_step o sk rnd with
      | Ok (sk', rnd', r') =>
          sres_eqb r' r
          && match s with None => true | Some sn => ssnap_model sk' sn end
          && smodel_ok sk' rnd' tl
      | _ => false
      end
  end.

(** spec side: the level-0 sorted list; after a snapshot the history goes on
    from the list the implementation showed. *)
Definition ssnap_spec (l : list (Z * Z)) (s : ssnap) : bool :=
  entries_eqb l (ss_fwd s) && entries_eqb (rev l) (ss_bwd s)
  && (Z.of_nat (length l) =? ss_len s)
  && oentry_eqb (hd_error l) (ss_first s) && oentry_eqb (last_opt l) (ss_last s).

Fixpoint sspec_ok (l : list (Z * Z)) (steps : list sdstep) : bool :=
  match steps with
  | [] => true
  | (o, r, s) :: tl =>
      let (l', r') := l0_step o l in
      sres_eqb r' r
      && match s with
         | None => sspec_ok l' tl
         | Some sn => ssnap_spec l' sn && sspec_ok (ss_fwd sn) tl
         end
  end.

Definition check_case (c : case) : verdict :=
  match c with
  | CSkip rnd steps =>
      match decode_s steps with
      | None => (false, false, 0%N)
      | Some ds => mk_verdict (smodel_ok (sk_new (-1) 0) rnd ds) (sspec_ok [] ds)
      end
  | CHist cap nkeys det steps =>
      match decode 0%N steps with
      | None => (false, false, 0%N)
      | Some ds =>
          let m := model_ok (newq cap) ds && det in
          let sc := spec_ok cap (pushed ds) [] ds in
          if negb det then (m, false, 0%N)
          else match sc with
               | 0%N => (m, true, 0%N)
               | _ => (m, false, 0%N)
               end
      end
  end.
