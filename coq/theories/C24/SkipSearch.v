(** C24 layer 2 — the search: what [walk] / [descend] / [locate] return on a
    well-formed level structure, the invariant [inv], and the observers. *)
From Coq Require Import List ZArith NArith Bool Arith Lia Sorted.
From C33 Require Import C24.Model C24.ProofsSpec C24.SkipModel C24.SkipLemmas.
Import ListNotations.
Local Open Scope nat_scope.

(** prefix on which [f] holds / the rest *)
Fixpoint tw {A} (f : A -> bool) (l : list A) : list A :=
  match l with [] => [] | y :: tl => if f y then y :: tw f tl else [] end.
Fixpoint dw {A} (f : A -> bool) (l : list A) : list A :=
  match l with [] => [] | y :: tl => if f y then dw f tl else l end.

Lemma tw_dw {A} (f : A -> bool) l : tw f l ++ dw f l = l.
Proof. induction l as [|y l IH]; simpl; auto. destruct (f y); simpl; congruence. Qed.
Lemma tw_all {A} (f : A -> bool) l : Forall (fun y => f y = true) (tw f l).
Proof. induction l as [|y l IH]; simpl; auto. destruct (f y) eqn:E; auto. Qed.
Lemma dw_head {A} (f : A -> bool) l y tl : dw f l = y :: tl -> f y = false.
Proof.
  induction l as [|z l IH]; simpl; [discriminate|]. destruct (f z) eqn:E; auto.
  intro H. inversion H. now subst.
Qed.

Lemma nil_or_last {A} (l : list A) : l = [] \/ exists p z, l = p ++ [z].
Proof. induction l as [|z l _] using rev_ind; [now left|right; eauto]. Qed.

Section S.
  Context {V : Type}.
  Notation heap := (heap V).
  Notation skl := (skl V).
  Implicit Types (h : heap) (sk : skl) (x y i k : nat).

  Definition score_of h y : Z := nscore (h y).
  Definition desc h (a b : nat) : Prop := (score_of h a >= score_of h b)%Z.

  (** the loop conditions are monotone in the score *)
  Definition antitone (go : Z -> bool) : Prop :=
    forall a b, (a >= b)%Z -> go b = true -> go a = true.

  Lemma go_lt_spec s a : go_lt s a = (a >? s)%Z.
  Proof.
    unfold go_lt, sv_compare, cBig, cEqual, cSmall.
    destruct (a >? s)%Z eqn:E; auto. destruct (a =? s)%Z; reflexivity.
  Qed.
  Lemma go_le_spec s a : go_le s a = (a >=? s)%Z.
  Proof.
    unfold go_le, sv_compare, cBig, cEqual, cSmall.
    destruct (a >? s)%Z eqn:E.
    - symmetry. apply Z.geb_le. apply Z.gtb_lt in E. lia.
    - destruct (a =? s)%Z eqn:E2.
      + apply Z.eqb_eq in E2. symmetry. apply Z.geb_le. lia.
      + rewrite Z.gtb_ltb in E. apply Z.ltb_ge in E. apply Z.eqb_neq in E2.
        symmetry. rewrite Z.geb_leb. apply Z.leb_gt. lia.
  Qed.
  Lemma antitone_lt s : antitone (go_lt s).
  Proof.
    intros a b Hab. rewrite !go_lt_spec. intro H. apply Z.gtb_lt in H.
    apply Z.gtb_lt. lia.
  Qed.
  Lemma antitone_le s : antitone (go_le s).
  Proof.
    intros a b Hab. rewrite !go_le_spec. intro H. apply Z.geb_le in H.
    apply Z.geb_le. lia.
  Qed.

  Lemma stop_all h go l :
    antitone go -> StronglySorted (desc h) l ->
    Forall (fun y => go (score_of h y) = false) (dw (fun y => go (score_of h y)) l).
  Proof.
    intros Ha. induction l as [|y l IH]; intro Hs; simpl; auto.
    inversion Hs as [|? ? Hs' Hy]; subst.
    destruct (go (score_of h y)) eqn:E; auto.
    constructor; auto. rewrite Forall_forall in *. intros z Hz.
    destruct (go (score_of h z)) eqn:Ez; auto.
    rewrite (Ha _ _ (Hy z Hz) Ez) in E. discriminate.
  Qed.

  (** ** the inner loop *)
  Lemma walk_spec h go i post : forall pre x fuel cnt,
    nxt h x i = Some (succ_at h i (pre ++ post)) ->
    nexts_ok h (pre ++ post) ->
    Forall (fun y => go (score_of h y) = true) pre ->
    Forall (fun y => go (score_of h y) = false) post ->
    length pre < fuel ->
    exists cnt', walk fuel h go i x cnt = Ok (last_above h i pre x, cnt').
  Proof.
    induction pre as [|p pre IH]; intros x fuel cnt Hx Hn Hg Hs Hf.
    - destruct fuel as [|f]; [simpl in Hf; lia|]. simpl in *. rewrite Hx.
      destruct (succ_at h i post) as [z|] eqn:E; eauto.
      apply succ_at_some in E as [Hz _]. rewrite Forall_forall in Hs.
      unfold score_of in Hs. rewrite (Hs z Hz). eauto.
    - inversion Hg as [|? ? Hgp Hg']; subst. simpl in Hx |- *.
      destruct (i <? height h p) eqn:E.
      + destruct fuel as [|f]; [simpl in Hf; lia|]. simpl. rewrite Hx.
        unfold score_of in Hgp. rewrite Hgp.
        apply IH; auto.
        * apply Nat.ltb_lt in E. apply (nexts_ok_head h p (pre ++ post) i Hn E).
        * apply (nexts_ok_tail h p _ Hn).
        * simpl in Hf. lia.
      + apply IH; auto.
        * apply (nexts_ok_tail h p _ Hn).
        * simpl in Hf. lia.
  Qed.

  (** ** the descent over the levels *)
  Lemma descend_spec h go pre post fuel :
    nexts_ok h (0 :: pre ++ post) ->
    Forall (fun y => go (score_of h y) = true) pre ->
    Forall (fun y => go (score_of h y) = false) post ->
    length pre < fuel ->
    forall i cnt upd,
    i <= height h 0 ->
    exists cnt',
      descend fuel h go i (last_above h i pre 0) cnt upd =
      Ok (last_above h 0 pre 0, cnt', map (fun j => last_above h j pre 0) (seq 0 i) ++ upd).
  Proof.
    intros Hn Hg Hs Hf. induction i as [|i IH]; intros cnt upd Hi.
    - simpl. eauto.
    - cbn [descend].
      assert (Hw : exists cnt', walk fuel h go i (last_above h (S i) pre 0) cnt =
                               Ok (last_above h i pre 0, cnt')).
      { destruct (last_above_cases h (S i) pre 0) as [[E L]|(p1 & p2 & E & Hh & L)].
        - rewrite E. apply walk_spec with (post := post); auto.
          + apply (nexts_ok_head h 0 _ i Hn). lia.
          + apply (nexts_ok_tail h 0 _ Hn).
        - set (x := last_above h (S i) pre 0) in *.
          assert (Ex : last_above h i pre 0 = last_above h i p2 x).
          { rewrite E at 1. rewrite last_above_app. simpl.
            replace (i <? height h x) with true; auto. symmetry. apply Nat.ltb_lt. lia. }
          rewrite Ex. apply walk_spec with (post := post).
          + apply (Hn (0 :: p1) x (p2 ++ post)).
            * rewrite E at 1. simpl. rewrite <- app_assoc. reflexivity.
            * lia.
          + apply (nexts_ok_app_r h (0 :: p1 ++ [x])). rewrite E in Hn.
            simpl. rewrite <- !app_assoc. simpl. rewrite <- app_assoc in Hn. exact Hn.
          + rewrite E in Hg. apply Forall_app in Hg as [_ Hg]. now inversion Hg.
          + auto.
          + rewrite E in Hf. rewrite app_length in Hf. simpl in Hf. lia. }
      destruct Hw as [cnt1 ->].
      destruct (IH cnt1 (last_above h i pre 0 :: upd)) as [cnt2 ->]; [lia|].
      exists cnt2. f_equal. f_equal.
      rewrite seq_S, map_app. simpl. rewrite <- app_assoc. reflexivity.
  Qed.

  (** * the invariant *)
  Record inv sk (ids : list nat) : Prop := mkInv {
    i_nodup : NoDup (0 :: ids);
    i_lt : Forall (fun x => x < ssize sk) (0 :: ids);
    i_hd : height (sheap sk) 0 = maxLevel;
    i_next : nexts_ok (sheap sk) (0 :: ids);
    i_hts : Forall (fun x => 1 <= height (sheap sk) x <= slevel sk) ids;
    i_lvl : 1 <= slevel sk <= maxLevel;
    i_prev : prevs_ok (sheap sk) ids;
    i_tail : stail sk = last_opt ids;
    i_cnt : scount sk = length ids;
    i_sorted : StronglySorted (desc (sheap sk)) ids }.

  Definition absl h (ids : list nat) : list (Z * V) := map (entry h) ids.

  Lemma inv_new ms mv : inv (sk_new ms mv) [].
  Proof.
    split; cbn [sk_new sheap ssize stail slevel scount last_opt length].
    - constructor; [intros []|constructor].
    - repeat constructor.
    - unfold height. cbn [nnext]. apply repeat_length.
    - intros p1 p p2 E i Hi. destruct p1 as [|a [|b p1]]; inversion E; subst.
      unfold nxt, height in *. cbn [nnext] in *. rewrite repeat_length in Hi.
      rewrite nth_error_repeat; auto.
    - constructor.
    - unfold maxLevel. lia.
    - intros p1 p p2 E. destruct p1; discriminate.
    - reflexivity.
    - reflexivity.
    - constructor.
  Qed.

  Section LOC.
    Variables (sk : skl) (ids : list nat) (go : Z -> bool).
    Hypothesis (HI : inv sk ids) (HA : antitone go).
    Let h := sheap sk.
    Let f := fun y => go (score_of h y).
    Let pre := tw f ids.
    Let post := dw f ids.

    Lemma hd_height : height h 0 = maxLevel.
    Proof. apply (i_hd _ _ HI). Qed.
    Lemma pre_post : pre ++ post = ids.
    Proof. apply tw_dw. Qed.
    Lemma pre_go : Forall (fun y => go (score_of h y) = true) pre.
    Proof. apply (tw_all f). Qed.
    Lemma post_stop : Forall (fun y => go (score_of h y) = false) post.
    Proof. apply stop_all; auto. apply (i_sorted _ _ HI). Qed.

    Lemma hts_all : Forall (fun x => 1 <= height h x <= slevel sk) (pre ++ post).
    Proof. rewrite pre_post. apply (i_hts _ _ HI). Qed.
    Lemma hts_pre : Forall (fun x => 1 <= height h x <= slevel sk) pre.
    Proof. pose proof hts_all as H. apply Forall_app in H. tauto. Qed.
    Lemma hts_post : Forall (fun x => 1 <= height h x <= slevel sk) post.
    Proof. pose proof hts_all as H. apply Forall_app in H. tauto. Qed.

    Definition upd_at (j : nat) : nat := last_above h j pre 0.

    Lemma upd_at_top j : slevel sk <= j -> upd_at j = 0.
    Proof.
      intro Hj. apply last_above_low. pose proof hts_pre as H. unfold low.
      rewrite Forall_forall in *. intros y Hy. specialize (H y Hy). lia.
    Qed.

    Lemma locate_spec :
      exists cnt, locate go sk = Ok (last pre 0, cnt, map upd_at (seq 0 (slevel sk))).
    Proof.
      unfold locate. fold h.
      pose proof (upd_at_top (slevel sk) (le_n _)) as E0. unfold upd_at in E0.
      destruct (descend_spec h go pre post (S (scount sk))) with (i := slevel sk) (cnt := 0%Z) (upd := @nil nat)
        as [cnt E].
      - rewrite pre_post. apply (i_next _ _ HI).
      - apply pre_go.
      - apply post_stop.
      - rewrite (i_cnt _ _ HI), <- pre_post, app_length. lia.
      - rewrite hd_height. apply (i_lvl _ _ HI).
      - rewrite E0 in E. rewrite E. exists cnt. rewrite app_nil_r. f_equal. f_equal. f_equal.
        apply last_above_level0. pose proof hts_pre as H. rewrite Forall_forall in *.
        intros y Hy. specialize (H y Hy). lia.
    Qed.

    (** the node the search stops at points to the head of [post] at level 0 *)
    Lemma nxt_stop : nxt h (last pre 0) 0 = Some (hd_error post).
    Proof.
      pose proof (i_next _ _ HI) as Hn. fold h in Hn. rewrite <- pre_post in Hn.
      assert (H0 : succ_at h 0 post = hd_error post).
      { apply succ_at_level0. pose proof hts_post as H. rewrite Forall_forall in *.
        intros y Hy. specialize (H y Hy). lia. }
      destruct (nil_or_last pre) as [E|(p1 & z & E)].
      - rewrite E. simpl. rewrite E in Hn. simpl in Hn.
        rewrite (nexts_ok_head h 0 post 0 Hn); [now rewrite H0|].
        rewrite hd_height. unfold maxLevel. lia.
      - rewrite E. rewrite last_last. rewrite <- H0.
        apply (Hn (0 :: p1) z post).
        + rewrite E. simpl. now rewrite <- app_assoc.
        + pose proof hts_pre as H. rewrite E in H. apply Forall_app in H as [_ H].
          inversion H; subst. lia.
    Qed.

    Lemma last_pre_zero : last pre 0 = 0 <-> pre = [].
    Proof.
      split; [|intros ->; reflexivity].
      intro E. destruct (nil_or_last pre) as [E'|(p1 & z & E')]; [auto|].
      exfalso. rewrite E', last_last in E. subst z.
        pose proof (i_nodup _ _ HI) as Hd. inversion Hd as [|? ? Hnin _]; subst.
        apply Hnin. rewrite <- pre_post, E'. apply in_or_app. left. apply in_or_app. right. now left.
    Qed.
  End LOC.

  (** * observers *)
  Lemma follow_spec h : forall rest x fuel,
    nexts_ok h (x :: rest) -> 1 <= height h x ->
    Forall (fun y => 1 <= height h y) rest ->
    length rest < fuel -> follow fuel h x = Ok rest.
  Proof.
    induction rest as [|y rest IH]; intros x fuel Hn Hx Hr Hf.
    - destruct fuel as [|f]; [simpl in Hf; lia|]. simpl.
      rewrite (nexts_ok_head h x [] 0 Hn) by lia. reflexivity.
    - destruct fuel as [|f]; [simpl in Hf; lia|]. simpl.
      rewrite (nexts_ok_head h x (y :: rest) 0 Hn) by lia.
      inversion Hr; subst. simpl.
      replace (0 <? height h y) with true by (symmetry; apply Nat.ltb_lt; lia).
      rewrite (IH y f); auto.
      + apply (nexts_ok_tail h x _ Hn).
      + simpl in Hf. lia.
  Qed.

  Lemma back_spec h : forall ids fuel,
    prevs_ok h ids -> length ids <= fuel -> back fuel h (last_opt ids) = Ok (rev ids).
  Proof.
    induction ids as [|z ids IH] using rev_ind; intros fuel Hp Hf.
    - destruct fuel; reflexivity.
    - rewrite last_opt_snoc. rewrite app_length in Hf. simpl in Hf.
      destruct fuel as [|f]; [lia|]. simpl.
      rewrite (Hp ids z []) by reflexivity.
      rewrite IH.
      + simpl. rewrite rev_app_distr. reflexivity.
      + apply (prevs_ok_app_l h ids [z] Hp).
      + lia.
  Qed.

  Lemma observers sk ids :
    inv sk ids ->
    sk_walk sk = Ok (absl (sheap sk) ids) /\
    sk_back sk = Ok (rev (absl (sheap sk) ids)) /\
    sk_first sk = Ok (hd_error (absl (sheap sk) ids)) /\
    sk_last sk = last_opt (absl (sheap sk) ids) /\
    scount sk = length (absl (sheap sk) ids).
  Proof.
    intro HI. pose proof (i_hts _ _ HI) as Hh.
    assert (Hh1 : Forall (fun y => 1 <= height (sheap sk) y) ids).
    { rewrite Forall_forall in *. intros y Hy. specialize (Hh y Hy). lia. }
    assert (H0 : 1 <= height (sheap sk) 0).
    { rewrite (i_hd _ _ HI). unfold maxLevel. lia. }
    repeat split.
    - unfold sk_walk. rewrite (follow_spec (sheap sk) ids 0); auto.
      + apply (i_next _ _ HI).
      + rewrite (i_cnt _ _ HI). lia.
    - unfold sk_back. rewrite (i_tail _ _ HI), (back_spec (sheap sk) ids).
      + simpl. unfold absl. now rewrite map_rev.
      + apply (i_prev _ _ HI).
      + rewrite (i_cnt _ _ HI). lia.
    - unfold sk_first. rewrite (nexts_ok_head _ 0 ids 0 (i_next _ _ HI)) by lia.
      rewrite succ_at_level0; auto. destruct ids; reflexivity.
    - unfold sk_last. rewrite (i_tail _ _ HI). unfold absl.
      clear. induction ids as [|a [|b l] IH]; auto.
    - unfold absl. rewrite map_length. apply (i_cnt _ _ HI).
  Qed.
End S.
