(** C24 — executable model of common/skiplist/queue.go (layer 1).

    The [Queue] is followed statement by statement.  The [SkipList] it sits on
    is represented here by its level-0 list (the list of [(score, value)] nodes
    in the order of the [next[0]] chain); [sl_find] / [sl_insert] / [sl_delete]
    are the results of [SkipList.Find] / [Insert] / [Delete] on a well-formed
    level structure (layer 2, [SkipModel.v], models the levels and proves that
    the results do not depend on the random level stream).

    Modelling decisions
    - An item ([Scorer]) is a record: hash key, score (int64 as [Z]; only
      compared, never subtracted), a rank used by [Scorer.Compare] (the
      interface method "comparison when scores are equal"), byte size, and an
      arrival stamp [iseq] that no model function reads (payload).
    - [container/list] elements are identified by the hash of the item they
      hold ([Remove(elem)] = remove the first entry with that hash).
    - [txMap] is an association list; [len(txMap)] is its length.
    - A nil-pointer panic of the Go code is the distinct result [EPanic] /
      [LPanic]; the queue is left as it was at the point of the panic. *)
From Coq Require Import List ZArith NArith Bool.
Import ListNotations.
Open Scope Z_scope.

Record item := mkItem {
  ihash : N; iscore : Z; irank : Z; isize : Z; iseq : N }.

Definition item_eqb (a b : item) : bool :=
  N.eqb (ihash a) (ihash b) && (iscore a =? iscore b) && (irank a =? irank b)
  && (isize a =? isize b) && N.eqb (iseq a) (iseq b).

(** Error classes (types.Err…). *)
Inductive err := ENone | EExist | EFull | ENotFound | EPanic.

Definition err_code (e : err) : N :=
  match e with ENone => 0 | EExist => 1 | EFull => 2 | ENotFound => 3 | EPanic => 4 end%N.

(** SkipValue.Compare: Big = -1 when the receiver's score is larger. *)
Definition cBig : Z := -1.
Definition cSmall : Z := 1.
Definition cEqual : Z := 0.
Definition sv_compare (a b : Z) : Z :=
  if a >? b then cBig else if a =? b then cEqual else cSmall.

(** Scorer.Compare of the items used here: by rank. *)
Definition item_compare (a b : item) : Z := sv_compare (irank a) (irank b).

(** * The level-0 view of the skip list *)
Section SL.
  Context {V : Type}.
  Definition slist := list (Z * V).

  (** [find]: advance while [x.next.Compare(value) < 0] (score larger);
      [Find]: the next node if it compares Equal. *)
  Fixpoint sl_find (s : Z) (l : slist) : option V :=
    match l with
    | [] => None
    | (s', v) :: tl =>
        if sv_compare s' s <? 0 then sl_find s tl
        else if sv_compare s' s =? 0 then Some v else None
    end.

  (** [Insert]: advance while [Compare <= 0], link the new node there. *)
  Fixpoint sl_insert (s : Z) (v : V) (l : slist) : slist :=
    match l with
    | [] => [(s, v)]
    | (s', v') :: tl =>
        if sv_compare s' s <=? 0 then (s', v') :: sl_insert s v tl
        else (s, v) :: l
    end.

  (** [Delete]: advance while [Compare < 0]; unlink the next node if Equal. *)
  Fixpoint sl_delete (s : Z) (l : slist) : slist :=
    match l with
    | [] => []
    | (s', v') :: tl =>
        if sv_compare s' s <? 0 then (s', v') :: sl_delete s tl
        else if sv_compare s' s =? 0 then tl else l
    end.

  (** In-place mutation of the value held by the node [Find] returns. *)
  Fixpoint sl_update (s : Z) (v : V) (l : slist) : slist :=
    match l with
    | [] => []
    | (s', v') :: tl =>
        if sv_compare s' s <? 0 then (s', v') :: sl_update s v tl
        else if sv_compare s' s =? 0 then (s', v) :: tl else l
    end.
End SL.

(** * list helpers *)
Fixpoint last_opt {A} (l : list A) : option A :=
  match l with
  | [] => None
  | [x] => Some x
  | _ :: tl => last_opt tl
  end.

(** container/list Remove(elem): elements are identified by item hash. *)
Fixpoint remove_elem (h : N) (l : list item) : list item :=
  match l with
  | [] => []
  | x :: tl => if N.eqb (ihash x) h then tl else x :: remove_elem h tl
  end.

(** * txMap *)
Definition tmap := list (N * item).
Fixpoint map_get (h : N) (m : tmap) : option item :=
  match m with
  | [] => None
  | (k, v) :: tl => if N.eqb k h then Some v else map_get h tl
  end.
Definition map_mem (h : N) (m : tmap) : bool :=
  match map_get h m with Some _ => true | None => false end.
Definition map_del (h : N) (m : tmap) : tmap :=
  filter (fun kv => negb (N.eqb (fst kv) h)) m.
Definition map_set (h : N) (v : item) (m : tmap) : tmap := (h, v) :: map_del h m.

(** * Queue *)
Record queue := mkQ {
  qmap : tmap;
  qlist : list (Z * list item);
  qcap : Z;
  qbytes : Z }.

Definition newq (cap : Z) : queue := mkQ [] [] cap 0.

Definition q_size (q : queue) : Z := Z.of_nat (length (qmap q)).
Definition q_exist (h : N) (q : queue) : bool := map_mem h (qmap q).
Definition q_get (h : N) (q : queue) : option item := map_get h (qmap q).
Definition q_bytes (q : queue) : Z := qbytes q.

(** insertSkipValue *)
Definition insert_skip (it : item) (ql : list (Z * list item)) : list (Z * list item) :=
  match sl_find (iscore it) ql with
  | None => sl_insert (iscore it) [it] ql
  | Some l => sl_update (iscore it) (l ++ [it]) ql
  end.

(** deleteSkipValue ([None] = ErrNotFound) *)
Definition delete_skip (it : item) (ql : list (Z * list item)) : option (list (Z * list item)) :=
  match sl_find (iscore it) ql with
  | None => None
  | Some l =>
      let l' := remove_elem (ihash it) l in
      match l' with
      | [] => Some (sl_delete (iscore it) ql)
      | _ => Some (sl_update (iscore it) l' ql)
      end
  end.

(** Insert *)
Definition q_insert (h : N) (it : item) (q : queue) : queue :=
  mkQ (map_set h it (qmap q)) (insert_skip it (qlist q)) (qcap q) (qbytes q + isize it).

(** Remove *)
Definition q_remove (h : N) (q : queue) : queue * err :=
  match map_get h (qmap q) with
  | None => (q, ENotFound)
  | Some it =>
      let m' := map_del h (qmap q) in
      match delete_skip it (qlist q) with
      | None => (mkQ m' (qlist q) (qcap q) (qbytes q), ENotFound)
      | Some ql' => (mkQ m' ql' (qcap q) (qbytes q - isize it), ENone)
      end
  end.

(** First / Last: nil when Size() == 0; a missing tail / empty bucket would be
    a nil dereference. *)
Inductive lres := LNil | LItem (it : item) | LPanic.

Definition q_last (q : queue) : lres :=
  if q_size q =? 0 then LNil
  else match last_opt (qlist q) with
       | None => LPanic
       | Some (_, l) => match last_opt l with None => LPanic | Some it => LItem it end
       end.

Definition q_first (q : queue) : lres :=
  if q_size q =? 0 then LNil
  else match qlist q with
       | [] => LPanic
       | (_, l) :: _ => match l with [] => LPanic | it :: _ => LItem it end
       end.

(** The admission test of Push:
    cmp == Big || (cmp == Equal && item.Compare(tail) == Big) *)
Definition better (it tail : item) : bool :=
  let cmp := sv_compare (iscore it) (iscore tail) in
  (cmp =? cBig) || ((cmp =? cEqual) && (item_compare it tail =? cBig)).

(** Push *)
Definition q_push (it : item) (q : queue) : queue * err :=
  if q_exist (ihash it) q then (q, EExist)
  else if q_size q >=? qcap q then
    match q_last q with
    | LItem tail =>
        if better it tail then
          match q_remove (ihash tail) q with
          | (q', ENone) => (q_insert (ihash it) it q', ENone)
          | (q', e) => (q', e)
          end
        else (q, EFull)
    | LNil => (q, EFull)      (* tail == nil: maxsize <= 0, nothing to replace *)
    | LPanic => (q, EPanic)   (* Last() itself dereferenced nil *)
    end
  else (q_insert (ihash it) it q, ENone).

(** Walk(count, cb) with cb always true: the items visited.
    [i++; if i == count { stop }] after each visited item. *)
Fixpoint take_count {A} (count : Z) (l : list A) : list A :=
  match l with
  | [] => []
  | x :: tl => x :: (if count =? 1 then [] else take_count (count - 1) tl)
  end.

Definition q_contents (q : queue) : list item := concat (map snd (qlist q)).
Definition q_walk (count : Z) (q : queue) : list item := take_count count (q_contents q).

(** * Operation histories *)
Inductive op := OPush (it : item) | ORemove (h : N) | OWalk (count : Z).
Inductive res := RErr (e : err) | RList (l : list item).

Definition q_step (o : op) (q : queue) : queue * res :=
  match o with
  | OPush it => let (q', e) := q_push it q in (q', RErr e)
  | ORemove h => let (q', e) := q_remove h q in (q', RErr e)
  | OWalk c => (q, RList (q_walk c q))
  end.

Fixpoint q_run (ops : list op) (q : queue) : queue * list res :=
  match ops with
  | [] => (q, [])
  | o :: tl => let (q1, r) := q_step o q in
               let (q2, rs) := q_run tl q1 in (q2, r :: rs)
  end.

Definition q_final (cap : Z) (ops : list op) : queue := fst (q_run ops (newq cap)).
