(** C24 — executable model of common/skiplist/skiplist.go (layer 2).

    Pointer-free: a node is a record holding its [next] array (one slot per
    level of the node), [prev], score and value; a pointer is a node number
    ([option nat], [None] = nil); the heap is a function from node numbers to
    nodes.  Node 0 is the header (32 slots), [Insert] allocates node number
    [ssize] and nothing is ever freed (a deleted node stays behind unreachable).

    [find] / [Insert] / [Delete] follow the Go code statement by statement:
    the descent over the levels with the inner "advance while Compare" loop,
    the [update] array, the link / unlink loops over the levels, [prev], [tail],
    [level], [count], [findcount].

    The random level is computed by [random_level] (the code of [randomLevel])
    from a stream of [rand.Int()] results that is an input of the model.

    Abnormal results
    - [Panic]: the Go code would dereference nil or index a [next] array out of
      range;
    - [NoFuel]: a loop ran longer than [count + 1] steps (the loops of the Go
      code are not structurally bounded; in a well-formed list they are).
    [SkipProofs.v] shows that neither occurs. *)
From Coq Require Import List ZArith NArith Bool Arith.
From C33 Require Import C24.Model.
Import ListNotations.
Open Scope Z_scope.

Inductive outcome (A : Type) := Ok (a : A) | Panic | NoFuel.
Arguments Ok {A} a.
Arguments Panic {A}.
Arguments NoFuel {A}.

Definition bind {A B} (o : outcome A) (f : A -> outcome B) : outcome B :=
  match o with Ok a => f a | Panic => Panic | NoFuel => NoFuel end.

Definition maxLevel : nat := 32.

(** randomLevel: [t := prob * 0xFFFF] = 22937.25, [int(t)] = 22937;
    [for rand.Int()&0xFFFF < int(t) { level++; if level == maxLevel { break } }].
    An exhausted stream counts as a draw that ends the loop. *)
Fixpoint rand_level (fuel : nat) (lvl : nat) (rnd : list Z) : nat * list Z :=
  match fuel with
  | O => (lvl, rnd)
  | S f =>
      match rnd with
      | [] => (lvl, [])
      | r :: tl =>
          if Z.land r 65535 <? 22937 then
            if Nat.eqb (S lvl) maxLevel then (S lvl, tl) else rand_level f (S lvl) tl
          else (lvl, tl)
      end
  end.
Definition random_level (rnd : list Z) : nat * list Z := rand_level maxLevel 1 rnd.

Fixpoint set_nth {A} (i : nat) (v : A) (l : list A) : list A :=
  match l, i with
  | [], _ => []
  | _ :: tl, O => v :: tl
  | a :: tl, S i' => a :: set_nth i' v tl
  end.

(** The loop conditions: [x.next[i].Value.Compare(value) < 0] (find, Delete)
    and [<= 0] (Insert); [sc] is the score of [x.next[i]]. *)
Definition go_lt (s sc : Z) : bool := sv_compare sc s <? 0.
Definition go_le (s sc : Z) : bool := sv_compare sc s <=? 0.

Section SK.
  Context {V : Type}.

  Record node := mkNode {
    nnext : list (option nat); nprev : option nat; nscore : Z; nval : V }.

  Definition heap := nat -> node.
  Definition hset (h : heap) (x : nat) (n : node) : heap :=
    fun y => if Nat.eqb y x then n else h y.

  Definition set_next (h : heap) (x i : nat) (v : option nat) : heap :=
    let n := h x in hset h x (mkNode (set_nth i v (nnext n)) (nprev n) (nscore n) (nval n)).
  Definition set_prev (h : heap) (x : nat) (p : option nat) : heap :=
    let n := h x in hset h x (mkNode (nnext n) p (nscore n) (nval n)).
  Definition set_val (h : heap) (x : nat) (v : V) : heap :=
    let n := h x in hset h x (mkNode (nnext n) (nprev n) (nscore n) v).

  (** [x.next[i]]: [None] = index out of range. *)
  Definition nxt (h : heap) (x i : nat) : option (option nat) := nth_error (nnext (h x)) i.

  Record skl := mkSkl {
    sheap : heap; ssize : nat; stail : option nat;
    slevel : nat; scount : nat; sfindc : Z }.

  (** NewSkipList(min) *)
  Definition sk_new (ms : Z) (mv : V) : skl :=
    mkSkl (fun _ => mkNode (repeat None maxLevel) None ms mv) 1 None 1 0 0.

  (** [for x.next[i] != nil && go(x.next[i]) { cnt++; x = x.next[i] }] *)
  Fixpoint walk (fuel : nat) (h : heap) (go : Z -> bool) (i x : nat) (cnt : Z)
    : outcome (nat * Z) :=
    match fuel with
    | O => NoFuel
    | S f =>
        match nxt h x i with
        | None => Panic
        | Some None => Ok (x, cnt)
        | Some (Some y) =>
            if go (nscore (h y)) then walk f h go i y (cnt + 1) else Ok (x, cnt)
        end
    end.

  (** [for i := level-1; i >= 0; i-- { inner loop; update[i] = x }]; the result
      list is [update[0]; update[1]; …]. *)
  Fixpoint descend (fuel : nat) (h : heap) (go : Z -> bool) (i x : nat) (cnt : Z)
           (upd : list nat) : outcome (nat * Z * list nat) :=
    match i with
    | O => Ok (x, cnt, upd)
    | S i' =>
        match walk fuel h go i' x cnt with
        | Ok (x', cnt') => descend fuel h go i' x' cnt' (x' :: upd)
        | Panic => Panic
        | NoFuel => NoFuel
        end
    end.

  Definition locate (go : Z -> bool) (sk : skl) : outcome (nat * Z * list nat) :=
    descend (S (scount sk)) (sheap sk) go (slevel sk) 0 0 [].

  Definition with_findc (sk : skl) (c : Z) : skl :=
    mkSkl (sheap sk) (ssize sk) (stail sk) (slevel sk) (scount sk) (sfindc sk + c).

  (** find + the test of Find: the node, if one with an equal score follows. *)
  Definition sk_find_node (s : Z) (sk : skl) : outcome (skl * option nat) :=
    match locate (go_lt s) sk with
    | Ok (x, cnt, _) =>
        let sk' := with_findc sk cnt in
        match nxt (sheap sk) x 0 with
        | None => Panic
        | Some None => Ok (sk', None)
        | Some (Some y) =>
            if sv_compare (nscore (sheap sk y)) s =? 0 then Ok (sk', Some y) else Ok (sk', None)
        end
    | Panic => Panic
    | NoFuel => NoFuel
    end.

  Definition value_of (sk : skl) (o : option nat) : option (Z * V) :=
    match o with None => None | Some y => Some (nscore (sheap sk y), nval (sheap sk y)) end.

  (** Find *)
  Definition sk_find (s : Z) (sk : skl) : outcome (skl * option (Z * V)) :=
    bind (sk_find_node s sk) (fun r => Ok (fst r, value_of (fst r) (snd r))).

  (** FindGreaterOrEqual (and Iterator.Seek) *)
  Definition sk_ge (s : Z) (sk : skl) : outcome (skl * option (Z * V)) :=
    match locate (go_lt s) sk with
    | Ok (x, cnt, _) =>
        let sk' := with_findc sk cnt in
        match nxt (sheap sk) x 0 with
        | None => Panic
        | Some o => Ok (sk', value_of sk' o)
        end
    | Panic => Panic
    | NoFuel => NoFuel
    end.

  (** [v := Find(s); if v != nil { v.Value = newval }] (what Queue does with the
      bucket a Find returns). *)
  Definition sk_update (s : Z) (v : V) (sk : skl) : outcome (skl * bool) :=
    bind (sk_find_node s sk) (fun r =>
      match snd r with
      | None => Ok (fst r, false)
      | Some y =>
          let k := fst r in
          Ok (mkSkl (set_val (sheap k) y v) (ssize k) (stail k) (slevel k) (scount k) (sfindc k), true)
      end).

  (** [for i := 0; i < level; i++ { x.next[i] = update[i].next[i]; update[i].next[i] = x }] *)
  Fixpoint link (h : heap) (x : nat) (upd : list nat) (i : nat) : outcome heap :=
    match upd with
    | [] => Ok h
    | u :: tl =>
        match nxt h u i with
        | None => Panic
        | Some nx => link (set_next (set_next h x i nx) u i (Some x)) x tl (S i)
        end
    end.

  (** Insert *)
  Definition sk_insert (s : Z) (v : V) (sk : skl) (rnd : list Z) : outcome (skl * list Z * Z) :=
    match locate (go_le s) sk with
    | Ok (_, _, upd) =>
        let (lv, rnd') := random_level rnd in
        let grow := Nat.ltb (slevel sk) lv in
        let upd' := if grow then upd ++ repeat O (lv - slevel sk) else upd in
        let level' := if grow then lv else slevel sk in
        let x := ssize sk in
        let h0 := hset (sheap sk) x (mkNode (repeat None lv) None s v) in
        match link h0 x (firstn lv upd') 0 with
        | Ok h1 =>
            match upd' with
            | [] => Panic
            | u0 :: _ =>
                let h2 := if Nat.eqb u0 0 then h1 else set_prev h1 x (Some u0) in
                match nxt h2 x 0 with
                | None => Panic
                | Some None =>
                    Ok (mkSkl h2 (S x) (Some x) level' (S (scount sk)) (sfindc sk), rnd', 1)
                | Some (Some y) =>
                    Ok (mkSkl (set_prev h2 y (Some x)) (S x) (stail sk) level' (S (scount sk))
                              (sfindc sk), rnd', 1)
                end
            end
        | Panic => Panic
        | NoFuel => NoFuel
        end
    | Panic => Panic
    | NoFuel => NoFuel
    end.

  (** [for i := 0; i < sl.level; i++ { if update[i].next[i] == x { update[i].next[i] = x.next[i] } }] *)
  Fixpoint unlink (h : heap) (y : nat) (upd : list nat) (i : nat) : outcome heap :=
    match upd with
    | [] => Ok h
    | u :: tl =>
        match nxt h u i with
        | None => Panic
        | Some (Some z) =>
            if Nat.eqb z y then
              match nxt h y i with
              | None => Panic
              | Some ny => unlink (set_next h u i ny) y tl (S i)
              end
            else unlink h y tl (S i)
        | Some None => unlink h y tl (S i)
        end
    end.

  (** [for sl.level > 1 && sl.header.next[sl.level-1] == nil { sl.level-- }] *)
  Fixpoint shrink (hd : list (option nat)) (lvl : nat) : outcome nat :=
    match lvl with
    | O => Ok O
    | S m =>
        match m with
        | O => Ok lvl
        | S _ =>
            match nth_error hd m with
            | None => Panic
            | Some None => shrink hd m
            | Some (Some _) => Ok lvl
            end
        end
    end.

  (** Delete *)
  Definition sk_delete (s : Z) (sk : skl) : outcome (skl * Z) :=
    match locate (go_lt s) sk with
    | Ok (x, _, upd) =>
        let h := sheap sk in
        match nxt h x 0 with
        | None => Panic
        | Some None => Ok (sk, 0)
        | Some (Some y) =>
            if sv_compare (nscore (h y)) s =? 0 then
              match unlink h y upd 0 with
              | Ok h1 =>
                  match nxt h1 y 0 with
                  | None => Panic
                  | Some ny =>
                      let p := nprev (h1 y) in
                      let h2 := match ny with Some z => set_prev h1 z p | None => h1 end in
                      let tl := match ny with Some _ => stail sk | None => p end in
                      match shrink (nnext (h2 O)) (slevel sk) with
                      | Ok l' => Ok (mkSkl h2 (ssize sk) tl l' (pred (scount sk)) (sfindc sk), 1)
                      | Panic => Panic
                      | NoFuel => NoFuel
                      end
                  end
              | Panic => Panic
              | NoFuel => NoFuel
              end
            else Ok (sk, 0)
        end
    | Panic => Panic
    | NoFuel => NoFuel
    end.

  (** Observers.  [follow]: the [next[0]] chain behind [x] (Walk / WalkS /
      Iterator.Next); [back]: the [prev] chain from [x] (Iterator.Last / Prev). *)
  Fixpoint follow (fuel : nat) (h : heap) (x : nat) : outcome (list nat) :=
    match fuel with
    | O => NoFuel
    | S f =>
        match nxt h x 0 with
        | None => Panic
        | Some None => Ok []
        | Some (Some y) => bind (follow f h y) (fun ys => Ok (y :: ys))
        end
    end.

  Fixpoint back (fuel : nat) (h : heap) (x : option nat) : outcome (list nat) :=
    match x with
    | None => Ok []
    | Some y =>
        match fuel with
        | O => NoFuel
        | S f => bind (back f h (nprev (h y))) (fun ys => Ok (y :: ys))
        end
    end.

  Definition entry (h : heap) (x : nat) : Z * V := (nscore (h x), nval (h x)).

  Definition sk_walk (sk : skl) : outcome (list (Z * V)) :=
    bind (follow (S (scount sk)) (sheap sk) 0) (fun ids => Ok (map (entry (sheap sk)) ids)).
  Definition sk_back (sk : skl) : outcome (list (Z * V)) :=
    bind (back (S (scount sk)) (sheap sk) (stail sk)) (fun ids => Ok (map (entry (sheap sk)) ids)).
  (** Iterator.First / Last *)
  Definition sk_first (sk : skl) : outcome (option (Z * V)) :=
    match nxt (sheap sk) 0 0 with None => Panic | Some o => Ok (value_of sk o) end.
  Definition sk_last (sk : skl) : option (Z * V) := value_of sk (stail sk).

  (** * Operation histories *)
  Inductive sop :=
  | SInsert (s : Z) (v : V) | SDelete (s : Z) | SFind (s : Z) | SGe (s : Z) | SUpdate (s : Z) (v : V).
  Inductive sres := SInt (n : Z) | SVal (o : option (Z * V)).

  Definition sk_step (o : sop) (sk : skl) (rnd : list Z) : outcome (skl * list Z * sres) :=
    match o with
    | SInsert s v => bind (sk_insert s v sk rnd) (fun r => Ok (fst (fst r), snd (fst r), SInt (snd r)))
    | SDelete s => bind (sk_delete s sk) (fun r => Ok (fst r, rnd, SInt (snd r)))
    | SFind s => bind (sk_find s sk) (fun r => Ok (fst r, rnd, SVal (snd r)))
    | SGe s => bind (sk_ge s sk) (fun r => Ok (fst r, rnd, SVal (snd r)))
    | SUpdate s v => bind (sk_update s v sk) (fun r => Ok (fst r, rnd, SInt (if snd r then 1 else 0)))
    end.

  Fixpoint sk_run (ops : list sop) (sk : skl) (rnd : list Z) : outcome (skl * list sres) :=
    match ops with
    | [] => Ok (sk, [])
    | o :: tl =>
        bind (sk_step o sk rnd) (fun r =>
          bind (sk_run tl (fst (fst r)) (snd (fst r))) (fun r2 => Ok (fst r2, snd r :: snd r2)))
    end.

  (** * The level-0 reference: the same histories on the sorted list of
      [Model.v] ([sl_find] / [sl_insert] / [sl_delete] / [sl_update]). *)
  Fixpoint sl_ge (s : Z) (l : list (Z * V)) : option (Z * V) :=
    match l with
    | [] => None
    | (s', v) :: tl => if sv_compare s' s <? 0 then sl_ge s tl else Some (s', v)
    end.

  Definition found (s : Z) (l : list (Z * V)) : option (Z * V) :=
    match sl_find s l with None => None | Some v => Some (s, v) end.

  Definition l0_step (o : sop) (l : list (Z * V)) : list (Z * V) * sres :=
    match o with
    | SInsert s v => (sl_insert s v l, SInt 1)
    | SDelete s => (sl_delete s l, SInt (match sl_find s l with Some _ => 1 | None => 0 end))
    | SFind s => (l, SVal (found s l))
    | SGe s => (l, SVal (sl_ge s l))
    | SUpdate s v => (sl_update s v l, SInt (match sl_find s l with Some _ => 1 | None => 0 end))
    end.

  Fixpoint l0_run (ops : list sop) (l : list (Z * V)) : list (Z * V) * list sres :=
    match ops with
    | [] => (l, [])
    | o :: tl => let (l1, r) := l0_step o l in
                 let (l2, rs) := l0_run tl l1 in (l2, r :: rs)
    end.
End SK.

Arguments node : clear implicits.
Arguments heap : clear implicits.
Arguments skl : clear implicits.
Arguments sop : clear implicits.
Arguments sres : clear implicits.
