(** C24 layer 2 — Insert: the link loop, the new level structure, the invariant. *)
From Coq Require Import List ZArith NArith Bool Arith Lia Sorted.
From C33 Require Import C24.Model C24.ProofsSpec C24.SkipModel C24.SkipLemmas C24.SkipSearch.
Import ListNotations.
Local Open Scope nat_scope.

Ltac bool_cases :=
  repeat match goal with
  | |- context [?a <=? ?b] => destruct (Nat.leb_spec a b)
  | |- context [?a <? ?b] => destruct (Nat.ltb_spec a b)
  | |- context [?a =? ?b] => destruct (Nat.eqb_spec a b)
  end; simpl; try lia; try congruence.

Section I.
  Context {V : Type}.
  Notation heap := (heap V).
  Notation skl := (skl V).
  Implicit Types (h : heap) (sk : skl) (x y i k : nat).

  Lemma nxt_set_next_if h a k v y i :
    k < height h a ->
    nxt (set_next h a k v) y i = if (y =? a) && (i =? k) then Some v else nxt h y i.
  Proof.
    intro H. destruct (Nat.eqb_spec y a) as [->|N]; simpl.
    - destruct (Nat.eqb_spec i k) as [->|N2].
      + now apply nxt_set_next_same.
      + now apply nxt_set_next_slot.
    - now apply nxt_set_next_node.
  Qed.

  (** ** the link loop *)
  Lemma link_spec x (U : nat -> nat) : forall n k h,
    (forall i, k <= i < k + n -> U i <> x /\ i < height h (U i)) ->
    k + n <= height h x ->
    exists h',
      link h x (map U (seq k n)) k = Ok h' /\
      (forall y, height h' y = height h y /\ nprev (h' y) = nprev (h y) /\
                 nscore (h' y) = nscore (h y) /\ nval (h' y) = nval (h y)) /\
      (forall y i, y <> x ->
         nxt h' y i = if (k <=? i) && (i <? k + n) && (U i =? y) then Some (Some x) else nxt h y i) /\
      (forall i, nxt h' x i = if (k <=? i) && (i <? k + n) then nxt h (U i) i else nxt h x i).
  Proof.
    induction n as [|n IH]; intros k h HU Hx.
    - exists h. simpl. repeat split; auto.
      + intros y i _. bool_cases.
      + intro i. bool_cases.
    - cbn [seq map link].
      destruct (HU k) as [Hk1 Hk2]; [lia|].
      destruct (nxt_some h (U k) k Hk2) as [nx Enx]. rewrite Enx.
      set (h1 := set_next h x k nx).
      set (h2 := set_next h1 (U k) k (Some x)).
      assert (Hh2 : forall y, height h2 y = height h y).
      { intro y. unfold h2, h1. now rewrite !height_set_next. }
      destruct (IH (S k) h2) as (h' & E & Hf & Hn & Hn').
      { intros i Hi. destruct (HU i) as [A B]; [lia|]. split; auto. now rewrite Hh2. }
      { rewrite Hh2. lia. }
      exists h'. split; [exact E|]. split; [|split].
      + intro y. destruct (Hf y) as (A & B & C & D).
        rewrite A, B, C, D, Hh2. unfold h2, h1.
        rewrite !prev_set_next, !score_set_next, !val_set_next. auto.
      + intros y i Hy. rewrite (Hn y i Hy). unfold h2.
        rewrite nxt_set_next_if by (unfold h1; now rewrite height_set_next).
        unfold h1. rewrite nxt_set_next_node by exact Hy.
        bool_cases.
      + intro i. rewrite (Hn' i). unfold h2.
        rewrite !nxt_set_next_if by (unfold h1; rewrite ?height_set_next; auto; lia).
        unfold h1. rewrite !nxt_set_next_if by lia.
        destruct (HU k) as [A _]; [lia|].
        bool_cases.
  Qed.

  (** ** the state after Insert satisfies the invariant *)
  Section NEW.
    Variables (sk : skl) (ids pre post : list nat) (s : Z) (v : V) (lv : nat) (h' : heap)
              (U : nat -> nat) (tail' : option nat) (fc : Z).
    Let h := sheap sk.
    Let x := ssize sk.
    Hypothesis HI : inv sk ids.
    Hypothesis Hpp : pre ++ post = ids.
    Hypothesis Hlv : 1 <= lv <= maxLevel.
    Hypothesis HU : forall i, U i = last_above h i pre 0.
    Hypothesis Hht : forall y, y <> x -> height h' y = height h y.
    Hypothesis Hhx : height h' x = lv.
    Hypothesis Hsc : forall y, y <> x -> nscore (h' y) = nscore (h y) /\ nval (h' y) = nval (h y).
    Hypothesis Hsx : nscore (h' x) = s /\ nval (h' x) = v.
    Hypothesis Hnx : forall y i, y <> x ->
      nxt h' y i = if (i <? lv) && (U i =? y) then Some (Some x) else nxt h y i.
    Hypothesis Hnx' : forall i, i < lv -> nxt h' x i = nxt h (U i) i.
    Hypothesis Hpx : nprev (h' x) = last_opt pre.
    Hypothesis Hpy : forall y, y <> x ->
      nprev (h' y) = match post with z :: _ => if z =? y then Some x else nprev (h y) | [] => nprev (h y) end.
    Hypothesis Hpre : Forall (fun y => (score_of h y >= s)%Z) pre.
    Hypothesis Hpost : Forall (fun y => (score_of h y < s)%Z) post.
    Hypothesis Htail : tail' = match post with [] => Some x | _ => stail sk end.

    Let level' := if slevel sk <? lv then lv else slevel sk.

    Lemma x_fresh : ~ In x (0 :: pre ++ post).
    Proof.
      rewrite Hpp. intro Hin. pose proof (i_lt _ _ HI) as H. rewrite Forall_forall in H.
      specialize (H x Hin). unfold x in H. lia.
    Qed.

    Lemma nodup_old : NoDup (0 :: pre ++ post).
    Proof. rewrite Hpp. apply (i_nodup _ _ HI). Qed.

    Lemma h0_height : height h 0 = maxLevel.
    Proof. apply (i_hd _ _ HI). Qed.

    Lemma old_next : nexts_ok h (0 :: pre ++ post).
    Proof. rewrite Hpp. apply (i_next _ _ HI). Qed.

    Lemma old_hts : Forall (fun y => 1 <= height h y <= slevel sk) (pre ++ post).
    Proof. rewrite Hpp. apply (i_hts _ _ HI). Qed.

    Lemma ht_ext l : ~ In x l -> forall y, In y l -> height h' y = height h y.
    Proof. intros Hn y Hy. apply Hht. intros ->. auto. Qed.

    Lemma notin_sub a b c : ~ In x (a ++ b ++ c) -> ~ In x b.
    Proof. intros H Hb. apply H. apply in_or_app. right. apply in_or_app. now left. Qed.

    Lemma U_split i : i < maxLevel ->
      exists r1 r2, 0 :: pre = r1 ++ U i :: r2 /\ i < height h (U i) /\ low h i r2.
    Proof.
      intro Hi. rewrite HU. apply last_above_split. rewrite h0_height. exact Hi.
    Qed.

    Lemma U_in i : i < maxLevel -> In (U i) (0 :: pre).
    Proof.
      intro Hi. destruct (U_split i Hi) as (r1 & r2 & E & _). rewrite E.
      apply in_or_app. right. now left.
    Qed.

    Lemma height_bound p : In p (0 :: pre ++ post) -> height h p <= maxLevel.
    Proof.
      intros [<-|Hp]; [rewrite h0_height; lia|].
      pose proof old_hts as H. rewrite Forall_forall in H. specialize (H p Hp).
      pose proof (i_lvl _ _ HI). lia.
    Qed.

    (** U i seen from a node [p] of [0 :: pre] *)
    Lemma U_from q1 p a2 i :
      0 :: pre = q1 ++ p :: a2 -> i < height h p -> U i = last_above h i a2 p.
    Proof.
      intros E Hi. rewrite HU.
      assert (E0 : last_above h i pre 0 = last_above h i (0 :: pre) 0).
      { simpl. destruct (i <? height h 0); reflexivity. }
      rewrite E0, E, last_above_app. simpl.
      replace (i <? height h p) with true; auto. symmetry. now apply Nat.ltb_lt.
    Qed.

    Lemma new_next : nexts_ok h' (0 :: pre ++ x :: post).
    Proof.
      pose proof x_fresh as Hxf. pose proof nodup_old as Hnd. pose proof old_next as Hold.
      intros q1 p q2 E i Hi.
      change (0 :: pre ++ x :: post) with ((0 :: pre) ++ x :: post) in E.
      destruct (split3 _ _ _ _ _ _ E) as [(a2 & Ea & ->)|[(-> & -> & ->)|(b1 & Eb & ->)]].
      - (* p in 0 :: pre *)
        assert (Epp : 0 :: pre ++ post = q1 ++ p :: (a2 ++ post)).
        { change (0 :: pre ++ post) with ((0 :: pre) ++ post). rewrite Ea.
          rewrite <- app_assoc. reflexivity. }
        assert (Hpx' : p <> x).
        { intros ->. apply Hxf. rewrite Epp. apply in_or_app. right. now left. }
        rewrite (Hht p Hpx') in Hi.
        assert (Hxa2 : ~ In x a2).
        { intro Hc. apply Hxf. rewrite Epp. apply in_or_app. right. right.
          apply in_or_app. now left. }
        assert (Hxpost : ~ In x post).
        { intro Hc. apply Hxf. rewrite Epp. apply in_or_app. right. right.
          apply in_or_app. now right. }
        assert (Hi32 : i < maxLevel).
        { assert (height h p <= maxLevel); [|lia]. apply height_bound. rewrite Epp.
          apply in_or_app. right. now left. }
        pose proof (Hold q1 p (a2 ++ post) Epp i Hi) as Hnp.
        pose proof (U_from q1 p a2 i Ea Hi) as EU.
        rewrite (Hnx p i Hpx').
        rewrite succ_at_app, (succ_at_ext h h' i a2 (ht_ext a2 Hxa2)).
        rewrite succ_at_app in Hnp.
        destruct (succ_at h i a2) as [z|] eqn:Ez.
        + (* a later node of pre is above level i: nothing changes for p *)
          assert (HUp : U i <> p).
          { destruct (last_above_cases h i a2 p) as [[_ L]|(p1 & p2 & E2 & _ & _)].
            - apply succ_at_none in L. congruence.
            - rewrite <- EU in E2. intro Hc. rewrite Hc in E2.
              rewrite Epp in Hnd. apply NoDup_remove_2 in Hnd. apply Hnd.
              apply in_or_app. right. apply in_or_app. left. rewrite E2.
              apply in_or_app. right. now left. }
          replace (U i =? p) with false by (symmetry; now apply Nat.eqb_neq).
          rewrite andb_false_r. exact Hnp.
        + assert (L : low h i a2) by (now apply succ_at_none).
          rewrite (last_above_low h i a2 p L) in EU. rewrite EU, Nat.eqb_refl, andb_true_r.
          simpl. rewrite Hhx.
          destruct (Nat.ltb_spec i lv) as [Hl|Hl]; [reflexivity|].
          rewrite Hnp. f_equal. symmetry. apply succ_at_ext. apply ht_ext. exact Hxpost.
      - (* p = x *)
        rewrite Hhx in Hi. rewrite (Hnx' i Hi).
        assert (Hi32 : i < maxLevel) by lia.
        destruct (U_split i Hi32) as (r1 & r2 & Er & HhU & L).
        assert (Epp : 0 :: pre ++ post = r1 ++ U i :: (r2 ++ post)).
        { change (0 :: pre ++ post) with ((0 :: pre) ++ post). rewrite Er.
          rewrite <- app_assoc. reflexivity. }
        rewrite (Hold r1 (U i) (r2 ++ post) Epp i HhU).
        rewrite (succ_at_low_app h i r2 post L). f_equal. symmetry.
        apply succ_at_ext. apply ht_ext. intro Hc. apply Hxf. right. apply in_or_app. now right.
      - (* p in post *)
        assert (Epp : 0 :: pre ++ post = (0 :: pre ++ b1) ++ p :: q2).
        { rewrite Eb. simpl. rewrite <- app_assoc. reflexivity. }
        assert (Hpx' : p <> x).
        { intros ->. apply Hxf. rewrite Epp. apply in_or_app. right. now left. }
        rewrite (Hht p Hpx') in Hi.
        assert (Hi32 : i < maxLevel).
        { assert (height h p <= maxLevel); [|lia]. apply height_bound. rewrite Epp.
          apply in_or_app. right. now left. }
        rewrite (Hnx p i Hpx').
        assert (HUp : U i <> p).
        { intro Hc. pose proof (U_in i Hi32) as Hin. rewrite Hc in Hin.
          rewrite Epp in Hnd. apply NoDup_remove_2 in Hnd. apply Hnd.
          apply in_or_app. left. change (In p ((0 :: pre) ++ b1)). apply in_or_app. now left. }
        replace (U i =? p) with false by (symmetry; now apply Nat.eqb_neq).
        rewrite andb_false_r. rewrite (Hold _ p q2 Epp i Hi). f_equal. symmetry.
        apply succ_at_ext. apply ht_ext. intro Hc. apply Hxf. rewrite Epp.
        apply in_or_app. right. now right.
    Qed.

    Lemma new_prev : prevs_ok h' (pre ++ x :: post).
    Proof.
      pose proof x_fresh as Hxf. pose proof nodup_old as Hnd.
      pose proof (i_prev _ _ HI) as Hold. fold h in Hold. rewrite <- Hpp in Hold.
      assert (Hnd' : NoDup (pre ++ post)) by (now inversion Hnd).
      intros q1 p q2 E.
      destruct (split3 _ _ _ _ _ _ E) as [(a2 & Ea & ->)|[(-> & -> & ->)|(b1 & Eb & ->)]].
      - assert (Epp : pre ++ post = q1 ++ p :: (a2 ++ post)).
        { rewrite Ea, <- app_assoc. reflexivity. }
        assert (Hpx' : p <> x).
        { intros ->. apply Hxf. right. rewrite Epp. apply in_or_app. right. now left. }
        rewrite (Hpy p Hpx'), <- (Hold q1 p (a2 ++ post) Epp).
        destruct post as [|z post']; auto.
        destruct (Nat.eqb_spec z p) as [->|N]; auto.
        exfalso. rewrite Epp in Hnd'. apply NoDup_remove_2 in Hnd'. apply Hnd'.
        apply in_or_app. right. apply in_or_app. right. now left.
      - exact Hpx.
      - assert (Hpx' : p <> x).
        { intros ->. apply Hxf. right. apply in_or_app. right. rewrite Eb.
          apply in_or_app. right. now left. }
        rewrite (Hpy p Hpx'). rewrite Eb.
        destruct b1 as [|z b1]; simpl.
        + rewrite Nat.eqb_refl. change (pre ++ [x]) with (pre ++ [x]).
          symmetry. apply last_opt_snoc.
        + assert (Epp : pre ++ post = (pre ++ z :: b1) ++ p :: q2).
          { rewrite Eb, <- app_assoc. reflexivity. }
          rewrite (Hold _ p q2 Epp).
          destruct (Nat.eqb_spec z p) as [->|N].
          * exfalso. rewrite Epp in Hnd'. apply NoDup_remove_2 in Hnd'. apply Hnd'.
            apply in_or_app. left. apply in_or_app. right. now left.
          * rewrite !last_opt_app_ne by discriminate.
            change (x :: z :: b1) with ([x] ++ z :: b1). now rewrite last_opt_app_ne by discriminate.
    Qed.

    Lemma score_ext y : y <> x -> score_of h' y = score_of h y.
    Proof. intro Hy. unfold score_of. now destruct (Hsc y Hy). Qed.

    Lemma new_sorted : StronglySorted (desc h') (pre ++ x :: post).
    Proof.
      pose proof x_fresh as Hxf. pose proof (i_sorted _ _ HI) as Hs. fold h in Hs.
      rewrite <- Hpp in Hs.
      assert (Hxs : score_of h' x = s) by (unfold score_of; tauto).
      assert (Hne : forall y, In y (pre ++ post) -> y <> x).
      { intros y Hy ->. apply Hxf. now right. }
      apply ssorted_mid.
      - apply (ssorted_ext (desc h)); auto. intros a b Ha Hb. unfold desc.
        rewrite !score_ext; auto.
      - rewrite Forall_forall in *. intros y Hy. unfold desc.
        rewrite Hxs, score_ext by (apply Hne; apply in_or_app; now left).
        specialize (Hpre y Hy). lia.
      - rewrite Forall_forall in *. intros y Hy. unfold desc.
        rewrite Hxs, score_ext by (apply Hne; apply in_or_app; now right).
        specialize (Hpost y Hy). lia.
    Qed.

    Lemma insert_inv :
      inv (mkSkl h' (S x) tail' level' (S (scount sk)) fc) (pre ++ x :: post).
    Proof.
      pose proof x_fresh as Hxf. pose proof nodup_old as Hnd.
      split; cbn [sheap ssize stail slevel scount].
      - (* NoDup *)
        inversion Hnd as [|? ? H0 Hnd']; subst. constructor.
        + intro Hc. apply in_app_or in Hc as [Hc|[Hc|Hc]].
          * apply H0. apply in_or_app. now left.
          * apply Hxf. left. auto.
          * apply H0. apply in_or_app. now right.
        + apply NoDup_Add with (a := x) (l := pre ++ post).
          * apply Add_app.
          * split; auto. intro Hc. apply Hxf. now right.
      - pose proof (i_lt _ _ HI) as Hl. fold x in Hl. rewrite <- Hpp in Hl.
        rewrite Forall_forall in *. intros y [<-|Hy].
        + specialize (Hl 0 (or_introl eq_refl)). lia.
        + apply in_app_or in Hy as [Hy|[<-|Hy]].
          * specialize (Hl y). assert (y < x); [|lia]. apply Hl. right. apply in_or_app. now left.
          * lia.
          * specialize (Hl y). assert (y < x); [|lia]. apply Hl. right. apply in_or_app. now right.
      - rewrite Hht; [apply h0_height|]. intro Hc. apply Hxf. left. auto.
      - apply new_next.
      - pose proof old_hts as Hh. pose proof (i_lvl _ _ HI) as Hl.
        assert (Hlev : slevel sk <= level' /\ lv <= level').
        { unfold level'. destruct (Nat.ltb_spec (slevel sk) lv); lia. }
        apply Forall_app in Hh as [Hh1 Hh2].
        apply Forall_app. split; [|constructor].
        + rewrite Forall_forall in *. intros y Hy. rewrite Hht.
          * specialize (Hh1 y Hy). lia.
          * intros ->. apply Hxf. right. apply in_or_app. now left.
        + rewrite Hhx. lia.
        + rewrite Forall_forall in *. intros y Hy. rewrite Hht.
          * specialize (Hh2 y Hy). lia.
          * intros ->. apply Hxf. right. apply in_or_app. now right.
      - pose proof (i_lvl _ _ HI) as Hl. unfold level'.
        destruct (Nat.ltb_spec (slevel sk) lv); lia.
      - apply new_prev.
      - rewrite Htail. destruct post as [|z post'].
        + symmetry. apply last_opt_snoc.
        + rewrite (i_tail _ _ HI), <- Hpp. rewrite !last_opt_app_ne by discriminate.
          change (x :: z :: post') with ([x] ++ z :: post'). now rewrite last_opt_app_ne by discriminate.
      - rewrite (i_cnt _ _ HI), <- Hpp, !app_length. simpl. lia.
      - apply new_sorted.
    Qed.

    Lemma insert_abs :
      absl h' (pre ++ x :: post) = absl h pre ++ (s, v) :: absl h post.
    Proof.
      pose proof x_fresh as Hxf.
      assert (He : forall l, ~ In x l -> absl h' l = absl h l).
      { intros l Hl. unfold absl. apply map_ext_in. intros y Hy. unfold entry.
        assert (Hyx : y <> x) by (intros ->; auto). destruct (Hsc y Hyx) as [-> ->]. reflexivity. }
      unfold absl in *. rewrite map_app. simpl. rewrite !He.
      - unfold entry at 2. destruct Hsx as [-> ->]. reflexivity.
      - intro Hc. apply Hxf. right. apply in_or_app. now right.
      - intro Hc. apply Hxf. right. apply in_or_app. now left.
    Qed.
  End NEW.

  (** ** randomLevel stays within 1 .. maxLevel *)
  Lemma rand_level_bound : forall fuel lvl rnd,
    1 <= lvl < maxLevel -> lvl <= fst (rand_level fuel lvl rnd) <= maxLevel.
  Proof.
    induction fuel as [|f IH]; intros lvl rnd Hl; simpl; [lia|].
    destruct rnd as [|r tl]; cbn [fst]; [lia|].
    destruct (Z.land r 65535 <? 22937)%Z; cbn [fst]; [|lia].
    unfold maxLevel in *.
    destruct (Nat.eqb_spec lvl 31) as [E|N]; cbn [fst]; [lia|].
    specialize (IH (S lvl) tl). lia.
  Qed.

  Lemma random_level_bound rnd : 1 <= fst (random_level rnd) <= maxLevel.
  Proof.
    unfold random_level. pose proof (rand_level_bound maxLevel 1 rnd). unfold maxLevel in *. lia.
  Qed.

  (** ** the level-0 effect *)
  Lemma sl_insert_split h s (v : V) ids :
    sl_insert s v (absl h ids) =
    absl h (tw (fun y => go_le s (score_of h y)) ids) ++
    (s, v) :: absl h (dw (fun y => go_le s (score_of h y)) ids).
  Proof.
    induction ids as [|y ids IH]; simpl; auto.
    unfold score_of at 1 3, go_le at 1 3, entry at 1. simpl.
    destruct (sv_compare (nscore (h y)) s <=? 0)%Z; simpl; [now rewrite IH|reflexivity].
  Qed.

  Lemma firstn_seq_le n : forall a m, n <= m -> firstn n (seq a m) = seq a n.
  Proof.
    induction n as [|n IH]; intros a m H; simpl; auto.
    destruct m as [|m]; [lia|]. simpl. f_equal. apply IH. lia.
  Qed.

  Lemma map_const_seq (U : nat -> nat) m : forall a,
    (forall j, a <= j -> U j = 0) -> map U (seq a m) = repeat 0 m.
  Proof.
    induction m as [|m IH]; intros a H; simpl; auto. f_equal; [apply H; lia|].
    apply IH. intros j Hj. apply H. lia.
  Qed.

  (** ** Insert *)
  Lemma sk_insert_spec sk ids s (v : V) rnd :
    inv sk ids ->
    exists sk' ids',
      sk_insert s v sk rnd = Ok (sk', snd (random_level rnd), 1%Z) /\
      inv sk' ids' /\
      absl (sheap sk') ids' = sl_insert s v (absl (sheap sk) ids).
  Proof.
    intro HI.
    set (h := sheap sk). set (x := ssize sk).
    set (f := fun y => go_le s (score_of h y)).
    set (pre := tw f ids). set (post := dw f ids).
    set (U := upd_at sk ids (go_le s)).
    set (L := slevel sk).
    pose proof (antitone_le s) as HA.
    pose proof (pre_post sk ids (go_le s)) as Hpp. fold h f pre post in Hpp.
    pose proof (random_level_bound rnd) as Hlv.
    pose proof (i_lvl _ _ HI) as HL. fold L in HL.
    assert (HxF : ~ In x (0 :: ids)).
    { intro Hin. pose proof (i_lt _ _ HI) as H. rewrite Forall_forall in H.
      specialize (H x Hin). unfold x in H. lia. }
    assert (HU : forall i, U i = last_above h i pre 0) by reflexivity.
    assert (HUs : forall i, i < maxLevel ->
              exists r1 r2, 0 :: pre = r1 ++ U i :: r2 /\ i < height h (U i) /\ low h i r2).
    { intros i Hi. rewrite HU. apply last_above_split. unfold h. rewrite (i_hd _ _ HI). exact Hi. }
    assert (HUx : forall i, i < maxLevel -> U i <> x).
    { intros i Hi Hc. destruct (HUs i Hi) as (r1 & r2 & E & _).
      apply HxF. rewrite <- Hpp. change (In x ((0 :: pre) ++ post)). apply in_or_app. left.
      rewrite E, Hc. apply in_or_app. right. now left. }
    assert (HU0 : U 0 = last pre 0).
    { rewrite HU. apply last_above_level0. pose proof (hts_pre sk ids (go_le s) HI) as H.
      fold h f pre in H. rewrite Forall_forall in *. intros y Hy. specialize (H y Hy). lia. }
    assert (Htop : forall j, L <= j -> U j = 0).
    { intros j Hj. apply (upd_at_top sk ids (go_le s) HI). exact Hj. }
    assert (Hpre : Forall (fun y => (score_of h y >= s)%Z) pre).
    { pose proof (pre_go sk ids (go_le s)) as H. fold h f pre in H.
      rewrite Forall_forall in *. intros y Hy. specialize (H y Hy).
      rewrite go_le_spec in H. apply Z.geb_le in H. lia. }
    assert (Hpost : Forall (fun y => (score_of h y < s)%Z) post).
    { pose proof (post_stop sk ids (go_le s) HI HA) as H. fold h f post in H.
      rewrite Forall_forall in *. intros y Hy. specialize (H y Hy).
      rewrite go_le_spec in H. rewrite Z.geb_leb in H. apply Z.leb_gt in H. lia. }
    pose proof (last_pre_zero sk ids (go_le s) HI) as Hz. fold h f pre in Hz.
    pose proof (nxt_stop sk ids (go_le s) HI) as Hst. fold h f pre post in Hst.
    assert (Habs : sl_insert s v (absl h ids) = absl h pre ++ (s, v) :: absl h post).
    { apply sl_insert_split. }
    destruct (locate_spec sk ids (go_le s) HI HA) as [cnt Hloc]. fold h f pre U L in Hloc.
    unfold sk_insert. rewrite Hloc. fold h x L.
    clearbody pre post U. clear Hloc f.
    destruct (random_level rnd) as [lv rnd'] eqn:ER. cbn [fst snd] in *.
    set (upd' := if L <? lv then map U (seq 0 L) ++ repeat 0 (lv - L) else map U (seq 0 L)).
    assert (Efirst : firstn lv upd' = map U (seq 0 lv)).
    { unfold upd'. destruct (Nat.ltb_spec L lv) as [Hl|Hl].
      - replace lv with (L + (lv - L)) at 3 by lia. rewrite seq_app, map_app. simpl.
        rewrite (map_const_seq U (lv - L) L); auto.
        apply firstn_all2. rewrite app_length, map_length, seq_length, repeat_length. lia.
      - rewrite firstn_map, firstn_seq_le; auto. }
    assert (Ehd : exists tl, upd' = U 0 :: tl).
    { unfold upd'. destruct L as [|L']; [lia|]. simpl.
      destruct (S L' <? lv); simpl; eauto. }
    rewrite Efirst. destruct Ehd as [utl ->]. clear Efirst.
    set (h0 := hset h x (mkNode (repeat None lv) None s v)).
    assert (H0o : forall y, y <> x -> h0 y = h y) by (intros y Hy; unfold h0; now rewrite hset_other).
    assert (H0x : h0 x = mkNode (repeat None lv) None s v) by (unfold h0; now rewrite hset_same).
    assert (Hh0x : height h0 x = lv) by (unfold height; rewrite H0x; simpl; apply repeat_length).
    destruct (link_spec x U lv 0 h0) as (h1 & -> & Hf1 & Hn1 & Hn1').
    { intros i Hi. assert (Hi' : i < maxLevel) by lia. split; [now apply HUx|].
      destruct (HUs i Hi') as (_ & _ & _ & Hh & _). unfold height in *. rewrite H0o; auto. }
    { lia. }
    clearbody h0.
    set (h2 := if U 0 =? 0 then h1 else set_prev h1 x (Some (U 0))).
    assert (Hn2 : forall y i, nxt h2 y i = nxt h1 y i).
    { intros y i. unfold h2. destruct (U 0 =? 0); auto. apply nxt_set_prev. }
    assert (Hstop : nxt h2 x 0 = Some (hd_error post)).
    { rewrite Hn2, Hn1'. simpl. replace (0 <? lv) with true by (symmetry; apply Nat.ltb_lt; lia).
      unfold nxt. rewrite H0o by (apply HUx; unfold maxLevel; lia).
      rewrite HU0. exact Hst. }
    rewrite Hstop.
    assert (Hf2 : forall y, height h2 y = height h0 y /\ nscore (h2 y) = nscore (h0 y) /\
                            nval (h2 y) = nval (h0 y)).
    { intro y. unfold h2. destruct (Hf1 y) as (A & _ & C & D).
      destruct (U 0 =? 0); rewrite ?height_set_prev, ?score_set_prev, ?val_set_prev; auto. }
    assert (Hp2x : nprev (h2 x) = last_opt pre).
    { unfold h2. rewrite HU0. destruct (Nat.eqb_spec (last pre 0) 0) as [E0|N0].
      - destruct (Hf1 x) as (_ & -> & _). rewrite H0x. simpl. apply Hz in E0. now rewrite E0.
      - rewrite prev_set_prev_same. symmetry. apply last_opt_last. intro Hc.
        apply N0. now apply Hz. }
    assert (Hp2y : forall y, y <> x -> nprev (h2 y) = nprev (h y)).
    { intros y Hy. unfold h2. destruct (U 0 =? 0).
      - destruct (Hf1 y) as (_ & -> & _). now rewrite H0o.
      - rewrite prev_set_prev_other by exact Hy. destruct (Hf1 y) as (_ & -> & _). now rewrite H0o. }
    clearbody h2.
    set (level' := if L <? lv then lv else L).
    set (h3 := match hd_error post with Some y => set_prev h2 y (Some x) | None => h2 end).
    set (tail' := match post with [] => Some x | _ => stail sk end).
    exists (mkSkl h3 (S x) tail' level' (S (scount sk)) (sfindc sk)), (pre ++ x :: post).
    split; [unfold h3, tail'; destruct post; reflexivity|].
    assert (N3 : forall y i, nxt h3 y i = nxt h1 y i).
    { intros y i. unfold h3. destruct (hd_error post); rewrite ?nxt_set_prev; apply Hn2. }
    assert (Hf3 : forall y, height h3 y = height h0 y /\ nscore (h3 y) = nscore (h0 y) /\
                            nval (h3 y) = nval (h0 y)).
    { intro y. unfold h3. destruct (Hf2 y) as (A & C & D).
      destruct (hd_error post); rewrite ?height_set_prev, ?score_set_prev, ?val_set_prev; auto. }
    assert (N0 : forall y i, y <> x -> nxt h0 y i = nxt h y i).
    { intros y i Hy. unfold nxt. now rewrite H0o. }
    assert (Ypost : forall y, hd_error post = Some y -> y <> x).
    { intros y Hy ->. apply HxF. right. rewrite <- Hpp. apply in_or_app. right.
      destruct post; inversion Hy; subst. now left. }
    split.
    - apply (insert_inv sk ids pre post s v lv h3 U tail' (sfindc sk)); auto; fold h x.
      + intros y Hy. destruct (Hf3 y) as (-> & _). unfold height. now rewrite H0o.
      + destruct (Hf3 x) as (-> & _). exact Hh0x.
      + intros y Hy. destruct (Hf3 y) as (_ & -> & ->). now rewrite H0o.
      + destruct (Hf3 x) as (_ & -> & ->). now rewrite H0x.
      + intros y i Hy. rewrite N3, (Hn1 y i Hy). simpl. now rewrite N0.
      + intros i Hi. rewrite N3, Hn1'. simpl.
        replace (i <? lv) with true by (symmetry; now apply Nat.ltb_lt).
        apply N0. apply HUx. lia.
      + rewrite <- Hp2x. unfold h3. destruct (hd_error post) as [y|] eqn:Ey; auto.
        apply prev_set_prev_other. intro Hc. symmetry in Hc. now apply (Ypost y).
      + intros y Hy. unfold h3. destruct post as [|z post']; simpl; [now apply Hp2y|].
        destruct (Nat.eqb_spec z y) as [->|N].
        * apply prev_set_prev_same.
        * rewrite prev_set_prev_other by auto. now apply Hp2y.
    - cbn [sheap]. rewrite Habs. apply (insert_abs sk ids pre post s v lv h3); auto; fold h x.
      + destruct (Hf3 x) as (-> & _). exact Hh0x.
      + intros y Hy. destruct (Hf3 y) as (_ & -> & ->). now rewrite H0o.
      + destruct (Hf3 x) as (_ & -> & ->). now rewrite H0x.
  Qed.
End I.
