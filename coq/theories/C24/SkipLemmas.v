(** C24 layer 2 — basic facts: lists, the heap primitives of [SkipModel.v],
    the level-i successor / last-node-above functions and the level-structure
    predicate [nexts_ok]. *)
From Coq Require Import List ZArith NArith Bool Arith Lia Sorted.
From C33 Require Import C24.Model C24.SkipModel.
Import ListNotations.
Local Open Scope nat_scope.

(** * lists *)
Lemma set_nth_length {A} i (v : A) l : length (set_nth i v l) = length l.
Proof. revert i. induction l as [|a l IH]; intros [|i]; simpl; auto. Qed.

Lemma nth_error_set_nth_same {A} i (v : A) l :
  i < length l -> nth_error (set_nth i v l) i = Some v.
Proof.
  revert i. induction l as [|a l IH]; intros [|i] H; simpl in *; try lia; auto.
  apply IH. lia.
Qed.

Lemma nth_error_set_nth_other {A} i j (v : A) l :
  i <> j -> nth_error (set_nth i v l) j = nth_error l j.
Proof.
  revert i j. induction l as [|a l IH]; intros [|i] [|j] H; simpl; auto; try lia.
Qed.

Lemma nth_error_repeat {A} (a : A) n i : i < n -> nth_error (repeat a n) i = Some a.
Proof. revert i. induction n; intros [|i] H; simpl; try lia; auto. apply IHn. lia. Qed.

(** splitting an append at an element *)
Lemma split3 {A} (a b q1 q2 : list A) (x p : A) :
  a ++ x :: b = q1 ++ p :: q2 ->
  (exists a2, a = q1 ++ p :: a2 /\ q2 = a2 ++ x :: b) \/
  (p = x /\ q1 = a /\ q2 = b) \/
  (exists b1, b = b1 ++ p :: q2 /\ q1 = a ++ x :: b1).
Proof.
  revert q1. induction a as [|z a IH]; intros q1 E.
  - destruct q1 as [|z' q1]; simpl in E; inversion E; subst.
    + right. left. auto.
    + right. right. exists q1. auto.
  - destruct q1 as [|z' q1]; simpl in E; inversion E; subst.
    + left. exists a. auto.
    + destruct (IH q1 H1) as [(a2 & -> & ->)|[(-> & -> & ->)|(b1 & -> & ->)]].
      * left. exists a2. auto.
      * right. left. auto.
      * right. right. exists b1. auto.
Qed.

Lemma split2 {A} (a b q1 q2 : list A) (p : A) :
  a ++ b = q1 ++ p :: q2 ->
  (exists a2, a = q1 ++ p :: a2 /\ q2 = a2 ++ b) \/
  (exists b1, b = b1 ++ p :: q2 /\ q1 = a ++ b1).
Proof.
  revert q1. induction a as [|z a IH]; intros q1 E.
  - right. exists q1. auto.
  - destruct q1 as [|z' q1]; simpl in E; inversion E; subst.
    + left. exists a. auto.
    + destruct (IH q1 H1) as [(a2 & -> & ->)|(b1 & -> & ->)].
      * left. exists a2. auto.
      * right. exists b1. auto.
Qed.

Lemma nodup_mid_notin {A} (a b : list A) x : NoDup (a ++ x :: b) -> ~ In x a /\ ~ In x b.
Proof.
  intro H. apply NoDup_remove_2 in H. split; intro Hi; apply H; apply in_or_app; auto.
Qed.

Lemma last_opt_app_ne {A} (a b : list A) : b <> [] -> last_opt (a ++ b) = last_opt b.
Proof.
  intro Hb. induction a as [|x a IH]; simpl; auto.
  destruct (a ++ b) eqn:E; auto. apply app_eq_nil in E as [_ ->]. congruence.
Qed.

Lemma last_opt_last {A} (l : list A) d : l <> [] -> last_opt l = Some (last l d).
Proof.
  induction l as [|x l IH]; intro H; [congruence|].
  destruct l as [|y l]; auto. change (last_opt (y :: l) = Some (last (y :: l) d)).
  apply IH. congruence.
Qed.

Lemma last_default {A} (l : list A) a d d' : last (a :: l) d = last (a :: l) d'.
Proof.
  revert a. induction l as [|b l IH]; intro a; [reflexivity|].
  change (last (b :: l) d = last (b :: l) d'). apply IH.
Qed.

Lemma ssorted_mid {A} (R : A -> A -> Prop) pre x post :
  StronglySorted R (pre ++ post) -> Forall (fun y => R y x) pre -> Forall (R x) post ->
  StronglySorted R (pre ++ x :: post).
Proof.
  induction pre as [|a pre IH]; simpl; intros Hs Hp Hq.
  - constructor; auto.
  - inversion Hs as [|? ? Hs' Ha]; subst. inversion Hp as [|? ? Hax Hp']; subst.
    constructor; auto. apply Forall_app in Ha as [Ha1 Ha2].
    apply Forall_app. split; auto.
Qed.

Lemma ssorted_ext {A} (R R' : A -> A -> Prop) l :
  (forall a b, In a l -> In b l -> R a b -> R' a b) -> StronglySorted R l -> StronglySorted R' l.
Proof.
  induction l as [|a l IH]; intros He Hs; constructor; inversion Hs as [|? ? Hs' Ha]; subst.
  - apply IH; auto. intros x y Hx Hy. apply He; now right.
  - rewrite Forall_forall in *. intros y Hy. apply He; [now left|now right|auto].
Qed.

(** * heap primitives *)
Section H.
  Context {V : Type}.
  Notation heap := (heap V).
  Implicit Types (h : heap) (x y u i k : nat).

  Definition height h x : nat := length (nnext (h x)).

  Lemma hset_same h x n : hset h x n x = n.
  Proof. unfold hset. now rewrite Nat.eqb_refl. Qed.
  Lemma hset_other h x n y : y <> x -> hset h x n y = h y.
  Proof. intro H. unfold hset. apply Nat.eqb_neq in H. now rewrite H. Qed.

  Lemma nxt_lt h x i o : nxt h x i = Some o -> i < height h x.
  Proof. unfold nxt, height. intro H. apply nth_error_Some. congruence. Qed.
  Lemma nxt_ge h x i : height h x <= i -> nxt h x i = None.
  Proof. unfold nxt, height. apply nth_error_None. Qed.
  Lemma nxt_some h x i : i < height h x -> exists o, nxt h x i = Some o.
  Proof.
    unfold nxt, height. intro H. destruct (nth_error (nnext (h x)) i) eqn:E; eauto.
    apply nth_error_None in E. lia.
  Qed.

  (** set_next *)
  Lemma height_set_next h x k v y : height (set_next h x k v) y = height h y.
  Proof.
    unfold height, set_next. destruct (Nat.eq_dec y x) as [->|N].
    - rewrite hset_same. simpl. apply set_nth_length.
    - now rewrite hset_other.
  Qed.
  Lemma nxt_set_next_same h x k v : k < height h x -> nxt (set_next h x k v) x k = Some v.
  Proof. intro H. unfold nxt, set_next. rewrite hset_same. simpl. now apply nth_error_set_nth_same. Qed.
  Lemma nxt_set_next_slot h x k v y i : i <> k -> nxt (set_next h x k v) y i = nxt h y i.
  Proof.
    intro H. unfold nxt, set_next. destruct (Nat.eq_dec y x) as [->|N].
    - rewrite hset_same. simpl. apply nth_error_set_nth_other. auto.
    - now rewrite hset_other.
  Qed.
  Lemma nxt_set_next_node h x k v y i : y <> x -> nxt (set_next h x k v) y i = nxt h y i.
  Proof. intro H. unfold nxt, set_next. now rewrite hset_other. Qed.
  Lemma prev_set_next h x k v y : nprev (set_next h x k v y) = nprev (h y).
  Proof.
    unfold set_next. destruct (Nat.eq_dec y x) as [->|N];
      [rewrite hset_same|rewrite hset_other]; auto.
  Qed.
  Lemma score_set_next h x k v y : nscore (set_next h x k v y) = nscore (h y).
  Proof.
    unfold set_next. destruct (Nat.eq_dec y x) as [->|N];
      [rewrite hset_same|rewrite hset_other]; auto.
  Qed.
  Lemma val_set_next h x k v y : nval (set_next h x k v y) = nval (h y).
  Proof.
    unfold set_next. destruct (Nat.eq_dec y x) as [->|N];
      [rewrite hset_same|rewrite hset_other]; auto.
  Qed.

  (** set_prev *)
  Lemma next_set_prev h x p y : nnext (set_prev h x p y) = nnext (h y).
  Proof.
    unfold set_prev. destruct (Nat.eq_dec y x) as [->|N];
      [rewrite hset_same|rewrite hset_other]; auto.
  Qed.
  Lemma nxt_set_prev h x p y i : nxt (set_prev h x p) y i = nxt h y i.
  Proof. unfold nxt. now rewrite next_set_prev. Qed.
  Lemma height_set_prev h x p y : height (set_prev h x p) y = height h y.
  Proof. unfold height. now rewrite next_set_prev. Qed.
  Lemma score_set_prev h x p y : nscore (set_prev h x p y) = nscore (h y).
  Proof.
    unfold set_prev. destruct (Nat.eq_dec y x) as [->|N];
      [rewrite hset_same|rewrite hset_other]; auto.
  Qed.
  Lemma val_set_prev h x p y : nval (set_prev h x p y) = nval (h y).
  Proof.
    unfold set_prev. destruct (Nat.eq_dec y x) as [->|N];
      [rewrite hset_same|rewrite hset_other]; auto.
  Qed.
  Lemma prev_set_prev_same h x p : nprev (set_prev h x p x) = p.
  Proof. unfold set_prev. now rewrite hset_same. Qed.
  Lemma prev_set_prev_other h x p y : y <> x -> nprev (set_prev h x p y) = nprev (h y).
  Proof. intro H. unfold set_prev. now rewrite hset_other. Qed.

  (** set_val *)
  Lemma next_set_val h x v y : nnext (set_val h x v y) = nnext (h y).
  Proof.
    unfold set_val. destruct (Nat.eq_dec y x) as [->|N];
      [rewrite hset_same|rewrite hset_other]; auto.
  Qed.
  Lemma nxt_set_val h x v y i : nxt (set_val h x v) y i = nxt h y i.
  Proof. unfold nxt. now rewrite next_set_val. Qed.
  Lemma height_set_val h x v y : height (set_val h x v) y = height h y.
  Proof. unfold height. now rewrite next_set_val. Qed.
  Lemma score_set_val h x v y : nscore (set_val h x v y) = nscore (h y).
  Proof.
    unfold set_val. destruct (Nat.eq_dec y x) as [->|N];
      [rewrite hset_same|rewrite hset_other]; auto.
  Qed.
  Lemma prev_set_val h x v y : nprev (set_val h x v y) = nprev (h y).
  Proof.
    unfold set_val. destruct (Nat.eq_dec y x) as [->|N];
      [rewrite hset_same|rewrite hset_other]; auto.
  Qed.
  Lemma val_set_val_same h x v : nval (set_val h x v x) = v.
  Proof. unfold set_val. now rewrite hset_same. Qed.
  Lemma val_set_val_other h x v y : y <> x -> nval (set_val h x v y) = nval (h y).
  Proof. intro H. unfold set_val. now rewrite hset_other. Qed.

  (** * level-i successor and last node above level i *)
  Fixpoint succ_at h i (l : list nat) : option nat :=
    match l with
    | [] => None
    | y :: tl => if i <? height h y then Some y else succ_at h i tl
    end.

  Fixpoint last_above h i (l : list nat) (d : nat) : nat :=
    match l with
    | [] => d
    | y :: tl => last_above h i tl (if i <? height h y then y else d)
    end.

  Definition low h i (l : list nat) : Prop := Forall (fun y => height h y <= i) l.

  Lemma succ_at_none h i l : succ_at h i l = None <-> low h i l.
  Proof.
    unfold low. induction l as [|y l IH]; simpl.
    - split; auto.
    - destruct (i <? height h y) eqn:E.
      + apply Nat.ltb_lt in E. split; [discriminate|]. intro H. inversion H. lia.
      + apply Nat.ltb_ge in E. rewrite IH. split; intro H; [constructor; auto|now inversion H].
  Qed.

  Lemma succ_at_some h i l z : succ_at h i l = Some z -> In z l /\ i < height h z.
  Proof.
    induction l as [|y l IH]; simpl; [discriminate|].
    destruct (i <? height h y) eqn:E.
    - intro H. inversion H. subst. apply Nat.ltb_lt in E. auto.
    - intro H. destruct (IH H). auto.
  Qed.

  Lemma succ_at_app h i a b :
    succ_at h i (a ++ b) = match succ_at h i a with Some z => Some z | None => succ_at h i b end.
  Proof. induction a as [|y a IH]; simpl; auto. destruct (i <? height h y); auto. Qed.

  Lemma succ_at_low_app h i a b : low h i a -> succ_at h i (a ++ b) = succ_at h i b.
  Proof. intro H. rewrite succ_at_app. apply succ_at_none in H. now rewrite H. Qed.

  Lemma succ_at_ext h h' i l :
    (forall y, In y l -> height h' y = height h y) -> succ_at h' i l = succ_at h i l.
  Proof.
    induction l as [|y l IH]; intro H; simpl; auto.
    rewrite (H y) by (now left). rewrite IH; auto. intros z Hz. apply H. now right.
  Qed.

  Lemma succ_at_level0 h l :
    Forall (fun y => 1 <= height h y) l -> succ_at h 0 l = hd_error l.
  Proof.
    intro H. destruct l as [|y l]; simpl; auto. inversion H; subst.
    replace (0 <? height h y) with true; auto. symmetry. apply Nat.ltb_lt. lia.
  Qed.

  Lemma last_above_app h i a b d :
    last_above h i (a ++ b) d = last_above h i b (last_above h i a d).
  Proof. revert d. induction a as [|y a IH]; intro d; simpl; auto. Qed.

  Lemma last_above_low h i l d : low h i l -> last_above h i l d = d.
  Proof.
    unfold low. revert d. induction l as [|y l IH]; intros d H; simpl; auto.
    inversion H; subst. replace (i <? height h y) with false; auto.
    symmetry. apply Nat.ltb_ge. lia.
  Qed.

  Lemma last_above_cases h i l d :
    (last_above h i l d = d /\ low h i l) \/
    (exists p1 p2, l = p1 ++ last_above h i l d :: p2 /\
                   i < height h (last_above h i l d) /\ low h i p2).
  Proof.
    revert d. induction l as [|y l IH]; intro d; simpl.
    - left. split; auto. constructor.
    - destruct (IH (if i <? height h y then y else d)) as [[E L]|(p1 & p2 & E & Hh & L)].
      + destruct (i <? height h y) eqn:Ey.
        * right. exists [], l. rewrite E. simpl. apply Nat.ltb_lt in Ey. auto.
        * left. split; auto. constructor; auto. apply Nat.ltb_ge in Ey. lia.
      + right. exists (y :: p1), p2. simpl. split; [|auto]. f_equal. exact E.
  Qed.

  Lemma last_above_ext h h' i l d :
    (forall y, In y l -> height h' y = height h y) -> last_above h' i l d = last_above h i l d.
  Proof.
    revert d. induction l as [|y l IH]; intros d H; simpl; auto.
    rewrite (H y) by (now left). apply IH. intros z Hz. apply H. now right.
  Qed.

  Lemma last_above_level0 h l d :
    Forall (fun y => 1 <= height h y) l -> last_above h 0 l d = last l d.
  Proof.
    revert d. induction l as [|y l IH]; intros d H; simpl; auto.
    inversion H; subst. replace (0 <? height h y) with true by (symmetry; apply Nat.ltb_lt; lia).
    rewrite IH; auto. destruct l as [|z l]; auto.
    change (last (z :: l) y = last (z :: l) d). apply last_default.
  Qed.

  (** the element in front of which the level-i chain enters [post] *)
  Lemma last_above_split h i pre d :
    i < height h d ->
    exists r1 r2, d :: pre = r1 ++ last_above h i pre d :: r2 /\
                  i < height h (last_above h i pre d) /\ low h i r2.
  Proof.
    intro Hd. destruct (last_above_cases h i pre d) as [[E L]|(p1 & p2 & E & Hh & L)].
    - exists [], pre. rewrite E. auto.
    - exists (d :: p1), p2. simpl. split; auto. f_equal. exact E.
  Qed.

  (** * the level structure: every node's slot i points to the next node of
      height > i *)
  Definition nexts_ok h (c : list nat) : Prop :=
    forall p1 p p2, c = p1 ++ p :: p2 ->
    forall i, i < height h p -> nxt h p i = Some (succ_at h i p2).

  Definition prevs_ok h (c : list nat) : Prop :=
    forall p1 p p2, c = p1 ++ p :: p2 -> nprev (h p) = last_opt p1.

  Lemma nexts_ok_app_r h a b : nexts_ok h (a ++ b) -> nexts_ok h b.
  Proof. intros H p1 p p2 E. apply (H (a ++ p1)). rewrite E. now rewrite app_assoc. Qed.

  Lemma nexts_ok_tail h a c : nexts_ok h (a :: c) -> nexts_ok h c.
  Proof. apply (nexts_ok_app_r h [a] c). Qed.

  Lemma nexts_ok_head h a c i : nexts_ok h (a :: c) -> i < height h a -> nxt h a i = Some (succ_at h i c).
  Proof. intros H. apply (H [] a c). reflexivity. Qed.

  Lemma prevs_ok_app_l h a b : prevs_ok h (a ++ b) -> prevs_ok h a.
  Proof. intros H p1 p p2 E. apply (H p1 p (p2 ++ b)). rewrite E. now rewrite <- app_assoc. Qed.
End H.
