(** C24 — facts about the flat-list specification. *)
From Coq Require Import List ZArith NArith Bool Lia Sorted Permutation.
From C33 Require Import C24.Model C24.Spec.
Import ListNotations.
Open Scope Z_scope.

(** ** generic list facts *)
Lemma nodup_app_inv {A} (a b : list A) :
  NoDup (a ++ b) -> NoDup a /\ NoDup b /\ (forall x, In x a -> ~ In x b).
Proof.
  induction a as [|x a IH]; simpl; intro H.
  - repeat split; auto. constructor.
  - inversion H as [|? ? Hn Hd]; subst. destruct (IH Hd) as (Ha & Hb & Hx).
    repeat split; auto.
    + constructor; auto. intro Hi. apply Hn. apply in_or_app. now left.
    + intros y [->|Hy] Hyb.
      * apply Hn. apply in_or_app. now right.
      * exact (Hx y Hy Hyb).
Qed.

Lemma ssorted_app_l {A} (rel : A -> A -> Prop) (a b : list A) :
  StronglySorted rel (a ++ b) -> StronglySorted rel a.
Proof.
  induction a as [|x a IH]; simpl; intro H.
  - constructor.
  - apply StronglySorted_inv in H as [Hs Hf]. constructor; auto.
    apply Forall_app in Hf. tauto.
Qed.

Lemma ssorted_filter {A} (rel : A -> A -> Prop) (f : A -> bool) (l : list A) :
  StronglySorted rel l -> StronglySorted rel (filter f l).
Proof.
  induction l as [|x l IH]; simpl; intro H.
  - constructor.
  - apply StronglySorted_inv in H as [Hs Hf]. destruct (f x).
    + constructor; auto. rewrite Forall_forall in *. intros y Hy.
      apply filter_In in Hy as [Hy _]. auto.
    + auto.
Qed.

Lemma last_opt_app {A} (a b : list A) :
  b <> [] -> last_opt (a ++ b) = last_opt b.
Proof.
  intro Hb. induction a as [|x a IH]; simpl; auto.
  destruct (a ++ b) eqn:E.
  - destruct a; destruct b; simpl in E; try discriminate; contradiction.
  - exact IH.
Qed.

Lemma last_opt_snoc {A} (a : list A) (x : A) : last_opt (a ++ [x]) = Some x.
Proof. rewrite last_opt_app; [reflexivity|discriminate]. Qed.

Lemma last_opt_none {A} (l : list A) : last_opt l = None -> l = [].
Proof.
  destruct l as [|x l]; auto. intro H. exfalso.
  destruct (@exists_last _ (x :: l)) as (r & t & E); [discriminate|].
  rewrite E, last_opt_snoc in H. discriminate.
Qed.

Lemma last_opt_some {A} (l : list A) t : last_opt l = Some t -> l = removelast l ++ [t].
Proof.
  intro H. destruct l as [|x l]; [discriminate|].
  destruct (@exists_last _ (x :: l)) as (r & u & E); [discriminate|].
  rewrite E in *. rewrite last_opt_snoc in H. inversion H; subst.
  now rewrite removelast_last.
Qed.

(** ** hashes *)
Definition hashes (l : list item) : list N := map ihash l.

Lemma has_hash_true h x : has_hash h x = true <-> ihash x = h.
Proof. unfold has_hash. apply N.eqb_eq. Qed.

Lemma spec_exist_in h l : spec_exist h l = true <-> In h (hashes l).
Proof.
  unfold spec_exist, hashes. rewrite existsb_exists, in_map_iff.
  split; intros (x & A & B).
  - exists x. apply has_hash_true in B. auto.
  - exists x. split; auto. now apply has_hash_true.
Qed.

Lemma spec_exist_false h l : spec_exist h l = false <-> ~ In h (hashes l).
Proof.
  rewrite <- spec_exist_in. destruct (spec_exist h l); split; intro H; try congruence; auto.
Qed.

Lemma nodup_hash_iff l : nodup_hash l = true <-> NoDup (hashes l).
Proof.
  induction l as [|x l IH]; simpl.
  - split; auto. constructor.
  - rewrite andb_true_iff, negb_true_iff, spec_exist_false, IH. split.
    + intros [A B]. constructor; auto.
    + intro H. inversion H; subst. auto.
Qed.

Lemma hash_inj l x y :
  NoDup (hashes l) -> In x l -> In y l -> ihash x = ihash y -> x = y.
Proof.
  induction l as [|z l IH]; simpl; intros Hn Hx Hy E; [contradiction|].
  inversion Hn as [|? ? Hni Hd]; subst.
  destruct Hx as [->|Hx], Hy as [->|Hy]; auto.
  - exfalso. apply Hni. rewrite E. now apply in_map.
  - exfalso. apply Hni. rewrite <- E. now apply in_map.
Qed.

Lemma filter_no_hash h l :
  ~ In h (hashes l) -> filter (fun x => negb (has_hash h x)) l = l.
Proof.
  induction l as [|x l IH]; simpl; intro H; auto.
  destruct (has_hash h x) eqn:E; simpl.
  - apply has_hash_true in E. exfalso. apply H. now left.
  - f_equal. apply IH. intro. apply H. now right.
Qed.

Lemma remove_elem_filter h l :
  NoDup (hashes l) -> remove_elem h l = filter (fun x => negb (has_hash h x)) l.
Proof.
  induction l as [|x l IH]; simpl; intro H; auto.
  inversion H as [|? ? Hn Hd]; subst. fold (has_hash h x).
  destruct (has_hash h x) eqn:E; simpl.
  - apply has_hash_true in E. subst. symmetry. now apply filter_no_hash.
  - f_equal. auto.
Qed.

Lemma remove_last_hash r t :
  NoDup (hashes (r ++ [t])) -> spec_remove_list (ihash t) (r ++ [t]) = r.
Proof.
  unfold spec_remove_list, hashes. rewrite map_app. intro H.
  apply nodup_app_inv in H as (_ & _ & Hx).
  rewrite filter_app. simpl. unfold has_hash at 2. rewrite N.eqb_refl. simpl.
  rewrite app_nil_r. apply filter_no_hash. intro Hi. apply (Hx _ Hi). now left.
Qed.

Lemma hashes_filter_nodup f l : NoDup (hashes l) -> NoDup (hashes (filter f l)).
Proof.
  induction l as [|x l IH]; simpl; intro H; auto.
  inversion H as [|? ? Hn Hd]; subst. destruct (f x); simpl; auto.
  constructor; auto. intro Hi. apply Hn. unfold hashes in *.
  apply in_map_iff in Hi as (y & E & Hy). apply filter_In in Hy as [Hy _].
  rewrite <- E. now apply in_map.
Qed.

Lemma in_remove_list h l x :
  In x (spec_remove_list h l) <-> In x l /\ ihash x <> h.
Proof.
  unfold spec_remove_list. rewrite filter_In, negb_true_iff.
  split; intros [A B]; split; auto.
  - intro E. apply has_hash_true in E. congruence.
  - destruct (has_hash h x) eqn:E; auto. apply has_hash_true in E. contradiction.
Qed.

(** ** stable insertion *)
Lemma spec_insert_perm it l : Permutation (it :: l) (spec_insert it l).
Proof.
  induction l as [|x l IH]; simpl; auto.
  destruct (iscore x >=? iscore it); auto.
  eapply perm_trans; [apply perm_swap|]. now constructor.
Qed.

Lemma spec_insert_in it l x : In x (spec_insert it l) <-> x = it \/ In x l.
Proof.
  split; intro H.
  - apply Permutation_in with (l' := it :: l) in H; [|apply Permutation_sym, spec_insert_perm].
    destruct H; auto.
  - apply Permutation_in with (l := it :: l); [apply spec_insert_perm|].
    destruct H; [left|right]; auto.
Qed.

Lemma spec_insert_length it l : length (spec_insert it l) = S (length l).
Proof. symmetry. apply (Permutation_length (spec_insert_perm it l)). Qed.

Lemma spec_insert_hashes it l :
  NoDup (hashes l) -> ~ In (ihash it) (hashes l) -> NoDup (hashes (spec_insert it l)).
Proof.
  intros Hn Hi. unfold hashes.
  eapply Permutation_NoDup; [apply Permutation_map, spec_insert_perm|].
  simpl. now constructor.
Qed.

Lemma spec_insert_bytes it l : spec_bytes (spec_insert it l) = spec_bytes l + isize it.
Proof.
  induction l as [|x l IH]; simpl; [lia|].
  destruct (iscore x >=? iscore it); simpl; lia.
Qed.

Lemma spec_insert_app_ge it a b :
  Forall (fun x => iscore x >= iscore it) a ->
  spec_insert it (a ++ b) = a ++ spec_insert it b.
Proof.
  induction a as [|x a IH]; simpl; intro H; auto.
  inversion H; subst. rewrite IH by auto.
  destruct (iscore x >=? iscore it) eqn:E; auto.
  rewrite Z.geb_leb in E. apply Z.leb_gt in E. lia.
Qed.

Lemma spec_insert_lt it b :
  match b with [] => True | x :: _ => iscore x < iscore it end ->
  spec_insert it b = it :: b.
Proof.
  destruct b as [|x b]; simpl; auto. intro H.
  destruct (iscore x >=? iscore it) eqn:E; auto.
  rewrite Z.geb_leb in E. apply Z.leb_le in E. lia.
Qed.

(** Position of the newcomer: behind every item scoring at least as much,
    in front of every item scoring less; nothing else moves. *)
Lemma spec_insert_split it l :
  StronglySorted (fun a b => iscore a >= iscore b) l ->
  exists l1 l2, l = l1 ++ l2 /\ spec_insert it l = l1 ++ it :: l2 /\
    Forall (fun x => iscore x >= iscore it) l1 /\
    Forall (fun x => iscore x < iscore it) l2.
Proof.
  induction l as [|x l IH]; simpl; intro H.
  - exists [], []. repeat split; constructor.
  - apply StronglySorted_inv in H as [Hs Hf].
    destruct (iscore x >=? iscore it) eqn:E.
    + destruct (IH Hs) as (l1 & l2 & E1 & E2 & F1 & F2).
      exists (x :: l1), l2. subst l. rewrite E2. repeat split; auto.
      constructor; auto. rewrite Z.geb_leb in E. apply Z.leb_le in E. lia.
    + rewrite Z.geb_leb in E. apply Z.leb_gt in E.
      exists [], (x :: l). repeat split; auto. constructor; [lia|].
      rewrite Forall_forall in *. intros y Hy. specialize (Hf y Hy). simpl in Hf. lia.
Qed.

(** Insertion keeps any order that refines the score order and puts the
    newcomer behind equal scores. *)
Lemma spec_insert_ssorted (rel : item -> item -> Prop) it l :
  (forall a b, rel a b -> iscore a >= iscore b) ->
  Forall (fun x => iscore x >= iscore it -> rel x it) l ->
  Forall (fun x => iscore x < iscore it -> rel it x) l ->
  StronglySorted rel l -> StronglySorted rel (spec_insert it l).
Proof.
  intros Hrel. induction l as [|x l IH]; simpl; intros H1 H2 Hs.
  - repeat constructor.
  - inversion H1 as [|? ? H1x H1l]; subst. inversion H2 as [|? ? H2x H2l]; subst.
    apply StronglySorted_inv in Hs as [Hs Hf].
    destruct (iscore x >=? iscore it) eqn:E.
    + rewrite Z.geb_leb in E. apply Z.leb_le in E.
      constructor; auto. rewrite Forall_forall. intros y Hy.
      apply spec_insert_in in Hy as [->|Hy].
      * apply H1x. lia.
      * rewrite Forall_forall in Hf. auto.
    + rewrite Z.geb_leb in E. apply Z.leb_gt in E.
      constructor; [constructor; auto|]. constructor; [apply H2x; lia|].
      rewrite Forall_forall in *. intros y Hy. apply H2l; auto.
      specialize (Hf y Hy). apply Hrel in Hf. lia.
Qed.

Definition score_ge (a b : item) : Prop := iscore a >= iscore b.

Lemma spec_insert_sorted it l :
  StronglySorted score_ge l -> StronglySorted score_ge (spec_insert it l).
Proof.
  apply spec_insert_ssorted; unfold score_ge; auto.
  - apply Forall_forall. auto.
  - apply Forall_forall. intros. lia.
Qed.

Lemma sorted_desc_iff l : sorted_desc l = true <-> StronglySorted score_ge l.
Proof.
  induction l as [|x l IH].
  - simpl. split; auto. constructor.
  - split; intro H.
    + assert (Hl : sorted_desc l = true).
      { simpl in H. destruct l; auto. apply andb_true_iff in H. tauto. }
      apply IH in Hl. constructor; auto.
      destruct l as [|y l]; constructor.
      * simpl in H. apply andb_true_iff in H as [H _].
        rewrite Z.geb_leb in H. apply Z.leb_le in H. unfold score_ge. lia.
      * apply StronglySorted_inv in Hl as [_ Hf]. rewrite Forall_forall in *.
        intros z Hz. specialize (Hf z Hz). unfold score_ge in *.
        simpl in H. apply andb_true_iff in H as [H _].
        rewrite Z.geb_leb in H. apply Z.leb_le in H. lia.
    + apply StronglySorted_inv in H as [Hs Hf]. apply IH in Hs.
      simpl. destruct l as [|y l]; auto. apply andb_true_iff. split; auto.
      inversion Hf; subst. unfold score_ge in *. rewrite Z.geb_leb. apply Z.leb_le. lia.
Qed.

(** ** take_count *)
Lemma take_count_all {A} (c : Z) (l : list A) : c <= 0 -> take_count c l = l.
Proof.
  revert c. induction l as [|x l IH]; simpl; intros c Hc; auto.
  destruct (c =? 1) eqn:E; [apply Z.eqb_eq in E; lia|].
  f_equal. apply IH. lia.
Qed.

Lemma take_count_firstn {A} (c : Z) (l : list A) :
  0 < c -> take_count c l = firstn (Z.to_nat c) l.
Proof.
  revert c. induction l as [|x l IH]; simpl; intros c Hc.
  - now rewrite firstn_nil.
  - replace (Z.to_nat c) with (S (Z.to_nat (c - 1))) by lia. simpl. f_equal.
    destruct (c =? 1) eqn:E.
    + apply Z.eqb_eq in E. subst. simpl. reflexivity.
    + apply Z.eqb_neq in E. apply IH. lia.
Qed.

Lemma take_count_spec {A} (c : Z) (l : list A) :
  take_count c l = if c <=? 0 then l else firstn (Z.to_nat c) l.
Proof.
  destruct (c <=? 0) eqn:E.
  - apply Z.leb_le in E. now apply take_count_all.
  - apply Z.leb_gt in E. now apply take_count_firstn.
Qed.
