(** C24 layer 2 — Delete (the unlink loop, the level shrinking, the invariant),
    Find / FindGreaterOrEqual / in-place update. *)
From Coq Require Import List ZArith NArith Bool Arith Lia Sorted.
From C33 Require Import C24.Model C24.ProofsSpec C24.SkipModel C24.SkipLemmas C24.SkipSearch
  C24.SkipInsert.
Import ListNotations.
Local Open Scope nat_scope.

Ltac bc :=
  repeat match goal with
  | |- context [?a <=? ?b] => destruct (Nat.leb_spec a b)
  | |- context [?a <? ?b] => destruct (Nat.ltb_spec a b)
  | |- context [?a =? ?b] => destruct (Nat.eqb_spec a b)
  end; cbn [andb]; try reflexivity; try lia; try congruence.

Definition is_ptr (o : option (option nat)) (y : nat) : bool :=
  match o with Some (Some z) => z =? y | _ => false end.

Lemma ssorted_remove_mid {A} (R : A -> A -> Prop) pre x post :
  StronglySorted R (pre ++ x :: post) -> StronglySorted R (pre ++ post).
Proof.
  induction pre as [|a pre IH]; simpl; intro Hs; inversion Hs as [|? ? Hs' Ha]; subst; auto.
  constructor; auto. apply Forall_app in Ha as [Ha1 Ha2]. inversion Ha2; subst.
  apply Forall_app. auto.
Qed.

Section D.
  Context {V : Type}.
  Notation heap := (heap V).
  Notation skl := (skl V).
  Implicit Types (h : heap) (sk : skl) (x y z i k : nat).

  (** ** the unlink loop *)
  Lemma unlink_spec y (U : nat -> nat) : forall n k h,
    (forall i, k <= i < k + n ->
       U i <> y /\ i < height h (U i) /\ (is_ptr (nxt h (U i) i) y = true -> i < height h y)) ->
    exists h',
      unlink h y (map U (seq k n)) k = Ok h' /\
      (forall z, height h' z = height h z /\ nprev (h' z) = nprev (h z) /\
                 nscore (h' z) = nscore (h z) /\ nval (h' z) = nval (h z)) /\
      (forall z i,
         nxt h' z i = if (k <=? i) && (i <? k + n) && (U i =? z) && is_ptr (nxt h z i) y
                      then nxt h y i else nxt h z i).
  Proof.
    induction n as [|n IH]; intros k h HU.
    - exists h. cbn [seq map unlink]. repeat split; auto. intros z i.
      destruct (Nat.leb_spec k i); destruct (Nat.ltb_spec i (k + 0)); cbn [andb];
        try reflexivity; lia.
    - cbn [seq map unlink].
      destruct (HU k) as (Hk1 & Hk2 & Hk3); [lia|].
      destruct (nxt_some h (U k) k Hk2) as [o Eo]. rewrite Eo.
      assert (Hcase : (is_ptr (Some o) y = true /\ exists ny, nxt h y k = Some ny) \/
                      is_ptr (Some o) y = false).
      { destruct (is_ptr (Some o) y) eqn:E; auto. left. split; auto.
        rewrite <- Eo in E. apply nxt_some. auto. }
      destruct Hcase as [[Ep (ny & Eny)]|Ep].
      + (* update[k].next[k] == y *)
        assert (Eo' : o = Some y).
        { simpl in Ep. destruct o as [z|]; [|discriminate]. apply Nat.eqb_eq in Ep. now subst. }
        subst o. rewrite Nat.eqb_refl, Eny.
        set (h2 := set_next h (U k) k ny).
        destruct (IH (S k) h2) as (h' & E & Hf & Hn).
        { intros i Hi. destruct (HU i) as (A & B & C); [lia|].
          unfold h2. rewrite !height_set_next.
          rewrite nxt_set_next_slot by lia. auto. }
        exists h'. split; [exact E|]. split.
        * intro z. destruct (Hf z) as (A & B & C & D). rewrite A, B, C, D. unfold h2.
          rewrite height_set_next, prev_set_next, score_set_next, val_set_next. auto.
        * intros z i. rewrite (Hn z i). unfold h2.
          rewrite !nxt_set_next_if by exact Hk2.
          replace (y =? U k) with false by (symmetry; apply Nat.eqb_neq; congruence).
          cbn [andb].
          destruct (Nat.eqb_spec z (U k)) as [->|Nz]; cbn [andb].
          -- destruct (Nat.eqb_spec i k) as [->|Ni]; cbn [andb].
             ++ rewrite Eo.
                replace (S k <=? k) with false by (symmetry; apply Nat.leb_gt; lia).
                replace (k <? k + S n) with true by (symmetry; apply Nat.ltb_lt; lia).
                rewrite Nat.leb_refl, Nat.eqb_refl. cbn [andb is_ptr]. rewrite Nat.eqb_refl.
                symmetry. exact Eny.
             ++ bc.
          -- destruct (Nat.eqb_spec i k) as [->|Ni]; cbn [andb].
             ++ replace (U k =? z) with false by (symmetry; apply Nat.eqb_neq; congruence).
                now rewrite !andb_false_r.
             ++ bc.
      + assert (Eu : match o with
                     | Some z => if z =? y then match nxt h y k with
                                                | Some ny => unlink (set_next h (U k) k ny) y (map U (seq (S k) n)) (S k)
                                                | None => Panic end
                                 else unlink h y (map U (seq (S k) n)) (S k)
                     | None => unlink h y (map U (seq (S k) n)) (S k)
                     end = unlink h y (map U (seq (S k) n)) (S k)).
        { destruct o as [z|]; auto. simpl in Ep. now rewrite Ep. }
        rewrite Eu.
        destruct (IH (S k) h) as (h' & E & Hf & Hn).
        { intros i Hi. apply HU. lia. }
        exists h'. split; [exact E|]. split; [exact Hf|].
        intros z i. rewrite (Hn z i).
        destruct (Nat.eqb_spec i k) as [->|Ni].
        * destruct (Nat.eqb_spec (U k) z) as [<-|Nz].
          -- rewrite Eo, Ep. rewrite !andb_false_r.
             replace (S k <=? k) with false by (symmetry; apply Nat.leb_gt; lia). reflexivity.
          -- now rewrite !andb_false_r.
        * bc.
  Qed.

  (** ** the level shrinking *)
  Lemma shrink_spec (hd : list (option nat)) : forall lvl,
    lvl <= length hd ->
    exists l', shrink hd lvl = Ok l' /\ l' <= lvl /\ (1 <= lvl -> 1 <= l') /\
               forall m, l' <= m < lvl -> nth_error hd m = Some None.
  Proof.
    induction lvl as [|m IH]; intro Hl.
    - exists 0. simpl. repeat split; auto. intros; lia.
    - simpl. destruct m as [|m'].
      + exists 1. repeat split; auto. intros; lia.
      + destruct (nth_error hd (S m')) as [[z|]|] eqn:E.
        * exists (S (S m')). repeat split; auto. intros; lia.
        * destruct IH as (l' & E' & A & B & C); [lia|].
          exists l'. rewrite E'. repeat split; auto; [lia|].
          intros j Hj. destruct (Nat.eq_dec j (S m')) as [->|N]; auto. apply C. lia.
        * apply nth_error_None in E. lia.
  Qed.

  (** ** the state after a successful Delete satisfies the invariant *)
  Section DEL.
    Variables (sk : skl) (ids pre post' : list nat) (y : nat) (h' : heap)
              (U : nat -> nat) (tail' : option nat) (level' : nat) (fc : Z).
    Let h := sheap sk.
    Let L := slevel sk.
    Hypothesis HI : inv sk ids.
    Hypothesis Hpp : pre ++ y :: post' = ids.
    Hypothesis HU : forall i, U i = last_above h i pre 0.
    Hypothesis Hf : forall z, height h' z = height h z /\ nscore (h' z) = nscore (h z) /\
                              nval (h' z) = nval (h z).
    Hypothesis Hnx : forall z i,
      nxt h' z i = if (i <? L) && (U i =? z) && is_ptr (nxt h z i) y then nxt h y i else nxt h z i.
    Hypothesis Hpv : forall z,
      nprev (h' z) = match post' with w :: _ => if w =? z then nprev (h y) else nprev (h z)
                                 | [] => nprev (h z) end.
    Hypothesis Htail : tail' = match post' with [] => nprev (h y) | _ => stail sk end.
    Hypothesis Hlev : 1 <= level' <= L /\ forall m, level' <= m < L -> nxt h' 0 m = Some None.

    Lemma d_nodup : NoDup (0 :: pre ++ y :: post').
    Proof. rewrite Hpp. apply (i_nodup _ _ HI). Qed.
    Lemma d_next : nexts_ok h (0 :: pre ++ y :: post').
    Proof. rewrite Hpp. apply (i_next _ _ HI). Qed.
    Lemma d_hts : Forall (fun z => 1 <= height h z <= L) (pre ++ y :: post').
    Proof. rewrite Hpp. apply (i_hts _ _ HI). Qed.
    Lemma d_h0 : height h 0 = maxLevel.
    Proof. apply (i_hd _ _ HI). Qed.
    Lemma d_L : 1 <= L <= maxLevel.
    Proof. apply (i_lvl _ _ HI). Qed.

    Lemma d_succ i l : succ_at h' i l = succ_at h i l.
    Proof. apply succ_at_ext. intros z _. now destruct (Hf z). Qed.

    Lemma d_height_bound p : In p (0 :: pre ++ y :: post') -> height h p <= maxLevel.
    Proof.
      intros [<-|Hp]; [rewrite d_h0; lia|].
      pose proof d_hts as H. rewrite Forall_forall in H. specialize (H p Hp).
      pose proof d_L. lia.
    Qed.

    Lemma d_U_split i : i < maxLevel ->
      exists r1 r2, 0 :: pre = r1 ++ U i :: r2 /\ i < height h (U i) /\ low h i r2.
    Proof. intro Hi. rewrite HU. apply last_above_split. rewrite d_h0. exact Hi. Qed.

    Lemma d_U_in i : i < maxLevel -> In (U i) (0 :: pre).
    Proof.
      intro Hi. destruct (d_U_split i Hi) as (r1 & r2 & E & _). rewrite E.
      apply in_or_app. right. now left.
    Qed.

    Lemma d_U_from q1 p a2 i :
      0 :: pre = q1 ++ p :: a2 -> i < height h p -> U i = last_above h i a2 p.
    Proof.
      intros E Hi. rewrite HU.
      assert (E0 : last_above h i pre 0 = last_above h i (0 :: pre) 0).
      { simpl. destruct (i <? height h 0); reflexivity. }
      rewrite E0, E, last_above_app. simpl.
      replace (i <? height h p) with true; auto. symmetry. now apply Nat.ltb_lt.
    Qed.

    Lemma y_height : 1 <= height h y <= L.
    Proof.
      pose proof d_hts as H. apply Forall_app in H as [_ H]. now inversion H.
    Qed.

    Lemma y_next i : i < height h y -> nxt h y i = Some (succ_at h i post').
    Proof.
      intro Hi. apply (d_next (0 :: pre) y post'); auto.
    Qed.

    Lemma not_ptr_post i : is_ptr (Some (succ_at h i post')) y = false.
    Proof.
      simpl. destruct (succ_at h i post') as [w|] eqn:E; auto.
      apply Nat.eqb_neq. intros ->. apply succ_at_some in E as [Hin _].
      pose proof d_nodup as Hnd.
      assert (Hnd' : NoDup (pre ++ y :: post')) by (inversion Hnd; assumption).
      apply NoDup_remove_2 in Hnd'. apply Hnd'. apply in_or_app. now right.
    Qed.

    Lemma del_next : nexts_ok h' (0 :: pre ++ post').
    Proof.
      pose proof d_nodup as Hnd. pose proof d_next as Hold.
      intros q1 p q2 E i Hi. destruct (Hf p) as (Hhp & _). rewrite Hhp in Hi.
      rewrite d_succ, Hnx.
      change (0 :: pre ++ post') with ((0 :: pre) ++ post') in E.
      destruct (split2 _ _ _ _ _ E) as [(a2 & Ea & ->)|(b1 & Eb & ->)].
      - assert (Epp : 0 :: pre ++ y :: post' = q1 ++ p :: (a2 ++ y :: post')).
        { change (0 :: pre ++ y :: post') with ((0 :: pre) ++ y :: post'). rewrite Ea.
          rewrite <- app_assoc. reflexivity. }
        pose proof (Hold q1 p _ Epp i Hi) as Hnp.
        pose proof (d_U_from q1 p a2 i Ea Hi) as EU.
        rewrite succ_at_app in Hnp. rewrite succ_at_app.
        destruct (succ_at h i a2) as [z|] eqn:Ez.
        + rewrite Hnp. simpl.
          replace (z =? y) with false; [now rewrite andb_false_r|].
          symmetry. apply Nat.eqb_neq. intros ->. apply succ_at_some in Ez as [Hin _].
          rewrite Epp in Hnd. apply NoDup_remove_1 in Hnd.
          rewrite app_assoc in Hnd. apply NoDup_remove_2 in Hnd. apply Hnd.
          apply in_or_app. left. apply in_or_app. now right.
        + assert (Lo : low h i a2) by (now apply succ_at_none).
          rewrite (last_above_low h i a2 p Lo) in EU. rewrite EU, Nat.eqb_refl.
          rewrite Hnp. simpl succ_at.
          destruct (Nat.ltb_spec i (height h y)) as [Hy|Hy].
          * pose proof y_height as Hyh.
            replace (i <? L) with true by (symmetry; apply Nat.ltb_lt; lia).
            simpl. rewrite Nat.eqb_refl. now apply y_next.
          * rewrite not_ptr_post. rewrite andb_false_r. reflexivity.
      - assert (Epp : 0 :: pre ++ y :: post' = ((0 :: pre) ++ y :: b1) ++ p :: q2).
        { rewrite Eb. simpl. rewrite <- app_assoc. reflexivity. }
        pose proof (Hold _ p q2 Epp i Hi) as Hnp.
        assert (Hi32 : i < maxLevel).
        { assert (height h p <= maxLevel); [|lia]. apply d_height_bound. rewrite Epp.
          apply in_or_app. right. now left. }
        assert (HUp : U i <> p).
        { intro Hc. pose proof (d_U_in i Hi32) as Hin. rewrite Hc in Hin.
          rewrite Epp in Hnd. apply NoDup_remove_2 in Hnd. apply Hnd.
          apply in_or_app. left. apply in_or_app. now left. }
        replace (U i =? p) with false by (symmetry; now apply Nat.eqb_neq).
        rewrite andb_false_r. simpl. exact Hnp.
    Qed.

    Lemma del_prev : prevs_ok h' (pre ++ post').
    Proof.
      pose proof d_nodup as Hnd.
      assert (Hnd' : NoDup (pre ++ y :: post')) by (inversion Hnd; assumption).
      pose proof (i_prev _ _ HI) as Hold. fold h in Hold. rewrite <- Hpp in Hold.
      intros q1 p q2 E. rewrite Hpv.
      destruct (split2 _ _ _ _ _ E) as [(a2 & Ea & ->)|(b1 & Eb & ->)].
      - assert (Epp : pre ++ y :: post' = q1 ++ p :: (a2 ++ y :: post')).
        { rewrite Ea, <- app_assoc. reflexivity. }
        rewrite <- (Hold q1 p _ Epp).
        destruct post' as [|w post'']; auto.
        destruct (Nat.eqb_spec w p) as [->|N]; auto.
        exfalso. rewrite Epp in Hnd'. apply NoDup_remove_2 in Hnd'. apply Hnd'.
        apply in_or_app. right. apply in_or_app. right. right. now left.
      - rewrite Eb. destruct b1 as [|w b1]; simpl.
        + rewrite Nat.eqb_refl, app_nil_r. apply (Hold pre y post'). reflexivity.
        + assert (Epp : pre ++ y :: post' = (pre ++ y :: w :: b1) ++ p :: q2).
          { rewrite Eb, <- app_assoc. reflexivity. }
          destruct (Nat.eqb_spec w p) as [->|N].
          * exfalso. rewrite Epp in Hnd'. apply NoDup_remove_2 in Hnd'. apply Hnd'.
            apply in_or_app. left. apply in_or_app. right. right. now left.
          * rewrite (Hold _ p q2 Epp).
            rewrite !last_opt_app_ne by discriminate.
            change (y :: w :: b1) with ([y] ++ w :: b1). now rewrite last_opt_app_ne by discriminate.
    Qed.

    Lemma delete_inv :
      inv (mkSkl h' (ssize sk) tail' level' (pred (scount sk)) fc) (pre ++ post').
    Proof.
      pose proof d_nodup as Hnd. pose proof d_L as HL. destruct Hlev as [Hl1 Hl2].
      split; cbn [sheap ssize stail slevel scount].
      - change (NoDup ((0 :: pre) ++ post')). apply NoDup_remove_1 with (a := y). exact Hnd.
      - pose proof (i_lt _ _ HI) as Hl. rewrite <- Hpp in Hl.
        rewrite Forall_forall in *. intros z Hz. apply Hl.
        destruct Hz as [<-|Hz]; [now left|]. right.
        apply in_app_or in Hz as [Hz|Hz]; apply in_or_app; [now left|right; now right].
      - destruct (Hf 0) as (-> & _). apply d_h0.
      - apply del_next.
      - (* heights <= level' *)
        pose proof d_hts as Hh.
        assert (Hh' : Forall (fun z => 1 <= height h z <= L) (pre ++ post')).
        { apply Forall_app in Hh as [A B]. inversion B; subst. apply Forall_app. auto. }
        destruct (Nat.eq_dec level' L) as [->|Nl].
        + rewrite Forall_forall in *. intros z Hz. destruct (Hf z) as (-> & _). auto.
        + assert (Hlow : low h' level' (pre ++ post')).
          { apply succ_at_none.
            assert (Hm : level' <= level' < L) by lia. specialize (Hl2 level' Hm).
            assert (Hi : level' < height h' 0).
            { destruct (Hf 0) as (-> & _). rewrite d_h0. lia. }
            pose proof (nexts_ok_head h' 0 (pre ++ post') level' del_next Hi) as Hn.
            rewrite Hl2 in Hn. now inversion Hn. }
          unfold low in Hlow. rewrite Forall_forall in *. intros z Hz.
          specialize (Hh' z Hz). specialize (Hlow z Hz). destruct (Hf z) as (Ez & _).
          rewrite Ez in *. lia.
      - lia.
      - apply del_prev.
      - rewrite Htail. pose proof (i_prev _ _ HI) as Hold. fold h in Hold. rewrite <- Hpp in Hold.
        destruct post' as [|w post''].
        + rewrite app_nil_r. apply (Hold pre y []). reflexivity.
        + rewrite (i_tail _ _ HI), <- Hpp. rewrite !last_opt_app_ne by discriminate.
          change (y :: w :: post'') with ([y] ++ w :: post''). now rewrite last_opt_app_ne by discriminate.
      - rewrite (i_cnt _ _ HI), <- Hpp, !app_length. simpl. lia.
      - pose proof (i_sorted _ _ HI) as Hs. fold h in Hs. rewrite <- Hpp in Hs.
        apply ssorted_remove_mid in Hs.
        apply (ssorted_ext (desc h)); auto. intros a b _ _. unfold desc, score_of.
        destruct (Hf a) as (_ & -> & _). destruct (Hf b) as (_ & -> & _). auto.
    Qed.

    Lemma delete_abs : absl h' (pre ++ post') = absl h (pre ++ post').
    Proof.
      unfold absl. apply map_ext. intro z. unfold entry.
      destruct (Hf z) as (_ & -> & ->). reflexivity.
    Qed.
  End DEL.
End D.
