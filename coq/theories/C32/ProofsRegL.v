(** C32 — list lemmas for the transition system of ModelReg.v. *)
From Coq Require Import List ZArith Bool Lia.
From C33 Require Import C32.Model C32.ModelReg.
Import ListNotations.
Open Scope nat_scope.

Lemma nth_upd_same : forall (A : Type) (l : list A) i x y,
  nth_error l i = Some x -> nth_error (upd_nth l i y) i = Some y.
Proof.
  induction l as [|a l IH]; intros [|i] x y H; try discriminate; cbn [upd_nth nth_error] in *.
  - reflexivity.
  - eapply IH; eassumption.
Qed.

Lemma nth_upd_other : forall (A : Type) (l : list A) i j y,
  i <> j -> nth_error (upd_nth l i y) j = nth_error l j.
Proof.
  induction l as [|a l IH]; intros [|i] [|j] y H; cbn [upd_nth nth_error]; try reflexivity; try congruence.
  apply IH. congruence.
Qed.

Lemma nth_upd_none : forall (A : Type) (l : list A) i j y,
  nth_error l j = None -> nth_error (upd_nth l i y) j = None.
Proof.
  induction l as [|a l IH]; intros [|i] [|j] y H; cbn [upd_nth nth_error] in *; try reflexivity; try discriminate; try assumption.
  apply IH. assumption.
Qed.

(** What an entry of the updated list is. *)
Lemma nth_upd_inv : forall (A : Type) (l : list A) i j y z,
  nth_error (upd_nth l i y) j = Some z ->
  (j = i /\ z = y /\ nth_error l i <> None) \/ (j <> i /\ nth_error l j = Some z).
Proof.
  intros A l i j y z H. destruct (Nat.eq_dec j i) as [->|Hne].
  - left. destruct (nth_error l i) as [x|] eqn:E.
    + rewrite (nth_upd_same _ _ _ _ y E) in H. inversion H. repeat split; congruence.
    + rewrite (nth_upd_none _ _ i i y E) in H. discriminate.
  - right. split; [assumption|]. rewrite nth_upd_other in H by congruence. assumption.
Qed.

Lemma upd_nth_id : forall (A : Type) (l : list A) i x,
  nth_error l i = Some x -> upd_nth l i x = l.
Proof.
  induction l as [|a l IH]; intros [|i] x H; cbn [upd_nth nth_error] in *; try discriminate.
  - inversion H. reflexivity.
  - f_equal. apply IH. assumption.
Qed.

Lemma nth_snoc_inv : forall (A : Type) (l : list A) x j z,
  nth_error (l ++ [x]) j = Some z ->
  (j = length l /\ z = x) \/ (j < length l /\ nth_error l j = Some z).
Proof.
  intros A l x j z H. destruct (Nat.lt_ge_cases j (length l)) as [Hlt|Hge].
  - right. split; [assumption|]. rewrite nth_error_app1 in H by assumption. assumption.
  - left. rewrite nth_error_app2 in H by assumption.
    destruct (j - length l) as [|k] eqn:E; cbn [nth_error] in H.
    + inversion H. split; [lia|reflexivity].
    + destruct k; discriminate.
Qed.

Lemma nth_snoc_old : forall (A : Type) (l : list A) x j z,
  nth_error l j = Some z -> nth_error (l ++ [x]) j = Some z.
Proof.
  intros A l x j z H. rewrite nth_error_app1; [assumption|].
  apply nth_error_Some. congruence.
Qed.

Lemma nth_snoc_new : forall (A : Type) (l : list A) x,
  nth_error (l ++ [x]) (length l) = Some x.
Proof.
  intros A l x. rewrite nth_error_app2 by lia. rewrite Nat.sub_diag. reflexivity.
Qed.

Definition b2n (b : bool) : nat := if b then 1 else 0.

Lemma cnt_cons : forall (A : Type) (p : A -> bool) x l, cnt p (x :: l) = b2n (p x) + cnt p l.
Proof. reflexivity. Qed.

Lemma cnt_upd : forall (A : Type) (p : A -> bool) (l : list A) i x y,
  nth_error l i = Some x ->
  cnt p (upd_nth l i y) + b2n (p x) = cnt p l + b2n (p y).
Proof.
  induction l as [|a l IH]; intros [|i] x y H; cbn [upd_nth nth_error] in *; try discriminate.
  - inversion H; subst. rewrite !cnt_cons. lia.
  - rewrite !cnt_cons. specialize (IH i x y H). lia.
Qed.

Lemma cnt_app : forall (A : Type) (p : A -> bool) (l : list A) x,
  cnt p (l ++ [x]) = cnt p l + b2n (p x).
Proof.
  induction l as [|a l IH]; intros x; cbn [app]; rewrite ?cnt_cons.
  - cbn [cnt]. lia.
  - rewrite IH. lia.
Qed.

Lemma cnt_none : forall (A : Type) (p : A -> bool) (l : list A),
  (forall i x, nth_error l i = Some x -> p x = false) -> cnt p l = 0.
Proof.
  induction l as [|a l IH]; intros H; [reflexivity|].
  rewrite cnt_cons. rewrite (H 0 a eq_refl). cbn [b2n]. rewrite IH; [reflexivity|].
  intros i x Hx. apply (H (S i) x). exact Hx.
Qed.

Lemma cnt_zero_nth : forall (A : Type) (p : A -> bool) (l : list A) i x,
  cnt p l = 0 -> nth_error l i = Some x -> p x = false.
Proof.
  induction l as [|a l IH]; intros [|i] x H Hx; cbn [nth_error] in Hx; try discriminate;
    rewrite cnt_cons in H.
  - inversion Hx; subst. destruct (p x); [cbn [b2n] in H; lia|reflexivity].
  - apply (IH i x); [lia|assumption].
Qed.

Lemma cnt_pos : forall (A : Type) (p : A -> bool) (l : list A) i x,
  nth_error l i = Some x -> p x = true -> 1 <= cnt p l.
Proof.
  induction l as [|a l IH]; intros [|i] x Hx Hp; cbn [nth_error] in Hx; try discriminate; rewrite cnt_cons.
  - inversion Hx; subst. rewrite Hp. cbn [b2n]. lia.
  - specialize (IH i x Hx Hp). lia.
Qed.

Lemma cnt_unique : forall (A : Type) (p : A -> bool) (l : list A) i j x z,
  cnt p l <= 1 -> nth_error l i = Some x -> p x = true ->
  nth_error l j = Some z -> p z = true -> i = j.
Proof.
  induction l as [|a l IH]; intros [|i] [|j] x z H Hx Hpx Hz Hpz; cbn [nth_error] in *; try discriminate;
    rewrite cnt_cons in H.
  - reflexivity.
  - inversion Hx; subst. rewrite Hpx in H. cbn [b2n] in H.
    pose proof (cnt_pos _ p l j z Hz Hpz). lia.
  - inversion Hz; subst. rewrite Hpz in H. cbn [b2n] in H.
    pose proof (cnt_pos _ p l i x Hx Hpx). lia.
  - f_equal. apply (IH i j x z); try assumption. lia.
Qed.

Lemma cnt_mono : forall (A : Type) (p q : A -> bool) (l : list A),
  (forall x, p x = true -> q x = true) -> cnt p l <= cnt q l.
Proof.
  induction l as [|a l IH]; intros H; [reflexivity|].
  rewrite !cnt_cons. specialize (IH H).
  destruct (p a) eqn:E; [rewrite (H a E)|]; cbn [b2n]; lia.
Qed.

Lemma forallb_nth : forall (A : Type) (p : A -> bool) (l : list A) i x,
  forallb p l = true -> nth_error l i = Some x -> p x = true.
Proof.
  intros A p l i x H Hx. rewrite forallb_forall in H. apply H. eapply nth_error_In; eassumption.
Qed.
