(** C32 — what the property demands, as executable predicates over what a
    subscriber observed.

    [acked] is the list of sequence numbers of all payloads the subscriber
    answered "ok", in the order of arrival.  "In increasing order and without
    gaps from the resume point [r]" means: [acked] is exactly the list of the
    sequence numbers r+1, r+2, … (up to the last one acknowledged) that carry
    something for this subscription — every sequence number for block, header
    and result pushes, the ones with a matching transaction for receipt pushes. *)
From Coq Require Import List ZArith Bool Sorted.
From C33 Require Import Lib.Harness C32.Model.
Import ListNotations.
Open Scope Z_scope.

Fixpoint zrange (a : Z) (n : nat) : list Z :=
  match n with O => [] | S n' => a :: zrange (a + 1) n' end.

(** Gap-free, increasing delivery after resume point [r]. *)
Definition contiguous_from (k : kind) (st : store) (r : Z) (acked : list Z) : Prop :=
  exists n, acked = filter (matching k st) (zrange (r + 1) n).

(** A stored last-push sequence [rec] is justified: it is still the registration
    value [r0], or something was acknowledged, the last acknowledged number is
    <= rec and nothing deliverable lies in between. *)
Definition recorded_justified (k : kind) (st : store) (r0 rec : Z) (acked : list Z) : Prop :=
  rec = r0 \/
  (acked <> [] /\ last acked 0 <= rec /\
   forall s, last acked 0 < s <= rec -> matching k st s = false).

(** Executable versions (used on the implementation's observations). *)
Definition expected_acked (k : kind) (st : store) (a b : Z) : list Z :=
  filter (matching k st) (zrange a (Z.to_nat (b - a + 1))).

Definition acked_okb (k : kind) (st : store) (r0 : Z) (acked : list Z) : bool :=
  match acked with
  | [] => true
  | a :: _ =>
      let first := if r0 >? 0 then r0 + 1 else a in
      list_eqb Z.eqb acked (expected_acked k st first (last acked a))
  end.

Definition recorded_okb (k : kind) (st : store) (rec : Z) (acked : list Z) : bool :=
  match acked with
  | [] => false
  | a :: _ =>
      let l := last acked a in
      (l <=? rec) && forallb (fun s => negb (matching k st s)) (zrange (l + 1) (Z.to_nat (rec - l)))
  end.

(** * The property at full strength (every push type, no guard) *)
Definition C32_acked_contiguous_increasing_full : Prop :=
  forall (c : cfg) (st : store) (r0 : Z) (es : list event),
    let s := run_events c st (init_state r0) es in
    exists r, (0 < r0 -> r = r0) /\
              contiguous_from (c_kind c) st r (acked s) /\
              Sorted.StronglySorted Z.lt (acked s).

Definition C32_recorded_le_acked_full : Prop :=
  forall (c : cfg) (st : store) (r0 : Z) (es : list event),
    let s := run_events c st (init_state r0) es in
    recorded_justified (c_kind c) st r0 (rcd s) (acked s).
