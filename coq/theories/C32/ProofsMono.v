(** C32 — the stored last push sequence never moves backwards. *)
From Coq Require Import List ZArith Bool Lia.
From C33 Require Import C32.Model C32.Spec C32.ProofsGpd C32.ProofsInv.
Import ListNotations.
Open Scope Z_scope.

Ltac fin := cbn [fst rcd set_sl new_task]; lia.

Lemma rcd_step_mono : forall c st r0 s e,
  inv c st r0 s -> rcd s <= rcd (fst (step c st s e)).
Proof.
  intros c st r0 s e I. destruct e as [latest| | | | | |]; cbn [step].
  - destruct (run s); cbn [negb]; [|fin]. destruct (pend s); [fin|].
    assert (P : forall s' : state, rcd (fst (process c st s' latest)) = rcd s').
    { intros s'. unfold process. destruct (lp s' >=? latest); [reflexivity|].
      destruct (lp s' <=? 0); [reflexivity|].
      destruct (gpd _ _ _ _ _) as [| |[|x seqs] upd]; reflexivity. }
    destruct (sl s >? 0).
    + destruct (sl (set_sl s (sl s - 1)) >? 0); [fin|]. rewrite P. fin.
    + rewrite P. fin.
  - destruct (run s); cbn [negb]; [|fin]. destruct (pend s); [fin|]. destruct (sl s >? 0); fin.
  - destruct (pend s) as [[seqs upd]|] eqn:Hp; [|fin]. cbn [fst rcd].
    destruct I as [H1 H2 H3 H4]. destruct (H4 _ _ Hp) as (Hr & Hlp & Hle & _).
    destruct (Z_lt_le_dec 0 (rcd s)) as [Hpos|Hn]; [destruct (H3 Hr Hpos); lia|lia].
  - destruct (pend s); [|fin]. destruct (fc s + 1 >=? 3); fin.
  - destruct (intask s).
    + destruct (act (set_sl s 0)); fin.
    + destruct (act (new_task s)); fin.
  - destruct (pend s); fin.
  - destruct (run s); [fin|]. destruct (pend s); [fin|]. destruct (act s); fin.
Qed.

Lemma rcd_mono : forall c st r0 es1 es2,
    rcd (run_events c st (init_state r0) es1) <= rcd (run_events c st (init_state r0) (es1 ++ es2)).
Proof.
  intros c st r0 es1 es2.
  assert (Hrun : forall es s, run_events c st s (es1 ++ es) = run_events c st (run_events c st s es1) es).
  { clear. induction es1 as [|e es1 IH]; intros es s; cbn [app run_events]; [reflexivity|apply IH]. }
  rewrite Hrun.
  generalize (inv_reachable c st r0 es1). generalize (run_events c st (init_state r0) es1).
  induction es2 as [|e es2 IH]; intros s I; cbn [run_events]; [lia|].
  etransitivity; [apply (rcd_step_mono c st r0 s e I)|]. apply IH. apply inv_step; assumption.
Qed.
