(** C32 — "recorded only after acknowledged" on the transition system WITHOUT
    the guard: whatever the interleaving of registrations, start-ups and
    goroutines (only the setLastPushSeq of a second concurrent first
    registration excluded), the stored last push sequence is the registration
    value or is covered by an acknowledged sequence number. *)
From Coq Require Import List ZArith Bool Lia.
From C33 Require Import C32.Model C32.Spec C32.ProofsGpd C32.ModelReg C32.ProofsRegL.
Import ListNotations.
Open Scope Z_scope.

Definition no_setlast (e : yev) : bool :=
  match e with VSetLast _ => false | _ => true end.

Section Rec.
  Variable fx : bool.
  Variable c : cfg.
  Variable st : store.
  Variable r0 : Z.

  Let M := matching (c_kind c) st.

  Definition pk (t : task) : Prop :=
    match t_pc t with
    | PPost seqs upd => t_lp t <= upd /\ seqs <> [] /\ seqs = rf M (t_lp t) upd
    | _ => True
    end.

  Definition covered (rcd : Z) (acked : list Z) : Prop :=
    rcd = r0 \/ exists s, In s acked /\ s <= rcd /\ forall x, s < x <= rcd -> M x = false.

  Definition winv (y : sys) : Prop :=
    (forall i t, nth_error (y_ts y) i = Some t -> pk t) /\ covered (y_rcd y) (y_acked y).

  Lemma winv_upd : forall y y' i t',
    winv y -> y_ts y' = upd_nth (y_ts y) i t' -> y_rcd y' = y_rcd y -> y_acked y' = y_acked y ->
    pk t' -> winv y'.
  Proof.
    intros y y' i t' [H1 H2] Ets Er Ea Hp. split; rewrite ?Ets, ?Er, ?Ea; [|exact H2].
    intros j tj Hj. apply nth_upd_inv in Hj as [(-> & -> & _)|(_ & Hj)]; [exact Hp|apply (H1 j tj Hj)].
  Qed.

  Lemma winv_snoc : forall y y' t',
    winv y -> y_ts y' = y_ts y ++ [t'] -> y_rcd y' = y_rcd y -> y_acked y' = y_acked y ->
    pk t' -> winv y'.
  Proof.
    intros y y' t' [H1 H2] Ets Er Ea Hp. split; rewrite ?Ets, ?Er, ?Ea; [|exact H2].
    intros j tj Hj. apply nth_snoc_inv in Hj as [(-> & ->)|(_ & Hj)]; [exact Hp|apply (H1 j tj Hj)].
  Qed.

  Lemma winv_same : forall y y',
    winv y -> y_ts y' = y_ts y -> y_rcd y' = y_rcd y -> y_acked y' = y_acked y -> winv y'.
  Proof. intros y y' [H1 H2] Ets Er Ea. split; rewrite ?Ets, ?Er, ?Ea; assumption. Qed.

  Lemma f_sl : forall y n v,
    y_ts (set_sl_of y n v) = y_ts y /\ y_rcd (set_sl_of y n v) = y_rcd y /\ y_acked (set_sl_of y n v) = y_acked y.
  Proof. intros. unfold set_sl_of. destruct (nth_error _ _); repeat split. Qed.
  Lemma f_run : forall y n b,
    y_ts (set_run_of y n b) = y_ts y /\ y_rcd (set_run_of y n b) = y_rcd y /\ y_acked (set_run_of y n b) = y_acked y.
  Proof. intros. unfold set_run_of. destruct (nth_error _ _); repeat split. Qed.
  Lemma f_spawn : forall y n,
    y_ts (spawn fx y n) = y_ts y ++ [mkT n PStart 0 0] /\ y_rcd (spawn fx y n) = y_rcd y /\ y_acked (spawn fx y n) = y_acked y.
  Proof.
    intros. unfold spawn. destruct fx; cbn [set_ts y_ts y_rcd y_acked]; [|repeat split].
    destruct (f_run y n true) as (A & B & C). rewrite A, B, C. repeat split.
  Qed.
  Lemma f_fresh : forall y,
    y_ts (fresh_task fx y) = y_ts y ++ [mkT (length (y_ns y)) PStart 0 0] /\
    y_rcd (fresh_task fx y) = y_rcd y /\ y_acked (fresh_task fx y) = y_acked y.
  Proof. intros. unfold fresh_task. destruct (f_spawn (set_entry (set_ns y (y_ns y ++ [mkN false 0 false])) (Some (length (y_ns y)))) (length (y_ns y))) as (A & B & C). rewrite A, B, C. repeat split. Qed.

  Lemma winv_sl : forall y n v, winv y -> winv (set_sl_of y n v).
  Proof. intros y n v I. destruct (f_sl y n v) as (A & B & C). apply (winv_same y); assumption. Qed.

  Lemma winv_fresh : forall y y1, winv y -> y_ts y1 = y_ts y -> y_rcd y1 = y_rcd y -> y_acked y1 = y_acked y ->
    winv (fresh_task fx y1).
  Proof.
    intros y y1 I A B C. destruct (f_fresh y1) as (A1 & B1 & C1).
    apply (winv_snoc y _ (mkT (length (y_ns y1)) PStart 0 0)); try congruence; try exact I; try exact Logic.I.
  Qed.

  Lemma winv_process : forall y i t latest,
    winv y -> nth_error (y_ts y) i = Some t -> winv (fst (yprocess c st y i t latest)).
  Proof.
    intros y i t latest I Hi. unfold yprocess.
    destruct (t_lp t >=? latest); [exact I|]. destruct (t_lp t <=? 0); cbn [fst].
    { apply (winv_upd y _ i (mkT (t_n t) PIdle latest (t_fc t))); try reflexivity; try exact I; try exact Logic.I. }
    destruct (gpd (c_kind c) st (t_lp t + 1) (Z.min (c_maxcnt c) (latest - t_lp t)) (c_maxsize c))
      as [| |seqs upd] eqn:Eg; try exact I.
    apply gpd_spec in Eg as [Hupd Hseqs]. replace (t_lp t + 1 - 1) with (t_lp t) in * by lia.
    destruct seqs as [|x seqs]; cbn [fst].
    - apply (winv_upd y _ i (mkT (t_n t) PIdle upd 0)); try reflexivity; try exact I; try exact Logic.I.
    - apply (winv_upd y _ i (with_pc t (PPost (x :: seqs) upd))); try reflexivity; [exact I|].
      unfold pk. cbn [with_pc t_pc t_lp]. split; [lia|]. split; [discriminate|exact Hseqs].
  Qed.

  Lemma winv_step : forall y e, winv y -> no_setlast e = true -> winv (fst (ystep fx c st y e)).
  Proof.
    intros y e I G. destruct e; cbn [ystep]; try discriminate.
    - destruct (y_entry y) as [n|]; [destruct (nth_error (y_ns y) n) as [f|]; [destruct (n_run f)|]|]; cbn [fst]; try exact I.
      + apply winv_sl; exact I.
      + destruct (f_spawn y n) as (A & B & C). apply (winv_snoc y _ (mkT n PStart 0 0)); try assumption. exact Logic.I.
      + apply (winv_fresh y); [exact I|reflexivity..].
    - destruct (y_act y); cbn [fst]; [exact I|]. apply (winv_same y); [exact I|reflexivity..].
    - cbn [fst]. destruct (f_fresh y) as (A & B & C).
      apply (winv_snoc y _ (mkT (length (y_ns y)) PStart 0 0)); cbn [set_act y_ts y_rcd y_acked]; try assumption. exact Logic.I.
    - destruct (nth_error (y_ts y) i) as [t|] eqn:Hi; [|exact I]. destruct (t_pc t); try exact I. cbn [fst].
      apply (winv_upd y _ i (mkT (t_n t) PRead (y_rcd y) (t_fc t))); try reflexivity; try exact I; try exact Logic.I.
    - destruct (nth_error (y_ts y) i) as [t|] eqn:Hi; [|exact I]. destruct (t_pc t); try exact I. cbn [fst].
      destruct (f_run y (t_n t) true) as (A & B & C).
      apply (winv_upd y _ i (with_pc t PIdle)); cbn [set_task set_ts y_ts y_rcd y_acked]; try congruence; try exact I; try exact Logic.I.
    - destruct (nth_error (y_ts y) i) as [t|] eqn:Hi; [|exact I]. destruct (t_pc t); try exact I.
      destruct (sl_of y (t_n t) >? 0); [destruct (sl_of y (t_n t) - 1 >? 0)|]; cbn [fst].
      + apply winv_sl; exact I.
      + apply winv_process; [apply winv_sl; exact I|]. destruct (f_sl y (t_n t) (sl_of y (t_n t) - 1)) as (A & _). rewrite A. exact Hi.
      + apply winv_process; assumption.
    - destruct (nth_error (y_ts y) i) as [t|] eqn:Hi; [|exact I]. destruct (t_pc t); try exact I.
      destruct (sl_of y (t_n t) >? 0); [destruct (sl_of y (t_n t) - 1 >? 0)|]; cbn [fst].
      + apply winv_sl; exact I.
      + destruct (f_sl y (t_n t) (sl_of y (t_n t) - 1)) as (A & B & C).
        apply (winv_upd y _ i (with_pc t (PDead false))); cbn [set_task set_ts y_ts y_rcd y_acked]; try congruence; try exact I; try exact Logic.I.
      + apply (winv_upd y _ i (with_pc t (PDead false))); try reflexivity; try exact I; try exact Logic.I.
    - destruct (nth_error (y_ts y) i) as [t|] eqn:Hi; [|exact I]. destruct (t_pc t); try exact I.
      destruct (sl_of y (t_n t) >? 0); cbn [fst]; [apply winv_sl|]; exact I.
    - (* VPostOk: the only write of the stored sequence *)
      destruct (nth_error (y_ts y) i) as [t|] eqn:Hi; [|exact I].
      destruct (t_pc t) as [| | |seqs upd| | |d] eqn:Hpc; try exact I. cbn [fst].
      destruct I as [H1 H2]. pose proof (H1 i t Hi) as Hp. unfold pk in Hp. rewrite Hpc in Hp.
      destruct Hp as (Hle & Hne & Hseqs).
      split; cbn [y_ts y_rcd y_acked].
      + intros j tj Hj. apply nth_upd_inv in Hj as [(-> & -> & _)|(_ & Hj)]; [exact Logic.I|apply (H1 j tj Hj)].
      + right. fold M in Hseqs. rewrite Hseqs in Hne.
        destruct (rf_last M (t_lp t) upd Hne) as [Hl Hnone].
        exists (last (rf M (t_lp t) upd) 0). split; [|split; [lia|exact Hnone]].
        apply in_or_app. right. rewrite Hseqs.
        destruct (rf M (t_lp t) upd) as [|a l] eqn:E; [congruence|].
        rewrite <- E in *. clear E. destruct (exists_last Hne) as (l' & z & ->). rewrite last_last. apply in_or_app. right. left. reflexivity.
    - destruct (nth_error (y_ts y) i) as [t|] eqn:Hi; [|exact I]. destruct (t_pc t); try exact I.
      destruct (t_fc t + 1 >=? 3); [destruct fx|]; cbn [fst].
      + destruct (f_run y (t_n t) false) as (A & B & C).
        apply (winv_upd y _ i (mkT (t_n t) PDeact2 (t_lp t) (t_fc t + 1))); cbn [set_task set_ts set_entry y_ts y_rcd y_acked]; try congruence; try exact I; try exact Logic.I.
      + destruct (f_run y (t_n t) false) as (A & B & C).
        apply (winv_upd y _ i (mkT (t_n t) PDeact1 (t_lp t) (t_fc t + 1))); cbn [set_task set_ts y_ts y_rcd y_acked]; try congruence; try exact I; try exact Logic.I.
      + destruct (f_sl y (t_n t) (c_f2s c)) as (A & B & C).
        apply (winv_upd y _ i (mkT (t_n t) PIdle (t_lp t) (t_fc t + 1))); cbn [set_task set_ts y_ts y_rcd y_acked]; try congruence; try exact I; try exact Logic.I.
    - destruct (nth_error (y_ts y) i) as [t|] eqn:Hi; [|exact I]. destruct (t_pc t); try exact I. cbn [fst].
      apply (winv_upd y _ i (with_pc t PDeact2)); try reflexivity; try exact I; try exact Logic.I.
    - destruct (nth_error (y_ts y) i) as [t|] eqn:Hi; [|exact I]. destruct (t_pc t); try exact I. cbn [fst].
      apply (winv_upd y _ i (with_pc t (PDead true))); try reflexivity; try exact I; try exact Logic.I.
    - destruct (y_entry y) as [n|]; [destruct (nth_error (y_ns y) n) as [f|]; [destruct (n_closed f)|]|]; cbn [fst]; try exact I;
        apply (winv_same y); try reflexivity; exact I.
    - destruct (nth_error (y_ts y) i) as [t|] eqn:Hi; [|exact I]. destruct (t_pc t); try exact I.
      destruct (nth_error (y_ns y) (t_n t)) as [f|]; [destruct (n_closed f)|]; try exact I. cbn [fst].
      apply (winv_upd y _ i (with_pc t (PDead true))); try reflexivity; try exact I; try exact Logic.I.
    - destruct (forallb is_dead (y_ts y)); [destruct (y_act y)|]; cbn [fst]; try exact I.
      apply (winv_fresh y); [exact I|reflexivity..].
  Qed.

  Lemma winv_init0 : winv (init_sys0 fx r0).
  Proof.
    split; cbn [init_sys0 y_ts y_rcd y_acked].
    - intros [|[|i]] t H; cbn [nth_error] in H; try discriminate. inversion H; subst. exact I.
    - left. reflexivity.
  Qed.

  Lemma recorded_only_after_ack : forall es,
    forallb no_setlast es = true ->
    let y := yrun fx c st (init_sys0 fx r0) es in
    y_rcd y = r0 \/
    exists s, In s (y_acked y) /\ s <= y_rcd y /\ forall x, s < x <= y_rcd y -> matching (c_kind c) st x = false.
  Proof.
    intros es G. cbv zeta.
    assert (H : winv (yrun fx c st (init_sys0 fx r0) es)).
    { generalize winv_init0. generalize (init_sys0 fx r0). revert G.
      induction es as [|e es IH]; intros G y I; cbn [yrun forallb] in *; [exact I|].
      apply andb_true_iff in G as [G1 G2]. apply IH; [exact G2|apply winv_step; assumption]. }
    exact (proj2 H).
  Qed.
End Rec.
