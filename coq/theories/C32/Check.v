(** C32 — correspondence cases.

    CGpd ty store start count max res
        one call getPushData(type ty, start, count, max) on a sequence store;
        res = code :: upd :: seqs   code 0 data / 1 nil data / 2 error / 3 panic /
                                    8 a payload item did not carry the data of its number
    CHist ty maxsize f2s store trace
        one history of a subscriber task; the trace is the real order of
        stimuli (what the script or the scheduler did) and outputs (what the
        implementation did), each entry a flat integer list:
          stimuli   [1;l;d]        a processing round starts, LoadBlockLastSequence = l,
                                   d = 1 when it came >= 0.9 s after an unanswered post failure
                    [3;ok]         PostData answered (1 ok / 0 error)
                    [6;r0;h;l]     first addSubscriber (LastSequence r0, hash right?, newest seq l)
                    [7;same]       addSubscriber again (same URL/type?)
                    [10;k]         waited until the sleep counter reached 0: k one-second ticks
                    [11]           Push.Close returned      [12]  new Push over the same stores
                    [14;e;s;n;a]   probe: task entry exists, sleeping (or -1), stored last seq, stored status
                    [99;_]         the harness gave up waiting
          outputs   [2;upd;cok;seqs…]  PostData called      [4;n]  last push seq stored
                    [5;s]  status stored    [8]  task started    [9;code]  addSubscriber result
    CReg ty maxsize store trace
        one history of several task goroutines of one subscriber name with
        registration, start-up and shutdown steps: see CheckReg.v
    CRace …
        what one subscriber's endpoint received in a free-running double registration: see CheckReg.v
    store = size_0; has_0; size_1; has_1; … *)
From Coq Require Import List ZArith NArith Bool.
From C33 Require Import Lib.Harness C32.Model C32.Spec C32.ModelReg C32.CheckReg.
Import ListNotations.
Open Scope Z_scope.

Inductive case :=
| CGpd (ty : Z) (st : list Z) (start count max : Z) (res : list Z)
| CHist (ty maxsize f2s : Z) (st : list Z) (trace : list (list Z))
| CReg (ty maxsize : Z) (st : list Z) (trace : list (list Z))
| CRace (ty maxsize : Z) (st : list Z) (r0 L rcd spawns complete : Z) (codes : list Z) (posts : list (list Z)).

Fixpoint decode_store (l : list Z) : store :=
  match l with
  | sz :: h :: tl => (sz, negb (h =? 0)) :: decode_store tl
  | _ => []
  end.

Definition zl_eqb := list_eqb Z.eqb.

Fixpoint first_missing (expected got : list Z) : option Z :=
  match expected, got with
  | e :: et, g :: gt => if e =? g then first_missing et gt else Some e
  | e :: _, [] => Some e
  | [], _ => None
  end.

(** * getPushData cases *)
Definition enc_gres (r : gres) : list Z :=
  match r with
  | GErr => [2; 0]
  | GPanic => [3; 0]
  | GData [] upd => [1; upd]
  | GData seqs upd => 0 :: upd :: seqs
  end.

Definition check_gpd (ty : Z) (stl : list Z) (start count max : Z) (res : list Z) : verdict :=
  let st := decode_store stl in
  let k := kind_of ty in
  let m := zl_eqb (enc_gres (gpd k st start count max)) res in
  match res with
  | code :: upd :: seqs =>
      if (code =? 0) || (code =? 1) then
        let expected := expected_acked k st start upd in
        if zl_eqb seqs expected then mk_verdict m true
        else (m, false, 0%N)
      else mk_verdict m ((code =? 2) || (code =? 3))
  | _ => mk_verdict false false
  end.

(** * History cases *)
Definition enc_out (o : out) : list Z :=
  match o with
  | OPost seqs upd => 2 :: upd :: 1 :: seqs
  | ORec n => [4; n]
  | OStatus s => [5; s]
  | OStarted => [8]
  end.

Record cst := mkC {
  ms : option state;          (* None: no subscription stored yet *)
  expect : list (list Z);     (* outputs the model still expects before the next stimulus *)
  good : bool }.

Definition bad (c : cst) : cst := mkC (ms c) [] false.

Fixpoint ticks (c : cfg) (st : store) (s : state) (n : nat) : state :=
  match n with O => s | S n' => ticks c st (fst (step c st s ETick)) n' end.

Definition b2z (b : bool) : Z := if b then 1 else 0.

Definition do_event (c : cfg) (st : store) (cs : cst) (s : state) (e : event) (extra : list (list Z)) : cst :=
  let (s', os) := step c st s e in
  mkC (Some s') (map enc_out os ++ extra) (good cs).

Definition stimulus (c : cfg) (st : store) (cs : cst) (e : list Z) : cst :=
  match expect cs with
  | _ :: _ => bad cs          (* an expected output was not observed *)
  | [] =>
    match e, ms cs with
    | [6; r0; hok; latest], None =>
        if r0 >? 0 then
          if r0 >? latest then mkC None [[9; 2]] (good cs)
          else if hok =? 1 then mkC (Some (init_state r0)) [[4; r0]; [8]; [5; 1]; [9; 0]] (good cs)
          else mkC (Some (init_state (-1))) [[8]; [5; 1]; [9; 0]] (good cs)
        else mkC (Some (init_state (-1))) [[8]; [5; 1]; [9; 0]] (good cs)
    | [1; latest; d], Some s =>
        if run s && match pend s with None => true | Some _ => false end
           && (d =? b2z (sl s >? 0))
        then do_event c st cs s (ESeq latest) []
        else bad cs
    | [3; okf], Some s =>
        match pend s with
        | None => bad cs
        | Some _ => do_event c st cs s (if okf =? 1 then EPostOk else EPostFail) []
        end
    | [7; same], Some s =>
        if same =? 1 then do_event c st cs s EResume [[9; 0]]
        else mkC (Some s) [[9; 1]] (good cs)
    | [10; k], Some s =>
        if run s && (0 <? k) && (sl s =? k) && match pend s with None => true | Some _ => false end
        then mkC (Some (ticks c st s (Z.to_nat k))) [] (good cs)
        else bad cs
    | [11], Some s =>
        match pend s with
        | None => do_event c st cs s EClose []
        | Some _ => bad cs
        end
    | [12], Some s => if run s then bad cs else do_event c st cs s ERestart []
    | [14; ex; slf; lastseq; status], None =>
        if (ex =? 0) && (lastseq =? -1) && (status =? 0) then cs else bad cs
    | [14; ex; slf; lastseq; status], Some s =>
        if (ex =? b2z (intask s)) && ((slf =? -1) || (slf =? b2z (sl s >? 0)))
           && (lastseq =? rcd s) && (status =? (if act s then 1 else 2))
        then cs else bad cs
    | _, _ => bad cs
    end
  end.

Definition is_output (e : list Z) : bool :=
  match e with
  | t :: _ => (t =? 2) || (t =? 4) || (t =? 5) || (t =? 8) || (t =? 9)
  | [] => false
  end.

Definition model_step (c : cfg) (st : store) (cs : cst) (e : list Z) : cst :=
  if negb (good cs) then cs
  else if is_output e then
    match expect cs with
    | x :: tl => if zl_eqb x e then mkC (ms cs) tl true else bad cs
    | [] => bad cs
    end
  else stimulus c st cs e.

Definition model_agrees (c : cfg) (st : store) (trace : list (list Z)) : bool :=
  let cs := fold_left (model_step c st) trace (mkC None [] true) in
  good cs && match expect cs with [] => true | _ => false end.

(** Spec oracle on the observations alone. *)
Record sst := mkS {
  s_r0 : Z;                     (* resume point of the registration, -1: none given *)
  s_acked : list Z;
  s_posts : list (list Z * Z);  (* acknowledged posts, newest first: payload, upd *)
  s_pending : option (list Z * Z);
  s_prev : Z;                   (* tag of the previous entry *)
  s_maxrec : Z;                 (* largest last-push sequence stored after an acknowledgement *)
  s_rp : Z;                     (* no LastSequence given: the newest sequence the task started from, -1 unset *)
  s_ok : bool }.

Definition spec_step (k : kind) (st : store) (s : sst) (e : list Z) : sst :=
  match e with
  | [6; r0; hok; latest] =>
      let r := if (r0 >? 0) && (r0 <=? latest) && (hok =? 1) then r0 else -1 in
      mkS r (s_acked s) (s_posts s) None 6 (s_maxrec s) (s_rp s) (s_ok s)
  | 2 :: upd :: cok :: seqs =>
      mkS (s_r0 s) (s_acked s) (s_posts s) (Some (seqs, upd)) 2 (s_maxrec s) (s_rp s) (s_ok s && (cok =? 1))
  | [3; okf] =>
      match s_pending s with
      | Some (seqs, upd) =>
          if okf =? 1
          then mkS (s_r0 s) (s_acked s ++ seqs) ((seqs, upd) :: s_posts s) None 31 (s_maxrec s) (s_rp s) (s_ok s)
          else mkS (s_r0 s) (s_acked s) (s_posts s) None 30 (s_maxrec s) (s_rp s) (s_ok s)
      | None => mkS (s_r0 s) (s_acked s) (s_posts s) None 30 (s_maxrec s) (s_rp s) false
      end
  | [4; n] =>
      (* stored at registration (the resume point itself), or right after an ok answer *)
      if s_prev s =? 6
      then mkS (s_r0 s) (s_acked s) (s_posts s) (s_pending s) 4 (s_maxrec s) (s_rp s) (s_ok s && (n =? s_r0 s))
      else
        (* "nothing deliverable between the last acknowledged number and n" is
           checked at the end, against the largest stored value *)
        let okr := (s_prev s =? 31) && match s_acked s with [] => false | a :: _ => last (s_acked s) a <=? n end in
        mkS (s_r0 s) (s_acked s) (s_posts s) (s_pending s) 4 (Z.max n (s_maxrec s)) (s_rp s) (s_ok s && okr)
  | [8] =>
      (* a task starts; with nothing stored it will jump to the newest sequence *)
      let rp := match s_acked s with [] => if s_r0 s >? 0 then s_rp s else -1 | _ => s_rp s end in
      mkS (s_r0 s) (s_acked s) (s_posts s) (s_pending s) 8 (s_maxrec s) rp (s_ok s)
  | [1; latest; d] =>
      let rp := match s_acked s with
                | [] => if (s_r0 s <=? 0) && (s_rp s <=? 0) && (0 <? latest) then latest else s_rp s
                | _ => s_rp s
                end in
      mkS (s_r0 s) (s_acked s) (s_posts s) (s_pending s) 1 (s_maxrec s) rp (s_ok s)
  | t :: _ => mkS (s_r0 s) (s_acked s) (s_posts s) (s_pending s) t (s_maxrec s) (s_rp s) (s_ok s)
  | [] => s
  end.

Definition check_hist (ty maxsize f2s : Z) (stl : list Z) (trace : list (list Z)) : verdict :=
  let st := decode_store stl in
  let k := kind_of ty in
  let c := mkCfg k (maxcnt_of ty) pushMaxSize f2s in
  let m := (maxsize =? pushMaxSize) && model_agrees c st trace in
  let s := fold_left (spec_step k st) trace (mkS (-1) [] [] None 0 (-1) (-1) true) in
  let acked := s_acked s in
  match acked with
  | [] => mk_verdict m (s_ok s)
  | a :: _ =>
      let first := if s_r0 s >? 0 then s_r0 s + 1 else if s_rp s >? 0 then s_rp s + 1 else a in
      let la := last acked a in
      let exp_hi := expected_acked k st first (Z.max la (s_maxrec s)) in
      let missing := first_missing exp_hi acked in
      if s_ok s && zl_eqb acked (expected_acked k st first la)
         && match missing with None => true | Some _ => false end
      then mk_verdict m true
      else (m, false, 0%N)
  end.

Definition check_case (c : case) : verdict :=
  match c with
  | CGpd ty st start count max res => check_gpd ty st start count max res
  | CHist ty maxsize f2s st trace => check_hist ty maxsize f2s st trace
  | CReg ty maxsize st trace => check_reg ty maxsize st trace
  | CRace ty maxsize st r0 L rcd spawns complete codes posts =>
      check_race ty maxsize st r0 L rcd spawns complete codes posts
  end.
