(** C32 — the size-boundary gap: refutation witnesses and non-vacuity examples. *)
From Coq Require Import List ZArith Bool Lia Sorted.
From C33 Require Import C32.Model C32.Spec C32.ProofsGpd.
Import ListNotations.
Open Scope Z_scope.

(** Receipt push, size limit 10.  Sequence 2 has size 4, sequence 3 has size 6:
    4 + 6 = 10 is neither < 10 (append) nor > 10 (break), so 3 is counted but
    not sent; 4 still fits.  The batch is [2; 4] with updateSeq 4. *)
Definition gap_cfg : cfg := mkCfg KRecv 100 10 1.
Definition gap_store : store := [(1, true); (1, true); (4, true); (6, true); (1, true)].
Definition gap_events : list event := [ESeq 4; EPostOk].

Lemma gap_run : acked (run_events gap_cfg gap_store (init_state 1) gap_events) = [2; 4].
Proof. vm_compute. reflexivity. Qed.

Lemma refuted_gap : ~ C32_acked_contiguous_increasing_full.
Proof.
  intro H. specialize (H gap_cfg gap_store 1 gap_events). cbv zeta in H.
  destruct H as (r & Hr & [n Hn] & _). rewrite gap_run in Hn.
  assert (r = 1) by (apply Hr; lia). subst r.
  destruct n as [|[|[|n]]]; vm_compute in Hn; discriminate.
Qed.

(** Same boundary at the end of a batch: [2] is sent with updateSeq 3, and after
    the ok the stored last push sequence is 3 although 3 was never delivered. *)
Definition gap_store2 : store := [(1, true); (1, true); (4, true); (6, true)].
Definition gap_events2 : list event := [ESeq 3; EPostOk].

Lemma gap_run2 :
  let s := run_events gap_cfg gap_store2 (init_state 1) gap_events2 in
  acked s = [2] /\ rcd s = 3.
Proof. vm_compute. split; reflexivity. Qed.

Lemma refuted_recorded : ~ C32_recorded_le_acked_full.
Proof.
  intro H. specialize (H gap_cfg gap_store2 1 gap_events2). cbv zeta in H.
  destruct gap_run2 as [Ea Er]. rewrite Ea, Er in H.
  destruct H as [H|(_ & _ & H)]; [discriminate|].
  assert (X : last [2] 0 < 3 <= 3) by (cbn [last]; lia).
  apply H in X. vm_compute in X. discriminate.
Qed.

(** The guard is satisfiable by a non-trivial receipt store, and a run with a
    failed post, three failures in a row, deactivation and re-registration
    acknowledges [2; 3; 5] (4 carries nothing) under it. *)
Definition ok_store : store := [(1, true); (1, true); (4, true); (3, true); (0, false); (4, true)].

Example guard_nontrivial : guard gap_cfg ok_store = true.
Proof. vm_compute. reflexivity. Qed.

Example guard_rejects_gap : guard gap_cfg gap_store = false.
Proof. vm_compute. reflexivity. Qed.

Example run_nontrivial :
  let s := run_events gap_cfg ok_store (init_state 1)
             [ESeq 3; EPostFail; ETick; ESeq 3; EPostOk; ESeq 5; EPostFail; ESeq 5; EPostFail; ESeq 5; EPostFail;
              ESeq 5; EResume; ESeq 5; EPostOk; EClose; ERestart; ESeq 5] in
  acked s = [2; 3; 5] /\ rcd s = 5 /\ run s = true /\ act s = true.
Proof. vm_compute. repeat split; reflexivity. Qed.

(** Hypotheses of the stall lemma are satisfiable. *)
Example stall_state :
  let s := init_state 1 in
  let st := [(1, true); (1, true); (11, true); (1, true)] in
  run s = true /\ pend s = None /\ sl s <= 0 /\ 0 < lp s /\
  lookup st (lp s + 1) = Some (11, true) /\ c_maxsize gap_cfg < 11.
Proof. vm_compute. repeat split; try reflexivity; discriminate. Qed.
