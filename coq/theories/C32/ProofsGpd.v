(** C32 — lemmas about ranges and about getPushData. *)
From Coq Require Import List ZArith Bool Lia Sorted.
From C33 Require Import C32.Model C32.Spec.
Import ListNotations.
Open Scope Z_scope.

(** * zrange *)
Lemma zrange_app : forall n m a,
  zrange a (n + m) = zrange a n ++ zrange (a + Z.of_nat n) m.
Proof.
  induction n as [|n IH]; intros m a.
  - cbn [zrange Nat.add app]. f_equal. lia.
  - cbn [zrange Nat.add app]. rewrite IH.
    replace (a + Z.of_nat (S n)) with (a + 1 + Z.of_nat n) by lia. reflexivity.
Qed.

Lemma zrange_In : forall n a x, In x (zrange a n) <-> a <= x < a + Z.of_nat n.
Proof.
  induction n as [|n IH]; intros a x; cbn [zrange In].
  - lia.
  - rewrite IH. lia.
Qed.

Lemma zrange_length : forall n a, length (zrange a n) = n.
Proof. induction n as [|n IH]; intros a; cbn [zrange length]; [reflexivity | now rewrite IH]. Qed.

Lemma zrange_sorted : forall n a, StronglySorted Z.lt (zrange a n).
Proof.
  induction n as [|n IH]; intros a; cbn [zrange]; constructor.
  - apply IH.
  - apply Forall_forall. intros x Hx. apply zrange_In in Hx. lia.
Qed.

Lemma filter_sorted : forall (f : Z -> bool) l,
  StronglySorted Z.lt l -> StronglySorted Z.lt (filter f l).
Proof.
  intros f l H. induction H as [|a l Hs IH Hf]; cbn [filter].
  - constructor.
  - destruct (f a); [|exact IH]. constructor; [exact IH|].
    apply Forall_forall. intros x Hx. apply filter_In in Hx as [Hx _].
    rewrite Forall_forall in Hf. now apply Hf.
Qed.

(** [rf f a b]: the numbers in (a, b] that satisfy [f]. *)
Definition rf (f : Z -> bool) (a b : Z) : list Z :=
  filter f (zrange (a + 1) (Z.to_nat (b - a))).

Lemma rf_split : forall f a b c, a <= b -> b <= c -> rf f a c = rf f a b ++ rf f b c.
Proof.
  intros f a b c Hab Hbc. unfold rf.
  replace (Z.to_nat (c - a)) with (Z.to_nat (b - a) + Z.to_nat (c - b))%nat by lia.
  rewrite zrange_app, filter_app. do 3 f_equal. lia.
Qed.

Lemma rf_same : forall f a, rf f a a = [].
Proof. intros f a. unfold rf. now replace (Z.to_nat (a - a)) with O by lia. Qed.

Lemma rf_In : forall f a b x, In x (rf f a b) <-> (a < x <= b /\ f x = true).
Proof.
  intros f a b x. unfold rf. rewrite filter_In, zrange_In. split; intros [H1 H2]; split; try assumption; lia.
Qed.

Lemma rf_nil_none : forall f a b, rf f a b = [] -> forall s, a < s <= b -> f s = false.
Proof.
  intros f a b H s Hs. destruct (f s) eqn:E; [|reflexivity].
  assert (In s (rf f a b)) by (apply rf_In; auto). rewrite H in H0. destruct H0.
Qed.

Lemma rf_true : forall a b, rf (fun _ => true) a b = zrange (a + 1) (Z.to_nat (b - a)).
Proof.
  intros a b. unfold rf. generalize (a + 1), (Z.to_nat (b - a)). intros z n. revert z.
  induction n as [|n IH]; intros z; cbn [zrange filter]; [reflexivity | now rewrite IH].
Qed.

Lemma rf_last : forall f a b, rf f a b <> [] ->
  a < last (rf f a b) 0 <= b /\ forall s, last (rf f a b) 0 < s <= b -> f s = false.
Proof.
  intros f a b Hne.
  assert (Hin : In (last (rf f a b) 0) (rf f a b)).
  { destruct (rf f a b) as [|x l] eqn:E; [congruence|].
    destruct (exists_last (l := x :: l)) as (l' & y & Ey); [discriminate|].
    rewrite Ey, last_last. apply in_or_app. right. now left. }
  apply rf_In in Hin as [Hr _]. split; [exact Hr|].
  intros s Hs. destruct (f s) eqn:E; [|reflexivity]. exfalso.
  assert (Hs_in : In s (rf f a b)) by (apply rf_In; split; [lia|exact E]).
  assert (Hsort : StronglySorted Z.lt (rf f a b)) by (apply filter_sorted, zrange_sorted).
  destruct (rf f a b) as [|x l] eqn:E2; [congruence|].
  destruct (exists_last (l := x :: l)) as (l' & y & Ey); [discriminate|].
  rewrite Ey in *. rewrite last_last in Hs.
  apply in_app_or in Hs_in as [Hi|[Hi|[]]]; [|lia].
  clear - Hsort Hi Hs. induction l' as [|z l' IH]; [destruct Hi|].
  cbn [app] in Hsort. inversion Hsort as [|? ? Hs' Hf]; subst.
  destruct Hi as [->|Hi]; [|now apply IH].
  rewrite Forall_forall in Hf. specialize (Hf y). assert (In y (l' ++ [y])) by (apply in_or_app; right; now left).
  apply Hf in H. lia.
Qed.

(** * The loops of getPushData *)
Lemma blk_loop_spec : forall max n l seq total r,
  blk_loop max n l seq total = Some r -> r = zrange seq (length r).
Proof.
  induction n as [|n IH]; intros l seq total r H; cbn [blk_loop] in H.
  - inversion H. reflexivity.
  - destruct l as [|[size has] tl]; [discriminate|].
    destruct ((total =? 0) || (total + size <? max)).
    + destruct (blk_loop max n tl (seq + 1) (total + size)) as [r'|] eqn:E; [|discriminate].
      cbn [option_map] in H. inversion H; subst. cbn [length zrange]. f_equal. eapply IH; eauto.
    + inversion H. reflexivity.
Qed.

Lemma res_loop_spec : forall n l seq r,
  res_loop n l seq = Some r -> r = zrange seq (length r).
Proof.
  induction n as [|n IH]; intros l seq r H; cbn [res_loop] in H.
  - inversion H. reflexivity.
  - destruct l as [|e tl]; [discriminate|].
    destruct (res_loop n tl (seq + 1)) as [r'|] eqn:E; [|discriminate].
    cbn [option_map] in H. inversion H; subst. cbn [length zrange]. f_equal. eapply IH; eauto.
Qed.

(** [hasl l base s]: the "has" flag of the entry of [l] at position [s - base]. *)
Definition hasl (l : store) (base s : Z) : bool :=
  match nth_error l (Z.to_nat (s - base)) with Some (_, h) => h | None => false end.

Lemma hasl_hd : forall sz h tl base, hasl ((sz, h) :: tl) base base = h.
Proof. intros. unfold hasl. now replace (Z.to_nat (base - base)) with O by lia. Qed.

Lemma hasl_tl : forall e tl base s, base < s -> hasl (e :: tl) base s = hasl tl (base + 1) s.
Proof.
  intros e tl base s H. unfold hasl.
  replace (Z.to_nat (s - base)) with (S (Z.to_nat (s - (base + 1)))) by lia. reflexivity.
Qed.

Lemma filter_hasl_tl : forall e tl base n,
  filter (hasl (e :: tl) base) (zrange (base + 1) n) = filter (hasl tl (base + 1)) (zrange (base + 1) n).
Proof.
  intros. apply filter_ext_in. intros x Hx. apply zrange_In in Hx. apply hasl_tl. lia.
Qed.

(** The receipt loop never counts a deliverable entry without appending it:
    the payload is exactly the deliverable part of the [it] entries it counted. *)
Lemma rcv_loop_spec : forall max n l seq total a it,
  rcv_loop max n l seq total = Some (a, it) ->
  exists m : nat, it = Z.of_nat m /\ a = filter (hasl l seq) (zrange seq m).
Proof.
  induction n as [|n IH]; intros l seq total a it H; cbn [rcv_loop] in H.
  - inversion H; subst. exists O. split; reflexivity.
  - destruct l as [|[size has] tl]; [discriminate|].
    destruct (has && (total + size <? max)) eqn:E1.
    + destruct (rcv_loop max n tl (seq + 1) (total + size)) as [[a' it']|] eqn:E; [|discriminate].
      inversion H; subst. destruct (IH _ _ _ _ _ E) as (m & -> & ->).
      exists (S m). split; [lia|]. cbn [zrange filter]. rewrite hasl_hd.
      apply andb_true_iff in E1 as [-> _]. f_equal. symmetry. apply filter_hasl_tl.
    + destruct (total + size >=? max) eqn:E2.
      * inversion H; subst. exists O. split; reflexivity.
      * assert (Hh : has = false).
        { destruct has; [|reflexivity]. cbn [andb] in E1.
          rewrite Z.geb_leb in E2. apply Z.leb_gt in E2. apply Z.ltb_ge in E1. lia. }
        subst has.
        destruct (rcv_loop max n tl (seq + 1) total) as [[a' it']|] eqn:E; [|discriminate].
        inversion H; subst. destruct (IH _ _ _ _ _ E) as (m & -> & ->).
        exists (S m). split; [lia|]. cbn [zrange filter]. rewrite hasl_hd.
        symmetry. apply filter_hasl_tl.
Qed.

(** A deliverable first entry of a batch that is smaller than the size limit
    is always taken. *)
Lemma rcv_loop_progress : forall max n size tl seq a it,
  size < max ->
  rcv_loop max (S n) ((size, true) :: tl) seq 0 = Some (a, it) ->
  1 <= it /\ exists a', a = seq :: a'.
Proof.
  intros max n size tl seq a it Hsz H. cbn [rcv_loop] in H.
  replace (0 + size <? max) with true in H by (symmetry; apply Z.ltb_lt; lia). cbn [andb] in H.
  destruct (rcv_loop max n tl (seq + 1) (0 + size)) as [[a' it']|] eqn:E; [|discriminate].
  inversion H; subst. destruct (rcv_loop_spec _ _ _ _ _ _ _ E) as (m & -> & _).
  split; [lia|now exists a'].
Qed.

(** The loop only fails when the sequence log ends before the requested count. *)
Lemma rcv_loop_some : forall max n l seq total,
  (n <= length l)%nat -> rcv_loop max n l seq total <> None.
Proof.
  induction n as [|n IH]; intros l seq total Hn; cbn [rcv_loop]; [discriminate|].
  destruct l as [|[size has] tl]; [cbn [length] in Hn; lia|]. cbn [length] in Hn.
  destruct (has && (total + size <? max)).
  - specialize (IH tl (seq + 1) (total + size)).
    destruct (rcv_loop max n tl (seq + 1) (total + size)) as [[a it]|]; [discriminate|].
    exfalso. apply IH; [lia|reflexivity].
  - destruct (total + size >=? max); [discriminate|].
    specialize (IH tl (seq + 1) total).
    destruct (rcv_loop max n tl (seq + 1) total) as [[a it]|]; [discriminate|].
    exfalso. apply IH; [lia|reflexivity].
Qed.

Lemma nth_error_skipn' : forall (A : Type) (n : nat) (l : list A) (m : nat),
  nth_error (skipn n l) m = nth_error l (n + m).
Proof.
  induction n as [|n IH]; intros l m; [reflexivity|].
  destruct l as [|x l]; [now destruct m|]. cbn [skipn Nat.add nth_error]. apply IH.
Qed.

Lemma hasl_matching : forall st start s, 0 <= start -> start <= s ->
  hasl (skipn (Z.to_nat start) st) start s = matching KRecv st s.
Proof.
  intros st start s H0 Hs. unfold hasl, matching, lookup.
  destruct (s <? 0) eqn:E; [lia|].
  rewrite nth_error_skipn'. replace (Z.to_nat start + Z.to_nat (s - start))%nat with (Z.to_nat s) by lia.
  reflexivity.
Qed.

(** What a successful getPushData returns, for every push type, store and
    size limit: exactly the deliverable numbers of [start .. upd], and
    upd >= start - 1. *)
Lemma gpd_spec : forall k st start cnt max seqs upd,
  gpd k st start cnt max = GData seqs upd ->
  start - 1 <= upd /\ seqs = rf (matching k st) (start - 1) upd.
Proof.
  intros k st start cnt max seqs upd H. unfold gpd in H.
  destruct k eqn:K.
  - (* KBlock *)
    destruct (Z.to_nat cnt) as [|n] eqn:En; [discriminate|].
    destruct (suffix st start) as [l|]; [|discriminate].
    destruct (blk_loop max (S n) l start 0) as [r|] eqn:E; [|discriminate].
    destruct r as [|x r]; [discriminate|]. remember (x :: r) as xs eqn:Exs. inversion H; subst seqs upd.
    apply blk_loop_spec in E. split; [lia|].
    change (matching KBlock st) with (fun _ : Z => true). rewrite rf_true.
    transitivity (zrange start (length xs)); [exact E|]. f_equal; lia.
  - (* KRecv *)
    destruct (Z.to_nat cnt) as [|n] eqn:En.
    { inversion H; subst. split; [lia|]. now rewrite rf_same. }
    unfold suffix in H. destruct (start <? 0) eqn:E0; [discriminate|].
    destruct (rcv_loop max (S n) (skipn (Z.to_nat start) st) start 0) as [[a it]|] eqn:E; [|discriminate].
    inversion H; subst.
    destruct (rcv_loop_spec _ _ _ _ _ _ _ E) as (m & -> & ->).
    split; [lia|]. unfold rf.
    replace (start - 1 + 1) with start by lia.
    replace (Z.to_nat (start + Z.of_nat m - 1 - (start - 1))) with m by lia.
    apply filter_ext_in. intros x Hx. apply zrange_In in Hx. apply hasl_matching; lia.
  - (* KRes *)
    destruct (Z.to_nat cnt) as [|n] eqn:En; [discriminate|].
    destruct (suffix st start) as [l|]; [|discriminate].
    destruct (res_loop (S n) l start) as [r|] eqn:E; [|discriminate].
    inversion H; subst seqs upd. apply res_loop_spec in E. split; [lia|].
    change (matching KRes st) with (fun _ : Z => true). rewrite rf_true.
    transitivity (zrange start (length r)); [exact E|]. f_equal; lia.
Qed.

(** The task never calls getPushData with a count below 1, so the index panic
    of getBlockSeqs / getTxResults on an empty batch cannot happen there. *)
Lemma gpd_no_panic : forall k st start cnt max, 1 <= cnt -> gpd k st start cnt max <> GPanic.
Proof.
  intros k st start cnt max Hc. unfold gpd.
  destruct (Z.to_nat cnt) as [|n] eqn:En; [lia|].
  destruct k.
  - destruct (suffix st start) as [l|]; [|discriminate].
    cbn [blk_loop]. destruct l as [|[size has] tl]; [discriminate|].
    replace (0 =? 0) with true by reflexivity. cbn [orb].
    destruct (blk_loop max n tl (start + 1) (0 + size)); cbn [option_map]; discriminate.
  - destruct (suffix st start) as [l|]; [|discriminate].
    destruct (rcv_loop max (S n) l start 0) as [[a it]|]; discriminate.
  - destruct (suffix st start) as [l|]; [|discriminate].
    destruct (res_loop (S n) l start); discriminate.
Qed.
