(** C32 — the size boundary after the repair of getTxReceipts / getEVMEvent
    (break on totalSize+size >= maxSize): concrete runs.  They show that the
    hypotheses of the theorems are satisfiable and what now happens on the
    inputs where the unrepaired loop lost a sequence number. *)
From Coq Require Import List ZArith Bool Lia Sorted.
From C33 Require Import C32.Model C32.Spec C32.ProofsGpd.
Import ListNotations.
Open Scope Z_scope.

(** Receipt push, size limit 10.  Sequence 2 has size 4, sequence 3 has size 6:
    4 + 6 = 10 is not < 10, so the batch ends in front of 3 (the old loop
    counted 3 without sending it: payload [2; 4], updateSeq 4); 3 then opens
    the next batch. *)
Definition gap_cfg : cfg := mkCfg KRecv 100 10 1.
Definition gap_store : store := [(1, true); (1, true); (4, true); (6, true); (1, true)].

Example gap_first_batch :
  step gap_cfg gap_store (init_state 1) (ESeq 4) =
  (mkSt 1 0 true true 0 1 true (Some ([2], 2)) [], [OPost [2] 2]).
Proof. vm_compute. reflexivity. Qed.

Example gap_closed :
  let s := run_events gap_cfg gap_store (init_state 1) [ESeq 4; EPostOk; ESeq 4; EPostOk] in
  acked s = [2; 3; 4] /\ rcd s = 4.
Proof. vm_compute. split; reflexivity. Qed.

(** The same boundary at the end of the log: the stored last push sequence
    stays on the last acknowledged number (the old loop stored 3 after
    delivering only [2]). *)
Definition gap_store2 : store := [(1, true); (1, true); (4, true); (6, true)].

Example gap2_closed :
  let s1 := run_events gap_cfg gap_store2 (init_state 1) [ESeq 3; EPostOk] in
  let s2 := run_events gap_cfg gap_store2 (init_state 1) [ESeq 3; EPostOk; ESeq 3; EPostOk] in
  acked s1 = [2] /\ rcd s1 = 2 /\ acked s2 = [2; 3] /\ rcd s2 = 3.
Proof. vm_compute. repeat split; reflexivity. Qed.

(** An entry that fills the limit on its own is not skipped any more; like a
    larger one it is not passed (liveness remark [oversize_stalls]). *)
Definition full_store : store := [(1, true); (1, true); (1, true); (10, true); (1, true)].

Example full_not_skipped :
  let s := run_events gap_cfg full_store (init_state 1) [ESeq 4; EPostOk; ESeq 4; ESeq 4] in
  acked s = [2] /\ rcd s = 2 /\ lp s = 2 /\ pend s = None.
Proof. vm_compute. repeat split; reflexivity. Qed.

(** A run with a failed post, three failures in a row, deactivation and
    re-registration acknowledges [2; 3; 5] (4 carries nothing). *)
Definition ok_store : store := [(1, true); (1, true); (4, true); (3, true); (0, false); (4, true)].

Example run_nontrivial :
  let s := run_events gap_cfg ok_store (init_state 1)
             [ESeq 3; EPostFail; ETick; ESeq 3; EPostOk; ESeq 5; EPostFail; ESeq 5; EPostFail; ESeq 5; EPostFail;
              ESeq 5; EResume; ESeq 5; EPostOk; EClose; ERestart; ESeq 5] in
  acked s = [2; 3; 5] /\ rcd s = 5 /\ run s = true /\ act s = true.
Proof. vm_compute. repeat split; reflexivity. Qed.

(** Hypotheses of the stall lemma and of the progress lemma are satisfiable. *)
Example stall_state :
  let s := init_state 1 in
  let st := [(1, true); (1, true); (10, true); (1, true)] in
  run s = true /\ pend s = None /\ sl s <= 0 /\ 0 < lp s /\
  lookup st (lp s + 1) = Some (10, true) /\ c_maxsize gap_cfg <= 10.
Proof. vm_compute. repeat split; try reflexivity; discriminate. Qed.

Example progress_state :
  let s := init_state 1 in
  let st := [(1, true); (1, true); (9, true); (1, true)] in
  c_kind gap_cfg = KRecv /\ 1 <= c_maxcnt gap_cfg /\
  run s = true /\ pend s = None /\ sl s <= 0 /\ 0 < lp s /\ lp s < 3 /\ 3 < Z.of_nat (length st) /\
  lookup st (lp s + 1) = Some (9, true) /\ 9 < c_maxsize gap_cfg.
Proof. vm_compute. repeat split; try reflexivity; discriminate. Qed.
