(** C32 — correspondence of multi-goroutine histories (CReg cases) with the
    transition system of ModelReg.v, and the spec oracle on what was observed.

    CReg ty maxsize store trace.   Goroutines are numbered in spawn order.
      stimuli   [6;r0;h;l;p]    first addSubscriber (LastSequence r0 > 0, hash right, newest l);
                                p = 1: the call is held in front of its record store
                [25;r0;h]       a second first registration of the same name runs completely
                [27]            the held first registration goes on
                [7;1]           addSubscriber again (check2ResumePush + setActive)
                [20;g;v]        goroutine g does its start-up: it read v as last push sequence
                [1;g;l]         a round of g starts, LoadBlockLastSequence = l
                [29;g]          the same, LoadBlockLastSequence fails
                [3;g;ok]        PostData of g answered
                [26;g]          g, held after "status := notRunning", goes on to delete(tasks)
                [32;g]          g has passed delete(tasks) and is held in front of its record store
                [23;g]          g goes on to store the status notActive
                [31]            Push.Close called
                [30;g]          g took closechan and returned
                [11;ret]        ret = 1: Push.Close returned
                [28;p]          Push.Close called again; p = 1: it panicked
                [14;e;s;n;a]    probe: entry exists, its status (2 running, 1 not, -1), stored last seq, stored status
      outputs   [2;g;upd;cok;seqs…]  [4;n]  [5;s]  [8]  [9;code]
      notes     [24;g]          g is held after "status := notRunning"
                [99;_]          the harness gave up *)
From Coq Require Import List ZArith NArith Bool.
From C33 Require Import Lib.Harness C32.Model C32.ModelReg C32.Spec.
Import ListNotations.
Open Scope Z_scope.

Definition zleq := list_eqb Z.eqb.

Fixpoint decode_store_r (l : list Z) : store :=
  match l with
  | sz :: h :: tl => (sz, negb (h =? 0)) :: decode_store_r tl
  | _ => []
  end.

Definition enc_yout (o : yout) : list Z :=
  match o with
  | YPost i seqs upd => 2 :: Z.of_nat i :: upd :: 1 :: seqs
  | YRec n => [4; n]
  | YStatus s => [5; s]
  | YStarted => [8]
  end.

Record rst := mkR {
  ry : option sys;
  rexp : list (list Z);
  rgood : bool }.

Definition rbad (r : rst) : rst := mkR (ry r) [] false.

Definition pc_tag (y : sys) (g : Z) : Z :=
  if g <? 0 then -1 else
  match nth_error (y_ts y) (Z.to_nat g) with
  | None => -1
  | Some t => match t_pc t with
              | PStart => 0 | PRead => 1 | PIdle => 2 | PPost _ _ => 3
              | PDeact1 => 4 | PDeact2 => 5 | PDead _ => 6
              end
  end.

Definition do1 (c : cfg) (st : store) (yo : sys * list (list Z)) (e : yev) : sys * list (list Z) :=
  let (y', os) := ystep code_fx c st (fst yo) e in (y', snd yo ++ map enc_yout os).

Definition do_evs (c : cfg) (st : store) (r : rst) (y : sys) (es : list yev) (extra : list (list Z)) : rst :=
  let (y', os) := fold_left (do1 c st) es (y, []) in
  mkR (Some y') (os ++ extra) (rgood r).

Definition b2zr (b : bool) : Z := if b then 1 else 0.

Definition rstim (c : cfg) (st : store) (r : rst) (e : list Z) : rst :=
  match rexp r with
  | _ :: _ => rbad r
  | [] =>
    match e, ry r with
    | [6; r0; hok; latest; p], None =>
        if (r0 >? 0) && (r0 <=? latest) && (hok =? 1)
        then mkR (Some (init_sys0 code_fx r0))
                 (if p =? 1 then [[4; r0]; [8]] else [[4; r0]; [8]; [5; 1]; [9; 0]]) (rgood r)
        else rbad r
    | [25; r0; hok], Some y =>
        if hok =? 1 then do_evs c st r y [VSetLast r0; VAddTask] [[9; 0]] else rbad r
    | [27], Some y => mkR (Some (set_act y true)) [[5; 1]; [9; 0]] (rgood r)
    | [7; 1], Some y => do_evs c st r y [VReg; VActive] [[9; 0]]
    | [20; g; v], Some y =>
        if (pc_tag y g =? 0) && (v =? y_rcd y)
        then do_evs c st r y [VRead (Z.to_nat g); VRun (Z.to_nat g)] [] else rbad r
    | [1; g; l], Some y =>
        if pc_tag y g =? 2 then do_evs c st r y [VSeq (Z.to_nat g) l] [] else rbad r
    | [29; g], Some y =>
        if pc_tag y g =? 2 then do_evs c st r y [VSeqErr (Z.to_nat g)] [] else rbad r
    | [3; g; okf], Some y =>
        if pc_tag y g =? 3
        then do_evs c st r y [if okf =? 1 then VPostOk (Z.to_nat g) else VPostFail (Z.to_nat g)] []
        else rbad r
    | [24; g], Some y => if pc_tag y g =? (if code_fx then 5 else 4) then r else rbad r
    | [26; g], Some y =>
        if pc_tag y g =? 4 then do_evs c st r y [VDel (Z.to_nat g)] []
        else if code_fx && (pc_tag y g =? 5) then r   (* repaired code: the entry is already gone at the log call *)
        else rbad r
    | [32; g], Some y =>
        if pc_tag y g =? 4 then do_evs c st r y [VDel (Z.to_nat g)] []
        else if pc_tag y g =? 5 then r
        else rbad r
    | [23; g], Some y =>
        if pc_tag y g =? 5 then do_evs c st r y [VDeact (Z.to_nat g)] [] else rbad r
    | [31], Some y => do_evs c st r y [VClose] []
    | [30; g], Some y =>
        let y' := fst (ystep code_fx c st y (VExit (Z.to_nat g))) in
        if (pc_tag y g =? 2) && (pc_tag y' g =? 6) then mkR (Some y') [] (rgood r) else rbad r
    | [11; ret], Some y =>
        if ret =? b2zr (all_done y) then r else rbad r
    | [28; p], Some y =>
        let y' := fst (ystep code_fx c st y VClose) in
        if p =? b2zr (y_panic y') then mkR (Some y') [] (rgood r) else rbad r
    | [14; ex; sts; lastseq; status], Some y =>
        let ok :=
          match y_entry y with
          | None => (ex =? 0) && (sts =? -1)
          | Some n => match nth_error (y_ns y) n with
                      | Some f => (ex =? 1) && (sts =? (if n_run f then 2 else 1))
                      | None => false
                      end
          end in
        if ok && (lastseq =? y_rcd y) && (status =? (if y_act y then 1 else 2)) then r else rbad r
    | _, _ => rbad r
    end
  end.

Definition is_out (e : list Z) : bool :=
  match e with
  | t :: _ => (t =? 2) || (t =? 4) || (t =? 5) || (t =? 8) || (t =? 9)
  | [] => false
  end.

Definition rmodel_step (c : cfg) (st : store) (r : rst) (e : list Z) : rst :=
  if negb (rgood r) then r
  else if is_out e then
    match rexp r with
    | x :: tl => if zleq x e then mkR (ry r) tl true else rbad r
    | [] => rbad r
    end
  else rstim c st r e.

Definition rmodel_agrees (c : cfg) (st : store) (trace : list (list Z)) : bool :=
  let r := fold_left (rmodel_step c st) trace (mkR None [] true) in
  rgood r && match rexp r with [] => true | _ => false end.

(** * Spec oracle on the observations alone *)
Record ost := mkO {
  o_r0 : Z;
  o_acked : list Z;
  o_pend : list (Z * (list Z * Z));  (* posts in flight: goroutine, payload, updateSeq *)
  o_lastrec : Z;                     (* newest stored last push sequence *)
  o_maxrec : Z;
  o_prev : Z;                        (* tag of the previous entry (31: ok answer, 6: registration) *)
  o_prevupd : Z;
  o_ok : bool;                       (* payload contents right, records only right after an ok answer, with its updateSeq *)
  o_back : bool;                     (* a stored sequence was smaller than the one before *)
  o_cause : Z;                       (* newest registration stimulus: 6, 7 or 25 *)
  o_pstart : Z;                      (* goroutines spawned and not yet through their start-up read *)
  o_shut : Z;                        (* goroutines held between status notRunning and delete(tasks) *)
  o_ovl : option nat                 (* first overlapping start: length of the acknowledged list then *)
}.

Fixpoint pend_get (l : list (Z * (list Z * Z))) (g : Z) : option (list Z * Z) :=
  match l with
  | [] => None
  | (h, v) :: tl => if h =? g then Some v else pend_get tl g
  end.
Definition pend_del (l : list (Z * (list Z * Z))) (g : Z) :=
  filter (fun p => negb (fst p =? g)) l.

Definition ospec_step (s : ost) (e : list Z) : ost :=
  match e with
  | [6; r0; hok; latest; p] =>
      mkO r0 (o_acked s) (o_pend s) (o_lastrec s) (o_maxrec s) 6 0 (o_ok s) (o_back s) 6 (o_pstart s) (o_shut s) (o_ovl s)
  | [25; r0; hok] =>
      mkO (o_r0 s) (o_acked s) (o_pend s) (o_lastrec s) (o_maxrec s) 6 0 (o_ok s) (o_back s) 25 (o_pstart s) (o_shut s) (o_ovl s)
  | [7; same] =>
      mkO (o_r0 s) (o_acked s) (o_pend s) (o_lastrec s) (o_maxrec s) 7 0 (o_ok s) (o_back s) 7 (o_pstart s) (o_shut s) (o_ovl s)
  | [8] =>
      (* with the repair only a second first registration may start a second goroutine *)
      let over := o_cause s =? 25 in
      let ovl := match o_ovl s with
                 | Some n => Some n
                 | None => if over then Some (length (o_acked s)) else None
                 end in
      mkO (o_r0 s) (o_acked s) (o_pend s) (o_lastrec s) (o_maxrec s) 8 0
          (o_ok s) (o_back s) (o_cause s) (o_pstart s + 1) (o_shut s) ovl
  | [20; g; v] =>
      mkO (o_r0 s) (o_acked s) (o_pend s) (o_lastrec s) (o_maxrec s) 20 0 (o_ok s) (o_back s) (o_cause s) (o_pstart s - 1) (o_shut s) (o_ovl s)
  | [24; g] =>
      mkO (o_r0 s) (o_acked s) (o_pend s) (o_lastrec s) (o_maxrec s) 24 0 (o_ok s) (o_back s) (o_cause s) (o_pstart s) (o_shut s + 1) (o_ovl s)
  | [26; g] =>
      mkO (o_r0 s) (o_acked s) (o_pend s) (o_lastrec s) (o_maxrec s) 26 0 (o_ok s) (o_back s) (o_cause s) (o_pstart s) (o_shut s - 1) (o_ovl s)
  | 2 :: g :: upd :: cok :: seqs =>
      mkO (o_r0 s) (o_acked s) ((g, (seqs, upd)) :: pend_del (o_pend s) g) (o_lastrec s) (o_maxrec s) 2 0
          (o_ok s && (cok =? 1)) (o_back s) (o_cause s) (o_pstart s) (o_shut s) (o_ovl s)
  | [3; g; okf] =>
      match pend_get (o_pend s) g with
      | Some (seqs, upd) =>
          if okf =? 1
          then mkO (o_r0 s) (o_acked s ++ seqs) (pend_del (o_pend s) g) (o_lastrec s) (o_maxrec s) 31 upd
                   (o_ok s) (o_back s) (o_cause s) (o_pstart s) (o_shut s) (o_ovl s)
          else mkO (o_r0 s) (o_acked s) (pend_del (o_pend s) g) (o_lastrec s) (o_maxrec s) 30 0
                   (o_ok s) (o_back s) (o_cause s) (o_pstart s) (o_shut s) (o_ovl s)
      | None =>
          mkO (o_r0 s) (o_acked s) (o_pend s) (o_lastrec s) (o_maxrec s) 30 0 false (o_back s) (o_cause s) (o_pstart s) (o_shut s) (o_ovl s)
      end
  | [4; n] =>
      if o_prev s =? 6
      then (* the resume point stored by a first registration *)
        mkO (o_r0 s) (o_acked s) (o_pend s) n (o_maxrec s) 6 0 (o_ok s && (n =? o_r0 s)) (o_back s)
            (o_cause s) (o_pstart s) (o_shut s) (o_ovl s)
      else
        let okr := (o_prev s =? 31) && (n =? o_prevupd s) in
        let back := n <? o_lastrec s in
        (* a backwards step before any overlapping start is never excused *)
        let okb := match o_ovl s with Some _ => true | None => negb back end in
        mkO (o_r0 s) (o_acked s) (o_pend s) n (Z.max n (o_maxrec s)) 4 0 (o_ok s && okr && okb) (o_back s || back)
            (o_cause s) (o_pstart s) (o_shut s) (o_ovl s)
  | t :: _ =>
      mkO (o_r0 s) (o_acked s) (o_pend s) (o_lastrec s) (o_maxrec s) t 0 (o_ok s) (o_back s) (o_cause s) (o_pstart s) (o_shut s) (o_ovl s)
  | [] => s
  end.

(** First difference between what was acknowledged and the gap-free list:
    0 none, 1 a sequence number came again or late (at position [i]), 2 a gap. *)
Fixpoint divergence (acked expected : list Z) (i : nat) : Z * nat :=
  match acked, expected with
  | [], [] => (0, i)
  | a :: at', e :: et => if a =? e then divergence at' et (S i) else if a <? e then (1, i) else (2, i)
  | _ :: _, [] => (1, i)
  | [], _ :: _ => (2, i)
  end.

Definition zmax_list (l : list Z) (d : Z) : Z := fold_left Z.max l d.

Definition check_reg (ty maxsize : Z) (stl : list Z) (trace : list (list Z)) : verdict :=
  let st := decode_store_r stl in
  let k := kind_of ty in
  let c := mkCfg k (maxcnt_of ty) pushMaxSize 1 in
  let m := (maxsize =? pushMaxSize) && rmodel_agrees c st trace in
  let s := fold_left ospec_step trace (mkO (-1) [] [] (-1) (-1) 0 0 true false 0 0 0 None) in
  let acked := o_acked s in
  let hi := Z.max (zmax_list acked (o_r0 s)) (o_maxrec s) in
  let expected := expected_acked k st (o_r0 s + 1) hi in
  let (dv, at_) := divergence acked expected O in
  if o_ok s && (dv =? 0) && negb (o_back s) then mk_verdict m true
  else
    let excused :=
      o_ok s && negb (dv =? 2) &&
      match o_ovl s with
      | Some n => (dv =? 0) || Nat.leb n at_
      | None => false
      end in
    (m, false, if excused then 2%N else 0%N).

(** * Free-running race cases
    CRace ty maxsize store r0 L rcd spawns complete codes posts
      one subscriber name on a Push where nothing is held: registered with
      resume point r0 and registered again twice at once (or deactivated by a
      dead endpoint and registered again twice); the log ends at L and does not
      grow during the race.  spawns = task goroutines that did a start-up read
      after the (re-)registrations, posts = what the endpoint received, in order
      of arrival: [g; updateSeq; sequence numbers…], all answered ok; rcd = the
      stored last push sequence at the end; complete = every goroutine reached L.
    With the repair exactly one goroutine starts whatever the scheduler does;
    its posts are the batches [process] makes from a start position >= r0 up to
    L, and nothing that goes wrong here is excused by a known finding. *)
Fixpoint posts_of (g : Z) (posts : list (list Z)) : list (Z * list Z) :=
  match posts with
  | [] => []
  | (h :: upd :: seqs) :: tl => if h =? g then (upd, seqs) :: posts_of g tl else posts_of g tl
  | _ :: tl => posts_of g tl
  end.

Fixpoint batches_ok (c : cfg) (st : store) (L lp : Z) (ps : list (Z * list Z)) : bool :=
  match ps with
  | [] => lp =? L
  | (upd, seqs) :: tl =>
      match gpd (c_kind c) st (lp + 1) (Z.min (c_maxcnt c) (L - lp)) (c_maxsize c) with
      | GData s u => negb (match s with [] => true | _ => false end) && zleq s seqs && (u =? upd) && batches_ok c st L upd tl
      | _ => false
      end
  end.

Definition task_ok (c : cfg) (st : store) (r0 L : Z) (ps : list (Z * list Z)) : bool :=
  match ps with
  | [] => true
  | (_, []) :: _ => false
  | (_, a :: _) :: _ => (r0 <=? a - 1) && batches_ok c st L (a - 1) ps
  end.

Fixpoint tasks_ok (c : cfg) (st : store) (r0 L : Z) (posts : list (list Z)) (n : nat) : bool :=
  match n with
  | O => true
  | S n' => task_ok c st r0 L (posts_of (Z.of_nat n') posts) && tasks_ok c st r0 L posts n'
  end.

Definition post_seqs (p : list Z) : list Z :=
  match p with _ :: _ :: seqs => seqs | _ => [] end.
Definition post_g (p : list Z) : Z := match p with g :: _ => g | [] => -1 end.

Definition check_race (ty maxsize : Z) (stl : list Z) (r0 L rcd spawns complete : Z)
           (codes : list Z) (posts : list (list Z)) : verdict :=
  let st := decode_store_r stl in
  let k := kind_of ty in
  let c := mkCfg k (maxcnt_of ty) pushMaxSize 1 in
  let acked := flat_map post_seqs posts in
  let m := (maxsize =? pushMaxSize) && (complete =? 1) && forallb (Z.eqb 0) codes &&
           (spawns =? 1) && (0 <? r0) && (r0 <=? L) &&
           forallb (fun p => (0 <=? post_g p) && (post_g p <? spawns)) posts &&
           tasks_ok c st r0 L posts (Z.to_nat spawns) &&
           (rcd =? (match acked with [] => r0 | _ => L end)) in
  let expected := expected_acked k st (r0 + 1) L in
  let (dv, _) := divergence acked expected O in
  if (dv =? 0) && (rcd =? L) then mk_verdict m true
  else (m, false, 0%N).
