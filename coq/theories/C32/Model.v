(** C32 — executable model of blockchain/push.go: [getPushData] and the
    per-subscriber task ([runTask], [addSubscriber]/[check2ResumePush], [init],
    [Close]), as coded.

    The sequence log is append-only (a reorganisation appends DelBlock /
    AddBlock entries), so it is a list of entries indexed by sequence number.
    For one push type an entry is what [getPushData] looks at:
      [(size, has)]  size = the number compared with the size limit
                       (PushBlock: the size returned by LoadBlockBySequence;
                        PushBlockHeader: header.Size();
                        PushTxReceipt / PushEVMEvent: types.Size of the per-block
                        message, 0 when nothing matches; PushTxResult: unused);
                     has  = the per-block message is non-empty (some transaction
                        of a subscribed contract; always true for block, header
                        and result pushes, where every sequence number is sent).

    The task is a state machine over the atomic steps of the goroutine and of
    the calls that touch its state:
      [ESeq l]    the select takes a message from seqUpdateChan and
                  LoadBlockLastSequence answers [l] (the message value itself is
                  never used by the code);
      [ETick]     the select takes a token from runChan;
      [EPostOk] / [EPostFail]   PostData returns nil / an error;
      [EResume]   addSubscriber for a name that is already stored
                  (check2ResumePush + setActive);
      [EClose]    the select takes closechan (after Push.Close);
      [ERestart]  a new Push is built over the same stores ([init]).
    Goroutine scheduling is the order of the events.  This file is ONE task
    goroutine whose start and end are atomic; several goroutines of one
    subscriber (addSubscriber racing with the start or the end of a task, a
    second concurrent first registration) are the transition system of
    ModelReg.v.  Not modelled: a process crash between PostData and
    setLastPushSeq. *)
From Coq Require Import List ZArith Bool.
Import ListNotations.
Open Scope Z_scope.

(** * Sequence store *)
Definition entry : Type := (Z * bool)%type.
Definition store : Type := list entry.

Definition suffix (st : store) (s : Z) : option store :=
  if s <? 0 then None else Some (skipn (Z.to_nat s) st).

Definition lookup (st : store) (s : Z) : option entry :=
  if s <? 0 then None else nth_error st (Z.to_nat s).

(** * Push types *)
Inductive kind := KBlock | KRecv | KRes.

(** PushType values: 0 block, 1 header, 2 tx receipt, 3 tx result, 4 EVM event. *)
Definition kind_of (ty : Z) : kind :=
  if (ty =? 2) || (ty =? 4) then KRecv else if ty =? 3 then KRes else KBlock.
Definition pushBlockMaxSeq : Z := 10.
Definition pushTxReceiptMaxSeq : Z := 100.
Definition pushMaxSize : Z := 1048576.
Definition maxcnt_of (ty : Z) : Z :=
  if ty =? 2 then pushTxReceiptMaxSeq else pushBlockMaxSeq.

(** Does sequence number [s] carry something for this push type? *)
Definition matching (k : kind) (st : store) (s : Z) : bool :=
  match k with
  | KRecv => match lookup st s with Some (_, h) => h | None => false end
  | _ => true
  end.

(** * getPushData *)
Inductive gres :=
| GErr                            (* (nil, -1, err) *)
| GPanic                          (* index out of range: seqs.Seqs[0] / Items[0] on an empty list *)
| GData (seqs : list Z) (upd : Z) (* seqs = [] : data == nil *).

(** getBlockSeqs / getHeaderSeqs:
      if totalSize == 0 || totalSize+size < maxSize { append } else { break } *)
Fixpoint blk_loop (max : Z) (n : nat) (l : store) (seq total : Z) : option (list Z) :=
  match n with
  | O => Some []
  | S n' =>
      match l with
      | [] => None
      | (size, _) :: tl =>
          if (total =? 0) || (total + size <? max)
          then option_map (cons seq) (blk_loop max n' tl (seq + 1) (total + size))
          else Some []
      end
  end.

(** getTxReceipts / getEVMEvent:
      if len(perBlk) > 0 && totalSize+size < maxSize { append; totalSize += size }
      else if totalSize+size >= maxSize { break }
      actualIterCount++
    Result: appended sequence numbers and actualIterCount. *)
Fixpoint rcv_loop (max : Z) (n : nat) (l : store) (seq total : Z) : option (list Z * Z) :=
  match n with
  | O => Some ([], 0)
  | S n' =>
      match l with
      | [] => None
      | (size, has) :: tl =>
          if has && (total + size <? max)
          then match rcv_loop max n' tl (seq + 1) (total + size) with
               | Some (a, it) => Some (seq :: a, it + 1)
               | None => None
               end
          else if total + size >=? max then Some ([], 0)
          else match rcv_loop max n' tl (seq + 1) total with
               | Some (a, it) => Some (a, it + 1)
               | None => None
               end
      end
  end.

(** getTxResults: no size limit. *)
Fixpoint res_loop (n : nat) (l : store) (seq : Z) : option (list Z) :=
  match n with
  | O => Some []
  | S n' =>
      match l with
      | [] => None
      | _ :: tl => option_map (cons seq) (res_loop n' tl (seq + 1))
      end
  end.

Definition gpd (k : kind) (st : store) (start count max : Z) : gres :=
  let n := Z.to_nat count in
  match k with
  | KBlock =>
      match n with
      | O => GPanic
      | _ =>
        match suffix st start with
        | None => GErr
        | Some l =>
            match blk_loop max n l start 0 with
            | None => GErr
            | Some [] => GPanic
            | Some seqs => GData seqs (start + Z.of_nat (length seqs) - 1)
            end
        end
      end
  | KRecv =>
      match n with
      | O => GData [] (start - 1)
      | _ =>
        match suffix st start with
        | None => GErr
        | Some l =>
            match rcv_loop max n l start 0 with
            | None => GErr
            | Some (seqs, it) => GData seqs (start + it - 1)
            end
        end
      end
  | KRes =>
      match n with
      | O => GPanic
      | _ =>
        match suffix st start with
        | None => GErr
        | Some l =>
            match res_loop n l start with
            | None => GErr
            | Some seqs => GData seqs (start + Z.of_nat (length seqs) - 1)
            end
        end
      end
  end.

(** * The subscriber task *)
Record cfg := mkCfg {
  c_kind : kind;
  c_maxcnt : Z;     (* pushBlockMaxSeq / pushTxReceiptMaxSeq *)
  c_maxsize : Z;    (* pushMaxSize *)
  c_f2s : Z         (* Push.postFail2Sleep *)
}.

Record state := mkSt {
  lp : Z;             (* lastProcessedseq of the running goroutine *)
  fc : Z;             (* continueFailCount *)
  run : bool;         (* a task goroutine is alive *)
  intask : bool;      (* push.tasks has an entry (its status is "running") *)
  sl : Z;             (* pushNotify.postFail2Sleep *)
  rcd : Z;            (* stored last push sequence, -1 when absent *)
  act : bool;         (* stored subscription status is active *)
  pend : option (list Z * Z);  (* PostData in flight: payload sequence numbers, updateSeq *)
  acked : list Z      (* ghost: sequence numbers of all payloads answered ok, in order *)
}.

Inductive event :=
| ESeq (latest : Z) | ETick | EPostOk | EPostFail | EResume | EClose | ERestart.

Inductive out :=
| OPost (seqs : list Z) (upd : Z)
| ORec (n : Z)            (* setLastPushSeq *)
| OStatus (s : Z)         (* stored status written: 1 active, 2 not active *)
| OStarted.               (* runTask: updateLastSeq + new goroutine *)

Definition set_lp (s : state) (v : Z) : state :=
  mkSt v (fc s) (run s) (intask s) (sl s) (rcd s) (act s) (pend s) (acked s).
Definition set_sl (s : state) (v : Z) : state :=
  mkSt (lp s) (fc s) (run s) (intask s) v (rcd s) (act s) (pend s) (acked s).

(** State right after a successful first registration: [r0] is the stored last
    sequence (LastSequence of the request when its hash matched, else -1). *)
Definition init_state (r0 : Z) : state :=
  mkSt r0 0 true true 0 r0 true None [].

(** The body of the seqUpdateChan case after the sleep test. *)
Definition process (c : cfg) (st : store) (s : state) (latest : Z) : state * list out :=
  if lp s >=? latest then (s, [])
  else if lp s <=? 0 then (set_lp s latest, [])
  else
    let cnt := Z.min (c_maxcnt c) (latest - lp s) in
    match gpd (c_kind c) st (lp s + 1) cnt (c_maxsize c) with
    | GErr => (s, [])
    | GPanic => (s, [])   (* unreachable: cnt >= 1 *)
    | GData [] upd =>
        (mkSt upd 0 (run s) (intask s) (sl s) (rcd s) (act s) None (acked s), [])
    | GData seqs upd =>
        (mkSt (lp s) (fc s) (run s) (intask s) (sl s) (rcd s) (act s) (Some (seqs, upd)) (acked s),
         [OPost seqs upd])
    end.

Definition new_task (s : state) : state :=
  mkSt (rcd s) 0 true true 0 (rcd s) (act s) None (acked s).

Definition step (c : cfg) (st : store) (s : state) (e : event) : state * list out :=
  match e with
  | ESeq latest =>
      if negb (run s) then (s, []) else
      match pend s with
      | Some _ => (s, [])
      | None =>
          if sl s >? 0 then
            let s' := set_sl s (sl s - 1) in
            if sl s' >? 0 then (s', []) else process c st s' latest
          else process c st s latest
      end
  | ETick =>
      if negb (run s) then (s, []) else
      match pend s with
      | Some _ => (s, [])
      | None => if sl s >? 0 then (set_sl s (sl s - 1), []) else (s, [])
      end
  | EPostOk =>
      match pend s with
      | None => (s, [])
      | Some (seqs, upd) =>
          (mkSt upd 0 (run s) (intask s) (sl s) upd (act s) None (acked s ++ seqs), [ORec upd])
      end
  | EPostFail =>
      match pend s with
      | None => (s, [])
      | Some _ =>
          if fc s + 1 >=? 3
          then (mkSt (lp s) (fc s + 1) false false (sl s) (rcd s) false None (acked s), [OStatus 2])
          else (mkSt (lp s) (fc s + 1) (run s) (intask s) (c_f2s c) (rcd s) (act s) None (acked s), [])
      end
  | EResume =>
      let (s1, o1) :=
        if intask s then (set_sl s 0, []) else (new_task s, [OStarted]) in
      if act s1 then (s1, o1)
      else (mkSt (lp s1) (fc s1) (run s1) (intask s1) (sl s1) (rcd s1) true (pend s1) (acked s1),
            o1 ++ [OStatus 1])
  | EClose =>
      match pend s with
      | Some _ => (s, [])
      | None => (mkSt (lp s) (fc s) false (intask s) (sl s) (rcd s) (act s) None (acked s), [])
      end
  | ERestart =>
      if run s then (s, []) else
      match pend s with
      | Some _ => (s, [])
      | None =>
          if act s then (new_task s, [OStarted])
          else (mkSt (lp s) (fc s) false false 0 (rcd s) (act s) None (acked s), [])
      end
  end.

Fixpoint run_events (c : cfg) (st : store) (s : state) (es : list event) : state :=
  match es with
  | [] => s
  | e :: tl => run_events c st (fst (step c st s e)) tl
  end.
