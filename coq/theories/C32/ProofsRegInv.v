(** C32 — the invariant of the registration / start-up transition system under
    the guard (ModelReg.gev): one goroutine refers to the push.tasks entry, and the
    acknowledged list is gap-free. *)
From Coq Require Import List ZArith Bool Lia.
From C33 Require Import C32.Model C32.Spec C32.ProofsGpd C32.ModelReg C32.ProofsRegL.
Import ListNotations.
Open Scope Z_scope.

Section RegInv.
  Variable fx : bool.
  Variable c : cfg.
  Variable st : store.
  Variable r0 : Z.

  Let M := matching (c_kind c) st.

  (** What a goroutine knows, relative to the stored sequence [rcd]. *)
  Definition kt (rcd : Z) (t : task) : Prop :=
    match t_pc t with
    | PRead | PIdle => 0 < rcd -> rcd <= t_lp t /\ rf M rcd (t_lp t) = []
    | PPost seqs upd =>
        (0 < rcd -> rcd <= t_lp t /\ rf M rcd (t_lp t) = []) /\
        0 < t_lp t /\ t_lp t <= upd /\ seqs <> [] /\ seqs = rf M (t_lp t) upd
    | _ => True
    end.

  Record rinv (y : sys) : Prop := mkRinv {
    v_cnt : (cnt owner (y_ts y) <= 1)%nat;
    v_own : forall i t, nth_error (y_ts y) i = Some t -> owner t = true -> y_entry y = Some (t_n t);
    v_nrun : forall n f, y_entry y = Some n -> nth_error (y_ns y) n = Some f -> n_run f = false ->
             fx = false /\ exists i t, nth_error (y_ts y) i = Some t /\ t_n t = n /\ in_window t = true;
    v_nil : y_acked y = [] -> y_rcd y = r0;
    v_acked : y_acked y <> [] ->
              0 < y_rcd y /\ exists r, (0 < r0 -> r = r0) /\ r <= y_rcd y /\ y_acked y = rf M r (y_rcd y);
    v_task : forall i t, nth_error (y_ts y) i = Some t -> kt (y_rcd y) t
  }.

  Lemma rinv_init0 : rinv (init_sys0 fx r0).
  Proof.
    constructor; cbn [init_sys0 y_ts y_entry y_ns y_rcd y_acked].
    - cbn. lia.
    - intros [|[|i]] t H Ho; cbn [nth_error] in H; try discriminate. inversion H; subst. reflexivity.
    - intros n f He Hn Hr. inversion He; subst n. cbn [nth_error] in Hn. inversion Hn; subst f.
      cbn [n_run] in Hr. split; [assumption|]. exists O, (mkT O PStart 0 0). repeat split.
    - reflexivity.
    - congruence.
    - intros [|[|i]] t H; cbn [nth_error] in H; try discriminate. inversion H; subst. exact I.
  Qed.

  Lemma rinv_init : fx = false -> rinv (init_sys r0).
  Proof.
    intros Hfx. constructor; cbn [init_sys y_ts y_entry y_ns y_rcd y_acked].
    - cbn. lia.
    - intros [|[|i]] t H Ho; cbn [nth_error] in H; try discriminate. inversion H; subst. reflexivity.
    - intros n f He Hn Hr. inversion He; subst n. cbn [nth_error] in Hn. inversion Hn; subst f. discriminate.
    - reflexivity.
    - congruence.
    - intros [|[|i]] t H; cbn [nth_error] in H; try discriminate. inversion H; subst.
      unfold kt. cbn [t_pc t_lp]. intros _. split; [lia|apply rf_same].
  Qed.

  (** One goroutine [i] changes (and maybe pushNotify fields), nothing stored. *)
  Lemma rinv_upd_task : forall y y' i t t',
    rinv y ->
    nth_error (y_ts y) i = Some t ->
    y_ts y' = upd_nth (y_ts y) i t' ->
    y_entry y' = y_entry y -> y_rcd y' = y_rcd y -> y_acked y' = y_acked y ->
    (forall n f', nth_error (y_ns y') n = Some f' -> n_run f' = false ->
                  exists f, nth_error (y_ns y) n = Some f /\ n_run f = false) ->
    t_n t' = t_n t ->
    (owner t' = true -> owner t = true) ->
    (in_window t = true -> in_window t' = false ->
       forall f', nth_error (y_ns y') (t_n t) = Some f' -> n_run f' = true) ->
    kt (y_rcd y) t' ->
    rinv y'.
  Proof.
    intros y y' i t t' [H1 H2 H3 H4 H5 H6] Hi Hts He Hr Ha Hns Hn Ho Hw Hk.
    constructor; rewrite ?Hts, ?He, ?Hr, ?Ha.
    - pose proof (cnt_upd _ owner _ _ _ t' Hi) as E. unfold b2n in E.
      destruct (owner t') eqn:E1; [rewrite (Ho eq_refl) in E|destruct (owner t)]; lia.
    - intros j tj Hj Hoj. apply nth_upd_inv in Hj as [(-> & -> & _)|(Hne & Hj)].
      + rewrite Hn. apply (H2 i t Hi). apply Ho. exact Hoj.
      + apply (H2 j tj Hj Hoj).
    - intros n f' Hen Hf' Hrun.
      destruct (Hns n f' Hf' Hrun) as (f & Hf & Hfr).
      destruct (H3 n f Hen Hf Hfr) as (Hfx & j & tj & Hj & Hjn & Hjw).
      split; [exact Hfx|].
      destruct (Nat.eq_dec j i) as [->|Hne].
      + rewrite Hi in Hj. inversion Hj; subst tj.
        destruct (in_window t') eqn:Ew.
        * exists i, t'. split; [eapply nth_upd_same; eassumption|]. split; [congruence|exact Ew].
        * rewrite Hjn in Hw. specialize (Hw Hjw eq_refl f' Hf'). congruence.
      + exists j, tj. split; [rewrite nth_upd_other by congruence; exact Hj|]. split; assumption.
    - exact H4.
    - exact H5.
    - intros j tj Hj. apply nth_upd_inv in Hj as [(-> & -> & _)|(Hne & Hj)]; [exact Hk|apply (H6 j tj Hj)].
  Qed.

  (** Only pushNotify fields other than the status change (or the status becomes running). *)
  Lemma rinv_same_tasks : forall y y',
    rinv y ->
    y_ts y' = y_ts y -> y_entry y' = y_entry y -> y_rcd y' = y_rcd y -> y_acked y' = y_acked y ->
    (forall n f', nth_error (y_ns y') n = Some f' -> n_run f' = false ->
                  exists f, nth_error (y_ns y) n = Some f /\ n_run f = false) ->
    rinv y'.
  Proof.
    intros y y' [H1 H2 H3 H4 H5 H6] Hts He Hr Ha Hns.
    constructor; rewrite ?Hts, ?He, ?Hr, ?Ha; try assumption.
    intros n f' Hen Hf' Hrun. destruct (Hns n f' Hf' Hrun) as (f & Hf & Hfr). apply (H3 n f Hen Hf Hfr).
  Qed.

  (** pushNotify updates that keep every status. *)
  Lemma ns_keep_upd : forall (ns : list notif) n f g,
    nth_error ns n = Some f -> n_run g = n_run f ->
    forall m f', nth_error (upd_nth ns n g) m = Some f' -> n_run f' = false ->
                 exists f0, nth_error ns m = Some f0 /\ n_run f0 = false.
  Proof.
    intros ns n f g Hn Hg m f' Hm Hr. apply nth_upd_inv in Hm as [(-> & -> & _)|(Hne & Hm)].
    - exists f. split; [assumption|congruence].
    - exists f'. split; assumption.
  Qed.

  Lemma ns_keep_sl : forall y n v m f',
    nth_error (y_ns (set_sl_of y n v)) m = Some f' -> n_run f' = false ->
    exists f0, nth_error (y_ns y) m = Some f0 /\ n_run f0 = false.
  Proof.
    intros y n v m f'. unfold set_sl_of.
    destruct (nth_error (y_ns y) n) as [f|] eqn:E.
    - cbn [set_notif set_ns y_ns]. apply (ns_keep_upd _ _ f); [exact E|reflexivity].
    - intros H Hr. exists f'. split; assumption.
  Qed.

  Lemma ns_id : forall (y : sys) m f',
    nth_error (y_ns y) m = Some f' -> n_run f' = false ->
    exists f0, nth_error (y_ns y) m = Some f0 /\ n_run f0 = false.
  Proof. intros y m f' H Hr. exists f'. split; assumption. Qed.

  Lemma set_sl_fields : forall y n v,
    y_ts (set_sl_of y n v) = y_ts y /\ y_entry (set_sl_of y n v) = y_entry y /\
    y_rcd (set_sl_of y n v) = y_rcd y /\ y_acked (set_sl_of y n v) = y_acked y.
  Proof. intros y n v. unfold set_sl_of. destruct (nth_error (y_ns y) n); repeat split. Qed.

  Lemma rinv_set_sl : forall y n v, rinv y -> rinv (set_sl_of y n v).
  Proof.
    intros y n v I. destruct (set_sl_fields y n v) as (E1 & E2 & E3 & E4).
    apply (rinv_same_tasks y); try assumption. apply ns_keep_sl.
  Qed.

  Lemma nth_set_sl_ts : forall y n v i, nth_error (y_ts (set_sl_of y n v)) i = nth_error (y_ts y) i.
  Proof. intros. destruct (set_sl_fields y n v) as (E1 & _). rewrite E1. reflexivity. Qed.

  (** No goroutine refers to the entry: a fresh pushNotify and its goroutine. *)
  Lemma rinv_fresh : forall y e,
    rinv y -> cnt owner (y_ts y) = 0%nat -> rinv (fresh_task fx (set_entry y e)).
  Proof.
    intros y e [H1 H2 H3 H4 H5 H6] H0.
    assert (Hts : y_ts (fresh_task fx (set_entry y e)) = y_ts y ++ [mkT (length (y_ns y)) PStart 0 0]).
    { unfold fresh_task, spawn. cbn [set_entry set_ns y_ns y_ts].
      destruct fx; [unfold set_run_of; cbn [y_ns]; destruct (nth_error _ _)|]; reflexivity. }
    assert (Hen : y_entry (fresh_task fx (set_entry y e)) = Some (length (y_ns y))).
    { unfold fresh_task, spawn. cbn [set_entry set_ns y_ns y_ts].
      destruct fx; [unfold set_run_of; cbn [y_ns]; destruct (nth_error _ _)|]; reflexivity. }
    assert (Hrc : y_rcd (fresh_task fx (set_entry y e)) = y_rcd y /\ y_acked (fresh_task fx (set_entry y e)) = y_acked y).
    { unfold fresh_task, spawn. cbn [set_entry set_ns y_ns y_ts].
      destruct fx; [unfold set_run_of; cbn [y_ns]; destruct (nth_error _ _)|]; split; reflexivity. }
    destruct Hrc as [Hrc Hak].
    assert (Hns : y_ns (fresh_task fx (set_entry y e)) =
                  if fx then upd_nth (y_ns y ++ [mkN false 0 false]) (length (y_ns y)) (mkN true 0 false)
                  else y_ns y ++ [mkN false 0 false]).
    { unfold fresh_task, spawn. cbn [set_entry set_ns y_ns y_ts]. destruct fx; [|reflexivity].
      unfold set_run_of. cbn [set_entry set_ns y_ns]. rewrite nth_snoc_new. reflexivity. }
    constructor; rewrite ?Hts, ?Hen, ?Hrc, ?Hak; try assumption.
    - rewrite cnt_app, H0. cbn. lia.
    - intros j tj Hj Ho. apply nth_snoc_inv in Hj as [(-> & ->)|(_ & Hj)]; [reflexivity|].
      rewrite (cnt_zero_nth _ owner _ _ _ H0 Hj) in Ho. discriminate.
    - intros n f Hn Hf Hr. inversion Hn; subst n. split.
      + rewrite Hns in Hf. destruct fx; [|reflexivity]. exfalso.
        rewrite (nth_upd_same _ _ _ _ _ (nth_snoc_new _ (y_ns y) _)) in Hf. inversion Hf; subst f. discriminate.
      + exists (length (y_ts y)), (mkT (length (y_ns y)) PStart 0 0).
        split; [apply nth_snoc_new|]. split; reflexivity.
    - intros j tj Hj. apply nth_snoc_inv in Hj as [(-> & ->)|(_ & Hj)]; [exact I|apply (H6 j tj Hj)].
  Qed.

  Lemma set_entry_same : forall y, set_entry y (y_entry y) = y.
  Proof. intros []. reflexivity. Qed.

  Lemma no_owner_cnt : forall y, rinv y -> y_entry y = None -> cnt owner (y_ts y) = 0%nat.
  Proof.
    intros y I He. apply cnt_none. intros i t Hi. destruct (owner t) eqn:Eo; [|reflexivity].
    rewrite (v_own y I i t Hi Eo) in He. discriminate.
  Qed.

  (** The one goroutine that refers to the entry leaves it (and the entry goes). *)
  Lemma rinv_leave : forall y y' i t t',
    rinv y ->
    nth_error (y_ts y) i = Some t -> owner t = true -> owner t' = false ->
    y_ts y' = upd_nth (y_ts y) i t' -> y_entry y' = None ->
    y_rcd y' = y_rcd y -> y_acked y' = y_acked y ->
    kt (y_rcd y) t' ->
    rinv y'.
  Proof.
    intros y y' i t t' [H1 H2 H3 H4 H5 H6] Hi Ho Ho' Hts He Hr Ha Hk.
    assert (Hno : forall j tj, nth_error (upd_nth (y_ts y) i t') j = Some tj -> owner tj = false).
    { intros j tj Hj. apply nth_upd_inv in Hj as [(-> & -> & _)|(Hne & Hj)]; [exact Ho'|].
      destruct (owner tj) eqn:E; [|reflexivity].
      exfalso. apply Hne. symmetry. eapply (cnt_unique _ owner); eassumption. }
    constructor; rewrite ?Hts, ?He, ?Hr, ?Ha; try assumption.
    - rewrite (cnt_none _ owner _ Hno). lia.
    - intros j tj Hj Hoj. rewrite (Hno j tj Hj) in Hoj. discriminate.
    - intros n f Hn. discriminate.
    - intros j tj Hj. apply nth_upd_inv in Hj as [(-> & -> & _)|(Hne & Hj)]; [exact Hk|apply (H6 j tj Hj)].
  Qed.
End RegInv.
