(** C32 — property theorems only. *)
From Coq Require Import List ZArith Bool Sorted.
From C33 Require Import C32.Model C32.Spec C32.ProofsGpd C32.ProofsInv C32.ProofsMono C32.ProofsExamples.
From C33 Require Import C32.ModelReg C32.SpecReg C32.ProofsRegMain C32.ProofsRegRec C32.ProofsRegExamples.
Import ListNotations.
Open Scope Z_scope.

(** ONE task goroutine whose start is atomic (Model.v): full strength, every
    push type, store and size limit: for every event sequence the acknowledged
    list is exactly the deliverable sequence numbers after the resume point, in
    increasing order.  For several goroutines of one name and the start-up /
    shutdown steps see the C32_reg_… theorems below: there the same statement
    needs the guard "no second concurrent first registration". *)
Theorem C32_acked_contiguous_increasing : forall c st r0 es,
  let s := run_events c st (init_state r0) es in
  exists r, (0 < r0 -> r = r0) /\
            contiguous_from (c_kind c) st r (acked s) /\
            StronglySorted Z.lt (acked s).
Proof. exact acked_contiguous. Qed.
Print Assumptions C32_acked_contiguous_increasing.

(** The same, as the named full-strength statement of Spec.v. *)
Theorem C32_acked_contiguous_increasing_holds : C32_acked_contiguous_increasing_full.
Proof. exact acked_contiguous. Qed.
Print Assumptions C32_acked_contiguous_increasing_holds.

(** Full strength: the stored last push sequence is the registration value or
    is covered by acknowledgements. *)
Theorem C32_recorded_le_acked : forall c st r0 es,
  let s := run_events c st (init_state r0) es in
  recorded_justified (c_kind c) st r0 (rcd s) (acked s).
Proof. exact recorded_after_ack. Qed.
Print Assumptions C32_recorded_le_acked.

Theorem C32_recorded_le_acked_holds : C32_recorded_le_acked_full.
Proof. exact recorded_after_ack. Qed.
Print Assumptions C32_recorded_le_acked_holds.

(** Block, header and result pushes: consecutive integers from the resume
    point, and the stored sequence is the last acknowledged one. *)
Theorem C32_block_kinds_consecutive : forall c st r0 es,
  c_kind c <> KRecv ->
  let s := run_events c st (init_state r0) es in
  exists r n, (0 < r0 -> r = r0) /\ acked s = zrange (r + 1) n /\
              (rcd s = r0 \/ (acked s <> [] /\ rcd s = last (acked s) 0)).
Proof. exact block_kinds_consecutive. Qed.
Print Assumptions C32_block_kinds_consecutive.

(** getPushData: the payload is exactly the deliverable part of start .. updateSeq. *)
Theorem C32_getPushData_exact : forall k st start cnt max seqs upd,
  gpd k st start cnt max = GData seqs upd ->
  start - 1 <= upd /\ seqs = rf (matching k st) (start - 1) upd.
Proof. exact gpd_spec. Qed.
Print Assumptions C32_getPushData_exact.

Theorem C32_getPushData_no_panic : forall k st start cnt max,
  1 <= cnt -> gpd k st start cnt max <> GPanic.
Proof. exact gpd_no_panic. Qed.
Print Assumptions C32_getPushData_no_panic.

(** Liveness remark: a block whose message is not smaller than the size limit is
    never passed by a receipt-type subscriber. *)
Theorem C32_oversize_block_stalls : forall c st s latest size has,
  c_kind c = KRecv -> 1 <= c_maxcnt c ->
  run s = true -> pend s = None -> sl s <= 0 -> 0 < lp s ->
  lookup st (lp s + 1) = Some (size, has) -> c_maxsize c <= size ->
  let r := step c st s (ESeq latest) in
  lp (fst r) = lp s /\ rcd (fst r) = rcd s /\ acked (fst r) = acked s /\
  pend (fst r) = None /\ run (fst r) = true /\ snd r = [].
Proof. exact oversize_stalls. Qed.
Print Assumptions C32_oversize_block_stalls.

(** The stored last push sequence never moves backwards. *)
Theorem C32_recorded_monotone : forall c st r0 es1 es2,
  rcd (run_events c st (init_state r0) es1) <= rcd (run_events c st (init_state r0) (es1 ++ es2)).
Proof. exact rcd_mono. Qed.
Print Assumptions C32_recorded_monotone.

(** The repaired receipt loop: what it counts it delivers, and a deliverable
    first entry below the size limit is always taken. *)
Theorem C32_fix_no_skip : forall max n l seq total a it,
  rcv_loop max n l seq total = Some (a, it) ->
  exists m : nat, it = Z.of_nat m /\ a = filter (hasl l seq) (zrange seq m).
Proof. exact rcv_loop_spec. Qed.
Print Assumptions C32_fix_no_skip.

Theorem C32_fix_progress : forall max n size tl seq a it,
  size < max ->
  rcv_loop max (S n) ((size, true) :: tl) seq 0 = Some (a, it) ->
  1 <= it /\ exists a', a = seq :: a'.
Proof. exact rcv_loop_progress. Qed.
Print Assumptions C32_fix_progress.

(** Task-level progress: a deliverable next block below the size limit is
    posted by the next round. *)
Theorem C32_deliverable_block_posted : forall c st s latest size,
  c_kind c = KRecv -> 1 <= c_maxcnt c ->
  run s = true -> pend s = None -> sl s <= 0 -> 0 < lp s ->
  lp s < latest -> latest < Z.of_nat (length st) ->
  lookup st (lp s + 1) = Some (size, true) -> size < c_maxsize c ->
  let r := step c st s (ESeq latest) in
  exists seqs upd,
    snd r = [OPost (lp s + 1 :: seqs) upd] /\
    pend (fst r) = Some (lp s + 1 :: seqs, upd) /\ lp s + 1 <= upd /\
    lp (fst r) = lp s /\ rcd (fst r) = rcd s /\ acked (fst r) = acked s.
Proof. exact deliverable_posted. Qed.
Print Assumptions C32_deliverable_block_posted.

(** * Registration and task start-up / shutdown as a transition system over
    several goroutines of one subscriber name (ModelReg.v), the code in /repo
    (with the repair of the start-up and shutdown windows, [fx = true]). *)

(** "One task per subscriber" is still false in one shape: a second first
    registration of the same name that passed hasSubscriberExist before the
    first one stored the record replaces the task entry (addTask) and starts a
    second goroutine. *)
Theorem C32_single_task_per_subscriber_refuted : ~ C32_single_task_per_subscriber_full.
Proof. exact single_task_refuted. Qed.
Print Assumptions C32_single_task_per_subscriber_refuted.

(** Guard (boolean): the event sequence has no step of a second concurrent
    first registration (VSetLast, VAddTask).  Then at most one goroutine can
    post, for every interleaving of re-registrations, start-up, rounds,
    answers, shutdown, close and restart steps. *)
Theorem C32_single_task_per_subscriber_partial : forall c st r0 es,
  forallb fixed_guard es = true ->
  (live_tasks (yrun true c st (init_sys0 true r0) es) <= 1)%nat.
Proof.
  intros c st r0 es G. rewrite <- (guard_fixed_is c st es (init_sys0 true r0)) in G.
  exact (reg_single_task true c st r0 es G).
Qed.
Print Assumptions C32_single_task_per_subscriber_partial.

(** Delivery on the transition system: with a second first registration the
    acknowledged list has duplicates and is out of order ... *)
Theorem C32_reg_acked_contiguous_increasing_refuted : ~ C32_reg_acked_contiguous_increasing_full.
Proof. exact reg_acked_refuted. Qed.
Print Assumptions C32_reg_acked_contiguous_increasing_refuted.

(** ... without one it is gap-free and increasing. *)
Theorem C32_reg_acked_contiguous_increasing_partial : forall c st r0 es,
  forallb fixed_guard es = true ->
  let y := yrun true c st (init_sys0 true r0) es in
  exists r, (0 < r0 -> r = r0) /\
            contiguous_from (c_kind c) st r (y_acked y) /\
            StronglySorted Z.lt (y_acked y).
Proof.
  intros c st r0 es G. rewrite <- (guard_fixed_is c st es (init_sys0 true r0)) in G.
  exact (reg_acked_contiguous true c st r0 es G).
Qed.
Print Assumptions C32_reg_acked_contiguous_increasing_partial.

Theorem C32_reg_recorded_le_acked_partial : forall c st r0 es,
  forallb fixed_guard es = true ->
  let y := yrun true c st (init_sys0 true r0) es in
  recorded_justified (c_kind c) st r0 (y_rcd y) (y_acked y).
Proof.
  intros c st r0 es G. rewrite <- (guard_fixed_is c st es (init_sys0 true r0)) in G.
  exact (reg_recorded_after_ack true c st r0 es G).
Qed.
Print Assumptions C32_reg_recorded_le_acked_partial.

(** The stored last push sequence can still move backwards with a second first
    registration (the slower of the two goroutines overwrites it) ... *)
Theorem C32_reg_recorded_monotone_refuted : ~ C32_reg_recorded_monotone_full.
Proof. exact reg_rcd_mono_refuted. Qed.
Print Assumptions C32_reg_recorded_monotone_refuted.

(** ... and never does without one. *)
Theorem C32_reg_recorded_monotone_partial : forall c st r0 es1 es2,
  forallb fixed_guard (es1 ++ es2) = true ->
  y_rcd (yrun true c st (init_sys0 true r0) es1) <= y_rcd (yrun true c st (init_sys0 true r0) (es1 ++ es2)).
Proof.
  intros c st r0 es1 es2 G. rewrite <- (guard_fixed_is c st (es1 ++ es2) (init_sys0 true r0)) in G.
  exact (reg_rcd_mono true c st r0 es1 es2 G).
Qed.
Print Assumptions C32_reg_recorded_monotone_partial.

(** The code before the repair (chain33 up to the commit named in
    known_findings/C32.json, [fx = false]) needed the larger guard [guard_run
    false]: also no check2ResumePush while a goroutine of the name was in a
    start-up window (spawned, status not yet written) or shutdown window (status
    "not running" written, entry not yet deleted).  Kept because it says what a
    revert of the repair would bring back; ProofsRegExamples.v has the
    interleavings that then delivered twice. *)
Theorem C32_before_repair_guard_needed : forall c st r0 es,
  guard_run false c st (init_sys0 false r0) es = true ->
  let y := yrun false c st (init_sys0 false r0) es in
  (live_tasks y <= 1)%nat /\
  exists r, (0 < r0 -> r = r0) /\ contiguous_from (c_kind c) st r (y_acked y) /\
            StronglySorted Z.lt (y_acked y).
Proof.
  intros c st r0 es G y. split; [exact (reg_single_task false c st r0 es G)|exact (reg_acked_contiguous false c st r0 es G)].
Qed.
Print Assumptions C32_before_repair_guard_needed.

(** The second sentence of the property — a sequence is recorded as delivered
    only after the subscriber acknowledged it — holds WITHOUT the guard, for
    every interleaving of registrations, start-ups and goroutines, unchanged and
    repaired code (only the setLastPushSeq of a second concurrent first
    registration is excluded): the stored sequence is the registration value,
    or some acknowledged number s <= it with nothing deliverable in between. *)
Theorem C32_reg_recorded_only_after_ack : forall fx c st r0 es,
  forallb no_setlast es = true ->
  let y := yrun fx c st (init_sys0 fx r0) es in
  y_rcd y = r0 \/
  exists s, In s (y_acked y) /\ s <= y_rcd y /\
            forall x, s < x <= y_rcd y -> matching (c_kind c) st x = false.
Proof. exact recorded_only_after_ack. Qed.
Print Assumptions C32_reg_recorded_only_after_ack.

(** The consequence of a second goroutine, for every state: two goroutines in
    the select at the same position deliver the same batch twice. *)
Theorem C32_second_task_replays : forall fx c st y i j ti tj latest seqs upd,
  i <> j ->
  nth_error (y_ts y) i = Some ti -> nth_error (y_ts y) j = Some tj ->
  t_pc ti = PIdle -> t_pc tj = PIdle -> t_lp tj = t_lp ti ->
  0 < t_lp ti -> t_lp ti < latest ->
  sl_of y (t_n ti) <= 0 -> sl_of y (t_n tj) <= 0 ->
  gpd (c_kind c) st (t_lp ti + 1) (Z.min (c_maxcnt c) (latest - t_lp ti)) (c_maxsize c) = GData seqs upd ->
  seqs <> [] ->
  let y' := yrun fx c st y [VSeq i latest; VPostOk i; VSeq j latest; VPostOk j] in
  y_acked y' = y_acked y ++ seqs ++ seqs /\ y_rcd y' = upd.
Proof. exact second_task_replays. Qed.
Print Assumptions C32_second_task_replays.

(** What the guard of the larger transition relation is for the repaired code:
    exactly "no step of a second first registration". *)
Theorem C32_fix2_guard : forall c st es y,
  guard_run true c st y es = forallb fixed_guard es.
Proof. exact guard_fixed_is. Qed.
Print Assumptions C32_fix2_guard.

(** Remarks on Close (not part of the property): a goroutine that returns
    through the LoadBlockLastSequence error path never calls Done, so Close can
    never return again; a second Close panics. *)
Theorem C32_error_exit_blocks_close : forall fx c st y i t es,
  nth_error (y_ts y) i = Some t -> t_pc t = PIdle -> sl_of y (t_n t) <= 0 ->
  all_done (yrun fx c st y (VSeqErr i :: es)) = false.
Proof. exact error_exit_blocks_close. Qed.
Print Assumptions C32_error_exit_blocks_close.

Theorem C32_close_twice_panics : forall fx c st y n f,
  y_entry y = Some n -> nth_error (y_ns y) n = Some f ->
  y_panic (yrun fx c st y [VClose; VClose]) = true.
Proof. exact close_twice_panics. Qed.
Print Assumptions C32_close_twice_panics.
