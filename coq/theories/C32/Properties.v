(** C32 — property theorems only. *)
From Coq Require Import List ZArith Bool Sorted.
From C33 Require Import C32.Model C32.Spec C32.ProofsGpd C32.ProofsInv C32.ProofsMono C32.ProofsExamples.
Import ListNotations.
Open Scope Z_scope.

(** Full strength, every push type, store and size limit: for every event
    sequence the acknowledged list is exactly the deliverable sequence numbers
    after the resume point, in increasing order. *)
Theorem C32_acked_contiguous_increasing : forall c st r0 es,
  let s := run_events c st (init_state r0) es in
  exists r, (0 < r0 -> r = r0) /\
            contiguous_from (c_kind c) st r (acked s) /\
            StronglySorted Z.lt (acked s).
Proof. exact acked_contiguous. Qed.
Print Assumptions C32_acked_contiguous_increasing.

(** The same, as the named full-strength statement of Spec.v. *)
Theorem C32_acked_contiguous_increasing_holds : C32_acked_contiguous_increasing_full.
Proof. exact acked_contiguous. Qed.
Print Assumptions C32_acked_contiguous_increasing_holds.

(** Full strength: the stored last push sequence is the registration value or
    is covered by acknowledgements. *)
Theorem C32_recorded_le_acked : forall c st r0 es,
  let s := run_events c st (init_state r0) es in
  recorded_justified (c_kind c) st r0 (rcd s) (acked s).
Proof. exact recorded_after_ack. Qed.
Print Assumptions C32_recorded_le_acked.

Theorem C32_recorded_le_acked_holds : C32_recorded_le_acked_full.
Proof. exact recorded_after_ack. Qed.
Print Assumptions C32_recorded_le_acked_holds.

(** Block, header and result pushes: consecutive integers from the resume
    point, and the stored sequence is the last acknowledged one. *)
Theorem C32_block_kinds_consecutive : forall c st r0 es,
  c_kind c <> KRecv ->
  let s := run_events c st (init_state r0) es in
  exists r n, (0 < r0 -> r = r0) /\ acked s = zrange (r + 1) n /\
              (rcd s = r0 \/ (acked s <> [] /\ rcd s = last (acked s) 0)).
Proof. exact block_kinds_consecutive. Qed.
Print Assumptions C32_block_kinds_consecutive.

(** getPushData: the payload is exactly the deliverable part of start .. updateSeq. *)
Theorem C32_getPushData_exact : forall k st start cnt max seqs upd,
  gpd k st start cnt max = GData seqs upd ->
  start - 1 <= upd /\ seqs = rf (matching k st) (start - 1) upd.
Proof. exact gpd_spec. Qed.
Print Assumptions C32_getPushData_exact.

Theorem C32_getPushData_no_panic : forall k st start cnt max,
  1 <= cnt -> gpd k st start cnt max <> GPanic.
Proof. exact gpd_no_panic. Qed.
Print Assumptions C32_getPushData_no_panic.

(** Liveness remark: a block whose message is not smaller than the size limit is
    never passed by a receipt-type subscriber. *)
Theorem C32_oversize_block_stalls : forall c st s latest size has,
  c_kind c = KRecv -> 1 <= c_maxcnt c ->
  run s = true -> pend s = None -> sl s <= 0 -> 0 < lp s ->
  lookup st (lp s + 1) = Some (size, has) -> c_maxsize c <= size ->
  let r := step c st s (ESeq latest) in
  lp (fst r) = lp s /\ rcd (fst r) = rcd s /\ acked (fst r) = acked s /\
  pend (fst r) = None /\ run (fst r) = true /\ snd r = [].
Proof. exact oversize_stalls. Qed.
Print Assumptions C32_oversize_block_stalls.

(** The stored last push sequence never moves backwards. *)
Theorem C32_recorded_monotone : forall c st r0 es1 es2,
  rcd (run_events c st (init_state r0) es1) <= rcd (run_events c st (init_state r0) (es1 ++ es2)).
Proof. exact rcd_mono. Qed.
Print Assumptions C32_recorded_monotone.

(** The repaired receipt loop: what it counts it delivers, and a deliverable
    first entry below the size limit is always taken. *)
Theorem C32_fix_no_skip : forall max n l seq total a it,
  rcv_loop max n l seq total = Some (a, it) ->
  exists m : nat, it = Z.of_nat m /\ a = filter (hasl l seq) (zrange seq m).
Proof. exact rcv_loop_spec. Qed.
Print Assumptions C32_fix_no_skip.

Theorem C32_fix_progress : forall max n size tl seq a it,
  size < max ->
  rcv_loop max (S n) ((size, true) :: tl) seq 0 = Some (a, it) ->
  1 <= it /\ exists a', a = seq :: a'.
Proof. exact rcv_loop_progress. Qed.
Print Assumptions C32_fix_progress.

(** Task-level progress: a deliverable next block below the size limit is
    posted by the next round. *)
Theorem C32_deliverable_block_posted : forall c st s latest size,
  c_kind c = KRecv -> 1 <= c_maxcnt c ->
  run s = true -> pend s = None -> sl s <= 0 -> 0 < lp s ->
  lp s < latest -> latest < Z.of_nat (length st) ->
  lookup st (lp s + 1) = Some (size, true) -> size < c_maxsize c ->
  let r := step c st s (ESeq latest) in
  exists seqs upd,
    snd r = [OPost (lp s + 1 :: seqs) upd] /\
    pend (fst r) = Some (lp s + 1 :: seqs, upd) /\ lp s + 1 <= upd /\
    lp (fst r) = lp s /\ rcd (fst r) = rcd s /\ acked (fst r) = acked s.
Proof. exact deliverable_posted. Qed.
Print Assumptions C32_deliverable_block_posted.
