(** C32 — property theorems only. *)
From Coq Require Import List ZArith Bool Sorted.
From C33 Require Import C32.Model C32.Spec C32.ProofsGpd C32.ProofsInv C32.ProofsRefute C32.ProofsMono C32.ProofsFix.
Import ListNotations.
Open Scope Z_scope.

(** Partial (guard: for receipt-type pushes no run of deliverable entries fills the
    size limit exactly): for every event sequence the acknowledged list is exactly
    the deliverable sequence numbers after the resume point, in increasing order. *)
Theorem C32_acked_contiguous_increasing : forall c st r0,
  guard c st = true -> forall es,
  let s := run_events c st (init_state r0) es in
  exists r, (0 < r0 -> r = r0) /\
            contiguous_from (c_kind c) st r (acked s) /\
            StronglySorted Z.lt (acked s).
Proof. exact acked_contiguous. Qed.
Print Assumptions C32_acked_contiguous_increasing.

(** The full-strength statement fails: the size-boundary gap. *)
Theorem C32_refuted_gap : ~ C32_acked_contiguous_increasing_full.
Proof. exact refuted_gap. Qed.
Print Assumptions C32_refuted_gap.

(** Partial (same guard): the stored last push sequence is the registration value
    or is covered by acknowledgements. *)
Theorem C32_recorded_le_acked : forall c st r0,
  guard c st = true -> forall es,
  let s := run_events c st (init_state r0) es in
  recorded_justified (c_kind c) st r0 (rcd s) (acked s).
Proof. exact recorded_after_ack. Qed.
Print Assumptions C32_recorded_le_acked.

Theorem C32_recorded_le_acked_refuted : ~ C32_recorded_le_acked_full.
Proof. exact refuted_recorded. Qed.
Print Assumptions C32_recorded_le_acked_refuted.

(** Full for block, header and result pushes: consecutive integers from the
    resume point, and the stored sequence is the last acknowledged one. *)
Theorem C32_block_kinds_consecutive : forall c st r0 es,
  c_kind c <> KRecv ->
  let s := run_events c st (init_state r0) es in
  exists r n, (0 < r0 -> r = r0) /\ acked s = zrange (r + 1) n /\
              (rcd s = r0 \/ (acked s <> [] /\ rcd s = last (acked s) 0)).
Proof. exact block_kinds_consecutive. Qed.
Print Assumptions C32_block_kinds_consecutive.

(** getPushData under the guard: the payload is exactly the deliverable part of
    start .. updateSeq. *)
Theorem C32_getPushData_exact : forall c st start cnt seqs upd,
  guard c st = true ->
  gpd (c_kind c) st start cnt (c_maxsize c) = GData seqs upd ->
  start - 1 <= upd /\ seqs = rf (matching (c_kind c) st) (start - 1) upd.
Proof. exact gpd_spec. Qed.
Print Assumptions C32_getPushData_exact.

Theorem C32_getPushData_no_panic : forall k st start cnt max,
  1 <= cnt -> gpd k st start cnt max <> GPanic.
Proof. exact gpd_no_panic. Qed.
Print Assumptions C32_getPushData_no_panic.

(** Liveness remark: a deliverable block larger than the size limit is never
    passed by a receipt-type subscriber. *)
Theorem C32_oversize_block_stalls : forall c st s latest size has,
  c_kind c = KRecv -> 1 <= c_maxcnt c ->
  run s = true -> pend s = None -> sl s <= 0 -> 0 < lp s ->
  lookup st (lp s + 1) = Some (size, has) -> c_maxsize c < size ->
  let r := step c st s (ESeq latest) in
  lp (fst r) = lp s /\ rcd (fst r) = rcd s /\ acked (fst r) = acked s /\
  pend (fst r) = None /\ run (fst r) = true /\ snd r = [].
Proof. exact oversize_stalls. Qed.
Print Assumptions C32_oversize_block_stalls.

(** The stored last push sequence never moves backwards (same guard). *)
Theorem C32_recorded_monotone : forall c st r0, guard c st = true ->
  forall es1 es2,
    rcd (run_events c st (init_state r0) es1) <= rcd (run_events c st (init_state r0) (es1 ++ es2)).
Proof. exact rcd_mono. Qed.
Print Assumptions C32_recorded_monotone.

(** The repaired receipt loop (work/C32/fix.diff) needs no guard: what it counts
    it delivers, and a deliverable first entry is always taken. *)
Theorem C32_fix_no_skip : forall max n l seq total a it,
  rcv_loop_fix max n l seq total = Some (a, it) ->
  exists m : nat, it = Z.of_nat m /\ a = filter (hasl l seq) (zrange seq m).
Proof. exact rcv_loop_fix_spec. Qed.
Print Assumptions C32_fix_no_skip.

Theorem C32_fix_progress : forall max n size tl seq a it,
  rcv_loop_fix max (S n) ((size, true) :: tl) seq 0 = Some (a, it) ->
  1 <= it /\ In seq a.
Proof. exact rcv_loop_fix_progress. Qed.
Print Assumptions C32_fix_progress.
