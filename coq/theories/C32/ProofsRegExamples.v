(** C32 — concrete runs of the registration / start-up transition system:
    the guard is satisfiable by a run with failures, deactivation,
    re-registration, close and restart; before the repair ([fx = false]) the
    three overlap shapes (start-up window, shutdown window, second first
    registration) each delivered sequence numbers twice; with the repair
    ([fx = true], the code in /repo) the first two start one goroutine, the
    third is the open part of finding C32-F2. *)
From Coq Require Import List ZArith Bool Lia.
From C33 Require Import C32.Model C32.Spec C32.ModelReg C32.ProofsRegMain C32.ProofsRegRec.
Import ListNotations.
Open Scope Z_scope.

Definition fixed_guard (e : yev) : bool :=
  match e with VSetLast _ | VAddTask => false | _ => true end.

Lemma guard_fixed_is : forall c st es y,
  guard_run true c st y es = forallb fixed_guard es.
Proof.
  induction es as [|e es IH]; intros y; cbn [guard_run forallb]; [reflexivity|].
  rewrite IH. destruct e; reflexivity.
Qed.

(** A guarded run: start-up, three failed posts, the shutdown steps, a
    re-registration with its start-up, delivery, a re-registration of the
    running task, close, exit, restart, delivery. *)
Definition w_guarded : list yev :=
  [VRead 0; VRun 0; VSeq 0 3; VPostFail 0; VTick 0; VSeq 0 3; VPostFail 0; VSeq 0 3; VPostFail 0;
   VDel 0; VDeact 0; VReg; VActive; VRead 1; VRun 1; VSeq 1 5; VPostOk 1; VReg; VActive;
   VSeq 1 5; VPostOk 1; VClose; VExit 1; VRestart; VRead 2; VRun 2; VSeq 2 6; VPostOk 2].

Example guarded_run_nontrivial :
  guard_run false wcfg wstore (init_sys0 false 1) w_guarded = true /\
  let y := yrun false wcfg wstore (init_sys0 false 1) w_guarded in
  y_acked y = [2; 3; 4; 5; 6] /\ y_rcd y = 6 /\ live_tasks y = 1%nat /\ length (y_ts y) = 3%nat /\ y_act y = true.
Proof. vm_compute. repeat split; reflexivity. Qed.

(** The same run on the code with the repair: the guard of the _partial
    theorems (no step of a second first registration) holds for it. *)
Example guarded_run_repaired :
  forallb fixed_guard w_guarded = true /\
  let y := yrun true wcfg wstore (init_sys0 true 1) w_guarded in
  y_acked y = [2; 3; 4; 5; 6] /\ y_rcd y = 6 /\ live_tasks y = 1%nat /\ length (y_ts y) = 3%nat /\ y_act y = true.
Proof. vm_compute. repeat split; reflexivity. Qed.

(** Start-up window, before the repair. *)
Example startup_overlap_duplicates :
  guard_run false wcfg wstore (init_sys0 false 1) w_old_dup = false /\
  let y := yrun false wcfg wstore (init_sys0 false 1) w_old_dup in
  y_acked y = [2; 3; 4; 5; 2; 3] /\ y_rcd y = 3 /\ live_tasks y = 2%nat.
Proof. vm_compute. repeat split; reflexivity. Qed.

(** Shutdown window: goroutine 0 has written "not running" and not yet deleted
    the entry; a registration starts goroutine 1 on the old pushNotify; the
    entry is deleted; the next registration starts goroutine 2 on a new one. *)
Definition w_shutdown : list yev :=
  [VRead 0; VRun 0; VSeq 0 3; VPostFail 0; VSeq 0 3; VPostFail 0; VSeq 0 3; VPostFail 0;
   VReg; VActive; VDel 0; VDeact 0; VRead 1; VRun 1; VReg; VActive; VRead 2; VRun 2;
   VSeq 1 5; VPostOk 1; VSeq 2 5; VPostOk 2].

Example shutdown_overlap_duplicates :
  guard_run false wcfg wstore (init_sys0 false 1) w_shutdown = false /\
  let y := yrun false wcfg wstore (init_sys0 false 1) w_shutdown in
  y_acked y = [2; 3; 2; 3] /\ live_tasks y = 2%nat /\ y_act y = true /\
  (* Close closes only the entry's channel: goroutine 1 cannot leave *)
  all_done (yrun false wcfg wstore y [VClose; VExit 0; VExit 1; VExit 2]) = false.
Proof. vm_compute. repeat split; reflexivity. Qed.

(** A second first registration of the same name (it passed
    hasSubscriberExist before the first one stored the record). *)
Definition w_addtask : list yev :=
  [VSetLast 1; VAddTask; VRead 0; VRun 0; VRead 1; VRun 1; VSeq 0 5; VPostOk 0; VSeq 1 5; VPostOk 1].

Example addtask_overlap_duplicates :
  forallb fixed_guard w_addtask = false /\
  let y := yrun true wcfg wstore (init_sys0 true 1) w_addtask in
  y_acked y = [2; 3; 2; 3] /\ live_tasks y = 2%nat /\ y_entry y = Some 1%nat.
Proof. vm_compute. repeat split; reflexivity. Qed.

(** The hypotheses of [second_task_replays] are satisfiable. *)
Example replay_state :
  let y := yrun false wcfg wstore (init_sys0 false 1) [VReg; VRead 0; VRun 0; VRead 1; VRun 1] in
  exists ti tj,
    nth_error (y_ts y) 0 = Some ti /\ nth_error (y_ts y) 1 = Some tj /\
    t_pc ti = PIdle /\ t_pc tj = PIdle /\ t_lp tj = t_lp ti /\ 0 < t_lp ti /\ t_lp ti < 5 /\
    sl_of y (t_n ti) <= 0 /\ sl_of y (t_n tj) <= 0 /\
    gpd (c_kind wcfg) wstore (t_lp ti + 1) (Z.min (c_maxcnt wcfg) (5 - t_lp ti)) (c_maxsize wcfg) = GData [2; 3] 3.
Proof.
  vm_compute. eexists. eexists. repeat split; try reflexivity; discriminate.
Qed.

(** With the repair the same event lists start one goroutine and deliver once. *)
Example fixed_startup :
  let y := yrun true wcfg wstore (init_sys0 true 1) w_old_dup in
  y_acked y = [2; 3; 4; 5] /\ y_rcd y = 5 /\ live_tasks y = 1%nat /\ length (y_ts y) = 1%nat.
Proof. vm_compute. repeat split; reflexivity. Qed.

Example fixed_shutdown :
  let y := yrun true wcfg wstore (init_sys0 true 1) w_shutdown in
  y_acked y = [2; 3] /\ live_tasks y = 1%nat /\ length (y_ts y) = 2%nat.
Proof. vm_compute. repeat split; reflexivity. Qed.

(** Close. *)
Example error_exit_state :
  let y := yrun false wcfg wstore (init_sys0 false 1) [VRead 0; VRun 0] in
  exists t, nth_error (y_ts y) 0 = Some t /\ t_pc t = PIdle /\ sl_of y (t_n t) <= 0 /\
            all_done (yrun false wcfg wstore y [VClose; VExit 0]) = true /\
            all_done (yrun false wcfg wstore y [VSeqErr 0; VClose; VExit 0]) = false.
Proof. vm_compute. eexists. repeat split; try reflexivity; discriminate. Qed.

(** The unguarded "recorded only after acknowledged" theorem applies to the
    overlapping runs (they contain no VSetLast) and is not vacuous there. *)
Example rec_after_ack_on_overlap :
  forallb no_setlast w_old_dup = true /\ forallb no_setlast w_shutdown = true /\
  let y := yrun false wcfg wstore (init_sys0 false 1) w_old_dup in
  y_rcd y = 3 /\ In 3 (y_acked y).
Proof. vm_compute. repeat split; try reflexivity. right. left. reflexivity. Qed.
