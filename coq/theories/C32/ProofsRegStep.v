(** C32 — every guarded step of the registration / start-up transition system
    keeps the invariant of ProofsRegInv.v. *)
From Coq Require Import List ZArith Bool Lia.
From C33 Require Import C32.Model C32.Spec C32.ProofsGpd C32.ModelReg C32.ProofsRegL C32.ProofsRegInv.
Import ListNotations.
Open Scope Z_scope.

Section RegStep.
  Variable fx : bool.
  Variable c : cfg.
  Variable st : store.
  Variable r0 : Z.

  Notation inv := (rinv fx c st r0).
  Notation ktt := (kt c st).
  Let M := matching (c_kind c) st.

  Ltac nsid :=
    let n := fresh "n" in let f := fresh "f" in let H := fresh "H" in let R := fresh "R" in
    intros n f H R; exists f; split; [exact H|exact R].

  Lemma kt_not_owner : forall rcd t, owner t = false -> ktt rcd t.
  Proof. intros rcd t H. unfold kt, owner in *. destruct (t_pc t); try discriminate; exact I. Qed.

  Lemma set_run_fields : forall y n b,
    y_ts (set_run_of y n b) = y_ts y /\ y_entry (set_run_of y n b) = y_entry y /\
    y_rcd (set_run_of y n b) = y_rcd y /\ y_acked (set_run_of y n b) = y_acked y.
  Proof. intros y n b. unfold set_run_of. destruct (nth_error (y_ns y) n); repeat split. Qed.

  (** * Registration steps *)
  Lemma step_reg : forall y, inv y -> gev fx y VReg = true -> inv (fst (ystep fx c st y VReg)).
  Proof.
    intros y I G. cbn [ystep]. destruct (y_entry y) as [n|] eqn:He.
    - destruct (nth_error (y_ns y) n) as [f|] eqn:Hf; [|exact I].
      destruct (n_run f) eqn:Hr; cbn [fst].
      + apply rinv_set_sl; exact I.
      + exfalso. destruct (v_nrun _ _ _ _ y I n f He Hf Hr) as (Hfx & i & t & Hi & Hn & Hw).
        cbn [gev] in G. rewrite Hfx in G. cbn [orb] in G. unfold no_window in G.
        pose proof (forallb_nth _ _ _ _ _ G Hi) as E. cbn beta in E. rewrite Hw in E. discriminate.
    - cbn [fst].
      pose proof (rinv_fresh fx c st r0 y (y_entry y) I (no_owner_cnt _ _ _ _ y I He)) as P.
      rewrite set_entry_same in P. exact P.
  Qed.

  Lemma step_active : forall y, inv y -> inv (fst (ystep fx c st y VActive)).
  Proof.
    intros y I. cbn [ystep]. destruct (y_act y); [exact I|]. cbn [fst].
    apply (rinv_same_tasks fx c st r0 y); try reflexivity; [exact I|nsid].
  Qed.

  (** * Start-up *)
  Lemma step_read : forall y i, inv y -> inv (fst (ystep fx c st y (VRead i))).
  Proof.
    intros y i I. cbn [ystep]. destruct (nth_error (y_ts y) i) as [t|] eqn:Hi; [|exact I].
    destruct (t_pc t) eqn:Hpc; try exact I. cbn [fst].
    apply (rinv_upd_task fx c st r0 y _ i t (mkT (t_n t) PRead (y_rcd y) (t_fc t))); try reflexivity; try assumption.
    - nsid.
    - intros _. unfold owner. rewrite Hpc. reflexivity.
    - intros _ H. discriminate.
    - unfold kt. cbn [t_pc t_lp]. intros _. split; [lia|apply rf_same].
  Qed.

  Lemma step_run : forall y i, inv y -> inv (fst (ystep fx c st y (VRun i))).
  Proof.
    intros y i I. cbn [ystep]. destruct (nth_error (y_ts y) i) as [t|] eqn:Hi; [|exact I].
    destruct (t_pc t) eqn:Hpc; try exact I. cbn [fst].
    destruct (set_run_fields y (t_n t) true) as (E1 & E2 & E3 & E4).
    apply (rinv_upd_task fx c st r0 y _ i t (with_pc t PIdle)); try assumption; try reflexivity.
    - cbn [set_task set_ts y_ts]. rewrite E1. reflexivity.
    - cbn [set_task set_ts y_ns]. unfold set_run_of.
      intros n f' Hn Hr. destruct (nth_error (y_ns y) (t_n t)) as [f0|] eqn:E0.
      + cbn [set_notif set_ns y_ns] in Hn. apply nth_upd_inv in Hn as [(-> & -> & _)|(Hne & Hn)]; [discriminate|].
        exists f'. split; assumption.
      + exists f'. split; assumption.
    - intros _. unfold owner. rewrite Hpc. reflexivity.
    - intros _ _ f'. cbn [set_task set_ts y_ns]. unfold set_run_of.
      destruct (nth_error (y_ns y) (t_n t)) as [f0|] eqn:E0.
      + cbn [set_notif set_ns y_ns]. rewrite (nth_upd_same _ _ _ _ _ E0). intros H. inversion H. reflexivity.
      + rewrite E0. discriminate.
    - pose proof (v_task _ _ _ _ y I i t Hi) as Hk. unfold kt in *. rewrite Hpc in Hk. exact Hk.
  Qed.

  (** * Rounds *)
  Lemma step_process : forall y i t latest,
    inv y -> nth_error (y_ts y) i = Some t -> t_pc t = PIdle ->
    inv (fst (yprocess c st y i t latest)).
  Proof.
    intros y i t latest I Hi Hpc. unfold yprocess.
    pose proof (v_task _ _ _ _ y I i t Hi) as Hk. unfold kt in Hk. rewrite Hpc in Hk.
    assert (Ho : owner t = true) by (unfold owner; rewrite Hpc; reflexivity).
    assert (Hw : in_window t = false) by (unfold in_window; rewrite Hpc; reflexivity).
    destruct (t_lp t >=? latest) eqn:E1; [exact I|].
    destruct (t_lp t <=? 0) eqn:E2.
    { cbn [fst].
      apply (rinv_upd_task fx c st r0 y _ i t (mkT (t_n t) PIdle latest (t_fc t))); try reflexivity; try assumption.
      - nsid.
      - intros _; exact Ho.
      - rewrite Hw. discriminate.
      - unfold kt. cbn [t_pc t_lp]. intros Hpos. destruct (Hk Hpos). apply Z.leb_le in E2. lia. }
    destruct (gpd (c_kind c) st (t_lp t + 1) (Z.min (c_maxcnt c) (latest - t_lp t)) (c_maxsize c))
      as [| |seqs upd] eqn:Eg; try exact I.
    apply gpd_spec in Eg as [Hupd Hseqs].
    replace (t_lp t + 1 - 1) with (t_lp t) in * by lia. fold M in Hseqs.
    apply Z.leb_gt in E2.
    destruct seqs as [|x seqs]; cbn [fst].
    - apply (rinv_upd_task fx c st r0 y _ i t (mkT (t_n t) PIdle upd 0)); try reflexivity; try assumption.
      + nsid.
      + intros _; exact Ho.
      + rewrite Hw. discriminate.
      + unfold kt. cbn [t_pc t_lp]. intros Hpos. destruct (Hk Hpos) as [Hle Hnil]. split; [lia|].
        fold M. fold M in Hnil. rewrite (rf_split M (y_rcd y) (t_lp t) upd) by lia. rewrite Hnil, <- Hseqs. reflexivity.
    - apply (rinv_upd_task fx c st r0 y _ i t (with_pc t (PPost (x :: seqs) upd))); try reflexivity; try assumption.
      + nsid.
      + intros _; exact Ho.
      + rewrite Hw. discriminate.
      + unfold kt. cbn [with_pc t_pc t_lp]. split; [exact Hk|]. split; [lia|]. split; [lia|]. split; [discriminate|exact Hseqs].
  Qed.

  Lemma step_seq : forall y i latest, inv y -> inv (fst (ystep fx c st y (VSeq i latest))).
  Proof.
    intros y i latest I. cbn [ystep]. destruct (nth_error (y_ts y) i) as [t|] eqn:Hi; [|exact I].
    destruct (t_pc t) eqn:Hpc; try exact I.
    destruct (sl_of y (t_n t) >? 0).
    - destruct (sl_of y (t_n t) - 1 >? 0); cbn [fst]; [apply rinv_set_sl; exact I|].
      apply step_process; [apply rinv_set_sl; exact I|rewrite nth_set_sl_ts; exact Hi|exact Hpc].
    - apply step_process; assumption.
  Qed.

  Lemma rinv_die : forall y i t b,
    inv y -> nth_error (y_ts y) i = Some t -> t_pc t = PIdle ->
    inv (set_task y i (with_pc t (PDead b))).
  Proof.
    intros y i t b I Hi Hpc.
    apply (rinv_upd_task fx c st r0 y _ i t (with_pc t (PDead b))); try reflexivity; try assumption.
    - nsid.
    - intros H; discriminate.
    - unfold in_window. rewrite Hpc. discriminate.
  Qed.

  Lemma step_seqerr : forall y i, inv y -> inv (fst (ystep fx c st y (VSeqErr i))).
  Proof.
    intros y i I. cbn [ystep]. destruct (nth_error (y_ts y) i) as [t|] eqn:Hi; [|exact I].
    destruct (t_pc t) eqn:Hpc; try exact I.
    destruct (sl_of y (t_n t) >? 0).
    - destruct (sl_of y (t_n t) - 1 >? 0); cbn [fst]; [apply rinv_set_sl; exact I|].
      apply rinv_die; [apply rinv_set_sl; exact I|rewrite nth_set_sl_ts; exact Hi|exact Hpc].
    - cbn [fst]. apply rinv_die; assumption.
  Qed.

  Lemma step_tick : forall y i, inv y -> inv (fst (ystep fx c st y (VTick i))).
  Proof.
    intros y i I. cbn [ystep]. destruct (nth_error (y_ts y) i) as [t|] eqn:Hi; [|exact I].
    destruct (t_pc t) eqn:Hpc; try exact I.
    destruct (sl_of y (t_n t) >? 0); cbn [fst]; [apply rinv_set_sl|]; exact I.
  Qed.

  (** * Answers *)
  Lemma step_postok : forall y i, inv y -> inv (fst (ystep fx c st y (VPostOk i))).
  Proof.
    intros y i I. cbn [ystep]. destruct (nth_error (y_ts y) i) as [t|] eqn:Hi; [|exact I].
    destruct (t_pc t) as [| | |seqs upd| | |d] eqn:Hpc; try exact I. cbn [fst].
    destruct I as [H1 H2 H3 H4 H5 H6].
    pose proof (H6 i t Hi) as Hk. unfold kt in Hk. rewrite Hpc in Hk. fold M in Hk.
    destruct Hk as (Hrun & Hlp & Hle & Hne & Hseqs).
    assert (Hown : owner t = true) by (unfold owner; rewrite Hpc; reflexivity).
    assert (Hwin : in_window t = false) by (unfold in_window; rewrite Hpc; reflexivity).
    constructor; cbn [y_ts y_entry y_ns y_rcd y_acked].
    - pose proof (cnt_upd _ owner _ _ _ (mkT (t_n t) PIdle upd 0) Hi) as E.
      rewrite Hown in E. cbn [owner t_pc b2n] in E. lia.
    - intros j tj Hj Hoj. apply nth_upd_inv in Hj as [(-> & -> & _)|(Hne2 & Hj)].
      + cbn [t_n]. apply (H2 i t Hi Hown).
      + apply (H2 j tj Hj Hoj).
    - intros n f Hn Hf Hr. destruct (H3 n f Hn Hf Hr) as (Hfx & j & tj & Hj & Hjn & Hjw).
      split; [exact Hfx|]. exists j, tj. split; [|split; assumption].
      rewrite nth_upd_other; [exact Hj|]. intros ->. rewrite Hi in Hj. inversion Hj; subst tj. congruence.
    - intros Hnil. apply app_eq_nil in Hnil as [_ Hnil]. congruence.
    - intros _. split; [lia|].
      destruct (y_acked y) as [|a0 al] eqn:Ea.
      + specialize (H4 eq_refl).
        destruct (Z_lt_le_dec 0 r0) as [Hpos|Hnpos].
        * exists r0. split; [reflexivity|].
          assert (Hrp : 0 < y_rcd y) by lia. destruct (Hrun Hrp) as [Hle2 Hnil].
          rewrite H4 in *. split; [lia|]. cbn [app].
          fold M. rewrite (rf_split M r0 (t_lp t) upd) by lia. rewrite Hnil. cbn [app]. exact Hseqs.
        * exists (t_lp t). split; [lia|]. split; [lia|]. cbn [app]. exact Hseqs.
      + assert (Hne2 : a0 :: al <> []) by discriminate.
        destruct (H5 Hne2) as (Hrp & r & Hr0 & Hrle & Hack).
        destruct (Hrun Hrp) as [Hle2 Hnil].
        exists r. split; [exact Hr0|]. split; [lia|].
        fold M. fold M in Hack. rewrite (rf_split M r (y_rcd y) upd) by lia.
        rewrite (rf_split M (y_rcd y) (t_lp t) upd) by lia.
        rewrite Hnil, <- Hack, <- Hseqs. reflexivity.
    - intros j tj Hj. apply nth_upd_inv in Hj as [(-> & -> & _)|(Hne2 & Hj)].
      + unfold kt. cbn [t_pc t_lp]. intros _. split; [lia|apply rf_same].
      + apply kt_not_owner. destruct (owner tj) eqn:E; [|reflexivity].
        exfalso. apply Hne2. eapply (cnt_unique _ owner); eassumption.
  Qed.

  Lemma step_postfail : forall y i, inv y -> inv (fst (ystep fx c st y (VPostFail i))).
  Proof.
    intros y i I. cbn [ystep]. destruct (nth_error (y_ts y) i) as [t|] eqn:Hi; [|exact I].
    destruct (t_pc t) as [| | |seqs upd| | |d] eqn:Hpc; try exact I.
    assert (Hown : owner t = true) by (unfold owner; rewrite Hpc; reflexivity).
    assert (Hwin : in_window t = false) by (unfold in_window; rewrite Hpc; reflexivity).
    pose proof (v_task _ _ _ _ y I i t Hi) as Hk. unfold kt in Hk. rewrite Hpc in Hk.
    destruct (t_fc t + 1 >=? 3).
    - destruct (set_run_fields y (t_n t) false) as (E1 & E2 & E3 & E4).
      destruct fx eqn:Efx; cbn [fst].
      + apply (rinv_leave true c st r0 y _ i t (mkT (t_n t) PDeact2 (t_lp t) (t_fc t + 1))); try assumption; try reflexivity.
        * cbn [set_task set_ts set_entry y_ts]. rewrite E1. reflexivity.
        * cbn [set_task set_ts set_entry y_entry]. rewrite E2, (v_own _ _ _ _ y I i t Hi Hown).
          cbn [drop_own]. rewrite Nat.eqb_refl. reflexivity.
      + (* status notRunning written, the entry still there *)
        destruct I as [H1 H2 H3 H4 H5 H6].
        constructor; cbn [set_task set_ts y_ts y_entry y_ns y_rcd y_acked]; rewrite ?E1, ?E2, ?E3, ?E4; try assumption.
        * pose proof (cnt_upd _ owner _ _ _ (mkT (t_n t) PDeact1 (t_lp t) (t_fc t + 1)) Hi) as E.
          rewrite Hown in E. cbn [owner t_pc b2n] in E. lia.
        * intros j tj Hj Hoj. apply nth_upd_inv in Hj as [(-> & -> & _)|(Hne2 & Hj)].
          -- cbn [t_n]. apply (H2 i t Hi Hown).
          -- apply (H2 j tj Hj Hoj).
        * intros n f Hn Hf Hr. split; [reflexivity|].
          exists i, (mkT (t_n t) PDeact1 (t_lp t) (t_fc t + 1)).
          split; [eapply nth_upd_same; eassumption|]. split; [|reflexivity].
          cbn [t_n]. rewrite (H2 i t Hi Hown) in Hn. inversion Hn. reflexivity.
        * intros j tj Hj. apply nth_upd_inv in Hj as [(-> & -> & _)|(Hne2 & Hj)]; [exact Logic.I|apply (H6 j tj Hj)].
    - cbn [fst]. destruct (set_sl_fields y (t_n t) (c_f2s c)) as (E1 & E2 & E3 & E4).
      apply (rinv_upd_task fx c st r0 y _ i t (mkT (t_n t) PIdle (t_lp t) (t_fc t + 1))); try assumption; try reflexivity.
      + cbn [set_task set_ts y_ts]. rewrite E1. reflexivity.
      + cbn [set_task set_ts y_ns]. apply ns_keep_sl.
      + intros _; exact Hown.
      + rewrite Hwin. discriminate.
      + unfold kt. cbn [t_pc t_lp]. apply Hk.
  Qed.

  (** * Shutdown *)
  Lemma step_del : forall y i, inv y -> inv (fst (ystep fx c st y (VDel i))).
  Proof.
    intros y i I. cbn [ystep]. destruct (nth_error (y_ts y) i) as [t|] eqn:Hi; [|exact I].
    destruct (t_pc t) eqn:Hpc; try exact I. cbn [fst].
    apply (rinv_leave fx c st r0 y _ i t (with_pc t PDeact2)); try assumption; try reflexivity.
    - unfold owner. rewrite Hpc. reflexivity.
  Qed.

  Lemma step_deact : forall y i, inv y -> inv (fst (ystep fx c st y (VDeact i))).
  Proof.
    intros y i I. cbn [ystep]. destruct (nth_error (y_ts y) i) as [t|] eqn:Hi; [|exact I].
    destruct (t_pc t) eqn:Hpc; try exact I. cbn [fst].
    apply (rinv_upd_task fx c st r0 y _ i t (with_pc t (PDead true))); try reflexivity; try assumption.
    - nsid.
    - intros H; discriminate.
    - unfold in_window. rewrite Hpc. discriminate.
  Qed.

  (** * Close, exit, restart *)
  Lemma step_close : forall y, inv y -> inv (fst (ystep fx c st y VClose)).
  Proof.
    intros y I. cbn [ystep]. destruct (y_entry y) as [n|] eqn:He; [|exact I].
    destruct (nth_error (y_ns y) n) as [f|] eqn:Hf; [|exact I].
    destruct (n_closed f); cbn [fst].
    - apply (rinv_same_tasks fx c st r0 y); try reflexivity; try (symmetry; exact He); [exact I|nsid].
    - apply (rinv_same_tasks fx c st r0 y); try reflexivity; try (symmetry; exact He); [exact I|].
      cbn [set_notif set_ns y_ns]. apply (ns_keep_upd _ _ f); [exact Hf|reflexivity].
  Qed.

  Lemma step_exit : forall y i, inv y -> inv (fst (ystep fx c st y (VExit i))).
  Proof.
    intros y i I. cbn [ystep]. destruct (nth_error (y_ts y) i) as [t|] eqn:Hi; [|exact I].
    destruct (t_pc t) eqn:Hpc; try exact I.
    destruct (nth_error (y_ns y) (t_n t)) as [f|]; [|exact I].
    destruct (n_closed f); [|exact I]. cbn [fst]. apply rinv_die; assumption.
  Qed.

  Lemma step_restart : forall y, inv y -> inv (fst (ystep fx c st y VRestart)).
  Proof.
    intros y I. cbn [ystep]. destruct (forallb is_dead (y_ts y)) eqn:Hd; [|exact I].
    assert (H0 : cnt owner (y_ts y) = 0%nat).
    { apply cnt_none. intros i t Hi. pose proof (forallb_nth _ _ _ _ _ Hd Hi) as E.
      unfold is_dead in E. unfold owner. destruct (t_pc t); try discriminate; reflexivity. }
    destruct (y_act y); cbn [fst].
    - apply rinv_fresh; assumption.
    - destruct I as [H1 H2 H3 H4 H5 H6].
      constructor; cbn [set_entry y_ts y_entry y_ns y_rcd y_acked]; try assumption.
      + intros i t Hi Ho. rewrite (cnt_zero_nth _ owner _ _ _ H0 Hi) in Ho. discriminate.
      + intros n f Hn. discriminate.
  Qed.

  (** * All steps *)
  Lemma rinv_step : forall y e, inv y -> gev fx y e = true -> inv (fst (ystep fx c st y e)).
  Proof.
    intros y e I G. destruct e.
    - apply step_reg; assumption.
    - apply step_active; assumption.
    - discriminate.
    - discriminate.
    - apply step_read; assumption.
    - apply step_run; assumption.
    - apply step_seq; assumption.
    - apply step_seqerr; assumption.
    - apply step_tick; assumption.
    - apply step_postok; assumption.
    - apply step_postfail; assumption.
    - apply step_del; assumption.
    - apply step_deact; assumption.
    - apply step_close; assumption.
    - apply step_exit; assumption.
    - apply step_restart; assumption.
  Qed.

  Lemma rinv_run : forall es y, inv y -> guard_run fx c st y es = true -> inv (yrun fx c st y es).
  Proof.
    induction es as [|e es IH]; intros y I G; cbn [yrun guard_run] in *; [exact I|].
    apply andb_true_iff in G as [G1 G2]. apply IH; [apply rinv_step; assumption|exact G2].
  Qed.
End RegStep.
