(** C32 — results on the registration / start-up transition system:
    under the guard one goroutine, gap-free delivery, monotone record;
    without it the interleaving witnesses; what a second goroutine delivers. *)
From Coq Require Import List ZArith Bool Lia Sorted.
From C33 Require Import C32.Model C32.Spec C32.ProofsGpd C32.ModelReg C32.SpecReg
  C32.ProofsRegL C32.ProofsRegInv C32.ProofsRegStep.
Import ListNotations.
Open Scope Z_scope.

Lemma yrun_app : forall fx c st es1 es2 y,
  yrun fx c st y (es1 ++ es2) = yrun fx c st (yrun fx c st y es1) es2.
Proof. induction es1 as [|e es1 IH]; intros es2 y; cbn [app yrun]; [reflexivity|apply IH]. Qed.

Lemma guard_app : forall fx c st es1 es2 y,
  guard_run fx c st y (es1 ++ es2) = true ->
  guard_run fx c st y es1 = true /\ guard_run fx c st (yrun fx c st y es1) es2 = true.
Proof.
  induction es1 as [|e es1 IH]; intros es2 y H; cbn [app yrun guard_run] in *; [split; [reflexivity|exact H]|].
  apply andb_true_iff in H as [H1 H2]. destruct (IH es2 _ H2) as [H3 H4]. rewrite H1, H3. split; [reflexivity|exact H4].
Qed.

Lemma posting_owner : forall t, posting t = true -> owner t = true.
Proof. intros t. unfold posting, owner. destruct (t_pc t); intros H; try discriminate; reflexivity. Qed.

Section Guarded.
  Variable fx : bool.
  Variable c : cfg.
  Variable st : store.
  Variable r0 : Z.

  Let y0 := init_sys0 fx r0.

  Lemma reg_inv_reachable : forall es,
    guard_run fx c st y0 es = true -> rinv fx c st r0 (yrun fx c st y0 es).
  Proof. intros es G. apply rinv_run; [apply rinv_init0|exact G]. Qed.

  Lemma reg_single_task : forall es,
    guard_run fx c st y0 es = true -> (live_tasks (yrun fx c st y0 es) <= 1)%nat.
  Proof.
    intros es G. pose proof (v_cnt _ _ _ _ _ (reg_inv_reachable es G)) as H.
    unfold live_tasks. pose proof (cnt_mono _ posting owner (y_ts (yrun fx c st y0 es)) posting_owner). lia.
  Qed.

  Lemma reg_acked_contiguous : forall es,
    guard_run fx c st y0 es = true ->
    let y := yrun fx c st y0 es in
    exists r, (0 < r0 -> r = r0) /\
              contiguous_from (c_kind c) st r (y_acked y) /\
              StronglySorted Z.lt (y_acked y).
  Proof.
    intros es G y. destruct (reg_inv_reachable es G) as [_ _ _ H1 H2 _]. fold y in H1, H2.
    destruct (y_acked y) as [|a al] eqn:Ea.
    - exists r0. split; [reflexivity|]. split; [exists O; reflexivity|constructor].
    - assert (Hne : a :: al <> []) by discriminate.
      destruct (H2 Hne) as (_ & r & Hr0 & Hle & Hack).
      exists r. split; [exact Hr0|]. split.
      + exists (Z.to_nat (y_rcd y - r)). exact Hack.
      + rewrite Hack. apply filter_sorted, zrange_sorted.
  Qed.

  Lemma reg_recorded_after_ack : forall es,
    guard_run fx c st y0 es = true ->
    let y := yrun fx c st y0 es in
    recorded_justified (c_kind c) st r0 (y_rcd y) (y_acked y).
  Proof.
    intros es G y. destruct (reg_inv_reachable es G) as [_ _ _ H1 H2 _]. fold y in H1, H2.
    destruct (y_acked y) as [|a al] eqn:Ea.
    - left. apply H1. reflexivity.
    - right. assert (Hne : a :: al <> []) by discriminate.
      destruct (H2 Hne) as (_ & r & _ & Hle & Hack).
      split; [exact Hne|]. rewrite Hack in Hne |- *.
      destruct (rf_last (matching (c_kind c) st) r (y_rcd y) Hne) as [Hl Hnone]. split; [lia|exact Hnone].
  Qed.

  (** The stored sequence: only an ok answer (and the excluded second first
      registration) writes it. *)
  Lemma rcd_set_sl : forall y n v, y_rcd (set_sl_of y n v) = y_rcd y.
  Proof. intros. unfold set_sl_of. destruct (nth_error _ _); reflexivity. Qed.
  Lemma rcd_set_run : forall y n b, y_rcd (set_run_of y n b) = y_rcd y.
  Proof. intros. unfold set_run_of. destruct (nth_error _ _); reflexivity. Qed.
  Lemma rcd_spawn : forall y n, y_rcd (spawn fx y n) = y_rcd y.
  Proof. intros. unfold spawn. destruct fx; cbn [set_ts y_rcd]; [apply rcd_set_run|reflexivity]. Qed.
  Lemma rcd_fresh : forall y, y_rcd (fresh_task fx y) = y_rcd y.
  Proof. intros. unfold fresh_task. rewrite rcd_spawn. reflexivity. Qed.
  Lemma rcd_process : forall y i t l, y_rcd (fst (yprocess c st y i t l)) = y_rcd y.
  Proof.
    intros. unfold yprocess. destruct (t_lp t >=? l); [reflexivity|]. destruct (t_lp t <=? 0); [reflexivity|].
    destruct (gpd _ _ _ _ _) as [| |[|x s] u]; reflexivity.
  Qed.

  Lemma rcd_step_le : forall y e,
    rinv fx c st r0 y -> gev fx y e = true -> y_rcd y <= y_rcd (fst (ystep fx c st y e)).
  Proof.
    intros y e I G. destruct e; cbn [ystep]; try discriminate.
    - destruct (y_entry y); [destruct (nth_error _ _) as [f|]; [destruct (n_run f)|]|]; cbn [fst];
        rewrite ?rcd_set_sl, ?rcd_spawn, ?rcd_fresh; lia.
    - destruct (y_act y); cbn [fst set_act y_rcd]; lia.
    - destruct (nth_error _ _) as [t|]; [destruct (t_pc t)|]; cbn [fst set_task set_ts y_rcd]; lia.
    - destruct (nth_error _ _) as [t|]; [destruct (t_pc t)|]; cbn [fst set_task set_ts y_rcd]; rewrite ?rcd_set_run; lia.
    - destruct (nth_error _ _) as [t|]; [destruct (t_pc t)|]; cbn [fst]; try lia.
      destruct (sl_of y (t_n t) >? 0); [destruct (sl_of y (t_n t) - 1 >? 0)|]; cbn [fst];
        rewrite ?rcd_process, ?rcd_set_sl; lia.
    - destruct (nth_error _ _) as [t|]; [destruct (t_pc t)|]; cbn [fst]; try lia.
      destruct (sl_of y (t_n t) >? 0); [destruct (sl_of y (t_n t) - 1 >? 0)|]; cbn [fst set_task set_ts y_rcd];
        rewrite ?rcd_set_sl; lia.
    - destruct (nth_error _ _) as [t|]; [destruct (t_pc t)|]; cbn [fst]; try lia.
      destruct (sl_of y (t_n t) >? 0); cbn [fst]; rewrite ?rcd_set_sl; lia.
    - destruct (nth_error (y_ts y) i) as [t|] eqn:Hi; [|cbn [fst]; lia].
      destruct (t_pc t) as [| | |seqs upd| | |d] eqn:Hpc; cbn [fst y_rcd]; try lia.
      pose proof (v_task _ _ _ _ _ I i t Hi) as Hk. unfold kt in Hk. rewrite Hpc in Hk.
      destruct Hk as (Hrun & Hlp & Hle & _).
      destruct (Z_lt_le_dec 0 (y_rcd y)) as [Hpos|Hn]; [destruct (Hrun Hpos); lia|lia].
    - destruct (nth_error _ _) as [t|]; [destruct (t_pc t)|]; cbn [fst]; try lia.
      destruct (t_fc t + 1 >=? 3); [destruct fx|]; cbn [fst set_task set_ts set_entry y_rcd];
        rewrite ?rcd_set_run, ?rcd_set_sl; lia.
    - destruct (nth_error _ _) as [t|]; [destruct (t_pc t)|]; cbn [fst set_task set_ts set_entry y_rcd]; lia.
    - destruct (nth_error _ _) as [t|]; [destruct (t_pc t)|]; cbn [fst set_task set_ts set_act y_rcd]; lia.
    - destruct (y_entry y); [destruct (nth_error _ _) as [f|]; [destruct (n_closed f)|]|];
        cbn [fst set_notif set_ns y_rcd]; lia.
    - destruct (nth_error _ _) as [t|]; [destruct (t_pc t)|]; cbn [fst]; try lia.
      destruct (nth_error _ _) as [f|]; [destruct (n_closed f)|]; cbn [fst set_task set_ts y_rcd]; lia.
    - destruct (forallb _ _); [destruct (y_act y)|]; cbn [fst]; rewrite ?rcd_fresh; cbn [set_entry y_rcd]; lia.
  Qed.

  Lemma reg_rcd_mono : forall es1 es2,
    guard_run fx c st y0 (es1 ++ es2) = true ->
    y_rcd (yrun fx c st y0 es1) <= y_rcd (yrun fx c st y0 (es1 ++ es2)).
  Proof.
    intros es1 es2 G. rewrite yrun_app. apply guard_app in G as [G1 G2].
    pose proof (reg_inv_reachable es1 G1) as I. revert I G2.
    generalize (yrun fx c st y0 es1). induction es2 as [|e es2 IH]; intros y I G; cbn [yrun guard_run] in *; [lia|].
    apply andb_true_iff in G as [Ga Gb].
    etransitivity; [apply (rcd_step_le y e I Ga)|]. apply IH; [apply rinv_step; assumption|exact Gb].
  Qed.
End Guarded.

(** * Without the guard: the interleaving witnesses (code with the repair) *)
Definition wcfg : cfg := mkCfg KBlock 2 100 1.
Definition wstore : store := [(1, true); (1, true); (1, true); (1, true); (1, true); (1, true); (1, true)].

(** A second first registration of the same name (it passed hasSubscriberExist
    before the first one stored the record): its addTask replaces the entry and
    starts a second goroutine. *)
Definition w_two : list yev := [VAddTask].
(** Both goroutines then deliver the backlog: 2 3 | 4 5 by the first, 2 3 again by the second. *)
Definition w_dup : list yev :=
  [VSetLast 1; VAddTask; VRead 0; VRun 0; VRead 1; VRun 1;
   VSeq 0 5; VPostOk 0; VSeq 0 5; VPostOk 0; VSeq 1 5; VPostOk 1].

(** Before the repair a plain re-registration inside the start-up window was
    enough (kept for the examples: [fx = false] shows the duplicates, [fx = true] does not). *)
Definition w_old_two : list yev := [VReg].
Definition w_old_dup : list yev :=
  [VReg; VRead 0; VRun 0; VRead 1; VRun 1;
   VSeq 0 5; VPostOk 0; VSeq 0 5; VPostOk 0; VSeq 1 5; VPostOk 1].

Lemma single_task_refuted : ~ C32_single_task_per_subscriber_full.
Proof.
  intros H. specialize (H wcfg wstore 1 w_two). vm_compute in H. lia.
Qed.

Lemma reg_acked_refuted : ~ C32_reg_acked_contiguous_increasing_full.
Proof.
  intros H. destruct (H wcfg wstore 1 w_dup) as (r & _ & _ & Hs).
  assert (E : y_acked (yrun true wcfg wstore (init_sys0 true 1) w_dup) = [2; 3; 4; 5; 2; 3])
    by (vm_compute; reflexivity).
  rewrite E in Hs. clear E.
  repeat match goal with
         | H : StronglySorted _ (_ :: _) |- _ => apply StronglySorted_inv in H as [? ?]
         end.
  repeat match goal with
         | H : Forall _ (_ :: _) |- _ => inversion H; clear H; subst
         end.
  lia.
Qed.

Lemma reg_rcd_mono_refuted : ~ C32_reg_recorded_monotone_full.
Proof.
  intros H. specialize (H wcfg wstore 1 (firstn 10 w_dup) (skipn 10 w_dup)).
  assert (E1 : y_rcd (yrun true wcfg wstore (init_sys0 true 1) (firstn 10 w_dup)) = 5) by (vm_compute; reflexivity).
  assert (E2 : y_rcd (yrun true wcfg wstore (init_sys0 true 1) (firstn 10 w_dup ++ skipn 10 w_dup)) = 3)
    by (vm_compute; reflexivity).
  rewrite E1, E2 in H. lia.
Qed.

(** * What a second goroutine delivers
    Two goroutines in the select with the same position: whatever the first one
    posts and gets acknowledged, the second one posts again. *)
Lemma second_task_replays : forall fx c st y i j ti tj latest seqs upd,
  i <> j ->
  nth_error (y_ts y) i = Some ti -> nth_error (y_ts y) j = Some tj ->
  t_pc ti = PIdle -> t_pc tj = PIdle -> t_lp tj = t_lp ti ->
  0 < t_lp ti -> t_lp ti < latest ->
  sl_of y (t_n ti) <= 0 -> sl_of y (t_n tj) <= 0 ->
  gpd (c_kind c) st (t_lp ti + 1) (Z.min (c_maxcnt c) (latest - t_lp ti)) (c_maxsize c) = GData seqs upd ->
  seqs <> [] ->
  let y' := yrun fx c st y [VSeq i latest; VPostOk i; VSeq j latest; VPostOk j] in
  y_acked y' = y_acked y ++ seqs ++ seqs /\ y_rcd y' = upd.
Proof.
  intros fx c st y i j ti tj latest seqs upd Hij Hi Hj Hpi Hpj Hlp Hpos Hlt Hsi Hsj Hg Hne y'.
  subst y'. cbn [yrun].
  assert (Hs0 : forall n, sl_of y n <= 0 -> (sl_of y n >? 0) = false).
  { intros n H. rewrite Z.gtb_ltb. apply Z.ltb_ge. exact H. }
  (* round of i *)
  assert (E1 : ystep fx c st y (VSeq i latest) =
               (set_task y i (with_pc ti (PPost seqs upd)), [YPost i seqs upd])).
  { cbn [ystep]. rewrite Hi, Hpi, (Hs0 _ Hsi). unfold yprocess.
    replace (t_lp ti >=? latest) with false by (symmetry; rewrite Z.geb_leb; apply Z.leb_gt; lia).
    replace (t_lp ti <=? 0) with false by (symmetry; apply Z.leb_gt; lia).
    rewrite Hg. destruct seqs; [congruence|reflexivity]. }
  rewrite E1. cbn [fst].
  set (y1 := set_task y i (with_pc ti (PPost seqs upd))).
  assert (Hi1 : nth_error (y_ts y1) i = Some (with_pc ti (PPost seqs upd))).
  { unfold y1. cbn [set_task set_ts y_ts]. eapply nth_upd_same. exact Hi. }
  (* answer of i *)
  assert (E2 : fst (ystep fx c st y1 (VPostOk i)) =
               mkY (y_ns y) (y_entry y) (upd_nth (y_ts y1) i (mkT (t_n ti) PIdle upd 0)) upd (y_act y)
                   (y_acked y ++ seqs) (y_panic y)).
  { cbn [ystep]. rewrite Hi1. reflexivity. }
  rewrite E2.
  set (y2 := mkY (y_ns y) (y_entry y) (upd_nth (y_ts y1) i (mkT (t_n ti) PIdle upd 0)) upd (y_act y)
                 (y_acked y ++ seqs) (y_panic y)).
  assert (Hj2 : nth_error (y_ts y2) j = Some tj).
  { unfold y2, y1. cbn [y_ts set_task set_ts]. rewrite !nth_upd_other by congruence. exact Hj. }
  assert (Hsl2 : sl_of y2 (t_n tj) = sl_of y (t_n tj)) by reflexivity.
  (* round of j *)
  assert (E3 : ystep fx c st y2 (VSeq j latest) =
               (set_task y2 j (with_pc tj (PPost seqs upd)), [YPost j seqs upd])).
  { cbn [ystep]. rewrite Hj2, Hpj, Hsl2, (Hs0 _ Hsj). unfold yprocess. rewrite Hlp.
    replace (t_lp ti >=? latest) with false by (symmetry; rewrite Z.geb_leb; apply Z.leb_gt; lia).
    replace (t_lp ti <=? 0) with false by (symmetry; apply Z.leb_gt; lia).
    rewrite Hg. destruct seqs; [congruence|reflexivity]. }
  rewrite E3. cbn [fst].
  set (y3 := set_task y2 j (with_pc tj (PPost seqs upd))).
  assert (Hj3 : nth_error (y_ts y3) j = Some (with_pc tj (PPost seqs upd))).
  { unfold y3. cbn [set_task set_ts y_ts]. eapply nth_upd_same. exact Hj2. }
  cbn [ystep]. rewrite Hj3. cbn [with_pc t_pc fst y_acked y_rcd].
  unfold y3, y2. cbn [set_task set_ts y_acked]. rewrite <- app_assoc. split; reflexivity.
Qed.

(** * Close *)
(** A goroutine that returned through the LoadBlockLastSequence error path never
    calls Done: Push.Close cannot return any more, whatever happens next. *)
Lemma dead_stays : forall fx c st y e i t,
  nth_error (y_ts y) i = Some t -> is_dead t = true ->
  nth_error (y_ts (fst (ystep fx c st y e))) i = Some t.
Proof.
  intros fx c st y e i t Hi Hd.
  assert (Hsl : forall n v, nth_error (y_ts (set_sl_of y n v)) i = Some t).
  { intros. unfold set_sl_of. destruct (nth_error (y_ns y) n); exact Hi. }
  assert (Hrun : forall n b, nth_error (y_ts (set_run_of y n b)) i = Some t).
  { intros. unfold set_run_of. destruct (nth_error (y_ns y) n); exact Hi. }
  assert (Hupd : forall (ts : list task) j tj t', nth_error ts i = Some t -> nth_error ts j = Some tj -> is_dead tj = false ->
                   nth_error (upd_nth ts j t') i = Some t).
  { intros ts j tj t' H1 H2 H3. rewrite nth_upd_other; [exact H1|]. intros ->. rewrite H1 in H2. inversion H2; subst. congruence. }
  assert (Hspawn : forall y1 n, nth_error (y_ts y1) i = Some t -> nth_error (y_ts (spawn fx y1 n)) i = Some t).
  { intros y1 n H. unfold spawn. destruct fx; cbn [set_ts y_ts]; apply nth_snoc_old.
    - unfold set_run_of. destruct (nth_error (y_ns y1) n); exact H.
    - exact H. }
  destruct e; cbn [ystep].
  - destruct (y_entry y) as [n0|]; [destruct (nth_error (y_ns y) n0) as [f|]; [destruct (n_run f)|]|]; cbn [fst]; try exact Hi.
    + apply Hsl.
    + apply Hspawn. exact Hi.
    + unfold fresh_task. apply Hspawn. exact Hi.
  - destruct (y_act y); exact Hi.
  - exact Hi.
  - cbn [fst set_act y_ts]. unfold fresh_task. apply Hspawn. exact Hi.
  - destruct (nth_error (y_ts y) i0) as [t0|] eqn:H0; [|exact Hi].
    destruct (t_pc t0) eqn:Hp; try exact Hi. cbn [fst set_task set_ts y_ts].
    apply (Hupd _ _ t0); try assumption. unfold is_dead. rewrite Hp. reflexivity.
  - destruct (nth_error (y_ts y) i0) as [t0|] eqn:H0; [|exact Hi].
    destruct (t_pc t0) eqn:Hp; try exact Hi. cbn [fst set_task set_ts y_ts].
    apply (Hupd _ _ t0); [apply Hrun|rewrite (proj1 (set_run_fields _ _ _)); exact H0|unfold is_dead; rewrite Hp; reflexivity].
  - destruct (nth_error (y_ts y) i0) as [t0|] eqn:H0; [|exact Hi].
    destruct (t_pc t0) eqn:Hp; try exact Hi.
    assert (Hnd : is_dead t0 = false) by (unfold is_dead; rewrite Hp; reflexivity).
    assert (Hproc : forall y1, nth_error (y_ts y1) i = Some t -> nth_error (y_ts y1) i0 = Some t0 ->
                      nth_error (y_ts (fst (yprocess c st y1 i0 t0 latest))) i = Some t).
    { intros y1 A B. unfold yprocess. destruct (t_lp t0 >=? latest); [exact A|]. destruct (t_lp t0 <=? 0).
      - cbn [fst set_task set_ts y_ts]. apply (Hupd _ _ t0); assumption.
      - destruct (gpd _ _ _ _ _) as [| |[|x s] u]; cbn [fst set_task set_ts y_ts]; try exact A; apply (Hupd _ _ t0); assumption. }
    destruct (sl_of y (t_n t0) >? 0); [destruct (sl_of y (t_n t0) - 1 >? 0)|]; cbn [fst].
    + apply Hsl.
    + apply Hproc; [apply Hsl|rewrite nth_set_sl_ts; exact H0].
    + apply Hproc; assumption.
  - destruct (nth_error (y_ts y) i0) as [t0|] eqn:H0; [|exact Hi].
    destruct (t_pc t0) eqn:Hp; try exact Hi.
    assert (Hnd : is_dead t0 = false) by (unfold is_dead; rewrite Hp; reflexivity).
    destruct (sl_of y (t_n t0) >? 0); [destruct (sl_of y (t_n t0) - 1 >? 0)|]; cbn [fst set_task set_ts y_ts].
    + apply Hsl.
    + apply (Hupd _ _ t0); [apply Hsl|rewrite nth_set_sl_ts; exact H0|exact Hnd].
    + apply (Hupd _ _ t0); assumption.
  - destruct (nth_error (y_ts y) i0) as [t0|] eqn:H0; [|exact Hi].
    destruct (t_pc t0) eqn:Hp; try exact Hi.
    destruct (sl_of y (t_n t0) >? 0); cbn [fst]; [apply Hsl|exact Hi].
  - destruct (nth_error (y_ts y) i0) as [t0|] eqn:H0; [|exact Hi].
    destruct (t_pc t0) eqn:Hp; try exact Hi. cbn [fst y_ts].
    apply (Hupd _ _ t0); try assumption. unfold is_dead. rewrite Hp. reflexivity.
  - destruct (nth_error (y_ts y) i0) as [t0|] eqn:H0; [|exact Hi].
    destruct (t_pc t0) eqn:Hp; try exact Hi.
    assert (Hnd : is_dead t0 = false) by (unfold is_dead; rewrite Hp; reflexivity).
    destruct (t_fc t0 + 1 >=? 3); [destruct fx|]; cbn [fst set_task set_ts set_entry y_ts].
    + apply (Hupd _ _ t0); [apply Hrun|rewrite (proj1 (set_run_fields _ _ _)); exact H0|exact Hnd].
    + apply (Hupd _ _ t0); [apply Hrun|rewrite (proj1 (set_run_fields _ _ _)); exact H0|exact Hnd].
    + apply (Hupd _ _ t0); [apply Hsl|rewrite nth_set_sl_ts; exact H0|exact Hnd].
  - destruct (nth_error (y_ts y) i0) as [t0|] eqn:H0; [|exact Hi].
    destruct (t_pc t0) eqn:Hp; try exact Hi. cbn [fst set_task set_ts set_entry y_ts].
    apply (Hupd _ _ t0); try assumption. unfold is_dead. rewrite Hp. reflexivity.
  - destruct (nth_error (y_ts y) i0) as [t0|] eqn:H0; [|exact Hi].
    destruct (t_pc t0) eqn:Hp; try exact Hi. cbn [fst set_task set_ts set_act y_ts].
    apply (Hupd _ _ t0); try assumption. unfold is_dead. rewrite Hp. reflexivity.
  - destruct (y_entry y) as [n0|]; [destruct (nth_error (y_ns y) n0) as [f|]; [destruct (n_closed f)|]|]; exact Hi.
  - destruct (nth_error (y_ts y) i0) as [t0|] eqn:H0; [|exact Hi].
    destruct (t_pc t0) eqn:Hp; try exact Hi.
    destruct (nth_error (y_ns y) (t_n t0)) as [f|]; [destruct (n_closed f)|]; try exact Hi.
    cbn [fst set_task set_ts y_ts]. apply (Hupd _ _ t0); try assumption. unfold is_dead. rewrite Hp. reflexivity.
  - destruct (forallb is_dead (y_ts y)); [destruct (y_act y)|]; cbn [fst]; try exact Hi.
    unfold fresh_task. apply Hspawn. exact Hi.
Qed.

Lemma leaked_never_done : forall fx c st es y i t,
  nth_error (y_ts y) i = Some t -> t_pc t = PDead false ->
  all_done (yrun fx c st y es) = false.
Proof.
  induction es as [|e es IH]; intros y i t Hi Hp; cbn [yrun].
  - unfold all_done. destruct (forallb _ (y_ts y)) eqn:E; [|reflexivity].
    pose proof (forallb_nth _ _ _ _ _ E Hi) as H. cbn beta in H. rewrite Hp in H. discriminate.
  - apply (IH _ i t); [|exact Hp]. apply dead_stays; [exact Hi|]. unfold is_dead. rewrite Hp. reflexivity.
Qed.

Lemma error_exit_blocks_close : forall fx c st y i t es,
  nth_error (y_ts y) i = Some t -> t_pc t = PIdle -> sl_of y (t_n t) <= 0 ->
  all_done (yrun fx c st y (VSeqErr i :: es)) = false.
Proof.
  intros fx c st y i t es Hi Hp Hs. cbn [yrun].
  apply (leaked_never_done fx c st es _ i (with_pc t (PDead false))); [|reflexivity].
  cbn [ystep]. rewrite Hi, Hp.
  replace (sl_of y (t_n t) >? 0) with false by (symmetry; rewrite Z.gtb_ltb; apply Z.ltb_ge; exact Hs).
  cbn [fst set_task set_ts y_ts]. eapply nth_upd_same. exact Hi.
Qed.

Lemma close_twice_panics : forall fx c st y n f,
  y_entry y = Some n -> nth_error (y_ns y) n = Some f ->
  y_panic (yrun fx c st y [VClose; VClose]) = true.
Proof.
  intros fx c st [ns en ts rcd act ack pan] n f He Hf. cbn [y_entry y_ns] in He, Hf. subst en.
  cbn [yrun].
  assert (S1 : fst (ystep fx c st (mkY ns (Some n) ts rcd act ack pan) VClose) =
               if n_closed f then mkY ns (Some n) ts rcd act ack true
               else mkY (upd_nth ns n (mkN (n_run f) (n_sl f) true)) (Some n) ts rcd act ack pan).
  { cbn [ystep y_entry y_ns]. rewrite Hf. destruct (n_closed f); reflexivity. }
  rewrite S1. destruct (n_closed f) eqn:Ec.
  - cbn [ystep y_entry y_ns]. rewrite Hf, Ec. reflexivity.
  - cbn [ystep y_entry y_ns]. rewrite (nth_upd_same _ _ _ _ _ Hf). reflexivity.
Qed.
