(** C32 — the task invariant and the main theorems. *)
From Coq Require Import List ZArith Bool Lia Sorted.
From C33 Require Import C32.Model C32.Spec C32.ProofsGpd.
Import ListNotations.
Open Scope Z_scope.

Section Inv.
  Variable c : cfg.
  Variable st : store.
  Variable r0 : Z.

  Let M := matching (c_kind c) st.

  (** The invariant.  The stored sequence [rcd] is the frontier: once something
      was acknowledged, the acknowledged list is exactly the deliverable part of
      (r, rcd] for the resume point r; a running task has looked at everything up
      to [lp] and found nothing deliverable in (rcd, lp]; a post in flight carries
      exactly the deliverable part of (lp, upd]. *)
  Record inv (s : state) : Prop := mkInv {
    i_nil : acked s = [] -> rcd s = r0;
    i_acked : acked s <> [] ->
              0 < rcd s /\ exists r, (0 < r0 -> r = r0) /\ r <= rcd s /\ acked s = rf M r (rcd s);
    i_run : run s = true -> 0 < rcd s -> rcd s <= lp s /\ rf M (rcd s) (lp s) = [];
    i_pend : forall seqs upd, pend s = Some (seqs, upd) ->
             run s = true /\ 0 < lp s /\ lp s <= upd /\ seqs <> [] /\ seqs = rf M (lp s) upd
  }.

  Lemma inv_init : inv (init_state r0).
  Proof.
    constructor; cbn [init_state acked rcd run lp pend]; intros.
    - reflexivity.
    - congruence.
    - split; [lia|apply rf_same].
    - discriminate.
  Qed.

  Lemma inv_set_sl : forall s v, inv s -> inv (set_sl s v).
  Proof. intros s v [H1 H2 H3 H4]. constructor; cbn [set_sl acked rcd run lp pend]; assumption. Qed.

  Lemma inv_new_task : forall s, inv s -> inv (new_task s).
  Proof.
    intros s [H1 H2 H3 H4]. constructor; cbn [new_task acked rcd run lp pend]; try assumption; intros.
    - split; [lia|apply rf_same].
    - discriminate.
  Qed.

  Lemma inv_process : forall s latest,
    inv s -> run s = true -> pend s = None -> inv (fst (process c st s latest)).
  Proof.
    intros s latest I Hr Hp. unfold process.
    destruct (lp s >=? latest) eqn:E1; [exact I|].
    destruct (lp s <=? 0) eqn:E2.
    { destruct I as [H1 H2 H3 H4].
      constructor; cbn [fst set_lp acked rcd run lp pend]; try assumption.
      - intros _ Hpos. destruct (H3 Hr Hpos). lia.
      - intros seqs upd Hs. rewrite Hp in Hs. discriminate. }
    destruct (gpd (c_kind c) st (lp s + 1) (Z.min (c_maxcnt c) (latest - lp s)) (c_maxsize c))
      as [| |seqs upd] eqn:Eg; try exact I.
    apply gpd_spec in Eg as [Hupd Hseqs].
    replace (lp s + 1 - 1) with (lp s) in * by lia. fold M in Hseqs.
    destruct I as [H1 H2 H3 H4].
    destruct seqs as [|x seqs].
    - constructor; cbn [fst acked rcd run lp pend]; try assumption.
      + intros _ Hpos. destruct (H3 Hr Hpos) as [Hle Hnil]. split; [lia|].
        rewrite (rf_split M (rcd s) (lp s) upd) by lia. rewrite Hnil, <- Hseqs. reflexivity.
      + discriminate.
    - constructor; cbn [fst acked rcd run lp pend]; try assumption.
      intros seqs' upd' Hs. inversion Hs; subst seqs' upd'.
      repeat split; try assumption; try lia. discriminate.
  Qed.

  Lemma inv_step : forall s e, inv s -> inv (fst (step c st s e)).
  Proof.
    intros s e I. destruct e as [latest| | | | | |]; cbn [step].
    - (* ESeq *)
      destruct (run s) eqn:Hr; cbn [negb]; [|exact I].
      destruct (pend s) as [p|] eqn:Hp; [exact I|].
      destruct (sl s >? 0).
      + destruct (sl (set_sl s (sl s - 1)) >? 0); [apply inv_set_sl; exact I|].
        apply inv_process; [apply inv_set_sl; exact I| exact Hr | exact Hp].
      + apply inv_process; assumption.
    - (* ETick *)
      destruct (run s); cbn [negb]; [|exact I].
      destruct (pend s); [exact I|].
      destruct (sl s >? 0); [apply inv_set_sl|]; exact I.
    - (* EPostOk *)
      destruct (pend s) as [[seqs upd]|] eqn:Hp; [|exact I].
      destruct I as [H1 H2 H3 H4].
      destruct (H4 _ _ Hp) as (Hr & Hlp & Hle & Hne & Hseqs).
      constructor; cbn [fst acked rcd run lp pend].
      + intros Hnil. apply app_eq_nil in Hnil as [_ Hnil]. congruence.
      + intros _. split; [lia|].
        destruct (acked s) as [|a0 al] eqn:Ea.
        * (* first acknowledgement *)
          specialize (H1 eq_refl).
          destruct (Z_lt_le_dec 0 r0) as [Hpos|Hnpos].
          -- exists r0. split; [reflexivity|].
             assert (Hrp : 0 < rcd s) by lia. destruct (H3 Hr Hrp) as [Hle2 Hnil].
             rewrite H1 in *. split; [lia|]. cbn [app].
             rewrite (rf_split M r0 (lp s) upd) by lia. rewrite Hnil. cbn [app]. exact Hseqs.
          -- exists (lp s). split; [lia|]. split; [lia|]. cbn [app]. exact Hseqs.
        * assert (Hne2 : a0 :: al <> []) by discriminate.
          destruct (H2 Hne2) as (Hrp & r & Hr0 & Hrle & Hack).
          destruct (H3 Hr Hrp) as [Hle2 Hnil].
          exists r. split; [exact Hr0|]. split; [lia|].
          rewrite (rf_split M r (rcd s) upd) by lia.
          rewrite (rf_split M (rcd s) (lp s) upd) by lia.
          rewrite Hnil, <- Hack, <- Hseqs. reflexivity.
      + intros _ _. split; [lia|apply rf_same].
      + discriminate.
    - (* EPostFail *)
      destruct (pend s) as [p|] eqn:Hp; [|exact I].
      destruct I as [H1 H2 H3 H4].
      destruct (fc s + 1 >=? 3); constructor; cbn [fst acked rcd run lp pend]; try assumption; try discriminate.
    - (* EResume *)
      destruct (intask s).
      + destruct (act (set_sl s 0)); cbn [fst].
        * apply inv_set_sl; exact I.
        * apply (inv_set_sl s 0) in I. destruct I as [H1 H2 H3 H4].
          constructor; cbn [acked rcd run lp pend]; assumption.
      + destruct (act (new_task s)); cbn [fst].
        * apply inv_new_task; exact I.
        * apply inv_new_task in I. destruct I as [H1 H2 H3 H4].
          constructor; cbn [acked rcd run lp pend]; assumption.
    - (* EClose *)
      destruct (pend s) eqn:Hp; [exact I|].
      destruct I as [H1 H2 H3 H4].
      constructor; cbn [fst acked rcd run lp pend]; try assumption; discriminate.
    - (* ERestart *)
      destruct (run s); [exact I|].
      destruct (pend s) eqn:Hp; [exact I|].
      destruct (act s); cbn [fst]; [apply inv_new_task; exact I|].
      destruct I as [H1 H2 H3 H4].
      constructor; cbn [acked rcd run lp pend]; try assumption; discriminate.
  Qed.

  Lemma inv_run : forall es s, inv s -> inv (run_events c st s es).
  Proof.
    induction es as [|e es IH]; intros s I; cbn [run_events]; [exact I|].
    apply IH, inv_step, I.
  Qed.

  Lemma inv_reachable : forall es, inv (run_events c st (init_state r0) es).
  Proof. intros es. apply inv_run, inv_init. Qed.

  (** Main results. *)
  Lemma acked_contiguous : forall es,
    let s := run_events c st (init_state r0) es in
    exists r, (0 < r0 -> r = r0) /\
              contiguous_from (c_kind c) st r (acked s) /\
              StronglySorted Z.lt (acked s).
  Proof.
    intros es s. destruct (inv_reachable es) as [H1 H2 H3 H4]. fold s in H1, H2, H3, H4.
    destruct (acked s) as [|a al] eqn:Ea.
    - exists r0. split; [reflexivity|]. split; [exists O; reflexivity|constructor].
    - assert (Hne : a :: al <> []) by discriminate.
      destruct (H2 Hne) as (_ & r & Hr0 & Hle & Hack).
      exists r. split; [exact Hr0|]. split.
      + exists (Z.to_nat (rcd s - r)). exact Hack.
      + rewrite Hack. apply filter_sorted, zrange_sorted.
  Qed.

  Lemma recorded_after_ack : forall es,
    let s := run_events c st (init_state r0) es in
    recorded_justified (c_kind c) st r0 (rcd s) (acked s).
  Proof.
    intros es s. destruct (inv_reachable es) as [H1 H2 H3 H4]. fold s in H1, H2, H3, H4.
    destruct (acked s) as [|a al] eqn:Ea.
    - left. apply H1. reflexivity.
    - right. assert (Hne : a :: al <> []) by discriminate.
      destruct (H2 Hne) as (_ & r & _ & Hle & Hack).
      split; [exact Hne|]. rewrite Hack in Hne |- *.
      destruct (rf_last M r (rcd s) Hne) as [Hl Hnone]. split; [lia|exact Hnone].
  Qed.
End Inv.

(** Block, header and result pushes: plain consecutive integers. *)
Lemma block_kinds_consecutive : forall c st r0 es,
  c_kind c <> KRecv ->
  let s := run_events c st (init_state r0) es in
  exists r n, (0 < r0 -> r = r0) /\ acked s = zrange (r + 1) n /\
              (rcd s = r0 \/ (acked s <> [] /\ rcd s = last (acked s) 0)).
Proof.
  intros c st r0 es Hk s.
  destruct (inv_reachable c st r0 es) as [H1 H2 H3 H4]. fold s in H1, H2, H3, H4.
  assert (HM : matching (c_kind c) st = fun _ => true) by (destruct (c_kind c); [reflexivity|congruence|reflexivity]).
  destruct (acked s) as [|a al] eqn:Ea.
  - exists r0, O. split; [reflexivity|]. split; [reflexivity|]. left. apply H1. reflexivity.
  - assert (Hne : a :: al <> []) by discriminate.
    destruct (H2 Hne) as (Hpos & r & Hr0 & Hle & Hack).
    rewrite HM, rf_true in Hack.
    exists r, (Z.to_nat (rcd s - r)). split; [exact Hr0|]. split; [exact Hack|].
    right. split; [exact Hne|]. rewrite Hack.
    assert (Hn : Z.to_nat (rcd s - r) <> O) by (intro E; rewrite E in Hack; discriminate).
    destruct (Z.to_nat (rcd s - r)) as [|n] eqn:En; [congruence|].
    replace (S n) with (n + 1)%nat by lia. rewrite zrange_app. cbn [zrange]. rewrite last_last. lia.
Qed.

(** Progress of a receipt-type subscriber: when the next sequence number is
    deliverable and its message is smaller than the size limit, the round posts
    a payload that starts with it. *)
Lemma skipn_nth : forall (A : Type) (n : nat) (l : list A) e,
  nth_error l n = Some e -> exists tl, skipn n l = e :: tl.
Proof.
  induction n as [|n IH]; intros l e H; destruct l as [|x l]; try discriminate.
  - inversion H; subst. exists l. reflexivity.
  - cbn [skipn]. apply IH. exact H.
Qed.

Lemma deliverable_posted : forall c st s latest size,
  c_kind c = KRecv -> 1 <= c_maxcnt c ->
  run s = true -> pend s = None -> sl s <= 0 -> 0 < lp s ->
  lp s < latest -> latest < Z.of_nat (length st) ->
  lookup st (lp s + 1) = Some (size, true) -> size < c_maxsize c ->
  let r := step c st s (ESeq latest) in
  exists seqs upd,
    snd r = [OPost (lp s + 1 :: seqs) upd] /\
    pend (fst r) = Some (lp s + 1 :: seqs, upd) /\ lp s + 1 <= upd /\
    lp (fst r) = lp s /\ rcd (fst r) = rcd s /\ acked (fst r) = acked s.
Proof.
  intros c st s latest size Hk Hc Hr Hp Hsl Hlp Hlt Hlen Hl Hsz r. subst r.
  cbn [step]. rewrite Hr, Hp. cbn [negb].
  assert (Hs0 : (sl s >? 0) = false) by (rewrite Z.gtb_ltb; apply Z.ltb_ge; lia).
  rewrite Hs0.
  unfold process.
  replace (lp s >=? latest) with false by (symmetry; rewrite Z.geb_leb; apply Z.leb_gt; lia).
  replace (lp s <=? 0) with false by (symmetry; apply Z.leb_gt; lia).
  unfold gpd. rewrite Hk.
  destruct (Z.to_nat (Z.min (c_maxcnt c) (latest - lp s))) as [|n] eqn:En; [lia|].
  unfold lookup in Hl. unfold suffix.
  destruct (lp s + 1 <? 0); [discriminate|].
  destruct (skipn_nth _ _ _ _ Hl) as [tl Etl].
  assert (Hsome : rcv_loop (c_maxsize c) (S n) (skipn (Z.to_nat (lp s + 1)) st) (lp s + 1) 0 <> None).
  { apply rcv_loop_some. rewrite skipn_length. lia. }
  destruct (rcv_loop (c_maxsize c) (S n) (skipn (Z.to_nat (lp s + 1)) st) (lp s + 1) 0)
    as [[a it]|] eqn:E; [|congruence].
  rewrite Etl in E. destruct (rcv_loop_progress _ _ _ _ _ _ _ Hsz E) as (Hit & a' & ->).
  exists a', (lp s + 1 + it - 1). cbn [fst snd lp rcd acked pend].
  repeat split; try reflexivity. lia.
Qed.

(** Liveness remark (unchanged by the repair of the boundary test, and pinned by
    push_test.go Test_PostEVMEvent_bigsize): an entry whose message is not
    smaller than the size limit is never passed by a receipt-type subscriber —
    every round leaves the position where it was and posts nothing. *)
Lemma oversize_stalls : forall c st s latest size has,
  c_kind c = KRecv -> 1 <= c_maxcnt c ->
  run s = true -> pend s = None -> sl s <= 0 -> 0 < lp s ->
  lookup st (lp s + 1) = Some (size, has) -> c_maxsize c <= size ->
  let r := step c st s (ESeq latest) in
  lp (fst r) = lp s /\ rcd (fst r) = rcd s /\ acked (fst r) = acked s /\
  pend (fst r) = None /\ run (fst r) = true /\ snd r = [].
Proof.
  intros c st s latest size has Hk Hc Hr Hp Hsl Hlp Hl Hsz r. subst r.
  cbn [step]. rewrite Hr, Hp. cbn [negb].
  assert (Hs0 : (sl s >? 0) = false) by (rewrite Z.gtb_ltb; apply Z.ltb_ge; lia).
  rewrite Hs0.
  unfold process.
  destruct (lp s >=? latest) eqn:E1; [cbn [fst snd]; repeat split; assumption|].
  replace (lp s <=? 0) with false by (symmetry; apply Z.leb_gt; lia).
  assert (Hcnt : 1 <= Z.min (c_maxcnt c) (latest - lp s)).
  { rewrite Z.geb_leb in E1. apply Z.leb_gt in E1. lia. }
  unfold gpd. rewrite Hk.
  destruct (Z.to_nat (Z.min (c_maxcnt c) (latest - lp s))) as [|n] eqn:En; [lia|].
  unfold lookup in Hl. unfold suffix.
  destruct (lp s + 1 <? 0); [discriminate|].
  destruct (skipn_nth _ _ _ _ Hl) as [tl ->].
  cbn [rcv_loop].
  replace (0 + size <? c_maxsize c) with false by (symmetry; apply Z.ltb_ge; lia).
  rewrite andb_false_r.
  replace (0 + size >=? c_maxsize c) with true by (symmetry; rewrite Z.geb_leb; apply Z.leb_le; lia).
  cbn [fst snd lp rcd acked pend run]. repeat split; try assumption; try lia.
Qed.
