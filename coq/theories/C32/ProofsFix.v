(** C32 — the proposed repair of getTxReceipts / getEVMEvent (work/C32/fix.diff):
      if len(perBlk) > 0 && (totalSize == 0 || totalSize+size < maxSize) { append }
      else if totalSize+size >= maxSize { break }
      actualIterCount++
    never counts a deliverable entry without appending it, and never stops in
    front of a deliverable entry when the batch is still empty. *)
From Coq Require Import List ZArith Bool Lia.
From C33 Require Import C32.Model C32.Spec C32.ProofsGpd.
Import ListNotations.
Open Scope Z_scope.

Fixpoint rcv_loop_fix (max : Z) (n : nat) (l : store) (seq total : Z) : option (list Z * Z) :=
  match n with
  | O => Some ([], 0)
  | S n' =>
      match l with
      | [] => None
      | (size, has) :: tl =>
          if has && ((total =? 0) || (total + size <? max))
          then match rcv_loop_fix max n' tl (seq + 1) (total + size) with
               | Some (a, it) => Some (seq :: a, it + 1)
               | None => None
               end
          else if total + size >=? max then Some ([], 0)
          else match rcv_loop_fix max n' tl (seq + 1) total with
               | Some (a, it) => Some (a, it + 1)
               | None => None
               end
      end
  end.

Lemma rcv_loop_fix_spec : forall max n l seq total a it,
  rcv_loop_fix max n l seq total = Some (a, it) ->
  exists m : nat, it = Z.of_nat m /\ a = filter (hasl l seq) (zrange seq m).
Proof.
  induction n as [|n IH]; intros l seq total a it H; cbn [rcv_loop_fix] in H.
  - inversion H; subst. exists O. split; reflexivity.
  - destruct l as [|[size has] tl]; [discriminate|].
    destruct (has && ((total =? 0) || (total + size <? max))) eqn:E1.
    + destruct (rcv_loop_fix max n tl (seq + 1) (total + size)) as [[a' it']|] eqn:E; [|discriminate].
      inversion H; subst. destruct (IH _ _ _ _ _ E) as (m & -> & ->).
      exists (S m). split; [lia|]. cbn [zrange filter]. rewrite hasl_hd.
      apply andb_true_iff in E1 as [-> _]. f_equal. symmetry. apply filter_hasl_tl.
    + destruct (total + size >=? max) eqn:E2.
      * inversion H; subst. exists O. split; reflexivity.
      * assert (Hh : has = false).
        { destruct has; [|reflexivity]. cbn [andb] in E1. apply orb_false_iff in E1 as [_ E1].
          rewrite Z.geb_leb in E2. apply Z.leb_gt in E2. apply Z.ltb_ge in E1. lia. }
        subst has.
        destruct (rcv_loop_fix max n tl (seq + 1) total) as [[a' it']|] eqn:E; [|discriminate].
        inversion H; subst. destruct (IH _ _ _ _ _ E) as (m & -> & ->).
        exists (S m). split; [lia|]. cbn [zrange filter]. rewrite hasl_hd.
        symmetry. apply filter_hasl_tl.
Qed.

Lemma rcv_loop_fix_progress : forall max n size tl seq a it,
  rcv_loop_fix max (S n) ((size, true) :: tl) seq 0 = Some (a, it) ->
  1 <= it /\ In seq a.
Proof.
  intros max n size tl seq a it H. cbn [rcv_loop_fix] in H.
  replace (0 =? 0) with true in H by reflexivity. cbn [andb orb] in H.
  destruct (rcv_loop_fix max n tl (seq + 1) (0 + size)) as [[a' it']|] eqn:E; [|discriminate].
  inversion H; subst. destruct (rcv_loop_fix_spec _ _ _ _ _ _ _ E) as (m & -> & _).
  split; [lia|now left].
Qed.
