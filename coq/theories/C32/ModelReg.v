(** C32 — registration and task start-up / shutdown as a labelled transition
    system over several task goroutines of ONE subscriber name (blockchain/push.go
    addSubscriber, check2ResumePush, setActive, persisAndStart, addTask, runTask,
    Close, init), as coded.

    Model.v has one task whose start is atomic.  Here a subscriber owns
      - the stored record: last push sequence [y_rcd], status [y_act];
      - every pushNotify object ever made for the name ([y_ns]; status, sleep
        counter, closechan closed), and which of them push.tasks[key] points to
        ([y_entry]);
      - every goroutine ever spawned by runTask ([y_ts]) with its program counter:
          PStart   spawned (go func), getLastPushSeq not yet done
          PRead    lastProcessedseq read, status not yet written
          PIdle    in the select
          PPost    PostData in flight
          PDeact1  third failure: status := notRunning written, delete(tasks) not done
          PDeact2  entry deleted, stored status not yet written
          PDead b  returned; b = postwg.Done() was called.
    Events are the atomic steps:
      VReg       check2ResumePush (whole body: it holds push.mu; the status is read
                 with an atomic load, runTask = updateLastSeq + go func)
      VActive    setActive
      VSetLast v / VAddTask   steps of a SECOND first registration of the same name
                 that passed hasSubscriberExist before the first one stored the
                 record: setLastPushSeq(v); addTask + SetSync(record, active)
      VRead i / VRun i   start-up of goroutine i: getLastPushSeq; status := running
      VSeq i l   goroutine i takes a sequence notification, LoadBlockLastSequence = l
      VSeqErr i  the same, LoadBlockLastSequence fails: return without postwg.Done()
      VTick i    goroutine i takes a runChan token
      VPostOk i / VPostFail i   PostData returns
      VDel i / VDeact i   delete(push.tasks, key); SetSync(record, notActive) + Done
      VClose     Push.Close closes the closechan of the entry (panics when closed)
      VExit i    goroutine i takes closechan
      VRestart   new Push over the same stores (only when every goroutine returned).
    The notification queue is not a state component: a notification may be taken
    at any time (a superset of the real schedules; a spurious round changes
    nothing that is delivered).

    [fx] switches the repair (work/C32/fix2.diff, applied to /repo): runTask marks the
    pushNotify running before it spawns (under the caller's push.mu), and the
    deactivation writes status notRunning and deletes the entry (when it still
    is its own pushNotify) in one critical section.  The code before the repair is [fx = false]; /repo is [fx = true]. *)
From Coq Require Import List ZArith Bool.
From C33 Require Import C32.Model.
Import ListNotations.
Open Scope Z_scope.

Inductive pc :=
| PStart | PRead | PIdle
| PPost (seqs : list Z) (upd : Z)
| PDeact1 | PDeact2
| PDead (done : bool).

Record task := mkT { t_n : nat; t_pc : pc; t_lp : Z; t_fc : Z }.
Record notif := mkN { n_run : bool; n_sl : Z; n_closed : bool }.

Record sys := mkY {
  y_ns : list notif;
  y_entry : option nat;
  y_ts : list task;
  y_rcd : Z;             (* stored last push sequence, -1 when absent *)
  y_act : bool;          (* stored status is active *)
  y_acked : list Z;      (* ghost: sequence numbers of all payloads answered ok, in order *)
  y_panic : bool         (* Close closed a closed channel *)
}.

Inductive yev :=
| VReg | VActive | VSetLast (v : Z) | VAddTask
| VRead (i : nat) | VRun (i : nat)
| VSeq (i : nat) (latest : Z) | VSeqErr (i : nat) | VTick (i : nat)
| VPostOk (i : nat) | VPostFail (i : nat)
| VDel (i : nat) | VDeact (i : nat)
| VClose | VExit (i : nat) | VRestart.

Inductive yout :=
| YPost (i : nat) (seqs : list Z) (upd : Z)
| YRec (n : Z)
| YStatus (s : Z)
| YStarted.

Fixpoint upd_nth {A : Type} (l : list A) (i : nat) (x : A) : list A :=
  match l, i with
  | [], _ => []
  | _ :: tl, O => x :: tl
  | a :: tl, S i' => a :: upd_nth tl i' x
  end.

Definition set_ts (y : sys) (ts : list task) : sys :=
  mkY (y_ns y) (y_entry y) ts (y_rcd y) (y_act y) (y_acked y) (y_panic y).
Definition set_ns (y : sys) (ns : list notif) : sys :=
  mkY ns (y_entry y) (y_ts y) (y_rcd y) (y_act y) (y_acked y) (y_panic y).
Definition set_entry (y : sys) (e : option nat) : sys :=
  mkY (y_ns y) e (y_ts y) (y_rcd y) (y_act y) (y_acked y) (y_panic y).
Definition set_act (y : sys) (a : bool) : sys :=
  mkY (y_ns y) (y_entry y) (y_ts y) (y_rcd y) a (y_acked y) (y_panic y).

Definition set_task (y : sys) (i : nat) (t : task) : sys := set_ts y (upd_nth (y_ts y) i t).
Definition set_notif (y : sys) (n : nat) (f : notif) : sys := set_ns y (upd_nth (y_ns y) n f).

Definition with_pc (t : task) (p : pc) : task := mkT (t_n t) p (t_lp t) (t_fc t).

(** The sleep counter of notify [n] (0 when there is no such object). *)
Definition sl_of (y : sys) (n : nat) : Z :=
  match nth_error (y_ns y) n with Some f => n_sl f | None => 0 end.
Definition set_sl_of (y : sys) (n : nat) (v : Z) : sys :=
  match nth_error (y_ns y) n with
  | Some f => set_notif y n (mkN (n_run f) v (n_closed f))
  | None => y
  end.
Definition set_run_of (y : sys) (n : nat) (b : bool) : sys :=
  match nth_error (y_ns y) n with
  | Some f => set_notif y n (mkN b (n_sl f) (n_closed f))
  | None => y
  end.

(** The repaired deactivation deletes push.tasks[key] only when it still is
    the goroutine's own pushNotify. *)
Definition drop_own (e : option nat) (n : nat) : option nat :=
  match e with
  | Some m => if Nat.eqb m n then None else Some m
  | None => None
  end.

(** runTask on notify [n]: updateLastSeq, then go func. *)
Definition spawn (fx : bool) (y : sys) (n : nat) : sys :=
  let y1 := if fx then set_run_of y n true else y in
  set_ts y1 (y_ts y1 ++ [mkT n PStart 0 0]).

(** A fresh pushNotify becomes push.tasks[key], then runTask. *)
Definition fresh_task (fx : bool) (y : sys) : sys :=
  let n := length (y_ns y) in
  spawn fx (set_entry (set_ns y (y_ns y ++ [mkN false 0 false])) (Some n)) n.

Definition is_dead (t : task) : bool :=
  match t_pc t with PDead _ => true | _ => false end.

(** State right after persisAndStart of the first registration: [r0] is the
    stored last sequence (LastSequence of the request when its hash matched,
    else -1); the goroutine is spawned and has not run yet. *)
Definition init_sys0 (fx : bool) (r0 : Z) : sys :=
  mkY [mkN fx 0 false] (Some O) [mkT O PStart 0 0] r0 true [] false.

(** ... and after its start-up: the state Model.init_state describes. *)
Definition init_sys (r0 : Z) : sys :=
  mkY [mkN true 0 false] (Some O) [mkT O PIdle r0 0] r0 true [] false.

(** The body of the seqUpdateChan case after the sleep test, for goroutine [i]. *)
Definition yprocess (c : cfg) (st : store) (y : sys) (i : nat) (t : task) (latest : Z) : sys * list yout :=
  if t_lp t >=? latest then (y, [])
  else if t_lp t <=? 0 then (set_task y i (mkT (t_n t) PIdle latest (t_fc t)), [])
  else
    let cnt := Z.min (c_maxcnt c) (latest - t_lp t) in
    match gpd (c_kind c) st (t_lp t + 1) cnt (c_maxsize c) with
    | GErr => (y, [])
    | GPanic => (y, [])
    | GData [] upd => (set_task y i (mkT (t_n t) PIdle upd 0), [])
    | GData seqs upd => (set_task y i (with_pc t (PPost seqs upd)), [YPost i seqs upd])
    end.

Definition ystep (fx : bool) (c : cfg) (st : store) (y : sys) (e : yev) : sys * list yout :=
  match e with
  | VReg =>
      match y_entry y with
      | None => (fresh_task fx y, [YStarted])
      | Some n =>
          match nth_error (y_ns y) n with
          | None => (y, [])
          | Some f => if n_run f then (set_sl_of y n 0, []) else (spawn fx y n, [YStarted])
          end
      end
  | VActive => if y_act y then (y, []) else (set_act y true, [YStatus 1])
  | VSetLast v =>
      (mkY (y_ns y) (y_entry y) (y_ts y) v (y_act y) (y_acked y) (y_panic y), [YRec v])
  | VAddTask => (set_act (fresh_task fx y) true, [YStarted; YStatus 1])
  | VRead i =>
      match nth_error (y_ts y) i with
      | Some t => match t_pc t with
                  | PStart => (set_task y i (mkT (t_n t) PRead (y_rcd y) (t_fc t)), [])
                  | _ => (y, [])
                  end
      | None => (y, [])
      end
  | VRun i =>
      match nth_error (y_ts y) i with
      | Some t => match t_pc t with
                  | PRead => (set_task (set_run_of y (t_n t) true) i (with_pc t PIdle), [])
                  | _ => (y, [])
                  end
      | None => (y, [])
      end
  | VSeq i latest =>
      match nth_error (y_ts y) i with
      | Some t =>
          match t_pc t with
          | PIdle =>
              let s := sl_of y (t_n t) in
              if s >? 0 then
                let y' := set_sl_of y (t_n t) (s - 1) in
                if s - 1 >? 0 then (y', []) else yprocess c st y' i t latest
              else yprocess c st y i t latest
          | _ => (y, [])
          end
      | None => (y, [])
      end
  | VSeqErr i =>
      match nth_error (y_ts y) i with
      | Some t =>
          match t_pc t with
          | PIdle =>
              let s := sl_of y (t_n t) in
              if s >? 0 then
                let y' := set_sl_of y (t_n t) (s - 1) in
                if s - 1 >? 0 then (y', []) else (set_task y' i (with_pc t (PDead false)), [])
              else (set_task y i (with_pc t (PDead false)), [])
          | _ => (y, [])
          end
      | None => (y, [])
      end
  | VTick i =>
      match nth_error (y_ts y) i with
      | Some t =>
          match t_pc t with
          | PIdle => let s := sl_of y (t_n t) in
                     if s >? 0 then (set_sl_of y (t_n t) (s - 1), []) else (y, [])
          | _ => (y, [])
          end
      | None => (y, [])
      end
  | VPostOk i =>
      match nth_error (y_ts y) i with
      | Some t =>
          match t_pc t with
          | PPost seqs upd =>
              (mkY (y_ns y) (y_entry y) (upd_nth (y_ts y) i (mkT (t_n t) PIdle upd 0))
                   upd (y_act y) (y_acked y ++ seqs) (y_panic y), [YRec upd])
          | _ => (y, [])
          end
      | None => (y, [])
      end
  | VPostFail i =>
      match nth_error (y_ts y) i with
      | Some t =>
          match t_pc t with
          | PPost _ _ =>
              if t_fc t + 1 >=? 3 then
                let y1 := set_run_of y (t_n t) false in
                if fx
                then (set_task (set_entry y1 (drop_own (y_entry y1) (t_n t))) i
                               (mkT (t_n t) PDeact2 (t_lp t) (t_fc t + 1)), [])
                else (set_task y1 i (mkT (t_n t) PDeact1 (t_lp t) (t_fc t + 1)), [])
              else (set_task (set_sl_of y (t_n t) (c_f2s c)) i (mkT (t_n t) PIdle (t_lp t) (t_fc t + 1)), [])
          | _ => (y, [])
          end
      | None => (y, [])
      end
  | VDel i =>
      match nth_error (y_ts y) i with
      | Some t => match t_pc t with
                  | PDeact1 => (set_task (set_entry y None) i (with_pc t PDeact2), [])
                  | _ => (y, [])
                  end
      | None => (y, [])
      end
  | VDeact i =>
      match nth_error (y_ts y) i with
      | Some t => match t_pc t with
                  | PDeact2 => (set_task (set_act y false) i (with_pc t (PDead true)), [YStatus 2])
                  | _ => (y, [])
                  end
      | None => (y, [])
      end
  | VClose =>
      match y_entry y with
      | None => (y, [])
      | Some n =>
          match nth_error (y_ns y) n with
          | None => (y, [])
          | Some f =>
              if n_closed f
              then (mkY (y_ns y) (y_entry y) (y_ts y) (y_rcd y) (y_act y) (y_acked y) true, [])
              else (set_notif y n (mkN (n_run f) (n_sl f) true), [])
          end
      end
  | VExit i =>
      match nth_error (y_ts y) i with
      | Some t =>
          match t_pc t with
          | PIdle =>
              match nth_error (y_ns y) (t_n t) with
              | Some f => if n_closed f then (set_task y i (with_pc t (PDead true)), []) else (y, [])
              | None => (y, [])
              end
          | _ => (y, [])
          end
      | None => (y, [])
      end
  | VRestart =>
      if forallb is_dead (y_ts y) then
        if y_act y then (fresh_task fx (set_entry y None), [YStarted]) else (set_entry y None, [])
      else (y, [])
  end.

Fixpoint yrun (fx : bool) (c : cfg) (st : store) (y : sys) (es : list yev) : sys :=
  match es with
  | [] => y
  | e :: tl => yrun fx c st (fst (ystep fx c st y e)) tl
  end.

(** The code in /repo as it is now: the repair (work/C32/fix2.diff) is applied.
    Check.v runs the transition system with this switch. *)
Definition code_fx : bool := true.

(** * Classes of goroutines *)
(** Can still call PostData. *)
Definition posting (t : task) : bool :=
  match t_pc t with PStart | PRead | PIdle | PPost _ _ => true | _ => false end.
(** Refers to the push.tasks entry (posting, or about to delete the entry). *)
Definition owner (t : task) : bool :=
  match t_pc t with PStart | PRead | PIdle | PPost _ _ | PDeact1 => true | _ => false end.
(** Inside a start-up or shutdown window: the status of its pushNotify says
    "not running" although the goroutine exists. *)
Definition in_window (t : task) : bool :=
  match t_pc t with PStart | PRead | PDeact1 => true | _ => false end.

Fixpoint cnt {A : Type} (p : A -> bool) (l : list A) : nat :=
  match l with
  | [] => O
  | x :: tl => ((if p x then 1 else 0) + cnt p tl)%nat
  end.

Definition live_tasks (y : sys) : nat := cnt posting (y_ts y).
Definition no_window (y : sys) : bool := forallb (fun t => negb (in_window t)) (y_ts y).

(** * The guard: registrations of one name do not overlap a start-up or
    shutdown window of a goroutine of that name, and there is no second
    concurrent first registration.  With the repair only the second part is
    needed. *)
Definition gev (fx : bool) (y : sys) (e : yev) : bool :=
  match e with
  | VReg => fx || no_window y
  | VSetLast _ | VAddTask => false
  | _ => true
  end.

Fixpoint guard_run (fx : bool) (c : cfg) (st : store) (y : sys) (es : list yev) : bool :=
  match es with
  | [] => true
  | e :: tl => gev fx y e && guard_run fx c st (fst (ystep fx c st y e)) tl
  end.

(** Push.Close returns when every goroutine that was spawned has called Done. *)
Definition all_done (y : sys) : bool :=
  forallb (fun t => match t_pc t with PDead true => true | _ => false end) (y_ts y).
