(** C32 — the property on the registration / start-up transition system
    (ModelReg.v), at full strength: no guard, the code as it is in /repo (with
    the repair, [fx = true]), from the state right after the first registration. *)
From Coq Require Import List ZArith Bool Sorted.
From C33 Require Import C32.Model C32.ModelReg C32.Spec.
Import ListNotations.
Open Scope Z_scope.

(** At most one goroutine of the subscriber can still post. *)
Definition C32_single_task_per_subscriber_full : Prop :=
  forall (c : cfg) (st : store) (r0 : Z) (es : list yev),
    (live_tasks (yrun true c st (init_sys0 true r0) es) <= 1)%nat.

(** What the subscriber acknowledged is gap-free and increasing. *)
Definition C32_reg_acked_contiguous_increasing_full : Prop :=
  forall (c : cfg) (st : store) (r0 : Z) (es : list yev),
    let y := yrun true c st (init_sys0 true r0) es in
    exists r, (0 < r0 -> r = r0) /\
              contiguous_from (c_kind c) st r (y_acked y) /\
              StronglySorted Z.lt (y_acked y).

(** The stored last push sequence never moves backwards. *)
Definition C32_reg_recorded_monotone_full : Prop :=
  forall (c : cfg) (st : store) (r0 : Z) (es1 es2 : list yev),
    y_rcd (yrun true c st (init_sys0 true r0) es1) <=
    y_rcd (yrun true c st (init_sys0 true r0) (es1 ++ es2)).
