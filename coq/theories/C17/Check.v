(** C17 — correspondence cases: one case = one CreateTxGroup call (inputs, the
    implementation's result) and a list of presented variants of the created
    and signed group, each with what Transactions.Check, Transactions.Tx().Check
    and Transactions.CheckSign returned.

    SHA-256 is not computed here.  The harness supplies digests (crypto/sha256
    over its own encoding of the cleared copy, independent of Transaction.Hash);
    the model's hash is the finite table [H_tab] keyed by the preimages the
    *model* computes ([hash_pre]); an entry whose evaluation needs a digest the
    table lacks is a disagreement. *)
From Coq Require Import String List NArith ZArith Bool.
From C33 Require Import Lib.Harness Lib.Bytes C16.Proto C16.Spec C16.SpecExt.
From C33 Require Export C16.Model C17.Model.
From C33 Require Import C17.Spec.
Import ListNotations.
Open Scope list_scope.

(** [nrep n b]: n copies of byte b (compact literals for long payloads) *)
Definition nrep (n b : N) : list N := N.iter n (cons b) [].

Fixpoint upd_nth {A : Type} (i : nat) (f : A -> A) (l : list A) : list A :=
  match l, i with
  | [], _ => []
  | x :: r, O => f x :: r
  | x :: r, S i' => x :: upd_nth i' f r
  end.

(** * one-field alterations of a member, rendered compactly *)
Inductive bedit := BSet (b : list N) | BPut (pos : nat) (v : N) | BTrunc | BApp (v : N).
Definition apply_bedit (e : bedit) (b : list N) : list N :=
  match e with
  | BSet x => x
  | BPut p v => upd_nth p (fun _ => v) b
  | BTrunc => removelast b
  | BApp v => b ++ [v]
  end.
Inductive fmut :=
| FSame
| FExecer (e : bedit) | FPayload (e : bedit) | FTo (e : bedit) | FHeader (e : bedit) | FNext (e : bedit)
| FPub (e : bedit) | FSigB (e : bedit)
| FFee (z : Z) | FExpire (z : Z) | FNonce (z : Z) | FCount (z : Z) | FChain (z : Z) | FTy (z : Z)
| FSigNone
| FUnknown.   (* a field of the Go struct the model does not have *)

Definition upd_sig (f : sigt -> sigt) (t : tx) : tx := set_sig (option_map f (signature t)) t.

Definition apply_mut (t : tx) (m : fmut) : tx :=
  match m with
  | FSame | FUnknown => t
  | FExecer e => mk_tx (apply_bedit e (execer t)) (payload t) (signature t) (fee t) (expire t) (nonce t) (to_ t) (groupCount t) (header t) (next t) (chainID t)
  | FPayload e => mk_tx (execer t) (apply_bedit e (payload t)) (signature t) (fee t) (expire t) (nonce t) (to_ t) (groupCount t) (header t) (next t) (chainID t)
  | FTo e => mk_tx (execer t) (payload t) (signature t) (fee t) (expire t) (nonce t) (apply_bedit e (to_ t)) (groupCount t) (header t) (next t) (chainID t)
  | FHeader e => set_header (apply_bedit e (header t)) t
  | FNext e => set_next (apply_bedit e (next t)) t
  | FPub e => upd_sig (fun s => mk_sig (s_ty s) (apply_bedit e (s_pub s)) (s_sig s)) t
  | FSigB e => upd_sig (fun s => mk_sig (s_ty s) (s_pub s) (apply_bedit e (s_sig s))) t
  | FFee z => upd t z (groupCount t) (header t) (next t)
  | FExpire z => mk_tx (execer t) (payload t) (signature t) (fee t) z (nonce t) (to_ t) (groupCount t) (header t) (next t) (chainID t)
  | FNonce z => mk_tx (execer t) (payload t) (signature t) (fee t) (expire t) z (to_ t) (groupCount t) (header t) (next t) (chainID t)
  | FCount z => set_count z t
  | FChain z => mk_tx (execer t) (payload t) (signature t) (fee t) (expire t) (nonce t) (to_ t) (groupCount t) (header t) (next t) z
  | FTy z => upd_sig (fun s => mk_sig z (s_pub s) (s_sig s)) t
  | FSigNone => set_sig None t
  end.

(** * digest table *)
Definition tab : Type := list (list N * list N).
Fixpoint tab_get (p : list N) (t : tab) : option (list N) :=
  match t with
  | [] => None
  | (k, d) :: r => if bytes_eqb k p then Some d else tab_get p r
  end.
Definition H_tab (t : tab) (p : list N) : list N :=
  match tab_get p t with Some d => d | None => [] end.
Definition known (t : tab) (x : tx) : bool :=
  match tab_get (hash_pre x) t with Some _ => true | None => false end.

(** digests of the members whose preimage is not in the table yet, in member order *)
Fixpoint extend_tab (t : tab) (L : list tx) (extra : list (list N)) : tab :=
  match L with
  | [] => t
  | x :: L' =>
      if known t x then extend_tab t L' extra
      else match extra with
           | d :: ex => extend_tab ((hash_pre x, d) :: t) L' ex
           | [] => extend_tab t L' []
           end
  end.

(** positional assembly: [ds] = digests of the members; header := first digest,
    next of member i := digest of member i+1, the last member has no next *)
Fixpoint assemble_next (L : list tx) (ds : list (list N)) : list tx :=
  match L with
  | [] => []
  | t :: rest =>
      match rest with
      | [] => [set_next [] t]
      | _ :: _ =>
          match tl ds with
          | d1 :: _ => set_next d1 t :: assemble_next rest (tl ds)
          | [] => t :: assemble_next rest []
          end
      end
  end.
Definition assemble (L : list tx) (ds : list (list N)) : list tx :=
  map (set_header (hd [] ds)) (assemble_next L ds).

(** * presented variants *)
Inductive mop :=
| OSwap (i j : nat) | ODrop (i : nat) | ODup (i : nat) | OIns (i k : nat) | OSubst (i k : nat)
| OKeep (k : nat) | ORev
| OField (i : nat) (m : fmut)         (* one field of member i altered *)
| OResign (i : nat) (s : sigt)        (* member i signed again by Transaction.Sign with another key *)
| OAllCount (z : Z)                   (* GroupCount of every member *)
| ORebuild (ds : list (list N)).      (* Transactions.RebuiltGroup; ds = digests of the resulting members *)

Definition swap_nth {A : Type} (i j : nat) (l : list A) : list A :=
  match nth_error l i, nth_error l j with
  | Some a, Some b => upd_nth i (fun _ => b) (upd_nth j (fun _ => a) l)
  | _, _ => l
  end.
Definition ins_nth {A : Type} (i : nat) (x : A) (l : list A) : list A := firstn i l ++ x :: skipn i l.

(** state while applying the operations: presented list, digest table,
    transactions signed by Transaction.Sign so far, model agreement so far *)
Record pst := mk_pst { p_list : list tx; p_tab : tab; p_issued : list tx; p_ok : bool }.

Definition apply_op (pool : list tx) (s : pst) (o : mop) : pst :=
  let L := p_list s in
  let same L' := mk_pst L' (p_tab s) (p_issued s) (p_ok s) in
  match o with
  | OSwap i j => same (swap_nth i j L)
  | ODrop i => same (firstn i L ++ skipn (S i) L)
  | ODup i => match nth_error L i with Some t => same (ins_nth (S i) t L) | None => same L end
  | OIns i k => match nth_error pool k with Some t => same (ins_nth i t L) | None => same L end
  | OSubst i k => match nth_error pool k with Some t => same (upd_nth i (fun _ => t) L) | None => same L end
  | OKeep k => same (firstn k L)
  | ORev => same (rev L)
  | OField i m => same (upd_nth i (fun t => apply_mut t m) L)
  | OResign i sg =>
      match nth_error L i with
      | Some t => let t' := set_sig (Some sg) t in
                  mk_pst (upd_nth i (fun _ => t') L) (p_tab s) (t' :: p_issued s) (p_ok s)
      | None => same L
      end
  | OAllCount z => same (map (set_count z) L)
  | ORebuild ds =>
      let L' := assemble L ds in
      let t' := combine (map hash_pre L') ds ++ p_tab s in
      let ok := match rebuilt_group (H_tab t') L with
                | Some M => list_eqb tx_eqb M L'
                | None => false
                end in
      mk_pst L' t' (p_issued s) (p_ok s && ok && (length ds =? length L)%nat)
  end.

Inductive entry :=
| E (ops : list mop) (envi : nat) (extra : list (list N)) (chk chktx sgn drv : N).
    (* chk: error class of Transactions.Check (100 = panic); chktx: the same through
       Transactions.Tx().Check and TransactionCache.Check (254 = not observed, 255 = Tx()
       returned nil, 253 = the two disagree); sgn: Transactions.CheckSign 0/1/2 = panic;
       drv: bit i = the driver named by member i's signature type accepts
       (Validate called directly by the harness on its own encoding) *)

Fixpoint forallb_i {A : Type} (f : nat -> A -> bool) (i : nat) (l : list A) : bool :=
  match l with [] => true | x :: r => f i x && forallb_i f (S i) r end.

Definition mk_drvs (dsl : list (Z * bool * Z)) : list drv :=
  map (fun x => match x with (i, en, hh) => mk_drv i en hh end) dsl.

Definition default_env : env := mk_env 0 0 0 0 0 0 0.

(** verdict of one entry *)
Definition check_entry (ds : list drv) (aids : list Z) (envs : list env) (pool G0 : list tx) (t0 : tab)
    (issued0 : list tx) (en : entry) : verdict :=
  match en with
  | E ops envi extra chk chktx sgn drv =>
      let s := fold_left (apply_op pool) ops (mk_pst G0 t0 issued0 true) in
      let L := p_list s in
      let t2 := extend_tab (p_tab s) L extra in
      let Hh := H_tab t2 in
      let e := nth envi envs default_env in
      let mchk := err_code (check_group Hh e L) in
      let mtx := match group_tx L with
                 | None => 255%N
                 | Some t => err_code (tx_check Hh e t)
                 end in
      (* Transactions.CheckSign = Transaction.checkSign of every member: the sender gate
         (C16.Model.check_sign_tx; aids = address ids with a usable address driver), then the driver *)
      let msgn := if forallb_i (fun i t => check_sign_tx (adrv_of aids [1%N]) ds (fun _ _ _ _ => N.testbit drv (N.of_nat i)) t (e_height e)) O L
                  then 1%N else 0%N in
      let m := p_ok s && forallb (known t2) L && N.eqb chk mchk &&
               (N.eqb chktx 254 || N.eqb chktx mtx) && N.eqb sgn msgn in
      let sp := spec_entry e ds (p_issued s) G0 L chk sgn in
      (m, sp, if sp then 0%N else kf_classify17 e ds (p_issued s) G0 L chk sgn)
  end.

(** The entries of a case are independent (each starts from the created group).
    Reported: the first entry that violates the spec outside the recorded
    findings, else the first that matches a recorded finding, else the first
    model disagreement. *)
Definition pick (p : verdict -> bool) (vs : list verdict) : option verdict := find p vs.
Definition check_entries (f : entry -> verdict) (l : list entry) : verdict :=
  let vs := map f l in
  match pick (fun v => match v with (_, s, k) => negb s && N.eqb k 0 end) vs with
  | Some v => v
  | None =>
      match pick (fun v => match v with (_, s, _) => negb s end) vs with
      | Some v => v
      | None =>
          match pick (fun v => negb (verdict_ok v)) vs with
          | Some v => v
          | None => ok_verdict
          end
      end
  end.

Inductive case :=
| CBatch (dsl : list (Z * bool * Z)) (aids : list Z) (inputs : list tx) (rate : Z)
         (cr : N) (fee0 : Z) (dg : list (list N)) (dinit : list N)
         (sigs : list sigt) (pool : list tx) (pooldg : list (list N))
         (envs : list env) (entries : list entry).
    (* dsl: crypto driver registry; aids: address ids whose driver derives an address
       from a public key (members with another address id in Signature.ty are refused
       by CheckSign since chain33 909acb0); CreateTxGroup(inputs, rate) returned error class cr
       (0 = nil); on success fee0 = fee of the head, dg = digests of the resulting
       members (dg[0] = the header), dinit = digest of the first input before the call;
       sigs = the members' signatures (Transactions.SignN); pool = signed members of
       another created group, pooldg their digests *)

Definition created_expected (inputs : list tx) (fee0 : Z) (dg : list (list N)) : list tx :=
  let n := Z.of_nat (length inputs) in
  let pre := match inputs with
             | [] => []
             | t0 :: r => upd t0 fee0 n [] (next t0) :: map (fun t => upd t 0 n [] (next t)) r
             end in
  assemble pre dg.

Fixpoint sign_all (G : list tx) (sigs : list sigt) : list tx :=
  match G, sigs with
  | g :: G', s :: ss => set_sig (Some s) g :: sign_all G' ss
  | _, _ => G
  end.

Definition check_case (c : case) : verdict :=
  match c with
  | CBatch dsl aids inputs rate cr fee0 dg dinit sigs pool pooldg envs entries =>
      let ds := mk_drvs dsl in
      if N.eqb cr 0 then
        let G' := created_expected inputs fee0 dg in
        let t0 := combine (map hash_pre G') dg ++
                  (match inputs with [] => [] | i0 :: _ => [(hash_pre i0, dinit)] end) ++
                  combine (map hash_pre pool) pooldg in
        let mc := match create_group (H_tab t0) inputs rate with
                  | inr G => list_eqb tx_eqb G G' && (length dg =? length inputs)%nat
                  | inl _ => false
                  end in
        if mc then
          let G0 := sign_all G' sigs in
          check_entries (check_entry ds aids envs pool G0 t0 (G0 ++ pool)) entries
        else mk_verdict false true
      else
        let mc := match create_group (fun _ => nrep 32 0) inputs rate with
                  | inr _ => false
                  | inl er => N.eqb (err_code er) cr
                  end in
        mk_verdict (mc && match entries with [] => true | _ => false end) true
  end.
