(** C17 — proofs. *)
From Coq Require Import List NArith ZArith Lia Bool.
From C33 Require Import Lib.Harness Lib.Bytes C16.Proto C16.Model C16.Spec C16.Proofs C16.ProofsFrom.
From C33 Require Import C17.Model C17.Spec.
Import ListNotations.
Open Scope list_scope.

Definition dtx : tx := mk_tx [] [] None 0 0 0 [] 0 [] [] 0.

(** * Small facts about the record *)
Lemma thash_set_header H hd t : thash H (set_header hd t) = thash H t.
Proof. unfold thash. destruct t; reflexivity. Qed.
Lemma thash_set_sig H sg t : thash H (set_sig sg t) = thash H t.
Proof. unfold thash. destruct t; reflexivity. Qed.
Lemma thash_unsig H t : thash H (unsig t) = thash H t.
Proof. apply thash_set_sig. Qed.
Lemma thash_of_unsig H a b : unsig a = unsig b -> thash H a = thash H b.
Proof. intro E. rewrite <- (thash_unsig H a), <- (thash_unsig H b), E. reflexivity. Qed.

Lemma unsig_fields a b :
  unsig a = unsig b ->
  execer a = execer b /\ payload a = payload b /\ fee a = fee b /\ expire a = expire b /\
  nonce a = nonce b /\ to_ a = to_ b /\ groupCount a = groupCount b /\ header a = header b /\
  next a = next b /\ chainID a = chainID b.
Proof.
  destruct a, b. unfold unsig, set_sig. cbn. intro E. inversion E; subst. repeat split; reflexivity.
Qed.

Lemma unsig_of_fields a b :
  execer a = execer b -> payload a = payload b -> fee a = fee b -> expire a = expire b ->
  nonce a = nonce b -> to_ a = to_ b -> groupCount a = groupCount b -> header a = header b ->
  next a = next b -> chainID a = chainID b -> unsig a = unsig b.
Proof.
  destruct a, b. unfold unsig, set_sig. cbn. intros; subst. reflexivity.
Qed.

Lemma map_unsig_cons_inv l L G :
  map unsig (l :: L) = map unsig G -> exists g G', G = g :: G' /\ unsig l = unsig g /\ map unsig L = map unsig G'.
Proof.
  destruct G as [|g G']; cbn [map]; intro E; [discriminate|]. injection E; intros. exists g, G'.
  split; [reflexivity|split; [apply unsig_of_fields; assumption|assumption]].
Qed.

(** * [linked] / [chained] only look at the unsigned content *)
Section Chain.
Variable H : list N -> list N.

Lemma linked_unsig : forall L G, map unsig L = map unsig G -> linked H G -> linked H L.
Proof.
  induction L as [|l L IH]; intros G E Lk; [exact I|].
  apply map_unsig_cons_inv in E as (g & G' & -> & El & E').
  destruct L as [|l1 L1]; [exact I|].
  pose proof E' as E''. apply map_unsig_cons_inv in E'' as (g1 & G1 & -> & El1 & _).
  cbn [linked] in Lk |- *. destruct Lk as [Nx Lk]. split.
  - apply unsig_fields in El. destruct El as (_&_&_&_&_&_&_&_&En&_).
    rewrite En, Nx. symmetry. apply thash_of_unsig. exact El1.
  - apply (IH (g1 :: G1)); assumption.
Qed.

Lemma map_unsig_length L G : map unsig L = map unsig G -> length L = length G.
Proof. intro E. rewrite <- (map_length unsig L), E, map_length. reflexivity. Qed.

Lemma forall_unsig (P : tx -> Prop) :
  (forall a b, unsig a = unsig b -> P b -> P a) ->
  forall L G, map unsig L = map unsig G -> Forall P G -> Forall P L.
Proof.
  intros HP. induction L as [|l L IH]; intros G E F; [constructor|].
  apply map_unsig_cons_inv in E as (g & G' & -> & El & E').
  inversion F; subst. constructor; [eapply HP; eauto | eapply IH; eauto].
Qed.

Lemma chained_unsig L G : map unsig L = map unsig G -> chained H G -> chained H L.
Proof.
  intros E C. pose proof (map_unsig_length _ _ E) as Len.
  destruct L as [|l L']; [destruct G; [exact C|discriminate]|].
  pose proof E as E0. apply map_unsig_cons_inv in E0 as (g & G' & -> & El & E').
  destruct C as (Hd & Fa & Lk). pose proof (unsig_fields _ _ El) as Fl.
  destruct Fl as (_&_&_&_&_&_&_&Ehd&_&_).
  split; [|split].
  - rewrite Ehd, Hd. symmetry. apply thash_of_unsig. exact El.
  - rewrite Len, Ehd. revert Fa. apply forall_unsig; [|exact E].
    intros a b Eab [P1 P2]. apply unsig_fields in Eab.
    destruct Eab as (_&_&_&_&_&_&Eg&Eh&_&_). rewrite Eh, Eg. auto.
  - eapply linked_unsig; eauto.
Qed.

Lemma last_next_unsig : forall L G, map unsig L = map unsig G -> last_next L = last_next G.
Proof.
  induction L as [|l L IH]; intros G E.
  - destruct G; [reflexivity|discriminate].
  - apply map_unsig_cons_inv in E as (g & G' & -> & El & E').
    cbn [last_next]. destruct L as [|l1 L1]; destruct G' as [|g1 G1]; try discriminate.
    + apply unsig_fields in El. tauto.
    + apply IH. exact E'.
Qed.

(** * The hash loop of Check accepts exactly the chained lists *)
Lemma hash_loop_ok : forall L hdr0 n first,
  Forall (fun t => header t = hdr0 /\ groupCount t = n) L ->
  (first = true -> match L with t :: _ => thash H t = hdr0 | [] => True end) ->
  (n <= max_group)%Z -> linked H L -> last_next L = [] ->
  hash_loop H hdr0 n first L = EOk.
Proof.
  induction L as [|t rest IH]; intros hdr0 n first Fa Hf Hn Lk Ln; [reflexivity|].
  inversion Fa as [|? ? [Eh Eg] Fa']; subst. cbn [hash_loop].
  assert (E1 : beqb (if first then thash H t else header t) (header t) = true).
  { destruct first; [rewrite Hf by reflexivity|]; apply beqb_refl. }
  rewrite E1. cbn [negb].
  destruct (Z.gtb_spec (groupCount t) max_group) as [G|G]; [lia|].
  rewrite Z.eqb_refl. cbn [negb].
  destruct rest as [|t1 rest'].
  - cbn [last_next] in Ln. rewrite Ln. reflexivity.
  - cbn [linked] in Lk. destruct Lk as [Nx Lk]. rewrite Nx, beqb_refl.
    apply IH; try assumption. discriminate.
Qed.

Lemma hash_loop_inv : forall L hdr0 n first,
  hash_loop H hdr0 n first L = EOk ->
  (first = true -> match L with t :: _ => header t = hdr0 | [] => True end) ->
  Forall (fun t => header t = hdr0 /\ groupCount t = n) L /\ linked H L /\ last_next L = [] /\
  (first = true -> match L with t :: _ => thash H t = hdr0 | [] => True end) /\
  (L <> [] -> (n <= max_group)%Z).
Proof.
  induction L as [|t rest IH]; intros hdr0 n first E Hf.
  - repeat split; try constructor; try reflexivity; intros; try exact I. congruence.
  - cbn [hash_loop] in E.
    destruct (beqb (if first then thash H t else hdr0) (header t)) eqn:E1; [|discriminate].
    cbn [negb] in E.
    destruct (Z.gtb_spec (groupCount t) max_group) as [G|G]; [discriminate|].
    destruct (Z.eqb_spec (groupCount t) n) as [Eg|Eg]; [|discriminate]. cbn [negb] in E.
    apply beqb_eq in E1.
    assert (Eh : header t = hdr0).
    { destruct first; [apply Hf; reflexivity | symmetry; exact E1]. }
    destruct rest as [|t1 rest'].
    + destruct (next t) eqn:Nx; [|discriminate].
      repeat split; try (constructor; [auto|constructor]); try exact I; cbn [last_next]; auto.
      * intros ->. rewrite <- Eh. exact E1.
      * intros _. lia.
    + destruct (beqb (next t) (thash H t1)) eqn:E2; [|discriminate]. apply beqb_eq in E2.
      destruct (IH hdr0 n false E) as (Fa & Lk & Ln & _ & _); [discriminate|].
      repeat split; auto.
      * intros ->. rewrite <- Eh. exact E1.
      * intros _. lia.
Qed.

(** what a successful Check means *)
Lemma check_group_ok_inv e L :
  check_group H e L = EOk ->
  (2 <= length L)%nat /\
  existsb (chain_bad e) L = false /\
  (is_fork (e_height e) (e_para e) = true -> para_ok L = true) /\
  others_fee_free L = true /\
  (exists tot, sum_fees L (e_minfee e) 0 = Some tot /\ (tot <= head_fee L)%Z) /\
  ((head_fee L >? e_maxfee e)%Z && (e_maxfee e >? 0)%Z && is_fork (e_height e) (e_block e) = false) /\
  hash_loop H (header (hd dtx L)) (Z.of_nat (length L)) true L = EOk.
Proof.
  unfold check_group. destruct L as [|t0 [|t1 rest]]; try discriminate.
  set (L := t0 :: t1 :: rest).
  destruct (existsb (chain_bad e) L) eqn:Cb; [discriminate|].
  destruct (is_fork (e_height e) (e_para e) && multi_title (titles_of L)) eqn:P1; [discriminate|].
  destruct (is_fork (e_height e) (e_para e) &&
            negb match titles_of L with [] => true | _ :: _ => false end &&
            existsb (fun t => negb (is_para (execer t))) L) eqn:P2; [discriminate|].
  destruct (existsb (fun t => negb (fee t =? 0)%Z) (t1 :: rest)) eqn:Fz; [discriminate|].
  destruct (sum_fees L (e_minfee e) 0) as [tot|] eqn:Sf; [|discriminate].
  destruct (Z.ltb_spec (fee t0) tot) as [Lt|Ge]; [discriminate|].
  destruct ((fee t0 >? e_maxfee e)%Z && (e_maxfee e >? 0)%Z && is_fork (e_height e) (e_block e)) eqn:Th;
    [discriminate|].
  intro E. repeat split.
  - cbn. lia.
  - intro Pf. rewrite Pf in P1, P2. cbn [andb] in P1, P2. unfold para_ok. fold L.
    rewrite P1. cbn [negb andb].
    destruct (titles_of L) eqn:Ts; [reflexivity|]. cbn [negb andb] in P2.
    apply forallb_forall. intros x Hx.
    destruct (is_para (execer x)) eqn:Ip; [reflexivity|].
    assert (existsb (fun t => negb (is_para (execer t))) L = true).
    { apply existsb_exists. exists x. rewrite Ip. auto. }
    congruence.
  - unfold others_fee_free. cbn [tl]. apply forallb_forall. intros x Hx.
    destruct (fee x =? 0)%Z eqn:Fx; [reflexivity|].
    assert (existsb (fun t => negb (fee t =? 0)%Z) (t1 :: rest) = true).
    { apply existsb_exists. exists x. rewrite Fx. auto. }
    congruence.
  - exists tot. cbn [head_fee]. auto.
  - exact Th.
  - exact E.
Qed.

Lemma check_group_ok_chained e L :
  check_group H e L = EOk ->
  chained H L /\ last_next L = [] /\ (Z.of_nat (length L) <= max_group)%Z.
Proof.
  intro E. apply check_group_ok_inv in E as (Len & _ & _ & _ & _ & _ & HL).
  destruct L as [|t0 rest]; [cbn in Len; lia|]. cbn [hd] in HL.
  apply hash_loop_inv in HL as (Fa & Lk & Ln & Hf & Hn); [|reflexivity].
  repeat split; auto.
  - symmetry. apply Hf. reflexivity.
  - apply Hn. discriminate.
Qed.

(** * Tamper evidence of the hash structure *)
Hypothesis Hinj : forall a b, H a = H b -> a = b.

Lemma same_hash_same_unsig a b :
  wf_txb a = true -> wf_txb b = true -> thash H a = thash H b -> header a = header b ->
  unsig a = unsig b.
Proof.
  intros Wa Wb E Eh.
  destruct (hash_binds (list N) H Hinj a b Wa Wb E) as (E1&E2&E3&E4&E5&E6&E7&E8&E9).
  apply unsig_of_fields; assumption.
Qed.

Lemma linked_same_len h : forall L G,
  length L = length G ->
  Forall (fun t => wf_txb t = true) L -> Forall (fun t => wf_txb t = true) G ->
  linked H L -> linked H G ->
  Forall (fun t => header t = h) L -> Forall (fun t => header t = h) G ->
  match L, G with l :: _, g :: _ => thash H l = thash H g | _, _ => True end ->
  map unsig L = map unsig G.
Proof.
  induction L as [|l L IH]; intros G Len WL WG LL LG HL HG Hd.
  - destruct G; [reflexivity|discriminate].
  - destruct G as [|g G]; [discriminate|].
    inversion WL; subst. inversion WG; subst. inversion HL; subst. inversion HG; subst.
    assert (El : unsig l = unsig g) by (apply same_hash_same_unsig; congruence).
    cbn [map]. f_equal; [exact El|].
    apply IH; try assumption.
    + cbn in Len. lia.
    + destruct L; [exact I|]. cbn [linked] in LL. tauto.
    + destruct G; [exact I|]. cbn [linked] in LG. tauto.
    + destruct L as [|l1 L1]; destruct G as [|g1 G1]; try exact I.
      cbn [linked] in LL, LG. destruct LL as [N1 _]. destruct LG as [N2 _].
      apply unsig_fields in El. destruct El as (_&_&_&_&_&_&_&_&En&_). congruence.
Qed.

Lemma chained_same_header L G :
  chained H L -> chained H G ->
  Forall (fun t => wf_txb t = true) L -> Forall (fun t => wf_txb t = true) G ->
  header (hd dtx L) = header (hd dtx G) ->
  map unsig L = map unsig G.
Proof.
  intros CL CG WL WG Eh.
  destruct L as [|l0 L']; [contradiction|]. destruct G as [|g0 G']; [contradiction|].
  cbn [hd] in Eh. destruct CL as (HdL & FaL & LkL). destruct CG as (HdG & FaG & LkG).
  assert (Eth : thash H l0 = thash H g0) by congruence.
  inversion WL; subst. inversion WG; subst.
  destruct (hash_binds (list N) H Hinj l0 g0 ltac:(assumption) ltac:(assumption) Eth)
    as (_&_&_&_&_&_&Egc&_).
  assert (Len : length (l0 :: L') = length (g0 :: G')).
  { inversion FaL as [|? ? [_ G1] _]; subst. inversion FaG as [|? ? [_ G2] _]; subst.
    apply Nat2Z.inj. congruence. }
  apply (linked_same_len (header l0)); try assumption.
  - revert FaL. apply Forall_impl. tauto.
  - revert FaG. apply Forall_impl. intros a [A _]. congruence.
Qed.

End Chain.

(** * CreateTxGroup builds a chained group *)
Section Create.
Variable H : list N -> list N.

Lemma create_tail_spec n hdr0 rate : forall txs rest' tot mn,
  create_tail H n hdr0 rate txs = Some (rest', tot, mn) ->
  length rest' = length txs /\
  Forall (fun t => groupCount t = n /\ fee t = 0%Z) rest' /\
  linked H rest' /\ last_next rest' = [].
Proof.
  induction txs as [|t rest IH]; intros rest' tot mn E.
  - cbn in E. injection E as <- <- <-. repeat split; constructor.
  - cbn [create_tail] in E.
    destruct (create_tail H n hdr0 rate rest) as [[[r' tot'] mn']|] eqn:Ct; [|discriminate].
    destruct (real_fee _ rate) as [rf|]; [|discriminate].
    injection E as <- <- <-.
    destruct (IH r' tot' mn' eq_refl) as (Len & Fa & Lk & Ln).
    split; [cbn; lia|]. split; [constructor; [split; reflexivity|exact Fa]|].
    destruct r' as [|t1 r1].
    + split; [exact I|reflexivity].
    + split; [split; [reflexivity|exact Lk]|].
      cbn [last_next] in Ln |- *. exact Ln.
Qed.

Lemma linked_map_set_header hdr : forall M, linked H M -> linked H (map (set_header hdr) M).
Proof.
  induction M as [|m M IH]; intro Lk; [exact I|].
  destruct M as [|m1 M1]; [exact I|].
  cbn [linked map] in Lk |- *. destruct Lk as [Nx Lk]. split.
  - rewrite thash_set_header. destruct m; exact Nx.
  - apply IH. exact Lk.
Qed.

Lemma last_next_map_set_header hdr : forall M, last_next (map (set_header hdr) M) = last_next M.
Proof.
  induction M as [|m M IH]; [reflexivity|].
  cbn [map last_next]. destruct M as [|m1 M1]; [destruct m; reflexivity|exact IH].
Qed.

Lemma chained_intro L t0 rest :
  L = t0 :: rest -> header t0 = thash H t0 ->
  Forall (fun t => header t = header t0 /\ groupCount t = Z.of_nat (length L)) L ->
  linked H L -> chained H L.
Proof. intros ->. cbn [chained]. auto. Qed.

Lemma create_group_spec txs rate G :
  create_group H txs rate = inr G ->
  chained H G /\ last_next G = [] /\ length G = length txs /\
  others_fee_free G = true /\ (2 <= length G)%nat.
Proof.
  unfold create_group. destruct txs as [|t0 [|t1 rest]]; try discriminate.
  set (n := Z.of_nat (length (t0 :: t1 :: rest))).
  destruct (create_tail H n (thash H t0) rate (t1 :: rest)) as [[[rest' tot] mn]|] eqn:Ct; [|discriminate].
  destruct (real_fee _ rate) as [rf|]; [|discriminate].
  intro E. cbv zeta in E. injection E as <-.
  destruct (create_tail_spec _ _ _ _ _ _ _ Ct) as (Len & Fa & Lk & Ln).
  destruct rest' as [|r1 rest1]; [discriminate|].
  set (f := if (wrap64 (tot + fee t0) <? wrap64 (mn + rf))%Z then wrap64 (mn + rf) else wrap64 (tot + fee t0)).
  set (t0' := upd t0 f n (thash H t0) (thash H r1)).
  set (G := map (set_header (thash H t0')) (t0' :: r1 :: rest1)).
  assert (LenG : length G = length (t0 :: t1 :: rest))
    by (unfold G; rewrite map_length; cbn [length] in *; lia).
  assert (FaG : Forall (fun t => header t = thash H t0' /\ groupCount t = Z.of_nat (length G)) G).
  { rewrite LenG. fold n. apply Forall_forall. intros x Hx. apply in_map_iff in Hx as (y & <- & Hy).
    split; [destruct y; reflexivity|].
    destruct Hy as [<-|Hy]; [reflexivity|].
    rewrite Forall_forall in Fa. destruct (Fa y Hy) as [Gc _]. destruct y; exact Gc. }
  assert (LnG : last_next G = []).
  { unfold G. rewrite last_next_map_set_header. cbn [last_next] in Ln |- *. exact Ln. }
  assert (FfG : others_fee_free G = true).
  { unfold others_fee_free. apply forallb_forall. intros x Hx.
    assert (Hx' : In x (map (set_header (thash H t0')) (r1 :: rest1))) by exact Hx.
    apply in_map_iff in Hx' as (y & <- & Hy). rewrite Forall_forall in Fa.
    destruct (Fa y Hy) as [_ Fz]. destruct y. cbn in *. rewrite Fz. reflexivity. }
  assert (ChG : chained H G).
  { apply chained_intro with (t0 := set_header (thash H t0') t0')
                             (rest := map (set_header (thash H t0')) (r1 :: rest1)).
    + reflexivity.
    + rewrite thash_set_header. reflexivity.
    + exact FaG.
    + apply linked_map_set_header. split; [reflexivity|exact Lk]. }
  split; [exact ChG|]. split; [exact LnG|]. split; [exact LenG|]. split; [exact FfG|].
  change (2 <= length G)%nat. rewrite LenG. cbn. lia.
Qed.

(** * A created group passes Check *)
Lemma forallb_unsig (p : tx -> bool) :
  (forall a b, unsig a = unsig b -> p a = p b) ->
  forall L G, map unsig L = map unsig G -> forallb p L = forallb p G.
Proof.
  intros Hp. induction L as [|l L IH]; intros G E.
  - destruct G; [reflexivity|discriminate].
  - apply map_unsig_cons_inv in E as (g & G' & -> & El & E').
    cbn [forallb]. rewrite (Hp _ _ El), (IH _ E'). reflexivity.
Qed.

Lemma others_fee_free_unsig L G : map unsig L = map unsig G -> others_fee_free L = others_fee_free G.
Proof.
  intro E. unfold others_fee_free. apply forallb_unsig.
  - intros a b Eab. apply unsig_fields in Eab. destruct Eab as (_&_&Ef&_). rewrite Ef. reflexivity.
  - destruct L as [|l L]; destruct G as [|g G]; try discriminate; [reflexivity|].
    apply map_unsig_cons_inv in E as (g' & G' & Eq & _ & E'). injection Eq as <- <-. exact E'.
Qed.

Lemma forallb_existsb_negb {A : Type} (p : A -> bool) l :
  forallb p l = true -> existsb (fun x => negb (p x)) l = false.
Proof.
  induction l as [|x l IH]; [reflexivity|]. cbn. rewrite andb_true_iff. intros [P1 P2].
  rewrite P1, (IH P2). reflexivity.
Qed.

Lemma check_group_intro e L tot :
  (2 <= length L)%nat ->
  existsb (chain_bad e) L = false ->
  (is_fork (e_height e) (e_para e) = true -> para_ok L = true) ->
  others_fee_free L = true ->
  sum_fees L (e_minfee e) 0 = Some tot -> (tot <= head_fee L)%Z ->
  ((head_fee L >? e_maxfee e)%Z && (e_maxfee e >? 0)%Z && is_fork (e_height e) (e_block e) = false) ->
  hash_loop H (header (hd dtx L)) (Z.of_nat (length L)) true L = EOk ->
  check_group H e L = EOk.
Proof.
  intros Len Cb Pa Ff Sf Le Th HL. unfold check_group.
  destruct L as [|t0 [|t1 rest]]; [cbn in Len; lia|cbn in Len; lia|].
  set (L := t0 :: t1 :: rest) in *.
  rewrite Cb.
  assert (P1 : is_fork (e_height e) (e_para e) && multi_title (titles_of L) = false).
  { destruct (is_fork (e_height e) (e_para e)); [|reflexivity]. specialize (Pa eq_refl).
    unfold para_ok in Pa. apply andb_true_iff in Pa as [Pa _].
    cbn [andb]. destruct (multi_title (titles_of L)); [discriminate|reflexivity]. }
  rewrite P1.
  assert (P2 : is_fork (e_height e) (e_para e) &&
               negb match titles_of L with [] => true | _ :: _ => false end &&
               existsb (fun t => negb (is_para (execer t))) L = false).
  { destruct (is_fork (e_height e) (e_para e)); [|reflexivity]. specialize (Pa eq_refl).
    unfold para_ok in Pa. apply andb_true_iff in Pa as [_ Pa]. cbn [andb].
    destruct (titles_of L); [reflexivity|]. cbn [negb andb].
    apply (forallb_existsb_negb (fun t => is_para (execer t))). exact Pa. }
  rewrite P2.
  assert (Fz : existsb (fun t => negb (fee t =? 0)%Z) (t1 :: rest) = false)
    by (apply (forallb_existsb_negb (fun t => (fee t =? 0)%Z)); exact Ff).
  rewrite Fz.
  rewrite Sf. unfold L in Le, Th. cbn [head_fee] in Le, Th.
  destruct (Z.ltb_spec (fee t0) tot) as [Lt|Ge]; [lia|].
  rewrite Th. exact HL.
Qed.

Lemma created_group_checks :
  forall txs rate G L e tot,
    create_group H txs rate = inr G ->
    map unsig L = map unsig G ->
    (Z.of_nat (length G) <= max_group)%Z ->
    existsb (chain_bad e) L = false ->
    (is_fork (e_height e) (e_para e) = true -> para_ok L = true) ->
    sum_fees L (e_minfee e) 0 = Some tot -> (tot <= head_fee L)%Z ->
    ((head_fee L >? e_maxfee e)%Z && (e_maxfee e >? 0)%Z && is_fork (e_height e) (e_block e) = false) ->
    check_group H e L = EOk.
Proof.
  intros txs rate G L e tot Cr E Hn Cb Pa Sf Le Th.
  destruct (create_group_spec _ _ _ Cr) as (Ch & LnG & LenG & Ff & Len2).
  pose proof (map_unsig_length _ _ E) as LenL.
  pose proof (chained_unsig H _ _ E Ch) as ChL.
  apply check_group_intro with tot; try assumption.
  - lia.
  - rewrite (others_fee_free_unsig _ _ E). exact Ff.
  - destruct L as [|l0 L']; [contradiction|]. cbn [hd].
    destruct ChL as (Hd & Fa & Lk).
    apply hash_loop_ok; try assumption.
    + intros _. symmetry. exact Hd.
    + rewrite LenL. exact Hn.
    + rewrite (last_next_unsig _ _ E). exact LnG.
Qed.

End Create.

(** example inputs; [ex_t2_stale]: the second input still carries the Next it
    had as a non-last member of an earlier group (the former finding 1) *)
Definition ex_t1 : tx :=
  mk_tx [99; 111; 105; 110; 115]%N [1; 2; 3]%N None 100000 0 7 [49; 74]%N 0 [] [] 0.
Definition ex_t2 : tx :=
  mk_tx [99; 111; 105; 110; 115]%N [4; 5]%N None 0 0 8 [49; 75]%N 0 [] [] 0.
Definition ex_t2_stale : tx := set_next [9%N] ex_t2.
Definition ex_env : env := mk_env 0 10 100 0 0 0 0.
Definition idH (x : list N) : list N := x.

(** the theorem says something: a group is created and passes; the stale Next
    of the last input is dropped, the group is the one built from the clean input *)
Example ex_created_checks :
  exists G, create_group idH [ex_t1; ex_t2] 0 = inr G /\ check_group idH ex_env G = EOk /\
            create_group idH [ex_t1; ex_t2_stale] 0 = inr G.
Proof. eexists. split; [vm_compute; reflexivity|]. split; vm_compute; reflexivity. Qed.

(** RebuiltGroup drops a stale Next of the last member as well *)
Example ex_rebuilt_stale :
  exists G, create_group idH [ex_t1; ex_t2] 0 = inr G /\
            rebuilt_group idH (map (set_next [9%N]) G) = Some G.
Proof. eexists. split; [vm_compute; reflexivity|]. vm_compute. reflexivity. Qed.

(** * Tamper evidence *)
Section Tamper.
Variable H : list N -> list N.
Hypothesis Hinj : forall a b, H a = H b -> a = b.

Theorem same_header_same_content e L G :
  chained H G ->
  Forall (fun t => wf_txb t = true) G -> Forall (fun t => wf_txb t = true) L ->
  check_group H e L = EOk ->
  header (hd dtx L) = header (hd dtx G) ->
  map unsig L = map unsig G.
Proof.
  intros CG WG WL Ck Eh. destruct (check_group_ok_chained H e L Ck) as (CL & _ & _).
  apply (chained_same_header H Hinj); assumption.
Qed.

Lemma check_sign_issued ds verify mall issued l h :
  ideal_scheme verify mall issued -> check_sign ds verify l h = true ->
  exists s s0, signature l = Some s /\
               issued (crypto_id (s_ty s)) (s_pub s) (sign_msg l) s0 /\
               mall (crypto_id (s_ty s)) s0 (s_sig s) = true.
Proof.
  intros [Mr Vi] C. unfold check_sign in C. destruct (signature l) as [s|] eqn:Sg; [|discriminate].
  destruct (load ds (crypto_id (s_ty s)) h) as [d|] eqn:Ld; [|discriminate].
  apply load_id in Ld. rewrite Ld in C. apply Vi in C as (s0 & I & M).
  exists s, s0. unfold signed_bytes in I. rewrite clone_tx_id in I. auto.
Qed.

Theorem tamper_detected ds verify mall issued G L e h :
  ideal_scheme verify mall issued ->
  chained H G ->
  Forall (fun t => wf_txb t = true) G -> Forall (fun t => wf_txb t = true) L ->
  (forall id p m s, issued id p m s -> exists g, In g G /\ m = sign_msg g) ->
  check_group H e L = EOk -> group_check_sign ds verify L h = true ->
  map unsig L = map unsig G /\
  Forall (fun l => exists s s0, signature l = Some s /\
                     issued (crypto_id (s_ty s)) (s_pub s) (sign_msg l) s0 /\
                     mall (crypto_id (s_ty s)) s0 (s_sig s) = true) L.
Proof.
  intros Id CG WG WL Only Ck Cs.
  assert (Fs : Forall (fun l => exists s s0, signature l = Some s /\
                     issued (crypto_id (s_ty s)) (s_pub s) (sign_msg l) s0 /\
                     mall (crypto_id (s_ty s)) s0 (s_sig s) = true) L).
  { apply Forall_forall. intros l Hl. unfold group_check_sign in Cs.
    rewrite forallb_forall in Cs. eapply check_sign_issued; eauto. }
  split; [|exact Fs].
  apply same_header_same_content with e; try assumption.
  destruct (check_group_ok_inv H e L Ck) as (Len & _).
  destruct L as [|l0 L']; [cbn in Len; lia|]. cbn [hd].
  inversion Fs as [|? ? (s & s0 & Sg & Is & _) _]; subst.
  destruct (Only _ _ _ _ Is) as (g & Hg & Em).
  rewrite Forall_forall in WG. inversion WL; subst.
  unfold sign_msg in Em.
  apply encode_tx_injective in Em; [| apply wf_cleared; assumption | apply wf_cleared; apply WG; assumption].
  apply unsig_fields in Em. destruct Em as (_&_&_&_&_&_&_&Eh&_&_). rewrite Eh.
  destruct G as [|g0 G']; [contradiction|]. cbn [hd].
  destruct CG as (_ & Fa & _). rewrite Forall_forall in Fa. apply Fa. exact Hg.
Qed.

End Tamper.

(** * The full-strength statement fails: signature fields are not bound *)
Definition issuedG (G : list tx) (id : Z) (p m s : list N) : Prop :=
  exists g sg, In g G /\ signature g = Some sg /\ id = crypto_id (s_ty sg) /\
               p = s_pub sg /\ m = sign_msg g /\ s = s_sig sg.
Definition verifyG (G : list tx) (id : Z) (m p s : list N) : bool :=
  existsb (fun g => match signature g with
                    | Some sg => Z.eqb id (crypto_id (s_ty sg)) && bytes_eqb p (s_pub sg) &&
                                 bytes_eqb m (sign_msg g) && toy_mall id (s_sig sg) s
                    | None => false
                    end) G.

Lemma ideal_G G : ideal_scheme (verifyG G) toy_mall (issuedG G).
Proof.
  split; [apply toy_mall_refl|].
  intros id m p s. unfold verifyG, issuedG. rewrite existsb_exists. split.
  - intros (g & Hg & C). destruct (signature g) as [sg|] eqn:Sg; [|discriminate].
    rewrite !andb_true_iff in C. destruct C as [[[E1 E2] E3] E4].
    apply Z.eqb_eq in E1. apply bytes_eqb_eq in E2. apply bytes_eqb_eq in E3.
    exists (s_sig sg). split; [|exact E4]. exists g, sg. repeat split; assumption.
  - intros (s0 & (g & sg & Hg & Sg & -> & -> & -> & ->) & M).
    exists g. split; [exact Hg|]. rewrite Sg, Z.eqb_refl.
    rewrite (proj2 (bytes_eqb_eq _ _) eq_refl), (proj2 (bytes_eqb_eq _ _) eq_refl). exact M.
Qed.

Definition ex_G : list tx :=
  Eval vm_compute in match create_group idH [ex_t1; ex_t2] 0 with inr G => G | inl _ => [] end.
Definition ex_Gs : list tx := map (set_sig (Some (mk_sig 1 toy_pub toy_sg))) ex_G.
(** the second member's signature replaced by its twin / its type id changed outside the driver bits *)
Definition ex_Ls : list tx :=
  match ex_Gs with a :: b :: _ => [a; set_sig (Some (mk_sig 1 toy_pub toy_sg')) b] | _ => [] end.
Definition ex_Lty : list tx :=
  match ex_Gs with a :: b :: _ => [a; set_sig (Some (mk_sig 4097 toy_pub toy_sg)) b] | _ => [] end.

Lemma ex_Gs_chained : chained idH ex_Gs.
Proof.
  assert (Cr : create_group idH [ex_t1; ex_t2] 0 = inr ex_G) by (vm_compute; reflexivity).
  destruct (create_group_spec idH _ _ _ Cr) as (Ch & _).
  apply (chained_unsig idH ex_Gs ex_G); [vm_compute; reflexivity|exact Ch].
Qed.

Lemma tamper_detected_refuted : ~ C17_tamper_detected_full.
Proof.
  intro F.
  specialize (F idH (fun a b E => E) toy_ds (verifyG ex_Gs) toy_mall (issuedG ex_Gs) ex_Gs ex_Ls ex_env 20%Z
                (ideal_G ex_Gs) ex_Gs_chained).
  assert (E : ex_Ls = ex_Gs).
  { apply F.
    - repeat constructor.
    - repeat constructor.
    - intros id p m s I. exact I.
    - vm_compute. reflexivity.
    - vm_compute. reflexivity. }
  vm_compute in E. discriminate.
Qed.

(** the same for the bits of Signature.ty that do not select the driver *)
Example ex_ty_bits_accepted :
  check_group idH ex_env ex_Lty = EOk /\ group_check_sign toy_ds (verifyG ex_Gs) ex_Lty 20 = true /\
  ex_Lty <> ex_Gs.
Proof. split; [vm_compute; reflexivity|]. split; [vm_compute; reflexivity|]. vm_compute. discriminate. Qed.

(** non-vacuity of [tamper_detected]: its hypotheses hold for the signed example group itself *)
Example ex_tamper_hyps :
  chained idH ex_Gs /\ Forall (fun t => wf_txb t = true) ex_Gs /\
  check_group idH ex_env ex_Gs = EOk /\ group_check_sign toy_ds (verifyG ex_Gs) ex_Gs 20 = true /\
  (forall id p m s, issuedG ex_Gs id p m s -> exists g, In g ex_Gs /\ m = sign_msg g).
Proof.
  split; [exact ex_Gs_chained|]. split; [repeat constructor|].
  split; [vm_compute; reflexivity|]. split; [vm_compute; reflexivity|].
  intros id p m s (g & sg & Hg & _ & _ & _ & -> & _). exists g. auto.
Qed.

(** * Fee clauses as decision rules *)
Theorem fee_rules H e L :
  check_group H e L = EOk ->
  others_fee_free L = true /\
  exists tot, sum_fees L (e_minfee e) 0 = Some tot /\ (tot <= head_fee L)%Z.
Proof. intro E. apply check_group_ok_inv in E. tauto. Qed.

Lemma wrap64_id z : (- 2 ^ 63 <= z < 2 ^ 63)%Z -> wrap64 z = z.
Proof. intro R. unfold wrap64. rewrite Z.mod_small; lia. Qed.

Lemma fee_size_nonneg t : (0 <= fee_size t)%Z.
Proof. unfold fee_size, tx_size. destruct (signature t); lia. Qed.

Lemma required_fee_nonneg m L : (0 <= m)%Z -> (0 <= required_fee m L)%Z.
Proof.
  intro Hm. induction L as [|t L IH]; cbn [required_fee fold_right]; [lia|].
  fold (required_fee m L). pose proof (fee_size_nonneg t).
  assert (0 <= fee_size t / 1000)%Z by (apply Z.div_pos; lia). nia.
Qed.

(** without wrap-around the sum that Check computes is the required fee of the text *)
Theorem sum_fees_exact m : (0 <= m)%Z -> forall L acc,
  (0 <= acc)%Z -> sizes_ok L = true -> (acc + required_fee m L < 2 ^ 63)%Z ->
  sum_fees L m acc = Some (acc + required_fee m L)%Z.
Proof.
  intros Hm. induction L as [|t L IH]; intros acc Ha So Bd.
  - cbn. f_equal. lia.
  - cbn [sum_fees]. cbn [required_fee fold_right] in Bd |- *. fold (required_fee m L) in Bd |- *.
    cbn [sizes_ok forallb] in So. apply andb_true_iff in So as [S1 S2]. apply Z.leb_le in S1.
    unfold real_fee. destruct (Z.gtb_spec (fee_size t) max_tx_size) as [G|G]; [lia|].
    pose proof (fee_size_nonneg t). pose proof (required_fee_nonneg m L Hm).
    assert (0 <= fee_size t / 1000)%Z by (apply Z.div_pos; lia).
    assert (0 <= (fee_size t / 1000 + 1) * m)%Z by nia.
    rewrite (wrap64_id ((fee_size t / 1000 + 1) * m)) by lia.
    rewrite (wrap64_id (acc + (fee_size t / 1000 + 1) * m)) by lia.
    rewrite IH; [f_equal; lia | lia | exact S2 | lia].
Qed.

(** * Tx() / GetTxGroup: the encoded group in the head's header decodes to the group *)
Lemma dec_rep_enc : forall bs fuel,
  (length (enc_rep_msg 1 bs) <= fuel)%nat -> dec_rep fuel (enc_rep_msg 1 bs) = Some bs.
Proof.
  induction bs as [|b bs IH]; intros fuel Hf; [destruct fuel; reflexivity|].
  change (enc_rep_msg 1 (b :: bs)) with (len_delim 1 b ++ enc_rep_msg 1 bs) in *.
  unfold len_delim in *. change (key 1 2) with [10%N] in *.
  cbn [app] in *. destruct fuel as [|f]; [cbn in Hf; lia|].
  cbn [dec_rep get_varint]. change (10 <? 128)%N with true. cbn iota.
  change (10 =? 10)%N with true. cbn iota.
  rewrite <- app_assoc, take_len_ok. rewrite IH; [reflexivity|].
  cbn [length] in Hf. rewrite !app_length in Hf. lia.
Qed.

Lemma map_opt_decode L :
  Forall (fun t => wf_txb t = true) L -> map_opt decode_tx (map encode_tx L) = Some L.
Proof.
  induction 1 as [|t L Wt _ IH]; [reflexivity|].
  cbn [map map_opt]. rewrite (decode_tx_encode t Wt), IH. reflexivity.
Qed.

Theorem decode_txs_encode L :
  Forall (fun t => wf_txb t = true) L -> decode_txs (encode_txs L) = Some L.
Proof.
  intro W. unfold decode_txs, encode_txs. rewrite dec_rep_enc by lia. apply map_opt_decode, W.
Qed.

Theorem tx_path_equiv H e L t :
  Forall (fun t => wf_txb t = true) L -> group_tx L = Some t ->
  (2 <= groupCount (hd dtx L) <= 20)%Z ->
  tx_check H e t = check_group H e L.
Proof.
  intros W Gt Gc. unfold group_tx in Gt. destruct L as [|t0 [|t1 rest]]; try discriminate.
  injection Gt as <-. cbn [hd] in Gc. unfold tx_check, get_tx_group.
  rewrite clone_tx_id.
  replace (groupCount (set_header (encode_txs (t0 :: t1 :: rest)) t0)) with (groupCount t0)
    by (destruct t0; reflexivity).
  destruct (Z.ltb_spec (groupCount t0) 0); [lia|].
  destruct (Z.eqb_spec (groupCount t0) 1); [lia|].
  destruct (Z.gtb_spec (groupCount t0) 20); [lia|]. cbn [orb].
  destruct (Z.gtb_spec (groupCount t0) 0); [|lia].
  replace (header (set_header (encode_txs (t0 :: t1 :: rest)) t0)) with (encode_txs (t0 :: t1 :: rest))
    by (destruct t0; reflexivity).
  rewrite (decode_txs_encode _ W). reflexivity.
Qed.

(** * RebuiltGroup *)
Section Rebuild.
Variable H : list N -> list N.

Lemma relink_spec : forall L,
  length (relink H L) = length L /\ linked H (relink H L) /\
  map groupCount (relink H L) = map groupCount L /\ last_next (relink H L) = [].
Proof.
  induction L as [|t L IH]; [repeat split|].
  destruct IH as (Len & Lk & Gc & Ln). cbn [relink].
  destruct (relink H L) as [|t1 r1] eqn:R.
  - destruct L; [|discriminate]. repeat split.
  - cbn [length map] in *. split; [lia|]. split; [|split].
    + split; [destruct t; reflexivity|exact Lk].
    + rewrite <- Gc. destruct t; reflexivity.
    + cbn [last_next] in Ln |- *. exact Ln.
Qed.

Theorem rebuilt_group_chained L M :
  rebuilt_group H L = Some M ->
  Forall (fun t => groupCount t = Z.of_nat (length L)) L ->
  chained H M /\ last_next M = [].
Proof.
  unfold rebuilt_group. destruct (relink_spec L) as (Len & Lk & Gc & Ln).
  destruct (relink H L) as [|t0 r] eqn:R; [discriminate|]. intro E. injection E as <-.
  intro Fa. split;
    [|change (last_next (map (set_header (thash H t0)) (t0 :: r)) = []);
      rewrite last_next_map_set_header; exact Ln].
  apply chained_intro with (t0 := set_header (thash H t0) t0) (rest := map (set_header (thash H t0)) r).
  - reflexivity.
  - rewrite thash_set_header. destruct t0; reflexivity.
  - assert (LenM : length (map (set_header (thash H t0)) (t0 :: r)) = length L)
      by (rewrite map_length; exact Len).
    apply Forall_forall. intros x Hx.
    change (In x (map (set_header (thash H t0)) (t0 :: r))) in Hx.
    apply in_map_iff in Hx as (y & <- & Hy). split; [destruct y, t0; reflexivity|].
    change (groupCount (set_header (thash H t0) y) =
            Z.of_nat (length (map (set_header (thash H t0)) (t0 :: r)))).
    rewrite LenM.
    assert (G1 : In (groupCount y) (map groupCount L)) by (rewrite <- Gc; apply in_map; exact Hy).
    apply in_map_iff in G1 as (z & Ez & Hz). rewrite Forall_forall in Fa.
    destruct y. cbn in *. rewrite <- Ez. apply Fa. exact Hz.
  - apply (linked_map_set_header H (thash H t0) (t0 :: r)). exact Lk.
Qed.
End Rebuild.

(** an accepted list that starts with any member of a chained group is that group:
    reordering, dropping, duplicating, inserting or substituting members is detected *)
Theorem member_first_detected (H : list N -> list N) (Hinj : forall a b, H a = H b -> a = b) e L G g :
  chained H G ->
  Forall (fun t => wf_txb t = true) G -> Forall (fun t => wf_txb t = true) L ->
  In g G -> unsig (hd dtx L) = unsig g ->
  check_group H e L = EOk ->
  map unsig L = map unsig G.
Proof.
  intros CG WG WL Hg El Ck.
  apply (same_header_same_content H Hinj e); try assumption.
  apply unsig_fields in El. destruct El as (_&_&_&_&_&_&_&Eh&_&_). rewrite Eh.
  destruct G as [|g0 G']; [contradiction|]. cbn [hd].
  destruct CG as (_ & Fa & _). rewrite Forall_forall in Fa. apply Fa. exact Hg.
Qed.

(** * The members' sender gate (chain33 909acb0) *)
(** every group that Transactions.CheckSign accepts is accepted by the part of
    it the theorems above speak about, and every member has a sender address
    derived by an address driver *)
Lemma group_check_sign_tx_weaken adrv ds verify L h :
  group_check_sign_tx adrv ds verify L h = true ->
  group_check_sign ds verify L h = true /\
  Forall (fun t => usable adrv (sig_ty t) (sig_pub t) = true) L.
Proof.
  unfold group_check_sign_tx, group_check_sign. intro C.
  rewrite forallb_forall in C. split.
  - apply forallb_forall. intros t Ht. exact (proj2 (check_sign_tx_true _ _ _ _ _ (C t Ht))).
  - apply Forall_forall. intros t Ht. exact (proj1 (check_sign_tx_true _ _ _ _ _ (C t Ht))).
Qed.
