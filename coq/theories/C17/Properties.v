(** C17 — property theorems only. *)
From Coq Require Import List NArith ZArith Bool.
From C33 Require Import C16.Proto C16.Model C16.Spec C17.Model C17.Spec C17.Proofs C17.ProofsFee.
Import ListNotations.

(** CreateTxGroup produces the hash structure that Check demands; the last
    member carries no Next, whatever the last input carried. *)
Theorem C17_created_group_chained :
  forall (H : list N -> list N) txs rate G,
    create_group H txs rate = inr G ->
    chained H G /\ last_next G = [] /\ length G = length txs /\
    others_fee_free G = true /\ (2 <= length G)%nat.
Proof. exact create_group_spec. Qed.
Print Assumptions C17_created_group_chained.

(** A created group, its members signed in any way, passes Check (for every
    input list, a last input taken from an earlier group included). *)
Theorem C17_created_group_checks :
  forall (H : list N -> list N) txs rate G L e tot,
    create_group H txs rate = inr G ->
    map unsig L = map unsig G ->
    (Z.of_nat (length G) <= max_group)%Z ->
    existsb (chain_bad e) L = false ->
    (is_fork (e_height e) (e_para e) = true -> para_ok L = true) ->
    sum_fees L (e_minfee e) 0 = Some tot -> (tot <= head_fee L)%Z ->
    ((head_fee L >? e_maxfee e)%Z && (e_maxfee e >? 0)%Z && is_fork (e_height e) (e_block e) = false) ->
    check_group H e L = EOk.
Proof. exact created_group_checks. Qed.
Print Assumptions C17_created_group_checks.

(** The fee CreateTxGroup puts on the head covers what Check asks of the signed
    group at the creation rate: unsigned inputs (300 bytes are budgeted per
    signature), signature fields of at most 300 encoded bytes, no wrap-around. *)
Theorem C17_created_fee_sufficient :
  forall (H : list N -> list N) txs rate G L,
    (forall a b, length (H a) = length (H b)) ->
    create_group H txs rate = inr G ->
    Forall (fun t => signature t = None) txs ->
    (0 <= rate)%Z -> (101 * rate * Z.of_nat (length txs) < 2 ^ 63)%Z ->
    map unsig L = map unsig G ->
    Forall sig_small L ->
    exists tot, sum_fees L rate 0 = Some tot /\ (tot <= head_fee L)%Z.
Proof. exact created_fee_sufficient. Qed.
Print Assumptions C17_created_fee_sufficient.

(** Created from unsigned inputs, signed, presented at the creation rate: accepted. *)
Theorem C17_created_group_passes :
  forall (H : list N -> list N) txs rate G L e,
    (forall a b, length (H a) = length (H b)) ->
    create_group H txs rate = inr G ->
    Forall (fun t => signature t = None) txs ->
    (0 <= rate)%Z -> (101 * rate * Z.of_nat (length txs) < 2 ^ 63)%Z ->
    (Z.of_nat (length txs) <= max_group)%Z ->
    map unsig L = map unsig G -> Forall sig_small L ->
    e_minfee e = rate ->
    existsb (chain_bad e) L = false ->
    (is_fork (e_height e) (e_para e) = true -> para_ok L = true) ->
    ((head_fee L >? e_maxfee e)%Z && (e_maxfee e >? 0)%Z && is_fork (e_height e) (e_block e) = false) ->
    check_group H e L = EOk.
Proof. exact created_group_passes. Qed.
Print Assumptions C17_created_group_passes.

(** What passes Check and shares the header of a chained (created) group has
    the same members, field by field, signatures aside. *)
Theorem C17_same_header_same_content :
  forall (H : list N -> list N), (forall a b, H a = H b -> a = b) ->
  forall e L G,
    chained H G ->
    Forall (fun t => wf_txb t = true) G -> Forall (fun t => wf_txb t = true) L ->
    check_group H e L = EOk ->
    header (hd dtx L) = header (hd dtx G) ->
    map unsig L = map unsig G.
Proof. exact same_header_same_content. Qed.
Print Assumptions C17_same_header_same_content.

(** An accepted list that starts with any member of a chained group is that
    group: reordering, dropping, duplicating, inserting, substituting detected. *)
Theorem C17_member_first_detected :
  forall (H : list N -> list N), (forall a b, H a = H b -> a = b) ->
  forall e L G g,
    chained H G ->
    Forall (fun t => wf_txb t = true) G -> Forall (fun t => wf_txb t = true) L ->
    In g G -> unsig (hd dtx L) = unsig g ->
    check_group H e L = EOk ->
    map unsig L = map unsig G.
Proof. exact member_first_detected. Qed.
Print Assumptions C17_member_first_detected.

(** What passes Check and CheckSign, when only members of G were ever signed,
    is G member by member, and every signature on it is an issued one (up to
    the scheme's malleability relation). *)
Theorem C17_tamper_detected_partial :
  forall (H : list N -> list N), (forall a b, H a = H b -> a = b) ->
  forall ds verify mall issued G L e h,
    ideal_scheme verify mall issued ->
    chained H G ->
    Forall (fun t => wf_txb t = true) G -> Forall (fun t => wf_txb t = true) L ->
    (forall id p m s, issued id p m s -> exists g, In g G /\ m = sign_msg g) ->
    check_group H e L = EOk -> group_check_sign ds verify L h = true ->
    map unsig L = map unsig G /\
    Forall (fun l => exists s s0, signature l = Some s /\
                       issued (crypto_id (s_ty s)) (s_pub s) (sign_msg l) s0 /\
                       mall (crypto_id (s_ty s)) s0 (s_sig s) = true) L.
Proof. exact tamper_detected. Qed.
Print Assumptions C17_tamper_detected_partial.

Theorem C17_tamper_detected_refuted : ~ C17_tamper_detected_full.
Proof. exact tamper_detected_refuted. Qed.
Print Assumptions C17_tamper_detected_refuted.

(** Fee clauses: acceptance implies fee-free other members and a head fee that
    covers the sum Check computes; without wrap-around that sum is the required
    fee of the property text. *)
Theorem C17_fee_rules :
  forall (H : list N -> list N) e L,
    check_group H e L = EOk ->
    others_fee_free L = true /\
    exists tot, sum_fees L (e_minfee e) 0 = Some tot /\ (tot <= head_fee L)%Z.
Proof. exact fee_rules. Qed.
Print Assumptions C17_fee_rules.

Theorem C17_fee_sum_exact :
  forall m, (0 <= m)%Z -> forall L acc,
    (0 <= acc)%Z -> sizes_ok L = true -> (acc + required_fee m L < 2 ^ 63)%Z ->
    sum_fees L m acc = Some (acc + required_fee m L)%Z.
Proof. exact sum_fees_exact. Qed.
Print Assumptions C17_fee_sum_exact.

(** Tx() / GetTxGroup: checking the head that carries the encoded group is
    checking the group. *)
Theorem C17_decode_txs_encode :
  forall L, Forall (fun t => wf_txb t = true) L -> decode_txs (encode_txs L) = Some L.
Proof. exact decode_txs_encode. Qed.
Print Assumptions C17_decode_txs_encode.

Theorem C17_tx_path_equiv :
  forall (H : list N -> list N) e L t,
    Forall (fun t => wf_txb t = true) L -> group_tx L = Some t ->
    (2 <= groupCount (hd dtx L) <= 20)%Z ->
    tx_check H e t = check_group H e L.
Proof. exact tx_path_equiv. Qed.
Print Assumptions C17_tx_path_equiv.

(** RebuiltGroup restores the hash structure (it does not touch the counts);
    the last member carries no Next afterwards. *)
Theorem C17_rebuilt_group_chained :
  forall (H : list N -> list N) L M,
    rebuilt_group H L = Some M ->
    Forall (fun t => groupCount t = Z.of_nat (length L)) L ->
    chained H M /\ last_next M = [].
Proof. exact rebuilt_group_chained. Qed.
Print Assumptions C17_rebuilt_group_chained.

(** Transactions.CheckSign with the members' sender gate (chain33 909acb0)
    implies the gate-free check the theorems above assume, and gives every
    member a sender address derived by an address driver. *)
Theorem C17_checksign_gate_weakens :
  forall adrv ds verify L h,
    group_check_sign_tx adrv ds verify L h = true ->
    group_check_sign ds verify L h = true /\
    Forall (fun t => usable adrv (sig_ty t) (sig_pub t) = true) L.
Proof. exact group_check_sign_tx_weaken. Qed.
Print Assumptions C17_checksign_gate_weakens.
