(** C17 — the property text as an executable oracle over the implementation's
    observables, and the narrow signatures of the recorded findings.

    "A transaction group created by the client library and signed by its
    members passes validation and signature checks.  Reordering, dropping,
    adding or substituting a member, or altering any member field, makes the
    group fail validation or signature checking, and a group whose first
    member's fee is below the sum of the members' required fees, or whose other
    members carry a fee, is rejected." *)
From Coq Require Import List NArith ZArith Bool.
From C33 Require Import Lib.Harness Lib.Bytes C16.Proto C16.Model C16.Spec C17.Model.
Import ListNotations.
Open Scope list_scope.

(** same members, signatures aside *)
Definition same_content (L G : list tx) : bool := list_eqb unsigned_eqb L G.
Definition same_group (L G : list tx) : bool := list_eqb tx_eqb L G.

(** [issued]: the signed transactions that Transaction.Sign produced in this
    case (the members of the created group, members of other groups, members
    signed again with another key).  A presented member is authentic when it is
    one of them, field by field. *)
Definition authentic (issued : list tx) (t : tx) : bool := existsb (tx_eqb t) issued.

(** required fee of a member and of a group: (size / 1000 + 1) * rate, the size
    counting 300 bytes for a missing signature (no wrap-around: the harness
    keeps rates below 2^50) *)
Definition required_fee (minfee : Z) (L : list tx) : Z :=
  fold_right (fun t a => ((fee_size t / 1000 + 1) * minfee + a)%Z) 0%Z L.
Definition sizes_ok (L : list tx) : bool := forallb (fun t => (fee_size t <=? max_tx_size)%Z) L.

Definition others_fee_free (L : list tx) : bool := forallb (fun t => (fee t =? 0)%Z) (tl L).
Definition head_fee (L : list tx) : Z := match L with [] => 0%Z | t :: _ => fee t end.

(** the fee clause: rejected when another member carries a fee or the head's
    fee is below the sum of the required fees *)
Definition spec_fee (e : env) (L : list tx) (chk : N) : bool :=
  if negb (others_fee_free L) || (sizes_ok L && (head_fee L <? required_fee (e_minfee e) L)%Z)
  then negb (N.eqb chk 0) else true.

(** at most one parachain title, and a parachain group has parachain members only *)
Definition para_ok (L : list tx) : bool :=
  let ts := titles_of L in
  negb (multi_title ts) &&
  (match ts with [] => true | _ => forallb (fun t => is_para (execer t)) L end).

Fixpoint last_next (L : list tx) : list N :=
  match L with
  | [] => []
  | t :: r => match r with [] => next t | _ :: _ => last_next r end
  end.
Definition sig_enabled (ds : list drv) (h : Z) (t : tx) : bool :=
  match signature t with
  | Some s => (h <? 0)%Z || enabled ds (crypto_id (s_ty s)) h
  | None => false
  end.

(** the circumstances under which the first clause promises acceptance *)
Definition pass_guard0 (e : env) (ds : list drv) (G : list tx) : bool :=
  let n := Z.of_nat (length G) in
  (2 <=? n)%Z && (n <=? max_group)%Z &&
  (negb (is_fork (e_height e) (e_strict e)) || forallb (fun t => (chainID t =? e_chain e)%Z) G) &&
  (negb (is_fork (e_height e) (e_para e)) || para_ok G) &&
  others_fee_free G && sizes_ok G && (required_fee (e_minfee e) G <=? head_fee G)%Z &&
  negb ((head_fee G >? e_maxfee e)%Z && (e_maxfee e >? 0)%Z && is_fork (e_height e) (e_block e)) &&
  forallb (sig_enabled ds (e_height e)) G.

(** [G0]: the created group after its members signed; [L]: the presented
    group; [chk]: error class of Check (0 = nil, 100 = panic); [sgn]: CheckSign
    (0 false, 1 true, 2 panic). *)
Definition spec_entry (e : env) (ds : list drv) (issued G0 L : list tx) (chk sgn : N) : bool :=
  let accepted := N.eqb chk 0 && N.eqb sgn 1 in
  negb (N.eqb chk 100) && negb (N.eqb sgn 2) &&
  (* created and signed => accepted *)
  (if same_content L G0 && forallb (authentic issued) L && pass_guard0 e ds L then accepted else true) &&
  (* accepted => it is the created group, every member as it was signed *)
  (if accepted then same_content L G0 && forallb (authentic issued) L else true) &&
  spec_fee e L chk.

(** * Signatures of the open findings (known_findings/C17.json; finding 1 is
    fixed and has no signature any more) *)
(** exactly one position differs, by [p] *)
Fixpoint one_diff (p : tx -> tx -> bool) (G L : list tx) : bool :=
  match G, L with
  | g :: G', l :: L' => if tx_eqb g l then one_diff p G' L' else p g l && list_eqb tx_eqb G' L'
  | _, _ => false
  end.

Definition only_ty_bits (g l : tx) : bool :=
  match signature g, signature l with
  | Some s0, Some s1 =>
      unsigned_eqb g l && bytes_eqb (s_pub s0) (s_pub s1) && bytes_eqb (s_sig s0) (s_sig s1) &&
      negb (Z.eqb (s_ty s0) (s_ty s1)) && Z.eqb (crypto_id (s_ty s0)) (crypto_id (s_ty s1))
  | _, _ => false
  end.

Definition kf_classify17 (e : env) (ds : list drv) (issued G0 L : list tx) (chk sgn : N) : N :=
  let accepted := N.eqb chk 0 && N.eqb sgn 1 in
  if accepted && one_diff (fun g l => negb (N.eqb (kf_classify g l 1) 0)) G0 L then 2
  else if accepted && one_diff only_ty_bits G0 L then 3
  else 0.

(** * Statement vocabulary for the theorems *)
Definition unsig (t : tx) : tx := set_sig None t.

(** the hash structure that Check demands of a group, as a relation *)
Section Chain.
Variable H : list N -> list N.
Fixpoint linked (L : list tx) : Prop :=
  match L with
  | [] => True
  | t :: rest =>
      match rest with
      | [] => True
      | t1 :: _ => next t = thash H t1 /\ linked rest
      end
  end.
Definition chained (L : list tx) : Prop :=
  match L with
  | [] => False
  | t0 :: _ =>
      header t0 = thash H t0 /\
      Forall (fun t => header t = header t0 /\ groupCount t = Z.of_nat (length L)) L /\
      linked L
  end.
End Chain.

(** the property text at full strength: whatever passes Check and CheckSign is
    the created group itself, signature fields included *)
Definition C17_tamper_detected_full : Prop :=
  forall (H : list N -> list N), (forall a b, H a = H b -> a = b) ->
  forall ds verify mall issued G L e h,
    ideal_scheme verify mall issued ->
    chained H G -> Forall (fun t => wf_txb t = true) G -> Forall (fun t => wf_txb t = true) L ->
    (forall id p m s, issued id p m s ->
       exists g sg, In g G /\ signature g = Some sg /\ id = crypto_id (s_ty sg) /\
                    p = s_pub sg /\ m = sign_msg g /\ s = s_sig sg) ->
    check_group H e L = EOk -> group_check_sign ds verify L h = true ->
    L = G.

