(** C17 — the fee that CreateTxGroup puts on the head covers what Check will
    ask of the signed group at the same rate (signatures of at most 300
    encoded bytes, no int64 wrap-around). *)
From Coq Require Import List NArith ZArith Lia Bool.
From C33 Require Import Lib.Harness Lib.Bytes C16.Proto C16.Model C16.Spec C16.Proofs.
From C33 Require Import C17.Model C17.Spec C17.Proofs.
Import ListNotations.
Open Scope list_scope.

(** * Lengths of varints and of the fee field *)
Lemma varint_aux_len : forall f n k,
  (n < 128 ^ N.of_nat (S k))%N -> (length (varint_aux f n) <= S k)%nat.
Proof.
  induction f as [|f IH]; intros n k Hn; cbn [varint_aux]; [cbn; lia|].
  destruct (N.ltb_spec n 128) as [L|G]; [cbn; lia|].
  cbn [length]. destruct k as [|k].
  - change (128 ^ N.of_nat 1)%N with 128%N in Hn. lia.
  - apply le_n_S. apply IH. rewrite Nat2N.inj_succ, N.pow_succ_r' in Hn.
    apply N.div_lt_upper_bound; lia.
Qed.

Lemma varint_len_63 n : (n < 2 ^ 63)%N -> (length (varint n) <= 9)%nat.
Proof.
  intro Hn. unfold varint. apply (varint_aux_len _ n 8).
  change (128 ^ N.of_nat 9)%N with (2 ^ 63)%N. exact Hn.
Qed.

Lemma enc_int4_len z : (0 <= z < 2 ^ 63)%Z -> (length (enc_int 4 z) <= 10)%nat.
Proof.
  intro R. unfold enc_int. destruct (z =? 0)%Z; [cbn; lia|].
  rewrite app_length. change (key 4 0) with [32%N]. cbn [length].
  assert (E : u64 z = Z.to_N z) by (unfold u64; rewrite Z.mod_small by lia; reflexivity).
  rewrite E. assert (length (varint (Z.to_N z)) <= 9)%nat; [|lia].
  apply varint_len_63. apply N2Z.inj_lt. rewrite Z2N.id by lia.
  change (Z.of_N (2 ^ 63)) with (2 ^ 63)%Z. lia.
Qed.

Example enc_int4_len_62 : length (enc_int 4 (2 ^ 62)) = 10%nat.
Proof. vm_compute. reflexivity. Qed.

Lemma enc_bytes_len_eq fn a b : length a = length b -> length (enc_bytes fn a) = length (enc_bytes fn b).
Proof.
  destruct a as [|x a]; destruct b as [|y b]; try discriminate; [reflexivity|].
  intro E. unfold enc_bytes, len_delim. rewrite !app_length, E. reflexivity.
Qed.

Lemma wrap64_range z : (- 2 ^ 63 <= wrap64 z < 2 ^ 63)%Z.
Proof.
  unfold wrap64. pose proof (Z.mod_pos_bound (z + 2 ^ 63) (2 ^ 64) ltac:(lia)). lia.
Qed.

(** * A signed member is no larger (for the fee) than its creation-time form *)
Definition sig_small (l : tx) : Prop :=
  exists s, signature l = Some s /\ (length (enc_msg 3 (Some (encode_sig s))) <= 300)%nat.

Lemma fee_size_member c l hdr fl :
  signature c = None ->
  unsig l = unsig (set_header hdr (upd c fl (groupCount c) (header c) (next c))) ->
  length hdr = length (header c) ->
  (length (enc_int 4 fl) <= length (enc_int 4 (fee c)))%nat ->
  sig_small l ->
  (fee_size l <= fee_size c)%Z.
Proof.
  destruct c as [ce cp cs cf cx cn co cg chd cnx cc].
  destruct l as [le lp ls lf lx ln lo lg lhd lnx lc].
  cbn [signature groupCount header next fee]. intros -> E Hl Hf (s & Es & Hs).
  cbn [signature] in Es. subst ls.
  unfold unsig, set_sig, set_header, upd in E. cbn in E. injection E; intros; subst.
  unfold fee_size, tx_size, encode_tx.
  cbn [execer payload signature fee expire nonce to_ groupCount header next chainID option_map].
  pose proof (enc_bytes_len_eq 9 hdr chd Hl) as Eh.
  change (enc_msg 3 None) with (@nil N).
  rewrite !app_length. cbn [length]. lia.
Qed.

(** * What CreateTxGroup accumulates *)
(** the wrap-around sum of the creation-time real fees, last member first *)
Fixpoint cfold (rate : Z) (C : list tx) : option Z :=
  match C with
  | [] => Some 0%Z
  | c :: r => match cfold rate r, real_fee c rate with
              | Some m, Some rf => Some (wrap64 (m + rf))
              | _, _ => None
              end
  end.

Section Create.
Variable H : list N -> list N.

Lemma create_tail_fee n hdr0 rate : forall txs rest' tot mn,
  create_tail H n hdr0 rate txs = Some (rest', tot, mn) ->
  cfold rate rest' = Some mn /\
  Forall2 (fun t c => signature c = signature t /\ header c = hdr0 /\ fee c = 0%Z) txs rest'.
Proof.
  induction txs as [|t rest IH]; intros rest' tot mn E.
  - cbn in E. injection E as <- <- <-. split; [reflexivity|constructor].
  - cbn [create_tail] in E.
    destruct (create_tail H n hdr0 rate rest) as [[[r' tot'] mn']|] eqn:Ct; [|discriminate].
    destruct (real_fee _ rate) as [rf|] eqn:Rf; [|discriminate].
    injection E as <- <- <-.
    destruct (IH r' tot' mn' eq_refl) as (Cf & F2).
    split.
    + cbn [cfold]. rewrite Cf, Rf. reflexivity.
    + constructor; [|exact F2]. repeat split; destruct t; reflexivity.
Qed.

Lemma F2_map hdr0 hdr : forall ts cs,
  Forall2 (fun t c : tx => signature c = signature t /\ header c = hdr0 /\ fee c = 0%Z) ts cs ->
  Forall2 (fun c g => fee c = 0%Z /\ header c = hdr0 /\
                      g = set_header hdr (upd c (fee c) (groupCount c) (header c) (next c)))
          cs (map (set_header hdr) cs).
Proof.
  induction 1 as [|t c ts cs (Es & Eh & Ef) _ IH]; cbn [map]; constructor; [|exact IH].
  split; [exact Ef|]. split; [exact Eh|]. destruct c; reflexivity.
Qed.

(** the creation-time list [C] (head with fee 2^62, everything with the first
    header), the final fee [f], and how the created group relates to them *)
Lemma create_group_fee txs rate G :
  create_group H txs rate = inr G ->
  exists C f mn,
    cfold rate C = Some mn /\ (mn <= f)%Z /\ (- 2 ^ 63 <= f < 2 ^ 63)%Z /\
    Forall2 (fun t c => signature c = signature t) txs C /\
    match C, G with
    | c0 :: Cr, g0 :: Gr =>
        fee c0 = (2 ^ 62)%Z /\
        g0 = set_header (header g0) (upd c0 f (groupCount c0) (header c0) (next c0)) /\
        (exists a b, header c0 = H a /\ header g0 = H b) /\
        Forall2 (fun c g => fee c = 0%Z /\ header c = header c0 /\
                            g = set_header (header g0) (upd c (fee c) (groupCount c) (header c) (next c))) Cr Gr
    | _, _ => False
    end.
Proof.
  unfold create_group. destruct txs as [|t0 [|t1 rest]]; try discriminate.
  set (n := Z.of_nat (length (t0 :: t1 :: rest))).
  destruct (create_tail H n (thash H t0) rate (t1 :: rest)) as [[[rest' tot] mn]|] eqn:Ct; [|discriminate].
  destruct (real_fee _ rate) as [rf|] eqn:Rf; [|discriminate].
  intro E. cbv zeta in E. injection E as <-.
  destruct (create_tail_fee _ _ _ _ _ _ _ Ct) as (Cf & F2).
  set (nx := match rest' with [] => next t0 | t2 :: _ => thash H t2 end) in *.
  set (f := if (wrap64 (tot + fee t0) <? wrap64 (mn + rf))%Z then wrap64 (mn + rf) else wrap64 (tot + fee t0)).
  exists (upd t0 (2 ^ 62) n (thash H t0) nx :: rest'), f, (wrap64 (mn + rf)).
  split; [cbn [cfold]; rewrite Cf, Rf; reflexivity|].
  split; [unfold f; destruct (Z.ltb_spec (wrap64 (tot + fee t0)) (wrap64 (mn + rf))); lia|].
  split; [unfold f; destruct (Z.ltb_spec (wrap64 (tot + fee t0)) (wrap64 (mn + rf))); apply wrap64_range|].
  split.
  - constructor; [destruct t0; reflexivity|].
    clear - F2. induction F2 as [|x y xs ys (A & _ & _) _ IH]; constructor; auto.
  - cbn [map]. split; [reflexivity|]. split; [destruct t0; reflexivity|].
    split; [exists (hash_pre t0), (hash_pre (upd t0 f n (thash H t0) nx)); split; reflexivity|].
    exact (F2_map (thash H t0) (thash H (upd t0 f n (thash H t0) nx)) _ _ F2).
Qed.

End Create.

(** * No wrap-around: the accumulated sum is the required fee *)
Lemma real_fee_some t rate rf :
  real_fee t rate = Some rf ->
  (fee_size t <= max_tx_size)%Z /\ rf = wrap64 ((fee_size t / 1000 + 1) * rate).
Proof.
  unfold real_fee. destruct (Z.gtb_spec (fee_size t) max_tx_size); [discriminate|].
  intro E. injection E as <-. split; [lia|reflexivity].
Qed.

Lemma required_fee_bound rate C :
  (0 <= rate)%Z -> sizes_ok C = true ->
  (required_fee rate C <= 101 * rate * Z.of_nat (length C))%Z.
Proof.
  intros Hr. induction C as [|c C IH]; intro So; [cbn; lia|].
  cbn [sizes_ok forallb] in So. apply andb_true_iff in So as [S1 S2]. apply Z.leb_le in S1.
  specialize (IH S2). cbn [required_fee fold_right length]. fold (required_fee rate C).
  pose proof (fee_size_nonneg c).
  assert (fee_size c / 1000 <= 100)%Z.
  { apply Z.div_le_upper_bound; [lia|]. unfold max_tx_size in S1. lia. }
  assert (0 <= fee_size c / 1000)%Z by (apply Z.div_pos; lia).
  rewrite Nat2Z.inj_succ. nia.
Qed.

Lemma cfold_exact rate : (0 <= rate)%Z -> forall C mn,
  cfold rate C = Some mn ->
  (101 * rate * Z.of_nat (length C) < 2 ^ 63)%Z ->
  sizes_ok C = true /\ mn = required_fee rate C.
Proof.
  intros Hr. induction C as [|c C IH]; intros mn E Bd.
  - cbn in E. injection E as <-. split; reflexivity.
  - cbn [cfold] in E. destruct (cfold rate C) as [m|] eqn:Cf; [|discriminate].
    destruct (real_fee c rate) as [rf|] eqn:Rf; [|discriminate]. injection E as <-.
    cbn [length] in Bd. rewrite Nat2Z.inj_succ in Bd.
    destruct (IH m eq_refl ltac:(lia)) as (So & ->).
    apply real_fee_some in Rf as (Sz & ->).
    assert (So' : sizes_ok (c :: C) = true).
    { cbn [sizes_ok forallb]. apply andb_true_iff. split; [apply Z.leb_le; exact Sz|exact So]. }
    split; [exact So'|].
    pose proof (required_fee_bound rate (c :: C) Hr So') as B.
    cbn [required_fee fold_right length] in B |- *. fold (required_fee rate C) in B |- *.
    rewrite Nat2Z.inj_succ in B.
    pose proof (required_fee_nonneg rate C Hr). pose proof (fee_size_nonneg c).
    assert (0 <= fee_size c / 1000)%Z by (apply Z.div_pos; lia).
    assert (0 <= (fee_size c / 1000 + 1) * rate)%Z by nia.
    rewrite (wrap64_id ((fee_size c / 1000 + 1) * rate)) by lia.
    rewrite wrap64_id by lia. lia.
Qed.

Lemma required_fee_mono rate : (0 <= rate)%Z -> forall L C,
  Forall2 (fun l c => (fee_size l <= fee_size c)%Z) L C ->
  (required_fee rate L <= required_fee rate C)%Z /\ (sizes_ok C = true -> sizes_ok L = true).
Proof.
  intros Hr. induction 1 as [|l c L C Le _ IH]; [split; [lia|auto]|].
  destruct IH as [IH1 IH2]. cbn [required_fee fold_right sizes_ok forallb].
  fold (required_fee rate L). fold (required_fee rate C). split.
  - pose proof (fee_size_nonneg l).
    assert (fee_size l / 1000 <= fee_size c / 1000)%Z by (apply Z.div_le_mono; lia). nia.
  - rewrite !andb_true_iff, !Z.leb_le. intros [A B]. split; [lia|]. apply IH2. exact B.
Qed.

Lemma forall2_len {A B : Type} (R : A -> B -> Prop) l1 l2 : Forall2 R l1 l2 -> length l1 = length l2.
Proof. induction 1; cbn; congruence. Qed.

(** * The theorem *)
Theorem created_fee_sufficient :
  forall (H : list N -> list N) txs rate G L,
    (forall a b, length (H a) = length (H b)) ->
    create_group H txs rate = inr G ->
    Forall (fun t => signature t = None) txs ->
    (0 <= rate)%Z -> (101 * rate * Z.of_nat (length txs) < 2 ^ 63)%Z ->
    map unsig L = map unsig G ->
    Forall sig_small L ->
    exists tot, sum_fees L rate 0 = Some tot /\ (tot <= head_fee L)%Z.
Proof.
  intros H txs rate G L Hlen Cr Uns Hr Bd E Sm.
  destruct (create_group_fee H txs rate G Cr) as (C & f & mn & Cf & Le & Rf & Sg & Rel).
  assert (LenC : length C = length txs) by (symmetry; eapply forall2_len; eauto).
  destruct (cfold_exact rate Hr C mn Cf ltac:(rewrite LenC; exact Bd)) as (SoC & ->).
  pose proof (required_fee_nonneg rate C Hr) as NnC.
  destruct C as [|c0 Cr']; [contradiction|]. destruct G as [|g0 Gr]; [contradiction|].
  destruct Rel as (Fc0 & Eg0 & (a & b & Ha & Hb) & RelT).
  assert (SigC : Forall (fun c => signature c = None) (c0 :: Cr')).
  { clear - Sg Uns. induction Sg as [|t c ts cs Es _ IH]; [constructor|].
    inversion Uns; subst. constructor; [congruence|auto]. }
  assert (F2 : Forall2 (fun l c => (fee_size l <= fee_size c)%Z) L (c0 :: Cr')).
  { destruct L as [|l0 Lr]; [discriminate|].
    apply map_unsig_cons_inv in E as (g0' & Gr' & Eq & El0 & Er). injection Eq as <- <-.
    inversion Sm as [|? ? Sm0 SmR]; subst. inversion SigC as [|? ? Sc0 ScR]; subst.
    constructor.
    - apply fee_size_member with (hdr := header g0) (fl := f);
        [ assumption
        | first [exact El0 | rewrite El0, Eg0 at 1; reflexivity]
        | rewrite Ha, Hb; apply Hlen
        | rewrite Fc0, enc_int4_len_62; apply enc_int4_len;
          pose proof (required_fee_nonneg rate (c0 :: Cr') Hr); lia
        | assumption ].
    - clear - RelT Er SmR ScR Ha Hb Hlen.
      revert Lr Er SmR. induction RelT as [|c g Cs Gs (Fc & Hc & Eg) _ IH]; intros Lr Er SmR.
      + destruct Lr; [constructor|discriminate].
      + destruct Lr as [|l Lr]; [discriminate|].
        apply map_unsig_cons_inv in Er as (g' & Gs' & Eq & El & Er'). injection Eq as <- <-.
        inversion SmR; subst. inversion ScR; subst.
        constructor; [|apply IH; assumption].
        apply fee_size_member with (hdr := header g0) (fl := fee c);
          [ assumption
          | first [exact El | rewrite El, Eg at 1; reflexivity]
          | rewrite Hc, Ha, Hb; apply Hlen
          | lia
          | assumption ]. }
  destruct (required_fee_mono rate Hr _ _ F2) as (Mono & SoL).
  exists (required_fee rate L). split.
  - rewrite (sum_fees_exact rate Hr L 0); [f_equal; lia | lia | apply SoL; exact SoC |].
    pose proof (required_fee_bound rate (c0 :: Cr') Hr SoC). rewrite LenC in *. lia.
  - destruct L as [|l0 Lr]; [discriminate|].
    apply map_unsig_cons_inv in E as (g0' & Gr' & Eq & El0 & _). injection Eq as <- <-.
    cbn [head_fee]. apply unsig_fields in El0. destruct El0 as (_&_&Ef&_).
    assert (Ff : fee g0 = f) by (rewrite Eg0; reflexivity).
    rewrite Ef, Ff. lia.
Qed.

(** * Created, signed, presented at the creation rate: accepted *)
Theorem created_group_passes :
  forall (H : list N -> list N) txs rate G L e,
    (forall a b, length (H a) = length (H b)) ->
    create_group H txs rate = inr G ->
    Forall (fun t => signature t = None) txs ->
    (0 <= rate)%Z -> (101 * rate * Z.of_nat (length txs) < 2 ^ 63)%Z ->
    (Z.of_nat (length txs) <= max_group)%Z ->
    map unsig L = map unsig G -> Forall sig_small L ->
    e_minfee e = rate ->
    existsb (chain_bad e) L = false ->
    (is_fork (e_height e) (e_para e) = true -> para_ok L = true) ->
    ((head_fee L >? e_maxfee e)%Z && (e_maxfee e >? 0)%Z && is_fork (e_height e) (e_block e) = false) ->
    check_group H e L = EOk.
Proof.
  intros H txs rate G L e Hlen Cr Uns Hr Bd Hn E Sm Em Cb Pa Th.
  destruct (created_fee_sufficient H txs rate G L Hlen Cr Uns Hr Bd E Sm) as (tot & Sf & Le).
  destruct (create_group_spec H _ _ _ Cr) as (_ & _ & LenG & _).
  apply (created_group_checks H txs rate G L e tot); try assumption.
  - rewrite LenG. exact Hn.
  - rewrite Em. exact Sf.
Qed.

(** the hypotheses are satisfiable: two unsigned inputs, a constant-length
    hash, rate 100, both members signed with a 6-byte signature field *)
Definition cH (x : list N) : list N := [N.of_nat (length x) mod 256; 7; 7; 7]%N.
Definition ex_Gc : list tx :=
  Eval vm_compute in match create_group cH [ex_t1; ex_t2] 100 with inr G => G | inl _ => [] end.
Definition ex_Lc : list tx := map (set_sig (Some (mk_sig 1 [2; 3]%N [4; 5]%N))) ex_Gc.
Example ex_created_passes :
  create_group cH [ex_t1; ex_t2] 100 = inr ex_Gc /\ Forall sig_small ex_Lc /\
  map unsig ex_Lc = map unsig ex_Gc /\
  check_group cH (mk_env 0 10 100 0 0 100 1000000) ex_Lc = EOk /\ head_fee ex_Lc = 100000%Z.
Proof.
  split; [vm_compute; reflexivity|]. split.
  - repeat constructor; eexists; (split; [reflexivity|vm_compute; lia]).
  - split; [vm_compute; reflexivity|]. split; vm_compute; reflexivity.
Qed.
