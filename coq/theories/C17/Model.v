(** C17 — executable model of chain33's transaction groups (types/tx.go:
    CreateTxGroup, RebuiltGroup, Transactions.CheckWithFork / Check /
    CheckSign / Tx, Transaction.GetTxGroup / Check / check / GetRealFee;
    types/config.go: IsParaExecName, GetParaExecTitleName; types/fork.go:
    IsFork), as the code is (from chain33 db466e1 on: CreateTxGroup and
    RebuiltGroup clear the Next of the last member).

    The transaction record, its wire encoding, [hash_pre] (the bytes that
    Transaction.Hash feeds to SHA-256) and [check_sign] come from C16.  SHA-256
    is the Section variable [H] (digest as a byte string).  Go [nil] and empty
    byte slices are both [[]] (they are the same on the wire).  int64 arithmetic
    wraps ([wrap64]). *)
From Coq Require Import List NArith ZArith Bool.
From C33 Require Import Lib.Harness Lib.Bytes C16.Proto C16.Model.
Import ListNotations.
Open Scope list_scope.

(** error classes of the group functions *)
Inductive gerr :=
| EOk | ELessThanTwo | EEmpty | EChainID | EParaCount | EParaMainMixed | EFeeNotZero
| ESizeTooBig | EFeeTooLow | EFeeTooHigh | EHeader | ECountBig | ECount | ENext
| ENomalTx | EDecode.

Definition err_code (e : gerr) : N :=
  match e with
  | EOk => 0 | ELessThanTwo => 1 | EEmpty => 2 | EChainID => 3 | EParaCount => 4
  | EParaMainMixed => 5 | EFeeNotZero => 6 | ESizeTooBig => 7 | EFeeTooLow => 8
  | EFeeTooHigh => 9 | EHeader => 10 | ECountBig => 11 | ECount => 12 | ENext => 13
  | ENomalTx => 14 | EDecode => 15
  end%N.

Definition is_ok (e : gerr) : bool := match e with EOk => true | _ => false end.

(** Go int64 wrap-around *)
Definition wrap64 (z : Z) : Z := ((z + 2 ^ 63) mod 2 ^ 64 - 2 ^ 63)%Z.

(** the five fields the group functions write *)
Definition upd (t : tx) (f gc : Z) (hd nx : list N) : tx :=
  mk_tx (execer t) (payload t) (signature t) f (expire t) (nonce t) (to_ t) gc hd nx (chainID t).
Definition set_next (nx : list N) (t : tx) : tx := upd t (fee t) (groupCount t) (header t) nx.
Definition set_count (gc : Z) (t : tx) : tx := upd t (fee t) gc (header t) (next t).

(** Transaction.GetRealFee: [None] = ErrTxMsgSizeTooBig *)
Definition tx_size (t : tx) : Z := Z.of_nat (length (encode_tx t)).
Definition fee_size (t : tx) : Z :=
  (tx_size t + match signature t with None => 300 | Some _ => 0 end)%Z.
Definition max_tx_size : Z := 100000.
Definition real_fee (t : tx) (minfee : Z) : option Z :=
  let sz := fee_size t in
  if (sz >? max_tx_size)%Z then None else Some (wrap64 ((sz / 1000 + 1) * minfee)).

(** types.IsParaExecName / GetParaExecTitleName *)
Definition para_key : list N := [117; 115; 101; 114; 46; 112; 46]%N.   (* "user.p." *)
Definition is_para (e : list N) : bool := is_prefix para_key e.
Fixpoint dot_idx (l : list N) : option nat :=
  match l with
  | [] => None
  | b :: tl => if (b =? 46)%N then Some O else option_map S (dot_idx tl)
  end.
Definition para_title (e : list N) : option (list N) :=
  if is_para e then
    match dot_idx (skipn 7 e) with
    | Some k => Some (firstn (7 + k + 1) e)
    | None => None
    end
  else None.
Definition titles_of (L : list tx) : list (list N) :=
  flat_map (fun t => match para_title (execer t) with Some x => [x] | None => [] end) L.
(** len(para) > 1 for the Go map keyed by title *)
Definition multi_title (ts : list (list N)) : bool :=
  match ts with [] => false | t :: r => existsb (fun u => negb (beqb t u)) r end.

(** Forks.IsFork *)
Definition is_fork (h fh : Z) : bool := (h =? -1)%Z || (fh <=? h)%Z.

(** what Check is called with: cfg (chain id, the three fork heights), height, minfee, maxFee *)
Record env := mk_env {
  e_chain : Z; e_height : Z; e_strict : Z; e_para : Z; e_block : Z; e_minfee : Z; e_maxfee : Z }.

Definition chain_bad (e : env) (t : tx) : bool :=
  is_fork (e_height e) (e_strict e) && negb (chainID t =? e_chain e)%Z.

(** Transaction.check(cfg, height, minfee, maxFee) *)
Definition tx_check1 (e : env) (t : tx) (minfee maxfee : Z) : gerr :=
  if chain_bad e t then EChainID
  else if (minfee =? 0)%Z then EOk
  else match real_fee t minfee with
       | None => ESizeTooBig
       | Some rf =>
           if (fee t <? rf)%Z then EFeeTooLow
           else if (fee t >? maxfee)%Z && (maxfee >? 0)%Z && is_fork (e_height e) (e_block e)
           then EFeeTooHigh
           else if negb (chainID t =? e_chain e)%Z then EChainID else EOk
       end.

(** sum of GetRealFee over the members, left to right *)
Fixpoint sum_fees (L : list tx) (minfee acc : Z) : option Z :=
  match L with
  | [] => Some acc
  | t :: r => match real_fee t minfee with
              | None => None
              | Some f => sum_fees r minfee (wrap64 (acc + f))
              end
  end.

Definition max_group : Z := 20.

Section WithHash.
Variable H : list N -> list N.

Definition thash (t : tx) : list N := H (hash_pre t).

(** ** CreateTxGroup *)
(** members n-1 .. 1 (processed from the last one): result list, totalfee, minfee.
    The Next of the last member is cleared before anything else
    (txs[len(txs)-1].Next = nil), so its creation-time size is computed
    without it. *)
Fixpoint create_tail (n : Z) (hdr0 : list N) (rate : Z) (txs : list tx)
  : option (list tx * Z * Z) :=
  match txs with
  | [] => Some ([], 0%Z, 0%Z)
  | t :: rest =>
      match create_tail n hdr0 rate rest with
      | None => None
      | Some (rest', tot, mn) =>
          let nx := match rest' with [] => [] | t1 :: _ => thash t1 end in
          let t' := upd t 0 n hdr0 nx in
          match real_fee t' rate with
          | None => None
          | Some rf => Some (t' :: rest', wrap64 (tot + fee t), wrap64 (mn + rf))
          end
      end
  end.

Definition create_group (txs : list tx) (rate : Z) : gerr + list tx :=
  match txs with
  | [] | [_] => inl ELessThanTwo
  | t0 :: rest =>
      let n := Z.of_nat (length txs) in
      let hdr0 := thash t0 in
      match create_tail n hdr0 rate rest with
      | None => inl ESizeTooBig
      | Some (rest', tot, mn) =>
          let nx := match rest' with [] => next t0 | t1 :: _ => thash t1 end in
          match real_fee (upd t0 (2 ^ 62) n hdr0 nx) rate with
          | None => inl ESizeTooBig
          | Some rf =>
              let tot' := wrap64 (tot + fee t0) in
              let mn' := wrap64 (mn + rf) in
              let f := if (tot' <? mn')%Z then mn' else tot' in
              let t0' := upd t0 f n hdr0 nx in
              inr (map (set_header (thash t0')) (t0' :: rest'))
          end
      end
  end.

(** ** RebuiltGroup (the Go code indexes Txs[len-1] and Txs[0]: an empty group
    panics = [None]); the Next of the last member is cleared first *)
Fixpoint relink (L : list tx) : list tx :=
  match L with
  | [] => []
  | t :: rest =>
      let rest' := relink rest in
      match rest' with
      | [] => [set_next [] t]
      | t1 :: _ => set_next (thash t1) t :: rest'
      end
  end.
Definition rebuilt_group (L : list tx) : option (list tx) :=
  match relink L with
  | [] => None
  | t0 :: r => Some (map (set_header (thash t0)) (t0 :: r))
  end.

(** ** Transactions.CheckWithFork / Check *)
(** the last loop: header, group count, next — per member, in this order *)
Fixpoint hash_loop (hdr0 : list N) (n : Z) (first : bool) (L : list tx) : gerr :=
  match L with
  | [] => EOk
  | t :: rest =>
      if negb (beqb (if first then thash t else hdr0) (header t)) then EHeader
      else if (groupCount t >? max_group)%Z then ECountBig
      else if negb (groupCount t =? n)%Z then ECount
      else match rest with
           | [] => match next t with [] => EOk | _ :: _ => ENext end
           | t1 :: _ => if beqb (next t) (thash t1) then hash_loop hdr0 n false rest else ENext
           end
  end.

Definition check_group (e : env) (L : list tx) : gerr :=
  match L with
  | [] | [_] => ELessThanTwo
  | t0 :: rest =>
      if existsb (chain_bad e) L then EChainID
      else
        let para_fork := is_fork (e_height e) (e_para e) in
        let ts := titles_of L in
        if para_fork && multi_title ts then EParaCount
        else if para_fork && negb (match ts with [] => true | _ => false end) &&
                existsb (fun t => negb (is_para (execer t))) L then EParaMainMixed
        else if existsb (fun t => negb (fee t =? 0)%Z) rest then EFeeNotZero
        else match sum_fees L (e_minfee e) 0 with
             | None => ESizeTooBig
             | Some tot =>
                 if (fee t0 <? tot)%Z then EFeeTooLow
                 else if (fee t0 >? e_maxfee e)%Z && (e_maxfee e >? 0)%Z &&
                         is_fork (e_height e) (e_block e) then EFeeTooHigh
                 else hash_loop (header t0) (Z.of_nat (length L)) true L
             end
  end.

End WithHash.

(** Transactions.CheckSign without the members' sender gate ([check_sign]:
    signature present, types.CheckSign) - what it was before chain33 909acb0
    and what every accepted group still satisfies *)
Definition group_check_sign (ds : list drv) (verify : Z -> list N -> list N -> list N -> bool)
    (L : list tx) (h : Z) : bool :=
  forallb (fun t => check_sign ds verify t h) L.

(** Transactions.CheckSign: Transaction.checkSign of every member, which since
    chain33 909acb0 also refuses a Signature.ty / key from which no sender
    address can be derived (C16.Model.check_sign_tx) *)
Definition group_check_sign_tx (adrv : Z -> list N -> aout) (ds : list drv)
    (verify : Z -> list N -> list N -> list N -> bool) (L : list tx) (h : Z) : bool :=
  forallb (fun t => check_sign_tx adrv ds verify t h) L.

(** ** message Transactions { repeated Transaction txs = 1; }, Tx(), GetTxGroup *)
Definition encode_txs (L : list tx) : list N := enc_rep_msg 1 (map encode_tx L).

Fixpoint dec_rep (fuel : nat) (l : list N) : option (list (list N)) :=
  match l with
  | [] => Some []
  | _ :: _ =>
      match fuel with
      | O => None
      | S f =>
          match get_varint l with
          | Some (k, r) =>
              if (k =? 10)%N then
                match take_len r with
                | Some (b, r') => option_map (cons b) (dec_rep f r')
                | None => None
                end
              else None
          | None => None
          end
      end
  end.

Fixpoint map_opt {A B : Type} (f : A -> option B) (l : list A) : option (list B) :=
  match l with
  | [] => Some []
  | a :: r => match f a, map_opt f r with
              | Some b, Some r' => Some (b :: r')
              | _, _ => None
              end
  end.

(** decoder for canonical encodings (what Encode produces) *)
Definition decode_txs (l : list N) : option (list tx) :=
  match dec_rep (length l) l with
  | Some bs => map_opt decode_tx bs
  | None => None
  end.

(** Transactions.Tx(): copy of the head with the encoded group in its header *)
Definition group_tx (L : list tx) : option tx :=
  match L with
  | [] | [_] => None
  | t0 :: _ => Some (set_header (encode_txs L) (clone_tx t0))
  end.

(** Transaction.GetTxGroup *)
Definition get_tx_group (t : tx) : gerr + option (list tx) :=
  let gc := groupCount t in
  if (gc <? 0)%Z || (gc =? 1)%Z || (gc >? 20)%Z then inl ECount
  else if (gc >? 0)%Z then
    match decode_txs (header t) with
    | Some L => inr (Some L)
    | None => inl EDecode
    end
  else match next t, header t with
       | [], [] => inr None
       | _, _ => inl ENomalTx
       end.

(** Transaction.Check *)
Definition tx_check (H : list N -> list N) (e : env) (t : tx) : gerr :=
  match get_tx_group t with
  | inl er => er
  | inr None => tx_check1 e t (e_minfee e) (e_maxfee e)
  | inr (Some L) => check_group H e L
  end.
