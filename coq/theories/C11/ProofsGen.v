(** C11 — the interpreter preserves any operation-wise simulation between two backends.
    [R b c a]: the two database states are related, [b] tells whether a transaction is
    open.  [OR] relates observations (equality for the full theorem; "local reads are
    not compared" for the state-only theorem).  [need_guard]: whether the simulation of
    Rollback needs the implementation-side guard [b_rb_ok]. *)
From Coq Require Import List NArith ZArith Bool.
From C33 Require Import Lib.Harness Lib.Bytes Lib.OMap C11.Model.
Import ListNotations.

Section Gen.
Context {S1 S2 : Type} (B1 : backend S1) (B2 : backend S2).
Variable R : bool -> S1 -> S2 -> Prop.
Variable OR : obs -> obs -> Prop.
Variable need_guard : bool.

Hypothesis OR_S : forall o, OR (OS o) (OS o).
Hypothesis H_sget : forall b c a k, R b c a ->
  R b (fst (b_sget B1 c k)) (fst (b_sget B2 a k)) /\ snd (b_sget B1 c k) = snd (b_sget B2 a k).
Hypothesis H_sset : forall b c a k v, R b c a -> R b (b_sset B1 c k v) (b_sset B2 a k v).
Hypothesis H_skeys : forall b c a, R b c a -> b_skeys B1 c = b_skeys B2 a.
Hypothesis H_lget : forall b c a k, R b c a ->
  R b (fst (b_lget B1 c k)) (fst (b_lget B2 a k)) /\ OR (snd (b_lget B1 c k)) (snd (b_lget B2 a k)).
Hypothesis H_llist : forall b c a k, R b c a ->
  R b (fst (b_llist B1 c k)) (fst (b_llist B2 a k)) /\ OR (snd (b_llist B1 c k)) (snd (b_llist B2 a k)).
Hypothesis H_lset : forall c a k v, R true c a ->
  R true (fst (b_lset B1 c k v)) (fst (b_lset B2 a k v)) /\ snd (b_lset B1 c k v) = snd (b_lset B2 a k v).
Hypothesis H_lkeys : forall b c a, R b c a -> b_lkeys B1 c = b_lkeys B2 a.
Hypothesis H_begin : forall c a, R false c a -> R true (b_begin B1 c) (b_begin B2 a).
Hypothesis H_commit : forall c a, R true c a -> R false (b_commit B1 c) (b_commit B2 a).
Hypothesis H_rollback : forall c a, R true c a ->
  (need_guard = true -> b_rb_ok B1 c = true) -> R false (b_rollback B1 c) (b_rollback B2 a).
Hypothesis H_rbok : need_guard = true -> forall c a, R true c a -> b_rb_ok B1 c = b_rb_ok B2 a.
Hypothesis H_starttx : forall b c a, R b c a -> R b (b_starttx B1 c) (b_starttx B2 a).
Hypothesis H_enter : forall b c a st, R b c a -> R b (b_enter B1 c st) (b_enter B2 a st).
Hypothesis H_leave : forall b c a st, R b c a -> R b (b_leave B1 c st) (b_leave B2 a st).

Definition TR := Forall2 OR.

Lemma TR_app t1 t2 u1 u2 : TR t1 t2 -> TR u1 u2 -> TR (t1 ++ u1) (t2 ++ u2).
Proof. apply Forall2_app. Qed.

Ltac use_sget c a k HR :=
  let H1 := fresh "Hg" in let H2 := fresh "Hv" in
  destruct (H_sget _ c a k HR) as [H1 H2];
  destruct (b_sget B1 c k) as [? ?]; destruct (b_sget B2 a k) as [? ?]; simpl in H1, H2; subst.
Ltac use_lget c a k HR :=
  let H1 := fresh "Hg" in let H2 := fresh "Hv" in
  destruct (H_lget _ c a k HR) as [H1 H2];
  destruct (b_lget B1 c k) as [? ?]; destruct (b_lget B2 a k) as [? ?]; simpl in H1, H2.
Ltac use_llist c a k HR :=
  let H1 := fresh "Hg" in let H2 := fresh "Hv" in
  destruct (H_llist _ c a k HR) as [H1 H2];
  destruct (b_llist B1 c k) as [? ?]; destruct (b_llist B2 a k) as [? ?]; simpl in H1, H2.
Ltac use_lset c a k v HR :=
  let H1 := fresh "Hg" in let H2 := fresh "Hv" in
  destruct (H_lset c a k v HR) as [H1 H2];
  destruct (b_lset B1 c k v) as [? ?]; destruct (b_lset B2 a k v) as [? ?]; simpl in H1, H2; subst.

Lemma sim_sops : forall ops c a, R true c a ->
  match run_sops B1 c ops, run_sops B2 a ops with
  | (c', t1, r1), (a', t2, r2) => R true c' a' /\ TR t1 t2 /\ r1 = r2
  end.
Proof.
  induction ops as [|o tl IH]; intros c a HR; simpl.
  - repeat split; auto. constructor.
  - destruct o.
    + specialize (IH _ _ (H_sset _ _ _ k v HR)).
      destruct (run_sops B1 _ tl) as [[c1 t1] r1]. destruct (run_sops B2 _ tl) as [[a1 t2] r2].
      destruct IH as (H1 & H2 & H3). subst. auto.
    + apply IH. apply H_sset, HR.
    + specialize (IH _ _ HR).
      destruct (run_sops B1 _ tl) as [[c1 t1] r1]. destruct (run_sops B2 _ tl) as [[a1 t2] r2].
      destruct IH as (H1 & H2 & H3). subst. auto.
    + use_sget c a k HR. specialize (IH _ _ Hg).
      destruct (run_sops B1 _ tl) as [[c1 t1] r1]. destruct (run_sops B2 _ tl) as [[a1 t2] r2].
      destruct IH as (H1 & H2 & H3). subst. repeat split; auto. constructor; auto.
    + use_lget c a k HR. specialize (IH _ _ Hg).
      destruct (run_sops B1 _ tl) as [[c1 t1] r1]. destruct (run_sops B2 _ tl) as [[a1 t2] r2].
      destruct IH as (H1 & H2 & H3). subst. repeat split; auto. constructor; auto.
    + use_llist c a p HR. specialize (IH _ _ Hg).
      destruct (run_sops B1 _ tl) as [[c1 t1] r1]. destruct (run_sops B2 _ tl) as [[a1 t2] r2].
      destruct IH as (H1 & H2 & H3). subst. repeat split; auto. constructor; auto.
    + use_lset c a k v HR. destruct b0.
      * apply IH, Hg.
      * repeat split; auto. constructor.
    + repeat split; auto. constructor.
    + repeat split; auto. constructor.
Qed.

Lemma sim_lops : forall ops c a, R true c a ->
  match run_lops B1 c ops, run_lops B2 a ops with
  | (c', t1, r1), (a', t2, r2) => R true c' a' /\ TR t1 t2 /\ r1 = r2
  end.
Proof.
  induction ops as [|o tl IH]; intros c a HR; simpl.
  - repeat split; auto. constructor.
  - destruct o.
    + use_lset c a k v HR. destruct b0.
      * specialize (IH _ _ Hg).
        destruct (run_lops B1 _ tl) as [[c1 t1] r1]. destruct (run_lops B2 _ tl) as [[a1 t2] r2].
        destruct IH as (H1 & H2 & H3). subst. auto.
      * repeat split; auto. constructor.
    + use_lset c a k v HR. destruct b0.
      * apply IH, Hg.
      * repeat split; auto. constructor.
    + specialize (IH _ _ HR).
      destruct (run_lops B1 _ tl) as [[c1 t1] r1]. destruct (run_lops B2 _ tl) as [[a1 t2] r2].
      destruct IH as (H1 & H2 & H3). subst. auto.
    + use_lget c a k HR. specialize (IH _ _ Hg).
      destruct (run_lops B1 _ tl) as [[c1 t1] r1]. destruct (run_lops B2 _ tl) as [[a1 t2] r2].
      destruct IH as (H1 & H2 & H3). subst. repeat split; auto. constructor; auto.
    + use_llist c a p HR. specialize (IH _ _ Hg).
      destruct (run_lops B1 _ tl) as [[c1 t1] r1]. destruct (run_lops B2 _ tl) as [[a1 t2] r2].
      destruct IH as (H1 & H2 & H3). subst. repeat split; auto. constructor; auto.
    + repeat split; auto. constructor.
Qed.

Lemma sim_lset_all : forall kvs c a, R true c a -> R true (lset_all B1 c kvs) (lset_all B2 a kvs).
Proof.
  unfold lset_all. induction kvs as [|e tl IH]; intros c a HR; simpl; auto.
  apply IH. apply H_lset, HR.
Qed.

Lemma sim_sset_all : forall kvs b c a, R b c a -> R b (sset_all B1 c kvs) (sset_all B2 a kvs).
Proof.
  unfold sset_all. induction kvs as [|e tl IH]; intros b c a HR; simpl; auto.
Qed.

Lemma sim_local_tx : forall lo c a, R true c a ->
  match exec_local_tx B1 c lo, exec_local_tx B2 a lo with
  | (c', t1, r1), (a', t2, r2) => R true c' a' /\ TR t1 t2 /\ r1 = r2
  end.
Proof.
  intros lo c a HR. unfold exec_local_tx.
  pose proof (sim_lops lo c a HR) as H.
  destruct (run_lops B1 c lo) as [[c1 t1] r1]. destruct (run_lops B2 a lo) as [[a1 t2] r2].
  destruct H as (H1 & H2 & H3). subst r2. destruct r1 as [kvs|]; auto.
  rewrite (H_lkeys _ _ _ H1). destruct (subset_keys (b_lkeys B2 a1) kvs); auto.
  repeat split; auto. apply sim_lset_all, H1.
Qed.

Lemma sim_load_account : forall b c a addr, R b c a ->
  R b (fst (load_account B1 c addr)) (fst (load_account B2 a addr)) /\
  snd (load_account B1 c addr) = snd (load_account B2 a addr).
Proof.
  intros b c a addr HR. unfold load_account.
  use_sget c a (acc_key addr) HR. simpl. auto.
Qed.

Lemma sim_coins : forall b c a from to amt, R b c a ->
  R b (fst (coins_transfer B1 c from to amt)) (fst (coins_transfer B2 a from to amt)) /\
  snd (coins_transfer B1 c from to amt) = snd (coins_transfer B2 a from to amt).
Proof.
  intros b c a from to amt HR. unfold coins_transfer.
  destruct (amt <? 1)%Z; [auto|].
  destruct (sim_load_account b c a from HR) as [Hg Hv].
  destruct (load_account B1 c from) as [c1 bf1]. destruct (load_account B2 a from) as [a1 bf2].
  simpl in Hg, Hv. subst bf2.
  destruct (sim_load_account b c1 a1 to Hg) as [Hg2 Hv2].
  destruct (load_account B1 c1 to) as [c2 bt1]. destruct (load_account B2 a1 to) as [a2 bt2].
  simpl in Hg2, Hv2. subst bt2.
  destruct (beqb from to); [auto|].
  destruct (bf1 - amt >=? 0)%Z; simpl; auto.
Qed.

Lemma sim_body : forall t c a, R true c a ->
  match exec_body B1 c t, exec_body B2 a t with
  | (c', t1, r1), (a', t2, r2) => R true c' a' /\ TR t1 t2 /\ r1 = r2
  end.
Proof.
  intros t c a HR. unfold exec_body.
  pose proof (H_enter _ _ _ (same_time (t_body t)) HR) as HE.
  destruct (t_body t) as [drv ex lo|to amt].
  - pose proof (sim_sops ex _ _ HE) as H.
    destruct (run_sops B1 _ ex) as [[c1 t1] r1]. destruct (run_sops B2 _ ex) as [[a1 t2] r2].
    destruct H as (H1 & H2 & H3). subst. auto.
  - destruct (sim_coins _ _ _ (t_from t) to amt HE) as [Hg Hv].
    destruct (coins_transfer B1 _ (t_from t) to amt) as [c1 r1].
    destruct (coins_transfer B2 _ (t_from t) to amt) as [a1 r2].
    simpl in Hg, Hv. subst. repeat split; auto. constructor.
Qed.

Lemma sim_tx_one : forall t fl c a, R true c a ->
  match exec_tx_one B1 c fl t, exec_tx_one B2 a fl t with
  | (c', t1, rc1, ok1), (a', t2, rc2, ok2) => R true c' a' /\ TR t1 t2 /\ rc1 = rc2 /\ ok1 = ok2
  end.
Proof.
  intros t fl c a HR. unfold exec_tx_one.
  pose proof (sim_body t _ _ (H_starttx _ _ _ HR)) as H.
  destruct (exec_body B1 _ t) as [[c1 t1] r1]. destruct (exec_body B2 _ t) as [[a1 t2] r2].
  destruct H as (H1 & H2 & H3). subst r2.
  destruct r1 as [[kvs logs]|]; [|auto].
  rewrite (H_skeys _ _ _ H1).
  destruct (negb (subset_keys (b_skeys B2 a1) kvs)); [auto|].
  destruct (negb (forallb (fun e => allowed (t_body t) (fst e)) kvs)); [auto|].
  destruct (same_time (t_body t)).
  - pose proof (sim_local_tx (local_script (t_body t)) _ _ H1) as HL.
    destruct (exec_local_tx B1 c1 _) as [[c2 u1] ok1]. destruct (exec_local_tx B2 a1 _) as [[a2 u2] ok2].
    destruct HL as (L1 & L2 & L3). subst ok2.
    destruct (negb ok1).
    + repeat split; auto. apply TR_app; auto.
    + repeat split; auto. apply sim_sset_all, L1. apply TR_app; auto.
  - simpl. repeat split; auto. apply sim_sset_all, H1. apply TR_app; auto. constructor.
Qed.

Lemma sim_fee : forall t b c a, R b c a ->
  R b (fst (exec_fee B1 c t)) (fst (exec_fee B2 a t)) /\ snd (exec_fee B1 c t) = snd (exec_fee B2 a t).
Proof.
  intros t b c a HR. unfold exec_fee.
  destruct (sim_load_account b c a (t_from t) HR) as [Hg Hv].
  destruct (load_account B1 c (t_from t)) as [c1 b1]. destruct (load_account B2 a (t_from t)) as [a1 b2].
  simpl in Hg, Hv. subst b2.
  destruct (b1 - t_fee t >=? 0)%Z; simpl; auto.
Qed.

Definition guard_ok (g : bool) : Prop := need_guard = true -> g = true.

Lemma sim_tx : forall t c a, R false c a ->
  match exec_tx B1 c t, exec_tx B2 a t with
  | (c', t1, rc1, g1), (a', t2, rc2, g2) =>
      (need_guard = true -> g1 = g2) /\ (guard_ok g1 -> R false c' a' /\ TR t1 t2 /\ rc1 = rc2)
  end.
Proof.
  intros t c a HR. unfold exec_tx.
  destruct (sim_fee t _ c a HR) as [Hg Hv].
  destruct (exec_fee B1 c t) as [c1 f1]. destruct (exec_fee B2 a t) as [a1 f2].
  simpl in Hg, Hv. subst f2. destruct f1 as [fl|].
  - pose proof (sim_tx_one t fl _ _ (H_begin _ _ Hg)) as H.
    destruct (exec_tx_one B1 _ fl t) as [[[c2 t1] rc1] ok1].
    destruct (exec_tx_one B2 _ fl t) as [[[a2 t2] rc2] ok2].
    destruct H as (H1 & H2 & H3 & H4). subst. destruct ok2.
    + split; [reflexivity|]. intros _. repeat split; auto.
    + split; [intro N; apply (H_rbok N _ _ H1)|]. intros G. repeat split; auto.
  - split; [reflexivity|]. intros _. repeat split; auto. constructor.
Qed.

Definition TRS := Forall2 TR.

Lemma TRS_nils {X} (l : list X) : TRS (map (fun _ => []) l) (map (fun _ => []) l).
Proof. induction l; simpl; constructor; auto. constructor. Qed.

Lemma sim_rest : forall ts c a, R true c a ->
  match exec_rest B1 c ts, exec_rest B2 a ts with
  | (c', t1, rcs1, ok1), (a', t2, rcs2, ok2) => R true c' a' /\ TRS t1 t2 /\ rcs1 = rcs2 /\ ok1 = ok2
  end.
Proof.
  induction ts as [|t tl IH]; intros c a HR; simpl.
  - repeat split; auto. constructor.
  - pose proof (sim_tx_one t pack_empty _ _ HR) as H.
    destruct (exec_tx_one B1 c pack_empty t) as [[[c1 t1] rc1] ok1].
    destruct (exec_tx_one B2 a pack_empty t) as [[[a1 t2] rc2] ok2].
    destruct H as (H1 & H2 & H3 & H4). subst. destruct ok2.
    + specialize (IH _ _ H1).
      destruct (exec_rest B1 c1 tl) as [[[c2 u1] rcs1] k1].
      destruct (exec_rest B2 a1 tl) as [[[a2 u2] rcs2] k2].
      destruct IH as (I1 & I2 & I3 & I4). subst. repeat split; auto. constructor; auto.
    + repeat split; auto. constructor; auto. apply TRS_nils.
Qed.

Lemma sim_group : forall ts c a, R false c a ->
  match exec_group B1 c ts, exec_group B2 a ts with
  | (c', t1, rcs1, g1), (a', t2, rcs2, g2) =>
      (need_guard = true -> g1 = g2) /\ (guard_ok g1 -> R false c' a' /\ TRS t1 t2 /\ rcs1 = rcs2)
  end.
Proof.
  intros ts c a HR. unfold exec_group. destruct ts as [|t0 rest].
  - split; [reflexivity|]. intros _. repeat split; auto. constructor.
  - destruct (sim_fee t0 _ c a HR) as [Hg Hv].
    destruct (exec_fee B1 c t0) as [c1 f1]. destruct (exec_fee B2 a t0) as [a1 f2].
    simpl in Hg, Hv. subst f2. destruct f1 as [fl|].
    + pose proof (sim_tx_one t0 fl _ _ (H_begin _ _ Hg)) as H.
      destruct (exec_tx_one B1 _ fl t0) as [[[c2 t1] rc1] ok1].
      destruct (exec_tx_one B2 _ fl t0) as [[[a2 t2] rc2] ok2].
      destruct H as (H1 & H2 & H3 & H4). subst. destruct ok2.
      * pose proof (sim_rest rest _ _ H1) as HR2.
        destruct (exec_rest B1 c2 rest) as [[[c3 u1] rcs1] k1].
        destruct (exec_rest B2 a2 rest) as [[[a3 u2] rcs2] k2].
        destruct HR2 as (I1 & I2 & I3 & I4). subst. destruct k2.
        -- split; [reflexivity|]. intros _. repeat split; auto. constructor; auto.
        -- split; [intro N; apply (H_rbok N _ _ I1)|]. intros G. repeat split; auto. constructor; auto.
      * split; [intro N; apply (H_rbok N _ _ H1)|].
        intros G. repeat split; auto. constructor; auto. apply TRS_nils.
    + split; [reflexivity|]. intros _. repeat split; auto. apply (TRS_nils (t0 :: rest)).
Qed.

Lemma sim_item : forall it c a, R false c a ->
  match exec_item B1 c it, exec_item B2 a it with
  | (c', t1, rcs1, g1), (a', t2, rcs2, g2) =>
      (need_guard = true -> g1 = g2) /\ (guard_ok g1 -> R false c' a' /\ TRS t1 t2 /\ rcs1 = rcs2)
  end.
Proof.
  intros [t|ts] c a HR; simpl.
  - pose proof (sim_tx t c a HR) as H.
    destruct (exec_tx B1 c t) as [[[c1 t1] rc1] g1]. destruct (exec_tx B2 a t) as [[[a1 t2] rc2] g2].
    destruct H as [HG H]. split; [exact HG|].
    intros G. destruct (H G) as (H1 & H2 & H3). subst. repeat split; auto. constructor; auto.
  - apply sim_group, HR.
Qed.

Theorem sim_block : forall blk c a, R false c a ->
  match exec_block B1 c blk, exec_block B2 a blk with
  | (c', t1, rcs1, g1), (a', t2, rcs2, g2) =>
      (need_guard = true -> g1 = g2) /\ (guard_ok g1 -> R false c' a' /\ TRS t1 t2 /\ rcs1 = rcs2)
  end.
Proof.
  induction blk as [|it tl IH]; intros c a HR; simpl.
  - split; [reflexivity|]. intros _. repeat split; auto. constructor.
  - pose proof (sim_item it c a HR) as H.
    destruct (exec_item B1 c it) as [[[c1 t1] rcs1] g1]. destruct (exec_item B2 a it) as [[[a1 t2] rcs2] g2].
    destruct H as [HG H].
    destruct (exec_block B1 c1 tl) as [[[c2 u1] rs1] k1] eqn:E1.
    destruct (exec_block B2 a1 tl) as [[[a2 u2] rs2] k2] eqn:E2.
    split.
    + intro N. specialize (HG N). subst g2. destruct g1; [|reflexivity].
      destruct (H (fun _ => eq_refl)) as (H1 & _).
      specialize (IH _ _ H1). rewrite E1, E2 in IH. destruct IH as [IG _]. simpl. apply IG, N.
    + intros G.
      assert (G1 : guard_ok g1) by (intro N; specialize (G N); apply andb_true_iff in G; tauto).
      assert (G2 : guard_ok k1) by (intro N; specialize (G N); apply andb_true_iff in G; tauto).
      destruct (H G1) as (H1 & H2 & H3). subst.
      specialize (IH _ _ H1). rewrite E1, E2 in IH. destruct IH as [_ IH]. destruct (IH G2) as (I1 & I2 & I3). subst.
      repeat split; auto. apply Forall2_app; auto.
Qed.

End Gen.
