(** C11 — the cheap layer: bracketed histories on executor.LocalDB refine the
    transactional map as long as no Rollback happens with buffered writes. *)
From Coq Require Import List NArith ZArith Bool.
From C33 Require Import Lib.Harness Lib.Bytes Lib.OMap C11.Model C11.Spec C11.ProofsBase C11.ProofsSim.
Import ListNotations.

Lemma ops_sim : forall ops b c a, Rfull b c a ->
  bracketed b ops = true -> xdb_guard (snd c) ops = true ->
  snd (xdb_run (snd c) ops) = snd (abs_run a ops).
Proof.
  induction ops as [|o tl IH]; intros b c a HR HB HG; [reflexivity|].
  cbn [xdb_run abs_run]. cbn [bracketed xdb_guard] in HB, HG.
  destruct o.
  - (* Begin *)
    apply andb_true_iff in HB. destruct HB as [Hb HB]. destruct b; [discriminate Hb|].
    apply andb_true_iff in HG. destruct HG as [_ HG].
    pose proof (sim_begin c a HR) as H1. specialize (IH true _ _ H1 HB HG).
    cbn [xdb_step abs_step]. cbn [xdb_step fst] in HG.
    change (xdb_begin (snd c)) with (snd (b_begin conc c)).
    destruct (xdb_run (snd (b_begin conc c)) tl) as [x2 rs]. destruct (abs_run (b_begin abs a) tl) as [a2 rs'].
    simpl in *. congruence.
  - (* Commit *)
    apply andb_true_iff in HB. destruct HB as [Hb HB]. destruct b; [|discriminate Hb].
    apply andb_true_iff in HG. destruct HG as [_ HG].
    pose proof (sim_commit c a HR) as H1. specialize (IH false _ _ H1 HB HG).
    cbn [xdb_step abs_step].
    change (xdb_commit (snd c)) with (snd (b_commit conc c)).
    destruct (xdb_run (snd (b_commit conc c)) tl) as [x2 rs]. destruct (abs_run (b_commit abs a) tl) as [a2 rs'].
    simpl in *. congruence.
  - (* Rollback *)
    apply andb_true_iff in HB. destruct HB as [Hb HB]. destruct b; [|discriminate Hb].
    apply andb_true_iff in HG. destruct HG as [Hk HG].
    assert (Hok : b_rb_ok conc c = true) by (simpl; destruct (x_kvs (snd c)); [reflexivity|discriminate Hk]).
    pose proof (sim_rollback c a HR Hok) as H1. specialize (IH false _ _ H1 HB HG).
    cbn [xdb_step abs_step].
    change (xdb_rollback (snd c)) with (snd (b_rollback conc c)).
    destruct (xdb_run (snd (b_rollback conc c)) tl) as [x2 rs]. destruct (abs_run (b_rollback abs a) tl) as [a2 rs'].
    simpl in *. congruence.
  - (* Set *)
    apply andb_true_iff in HB. destruct HB as [Hb HB]. destruct b; [|discriminate Hb].
    apply andb_true_iff in HG. destruct HG as [_ HG].
    destruct (sim_lset c a k v HR) as [H1 _]. specialize (IH true _ _ H1 HB).
    cbn [xdb_step abs_step]. cbn [xdb_step] in HG.
    assert (E : fst (xdb_set (snd c) k v) = snd (fst (b_lset conc c k v))).
    { simpl. destruct (xdb_set (snd c) k v); reflexivity. }
    rewrite E in *. specialize (IH HG).
    destruct (xdb_run (snd (fst (b_lset conc c k v))) tl) as [x2 rs].
    destruct (abs_run (fst (b_lset abs a k v)) tl) as [a2 rs'].
    simpl in *. congruence.
  - (* Get *)
    apply andb_true_iff in HG. destruct HG as [_ HG].
    destruct (sim_lget b c a k HR) as [H1 H2]. specialize (IH b _ _ H1 HB).
    cbn [xdb_step abs_step]. cbn [xdb_step] in HG.
    assert (E : xdb_get (snd c) k = (snd (fst (b_lget conc c k)), snd (b_lget conc c k))).
    { simpl. destruct (xdb_get (snd c) k); reflexivity. }
    rewrite E in *. cbn [fst] in HG. specialize (IH HG).
    destruct (b_lget abs a k) as [a1 r1] eqn:EA. cbn [fst snd] in *.
    destruct (xdb_run (snd (fst (b_lget conc c k))) tl) as [x2 rs].
    destruct (abs_run a1 tl) as [a2 rs'].
    simpl in *. congruence.
  - (* List *)
    apply andb_true_iff in HG. destruct HG as [_ HG].
    destruct (sim_llist b c a p HR) as [H1 H2]. specialize (IH b _ _ H1 HB).
    cbn [xdb_step abs_step]. cbn [xdb_step] in HG.
    assert (E : xdb_list (snd c) p = (snd (fst (b_llist conc c p)), snd (b_llist conc c p))).
    { simpl. destruct (xdb_list (snd c) p); reflexivity. }
    rewrite E in *. cbn [fst] in HG. specialize (IH HG).
    destruct (b_llist abs a p) as [a1 r1] eqn:EA. cbn [fst snd] in *.
    destruct (xdb_run (snd (fst (b_llist conc c p))) tl) as [x2 rs].
    destruct (abs_run a1 tl) as [a2 rs'].
    simpl in *. congruence.
Qed.

Theorem localdb_ops_refine : forall main ops,
  sorted main -> bracketed false ops = true -> xdb_guard (xdb_new main) ops = true ->
  run_xops main ops = spec_xops main ops.
Proof.
  intros main ops Sm HB HG. unfold run_xops, spec_xops.
  exact (ops_sim ops false (conc_init [] main) (abs_init [] main) (sim_init [] main Sm) HB HG).
Qed.
