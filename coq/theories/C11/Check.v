(** C11 — correspondence cases.
    [CBlock]: a block of synthetic-driver / coins transactions and groups executed by the
    real executor (EventExecTxList on a test node) with the receipts it returned and the
    values every script read; [COps]: an operation history on executor.NewLocalDB. *)
From Coq Require Import List NArith ZArith Bool String.
From C33 Require Import Lib.Harness Lib.Bytes Lib.OMap.
From C33 Require Export C11.Model C11.Spec.
Import ListNotations.
Open Scope list_scope.

Inductive case :=
| CEnv (addrs keys : list bytes)      (* the strings behind the short names below *)
| CBlock (store main : cdb) (blk : list item) (rcs : list receipt) (trs : list (list obs))
| COps (main : cdb) (ops : list xop) (outs : list xout).

(** short names for the harness *)
Definition eb := enc_bal.
Definition T := mk_tx.
Definition Rc := mk_rc.
Open Scope string_scope.
Definition A0 := bs "14KEKbYtKKQm4wMthSK9J4La4nAiidGozt".   (* genesis account *)
Definition A1 := bs "1Q1pE5vPGEEMqRcVRMbtBK842Y6Pzo6nK9".   (* fixed test keys 0x11.., 0x22.., 0x33.. *)
Definition A2 := bs "18aF6pYXKDSXjXHpidt2G6okdVdBr8zA7z".
Definition A3 := bs "16Syw4SugWs4siKbK8cuxJXM2ukh2GKpRi".
Definition K0 := acc_key A0. Definition K1 := acc_key A1.
Definition K2 := acc_key A2. Definition K3 := acc_key A3.
Definition s0 := bs "mavl-verifst-a". Definition s1 := bs "mavl-verifst-b".
Definition s2 := bs "mavl-verifst-c". Definition s3 := bs "mavl-verifst-d".
Definition s4 := bs "mavl-verifno-a". Definition s5 := bs "mavl-verifno-b".
Definition s6 := bs "mavl-verifno-c". Definition s7 := bs "mavl-verifno-d".
Definition l0 := bs "LODB-verifst-a". Definition l1 := bs "LODB-verifst-ab".
Definition l2 := bs "LODB-verifst-b". Definition l3 := bs "LODB-verifst-c".
Definition l4 := bs "LODB-verifst-ca". Definition l5 := bs "LODB-verifst-d".
Definition lp := bs "LODB-verifst-". Definition lx := bs "LODB-verifst-x".
Close Scope string_scope.

Definition lb_eqb (a b : list bytes) : bool := list_eqb bytes_eqb a b.
Definition ob_eqb (a b : option bytes) : bool := option_eqb bytes_eqb a b.

Definition obs_eqb (a b : obs) : bool :=
  match a, b with
  | OS x, OS y => ob_eqb x y
  | OV x, OV y => ob_eqb x y
  | OL x, OL y => lb_eqb x y
  | ODis, ODis => true
  | _, _ => false
  end.

Definition kv_eqb (a b : kv) : bool := bytes_eqb (fst a) (fst b) && bytes_eqb (snd a) (snd b).

Definition rc_eqb (a b : receipt) : bool :=
  (rc_ty a =? rc_ty b)%N && list_eqb kv_eqb (rc_kv a) (rc_kv b) && list_eqb N.eqb (rc_logs a) (rc_logs b).

Definition trs_eqb (a b : list (list obs)) : bool := list_eqb (list_eqb obs_eqb) a b.

Definition xout_eqb (a b : xout) : bool :=
  match a, b with
  | XUnit, XUnit => true
  | XObs x, XObs y => obs_eqb x y
  | _, _ => false
  end.

Definition is_local_read (o : obs) : bool := match o with OV _ | OL _ => true | _ => false end.

(** first differing observation of two traces of one transaction *)
Fixpoint first_obs_div (a b : list obs) : option obs :=
  match a, b with
  | x :: a', y :: b' => if obs_eqb x y then first_obs_div a' b' else Some x
  | _, _ => None
  end.

(** index of the first transaction whose traces differ, with the differing observation *)
Fixpoint first_tr_div (i : nat) (a b : list (list obs)) : option (nat * option obs) :=
  match a, b with
  | x :: a', y :: b' =>
      if list_eqb obs_eqb x y then first_tr_div (Datatypes.S i) a' b' else Some (i, first_obs_div x y)
  | _, _ => None
  end.

Definition item_len (it : item) : nat := match it with ISingle _ => 1 | IGroup ts => List.length ts end.

(** number of transactions up to and including the first item at whose end Rollback was
    called with local writes still buffered (model run) *)
Fixpoint dirty_prefix (s : cst) (blk : list item) (n : nat) : option nat :=
  match blk with
  | [] => None
  | it :: tl =>
      let '(s1, _, _, g) := exec_item conc s it in
      if g then dirty_prefix s1 tl (n + item_len it) else Some (n + item_len it)
  end.

(** known finding 1 (block level): all receipts are as specified, some Rollback happened
    with buffered local writes, and the first difference is the value of a local read
    (Get / List) of a later transaction *)
Definition kf_block (store main : cdb) (blk : list item) (rcs srcs : list receipt)
                    (trs strs : list (list obs)) : N :=
  if negb (list_eqb rc_eqb rcs srcs) then 0%N else
  match dirty_prefix (conc_init store main) blk 0, first_tr_div 0 trs strs with
  | Some d, Some (i, Some o) => if (d <=? i)%nat && is_local_read o then 1%N else 0%N
  | _, _ => 0%N
  end.

(** cheap layer: index of the first XRollback executed with buffered writes *)
Fixpoint first_dirty_rb (x : xdb) (ops : list xop) (i : nat) : option nat :=
  match ops with
  | [] => None
  | o :: tl =>
      match o, x_kvs x with
      | XRollback, _ :: _ => Some i
      | _, _ => first_dirty_rb (fst (xdb_step x o)) tl (Datatypes.S i)
      end
  end.

Fixpoint first_out_div (i : nat) (ops : list xop) (a b : list xout) : option (nat * xop) :=
  match ops, a, b with
  | o :: ops', x :: a', y :: b' =>
      if xout_eqb x y then first_out_div (Datatypes.S i) ops' a' b' else Some (i, o)
  | _, _, _ => None
  end.

Definition kf_ops (main : cdb) (ops : list xop) (outs souts : list xout) : N :=
  match first_dirty_rb (xdb_new main) ops 0, first_out_div 0 ops outs souts with
  | Some d, Some (i, (XGet _ | XList _)) => if (d <? i)%nat then 1%N else 0%N
  | _, _ => 0%N
  end.

Definition check_case (c : case) : verdict :=
  match c with
  | CEnv addrs keys =>
      (lb_eqb addrs [A0; A1; A2; A3] &&
       lb_eqb keys [s0; s1; s2; s3; s4; s5; s6; s7; l0; l1; l2; l3; l4; l5; lp; lx], true, 0%N)
  | CBlock store main blk rcs trs =>
      let '(mtrs, mrcs, _) := run_model store main blk in
      let '(strs, srcs) := run_spec store main blk in
      let m := sortedb store && sortedb main && list_eqb rc_eqb mrcs rcs && trs_eqb mtrs trs in
      let s := list_eqb rc_eqb rcs srcs && trs_eqb trs strs in
      (m, s, if s then 0%N else kf_block store main blk rcs srcs trs strs)
  | COps main ops outs =>
      let mo := run_xops main ops in
      let m := sortedb main && list_eqb xout_eqb mo outs in
      if bracketed false ops then
        let so := spec_xops main ops in
        let s := list_eqb xout_eqb outs so in
        (m, s, if s then 0%N else kf_ops main ops outs so)
      else (m, true, 0%N)
  end.
