(** C11 — the full statement fails on the model: the block-level witness (reproduced on
    the real executor by the harness, streams block-witness / ops-witness). *)
From Coq Require Import List NArith ZArith Bool String.
From C33 Require Import Lib.Harness Lib.Bytes Lib.OMap C11.Model C11.Spec.
Import ListNotations.
Open Scope string_scope.
Open Scope list_scope.

Definition payer : bytes := bs "14KEKbYtKKQm4wMthSK9J4La4nAiidGozt".
Definition w_store : cdb := [(acc_key payer, enc_bal 100000000)].
Definition w_main : cdb := [(bs "LODB-verifst-a", bs "la0")].

(** a group whose first member (ExecLocalSameTime driver) writes local data and whose
    second member fails, followed by a transaction that lists the prefix *)
Definition w_block : list item :=
  [ IGroup [ mk_tx payer 2000000 (BScript 0 [] [LSet (bs "LODB-verifst-d") (bs "W")]);
             mk_tx payer 0 (BScript 1 [SFail] []) ];
    ISingle (mk_tx payer 1000000 (BScript 0 [] [LList (bs "LODB-verifst-")])) ].

Definition refines_full : Prop :=
  forall store main blk trs rcs g,
    sorted main -> run_model store main blk = (trs, rcs, g) -> run_spec store main blk = (trs, rcs).

Lemma witness_model :
  run_model w_store w_main w_block =
  ([[]; []; [OL [bs "la0"; bs "W"]]],
   [mk_rc 1 [(acc_key payer, enc_bal 98000000)] [2%N];
    mk_rc 1 [] [1%N];
    mk_rc 2 [(acc_key payer, enc_bal 97000000)] [2%N; 77%N]], false).
Proof. vm_compute. reflexivity. Qed.

Lemma witness_spec :
  run_spec w_store w_main w_block =
  ([[]; []; [OL [bs "la0"]]],
   [mk_rc 1 [(acc_key payer, enc_bal 98000000)] [2%N];
    mk_rc 1 [] [1%N];
    mk_rc 2 [(acc_key payer, enc_bal 97000000)] [2%N; 77%N]]).
Proof. vm_compute. reflexivity. Qed.

Lemma refines_full_refuted : ~ refines_full.
Proof.
  assert (Sm : sorted w_main) by (apply sortedb_iff; vm_compute; reflexivity).
  intro H. specialize (H w_store w_main w_block _ _ _ Sm witness_model).
  rewrite witness_spec in H. vm_compute in H. discriminate H.
Qed.

(** a non-trivial block that satisfies the guard: the failing transaction has written
    local data, but a List flushed the buffer before the failure *)
Definition g_block : list item :=
  [ ISingle (mk_tx payer 1000000
       (BScript 0 [SSet (bs "mavl-verifst-a") (bs "X")]
                  [LSet (bs "LODB-verifst-d") (bs "W"); LList (bs "LODB-verifst-"); LFail]));
    ISingle (mk_tx payer 1000000
       (BScript 0 [SGet (bs "mavl-verifst-a")] [LList (bs "LODB-verifst-"); LGet (bs "LODB-verifst-d")])) ].

Lemma guard_example :
  run_model w_store w_main g_block =
  ([[OL [bs "la0"; bs "W"]]; [OS None; OL [bs "la0"]; OV None]],
   [mk_rc 1 [(acc_key payer, enc_bal 99000000)] [2%N; 1%N];
    mk_rc 2 [(acc_key payer, enc_bal 98000000)] [2%N; 77%N]], true).
Proof. vm_compute. reflexivity. Qed.

(** the replaced-block form of the full statement, and its refutation by the same witness *)
Definition fee_only_full : Prop :=
  forall store main blk trs rcs g,
    sorted main ->
    run_model store main blk = (trs, rcs, g) ->
    fst (run_model store main (replace_failed (abs_init store main) blk)) = (erase_failed rcs trs, rcs).

Lemma witness_replaced :
  replace_failed (abs_init w_store w_main) w_block =
  [ IGroup [ mk_tx payer 2000000 (BScript 0 [] []); mk_tx payer 0 (BScript 1 [SFail] []) ];
    ISingle (mk_tx payer 1000000 (BScript 0 [] [LList (bs "LODB-verifst-")])) ].
Proof. vm_compute. reflexivity. Qed.

Lemma witness_model_replaced :
  run_model w_store w_main (replace_failed (abs_init w_store w_main) w_block) =
  ([[]; []; [OL [bs "la0"]]],
   [mk_rc 1 [(acc_key payer, enc_bal 98000000)] [2%N];
    mk_rc 1 [] [1%N];
    mk_rc 2 [(acc_key payer, enc_bal 97000000)] [2%N; 77%N]], true).
Proof. vm_compute. reflexivity. Qed.

Lemma fee_only_full_refuted : ~ fee_only_full.
Proof.
  assert (Sm : sorted w_main) by (apply sortedb_iff; vm_compute; reflexivity).
  intro H. specialize (H _ _ _ _ _ _ Sm witness_model). rewrite witness_model_replaced in H.
  vm_compute in H. discriminate H.
Qed.

Lemma guard_example_replaced :
  run_model w_store w_main (replace_failed (abs_init w_store w_main) g_block) =
  ([[]; [OS None; OL [bs "la0"]; OV None]],
   [mk_rc 1 [(acc_key payer, enc_bal 99000000)] [2%N; 1%N];
    mk_rc 2 [(acc_key payer, enc_bal 98000000)] [2%N; 77%N]], true).
Proof. vm_compute. reflexivity. Qed.

(** the cheap layer: the same defect on an operation history of executor.LocalDB *)
Definition ops_full : Prop :=
  forall main ops, sorted main -> bracketed false ops = true -> run_xops main ops = spec_xops main ops.

Definition w_ops : list xop :=
  [XBegin; XSet (bs "LODB-verifst-d") (bs "1"); XRollback;
   XBegin; XSet (bs "LODB-verifst-c") (bs "2"); XCommit; XList (bs "LODB-verifst-")].

Lemma ops_full_refuted : ~ ops_full.
Proof.
  assert (Sm : sorted w_main) by (apply sortedb_iff; vm_compute; reflexivity).
  intro H. specialize (H w_main w_ops Sm eq_refl). vm_compute in H. discriminate H.
Qed.

Definition g_ops : list xop :=
  [XBegin; XSet (bs "LODB-verifst-d") (bs "1"); XList (bs "LODB-verifst-"); XRollback;
   XBegin; XSet (bs "LODB-verifst-c") (bs "2"); XCommit; XList (bs "LODB-verifst-"); XGet (bs "LODB-verifst-d")].

Lemma ops_guard_example : bracketed false g_ops = true /\ xdb_guard (xdb_new w_main) g_ops = true.
Proof. split; vm_compute; reflexivity. Qed.
