(** C11 — property theorems only. *)
From Coq Require Import List ZArith NArith Bool.
From C33 Require Import Lib.Harness Lib.Bytes Lib.OMap C11.Model C11.Spec C11.ProofsSpec C11.ProofsState
  C11.Proofs C11.ProofsOps C11.ProofsRefute.
Import ListNotations.

(** Under the guard (third component of [run_model]: no Rollback was called while local writes
    were still buffered) the receipts and every read of every block are those of the
    scratch-copy specification, in which a failed transaction or group leaves only its fee. *)
Theorem C11_model_refines_spec_partial : forall store main blk trs rcs,
  sorted main ->
  run_model store main blk = (trs, rcs, true) ->
  run_spec store main blk = (trs, rcs).
Proof. exact model_refines_spec. Qed.
Print Assumptions C11_model_refines_spec_partial.

(** The same block with every failed transaction / group replaced by "pay the fee only"
    satisfies the guard and gives the same receipts and the same reads of all other transactions. *)
Theorem C11_failed_tx_equiv_fee_only_partial : forall store main blk trs rcs,
  sorted main ->
  run_model store main blk = (trs, rcs, true) ->
  run_model store main (replace_failed (abs_init store main) blk) = (erase_failed rcs trs, rcs, true).
Proof. exact failed_equiv_fee_only. Qed.
Print Assumptions C11_failed_tx_equiv_fee_only_partial.

(** a block with a failed transaction that had written local data satisfies the guard *)
Example C11_guard_example :
  exists trs rcs, run_model w_store w_main g_block = (trs, rcs, true) /\
                  existsb (fun r => (rc_ty r =? ExecPack)%N) rcs = true /\
                  replace_failed (abs_init w_store w_main) g_block <> g_block.
Proof.
  eexists. eexists. split; [exact guard_example|split; [reflexivity|]].
  vm_compute. discriminate.
Qed.
Print Assumptions C11_guard_example.

(** The guard is a property of the block, not of cache contents: it can be computed on the
    specification side (a local write happened since the last List / Begin when a Rollback comes). *)
Theorem C11_guard_spec_level : forall store main blk trs rcs g,
  sorted main -> run_model store main blk = (trs, rcs, g) -> g = spec_guard store main blk.
Proof. exact model_guard_eq. Qed.
Print Assumptions C11_guard_spec_level.

(** State writes, no guard: receipts and state reads of every block are those of the
    specification ... *)
Theorem C11_state_refines_spec : forall store main blk trs rcs g trs' rcs',
  run_model store main blk = (trs, rcs, g) ->
  run_spec store main blk = (trs', rcs') ->
  rcs = rcs' /\ map (map mask) trs = map (map mask) trs'.
Proof. exact state_refines_spec. Qed.
Print Assumptions C11_state_refines_spec.

(** ... and of the block with every failed transaction / group replaced by "pay the fee only". *)
Theorem C11_state_failed_tx_equiv_fee_only : forall store main blk trs rcs g trs' rcs' g',
  run_model store main blk = (trs, rcs, g) ->
  run_model store main (replace_failed (abs_init store main) blk) = (trs', rcs', g') ->
  rcs' = rcs /\ map (map mask) trs' = map (map mask) (erase_failed rcs trs).
Proof. exact state_failed_equiv_fee_only. Qed.
Print Assumptions C11_state_failed_tx_equiv_fee_only.

(** The specification: replacing the failed transactions / groups changes neither the final
    state and local maps, nor the receipts, nor the reads of the other transactions. *)
Theorem C11_spec_replace_block : forall blk a,
  let '(a1, trs, rcs, _) := exec_block abs a blk in
  exec_block abs a (replace_failed a blk) = (a1, erase_failed rcs trs, rcs, true).
Proof. exact spec_replace_block. Qed.
Print Assumptions C11_spec_replace_block.

(** The specification: after a failed transaction the maps are those after paying the fee. *)
Theorem C11_spec_failed_leaves_fee_only : forall a t a1 tr rc g,
  exec_tx abs a t = (a1, tr, rc, g) -> rc_ty rc = ExecPack ->
  let a0 := fst (exec_fee abs a t) in
  a_st a1 = a_st a0 /\ a_loc a1 = a_loc a0 /\ a_saved a1 = None.
Proof. exact spec_failed_leaves_fee_only. Qed.
Print Assumptions C11_spec_failed_leaves_fee_only.

(** Without the guard the statements fail (known finding 1): executor.LocalDB.Rollback keeps the
    buffered writes; a group whose first member writes local data in same-time mode and whose
    second member fails, followed by a transaction that lists the prefix. *)
Theorem C11_refuted : ~ refines_full.
Proof. exact refines_full_refuted. Qed.
Print Assumptions C11_refuted.

(** The cheap layer: bracketed Begin/Set/Get/List/Commit/Rollback histories on executor.LocalDB
    behave like a transactional map as long as nothing is buffered when Rollback is called. *)
Theorem C11_localdb_ops_partial : forall main ops,
  sorted main -> bracketed false ops = true -> xdb_guard (xdb_new main) ops = true ->
  run_xops main ops = spec_xops main ops.
Proof. exact localdb_ops_refine. Qed.
Print Assumptions C11_localdb_ops_partial.

Example C11_ops_guard_example : bracketed false g_ops = true /\ xdb_guard (xdb_new w_main) g_ops = true.
Proof. exact ops_guard_example. Qed.
Print Assumptions C11_ops_guard_example.

Theorem C11_localdb_ops_refuted : ~ ops_full.
Proof. exact ops_full_refuted. Qed.
Print Assumptions C11_localdb_ops_refuted.

Theorem C11_failed_tx_equiv_fee_only_refuted : ~ fee_only_full.
Proof. exact fee_only_full_refuted. Qed.
Print Assumptions C11_failed_tx_equiv_fee_only_refuted.
