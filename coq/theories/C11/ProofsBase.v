(** C11 — facts about the map operations of the model. *)
From Coq Require Import List NArith ZArith Bool.
From C33 Require Import Lib.Harness Lib.Bytes Lib.OMap C11.Model.
Import ListNotations.

Lemma get_merge : forall (t c : cdb) k,
  get k (merge c t) = match get k t with Some v => Some v | None => get k c end.
Proof.
  induction t as [|[k' v'] tl IH]; intros c k; simpl; auto.
  rewrite get_put. destruct (beqb k k'); auto.
Qed.

Lemma merge_sorted : forall (t c : cdb), sorted c -> sorted (merge c t).
Proof.
  induction t as [|[k' v'] tl IH]; intros c S; simpl; auto. apply put_sorted. auto.
Qed.

Definition putall (m : cdb) (kvs : list kv) : cdb :=
  fold_left (fun m e => put (fst e) (snd e) m) kvs m.

Lemma putall_sorted : forall kvs m, sorted m -> sorted (putall m kvs).
Proof.
  unfold putall. induction kvs as [|e tl IH]; intros m S; simpl; auto. apply IH, put_sorted, S.
Qed.

Lemma putall_app m kvs e : putall m (kvs ++ [e]) = put (fst e) (snd e) (putall m kvs).
Proof. unfold putall. rewrite fold_left_app. reflexivity. Qed.

Lemma get_putall_none : forall kvs m k, get k (putall m kvs) = None -> get k m = None.
Proof.
  unfold putall. induction kvs as [|e tl IH]; intros m k H; simpl in *; auto.
  apply IH in H. rewrite get_put in H. match type of H with context [if ?c then _ else _] => destruct c end; [discriminate H|auto].
Qed.

Lemma nonnil_norm v : nonnil v = norm (Some v).
Proof. reflexivity. Qed.

Lemma get_filter {V} (f : list N * V -> bool) : forall (m : list (list N * V)) k, sorted m ->
  get k (filter f m) = match get k m with Some v => if f (k, v) then Some v else None | None => None end.
Proof.
  induction m as [|[k' v'] tl IH]; intros k S; simpl; auto.
  destruct S as [L S]. simpl in L.
  destruct (beqb k k') eqn:E.
  - apply beqb_eq in E. subst k'. destruct (f (k, v')) eqn:F; simpl.
    + rewrite beqb_refl. reflexivity.
    + rewrite IH by auto. rewrite (get_lb_none k tl L). reflexivity.
  - destruct (f (k', v')); simpl; [rewrite E|]; apply IH; auto.
Qed.

Definition live (m : cdb) : cdb := filter (fun e => negb (isnil (snd e))) m.

Lemma filter_and {A} (f g : A -> bool) : forall l,
  filter (fun e => f e && g e) l = filter f (filter g l).
Proof.
  induction l as [|x l IH]; simpl; auto.
  destruct (g x); simpl; destruct (f x); simpl; rewrite ?IH; auto.
Qed.

Lemma list_of_live m p : list_of m p = map snd (filter (fun e => is_prefix p (fst e)) (live m)).
Proof. unfold list_of, live. rewrite filter_and. reflexivity. Qed.

Lemma get_live m k : sorted m -> get k (live m) = norm (get k m).
Proof.
  intro S. unfold live. rewrite get_filter by auto. destruct (get k m) as [v|]; simpl; auto.
  unfold nonnil. destruct (isnil v); reflexivity.
Qed.

Lemma list_of_ext m1 m2 p : sorted m1 -> sorted m2 ->
  (forall k, norm (get k m1) = norm (get k m2)) -> list_of m1 p = list_of m2 p.
Proof.
  intros S1 S2 H. rewrite !list_of_live. f_equal. f_equal.
  apply sorted_ext; try (apply sorted_filter; assumption).
  intro k. rewrite !get_live by auto. apply H.
Qed.
