(** C11 — the specification itself: a failed transaction or group leaves only the fee
    behind, and replacing every failed transaction / group by "pay the fee only" changes
    neither the receipts nor anything a later transaction reads. *)
From Coq Require Import List NArith ZArith Bool.
From C33 Require Import Lib.Harness Lib.Bytes Lib.OMap C11.Model C11.Spec.
Import ListNotations.

(** what the script operations never touch *)
Definition flags (a : ast) : option (cdb * cdb) * bool * bool := (a_saved a, a_dr a, a_dw a).

Lemma flags_sset a k v : flags (b_sset abs a k v) = flags a.
Proof. reflexivity. Qed.

Lemma flags_lset a k v : flags (fst (b_lset abs a k v)) = flags a.
Proof. unfold flags. simpl. destruct (a_dw a) eqn:E; simpl; rewrite ?E; reflexivity. Qed.

Lemma flags_llist a p : flags (fst (b_llist abs a p)) = flags a.
Proof. unfold flags. simpl. destruct (a_dr a) eqn:E; simpl; rewrite ?E; reflexivity. Qed.

Lemma flags_sops : forall ops a, flags (fst (fst (run_sops abs a ops))) = flags a.
Proof.
  induction ops as [|o tl IH]; intro a; [reflexivity|].
  destruct o; cbn [run_sops].
  - specialize (IH (b_sset abs a k v)). destruct (run_sops abs (b_sset abs a k v) tl) as [[s1 tr] r].
    simpl in *. rewrite IH. reflexivity.
  - rewrite IH. reflexivity.
  - specialize (IH a). destruct (run_sops abs a tl) as [[s1 tr] r]. simpl in *. exact IH.
  - cbn [b_sget abs]. specialize (IH a). destruct (run_sops abs a tl) as [[s1 tr] r]. simpl in *. exact IH.
  - cbn [b_lget abs]. specialize (IH a). destruct (run_sops abs a tl) as [[s1 tr] r]. simpl in *. exact IH.
  - pose proof (flags_llist a p) as F. destruct (b_llist abs a p) as [s0 o]. simpl in F.
    specialize (IH s0). destruct (run_sops abs s0 tl) as [[s1 tr] r]. simpl in *. congruence.
  - pose proof (flags_lset a k v) as F. destruct (b_lset abs a k v) as [s0 ok]. simpl in F.
    destruct ok; [rewrite IH; exact F|exact F].
  - reflexivity.
  - reflexivity.
Qed.

Lemma flags_lops : forall ops a, flags (fst (fst (run_lops abs a ops))) = flags a.
Proof.
  induction ops as [|o tl IH]; intro a; [reflexivity|].
  destruct o; cbn [run_lops].
  - pose proof (flags_lset a k v) as F. destruct (b_lset abs a k v) as [s0 ok]. simpl in F.
    destruct ok; [|exact F].
    specialize (IH s0). destruct (run_lops abs s0 tl) as [[s1 tr] r]. simpl in *. congruence.
  - pose proof (flags_lset a k v) as F. destruct (b_lset abs a k v) as [s0 ok]. simpl in F.
    destruct ok; [rewrite IH; exact F|exact F].
  - specialize (IH a). destruct (run_lops abs a tl) as [[s1 tr] r]. simpl in *. exact IH.
  - cbn [b_lget abs]. specialize (IH a). destruct (run_lops abs a tl) as [[s1 tr] r]. simpl in *. exact IH.
  - pose proof (flags_llist a p) as F. destruct (b_llist abs a p) as [s0 o]. simpl in F.
    specialize (IH s0). destruct (run_lops abs s0 tl) as [[s1 tr] r]. simpl in *. congruence.
  - reflexivity.
Qed.

Lemma flags_lset_all : forall kvs a, flags (lset_all abs a kvs) = flags a.
Proof.
  unfold lset_all. induction kvs as [|e tl IH]; intro a; simpl; [reflexivity|].
  rewrite IH. apply flags_lset.
Qed.

Lemma flags_sset_all : forall kvs a, flags (sset_all abs a kvs) = flags a.
Proof.
  unfold sset_all. induction kvs as [|e tl IH]; intro a; simpl; [reflexivity|].
  rewrite IH. reflexivity.
Qed.

Lemma flags_local_tx lo a : flags (fst (fst (exec_local_tx abs a lo))) = flags a.
Proof.
  unfold exec_local_tx. pose proof (flags_lops lo a) as F.
  destruct (run_lops abs a lo) as [[s1 tr] r]. simpl in F.
  destruct r as [kvs|]; [|exact F].
  destruct (subset_keys (b_lkeys abs s1) kvs); simpl; [|exact F].
  rewrite flags_lset_all. exact F.
Qed.

Lemma flags_coins a from to amt : flags (fst (coins_transfer abs a from to amt)) = flags a.
Proof.
  unfold coins_transfer, load_account. cbn [b_sget abs].
  destruct (amt <? 1)%Z; [reflexivity|].
  destruct (beqb from to); [reflexivity|].
  destruct (_ >=? 0)%Z; reflexivity.
Qed.

(** after executor.Exec: writes enabled again, reads enabled unless they were disabled before
    an ExecLocalSameTime driver ran *)
Definition after_exec (st : bool) (f : option (cdb * cdb) * bool * bool) :=
  (fst (fst f), (if st then snd (fst f) else false), false).

Lemma flags_body t a :
  flags (fst (fst (exec_body abs a t))) = after_exec (same_time (t_body t)) (flags a).
Proof.
  unfold exec_body.
  destruct (t_body t) as [drv ex lo|to amt]; cbn [same_time].
  - set (st := (drv =? 0)%N).
    pose proof (flags_sops ex (b_enter abs a st)) as F.
    destruct (run_sops abs (b_enter abs a st) ex) as [[s1 tr] r]. simpl in F. simpl.
    unfold flags, after_exec in *. destruct st; simpl in *; inversion F; congruence.
  - pose proof (flags_coins (b_enter abs a false) (t_from t) to amt) as F.
    destruct (coins_transfer abs (b_enter abs a false) (t_from t) to amt) as [s1 r]. simpl in F. simpl.
    unfold flags, after_exec in *. simpl in *; inversion F; congruence.
Qed.

Lemma flags_tx_one t fl a :
  flags (fst (fst (fst (exec_tx_one abs a fl t)))) = after_exec (same_time (t_body t)) (flags a).
Proof.
  unfold exec_tx_one.
  pose proof (flags_body t (b_starttx abs a)) as F.
  change (flags (b_starttx abs a)) with (flags a) in F.
  destruct (exec_body abs (b_starttx abs a) t) as [[s1 tr1] r]. cbn [fst] in F.
  destruct r as [[kvs logs]|]; [|exact F].
  destruct (negb (subset_keys (b_skeys abs s1) kvs)); [exact F|].
  destruct (negb (forallb (fun e => allowed (t_body t) (fst e)) kvs)); [exact F|].
  destruct (same_time (t_body t)) eqn:Est.
  - pose proof (flags_local_tx (local_script (t_body t)) s1) as FL.
    destruct (exec_local_tx abs s1 (local_script (t_body t))) as [[s2 tr2] okl]. simpl in FL.
    destruct (negb okl); simpl; [congruence|]. rewrite flags_sset_all. congruence.
  - simpl. rewrite flags_sset_all. exact F.
Qed.

(** every failure path of execTxOne returns the fee receipt with an error log *)
Lemma tx_one_failed t fl a :
  snd (exec_tx_one abs a fl t) = false -> snd (fst (exec_tx_one abs a fl t)) = add_errlog fl.
Proof.
  unfold exec_tx_one.
  destruct (exec_body abs (b_starttx abs a) t) as [[s1 tr1] r].
  destruct r as [[kvs logs]|]; [|reflexivity].
  destruct (negb (subset_keys (b_skeys abs s1) kvs)); [reflexivity|].
  destruct (negb (forallb (fun e => allowed (t_body t) (fst e)) kvs)); [reflexivity|].
  destruct (if same_time (t_body t) then _ else _) as [[s2 tr2] okl].
  destruct (negb okl); simpl; [reflexivity|discriminate].
Qed.

Lemma tx_one_ok_ty t fl a :
  snd (exec_tx_one abs a fl t) = true -> rc_ty (snd (fst (exec_tx_one abs a fl t))) = ExecOk.
Proof.
  unfold exec_tx_one.
  destruct (exec_body abs (b_starttx abs a) t) as [[s1 tr1] r].
  destruct r as [[kvs logs]|]; [|discriminate].
  destruct (negb (subset_keys (b_skeys abs s1) kvs)); [discriminate|].
  destruct (negb (forallb (fun e => allowed (t_body t) (fst e)) kvs)); [discriminate|].
  destruct (if same_time (t_body t) then _ else _) as [[s2 tr2] okl].
  destruct (negb okl); simpl; [discriminate|reflexivity].
Qed.

(** * the replacement transactions *)
Lemma same_time_fail t : same_time (t_body (fail_of t)) = same_time (t_body t).
Proof. destruct t as [f fee [d ex lo|to amt]]; reflexivity. Qed.

Lemma same_time_noop t : same_time (t_body (noop_of t)) = same_time (t_body t).
Proof. destruct t as [f fee [d ex lo|to amt]]; reflexivity. Qed.

Lemma fee_fail a t : exec_fee abs a (fail_of t) = exec_fee abs a t.
Proof. reflexivity. Qed.

Lemma fee_noop a t : exec_fee abs a (noop_of t) = exec_fee abs a t.
Proof. reflexivity. Qed.

Lemma tx_one_fail t fl a :
  exists a', exec_tx_one abs a fl (fail_of t) = (a', [], add_errlog fl, false) /\
             flags a' = after_exec (same_time (t_body t)) (flags a) /\ a_dirty a' = a_dirty a.
Proof.
  eexists. split; [|split].
  - unfold exec_tx_one, exec_body, fail_of. cbn. reflexivity.
  - destruct t as [f fee [d ex lo|to amt]]; cbn; unfold after_exec, flags; cbn;
      try destruct (d =? 0)%N; reflexivity.
  - reflexivity.
Qed.

Lemma dirty_sset_all : forall kvs a, a_dirty (sset_all abs a kvs) = a_dirty a.
Proof.
  unfold sset_all. induction kvs as [|e tl IH]; intro a; simpl; [reflexivity|]. rewrite IH. reflexivity.
Qed.

Lemma tx_one_noop_ok t fl a :
  snd (exec_tx_one abs a fl (noop_of t)) = true /\ snd (fst (fst (exec_tx_one abs a fl (noop_of t)))) = [] /\
  a_dirty (fst (fst (fst (exec_tx_one abs a fl (noop_of t))))) = a_dirty a.
Proof.
  destruct t as [f fee [d ex lo|to amt]]; unfold exec_tx_one, exec_body, noop_of; cbn.
  - destruct (d =? 0)%N; cbn; (split; [reflexivity|split; [reflexivity|]]);
      match goal with |- a_dirty (fold_left ?f ?l ?x) = _ => change (a_dirty (sset_all abs x l) = a_dirty a) end;
      rewrite dirty_sset_all; reflexivity.
  - split; [reflexivity|split; [reflexivity|]].
    match goal with |- a_dirty (fold_left ?f ?l ?x) = _ => change (a_dirty (sset_all abs x l) = a_dirty a) end.
    rewrite dirty_sset_all. reflexivity.
Qed.

Lemma tx_one_noop t fl a :
  exists a' rc, exec_tx_one abs a fl (noop_of t) = (a', [], rc, true) /\
                flags a' = after_exec (same_time (t_body t)) (flags a) /\ a_dirty a' = a_dirty a.
Proof.
  destruct (tx_one_noop_ok t fl a) as (H1 & H2 & H3).
  pose proof (flags_tx_one (noop_of t) fl a) as F. rewrite same_time_noop in F.
  destruct (exec_tx_one abs a fl (noop_of t)) as [[[a' tr] rc] ok]. simpl in *. subst.
  exists a', rc. split; [reflexivity|split; [exact F|exact H3]].
Qed.

(** * items *)
Lemma rollback_flags x y sv : flags x = flags y -> a_saved x = Some sv ->
  b_rollback abs x = b_rollback abs y.
Proof.
  unfold flags. intros H Hs. inversion H as [[H1 H2 H3]]. simpl. rewrite <- H1, Hs, H2, H3.
  destruct sv. reflexivity.
Qed.

Lemma saved_after st a x : flags x = after_exec st (flags (b_begin abs a)) ->
  a_saved x = Some (a_st a, a_loc a).
Proof. unfold flags, after_exec. simpl. intro H. inversion H. reflexivity. Qed.

Lemma saved_tx_one t fl a : a_saved (fst (fst (fst (exec_tx_one abs a fl t)))) = a_saved a.
Proof.
  pose proof (flags_tx_one t fl a) as F. unfold flags, after_exec in F. simpl in F.
  inversion F. reflexivity.
Qed.

Lemma rest_saved : forall ts a, a_saved (fst (fst (fst (exec_rest abs a ts)))) = a_saved a.
Proof.
  induction ts as [|t tl IH]; intro a; simpl; [reflexivity|].
  pose proof (saved_tx_one t pack_empty a) as F.
  destruct (exec_tx_one abs a pack_empty t) as [[[a1 tr] rc] ok1]. simpl in F.
  destruct ok1; [|exact F].
  specialize (IH a1). destruct (exec_rest abs a1 tl) as [[[a2 trs] rcs] ok2]. simpl in *. congruence.
Qed.

Lemma fee_receipt a t fl : snd (exec_fee abs a t) = Some fl ->
  rc_ty fl = ExecPack /\ has_errlog fl = false.
Proof.
  unfold exec_fee, load_account. cbn [b_sget abs].
  destruct (_ >=? 0)%Z; simpl; intro H; inversion H; subst; split; reflexivity.
Qed.

Lemma has_errlog_add r : has_errlog (add_errlog r) = true.
Proof.
  unfold has_errlog, add_errlog. simpl. rewrite existsb_app. simpl. apply orb_true_r.
Qed.

Definition res3 {A B C} (x : A * B * C * bool) : A * B * C := fst x.

Lemma rb_ok_clean a' a : a_dirty a' = a_dirty (b_begin abs a) -> b_rb_ok abs a' = true.
Proof. simpl. intro H. rewrite H. reflexivity. Qed.

(** a single transaction and its replacement *)
Lemma single_replace a t :
  let '(a1, tr, rc, _) := exec_tx abs a t in
  exec_item abs a (replace_item (ISingle t) [rc]) =
  (a1, [if (rc_ty rc =? ExecPack)%N then [] else tr], [rc], true).
Proof.
  unfold exec_tx.
  pose proof (fee_receipt a t) as FR.
  destruct (exec_fee abs a t) as [s1 [fl|]] eqn:EF.
  2:{ unfold replace_item. simpl. unfold exec_tx. rewrite EF. reflexivity. }
  destruct (FR fl eq_refl) as [Hty Hne]. clear FR.
  pose proof (tx_one_failed t fl (b_begin abs s1)) as TF.
  pose proof (tx_one_ok_ty t fl (b_begin abs s1)) as TO.
  pose proof (flags_tx_one t fl (b_begin abs s1)) as FL.
  destruct (exec_tx_one abs (b_begin abs s1) fl t) as [[[s3 tr] rc] ok] eqn:E1. cbn [fst snd] in TF, TO, FL.
  destruct ok.
  - specialize (TO eq_refl).
    assert (RI : replace_item (ISingle t) [rc] = ISingle t) by (unfold replace_item; rewrite TO; reflexivity).
    rewrite RI. unfold exec_item, exec_tx. rewrite EF, E1. rewrite TO. reflexivity.
  - specialize (TF eq_refl). subst rc.
    assert (RI : replace_item (ISingle t) [add_errlog fl] = ISingle (fail_of t)).
    { unfold replace_item. change (rc_ty (add_errlog fl)) with (rc_ty fl). rewrite Hty. reflexivity. }
    rewrite RI. unfold exec_item, exec_tx. rewrite fee_fail, EF.
    destruct (tx_one_fail t fl (b_begin abs s1)) as (a' & E2 & F2 & D2). rewrite E2.
    change (rc_ty (add_errlog fl)) with (rc_ty fl). rewrite Hty.
    rewrite (rb_ok_clean _ _ D2). cbn [N.eqb ExecPack Pos.eqb]. f_equal. f_equal. f_equal.
    symmetry. apply (rollback_flags _ _ _ (eq_trans FL (eq_sym F2)) (saved_after _ _ _ FL)).
Qed.

Lemma replace_all_pack : forall ts, replace_members ts (map (fun _ => pack_empty) ts) = map noop_of ts.
Proof. induction ts as [|t tl IH]; simpl; [reflexivity|]. rewrite IH. reflexivity. Qed.

Lemma map_const_map {A B C} (f : A -> B) (c : C) (l : list A) :
  map (fun _ => c) (map f l) = map (fun _ => c) l.
Proof. rewrite map_map. reflexivity. Qed.

Lemma rest_replace : forall ts a b, flags a = flags b ->
  let '(a', trs, rcs, ok) := exec_rest abs a ts in
  ok = false ->
  exists b', exec_rest abs b (replace_members ts rcs) = (b', map (fun _ => []) ts, rcs, false) /\
             flags a' = flags b' /\ a_dirty b' = a_dirty b.
Proof.
  induction ts as [|t tl IH]; intros a b Hf; simpl; [discriminate|].
  pose proof (tx_one_failed t pack_empty a) as TF.
  pose proof (flags_tx_one t pack_empty a) as FL.
  destruct (exec_tx_one abs a pack_empty t) as [[[a1 tr] rc] ok1] eqn:E1. simpl in TF, FL.
  destruct ok1.
  - destruct (tx_one_noop t pack_empty b) as (b1 & rcn & E2 & F2 & D2).
    assert (Hf1 : flags a1 = flags b1) by congruence.
    specialize (IH a1 b1 Hf1).
    destruct (exec_rest abs a1 tl) as [[[a2 trs] rcs'] ok2] eqn:E3.
    intro Hok. subst ok2. destruct (IH eq_refl) as (b2 & E4 & F4 & D4).
    exists b2. change (has_errlog pack_empty) with false. cbn iota. cbn [exec_rest]. rewrite E2, E4.
    split; [reflexivity|split; [exact F4|congruence]].
  - intros _. specialize (TF eq_refl). subst rc.
    destruct (tx_one_fail t pack_empty b) as (b1 & E2 & F2 & D2).
    exists b1. rewrite has_errlog_add. rewrite replace_all_pack. cbn [exec_rest]. rewrite E2.
    rewrite !map_const_map. split; [reflexivity|split; [congruence|exact D2]].
Qed.

Lemma rest_lengths : forall ts a,
  length (snd (fst (fst (exec_rest abs a ts)))) = length ts /\
  length (snd (fst (exec_rest abs a ts))) = length ts.
Proof.
  induction ts as [|t tl IH]; intro a; simpl; [auto|].
  destruct (exec_tx_one abs a pack_empty t) as [[[a1 tr] rc] ok1].
  destruct ok1.
  - specialize (IH a1). destruct (exec_rest abs a1 tl) as [[[a2 trs] rcs] ok2]. simpl in *.
    destruct IH; split; congruence.
  - simpl. rewrite !map_length. auto.
Qed.

Lemma rest_tys : forall ts a,
  let '(_, _, rcs, ok) := exec_rest abs a ts in
  Forall (fun r => rc_ty r = if ok then ExecOk else ExecPack) rcs.
Proof.
  induction ts as [|t tl IH]; intro a; simpl; [constructor|].
  pose proof (tx_one_failed t pack_empty a) as TF.
  pose proof (tx_one_ok_ty t pack_empty a) as TO.
  destruct (exec_tx_one abs a pack_empty t) as [[[a1 tr] rc] ok1]. simpl in TF, TO.
  destruct ok1.
  - specialize (IH a1). destruct (exec_rest abs a1 tl) as [[[a2 trs] rcs] ok2].
    constructor; [|exact IH]. destruct ok2; [apply TO; reflexivity|reflexivity].
  - constructor; [rewrite (TF eq_refl); reflexivity|].
    apply Forall_forall. intros r Hr. apply in_map_iff in Hr. destruct Hr as (x & Hx & _). subst. reflexivity.
Qed.

Lemma erase_ok : forall rcs trs, Forall (fun r => rc_ty r = ExecOk) rcs -> erase_failed rcs trs = trs.
Proof.
  induction rcs as [|r rcs IH]; intros trs H; destruct trs as [|tr trs]; simpl; auto.
  inversion H; subst. rewrite H2. simpl. rewrite IH; auto.
Qed.

Lemma erase_pack : forall rcs trs, Forall (fun r => rc_ty r = ExecPack) rcs -> length trs = length rcs ->
  erase_failed rcs trs = map (fun _ => []) trs.
Proof.
  induction rcs as [|r rcs IH]; intros trs H L; destruct trs as [|tr trs]; simpl in *; auto; try discriminate.
  inversion H; subst. rewrite H2. simpl. rewrite IH; auto.
Qed.

Lemma map_nil_len {A B} (l1 : list A) (l2 : list B) :
  length l1 = length l2 -> map (fun _ => @nil obs) l1 = map (fun _ => []) l2.
Proof.
  revert l2; induction l1 as [|x l1 IH]; intros [|y l2] H; simpl in *; auto; try discriminate.
  f_equal. apply IH. congruence.
Qed.

Lemma group_replace a ts :
  let '(a1, trs, rcs, _) := exec_group abs a ts in
  exec_item abs a (replace_item (IGroup ts) rcs) = (a1, erase_failed rcs trs, rcs, true).
Proof.
  unfold exec_group. destruct ts as [|t0 rest]; [reflexivity|].
  pose proof (fee_receipt a t0) as FR.
  destruct (exec_fee abs a t0) as [s1 [fl|]] eqn:EF.
  2:{ simpl. rewrite EF. f_equal. f_equal. f_equal. f_equal.
      clear. induction rest; simpl; [reflexivity|]. f_equal. exact IHrest. }
  destruct (FR fl eq_refl) as [Hty Hne]. clear FR.
  pose proof (tx_one_failed t0 fl (b_begin abs s1)) as TF.
  pose proof (tx_one_ok_ty t0 fl (b_begin abs s1)) as TO.
  pose proof (flags_tx_one t0 fl (b_begin abs s1)) as FL.
  destruct (exec_tx_one abs (b_begin abs s1) fl t0) as [[[s3 tr0] rc0] ok0] eqn:E1. cbn [fst snd] in TF, TO, FL.
  destruct ok0.
  - specialize (TO eq_refl).
    pose proof (rest_replace rest s3) as RR. pose proof (rest_tys rest s3) as RT.
    pose proof (rest_lengths rest s3) as RL.
    destruct (exec_rest abs s3 rest) as [[[s4 trs] rcs] ok] eqn:E2. simpl in RL. destruct RL as [L1 L2].
    destruct ok.
    + (* the group succeeded: nothing is replaced *)
      assert (RI : replace_item (IGroup (t0 :: rest)) (rc0 :: rcs) = IGroup (t0 :: rest))
        by (unfold replace_item; rewrite TO; reflexivity).
      rewrite RI. unfold exec_item, exec_group. rewrite EF, E1, E2.
      rewrite erase_ok; [reflexivity|]. constructor; [exact TO|exact RT].
    + (* a later member failed *)
      assert (RI : replace_item (IGroup (t0 :: rest)) (fl :: rcs) =
                   IGroup (noop_of t0 :: replace_members rest rcs)).
      { unfold replace_item. rewrite Hty. cbn [replace_members]. rewrite Hne. reflexivity. }
      rewrite RI. unfold exec_item, exec_group. rewrite fee_noop, EF.
      destruct (tx_one_noop t0 fl (b_begin abs s1)) as (b1 & rcn & E3 & F3 & D3). rewrite E3.
      assert (Hf : flags s3 = flags b1) by exact (eq_trans FL (eq_sym F3)).
      destruct (RR b1 Hf eq_refl) as (b' & E4 & F4 & D4). rewrite E4.
      rewrite (rb_ok_clean b' s1) by congruence.
      f_equal. f_equal. f_equal.
      * pose proof (rest_saved rest s3) as RS. rewrite E2 in RS. simpl in RS.
        rewrite (saved_after _ _ _ FL) in RS.
        symmetry. apply (rollback_flags _ _ _ F4 RS).
      * rewrite erase_pack.
        -- simpl. f_equal. apply map_nil_len. congruence.
        -- constructor; [exact Hty|exact RT].
        -- simpl. congruence.
  - (* the first member failed *)
    specialize (TF eq_refl). subst rc0.
    assert (RI : replace_item (IGroup (t0 :: rest)) (add_errlog fl :: map (fun _ => pack_empty) rest) =
                 IGroup (fail_of t0 :: map noop_of rest)).
    { unfold replace_item. change (rc_ty (add_errlog fl)) with (rc_ty fl). rewrite Hty.
      cbn [replace_members]. rewrite has_errlog_add, replace_all_pack. reflexivity. }
    rewrite RI. unfold exec_item, exec_group. rewrite fee_fail, EF.
    destruct (tx_one_fail t0 fl (b_begin abs s1)) as (a' & E2 & F2 & D2). rewrite E2.
    rewrite (rb_ok_clean _ _ D2).
    rewrite !map_const_map. f_equal. f_equal. f_equal.
    + symmetry. apply (rollback_flags _ _ _ (eq_trans FL (eq_sym F2)) (saved_after _ _ _ FL)).
    + rewrite erase_pack.
      * simpl. rewrite map_map. reflexivity.
      * constructor; [exact Hty|].
        apply Forall_forall. intros r Hr. apply in_map_iff in Hr. destruct Hr as (x & Hx & _). subst. reflexivity.
      * simpl. rewrite !map_length. reflexivity.
Qed.

(** * blocks *)
Lemma group_lengths a ts :
  length (snd (fst (fst (exec_group abs a ts)))) = length (snd (fst (exec_group abs a ts))).
Proof.
  unfold exec_group. destruct ts as [|t0 rest]; [reflexivity|].
  destruct (exec_fee abs a t0) as [s1 [fl|]].
  2:{ simpl. rewrite !map_length. reflexivity. }
  destruct (exec_tx_one abs (b_begin abs s1) fl t0) as [[[s3 tr0] rc0] ok0].
  destruct ok0.
  - pose proof (rest_lengths rest s3) as RL.
    destruct (exec_rest abs s3 rest) as [[[s4 trs] rcs] ok]. simpl in RL. destruct RL.
    destruct ok; simpl; congruence.
  - simpl. rewrite !map_length. reflexivity.
Qed.

Lemma item_replace a it :
  let '(a1, trs, rcs, _) := exec_item abs a it in
  exec_item abs a (replace_item it rcs) = (a1, erase_failed rcs trs, rcs, true) /\
  length trs = length rcs.
Proof.
  destruct it as [t|ts].
  - pose proof (single_replace a t) as H. cbn [exec_item].
    destruct (exec_tx abs a t) as [[[a1 tr] rc] g]. split; [exact H|reflexivity].
  - pose proof (group_replace a ts) as H. pose proof (group_lengths a ts) as L. cbn [exec_item].
    destruct (exec_group abs a ts) as [[[a1 trs] rcs] g]. split; [exact H|exact L].
Qed.

Lemma erase_app : forall rcs1 trs1 rcs2 trs2, length trs1 = length rcs1 ->
  erase_failed (rcs1 ++ rcs2) (trs1 ++ trs2) = erase_failed rcs1 trs1 ++ erase_failed rcs2 trs2.
Proof.
  induction rcs1 as [|r rcs1 IH]; intros [|tr trs1] rcs2 trs2 L; simpl in *; try discriminate; auto.
  rewrite IH by congruence. reflexivity.
Qed.

(** replacing every failed transaction / group by "pay the fee only" changes neither the
    final state, nor the receipts, nor the reads of the transactions that were kept *)
Theorem spec_replace_block : forall blk a,
  let '(a1, trs, rcs, _) := exec_block abs a blk in
  exec_block abs a (replace_failed a blk) = (a1, erase_failed rcs trs, rcs, true).
Proof.
  induction blk as [|it tl IH]; intro a; [reflexivity|].
  cbn [exec_block replace_failed].
  pose proof (item_replace a it) as HI.
  destruct (exec_item abs a it) as [[[a1 trs1] rcs1] g1].
  destruct HI as [HI HL].
  specialize (IH a1).
  destruct (exec_block abs a1 tl) as [[[a2 trs2] rcs2] g2].
  cbn [exec_block]. rewrite HI, IH. simpl. rewrite erase_app by exact HL. reflexivity.
Qed.

(** the state after a failed transaction is the state after paying its fee *)
Theorem spec_failed_leaves_fee_only : forall a t a1 tr rc g,
  exec_tx abs a t = (a1, tr, rc, g) -> rc_ty rc = ExecPack ->
  let a0 := fst (exec_fee abs a t) in
  a_st a1 = a_st a0 /\ a_loc a1 = a_loc a0 /\ a_saved a1 = None.
Proof.
  intros a t a1 tr rc g E Hty. unfold exec_tx in E.
  destruct (exec_fee abs a t) as [s1 [fl|]] eqn:EF; simpl.
  2:{ inversion E; subst. discriminate Hty. }
  pose proof (tx_one_ok_ty t fl (b_begin abs s1)) as TO.
  pose proof (flags_tx_one t fl (b_begin abs s1)) as FL.
  destruct (exec_tx_one abs (b_begin abs s1) fl t) as [[[s3 tr'] rc'] ok]. cbn [fst snd] in TO, FL.
  destruct ok.
  - inversion E; subst. rewrite (TO eq_refl) in Hty. discriminate Hty.
  - inversion E; subst. pose proof (saved_after _ _ _ FL) as Hs. simpl. rewrite Hs. simpl. auto.
Qed.
