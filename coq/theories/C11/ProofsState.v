(** C11 — receipts and state reads agree with the specification for every block, with or
    without the guard: the buffered local writes never reach the state DB or a receipt. *)
From Coq Require Import List NArith ZArith Bool.
From C33 Require Import Lib.Harness Lib.Bytes Lib.OMap C11.Model C11.Spec C11.ProofsBase
  C11.ProofsGen C11.ProofsSim.
Import ListNotations.

(** local reads are not compared *)
Definition mask (o : obs) : obs :=
  match o with OS v => OS v | OV _ => OV None | OL _ => OL [] | ODis => ODis end.

Definition ORs (o1 o2 : obs) : Prop := mask o1 = mask o2.

Definition Rsaved_s (b : bool) (c : cst) (a : ast) : Prop :=
  if b then exists st loc, a_saved a = Some (st, loc) /\ (forall k, norm (get k st) = sview (fst c) k)
  else a_saved a = None.

Definition Rst (b : bool) (c : cst) (a : ast) : Prop :=
  RS b (fst c) a /\
  (x_intx (snd c) = b /\ x_keys (snd c) = a_lkeys a /\ x_dr (snd c) = a_dr a /\ x_dw (snd c) = a_dw a) /\
  Rsaved_s b c a.

Lemma Rsaved_s_intx b c a : Rsaved_s b c a -> a_intx a = b.
Proof.
  destruct b; simpl.
  - intros (st & loc & H & _). eapply a_intx_saved; eauto.
  - apply a_intx_none.
Qed.

Lemma st_sget b c a k : Rst b c a ->
  Rst b (fst (b_sget conc c k)) (fst (b_sget abs a k)) /\ snd (b_sget conc c k) = snd (b_sget abs a k).
Proof.
  intros (HS & HX & HV). destruct c as [s x]. simpl in *.
  pose proof (rs_view _ _ _ HS k) as Hk. unfold sview_tx, sview in Hk.
  unfold sdb_get.
  destruct (if s_intx s then get k (s_tx s) else None) as [v|] eqn:E1.
  { simpl. split; [exact (conj HS (conj HX HV))|]. rewrite Hk; reflexivity. }
  destruct (get k (s_cache s)) as [v|] eqn:E2.
  { simpl. split; [exact (conj HS (conj HX HV))|]. rewrite Hk; reflexivity. }
  destruct (get k (s_store s)) as [v|] eqn:E3.
  2:{ simpl. split; [exact (conj HS (conj HX HV))|]. rewrite Hk; reflexivity. }
  destruct (isnil v) eqn:E4.
  { simpl. split; [exact (conj HS (conj HX HV))|]. rewrite Hk. simpl. unfold nonnil. rewrite E4. reflexivity. }
  simpl. split.
  - split; [|split; [exact HX|]].
    + destruct HS as [h1 h2 h3]. constructor; simpl; auto.
      intro k'. rewrite h3. unfold sview_tx. simpl.
      destruct (if s_intx s then get k' (s_tx s) else None); auto.
      symmetry. apply sview_readthrough; auto.
    + destruct b; simpl in *; auto.
      destruct HV as (st & loc & h1 & h2). exists st, loc. split; auto.
      intro k'. rewrite h2. symmetry. apply sview_readthrough; auto.
  - rewrite Hk. simpl. unfold nonnil. rewrite E4. reflexivity.
Qed.

Lemma st_sset b c a k v : Rst b c a -> Rst b (b_sset conc c k v) (b_sset abs a k v).
Proof.
  intros (HS & HX & HV). destruct c as [s x]. simpl in *.
  pose proof (Rsaved_s_intx _ _ _ HV) as Hin.
  destruct HS as [h1 h2 h3]. unfold sdb_set. rewrite h1, Hin.
  split; [|split].
  - destruct b; constructor; simpl; auto; try congruence.
    + intro k'. rewrite norm_nonnil_put. unfold sview_tx. simpl. rewrite get_put.
      destruct (beqb k' k); auto. rewrite h3. unfold sview_tx. rewrite h1. reflexivity.
    + intro k'. rewrite norm_nonnil_put. unfold sview_tx, sview. simpl. rewrite get_put.
      destruct (beqb k' k); auto. rewrite h3. unfold sview_tx, sview. rewrite h1. reflexivity.
  - exact HX.
  - destruct b; simpl in *; auto.
Qed.

Lemma xdb_get_frame x k :
  let x' := fst (xdb_get x k) in
  x_intx x' = x_intx x /\ x_keys x' = x_keys x /\ x_dr x' = x_dr x /\ x_dw x' = x_dw x /\
  mask (snd (xdb_get x k)) = if x_dr x then ODis else OV None.
Proof.
  unfold xdb_get. destruct (x_dr x) eqn:Edr; simpl; [auto|].
  destruct (if x_intx x then get k (x_tx x) else None); simpl; [auto|].
  destruct (get k (x_cache x)); simpl; [auto|].
  destruct (rdb_get (x_rem x) k) as [r res]. simpl. auto.
Qed.

Lemma xdb_save_frame x :
  x_intx (xdb_save x) = x_intx x /\ x_keys (xdb_save x) = x_keys x /\
  x_dr (xdb_save x) = x_dr x /\ x_dw (xdb_save x) = x_dw x.
Proof. unfold xdb_save. destruct (x_kvs x); simpl; auto. Qed.

Lemma xdb_list_frame x p :
  let x' := fst (xdb_list x p) in
  x_intx x' = x_intx x /\ x_keys x' = x_keys x /\ x_dr x' = x_dr x /\ x_dw x' = x_dw x /\
  mask (snd (xdb_list x p)) = if x_dr x then ODis else OL [].
Proof.
  unfold xdb_list. destruct (x_dr x) eqn:Edr; simpl; [auto|].
  destruct (xdb_save_frame x) as (H1 & H2 & H3 & H4). repeat split; congruence.
Qed.

Lemma st_lget b c a k : Rst b c a ->
  Rst b (fst (b_lget conc c k)) (fst (b_lget abs a k)) /\ ORs (snd (b_lget conc c k)) (snd (b_lget abs a k)).
Proof.
  intros (HS & (X1 & X2 & X3 & X4) & HV). destruct c as [s x]. simpl in *.
  destruct (xdb_get_frame x k) as (F1 & F2 & F3 & F4 & F5).
  destruct (xdb_get x k) as [x' r]. simpl in *. split.
  - split; [exact HS|split; [|exact HV]]. simpl. repeat split; congruence.
  - unfold ORs. rewrite F5, X3. destruct (a_dr a); reflexivity.
Qed.

Lemma st_llist b c a p : Rst b c a ->
  Rst b (fst (b_llist conc c p)) (fst (b_llist abs a p)) /\ ORs (snd (b_llist conc c p)) (snd (b_llist abs a p)).
Proof.
  intros (HS & (X1 & X2 & X3 & X4) & HV). destruct c as [s x]. simpl in *.
  destruct (xdb_list_frame x p) as (F1 & F2 & F3 & F4 & F5).
  destruct (xdb_list x p) as [x' r]. simpl in *.
  destruct (a_dr a) eqn:Edr; simpl.
  - split.
    + split; [exact HS|split; [|exact HV]]. simpl. repeat split; congruence.
    + unfold ORs. rewrite F5, X3. reflexivity.
  - split.
    + split; [apply RS_clean, HS|split].
      * simpl. repeat split; congruence.
      * destruct b; simpl in *; auto.
    + unfold ORs. rewrite F5, X3. reflexivity.
Qed.

Lemma st_lset c a k v : Rst true c a ->
  Rst true (fst (b_lset conc c k v)) (fst (b_lset abs a k v)) /\
  snd (b_lset conc c k v) = snd (b_lset abs a k v).
Proof.
  intros (HS & (X1 & X2 & X3 & X4) & HV). destruct c as [s x]. simpl in *.
  unfold xdb_set. rewrite <- X4. destruct (x_dw x) eqn:Edw.
  { simpl. split; [|reflexivity]. split; [exact HS|split; [|exact HV]]. simpl. repeat split; auto; congruence. }
  rewrite X1. simpl. split; [|reflexivity].
  destruct HV as (st & loc & v1 & v2). rewrite (a_intx_saved _ _ _ v1).
  split; [|split].
  - destruct HS. constructor; simpl; auto.
  - simpl. repeat split; auto. congruence.
  - exists st, loc. simpl. split; auto.
Qed.

Lemma st_begin c a : Rst false c a -> Rst true (b_begin conc c) (b_begin abs a).
Proof.
  intros (HS & (X1 & X2 & X3 & X4) & HV). destruct c as [s x]. simpl in *.
  destruct HS as [s1 s2 s3].
  split; [|split].
  - constructor; simpl; auto. intro k. rewrite s3. unfold sview_tx. rewrite s1. reflexivity.
  - simpl. repeat split; auto.
  - exists (a_st a), (a_loc a). simpl. split; auto.
    intro k. rewrite s3. unfold sview_tx. rewrite s1. reflexivity.
Qed.

Lemma xdb_commit_frame x :
  x_intx (xdb_commit x) = false /\ x_keys (xdb_commit x) = [] /\
  x_dr (xdb_commit x) = x_dr x /\ x_dw (xdb_commit x) = x_dw x.
Proof.
  rewrite xdb_commit_eq. cbv zeta. simpl.
  destruct (xdb_save_frame x) as (H1 & H2 & H3 & H4). auto.
Qed.

Lemma st_commit c a : Rst true c a -> Rst false (b_commit conc c) (b_commit abs a).
Proof.
  intros (HS & (X1 & X2 & X3 & X4) & HV). destruct c as [s x]. simpl in *.
  destruct HS as [s1 s2 s3].
  destruct (xdb_commit_frame x) as (C1 & C2 & C3 & C4).
  split; [|split]; [| |reflexivity].
  - constructor; simpl; auto. intro k. rewrite s3. unfold sview_tx at 2. simpl.
    symmetry. apply sview_commit, s1.
  - cbn [snd a_lkeys a_dr a_dw]. repeat split; congruence.
Qed.

Lemma st_rollback c a : Rst true c a -> Rst false (b_rollback conc c) (b_rollback abs a).
Proof.
  intros (HS & (X1 & X2 & X3 & X4) & HV). destruct c as [s x]. simpl in *.
  destruct HV as (st & loc & v1 & v2). rewrite v1.
  split; [|split]; [| |reflexivity].
  - destruct HS as [s1 s2 s3]. constructor; simpl; auto.
  - simpl. repeat split; auto.
Qed.

Lemma st_starttx b c a : Rst b c a -> Rst b (b_starttx conc c) (b_starttx abs a).
Proof.
  intros (HS & (X1 & X2 & X3 & X4) & HV). destruct c as [s x]. simpl in *.
  split; [|split].
  - destruct HS. constructor; simpl; auto.
  - simpl. repeat split; auto.
  - destruct b; simpl in *; auto.
Qed.

Lemma st_enter b c a st : Rst b c a -> Rst b (b_enter conc c st) (b_enter abs a st).
Proof.
  intros (HS & (X1 & X2 & X3 & X4) & HV). destruct c as [s x]. simpl in *.
  split; [|split].
  - destruct HS. constructor; simpl; auto.
  - simpl. repeat split; auto. destruct st; auto.
  - destruct b; simpl in *; auto.
Qed.

Lemma st_leave b c a st : Rst b c a -> Rst b (b_leave conc c st) (b_leave abs a st).
Proof.
  intros (HS & (X1 & X2 & X3 & X4) & HV). destruct c as [s x]. simpl in *.
  split; [|split].
  - destruct HS. constructor; simpl; auto.
  - simpl. repeat split; auto. destruct st; auto.
  - destruct b; simpl in *; auto.
Qed.

Lemma st_init store main : Rst false (conc_init store main) (abs_init store main).
Proof.
  unfold Rst, conc_init, abs_init. simpl. split; [|split]; [| |reflexivity].
  - constructor; simpl; auto.
  - repeat split; auto.
Qed.

Lemma Forall2_mask t1 t2 : Forall2 ORs t1 t2 -> map mask t1 = map mask t2.
Proof. induction 1; simpl; auto. unfold ORs in H. congruence. Qed.

Lemma Forall2_masks t1 t2 : Forall2 (Forall2 ORs) t1 t2 -> map (map mask) t1 = map (map mask) t2.
Proof. induction 1; simpl; auto. f_equal; auto. apply Forall2_mask; auto. Qed.

(** receipts and state reads of every block are those of the specification *)
Theorem state_refines_spec : forall store main blk trs rcs g trs' rcs',
  run_model store main blk = (trs, rcs, g) ->
  run_spec store main blk = (trs', rcs') ->
  rcs = rcs' /\ map (map mask) trs = map (map mask) trs'.
Proof.
  intros store main blk trs rcs g trs' rcs'. unfold run_model, run_spec.
  pose proof (sim_block conc abs Rst ORs false (fun o => eq_refl)
    st_sget st_sset (fun b c a H => rs_keys _ _ _ (proj1 H)) st_lget st_llist st_lset
    (fun b c a H => proj1 (proj2 (proj1 (proj2 H)))) st_begin st_commit
    (fun c a H _ => st_rollback c a H) (fun N => False_ind _ (Bool.diff_false_true N))
    st_starttx st_enter st_leave blk _ _ (st_init store main)) as H.
  destruct (exec_block conc (conc_init store main) blk) as [[[c' t1] rcs1] g1].
  destruct (exec_block abs (abs_init store main) blk) as [[[a' t2] rcs2] g2].
  intros E1 E2. inversion E1; subst. inversion E2; subst.
  destruct H as [_ H]. destruct H as (_ & H2 & H3); [intro N; discriminate N|].
  split; [exact H3|apply Forall2_masks, H2].
Qed.
