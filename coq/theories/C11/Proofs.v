(** C11 — the implementation model refines the specification as long as no Rollback
    happens while local writes are buffered. *)
From Coq Require Import List NArith ZArith Bool.
From C33 Require Import Lib.Harness Lib.Bytes Lib.OMap C11.Model C11.Spec C11.ProofsBase
  C11.ProofsGen C11.ProofsSim C11.ProofsSpec C11.ProofsState.
Import ListNotations.

Lemma Forall2_eq {A} (l1 l2 : list A) : Forall2 eq l1 l2 -> l1 = l2.
Proof. induction 1; subst; auto. Qed.

Lemma Forall2_Forall2_eq {A} (l1 l2 : list (list A)) : Forall2 (Forall2 eq) l1 l2 -> l1 = l2.
Proof. induction 1; auto. f_equal; auto. apply Forall2_eq; auto. Qed.

Lemma sim_block_full : forall blk c a, Rfull false c a ->
  match exec_block conc c blk, exec_block abs a blk with
  | (c', t1, rcs1, g1), (a', t2, rcs2, g2) =>
      g1 = g2 /\ (g1 = true -> Rfull false c' a' /\ t1 = t2 /\ rcs1 = rcs2)
  end.
Proof.
  intros blk c a HR.
  pose proof (sim_block conc abs Rfull eq true (fun o => eq_refl)
    sim_sget sim_sset sim_skeys sim_lget sim_llist sim_lset sim_lkeys sim_begin sim_commit
    (fun c a H G => sim_rollback c a H (G eq_refl)) (fun _ => sim_rbok)
    sim_starttx sim_enter sim_leave blk c a HR) as H.
  destruct (exec_block conc c blk) as [[[c' t1] rcs1] g1].
  destruct (exec_block abs a blk) as [[[a' t2] rcs2] g2].
  destruct H as [HG H]. split; [exact (HG eq_refl)|].
  intro G. destruct (H (fun _ => G)) as (H1 & H2 & H3).
  split; [exact H1|split; [apply Forall2_Forall2_eq, H2|exact H3]].
Qed.

(** the guard can be read off the specification's run as well (instrumentation bit [a_dirty]) *)
Definition spec_guard (store main : cdb) (blk : list item) : bool :=
  let '(_, _, _, g) := exec_block abs (abs_init store main) blk in g.

Lemma model_guard_eq : forall store main blk trs rcs g,
  sorted main -> run_model store main blk = (trs, rcs, g) -> g = spec_guard store main blk.
Proof.
  intros store main blk trs rcs g Sm. unfold run_model, spec_guard.
  pose proof (sim_block_full blk _ _ (sim_init store main Sm)) as H.
  destruct (exec_block conc (conc_init store main) blk) as [[[c' t1] rcs1] g1].
  destruct (exec_block abs (abs_init store main) blk) as [[[a' t2] rcs2] g2].
  intro E. inversion E; subst. apply H.
Qed.

(** receipts and every read of the block agree with the specification *)
Theorem model_refines_spec : forall store main blk trs rcs,
  sorted main ->
  run_model store main blk = (trs, rcs, true) ->
  run_spec store main blk = (trs, rcs).
Proof.
  intros store main blk trs rcs Sm. unfold run_model, run_spec.
  pose proof (sim_block_full blk _ _ (sim_init store main Sm)) as H.
  destruct (exec_block conc (conc_init store main) blk) as [[[c' t1] rcs1] g1].
  destruct (exec_block abs (abs_init store main) blk) as [[[a' t2] rcs2] g2].
  intro E. inversion E; subst. destruct H as [_ H]. destruct (H eq_refl) as (_ & H2 & H3). subst. reflexivity.
Qed.

Lemma spec_replace_run store main blk trs rcs :
  run_spec store main blk = (trs, rcs) ->
  run_spec store main (replace_failed (abs_init store main) blk) = (erase_failed rcs trs, rcs) /\
  spec_guard store main (replace_failed (abs_init store main) blk) = true.
Proof.
  unfold run_spec, spec_guard. pose proof (spec_replace_block blk (abs_init store main)) as H.
  destruct (exec_block abs (abs_init store main) blk) as [[[a1 t1] r1] g1].
  rewrite H. intro E. inversion E; subst. split; reflexivity.
Qed.

(** the block in which every failed transaction / group only pays its fee satisfies the guard
    and gives the same receipts and the same reads (the reads of the failed transactions
    themselves are not part of it) *)
Theorem failed_equiv_fee_only : forall store main blk trs rcs,
  sorted main ->
  run_model store main blk = (trs, rcs, true) ->
  run_model store main (replace_failed (abs_init store main) blk) = (erase_failed rcs trs, rcs, true).
Proof.
  intros store main blk trs rcs Sm E1.
  apply (model_refines_spec _ _ _ _ _ Sm) in E1.
  destruct (spec_replace_run _ _ _ _ _ E1) as [S2 G2].
  destruct (run_model store main (replace_failed (abs_init store main) blk)) as [[t2 r2] g2] eqn:E2.
  pose proof (model_guard_eq _ _ _ _ _ _ Sm E2) as HG. rewrite G2 in HG. subst g2.
  apply (model_refines_spec _ _ _ _ _ Sm) in E2. rewrite S2 in E2. inversion E2; subst. reflexivity.
Qed.

(** state writes: no guard *)
Theorem state_failed_equiv_fee_only : forall store main blk trs rcs g trs' rcs' g',
  run_model store main blk = (trs, rcs, g) ->
  run_model store main (replace_failed (abs_init store main) blk) = (trs', rcs', g') ->
  rcs' = rcs /\ map (map mask) trs' = map (map mask) (erase_failed rcs trs).
Proof.
  intros store main blk trs rcs g trs' rcs' g' E1 E2.
  destruct (run_spec store main blk) as [st sr] eqn:S1.
  destruct (state_refines_spec _ _ _ _ _ _ _ _ E1 S1) as [R1 M1].
  destruct (spec_replace_run _ _ _ _ _ S1) as [S2 _].
  destruct (state_refines_spec _ _ _ _ _ _ _ _ E2 S2) as [R2 M2].
  subst. split; [reflexivity|]. rewrite M2. clear -M1.
  revert trs st M1. induction sr as [|r sr IH]; intros [|t trs] [|u st] M; simpl in *;
    try discriminate; auto.
  inversion M. destruct (rc_ty r =? ExecPack)%N; simpl; f_equal; auto.
Qed.
