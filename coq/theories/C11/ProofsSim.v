(** C11 — the simulation relation between the implementation's databases
    (StateDB + executor.LocalDB + remote LocalDB) and the plain maps of the specification,
    and its preservation by every database operation. *)
From Coq Require Import List NArith ZArith Bool.
From C33 Require Import Lib.Harness Lib.Bytes Lib.OMap C11.Model C11.Spec C11.ProofsBase.
Import ListNotations.

(** * views *)
(** committed view of the StateDB: cache, then store *)
Definition sview (s : sdb) (k : bytes) : option bytes :=
  match get k (s_cache s) with Some v => nonnil v | None => norm (get k (s_store s)) end.

(** what Get returns: txcache first when a transaction is open *)
Definition sview_tx (s : sdb) (k : bytes) : option bytes :=
  match (if s_intx s then get k (s_tx s) else None) with Some v => nonnil v | None => sview s k end.

(** committed view of the remote LocalDB: cache, then maindb *)
Definition rbase (r : rdb) (k : bytes) : option bytes :=
  match get k (r_cache r) with Some v => Some v | None => get k (r_main r) end.

Definition rtx (r : rdb) : cdb := match r_tx r with Some t => t | None => [] end.

(** the writes of the open local transaction: flushed ones and buffered ones *)
Definition pend (x : xdb) : cdb := putall (rtx (x_rem x)) (x_kvs x).

(** * the relation *)
Record RS (b : bool) (s : sdb) (a : ast) : Prop := {
  rs_intx : s_intx s = b;
  rs_keys : s_keys s = a_skeys a;
  rs_view : forall k, norm (get k (a_st a)) = sview_tx s k }.

Record RLc (b : bool) (x : xdb) (a : ast) : Prop := {
  rl_intx : x_intx x = b;
  rl_keys : x_keys x = a_lkeys a;
  rl_dr : x_dr x = a_dr a;
  rl_dw : x_dw x = a_dw a;
  rl_scache : sorted (r_cache (x_rem x));
  rl_smain : sorted (r_main (x_rem x));
  rl_sloc : sorted (a_loc a);
  rl_coh : forall k v, get k (x_cache x) = Some v -> nonnil v = norm (rbase (x_rem x) k) }.

Record RLin (x : xdb) (a : ast) : Prop := {
  ri_hb : x_hasbegin x = r_intx (x_rem x);
  ri_nb : x_hasbegin x = false -> rtx (x_rem x) = [];
  ri_stx : sorted (rtx (x_rem x));
  ri_dirty : a_dirty a = match x_kvs x with [] => false | _ => true end;
  ri_pend : forall k, get k (pend x) = get k (x_tx x);
  ri_view : forall k, norm (get k (a_loc a)) =
                      norm (match get k (x_tx x) with Some v => Some v | None => rbase (x_rem x) k end) }.

Record RLout (x : xdb) (a : ast) : Prop := {
  ro_kvs : x_kvs x = [];
  ro_hb : x_hasbegin x = false;
  ro_rintx : r_intx (x_rem x) = false;
  ro_rtx : rtx (x_rem x) = [];
  ro_dirty : a_dirty a = false;
  ro_view : forall k, norm (get k (a_loc a)) = norm (rbase (x_rem x) k) }.

Definition Rsaved (b : bool) (c : cst) (a : ast) : Prop :=
  if b then exists st loc, a_saved a = Some (st, loc) /\
              (forall k, norm (get k st) = sview (fst c) k) /\
              sorted loc /\ (forall k, norm (get k loc) = norm (rbase (x_rem (snd c)) k))
  else a_saved a = None.

Definition Rfull (b : bool) (c : cst) (a : ast) : Prop :=
  RS b (fst c) a /\ RLc b (snd c) a /\ (if b then RLin (snd c) a else RLout (snd c) a) /\ Rsaved b c a.

(** * small facts *)
Lemma nonnil_idem v w : nonnil v = Some w -> nonnil w = Some w.
Proof. unfold nonnil. destruct v; simpl; intro H; inversion H; reflexivity. Qed.

Lemma norm_nonnil_put (m : cdb) k v k' :
  norm (get k' (put k v m)) = if beqb k' k then nonnil v else norm (get k' m).
Proof. rewrite get_put. destruct (beqb k' k); reflexivity. Qed.

Lemma a_intx_saved a st loc : a_saved a = Some (st, loc) -> a_intx a = true.
Proof. unfold a_intx. intro H. rewrite H. reflexivity. Qed.

Lemma a_intx_none a : a_saved a = None -> a_intx a = false.
Proof. unfold a_intx. intro H. rewrite H. reflexivity. Qed.

Lemma Rsaved_intx b c a : Rsaved b c a -> a_intx a = b.
Proof.
  destruct b; simpl.
  - intros (st & loc & H & _). eapply a_intx_saved; eauto.
  - apply a_intx_none.
Qed.

(** * state operations *)
Lemma sview_readthrough s k v k' :
  get k (s_cache s) = None -> get k (s_store s) = Some v -> isnil v = false ->
  sview (mk_sdb (put k v (s_cache s)) (s_tx s) (s_keys s) (s_intx s) (s_store s)) k' = sview s k'.
Proof.
  intros Hc Hs Hn. unfold sview. simpl. rewrite get_put. destruct (beqb k' k) eqn:E.
  - apply beqb_eq in E. subst k'. rewrite Hc, Hs. reflexivity.
  - reflexivity.
Qed.

Lemma sim_sget b c a k : Rfull b c a ->
  Rfull b (fst (b_sget conc c k)) (fst (b_sget abs a k)) /\
  snd (b_sget conc c k) = snd (b_sget abs a k).
Proof.
  intros (HS & HL & HI & HV). destruct c as [s x]. simpl in *.
  pose proof (rs_view _ _ _ HS k) as Hk. unfold sview_tx, sview in Hk.
  unfold sdb_get.
  destruct (if s_intx s then get k (s_tx s) else None) as [v|] eqn:E1.
  { simpl. split; [exact (conj HS (conj HL (conj HI HV)))|]. rewrite Hk; reflexivity. }
  destruct (get k (s_cache s)) as [v|] eqn:E2.
  { simpl. split; [exact (conj HS (conj HL (conj HI HV)))|]. rewrite Hk; reflexivity. }
  destruct (get k (s_store s)) as [v|] eqn:E3.
  2:{ simpl. split; [exact (conj HS (conj HL (conj HI HV)))|]. rewrite Hk; reflexivity. }
  destruct (isnil v) eqn:E4.
  { simpl. split; [exact (conj HS (conj HL (conj HI HV)))|]. rewrite Hk. simpl. unfold nonnil. rewrite E4. reflexivity. }
  simpl. split.
  - split; [|split; [exact HL|split; [exact HI|]]].
    + destruct HS as [h1 h2 h3]. constructor; simpl; auto.
      intro k'. rewrite h3. unfold sview_tx. simpl.
      destruct (if s_intx s then get k' (s_tx s) else None); auto.
      symmetry. apply sview_readthrough; auto.
    + destruct b; simpl in *; auto.
      destruct HV as (st & loc & h1 & h2 & h3 & h4). exists st, loc. repeat split; auto.
      intro k'. rewrite h2. symmetry. apply sview_readthrough; auto.
  - rewrite Hk. simpl. unfold nonnil. rewrite E4. reflexivity.
Qed.

Lemma sim_sset b c a k v : Rfull b c a -> Rfull b (b_sset conc c k v) (b_sset abs a k v).
Proof.
  intros (HS & HL & HI & HV). destruct c as [s x]. simpl in *.
  pose proof (Rsaved_intx _ _ _ HV) as Hin.
  destruct HS as [h1 h2 h3]. unfold sdb_set. rewrite h1, Hin.
  split; [|split; [|split]].
  - destruct b; constructor; simpl; auto; try congruence.
    + intro k'. rewrite norm_nonnil_put. unfold sview_tx. simpl. rewrite get_put.
      destruct (beqb k' k); auto. rewrite h3. unfold sview_tx. rewrite h1. reflexivity.
    + intro k'. rewrite norm_nonnil_put. unfold sview_tx, sview. simpl. rewrite get_put.
      destruct (beqb k' k); auto. rewrite h3. unfold sview_tx, sview. rewrite h1. reflexivity.
  - destruct HL. constructor; simpl; auto.
  - destruct b.
    + destruct HI. constructor; simpl; auto.
    + destruct HI. constructor; simpl; auto.
  - destruct b; simpl in *; auto.
Qed.

(** * local operations *)
Lemma rbase_readthrough r k v k' :
  get k (r_cache r) = None -> get k (r_main r) = Some v ->
  rbase (mk_rdb (r_tx r) (put k v (r_cache r)) (r_main r) (r_intx r)) k' = rbase r k'.
Proof.
  intros Hc Hm. unfold rbase. simpl. rewrite get_put. destruct (beqb k' k) eqn:E; auto.
  apply beqb_eq in E. subst k'. rewrite Hc, Hm. reflexivity.
Qed.

(** the remote Get when the key is not written by the open transaction *)
Lemma rdb_get_spec r k :
  (r_intx r = true -> get k (rtx r) = None) -> sorted (r_cache r) ->
  let r' := fst (rdb_get r k) in
  snd (rdb_get r k) = norm (rbase r k) /\
  (forall k', rbase r' k' = rbase r k') /\ r_tx r' = r_tx r /\ r_intx r' = r_intx r /\
  r_main r' = r_main r /\ sorted (r_cache r').
Proof.
  intros Hn Sc. unfold rdb_get.
  assert (E : (if r_intx r then match r_tx r with Some t => get k t | None => None end else None) = None).
  { destruct (r_intx r); auto. specialize (Hn eq_refl). unfold rtx in Hn. destruct (r_tx r); auto. }
  rewrite E. unfold rbase at 1.
  destruct (get k (r_cache r)) as [v|] eqn:E2; simpl.
  { repeat split; auto. }
  destruct (get k (r_main r)) as [v|] eqn:E3; simpl.
  - repeat split; auto.
    + intro k'. apply rbase_readthrough; auto.
    + apply put_sorted, Sc.
  - repeat split; auto.
Qed.

Lemma sim_lget b c a k : Rfull b c a ->
  Rfull b (fst (b_lget conc c k)) (fst (b_lget abs a k)) /\
  snd (b_lget conc c k) = snd (b_lget abs a k).
Proof.
  intros (HS & HL & HI & HV). destruct c as [s x]. simpl in *.
  unfold xdb_get. rewrite <- (rl_dr _ _ _ HL).
  destruct (x_dr x) eqn:Edr.
  { simpl. split; [exact (conj HS (conj HL (conj HI HV)))|reflexivity]. }
  assert (Hview : forall w, (if x_intx x then get k (x_tx x) else None) = Some w ->
                  norm (get k (a_loc a)) = nonnil w).
  { intros w Hw. destruct b.
    - rewrite (ri_view _ _ HI). rewrite (rl_intx _ _ _ HL) in Hw. rewrite Hw. reflexivity.
    - rewrite (rl_intx _ _ _ HL) in Hw. discriminate Hw. }
  destruct (if x_intx x then get k (x_tx x) else None) as [v|] eqn:E1.
  { simpl. split; [exact (conj HS (conj HL (conj HI HV)))|]. rewrite (Hview v eq_refl). reflexivity. }
  assert (Hbase : norm (get k (a_loc a)) = norm (rbase (x_rem x) k)).
  { destruct b.
    - rewrite (ri_view _ _ HI). rewrite (rl_intx _ _ _ HL) in E1. rewrite E1. reflexivity.
    - apply (ro_view _ _ HI). }
  destruct (get k (x_cache x)) as [v|] eqn:E2.
  { simpl. split; [exact (conj HS (conj HL (conj HI HV)))|]. rewrite Hbase. rewrite (rl_coh _ _ _ HL k v E2). reflexivity. }
  assert (Hn : r_intx (x_rem x) = true -> get k (rtx (x_rem x)) = None).
  { intro Hi. destruct b.
    - rewrite (rl_intx _ _ _ HL) in E1. rewrite <- (ri_pend _ _ HI) in E1.
      unfold pend in E1. apply get_putall_none in E1. exact E1.
    - rewrite (ro_rintx _ _ HI) in Hi. discriminate Hi. }
  destruct (rdb_get_spec (x_rem x) k Hn (rl_scache _ _ _ HL)) as (G1 & G2 & G3 & G4 & G5 & G6).
  destruct (rdb_get (x_rem x) k) as [r' res] eqn:Eg. simpl in *.
  split; [|rewrite Hbase, G1; reflexivity].
  assert (Hrtx : rtx r' = rtx (x_rem x)) by (unfold rtx; rewrite G3; reflexivity).
  split; [exact HS|split; [|split]].
  - destruct HL as [h1 h2 h3 h4 h5 h6 h7 h8]. constructor; simpl; auto; try congruence.
    intros k' v'. rewrite get_put. destruct (beqb k' k) eqn:Ek.
    + apply beqb_eq in Ek. subst k'. intro Hv. inversion Hv; subst v'. rewrite G2, G1.
      destruct (norm (rbase (x_rem x) k)) as [w|] eqn:En; simpl; auto.
      destruct (rbase (x_rem x) k) as [w0|]; simpl in En; [|discriminate En].
      eapply nonnil_idem; eauto.
    + intro Hv. rewrite G2. apply h8, Hv.
  - destruct b.
    + destruct HI as [i1 i2 i3 id i4 i5]. constructor; simpl.
      * rewrite G4. exact i1.
      * rewrite Hrtx. exact i2.
      * rewrite Hrtx. exact i3.
      * exact id.
      * unfold pend in *. simpl. rewrite Hrtx. exact i4.
      * intro k'. rewrite G2. apply i5.
    + destruct HI as [o1 o2 o3 o4 od o5]. constructor; simpl.
      * exact o1.
      * exact o2.
      * rewrite G4. exact o3.
      * rewrite Hrtx. exact o4.
      * exact od.
      * intro k'. rewrite G2. apply o5.
  - destruct b; simpl in *; auto.
    destruct HV as (st & loc & v1 & v2 & v3 & v4). exists st, loc. repeat split; auto.
    intro k'. rewrite G2. apply v4.
Qed.

Lemma sim_lset c a k v : Rfull true c a ->
  Rfull true (fst (b_lset conc c k v)) (fst (b_lset abs a k v)) /\
  snd (b_lset conc c k v) = snd (b_lset abs a k v).
Proof.
  intros (HS & HL & HI & HV). destruct c as [s x]. simpl in *.
  unfold xdb_set. rewrite <- (rl_dw _ _ _ HL).
  destruct (x_dw x) eqn:Edw.
  { simpl. split; [exact (conj HS (conj HL (conj HI HV)))|reflexivity]. }
  rewrite (rl_intx _ _ _ HL). simpl. split; [|reflexivity].
  destruct HV as (st & loc & v1 & v2 & v3 & v4).
  rewrite (a_intx_saved _ _ _ v1).
  split; [|split; [|split]].
  - destruct HS. constructor; simpl; auto.
  - destruct HL as [h1 h2 h3 h4 h5 h6 h7 h8]. constructor; simpl; auto; try congruence.
    apply put_sorted, h7.
  - destruct HI as [i1 i2 i3 id i4 i5]. constructor; simpl; auto.
    + destruct (x_kvs x); reflexivity.
    + intro k'. unfold pend. simpl. rewrite putall_app. simpl. rewrite !get_put.
      destruct (beqb k' k); [reflexivity|apply i4].
    + intro k'. rewrite !get_put. destruct (beqb k' k); auto.
  - exists st, loc. simpl. repeat split; auto.
Qed.

Lemma rdb_setall_intx : forall kvs r, r_intx r = true ->
  rtx (rdb_setall r kvs) = putall (rtx r) kvs /\ r_cache (rdb_setall r kvs) = r_cache r /\
  r_main (rdb_setall r kvs) = r_main r /\ r_intx (rdb_setall r kvs) = true.
Proof.
  unfold rdb_setall, putall. induction kvs as [|e tl IH]; intros r Hi; simpl; auto.
  assert (Hi' : r_intx (rdb_set r (fst e) (snd e)) = true) by (unfold rdb_set; rewrite Hi; reflexivity).
  destruct (IH _ Hi') as (I1 & I2 & I3 & I4). rewrite I1, I2, I3, I4.
  unfold rdb_set. rewrite Hi. simpl. repeat split; auto.
Qed.

Notation clean := a_flush.

Lemma RS_clean b s a : RS b s a -> RS b s (clean a).
Proof. intros [h1 h2 h3]. constructor; simpl; auto. Qed.

Lemma RLc_clean b x a : RLc b x a -> RLc b x (clean a).
Proof. intros [h1 h2 h3 h4 h5 h6 h7 h8]. constructor; simpl; auto. Qed.

(** save() inside a transaction keeps the relation (the buffer is empty afterwards) *)
Lemma save_in x a : RLc true x a -> RLin x a ->
  RLc true (xdb_save x) (clean a) /\ RLin (xdb_save x) (clean a) /\
  (forall k, rbase (x_rem (xdb_save x)) k = rbase (x_rem x) k) /\
  x_kvs (xdb_save x) = [] /\ rtx (x_rem (xdb_save x)) = pend x /\
  x_cache (xdb_save x) = x_cache x /\ x_tx (xdb_save x) = x_tx x.
Proof.
  intros HL HI. unfold xdb_save. destruct (x_kvs x) as [|e kvs] eqn:Ek.
  { split; [apply RLc_clean, HL|]. split.
    - destruct HI as [i1 i2 i3 id i4 i5]. constructor; simpl; auto. rewrite Ek. reflexivity.
    - repeat split; auto. unfold pend. rewrite Ek. reflexivity. }
  set (r0 := if x_hasbegin x then x_rem x else rdb_begin (x_rem x)).
  assert (H0 : r_intx r0 = true /\ rtx r0 = rtx (x_rem x) /\ r_cache r0 = r_cache (x_rem x) /\
               r_main r0 = r_main (x_rem x)).
  { unfold r0. destruct (x_hasbegin x) eqn:Eh.
    - rewrite <- (ri_hb _ _ HI). auto.
    - simpl. rewrite (ri_nb _ _ HI Eh). auto. }
  destruct H0 as (H1 & H2 & H3 & H4).
  destruct (rdb_setall_intx (e :: kvs) r0 H1) as (S1 & S2 & S3 & S4).
  assert (Hb : forall k, rbase (rdb_setall r0 (e :: kvs)) k = rbase (x_rem x) k).
  { intro k. unfold rbase. rewrite S2, S3, H3, H4. reflexivity. }
  assert (Hp : rtx (rdb_setall r0 (e :: kvs)) = pend x).
  { rewrite S1, H2. unfold pend. rewrite Ek. reflexivity. }
  destruct HL as [h1 h2 h3 h4 h5 h6 h7 h8]. destruct HI as [i1 i2 i3 id i4 i5].
  remember (rdb_setall r0 (e :: kvs)) as r1 eqn:Er1.
  split; [|split].
  - constructor; simpl; auto; try congruence.
    intros k v Hv. rewrite Hb. apply h8, Hv.
  - constructor; simpl; auto; try congruence.
    + rewrite Hp. unfold pend. apply putall_sorted, i3.
    + intro k. unfold pend at 1. simpl. rewrite Hp. apply i4.
    + intro k. rewrite Hb. apply i5.
  - repeat split; auto.
Qed.

Lemma get_rdb_view r k :
  get k (rdb_view r) = match get k (rtx r) with Some v => Some v | None => rbase r k end.
Proof. unfold rdb_view, rbase. rewrite !get_merge. reflexivity. Qed.

Lemma rdb_view_sorted r : sorted (r_main r) -> sorted (rdb_view r).
Proof. intro S. unfold rdb_view. apply merge_sorted, merge_sorted, S. Qed.

Lemma sim_llist b c a p : Rfull b c a ->
  Rfull b (fst (b_llist conc c p)) (fst (b_llist abs a p)) /\
  snd (b_llist conc c p) = snd (b_llist abs a p).
Proof.
  intros (HS & HL & HI & HV). destruct c as [s x]. simpl in *.
  unfold xdb_list. rewrite <- (rl_dr _ _ _ HL).
  destruct (x_dr x) eqn:Edr.
  { simpl. split; [exact (conj HS (conj HL (conj HI HV)))|reflexivity]. }
  simpl. destruct b.
  - destruct (save_in x a HL HI) as (L' & I' & Hb & Hk & Hp & Hc & Ht).
    split.
    + split; [apply RS_clean, HS|split; [exact L'|split; [exact I'|]]].
      simpl in *. destruct HV as (st & loc & v1 & v2 & v3 & v4). exists st, loc. repeat split; auto.
      intro k. rewrite Hb. apply v4.
    + f_equal. unfold rdb_list. apply list_of_ext.
      * apply rdb_view_sorted. apply (rl_smain _ _ _ L').
      * apply (rl_sloc _ _ _ HL).
      * intro k. rewrite get_rdb_view, Hp, (ri_pend _ _ HI), Hb. symmetry. apply (ri_view _ _ HI).
  - unfold xdb_save. rewrite (ro_kvs _ _ HI). split.
    + split; [apply RS_clean, HS|split; [apply RLc_clean, HL|split; [|exact HV]]].
      destruct HI as [o1 o2 o3 o4 od o5]. constructor; simpl; auto.
    + f_equal. unfold rdb_list. apply list_of_ext.
      * apply rdb_view_sorted. apply (rl_smain _ _ _ HL).
      * apply (rl_sloc _ _ _ HL).
      * intro k. rewrite get_rdb_view, (ro_rtx _ _ HI). simpl. symmetry. apply (ro_view _ _ HI).
Qed.

(** * transaction control *)
Lemma sim_begin c a : Rfull false c a -> Rfull true (b_begin conc c) (b_begin abs a).
Proof.
  intros (HS & HL & HI & HV). destruct c as [s x]. simpl in *.
  destruct HS as [s1 s2 s3]. destruct HL as [h1 h2 h3 h4 h5 h6 h7 h8]. destruct HI as [o1 o2 o3 o4 od o5].
  split; [|split; [|split]].
  - constructor; simpl; auto.
    intro k. rewrite s3. unfold sview_tx. rewrite s1. reflexivity.
  - constructor; simpl; auto.
  - constructor; simpl; auto.
    + rewrite o4. exact I.
    + rewrite o1. reflexivity.
    + intro k. unfold pend. simpl. rewrite o1, o4. reflexivity.
  - exists (a_st a), (a_loc a). simpl. repeat split; auto.
    intro k. rewrite s3. unfold sview_tx. rewrite s1. reflexivity.
Qed.

Lemma sview_commit s k :
  s_intx s = true ->
  sview (sdb_commit s) k = sview_tx s k.
Proof.
  intro Hi. unfold sview, sview_tx, sdb_commit. simpl. rewrite get_merge, Hi.
  destruct (get k (s_tx s)); reflexivity.
Qed.

Definition with_cache (x : xdb) (c : cdb) : xdb :=
  mk_xdb c (x_tx x) (x_keys x) (x_intx x) (x_hasbegin x) (x_kvs x) (x_dr x) (x_dw x) (x_rem x).

Lemma save_with_cache x c : xdb_save (with_cache x c) = with_cache (xdb_save x) c.
Proof. unfold xdb_save, with_cache. simpl. destruct (x_kvs x) eqn:E; simpl; rewrite ?E; reflexivity. Qed.

Definition commit_rem (x : xdb) : rdb := if x_hasbegin x then rdb_commit (x_rem x) else x_rem x.

Lemma commit_rem_spec x a : RLc true x a -> RLin x a ->
  let r := commit_rem x in
  r_intx r = false /\ rtx r = [] /\ r_main r = r_main (x_rem x) /\ sorted (r_cache r) /\
  forall k, rbase r k = match get k (rtx (x_rem x)) with Some v => Some v | None => rbase (x_rem x) k end.
Proof.
  intros HL HI. unfold commit_rem. destruct (x_hasbegin x) eqn:Eh.
  - unfold rdb_commit, rtx. destruct (r_tx (x_rem x)) as [t|] eqn:Et; simpl.
    + repeat split; auto.
      * apply merge_sorted, (rl_scache _ _ _ HL).
      * intro k. unfold rbase. simpl. rewrite get_merge. destruct (get k t); reflexivity.
    + repeat split; auto. apply (rl_scache _ _ _ HL).
  - pose proof (ri_hb _ _ HI) as H1. rewrite Eh in H1.
    pose proof (ri_nb _ _ HI Eh) as H2. rewrite H2.
    repeat split; auto. apply (rl_scache _ _ _ HL).
Qed.

Lemma xdb_commit_eq x :
  xdb_commit x =
  let x1 := xdb_save x in
  mk_xdb (merge (x_cache x) (x_tx x)) [] [] false false (x_kvs x1) (x_dr x1) (x_dw x1) (commit_rem x1).
Proof.
  unfold xdb_commit.
  change (mk_xdb (merge (x_cache x) (x_tx x)) (x_tx x) (x_keys x) (x_intx x) (x_hasbegin x)
                 (x_kvs x) (x_dr x) (x_dw x) (x_rem x)) with (with_cache x (merge (x_cache x) (x_tx x))).
  rewrite save_with_cache. unfold xdb_reset, with_cache, commit_rem. simpl. reflexivity.
Qed.

Lemma sim_commit c a : Rfull true c a -> Rfull false (b_commit conc c) (b_commit abs a).
Proof.
  intros (HS & HL & HI & HV). destruct c as [s x]. simpl in *.
  destruct HS as [s1 s2 s3].
  destruct (save_in x a HL HI) as (L' & I' & Hb & Hk & Hp & Hc & Ht).
  destruct (commit_rem_spec _ _ L' I') as (C1 & C2 & C3 & C4 & C5).
  assert (Hbase : forall k, rbase (commit_rem (xdb_save x)) k =
                            match get k (x_tx x) with Some v => Some v | None => rbase (x_rem x) k end).
  { intro k. rewrite C5, Hp, (ri_pend _ _ HI), Hb. reflexivity. }
  rewrite xdb_commit_eq. cbv zeta.
  split; [|split; [|split]]; [| | |reflexivity].
  - constructor; simpl; auto. intro k. rewrite s3. unfold sview_tx at 2. simpl.
    symmetry. apply sview_commit, s1.
  - destruct L' as [h1 h2 h3 h4 h5 h6 h7 h8]. constructor; simpl; auto; try congruence.
    intros k v. rewrite get_merge, Hbase. destruct (get k (x_tx x)) as [w|] eqn:Ew.
    + intro Hv. inversion Hv; subst w. reflexivity.
    + intro Hv. rewrite <- Hb. apply h8. rewrite Hc. exact Hv.
  - constructor; simpl; auto.
    intro k. rewrite Hbase. apply (ri_view _ _ HI).
Qed.

Lemma sim_rollback c a : Rfull true c a -> b_rb_ok conc c = true ->
  Rfull false (b_rollback conc c) (b_rollback abs a).
Proof.
  intros (HS & HL & HI & HV) G. destruct c as [s x]. simpl in *.
  destruct (x_kvs x) eqn:Ek; [|discriminate G].
  destruct HV as (st & loc & v1 & v2 & v3 & v4). rewrite v1.
  set (r := if x_hasbegin x then rdb_rollback (x_rem x) else x_rem x).
  assert (Hr : r_intx r = false /\ rtx r = [] /\ r_cache r = r_cache (x_rem x) /\ r_main r = r_main (x_rem x)).
  { unfold r. destruct (x_hasbegin x) eqn:Eh; simpl.
    - repeat split; auto.
    - pose proof (ri_hb _ _ HI) as H1. rewrite Eh in H1. repeat split; auto. apply (ri_nb _ _ HI Eh). }
  destruct Hr as (R1 & R2 & R3 & R4).
  assert (Hb : forall k, rbase r k = rbase (x_rem x) k).
  { intro k. unfold rbase. rewrite R3, R4. reflexivity. }
  split; [|split; [|split]]; [| | |reflexivity].
  - destruct HS as [s1 s2 s3]. constructor; simpl; auto.
  - destruct HL as [h1 h2 h3 h4 h5 h6 h7 h8]. unfold xdb_rollback. fold r.
    constructor; simpl; auto; try congruence.
    intros k v Hv. rewrite Hb. apply h8, Hv.
  - unfold xdb_rollback. fold r. constructor; simpl; auto.
    intro k. rewrite Hb. apply v4.
Qed.

Lemma sim_rbok c a : Rfull true c a -> b_rb_ok conc c = b_rb_ok abs a.
Proof.
  intros (_ & _ & HI & _). simpl in *. rewrite (ri_dirty _ _ HI). destruct (x_kvs (snd c)); reflexivity.
Qed.

Lemma sim_starttx b c a : Rfull b c a -> Rfull b (b_starttx conc c) (b_starttx abs a).
Proof.
  intros (HS & HL & HI & HV). destruct c as [s x]. simpl in *.
  split; [|split; [|split]].
  - destruct HS. constructor; simpl; auto.
  - destruct HL. constructor; simpl; auto.
  - destruct b; destruct HI; constructor; simpl; auto.
  - destruct b; simpl in *; auto.
Qed.

Lemma sim_enter b c a st : Rfull b c a -> Rfull b (b_enter conc c st) (b_enter abs a st).
Proof.
  intros (HS & HL & HI & HV). destruct c as [s x]. simpl in *.
  split; [|split; [|split]].
  - destruct HS. constructor; simpl; auto.
  - destruct HL. constructor; simpl; auto. destruct st; auto.
  - destruct b; destruct HI; constructor; simpl; auto.
  - destruct b; simpl in *; auto.
Qed.

Lemma sim_leave b c a st : Rfull b c a -> Rfull b (b_leave conc c st) (b_leave abs a st).
Proof.
  intros (HS & HL & HI & HV). destruct c as [s x]. simpl in *.
  split; [|split; [|split]].
  - destruct HS. constructor; simpl; auto.
  - destruct HL. constructor; simpl; auto. destruct st; auto.
  - destruct b; destruct HI; constructor; simpl; auto.
  - destruct b; simpl in *; auto.
Qed.

Lemma sim_skeys b c a : Rfull b c a -> b_skeys conc c = b_skeys abs a.
Proof. intros (HS & _). apply (rs_keys _ _ _ HS). Qed.

Lemma sim_lkeys b c a : Rfull b c a -> b_lkeys conc c = b_lkeys abs a.
Proof. intros (_ & HL & _). apply (rl_keys _ _ _ HL). Qed.

Lemma sim_init store main : sorted main -> Rfull false (conc_init store main) (abs_init store main).
Proof.
  intro Sm. unfold conc_init, abs_init, Rfull. simpl.
  split; [|split; [|split]]; [| | |reflexivity].
  - constructor; simpl; auto.
  - constructor; simpl; auto. intros k v H. discriminate H.
  - constructor; simpl; auto.
Qed.
