(** C11 — executable model of the executor's per-transaction transactions, as they are.

    - [sdb]  : executor/statedb.go StateDB (cache / txcache / keys / intx over the
               immutable store at the block's state hash);
    - [rdb]  : common/db/localdb.go LocalDB, the "remote" side living in the blockchain
               module (txcache / cache / maindb / intx), reached through
               blockchain/localdb.go (LocalBegin/Set/Get/List/Commit/Rollback);
    - [xdb]  : executor/localdb.go LocalDB (cache / txcache / keys / intx / hasbegin /
               buffered kvs, lazy save() on List and Commit; Rollback does NOT clear kvs);
    - the block interpreter of executor/execenv.go + executor.go (procExecTxList's
      dispatch, execTx, execTxGroup, execTxOne, processFee/execFee, checkKV,
      execLocalSameTime/execLocalTx), written once over a record of database
      operations ([backend]) so that the implementation model (this file) and the
      specification (Spec.v) share nothing but the transaction language.

    Contracts are a deep embedding: a transaction is a coins transfer or a pair of
    straight-line scripts (Exec phase, ExecLocal phase) of a synthetic driver that is
    either ExecLocalSameTime (driver 0) or ordinary (driver 1).

    All forks that matter are active (ForkExecRollback, ForkResetTx0, ForkStateDBSet,
    ForkLocalDBAccess, ForkTxGroup), as on the test node.  No proofs here. *)
From Coq Require Import List NArith ZArith Bool String.
From C33 Require Import Lib.Harness Lib.Bytes Lib.OMap.
Import ListNotations.
Open Scope string_scope.
Open Scope list_scope.

Definition kv : Type := (bytes * bytes)%type.
Definition cdb : Type := list (bytes * bytes).   (* an [omap bytes]; value [] = Go nil *)

Definition isnil (v : bytes) : bool := match v with [] => true | _ => false end.
Definition nonnil (v : bytes) : option bytes := if isnil v then None else Some v.
Definition norm (o : option bytes) : option bytes :=
  match o with Some v => nonnil v | None => None end.

(** cacheDB.Merge / the commit loop of the remote LocalDB: every entry of [t] is set in [c] *)
Definition merge (c t : cdb) : cdb := fold_right (fun e acc => put (fst e) (snd e) acc) c t.

(** the live values under a prefix in key order: what
    NewListHelper(NewMergedIteratorDB(..)).List(prefix, nil, 0, ListASC) returns (C07) *)
Definition list_of (m : cdb) (p : bytes) : list bytes :=
  map snd (filter (fun e => is_prefix p (fst e) && negb (isnil (snd e))) m).

(** * StateDB (executor/statedb.go) *)
Record sdb := mk_sdb {
  s_cache : cdb; s_tx : cdb; s_keys : list bytes; s_intx : bool; s_store : cdb }.

Definition sdb_new (store : cdb) : sdb := mk_sdb [] [] [] false store.
Definition sdb_begin (s : sdb) : sdb := mk_sdb (s_cache s) [] [] true (s_store s).
Definition sdb_reset (s : sdb) : sdb := mk_sdb (s_cache s) [] [] false (s_store s).
Definition sdb_rollback (s : sdb) : sdb := sdb_reset s.
Definition sdb_commit (s : sdb) : sdb :=
  mk_sdb (merge (s_cache s) (s_tx s)) [] [] false (s_store s).
Definition sdb_starttx (s : sdb) : sdb :=
  mk_sdb (s_cache s) (s_tx s) [] (s_intx s) (s_store s).

Definition sdb_set (s : sdb) (k v : bytes) : sdb :=
  if s_intx s then mk_sdb (s_cache s) (put k v (s_tx s)) (s_keys s ++ [k]) true (s_store s)
  else mk_sdb (put k v (s_cache s)) (s_tx s) (s_keys s) false (s_store s).

(** Get: txcache (inside a transaction), cache, then the store with read-through
    insertion into cache; a stored nil and a store miss are ErrNotFound ([None]). *)
Definition sdb_get (s : sdb) (k : bytes) : sdb * option bytes :=
  match (if s_intx s then get k (s_tx s) else None) with
  | Some v => (s, nonnil v)
  | None =>
      match get k (s_cache s) with
      | Some v => (s, nonnil v)
      | None =>
          match get k (s_store s) with
          | Some v =>
              if isnil v then (s, None)
              else (mk_sdb (put k v (s_cache s)) (s_tx s) (s_keys s) (s_intx s) (s_store s), Some v)
          | None => (s, None)
          end
      end
  end.

(** * the remote LocalDB (common/db/localdb.go, not read-only) *)
Record rdb := mk_rdb { r_tx : option cdb; r_cache : cdb; r_main : cdb; r_intx : bool }.

Definition rdb_new (main : cdb) : rdb := mk_rdb (Some []) [] main false.
Definition rdb_begin (r : rdb) : rdb := mk_rdb None (r_cache r) (r_main r) true.
Definition rdb_reset (r : rdb) : rdb := mk_rdb None (r_cache r) (r_main r) false.
Definition rdb_rollback (r : rdb) : rdb := rdb_reset r.
Definition rdb_commit (r : rdb) : rdb :=
  match r_tx r with
  | None => rdb_reset r
  | Some t => mk_rdb None (merge (r_cache r) t) (r_main r) false
  end.

Definition rdb_set (r : rdb) (k v : bytes) : rdb :=
  if r_intx r then
    mk_rdb (Some (put k v (match r_tx r with Some t => t | None => [] end))) (r_cache r) (r_main r) true
  else mk_rdb (r_tx r) (put k v (r_cache r)) (r_main r) false.

(** Get: txcache inside a transaction, cache, maindb with read-through insertion;
    an empty value means deleted (ErrNotFoundInDb, [None]). *)
Definition rdb_get (r : rdb) (k : bytes) : rdb * option bytes :=
  match (if r_intx r then match r_tx r with Some t => get k t | None => None end else None) with
  | Some v => (r, nonnil v)
  | None =>
      match get k (r_cache r) with
      | Some v => (r, nonnil v)
      | None =>
          match get k (r_main r) with
          | Some v => (mk_rdb (r_tx r) (put k v (r_cache r)) (r_main r) (r_intx r), nonnil v)
          | None => (r, None)
          end
      end
  end.

(** List: merged iterator over txcache (when not nil), cache, maindb — earlier layers shadow *)
Definition rdb_view (r : rdb) : cdb :=
  merge (merge (r_main r) (r_cache r)) (match r_tx r with Some t => t | None => [] end).

Definition rdb_list (r : rdb) (p : bytes) : list bytes := list_of (rdb_view r) p.

(** * executor.LocalDB (executor/localdb.go) *)
Record xdb := mk_xdb {
  x_cache : cdb; x_tx : cdb; x_keys : list bytes; x_intx : bool; x_hasbegin : bool;
  x_kvs : list kv; x_dr : bool; x_dw : bool; x_rem : rdb }.

Definition xdb_new (main : cdb) : xdb := mk_xdb [] [] [] false false [] false false (rdb_new main).

Definition xdb_begin (x : xdb) : xdb :=
  mk_xdb (x_cache x) [] [] true false (x_kvs x) (x_dr x) (x_dw x) (x_rem x).

Definition xdb_reset (x : xdb) : xdb :=
  mk_xdb (x_cache x) [] [] false false (x_kvs x) (x_dr x) (x_dw x) (x_rem x).

Definition xdb_starttx (x : xdb) : xdb :=
  mk_xdb (x_cache x) (x_tx x) [] (x_intx x) (x_hasbegin x) (x_kvs x) (x_dr x) (x_dw x) (x_rem x).

Definition rdb_setall (r : rdb) (kvs : list kv) : rdb :=
  fold_left (fun r e => rdb_set r (fst e) (snd e)) kvs r.

(** save(): on the first flush the remote transaction is begun; the buffer is emptied *)
Definition xdb_save (x : xdb) : xdb :=
  match x_kvs x with
  | [] => x
  | kvs =>
      let r0 := if x_hasbegin x then x_rem x else rdb_begin (x_rem x) in
      mk_xdb (x_cache x) (x_tx x) (x_keys x) (x_intx x) true [] (x_dr x) (x_dw x) (rdb_setall r0 kvs)
  end.

Definition xdb_commit (x : xdb) : xdb :=
  let x1 := xdb_save (mk_xdb (merge (x_cache x) (x_tx x)) (x_tx x) (x_keys x) (x_intx x)
                             (x_hasbegin x) (x_kvs x) (x_dr x) (x_dw x) (x_rem x)) in
  let r := if x_hasbegin x1 then rdb_commit (x_rem x1) else x_rem x1 in
  xdb_reset (mk_xdb (x_cache x1) (x_tx x1) (x_keys x1) (x_intx x1) (x_hasbegin x1) (x_kvs x1)
                    (x_dr x1) (x_dw x1) r).

(** Rollback: the remote transaction (if begun) is rolled back; [x_kvs] is kept *)
Definition xdb_rollback (x : xdb) : xdb :=
  let r := if x_hasbegin x then rdb_rollback (x_rem x) else x_rem x in
  xdb_reset (mk_xdb (x_cache x) (x_tx x) (x_keys x) (x_intx x) (x_hasbegin x) (x_kvs x)
                    (x_dr x) (x_dw x) r).

Inductive obs :=
| OS (v : option bytes)     (* stateDB.Get: value or ErrNotFound *)
| OV (v : option bytes)     (* localDB.Get: value or ErrNotFound *)
| OL (vs : list bytes)      (* List: values ([] = ErrNotFound) *)
| ODis.                     (* ErrDisableRead *)

Definition xdb_get (x : xdb) (k : bytes) : xdb * obs :=
  if x_dr x then (x, ODis) else
  match (if x_intx x then get k (x_tx x) else None) with
  | Some v => (x, OV (nonnil v))
  | None =>
      match get k (x_cache x) with
      | Some v => (x, OV (nonnil v))
      | None =>
          let '(r, res) := rdb_get (x_rem x) k in
          let v := match res with Some v => v | None => [] end in
          (mk_xdb (put k v (x_cache x)) (x_tx x) (x_keys x) (x_intx x) (x_hasbegin x) (x_kvs x)
                  (x_dr x) (x_dw x) r, OV res)
      end
  end.

(** Set: [false] = ErrDisableWrite *)
Definition xdb_set (x : xdb) (k v : bytes) : xdb * bool :=
  if x_dw x then (x, false) else
  (if x_intx x then
     mk_xdb (x_cache x) (put k v (x_tx x)) (x_keys x ++ [k]) true (x_hasbegin x)
            (x_kvs x ++ [(k, v)]) (x_dr x) (x_dw x) (x_rem x)
   else
     mk_xdb (put k v (x_cache x)) (x_tx x) (x_keys x) false (x_hasbegin x)
            (x_kvs x ++ [(k, v)]) (x_dr x) (x_dw x) (x_rem x), true).

Definition xdb_list (x : xdb) (p : bytes) : xdb * obs :=
  if x_dr x then (x, ODis) else
  let x1 := xdb_save x in (x1, OL (rdb_list (x_rem x1) p)).

Definition xdb_access (x : xdb) (dr dw : bool) : xdb :=
  mk_xdb (x_cache x) (x_tx x) (x_keys x) (x_intx x) (x_hasbegin x) (x_kvs x) dr dw (x_rem x).

(** * the transaction language *)
Inductive sop :=                 (* Exec phase *)
| SSet (k v : bytes)             (* stateDB.Set and receipt KV *)
| SSetOnly (k v : bytes)         (* stateDB.Set only (rejected by checkKV) *)
| SKV (k v : bytes)              (* receipt KV only *)
| SGet (k : bytes)
| XLGet (k : bytes)              (* localDB.Get during Exec *)
| XLList (p : bytes)
| XLSet (k v : bytes)            (* localDB.Set during Exec (always disabled) *)
| SFail                          (* Exec returns an error *)
| SPanic.                        (* Exec panics (recovered by executor.Exec) *)

Inductive lop :=                 (* ExecLocal phase *)
| LSet (k v : bytes)             (* localDB.Set and returned KV *)
| LSetOnly (k v : bytes)         (* localDB.Set only (rejected by checkKV) *)
| LKV (k v : bytes)              (* returned KV only *)
| LGet (k : bytes)
| LList (p : bytes)
| LFail.

Inductive body :=
| BScript (drv : N) (ex : list sop) (lo : list lop)   (* drv 0: ExecLocalSameTime; other: ordinary *)
| BCoins (to : bytes) (amt : Z).                      (* coins transfer to an ordinary address *)

Record tx := mk_tx { t_from : bytes; t_fee : Z; t_body : body }.

Inductive item := ISingle (t : tx) | IGroup (ts : list tx).

Record receipt := mk_rc { rc_ty : N; rc_kv : list kv; rc_logs : list N }.

Definition ExecErr : N := 0.  Definition ExecPack : N := 1.  Definition ExecOk : N := 2.
Definition TyLogErr : N := 1. Definition TyLogFee : N := 2.  Definition TyLogTransfer : N := 3.
Definition TyLogScript : N := 77.

Definition err_receipt : receipt := mk_rc ExecErr [] [TyLogErr].     (* types.NewErrReceipt *)
Definition pack_empty : receipt := mk_rc ExecPack [] [].
Definition add_errlog (r : receipt) : receipt := mk_rc (rc_ty r) (rc_kv r) (rc_logs r ++ [TyLogErr]).

(** account values: the harness canonicalises an encoded types.Account to its balance *)
Definition acc_key (addr : bytes) : bytes := bs "mavl-coins-bty-" ++ addr.
Definition enc_bal (z : Z) : bytes := [Z.to_N z].
Definition dec_bal (o : option bytes) : Z := match o with Some [n] => Z.of_N n | _ => 0%Z end.

Definition drv_prefix (drv : N) : bytes :=
  if (drv =? 0)%N then bs "mavl-verifst-" else bs "mavl-verifno-".

(** isAllowKeyWrite on the generated key domain: own namespace only *)
Definition allowed (b : body) (k : bytes) : bool :=
  match b with
  | BScript drv _ _ => is_prefix (drv_prefix drv) k
  | BCoins _ _ => is_prefix (bs "mavl-coins-") k
  end.

Definition same_time (b : body) : bool :=
  match b with BScript drv _ _ => (drv =? 0)%N | BCoins _ _ => false end.

Definition local_script (b : body) : list lop :=
  match b with BScript _ _ lo => lo | BCoins _ _ => [] end.

(** checkKV: every key set in memory is in the returned KV list *)
Definition subset_keys (mem : list bytes) (kvs : list kv) : bool :=
  forallb (fun k => existsb (fun e => beqb k (fst e)) kvs) mem.

(** * the database operations the interpreter uses *)
Record backend (S : Type) := mk_backend {
  b_sget : S -> bytes -> S * option bytes;
  b_sset : S -> bytes -> bytes -> S;
  b_skeys : S -> list bytes;
  b_lget : S -> bytes -> S * obs;
  b_lset : S -> bytes -> bytes -> S * bool;
  b_llist : S -> bytes -> S * obs;
  b_lkeys : S -> list bytes;
  b_begin : S -> S;
  b_commit : S -> S;
  b_rollback : S -> S;
  b_starttx : S -> S;
  b_enter : S -> bool -> S;       (* executor.Exec: DisableWrite (+ DisableRead unless same-time) *)
  b_leave : S -> bool -> S;       (* the deferred EnableWrite (+ EnableRead) *)
  b_rb_ok : S -> bool }.          (* instrumentation: nothing is buffered when Rollback is called *)

Arguments b_sget {S}. Arguments b_sset {S}. Arguments b_skeys {S}. Arguments b_lget {S}.
Arguments b_lset {S}. Arguments b_llist {S}. Arguments b_lkeys {S}. Arguments b_begin {S}.
Arguments b_commit {S}. Arguments b_rollback {S}. Arguments b_starttx {S}. Arguments b_enter {S}.
Arguments b_leave {S}. Arguments b_rb_ok {S}.

Section Interp.
Context {S : Type} (B : backend S).

(** the driver's Exec: [None] = error / panic; the receipt KV list otherwise *)
Fixpoint run_sops (s : S) (ops : list sop) : S * list obs * option (list kv) :=
  match ops with
  | [] => (s, [], Some [])
  | SSet k v :: tl =>
      let '(s1, tr, r) := run_sops (b_sset B s k v) tl in (s1, tr, option_map (cons (k, v)) r)
  | SSetOnly k v :: tl => run_sops (b_sset B s k v) tl
  | SKV k v :: tl =>
      let '(s1, tr, r) := run_sops s tl in (s1, tr, option_map (cons (k, v)) r)
  | SGet k :: tl =>
      let '(s0, o) := b_sget B s k in
      let '(s1, tr, r) := run_sops s0 tl in (s1, OS o :: tr, r)
  | XLGet k :: tl =>
      let '(s0, o) := b_lget B s k in
      let '(s1, tr, r) := run_sops s0 tl in (s1, o :: tr, r)
  | XLList p :: tl =>
      let '(s0, o) := b_llist B s p in
      let '(s1, tr, r) := run_sops s0 tl in (s1, o :: tr, r)
  | XLSet k v :: tl =>
      let '(s0, ok) := b_lset B s k v in
      if ok then run_sops s0 tl else (s0, [], None)
  | SFail :: _ => (s, [], None)
  | SPanic :: _ => (s, [], None)
  end.

(** the driver's ExecLocal: [None] = error; the returned KV list otherwise *)
Fixpoint run_lops (s : S) (ops : list lop) : S * list obs * option (list kv) :=
  match ops with
  | [] => (s, [], Some [])
  | LSet k v :: tl =>
      let '(s0, ok) := b_lset B s k v in
      if ok then let '(s1, tr, r) := run_lops s0 tl in (s1, tr, option_map (cons (k, v)) r)
      else (s0, [], None)
  | LSetOnly k v :: tl =>
      let '(s0, ok) := b_lset B s k v in
      if ok then run_lops s0 tl else (s0, [], None)
  | LKV k v :: tl =>
      let '(s1, tr, r) := run_lops s tl in (s1, tr, option_map (cons (k, v)) r)
  | LGet k :: tl =>
      let '(s0, o) := b_lget B s k in
      let '(s1, tr, r) := run_lops s0 tl in (s1, o :: tr, r)
  | LList p :: tl =>
      let '(s0, o) := b_llist B s p in
      let '(s1, tr, r) := run_lops s0 tl in (s1, o :: tr, r)
  | LFail :: _ => (s, [], None)
  end.

Definition lset_all (s : S) (kvs : list kv) : S :=
  fold_left (fun s e => fst (b_lset B s (fst e) (snd e))) kvs s.

Definition sset_all (s : S) (kvs : list kv) : S :=
  fold_left (fun s e => b_sset B s (fst e) (snd e)) kvs s.

(** execLocalTx *)
Definition exec_local_tx (s : S) (lo : list lop) : S * list obs * bool :=
  let '(s1, tr, r) := run_lops s lo in
  match r with
  | None => (s1, tr, false)
  | Some kvs =>
      if subset_keys (b_lkeys B s1) kvs then (lset_all s1 kvs, tr, true) else (s1, tr, false)
  end.

Definition load_account (s : S) (addr : bytes) : S * Z :=
  let '(s1, v) := b_sget B s (acc_key addr) in (s1, dec_bal v).

(** account.Transfer for the coins driver *)
Definition coins_transfer (s : S) (from to : bytes) (amt : Z) : S * option (list kv * list N) :=
  if (amt <? 1)%Z then (s, None) else
  let '(s1, bf) := load_account s from in
  let '(s2, bt) := load_account s1 to in
  if beqb from to then (s2, None)
  else if (bf - amt >=? 0)%Z then
    let kf := (acc_key from, enc_bal (bf - amt)) in
    let kt := (acc_key to, enc_bal (bt + amt)) in
    let s3 := b_sset B (b_sset B s2 (fst kf) (snd kf)) (fst kt) (snd kt) in
    (s3, Some ([kf; kt], [TyLogTransfer; TyLogTransfer]))
  else (s2, None).

(** executor.Exec: access switches around the driver's Exec *)
Definition exec_body (s : S) (t : tx) : S * list obs * option (list kv * list N) :=
  let st := same_time (t_body t) in
  let s0 := b_enter B s st in
  match t_body t with
  | BScript _ ex _ =>
      let '(s1, tr, r) := run_sops s0 ex in
      (b_leave B s1 st, tr, option_map (fun kvs => (kvs, [TyLogScript])) r)
  | BCoins to amt =>
      let '(s1, r) := coins_transfer s0 (t_from t) to amt in (b_leave B s1 st, [], r)
  end.

(** execTxOne *)
Definition exec_tx_one (s : S) (fl : receipt) (t : tx) : S * list obs * receipt * bool :=
  let s0 := b_starttx B s in
  let '(s1, tr1, r) := exec_body s0 t in
  match r with
  | None => (s1, tr1, add_errlog fl, false)
  | Some (kvs, logs) =>
      if negb (subset_keys (b_skeys B s1) kvs) then (s1, tr1, add_errlog fl, false)
      else if negb (forallb (fun e => allowed (t_body t) (fst e)) kvs) then (s1, tr1, add_errlog fl, false)
      else
        let '(s2, tr2, okl) :=
          if same_time (t_body t) then exec_local_tx s1 (local_script (t_body t)) else (s1, [], true) in
        if negb okl then (s2, tr1 ++ tr2, add_errlog fl, false)
        else
          let fl' := mk_rc ExecOk (rc_kv fl ++ kvs) (rc_logs fl ++ logs) in
          (sset_all s2 (rc_kv fl'), tr1 ++ tr2, fl', true)
  end.

(** execFee / processFee: [None] = ErrNoBalance *)
Definition exec_fee (s : S) (t : tx) : S * option receipt :=
  let '(s1, bal) := load_account s (t_from t) in
  if (bal - t_fee t >=? 0)%Z then
    let e := (acc_key (t_from t), enc_bal (bal - t_fee t)) in
    (b_sset B s1 (fst e) (snd e), Some (mk_rc ExecPack [e] [TyLogFee]))
  else (s1, None).

(** execTx; the last component says that no Rollback was called with buffered local writes *)
Definition exec_tx (s : S) (t : tx) : S * list obs * receipt * bool :=
  match exec_fee s t with
  | (s1, None) => (s1, [], err_receipt, true)
  | (s1, Some fl) =>
      let '(s3, tr, rc, ok) := exec_tx_one (b_begin B s1) fl t in
      if ok then (b_commit B s3, tr, rc, true) else (b_rollback B s3, tr, rc, b_rb_ok B s3)
  end.

(** members 1.. of a group *)
Fixpoint exec_rest (s : S) (ts : list tx) : S * list (list obs) * list receipt * bool :=
  match ts with
  | [] => (s, [], [], true)
  | t :: tl =>
      let '(s1, tr, rc, ok) := exec_tx_one s pack_empty t in
      if ok then
        let '(s2, trs, rcs, ok2) := exec_rest s1 tl in
        (s2, tr :: trs, (if ok2 then rc else pack_empty) :: rcs, ok2)
      else (s1, tr :: map (fun _ => []) tl, rc :: map (fun _ => pack_empty) tl, false)
  end.

(** execTxGroup *)
Definition exec_group (s : S) (ts : list tx) : S * list (list obs) * list receipt * bool :=
  match ts with
  | [] => (s, [], [], true)
  | t0 :: rest =>
      match exec_fee s t0 with
      | (s1, None) => (s1, map (fun _ => []) ts, map (fun _ => err_receipt) ts, true)
      | (s1, Some fl) =>
          let '(s3, tr0, rc0, ok0) := exec_tx_one (b_begin B s1) fl t0 in
          if ok0 then
            let '(s4, trs, rcs, ok) := exec_rest s3 rest in
            if ok then (b_commit B s4, tr0 :: trs, rc0 :: rcs, true)
            else (b_rollback B s4, tr0 :: trs, fl :: rcs, b_rb_ok B s4)
          else (b_rollback B s3, tr0 :: map (fun _ => []) rest,
                rc0 :: map (fun _ => pack_empty) rest, b_rb_ok B s3)
      end
  end.

Definition exec_item (s : S) (it : item) : S * list (list obs) * list receipt * bool :=
  match it with
  | ISingle t => let '(s1, tr, rc, g) := exec_tx s t in (s1, [tr], [rc], g)
  | IGroup ts => exec_group s ts
  end.

(** procExecTxList *)
Fixpoint exec_block (s : S) (blk : list item) : S * list (list obs) * list receipt * bool :=
  match blk with
  | [] => (s, [], [], true)
  | it :: tl =>
      let '(s1, trs1, rcs1, g1) := exec_item s it in
      let '(s2, trs2, rcs2, g2) := exec_block s1 tl in
      (s2, trs1 ++ trs2, rcs1 ++ rcs2, g1 && g2)
  end.

End Interp.

(** * the implementation's databases as a backend *)
Definition cst : Type := (sdb * xdb)%type.

Definition conc : backend cst := {|
  b_sget := fun s k => let '(d, r) := sdb_get (fst s) k in ((d, snd s), r);
  b_sset := fun s k v => (sdb_set (fst s) k v, snd s);
  b_skeys := fun s => s_keys (fst s);
  b_lget := fun s k => let '(x, r) := xdb_get (snd s) k in ((fst s, x), r);
  b_lset := fun s k v => let '(x, r) := xdb_set (snd s) k v in ((fst s, x), r);
  b_llist := fun s p => let '(x, r) := xdb_list (snd s) p in ((fst s, x), r);
  b_lkeys := fun s => x_keys (snd s);
  b_begin := fun s => (sdb_begin (fst s), xdb_begin (snd s));
  b_commit := fun s => (sdb_commit (fst s), xdb_commit (snd s));
  b_rollback := fun s => (sdb_rollback (fst s), xdb_rollback (snd s));
  b_starttx := fun s => (sdb_starttx (fst s), xdb_starttx (snd s));
  b_enter := fun s st => (fst s, xdb_access (snd s) (if st then x_dr (snd s) else true) true);
  b_leave := fun s st => (fst s, xdb_access (snd s) (if st then x_dr (snd s) else false) false);
  b_rb_ok := fun s => match x_kvs (snd s) with [] => true | _ => false end |}.

Definition conc_init (store main : cdb) : cst := (sdb_new store, xdb_new main).

(** receipts, per-transaction read traces, and the guard flag of a block *)
Definition run_model (store main : cdb) (blk : list item)
  : list (list obs) * list receipt * bool :=
  let '(_, trs, rcs, g) := exec_block conc (conc_init store main) blk in (trs, rcs, g).

(** * the cheap layer: operation sequences on executor.NewLocalDB directly *)
Inductive xop := XBegin | XCommit | XRollback | XSet (k v : bytes) | XGet (k : bytes) | XList (p : bytes).

Inductive xout := XUnit | XObs (o : obs).

Definition xdb_step (x : xdb) (o : xop) : xdb * xout :=
  match o with
  | XBegin => (xdb_begin x, XUnit)
  | XCommit => (xdb_commit x, XUnit)
  | XRollback => (xdb_rollback x, XUnit)
  | XSet k v => (fst (xdb_set x k v), XUnit)
  | XGet k => let '(x1, r) := xdb_get x k in (x1, XObs r)
  | XList p => let '(x1, r) := xdb_list x p in (x1, XObs r)
  end.

Fixpoint xdb_run (x : xdb) (ops : list xop) : xdb * list xout :=
  match ops with
  | [] => (x, [])
  | o :: tl =>
      let '(x1, r) := xdb_step x o in
      let '(x2, rs) := xdb_run x1 tl in (x2, r :: rs)
  end.

Definition run_xops (main : cdb) (ops : list xop) : list xout := snd (xdb_run (xdb_new main) ops).

(** the guard on histories: nothing is buffered whenever Rollback is called *)
Fixpoint xdb_guard (x : xdb) (ops : list xop) : bool :=
  match ops with
  | [] => true
  | o :: tl =>
      (match o, x_kvs x with XRollback, _ :: _ => false | _, _ => true end) &&
      xdb_guard (fst (xdb_step x o)) tl
  end.
