(** C11 — the specification: the same block interpreter over plain maps with
    scratch copies.  Begin remembers the current state and local maps, Rollback puts them
    back, Commit forgets the copy; there are no caches, no buffering and no remote side.
    "A failed transaction leaves only its fee behind" holds here by construction
    ([spec_failed_leaves_fee_only] in ProofsSpec) and the block in which every failed
    transaction or group is replaced by "pay the fee only" ([replace_failed]) is
    indistinguishable from the original one. *)
From Coq Require Import List NArith ZArith Bool String.
From C33 Require Import Lib.Harness Lib.Bytes Lib.OMap C11.Model.
Import ListNotations.
Open Scope list_scope.

Record ast := mk_ast {
  a_st : cdb;                       (* state: key -> value ([] = absent) *)
  a_loc : cdb;                      (* local data *)
  a_saved : option (cdb * cdb);     (* the copies taken by Begin *)
  a_skeys : list bytes; a_lkeys : list bytes;
  a_dr : bool; a_dw : bool;
  a_dirty : bool }.                 (* instrumentation only: a local write happened since the last
                                       List / Begin / Commit (what the guard of the partial theorems
                                       looks at); no operation's result depends on it *)

Definition a_intx (a : ast) : bool := match a_saved a with Some _ => true | None => false end.

(** List flushes: nothing is buffered afterwards *)
Definition a_flush (a : ast) : ast :=
  mk_ast (a_st a) (a_loc a) (a_saved a) (a_skeys a) (a_lkeys a) (a_dr a) (a_dw a) false.

Definition abs : backend ast := {|
  b_sget := fun a k => (a, norm (get k (a_st a)));
  b_sset := fun a k v =>
    mk_ast (put k v (a_st a)) (a_loc a) (a_saved a)
           (if a_intx a then a_skeys a ++ [k] else a_skeys a) (a_lkeys a) (a_dr a) (a_dw a) (a_dirty a);
  b_skeys := a_skeys;
  b_lget := fun a k => (a, if a_dr a then ODis else OV (norm (get k (a_loc a))));
  b_lset := fun a k v =>
    if a_dw a then (a, false)
    else (mk_ast (a_st a) (put k v (a_loc a)) (a_saved a) (a_skeys a)
                 (if a_intx a then a_lkeys a ++ [k] else a_lkeys a) (a_dr a) (a_dw a) true, true);
  b_llist := fun a p =>
    if a_dr a then (a, ODis)
    else (a_flush a, OL (list_of (a_loc a) p));
  b_lkeys := a_lkeys;
  b_begin := fun a => mk_ast (a_st a) (a_loc a) (Some (a_st a, a_loc a)) [] [] (a_dr a) (a_dw a) false;
  b_commit := fun a => mk_ast (a_st a) (a_loc a) None [] [] (a_dr a) (a_dw a) false;
  b_rollback := fun a =>
    match a_saved a with
    | Some (st, loc) => mk_ast st loc None [] [] (a_dr a) (a_dw a) false
    | None => mk_ast (a_st a) (a_loc a) None [] [] (a_dr a) (a_dw a) false
    end;
  b_starttx := fun a => mk_ast (a_st a) (a_loc a) (a_saved a) [] [] (a_dr a) (a_dw a) (a_dirty a);
  b_enter := fun a st =>
    mk_ast (a_st a) (a_loc a) (a_saved a) (a_skeys a) (a_lkeys a) (if st then a_dr a else true) true (a_dirty a);
  b_leave := fun a st =>
    mk_ast (a_st a) (a_loc a) (a_saved a) (a_skeys a) (a_lkeys a) (if st then a_dr a else false) false (a_dirty a);
  b_rb_ok := fun a => negb (a_dirty a) |}.

Definition abs_init (store main : cdb) : ast := mk_ast store main None [] [] false false false.

Definition run_spec (store main : cdb) (blk : list item) : list (list obs) * list receipt :=
  let '(_, trs, rcs, _) := exec_block abs (abs_init store main) blk in (trs, rcs).

(** * "pay the fee only" *)
Definition body_drv (b : body) : N := match b with BScript d _ _ => d | BCoins _ _ => 1%N end.

(** a transaction that fails at once / that does nothing, with the same payer, fee and driver order *)
Definition fail_of (t : tx) : tx := mk_tx (t_from t) (t_fee t) (BScript (body_drv (t_body t)) [SFail] []).
Definition noop_of (t : tx) : tx := mk_tx (t_from t) (t_fee t) (BScript (body_drv (t_body t)) [] []).

Definition has_errlog (r : receipt) : bool := existsb (N.eqb TyLogErr) (rc_logs r).

Fixpoint replace_members (ts : list tx) (rcs : list receipt) : list tx :=
  match ts, rcs with
  | t :: ts', r :: rcs' => (if has_errlog r then fail_of t else noop_of t) :: replace_members ts' rcs'
  | _, _ => ts
  end.

(** the item with which a failed item is replaced, given the receipts it produced:
    a failed transaction fails at once; in a failed group the failing member fails at
    once and the other members do nothing *)
Definition replace_item (it : item) (rcs : list receipt) : item :=
  match it, rcs with
  | ISingle t, [r] => if (rc_ty r =? ExecPack)%N then ISingle (fail_of t) else it
  | IGroup ts, r :: _ => if (rc_ty r =? ExecPack)%N then IGroup (replace_members ts rcs) else it
  | _, _ => it
  end.

(** the block with every failed transaction / group replaced (decided by the specification's run) *)
Fixpoint replace_failed (a : ast) (blk : list item) : list item :=
  match blk with
  | [] => []
  | it :: tl =>
      let '(a1, _, rcs, _) := exec_item abs a it in
      replace_item it rcs :: replace_failed a1 tl
  end.

(** traces of failed transactions are not part of the replaced block *)
Fixpoint erase_failed (rcs : list receipt) (trs : list (list obs)) : list (list obs) :=
  match rcs, trs with
  | r :: rcs', tr :: trs' => (if (rc_ty r =? ExecPack)%N then [] else tr) :: erase_failed rcs' trs'
  | _, _ => trs
  end.

(** * the cheap layer: a transactional map *)
Definition abs_step (a : ast) (o : xop) : ast * xout :=
  match o with
  | XBegin => (b_begin abs a, XUnit)
  | XCommit => (b_commit abs a, XUnit)
  | XRollback => (b_rollback abs a, XUnit)
  | XSet k v => (fst (b_lset abs a k v), XUnit)
  | XGet k => let '(a1, r) := b_lget abs a k in (a1, XObs r)
  | XList p => let '(a1, r) := b_llist abs a p in (a1, XObs r)
  end.

Fixpoint abs_run (a : ast) (ops : list xop) : ast * list xout :=
  match ops with
  | [] => (a, [])
  | o :: tl =>
      let '(a1, r) := abs_step a o in
      let '(a2, rs) := abs_run a1 tl in (a2, r :: rs)
  end.

Definition spec_xops (main : cdb) (ops : list xop) : list xout := snd (abs_run (abs_init [] main) ops).

(** the histories the specification speaks about: every write happens between a Begin
    and the matching Commit / Rollback, transactions are not nested *)
Fixpoint bracketed (intx : bool) (ops : list xop) : bool :=
  match ops with
  | [] => true
  | XBegin :: tl => negb intx && bracketed true tl
  | XCommit :: tl => intx && bracketed false tl
  | XRollback :: tl => intx && bracketed false tl
  | XSet _ _ :: tl => intx && bracketed intx tl
  | _ :: tl => bracketed intx tl
  end.
