(** C20 — decode/encode in arithmetic form and the round-trip lemmas. *)
From Coq Require Import ZArith Lia Bool.
From C33 Require Import C20.Model C20.Spec C20.ProofsArith.
Open Scope Z_scope.

(** * Arithmetic view of a compact value: exponent byte, sign bit, 23-bit mantissa *)

Definition mk (e : Z) (s : bool) (m : Z) : Z :=
  e * 16777216 + (if s then 8388608 else 0) + m.

Definition dshift (e m : Z) : Z :=
  if e <=? 3 then m / 256 ^ (3 - e) else m * 256 ^ (e - 3).

Lemma mk_range : forall e s m, 0 <= e <= 255 -> 0 <= m < 8388608 ->
  0 <= mk e s m < 4294967296.
Proof. intros e s m He Hm. unfold mk. destruct s; lia. Qed.

Lemma mk_decompose : forall c, 0 <= c < 4294967296 ->
  exists e s m, c = mk e s m /\ 0 <= e <= 255 /\ 0 <= m < 8388608.
Proof.
  intros c Hc.
  exists (c / 16777216), ((c / 8388608) mod 2 =? 1), (c mod 8388608).
  unfold mk. destruct (Z.eqb_spec ((c / 8388608) mod 2) 1) as [H1|H1].
  - pose proof (Z.div_mod c 16777216). pose proof (Z.mod_pos_bound c 16777216).
    pose proof (Z.div_mod c 8388608). pose proof (Z.mod_pos_bound c 8388608).
    pose proof (Z.div_mod (c / 8388608) 2). pose proof (Z.mod_pos_bound (c / 8388608) 2).
    pose proof (Z.div_pos c 16777216).
    assert (c / 16777216 = (c / 8388608) / 2).
    { rewrite Z.div_div by lia. reflexivity. }
    lia.
  - pose proof (Z.div_mod c 16777216). pose proof (Z.mod_pos_bound c 16777216).
    pose proof (Z.div_mod c 8388608). pose proof (Z.mod_pos_bound c 8388608).
    pose proof (Z.div_mod (c / 8388608) 2). pose proof (Z.mod_pos_bound (c / 8388608) 2).
    pose proof (Z.div_pos c 16777216).
    assert (c / 16777216 = (c / 8388608) / 2).
    { rewrite Z.div_div by lia. reflexivity. }
    lia.
Qed.

Lemma mk_fields : forall e s m, 0 <= m < 8388608 ->
  mk e s m mod 8388608 = m /\ mk e s m / 16777216 = e /\ Z.testbit (mk e s m) 23 = s.
Proof.
  intros e s m Hm. unfold mk. split; [|split].
  - replace (e * 16777216 + (if s then 8388608 else 0) + m)
      with (m + (e * 2 + (if s then 1 else 0)) * 8388608) by (destruct s; lia).
    rewrite Z.mod_add by lia. apply Z.mod_small. lia.
  - replace (e * 16777216 + (if s then 8388608 else 0) + m)
      with ((if s then 8388608 else 0) + m + e * 16777216) by lia.
    rewrite Z.div_add by lia. rewrite Z.div_small by (destruct s; lia). lia.
  - apply testbit23_arith.
    replace (e * 16777216 + (if s then 8388608 else 0) + m)
      with (m + (e * 2 + Z.b2z s) * 8388608) by (destruct s; cbn [Z.b2z]; lia).
    rewrite Z.div_add by lia. rewrite (Z.div_small m) by lia.
    replace (0 + (e * 2 + Z.b2z s)) with (Z.b2z s + e * 2) by lia.
    rewrite Z.mod_add by lia. apply Z.mod_small. destruct s; cbn [Z.b2z]; lia.
Qed.

(** CompactToBig on the arithmetic view. *)
Lemma decode_mk : forall e s m, 0 <= e -> 0 <= m < 8388608 ->
  compact_to_big (mk e s m) = if s then - dshift e m else dshift e m.
Proof.
  intros e s m He Hm. destruct (mk_fields e s m Hm) as [F1 [F2 F3]].
  unfold compact_to_big. cbv zeta.
  rewrite land_mask23, land_bit23, negb_involutive, Z.shiftr_div_pow2 by lia.
  change (2 ^ 24) with 16777216. rewrite F1, F2, F3.
  unfold dshift. destruct (Z.leb_spec e 3) as [Hle|Hgt].
  - rewrite Z.shiftr_div_pow2 by lia. rewrite p256_two by lia. reflexivity.
  - rewrite Z.shiftl_mul_pow2 by lia. rewrite p256_two by lia. reflexivity.
Qed.

(** * BigToCompact split into "mantissa" and "pack" *)

Definition mant_of (n : Z) : Z :=
  let a := Z.abs n in
  let exponent := bytelen a in
  if exponent <=? 3
  then u32 (Z.shiftl (u32 a) (8 * (3 - exponent)))
  else u32 (Z.abs (Z.shiftr n (8 * (exponent - 3)))).

Definition pack (exponent mantissa : Z) (neg : bool) : Z :=
  let adj := negb (Z.land mantissa 0x00800000 =? 0) in
  let mantissa' := if adj then Z.shiftr mantissa 8 else mantissa in
  let exponent' := if adj then exponent + 1 else exponent in
  let compact := Z.lor (u32 (Z.shiftl exponent' 24)) mantissa' in
  if neg then Z.lor compact 0x00800000 else compact.

Lemma encode_unfold : forall n,
  big_to_compact n =
  if n =? 0 then 0 else pack (bytelen (Z.abs n)) (mant_of n) (n <? 0).
Proof. intros n. reflexivity. Qed.

(** the mantissa before the sign-bit adjustment, arithmetically *)
Definition marith (a : Z) : Z :=
  if bytelen a <=? 3 then a * 256 ^ (3 - bytelen a) else a / 256 ^ (bytelen a - 3).

Lemma marith_small_range : forall a, 0 < a -> bytelen a <= 3 ->
  65536 <= a * 256 ^ (3 - bytelen a) < 16777216.
Proof.
  intros a Ha Hle. destruct (bytelen_spec a Ha) as [H1 [Hlo Hhi]].
  pose proof (p256_pos (3 - bytelen a)) as PP.
  assert (E1 : 256 ^ (bytelen a - 1) * 256 ^ (3 - bytelen a) = 65536).
  { rewrite <- p256_add by lia. replace (bytelen a - 1 + (3 - bytelen a)) with 2 by lia. reflexivity. }
  assert (E2 : 256 ^ bytelen a * 256 ^ (3 - bytelen a) = 16777216).
  { rewrite <- p256_add by lia. replace (bytelen a + (3 - bytelen a)) with 3 by lia. reflexivity. }
  split.
  - rewrite <- E1. apply Z.mul_le_mono_nonneg_r; lia.
  - rewrite <- E2. apply Z.mul_lt_mono_pos_r; lia.
Qed.

Lemma marith_big_range : forall a, 0 < a -> 3 < bytelen a ->
  65536 <= a / 256 ^ (bytelen a - 3) < 16777216.
Proof.
  intros a Ha Hgt. destruct (bytelen_spec a Ha) as [H1 [Hlo Hhi]].
  pose proof (p256_pos (bytelen a - 3)) as PP.
  assert (E1 : 256 ^ (bytelen a - 1) = 256 ^ (bytelen a - 3) * 65536).
  { replace (bytelen a - 1) with (bytelen a - 3 + 2) by lia. rewrite p256_add by lia. reflexivity. }
  assert (E2 : 256 ^ bytelen a = 256 ^ (bytelen a - 3) * 16777216).
  { replace (bytelen a) with (bytelen a - 3 + 3) at 1 by lia. rewrite p256_add by lia. reflexivity. }
  split.
  - apply Z.div_le_lower_bound; lia.
  - apply Z.div_lt_upper_bound; lia.
Qed.

Lemma marith_range : forall a, 0 < a -> 65536 <= marith a < 16777216.
Proof.
  intros a Ha. unfold marith. destruct (Z.leb_spec (bytelen a) 3).
  - apply marith_small_range; assumption.
  - apply marith_big_range; assumption.
Qed.

Lemma u32_small : forall x, 0 <= x < 4294967296 -> u32 x = x.
Proof. intros x Hx. unfold u32. apply Z.mod_small. change (2 ^ 32) with 4294967296. lia. Qed.

(** mantissa of a non-zero number of at most three bytes (either sign) *)
Lemma mant_small : forall n, n <> 0 -> bytelen (Z.abs n) <= 3 ->
  mant_of n = marith (Z.abs n).
Proof.
  intros n Hn Hle. assert (Ha : 0 < Z.abs n) by lia.
  unfold mant_of, marith. cbv zeta.
  destruct (Z.leb_spec (bytelen (Z.abs n)) 3) as [_|]; [|lia].
  pose proof (marith_small_range _ Ha Hle) as R.
  destruct (bytelen_spec _ Ha) as [H1 [Hlo Hhi]].
  pose proof (p256_le (bytelen (Z.abs n)) 3) as P3. change (256 ^ 3) with 16777216 in P3.
  rewrite (u32_small (Z.abs n)) by lia.
  rewrite Z.shiftl_mul_pow2 by lia. rewrite p256_two by lia.
  apply u32_small. lia.
Qed.

(** mantissa of a positive number of more than three bytes *)
Lemma mant_big_pos : forall a, 0 < a -> 3 < bytelen a -> mant_of a = marith a.
Proof.
  intros a Ha Hgt. unfold mant_of, marith. cbv zeta.
  rewrite (Z.abs_eq a) by lia.
  destruct (Z.leb_spec (bytelen a) 3) as [|_]; [lia|].
  pose proof (marith_big_range a Ha Hgt) as R.
  rewrite Z.shiftr_div_pow2 by lia. rewrite p256_two by lia.
  rewrite Z.abs_eq by lia. apply u32_small. lia.
Qed.

(** mantissa of a negative number of more than three bytes whose dropped bytes are zero
    (otherwise the arithmetic shift rounds the magnitude up) *)
Lemma mant_big_neg_exact : forall a, 0 < a -> 3 < bytelen a ->
  a mod 256 ^ (bytelen a - 3) = 0 -> mant_of (- a) = marith a.
Proof.
  intros a Ha Hgt Hex. unfold mant_of, marith. cbv zeta.
  rewrite Z.abs_opp, (Z.abs_eq a) by lia.
  destruct (Z.leb_spec (bytelen a) 3) as [|_]; [lia|].
  pose proof (marith_big_range a Ha Hgt) as R.
  pose proof (p256_pos (bytelen a - 3)) as PP.
  rewrite Z.shiftr_div_pow2 by lia. rewrite p256_two by lia.
  rewrite Z_div_zero_opp_full by assumption.
  rewrite Z.abs_opp, Z.abs_eq by lia. apply u32_small. lia.
Qed.

Lemma mant_pos : forall a, 0 < a -> mant_of a = marith a.
Proof.
  intros a Ha. destruct (Z.le_gt_cases (bytelen a) 3) as [Hle|Hgt].
  - rewrite <- (Z.abs_eq a) at 2 by lia. apply mant_small; [lia|]. rewrite Z.abs_eq by lia. assumption.
  - apply mant_big_pos; assumption.
Qed.

Lemma mant_neg_exact : forall a, 0 < a ->
  (3 < bytelen a -> a mod 256 ^ (bytelen a - 3) = 0) -> mant_of (- a) = marith a.
Proof.
  intros a Ha Hex. destruct (Z.le_gt_cases (bytelen a) 3) as [Hle|Hgt].
  - replace a with (Z.abs (- a)) at 2 by lia. apply mant_small; [lia|].
    replace (Z.abs (- a)) with a by lia. assumption.
  - apply mant_big_neg_exact; auto.
Qed.

Lemma testbit23_small : forall m, 0 <= m < 16777216 -> Z.testbit m 23 = (8388608 <=? m).
Proof.
  intros m Hm. apply testbit23_arith.
  destruct (Z.leb_spec 8388608 m) as [Hge|Hlt]; cbn [Z.b2z].
  - replace m with ((m - 8388608) + 1 * 8388608) by lia.
    rewrite Z.div_add by lia. rewrite Z.div_small by lia. reflexivity.
  - rewrite Z.div_small by lia. reflexivity.
Qed.

(** the packing step on a 24-bit mantissa *)
Lemma pack_spec : forall e mant s, 0 <= e -> 0 <= mant < 16777216 ->
  e + (if 8388608 <=? mant then 1 else 0) <= 255 ->
  pack e mant s =
  mk (e + (if 8388608 <=? mant then 1 else 0)) s
     (if 8388608 <=? mant then mant / 256 else mant).
Proof.
  intros e mant s He Hm Hfit. unfold pack. cbv zeta.
  rewrite land_bit23, negb_involutive, (testbit23_small mant Hm).
  rewrite Z.shiftr_div_pow2 by lia. change (2 ^ 8) with 256.
  set (adj := 8388608 <=? mant) in *.
  set (m' := if adj then mant / 256 else mant).
  assert (Hm' : 0 <= m' < 8388608).
  { subst m' adj. destruct (Z.leb_spec 8388608 mant).
    - split; [apply Z.div_pos; lia|apply Z.div_lt_upper_bound; lia].
    - lia. }
  replace (if adj then e + 1 else e) with (e + (if adj then 1 else 0)) by (destruct adj; lia).
  set (e' := e + (if adj then 1 else 0)) in *.
  assert (He' : 0 <= e' <= 255) by (subst e'; destruct adj; lia).
  rewrite Z.shiftl_mul_pow2 by lia. rewrite u32_small by (change (2 ^ 24) with 16777216; lia).
  unfold mk. destruct s.
  - rewrite <- Z.lor_assoc. rewrite (Z.lor_comm m').
    change 0x00800000 with (1 * 2 ^ 23).
    rewrite (lor_add 1 m' 23) by (change (2 ^ 23) with 8388608; lia).
    rewrite lor_add by (change (2 ^ 23) with 8388608; change (2 ^ 24) with 16777216; lia).
    change (2 ^ 24) with 16777216. change (2 ^ 23) with 8388608. lia.
  - rewrite lor_add by (change (2 ^ 24) with 16777216; lia).
    change (2 ^ 24) with 16777216. lia.
Qed.
