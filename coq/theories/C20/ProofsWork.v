(** C20 — work is antitone in the target, also through the encoding. *)
From Coq Require Import ZArith Lia Bool.
From C33 Require Import C20.Model C20.Spec C20.ProofsArith C20.ProofsCodec C20.ProofsRoundtrip.
Open Scope Z_scope.

Lemma work_antitone_targets : forall d1 d2, 0 < d1 <= d2 ->
  2^256 / (d2 + 1) <= 2^256 / (d1 + 1).
Proof.
  intros d1 d2 H. apply Z.div_le_compat_l; [apply Z.pow_nonneg|]; lia.
Qed.

Lemma calc_work_antitone : forall c1 c2,
  0 < compact_to_big c1 <= compact_to_big c2 -> calc_work c2 <= calc_work c1.
Proof.
  intros c1 c2 H. unfold calc_work.
  destruct (Z.leb_spec (compact_to_big c1) 0); [lia|].
  destruct (Z.leb_spec (compact_to_big c2) 0); [lia|].
  apply work_antitone_targets; lia.
Qed.

(** * The truncation performed by the encoding is monotone and keeps positivity *)

Definition topz (n : Z) : Z := if top_set n then 1 else 0.

Lemma lost_bytes_alt : forall n, lost_bytes n = Z.max 0 (bytelen n + topz n - 3).
Proof. intros n. unfold lost_bytes, topz. destruct (top_set n); f_equal; lia. Qed.

Lemma bytelen_mono : forall t1 t2, 0 < t1 <= t2 -> bytelen t1 <= bytelen t2.
Proof.
  intros t1 t2 [H1 H12].
  destruct (bytelen_spec t1 H1) as [A1 [A2 A3]].
  destruct (bytelen_spec t2) as [B1 [B2 B3]]; [lia|].
  destruct (Z.le_gt_cases (bytelen t1) (bytelen t2)) as [|Hgt]; [assumption|].
  pose proof (p256_le (bytelen t2) (bytelen t1 - 1)). lia.
Qed.

Lemma class_mono : forall t1 t2, 0 < t1 <= t2 ->
  bytelen t1 + topz t1 <= bytelen t2 + topz t2.
Proof.
  intros t1 t2 H. pose proof (bytelen_mono t1 t2 H) as Hb.
  unfold topz, top_set.
  destruct (Z.eq_dec (bytelen t1) (bytelen t2)) as [E|NE].
  - rewrite E.
    destruct (Z.leb_spec (256 ^ bytelen t2) (2 * t1));
      destruct (Z.leb_spec (256 ^ bytelen t2) (2 * t2)); lia.
  - destruct (256 ^ bytelen t1 <=? 2 * t1); destruct (256 ^ bytelen t2 <=? 2 * t2); lia.
Qed.

Lemma fits_format_mono : forall t1 t2, 0 < t1 <= t2 ->
  fits_format t2 = true -> fits_format t1 = true.
Proof.
  intros t1 t2 H Hf. pose proof (class_mono t1 t2 H) as Hc.
  unfold fits_format in *. apply Z.leb_le in Hf. apply Z.leb_le.
  unfold topz in Hc. lia.
Qed.

Lemma truncated_div : forall t, truncated t = t / 256 ^ lost_bytes t * 256 ^ lost_bytes t.
Proof.
  intros t. unfold truncated. rewrite div_mul_trunc; [reflexivity|].
  apply p256_pos, lost_bytes_nonneg.
Qed.

Lemma floor_ge_multiple : forall t b Q, 0 < Q -> b * Q <= t -> b * Q <= t / Q * Q.
Proof.
  intros t b Q HQ Hb.
  assert (b <= t / Q) by (apply Z.div_le_lower_bound; lia).
  apply Z.mul_le_mono_nonneg_r; lia.
Qed.

(** a power of 256 at or above the dropped bytes survives the truncation *)
Lemma truncated_ge_boundary : forall t k j, lost_bytes t <= j -> 0 <= k ->
  k * 256 ^ j <= t -> k * 256 ^ j <= truncated t.
Proof.
  intros t k j Hj Hk Hle. rewrite truncated_div.
  pose proof (lost_bytes_nonneg t) as HL.
  pose proof (p256_pos (lost_bytes t) HL) as PQ.
  replace j with ((j - lost_bytes t) + lost_bytes t) in * by lia.
  rewrite p256_add in * by lia. rewrite Z.mul_assoc in *.
  apply floor_ge_multiple; assumption.
Qed.

Lemma truncated_pos : forall t, 0 < t -> 0 < truncated t.
Proof.
  intros t Ht. destruct (bytelen_spec t Ht) as [B1 [B2 _]].
  pose proof (p256_pos (bytelen t - 1)) as PP.
  assert (Hl : lost_bytes t <= bytelen t - 1).
  { rewrite lost_bytes_alt. unfold topz. destruct (top_set t); lia. }
  pose proof (truncated_ge_boundary t 1 (bytelen t - 1) Hl). lia.
Qed.

Lemma truncated_le : forall t, truncated t <= t.
Proof. intros t. pose proof (truncated_bounds t). lia. Qed.

Lemma truncated_mono : forall t1 t2, 0 < t1 <= t2 -> truncated t1 <= truncated t2.
Proof.
  intros t1 t2 H. pose proof (class_mono t1 t2 H) as Hc.
  pose proof (bytelen_mono t1 t2 H) as Hb.
  destruct (Z.eq_dec (lost_bytes t1) (lost_bytes t2)) as [E|NE].
  - rewrite !truncated_div, E.
    pose proof (p256_pos _ (lost_bytes_nonneg t2)) as PQ.
    apply Z.mul_le_mono_nonneg_r; [lia|]. apply Z.div_le_mono; lia.
  - (* t2 is in a strictly higher class: a class boundary lies between them *)
    assert (HK : bytelen t1 + topz t1 < bytelen t2 + topz t2 /\
                 lost_bytes t2 = bytelen t2 + topz t2 - 3).
    { rewrite !lost_bytes_alt in NE. rewrite lost_bytes_alt. lia. }
    destruct HK as [HK HL2].
    destruct (bytelen_spec t1) as [A1 [A2 A3]]; [lia|].
    destruct (bytelen_spec t2) as [B1 [B2 B3]]; [lia|].
    pose proof (truncated_le t1) as T1.
    destruct (Z.eq_dec (bytelen t1) (bytelen t2)) as [Eb|NEb].
    + (* same length: t1 has the top bit clear, t2 has it set *)
      unfold topz, top_set in HK, HL2. rewrite Eb in HK.
      destruct (Z.leb_spec (256 ^ bytelen t2) (2 * t1)) as [|Hc1];
        destruct (Z.leb_spec (256 ^ bytelen t2) (2 * t2)) as [Hs2|]; try lia.
      assert (E256 : 256 ^ bytelen t2 = 256 ^ (bytelen t2 - 1) * 256).
      { rewrite <- p256_succ by lia. f_equal. lia. }
      pose proof (truncated_ge_boundary t2 128 (bytelen t2 - 1)). lia.
    + (* shorter: 256^(len t2 - 1) separates them *)
      assert (Hl : lost_bytes t2 <= bytelen t2 - 1) by (unfold topz in HL2; destruct (top_set t2); lia).
      pose proof (p256_le (bytelen t1) (bytelen t2 - 1)).
      pose proof (truncated_ge_boundary t2 1 (bytelen t2 - 1) Hl). lia.
Qed.

(** encoded targets order work the same way the targets do *)
Lemma work_antitone_encoded : forall t1 t2, 0 < t1 <= t2 -> fits_format t2 = true ->
  0 < compact_to_big (big_to_compact t1) <= compact_to_big (big_to_compact t2) /\
  calc_work (big_to_compact t2) <= calc_work (big_to_compact t1).
Proof.
  intros t1 t2 H Hf. pose proof (fits_format_mono t1 t2 H Hf) as Hf1.
  assert (Hd : 0 < compact_to_big (big_to_compact t1) <= compact_to_big (big_to_compact t2)).
  { rewrite !precision_exact by (assumption || lia).
    split; [apply truncated_pos; lia|apply truncated_mono; assumption]. }
  split; [assumption|]. apply calc_work_antitone. assumption.
Qed.
