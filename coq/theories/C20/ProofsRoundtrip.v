(** C20 — round-trip, precision and canonical-form lemmas. *)
From Coq Require Import ZArith Lia Bool.
From C33 Require Import C20.Model C20.Spec C20.ProofsArith C20.ProofsCodec.
Open Scope Z_scope.

(** * The encoder's adjustment test is the spec's "top bit set" *)

Lemma adj_top : forall a, 0 < a -> (8388608 <=? marith a) = top_set a.
Proof.
  intros a Ha. unfold top_set, marith.
  destruct (bytelen_spec a Ha) as [H1 _].
  destruct (Z.leb_spec (bytelen a) 3) as [Hle|Hgt].
  - pose proof (p256_pos (3 - bytelen a)) as PP.
    assert (E2 : 256 ^ bytelen a * 256 ^ (3 - bytelen a) = 16777216).
    { rewrite <- p256_add by lia. replace (bytelen a + (3 - bytelen a)) with 3 by lia. reflexivity. }
    remember (256 ^ (3 - bytelen a)) as P. remember (256 ^ bytelen a) as E.
    destruct (Z.leb_spec 8388608 (a * P)) as [Hl|Hl];
      destruct (Z.leb_spec E (2 * a)) as [Hr|Hr]; try reflexivity.
    + assert (2 * a * P < E * P) by (apply Z.mul_lt_mono_pos_r; lia). lia.
    + assert (E * P <= 2 * a * P) by (apply Z.mul_le_mono_nonneg_r; lia). lia.
  - pose proof (p256_pos (bytelen a - 3)) as PP.
    assert (E2 : 256 ^ bytelen a = 256 ^ (bytelen a - 3) * 16777216).
    { replace (bytelen a) with (bytelen a - 3 + 3) at 1 by lia. rewrite p256_add by lia. reflexivity. }
    rewrite E2. remember (256 ^ (bytelen a - 3)) as P.
    pose proof (Z.div_mod a P) as Hdm. pose proof (Z.mod_pos_bound a P) as Hmb.
    remember (a / P) as q. remember (a mod P) as r.
    destruct (Z.leb_spec 8388608 q) as [Hl|Hl];
      destruct (Z.leb_spec (P * 16777216) (2 * a)) as [Hr|Hr]; try reflexivity.
    + assert (P * 8388608 <= P * q) by (apply Z.mul_le_mono_nonneg_l; lia). lia.
    + assert (P * q <= P * 8388607) by (apply Z.mul_le_mono_nonneg_l; lia). lia.
Qed.

(** * Core arithmetic: decode of the packed mantissa is the truncation *)

Lemma div_mul_trunc : forall a Q, 0 < Q -> a / Q * Q = a - a mod Q.
Proof. intros a Q HQ. rewrite Z.mod_eq by lia. ring. Qed.

Lemma core_trunc : forall a, 0 < a ->
  dshift (bytelen a + (if top_set a then 1 else 0))
         (if top_set a then marith a / 256 else marith a) = truncated a.
Proof.
  intros a Ha. unfold truncated, lost_bytes, dshift, marith.
  destruct (bytelen_spec a Ha) as [H1 _].
  destruct (top_set a).
  - (* one more byte is dropped *)
    destruct (Z.leb_spec (bytelen a) 3) as [Hle|Hgt].
    + destruct (Z.leb_spec (bytelen a + 1) 3) as [Hle1|Hgt1].
      * rewrite Z.max_l by lia. rewrite Z.pow_0_r, Z.mod_1_r, Z.sub_0_r.
        pose proof (p256_pos (2 - bytelen a)) as PP.
        replace (3 - bytelen a) with ((2 - bytelen a) + 1) by lia.
        rewrite p256_succ by lia.
        replace (3 - (bytelen a + 1)) with (2 - bytelen a) by lia.
        rewrite Z.mul_assoc, Z.div_mul by lia. apply Z.div_mul. lia.
      * assert (E3 : bytelen a = 3) by lia. rewrite E3.
        change (3 - 3) with 0. change (3 + 1 - 3) with 1. change (Z.max 0 (3 - 2)) with 1.
        rewrite Z.pow_0_r, Z.mul_1_r, Z.pow_1_r. apply div_mul_trunc. lia.
    + destruct (Z.leb_spec (bytelen a + 1) 3) as [|_]; [lia|].
      rewrite Z.max_r by lia.
      pose proof (p256_pos (bytelen a - 3)) as PP.
      replace (bytelen a + 1 - 3) with (bytelen a - 2) by lia.
      replace (bytelen a - 2) with (bytelen a - 3 + 1) by lia.
      rewrite p256_succ by lia.
      rewrite Z.div_div by lia. apply div_mul_trunc. lia.
  - rewrite Z.add_0_r.
    destruct (Z.leb_spec (bytelen a) 3) as [Hle|Hgt].
    + rewrite Z.max_l by lia. rewrite Z.pow_0_r, Z.mod_1_r, Z.sub_0_r.
      pose proof (p256_pos (3 - bytelen a)) as PP.
      apply Z.div_mul. lia.
    + rewrite Z.max_r by lia.
      pose proof (p256_pos (bytelen a - 3)) as PP.
      apply div_mul_trunc. lia.
Qed.

Lemma fits_format_le : forall a, fits_format a = true ->
  bytelen a + (if top_set a then 1 else 0) <= 255.
Proof. intros a H. unfold fits_format in H. apply Z.leb_le in H. assumption. Qed.

(** the compact form of a magnitude [a] with sign [s] *)
Lemma pack_marith : forall a s, 0 < a -> fits_format a = true ->
  pack (bytelen a) (marith a) s =
  mk (bytelen a + (if top_set a then 1 else 0)) s
     (if top_set a then marith a / 256 else marith a)
  /\ 0 <= bytelen a + (if top_set a then 1 else 0) <= 255
  /\ 32768 <= (if top_set a then marith a / 256 else marith a) < 8388608.
Proof.
  intros a s Ha Hfit. apply fits_format_le in Hfit.
  pose proof (marith_range a Ha) as R. pose proof (bytelen_nonneg a) as B.
  pose proof (adj_top a Ha) as AT.
  split; [|split].
  - rewrite pack_spec; rewrite ?AT; auto; lia.
  - destruct (top_set a); lia.
  - rewrite <- AT. destruct (Z.leb_spec 8388608 (marith a)).
    + split; [apply Z.div_le_lower_bound; lia|apply Z.div_lt_upper_bound; lia].
    + lia.
Qed.

Lemma decode_pack : forall a s, 0 < a -> fits_format a = true ->
  compact_to_big (pack (bytelen a) (marith a) s) = if s then - truncated a else truncated a.
Proof.
  intros a s Ha Hfit. destruct (pack_marith a s Ha Hfit) as [-> [He Hm]].
  rewrite decode_mk by lia. rewrite core_trunc by assumption. reflexivity.
Qed.

(** * Precision of encode-then-decode on non-negative integers *)

Lemma encode_pos : forall a, 0 < a -> big_to_compact a = pack (bytelen a) (marith a) false.
Proof.
  intros a Ha. rewrite encode_unfold.
  destruct (Z.eqb_spec a 0) as [|_]; [lia|].
  destruct (Z.ltb_spec a 0) as [|_]; [lia|].
  rewrite Z.abs_eq by lia. rewrite mant_pos by assumption. reflexivity.
Qed.

Lemma truncated_zero : truncated 0 = 0.
Proof. reflexivity. Qed.

Lemma precision_exact : forall n, 0 <= n -> fits_format n = true ->
  compact_to_big (big_to_compact n) = truncated n.
Proof.
  intros n Hn Hfit. destruct (Z.eq_dec n 0) as [->|Hnz]; [reflexivity|].
  rewrite encode_pos by lia. apply (decode_pack n false); [lia|assumption].
Qed.

Lemma lost_bytes_nonneg : forall n, 0 <= lost_bytes n.
Proof. intros n. unfold lost_bytes. lia. Qed.

Lemma truncated_bounds : forall n, 0 <= n - truncated n < 256 ^ lost_bytes n.
Proof.
  intros n. unfold truncated. pose proof (p256_pos _ (lost_bytes_nonneg n)) as PP.
  pose proof (Z.mod_pos_bound n (256 ^ lost_bytes n) PP). lia.
Qed.

Lemma truncated_exact : forall n, lost_bytes n = 0 -> truncated n = n.
Proof. intros n H. unfold truncated. rewrite H, Z.pow_0_r, Z.mod_1_r. lia. Qed.

Lemma truncated_shift_eq : forall n, truncated_shift n = truncated n.
Proof.
  intros n. unfold truncated_shift, truncated. pose proof (lost_bytes_nonneg n) as HL.
  rewrite Z.shiftl_mul_pow2, Z.shiftr_div_pow2 by lia. rewrite p256_two by lia.
  apply div_mul_trunc. apply p256_pos. assumption.
Qed.

Lemma precision_full : forall n, 0 <= n -> fits_format n = true ->
  let d := compact_to_big (big_to_compact n) in
  d = n - n mod 256 ^ lost_bytes n /\
  0 <= n - d < 256 ^ lost_bytes n /\
  (lost_bytes n = 0 -> d = n).
Proof.
  intros n Hn Hfit d. subst d. rewrite precision_exact by assumption.
  split; [reflexivity|]. split; [apply truncated_bounds|apply truncated_exact].
Qed.

(** the same, spelled out without the spec abbreviations *)
Lemma precision_bounds : forall n, 0 <= n -> bytelen n <= 254 ->
  let d := compact_to_big (big_to_compact n) in
  0 <= n - d /\
  (3 < bytelen n -> 2 * n < 256 ^ bytelen n -> n - d < 256 ^ (bytelen n - 3)) /\
  (3 <= bytelen n -> 256 ^ bytelen n <= 2 * n -> n - d < 256 ^ (bytelen n - 2)) /\
  (bytelen n <= 2 \/ (bytelen n = 3 /\ 2 * n < 256 ^ bytelen n) -> d = n).
Proof.
  intros n Hn Hlen d. subst d.
  assert (Hfit : fits_format n = true).
  { unfold fits_format. apply Z.leb_le. destruct (top_set n); lia. }
  rewrite precision_exact by assumption.
  pose proof (truncated_bounds n) as TB.
  split; [lia|]. split; [|split].
  - intros Hgt Htop. unfold lost_bytes, top_set in TB.
    destruct (Z.leb_spec (256 ^ bytelen n) (2 * n)); [lia|].
    rewrite Z.max_r in TB by lia. lia.
  - intros Hge Htop. unfold lost_bytes, top_set in TB.
    destruct (Z.leb_spec (256 ^ bytelen n) (2 * n)); [|lia].
    rewrite Z.max_r in TB by lia. lia.
  - intros Hcase. apply truncated_exact. unfold lost_bytes, top_set.
    destruct (Z.leb_spec (256 ^ bytelen n) (2 * n)); lia.
Qed.

(** * Negative integers whose dropped bytes are zero *)

Lemma encode_neg_exact : forall a, 0 < a -> truncated a = a ->
  big_to_compact (- a) = pack (bytelen a) (marith a) true.
Proof.
  intros a Ha Hex. rewrite encode_unfold.
  destruct (Z.eqb_spec (- a) 0) as [|_]; [lia|].
  destruct (Z.ltb_spec (- a) 0) as [_|]; [|lia].
  rewrite Z.abs_opp, (Z.abs_eq a) by lia.
  rewrite mant_neg_exact; [reflexivity|assumption|].
  intros Hgt. unfold truncated in Hex.
  apply mod_p256_le with (k := lost_bytes a); [|lia].
  unfold lost_bytes. destruct (top_set a); lia.
Qed.

Lemma roundtrip_neg_exact : forall a, 0 < a -> fits_format a = true -> truncated a = a ->
  compact_to_big (big_to_compact (- a)) = - a.
Proof.
  intros a Ha Hfit Hex. rewrite encode_neg_exact by assumption.
  rewrite decode_pack by assumption. rewrite Hex. reflexivity.
Qed.

(** * Every decoded compact value is exactly representable *)

Lemma small_mantissa_top : forall m, 0 < m < 8388608 ->
  bytelen m + (if top_set m then 1 else 0) <= 3.
Proof.
  intros m Hm. assert (Hb : bytelen m <= 3).
  { apply bytelen_le; [lia|]. change (256 ^ 3) with 16777216. lia. }
  unfold top_set. destruct (Z.leb_spec (256 ^ bytelen m) (2 * m)) as [Ht|_]; [|lia].
  destruct (Z.eq_dec (bytelen m) 3) as [E|]; [|lia].
  rewrite E in Ht. change (256 ^ 3) with 16777216 in Ht. lia.
Qed.

Lemma dshift_nonneg : forall e m, 0 <= m -> 0 <= dshift e m.
Proof.
  intros e m Hm. unfold dshift. destruct (Z.leb_spec e 3).
  - apply Z.div_pos; [lia|apply p256_pos; lia].
  - pose proof (p256_pos (e - 3)). nia.
Qed.

Lemma dshift_representable : forall e m, 0 <= e <= 255 -> 0 <= m < 8388608 ->
  0 < dshift e m ->
  fits_format (dshift e m) = true /\ truncated (dshift e m) = dshift e m.
Proof.
  intros e m He Hm Hv. unfold dshift in *.
  destruct (Z.leb_spec e 3) as [Hle|Hgt].
  - (* at most three bytes: nothing is dropped *)
    set (v := m / 256 ^ (3 - e)) in *.
    pose proof (p256_pos (3 - e)) as PP.
    assert (Hlt : v < 256 ^ e).
    { subst v. apply Z.div_lt_upper_bound; [lia|].
      rewrite <- p256_add by lia. replace (3 - e + e) with 3 by lia.
      change (256 ^ 3) with 16777216. lia. }
    assert (Hb : bytelen v <= e) by (apply bytelen_le; lia).
    assert (Hl : lost_bytes v = 0).
    { unfold lost_bytes, top_set.
      destruct (Z.leb_spec (256 ^ bytelen v) (2 * v)) as [Ht|_]; [|lia].
      destruct (Z.eq_dec (bytelen v) 3) as [E|]; [|lia].
      assert (e = 3) by lia. subst e. subst v.
      change (3 - 3) with 0 in *. rewrite Z.pow_0_r, Z.div_1_r in *.
      rewrite E in Ht. change (256 ^ 3) with 16777216 in Ht. lia. }
    split.
    + unfold fits_format. apply Z.leb_le. destruct (top_set v); lia.
    + apply truncated_exact. assumption.
  - (* mantissa shifted left: byte length and top bit follow the mantissa's *)
    pose proof (p256_pos (e - 3)) as PP.
    assert (Hmp : 0 < m) by nia.
    destruct (bytelen_spec m Hmp) as [B1 [Blo Bhi]].
    pose proof (small_mantissa_top m (conj Hmp (proj2 Hm))) as ST.
    set (P := 256 ^ (e - 3)) in *. set (v := m * P) in *.
    assert (Hbv : bytelen v = bytelen m + (e - 3)).
    { replace (bytelen m + (e - 3)) with ((bytelen m - 1 + (e - 3)) + 1) by lia.
      apply bytelen_unique; [lia|].
      replace (bytelen m - 1 + (e - 3) + 1) with (bytelen m + (e - 3)) by lia.
      rewrite !p256_add by lia. fold P. subst v. split.
      - apply Z.mul_le_mono_nonneg_r; lia.
      - apply Z.mul_lt_mono_pos_r; lia. }
    assert (Htv : top_set v = top_set m).
    { unfold top_set. rewrite Hbv, p256_add by lia. fold P. subst v.
      destruct (Z.leb_spec (256 ^ bytelen m * P) (2 * (m * P))) as [Hl|Hl];
        destruct (Z.leb_spec (256 ^ bytelen m) (2 * m)) as [Hr|Hr]; try reflexivity.
      - assert (2 * m * P < 256 ^ bytelen m * P) by (apply Z.mul_lt_mono_pos_r; lia). lia.
      - assert (256 ^ bytelen m * P <= 2 * m * P) by (apply Z.mul_le_mono_nonneg_r; lia). lia. }
    split.
    + unfold fits_format. apply Z.leb_le. rewrite Htv, Hbv. lia.
    + unfold truncated.
      assert (Hl : 0 <= lost_bytes v <= e - 3).
      { split; [apply lost_bytes_nonneg|]. unfold lost_bytes. rewrite Htv, Hbv.
        destruct (top_set m); lia. }
      assert (Hz : v mod 256 ^ lost_bytes v = 0).
      { remember (lost_bytes v) as L eqn:EL. clear EL. subst v P.
        replace (e - 3) with ((e - 3 - L) + L) by lia.
        rewrite p256_add by lia. rewrite Z.mul_assoc. apply Z.mod_mul.
        pose proof (p256_pos L). lia. }
      rewrite Hz. lia.
Qed.

(** * Decode / re-encode / decode *)

Lemma decode_recode_mk : forall e s m, 0 <= e <= 255 -> 0 <= m < 8388608 ->
  compact_to_big (big_to_compact (compact_to_big (mk e s m))) = compact_to_big (mk e s m).
Proof.
  intros e s m He Hm. rewrite decode_mk by lia.
  pose proof (dshift_nonneg e m (proj1 Hm)) as Hv.
  destruct (Z.eq_dec (dshift e m) 0) as [E0|Hnz].
  - rewrite E0. destruct s; reflexivity.
  - destruct (dshift_representable e m He Hm) as [Hfit Hex]; [lia|].
    destruct s.
    + apply roundtrip_neg_exact; [lia|assumption|assumption].
    + rewrite precision_exact by (assumption || lia). assumption.
Qed.

Lemma decode_recode : forall c, 0 <= c < 2 ^ 32 ->
  compact_to_big (big_to_compact (compact_to_big c)) = compact_to_big c.
Proof.
  intros c Hc. change (2 ^ 32) with 4294967296 in Hc.
  destruct (mk_decompose c Hc) as [e [s [m [-> [He Hm]]]]].
  apply decode_recode_mk; assumption.
Qed.

Lemma recode_idempotent : forall c, 0 <= c < 2 ^ 32 ->
  big_to_compact (compact_to_big (big_to_compact (compact_to_big c))) =
  big_to_compact (compact_to_big c).
Proof. intros c Hc. rewrite decode_recode by assumption. reflexivity. Qed.

(** * The canonical form *)

Lemma recode_mk_form : forall e s m, 0 <= e <= 255 -> 0 <= m < 8388608 ->
  let r := big_to_compact (compact_to_big (mk e s m)) in
  r = 0 \/ exists e' m', r = mk e' s m' /\ 1 <= e' <= 255 /\ 32768 <= m' < 8388608.
Proof.
  intros e s m He Hm r. subst r. rewrite decode_mk by lia.
  pose proof (dshift_nonneg e m (proj1 Hm)) as Hv.
  destruct (Z.eq_dec (dshift e m) 0) as [E0|Hnz].
  - left. rewrite E0. destruct s; reflexivity.
  - right. destruct (dshift_representable e m He Hm) as [Hfit Hex]; [lia|].
    assert (Hpos : 0 < dshift e m) by lia.
    destruct (bytelen_spec _ Hpos) as [B1 _].
    destruct s.
    + rewrite encode_neg_exact by assumption.
      destruct (pack_marith (dshift e m) true Hpos Hfit) as [-> [R1 R2]].
      eexists _, _. split; [reflexivity|]. split; [|assumption].
      destruct (top_set (dshift e m)); lia.
    + rewrite encode_pos by assumption.
      destruct (pack_marith (dshift e m) false Hpos Hfit) as [-> [R1 R2]].
      eexists _, _. split; [reflexivity|]. split; [|assumption].
      destruct (top_set (dshift e m)); lia.
Qed.

Lemma canonical_form : forall c, 0 <= c < 2 ^ 32 ->
  let r := big_to_compact (compact_to_big c) in
  0 <= r < 2 ^ 32 /\
  compact_to_big r = compact_to_big c /\
  big_to_compact (compact_to_big r) = r /\
  (r = 0 \/ (16777216 <= r /\ 32768 <= r mod 8388608)) /\
  (compact_to_big c = 0 -> r = 0).
Proof.
  intros c Hc r. subst r.
  split; [|split; [apply decode_recode; assumption|split; [apply recode_idempotent; assumption|]]].
  - change (2 ^ 32) with 4294967296 in *.
    destruct (mk_decompose c Hc) as [e [s [m [-> [He Hm]]]]].
    destruct (recode_mk_form e s m He Hm) as [->|[e' [m' [-> [He' Hm']]]]]; [lia|].
    apply mk_range; lia.
  - change (2 ^ 32) with 4294967296 in *.
    destruct (mk_decompose c Hc) as [e [s [m [-> [He Hm]]]]].
    split.
    + destruct (recode_mk_form e s m He Hm) as [->|[e' [m' [-> [He' Hm']]]]]; [left; reflexivity|].
      right. destruct (mk_fields e' s m') as [F1 _]; [lia|]. rewrite F1.
      split; [|lia]. unfold mk. destruct s; lia.
    + intros H0. rewrite H0. reflexivity.
Qed.
