(** C20 — lemmas about the difficulty model. *)
From Coq Require Import ZArith Lia Bool.
From C33 Require Import C20.Model.
Open Scope Z_scope.

Lemma work_antitone_targets : forall d1 d2, 0 < d1 <= d2 ->
  2^256 / (d2 + 1) <= 2^256 / (d1 + 1).
Proof.
  intros d1 d2 H. apply Z.div_le_compat_l; [apply Z.pow_nonneg|]; lia.
Qed.

Lemma calc_work_antitone : forall c1 c2,
  0 < compact_to_big c1 <= compact_to_big c2 -> calc_work c2 <= calc_work c1.
Proof.
  intros c1 c2 H. unfold calc_work.
  destruct (Z.leb_spec (compact_to_big c1) 0); [lia|].
  destruct (Z.leb_spec (compact_to_big c2) 0); [lia|].
  apply work_antitone_targets; lia.
Qed.
