(** C20 — top of the proof development: refutation witnesses.

    [ProofsArith]      powers of 256, byte length, bit operations as arithmetic
    [ProofsCodec]      decode/encode in arithmetic form
    [ProofsRoundtrip]  round trip, precision, canonical form
    [ProofsWork]       work antitone, truncation monotone *)
From Coq Require Import ZArith Lia Bool.
From C33 Require Import C20.Model C20.Spec.
From C33 Require Export C20.ProofsArith C20.ProofsCodec C20.ProofsRoundtrip C20.ProofsWork.
Open Scope Z_scope.

(** Without the format guard: a 255-byte integer with the top bit set needs exponent
    256, which [uint32(exponent<<24)] truncates to 0 — everything is lost. *)
Lemma precision_unguarded_refuted : ~ C20_precision_unguarded_full.
Proof.
  intros H. specialize (H (2 ^ 2039)). cbv zeta in H.
  assert (Hn : 0 <= 2 ^ 2039) by (apply Z.pow_nonneg; lia).
  destruct (H Hn) as [_ Hlt]. vm_compute in Hlt. discriminate.
Qed.

(** For negative integers [big.Int.Rsh] rounds the magnitude up; when the three
    leading bytes are ff ff ff and a lower byte is non-zero the mantissa becomes
    0x1000000, spills into the exponent byte and the value decodes to 0. *)
Lemma precision_negative_refuted : ~ C20_precision_negative_full.
Proof.
  intros H. specialize (H (- 0xffffff01)). cbv zeta in H.
  assert (Hlt : Z.abs (- 0xffffff01 - compact_to_big (big_to_compact (- 0xffffff01)))
                < 256 ^ lost_bytes (- - 0xffffff01)) by (apply H; [lia|reflexivity]).
  vm_compute in Hlt. discriminate.
Qed.
