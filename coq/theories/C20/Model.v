(** C20 — executable model of common/difficulty/difficulty.go.

    [uint32] values are [Z] in [0, 2^32); [big.Int] values are unbounded [Z].
    The Go code is followed line by line; truncations to 32 bits that the Go
    code performs ([uint32(...)]) are written explicitly. *)
From Coq Require Import ZArith Bool.
Open Scope Z_scope.

Definition u32 (x : Z) : Z := x mod 2^32.

(** len(n.Bytes()): number of bytes of |n| (0 for 0). *)
Definition bytelen (a : Z) : Z :=
  if a <=? 0 then 0 else Z.log2 a / 8 + 1.

(** CompactToBig *)
Definition compact_to_big (c : Z) : Z :=
  let mantissa := Z.land c 0x007fffff in
  let is_negative := negb (Z.land c 0x00800000 =? 0) in
  let exponent := Z.shiftr c 24 in
  let bn :=
    if exponent <=? 3
    then Z.shiftr mantissa (8 * (3 - exponent))
    else Z.shiftl mantissa (8 * (exponent - 3)) in
  if is_negative then - bn else bn.

(** BigToCompact *)
Definition big_to_compact (n : Z) : Z :=
  if n =? 0 then 0 else
  let a := Z.abs n in
  let exponent := bytelen a in
  let mantissa :=
    if exponent <=? 3
    then u32 (Z.shiftl (u32 a) (8 * (3 - exponent)))
    else u32 (Z.abs (Z.shiftr n (8 * (exponent - 3)))) in
    (* tn.Rsh on the signed copy: an arithmetic shift, so for negative n the
       magnitude is rounded up; Bits()[0] is the low word of the magnitude *)
  let adj := negb (Z.land mantissa 0x00800000 =? 0) in
  let mantissa' := if adj then Z.shiftr mantissa 8 else mantissa in
  let exponent' := if adj then exponent + 1 else exponent in
  let compact := Z.lor (u32 (Z.shiftl exponent' 24)) mantissa' in
  if n <? 0 then Z.lor compact 0x00800000 else compact.

(** CalcWork *)
Definition calc_work (bits : Z) : Z :=
  let d := compact_to_big bits in
  if d <=? 0 then 0 else 2^256 / (d + 1).
