(** C20 — arithmetic and bit-level lemmas used by the codec proofs. *)
From Coq Require Import ZArith Lia Bool.
From C33 Require Import C20.Model.
Open Scope Z_scope.

(** * Powers of 256 *)

Lemma p256_pos : forall k, 0 <= k -> 0 < 256 ^ k.
Proof. intros k Hk. apply Z.pow_pos_nonneg; lia. Qed.

Lemma p256_add : forall a b, 0 <= a -> 0 <= b -> 256 ^ (a + b) = 256 ^ a * 256 ^ b.
Proof. intros. apply Z.pow_add_r; assumption. Qed.

Lemma p256_two : forall k, 0 <= k -> 2 ^ (8 * k) = 256 ^ k.
Proof. intros k Hk. rewrite Z.pow_mul_r by lia. reflexivity. Qed.

Lemma p256_le : forall a b, 0 <= a <= b -> 256 ^ a <= 256 ^ b.
Proof. intros. apply Z.pow_le_mono_r; lia. Qed.

Lemma p256_lt : forall a b, 0 <= a < b -> 256 ^ a < 256 ^ b.
Proof. intros. apply Z.pow_lt_mono_r; lia. Qed.

Lemma p256_succ : forall k, 0 <= k -> 256 ^ (k + 1) = 256 ^ k * 256.
Proof. intros k Hk. rewrite p256_add by lia. reflexivity. Qed.

Lemma mod_p256_le : forall a j k, 0 <= j <= k -> a mod 256 ^ k = 0 -> a mod 256 ^ j = 0.
Proof.
  intros a j k Hjk Hm.
  pose proof (p256_pos j) as Pj. pose proof (p256_pos k) as Pk.
  apply Z.mod_divide; [lia|]. apply Z.mod_divide in Hm; [|lia].
  apply Z.divide_trans with (256 ^ k); [|assumption].
  exists (256 ^ (k - j)). rewrite <- p256_add by lia. f_equal. lia.
Qed.

(** * Byte length *)

Lemma bytelen_nonpos : forall a, a <= 0 -> bytelen a = 0.
Proof. intros a Ha. unfold bytelen. destruct (Z.leb_spec a 0); [reflexivity|lia]. Qed.

Lemma bytelen_nonneg : forall a, 0 <= bytelen a.
Proof.
  intros a. unfold bytelen. destruct (Z.leb_spec a 0); [lia|].
  pose proof (Z.log2_nonneg a) as Hl.
  pose proof (Z.div_pos (Z.log2 a) 8 Hl). lia.
Qed.

Lemma bytelen_spec : forall a, 0 < a ->
  1 <= bytelen a /\ 256 ^ (bytelen a - 1) <= a < 256 ^ bytelen a.
Proof.
  intros a Ha. unfold bytelen. destruct (Z.leb_spec a 0) as [Hle|_]; [lia|].
  destruct (Z.log2_spec a Ha) as [Hlo Hhi].
  pose proof (Z.log2_nonneg a) as Hl.
  remember (Z.log2 a) as l eqn:El. clear El.
  assert (Hq : 0 <= l / 8) by (apply Z.div_pos; lia).
  assert (Hq1 : 8 * (l / 8) <= l) by (apply Z.mul_div_le; lia).
  assert (Hq2 : l < 8 * (l / 8) + 8).
  { pose proof (Z.mod_pos_bound l 8). pose proof (Z.div_mod l 8). lia. }
  replace (l / 8 + 1 - 1) with (l / 8) by lia.
  split; [lia|]. split.
  - rewrite <- p256_two by lia.
    apply Z.le_trans with (2 ^ l); [|assumption].
    apply Z.pow_le_mono_r; lia.
  - rewrite <- p256_two by lia.
    apply Z.lt_le_trans with (2 ^ Z.succ l); [assumption|].
    apply Z.pow_le_mono_r; lia.
Qed.

Lemma bytelen_unique : forall a k, 0 <= k -> 256 ^ k <= a < 256 ^ (k + 1) ->
  bytelen a = k + 1.
Proof.
  intros a k Hk [Hlo Hhi].
  pose proof (p256_pos k Hk) as Pk.
  destruct (bytelen_spec a) as [H1 [H2 H3]]; [lia|].
  destruct (Z.lt_trichotomy (bytelen a) (k + 1)) as [Hlt|[Heq|Hgt]]; [|assumption|].
  - pose proof (p256_le (bytelen a) k). lia.
  - pose proof (p256_le (k + 1) (bytelen a - 1)). lia.
Qed.

Lemma bytelen_le : forall a k, 0 <= k -> 0 < a < 256 ^ k -> bytelen a <= k.
Proof.
  intros a k Hk [Ha Hlt].
  destruct (bytelen_spec a Ha) as [H1 [H2 _]].
  destruct (Z.le_gt_cases (bytelen a) k) as [|Hgt]; [assumption|].
  pose proof (p256_le k (bytelen a - 1)). lia.
Qed.

(** * Bit operations as arithmetic *)

Lemma land_mask23 : forall c, Z.land c 0x007fffff = c mod 8388608.
Proof.
  intros c. change 0x007fffff with (Z.ones 23). change 8388608 with (2 ^ 23).
  apply Z.land_ones. lia.
Qed.

Lemma land_bit23 : forall c, (Z.land c 0x00800000 =? 0) = negb (Z.testbit c 23).
Proof.
  intros c. destruct (Z.testbit c 23) eqn:T; cbn [negb].
  - apply Z.eqb_neq. intro H0.
    assert (Hb : Z.testbit (Z.land c 0x00800000) 23 = true).
    { rewrite Z.land_spec, T. reflexivity. }
    rewrite H0, Z.bits_0 in Hb. discriminate.
  - apply Z.eqb_eq. apply Z.bits_inj'. intros n Hn.
    rewrite Z.land_spec, Z.bits_0. change 0x00800000 with (2 ^ 23).
    rewrite Z.pow2_bits_eqb by lia.
    destruct (Z.eqb_spec 23 n) as [<-|_]; [rewrite T; reflexivity|apply andb_false_r].
Qed.

Lemma testbit23_arith : forall c s, (c / 8388608) mod 2 = Z.b2z s -> Z.testbit c 23 = s.
Proof.
  intros c s H. pose proof (Z.testbit_spec' c 23) as Hs.
  change (2 ^ 23) with 8388608 in Hs. rewrite H in Hs.
  apply Z.b2z_inj. apply Hs. lia.
Qed.

Lemma land_disjoint : forall a b k, 0 <= k -> 0 <= b < 2 ^ k -> Z.land (a * 2 ^ k) b = 0.
Proof.
  intros a b k Hk Hb. apply Z.bits_inj'. intros n Hn.
  rewrite Z.land_spec, Z.bits_0.
  destruct (Z.lt_ge_cases n k) as [Hlt|Hge].
  - rewrite Z.mul_pow2_bits_low by lia. reflexivity.
  - replace (Z.testbit b n) with false; [apply andb_false_r|].
    symmetry. apply Z.testbit_false; [lia|].
    rewrite Z.div_small; [reflexivity|]. split; [lia|].
    apply Z.lt_le_trans with (2 ^ k); [lia|]. apply Z.pow_le_mono_r; lia.
Qed.

Lemma lor_add : forall a b k, 0 <= k -> 0 <= b < 2 ^ k -> Z.lor (a * 2 ^ k) b = a * 2 ^ k + b.
Proof.
  intros a b k Hk Hb. pose proof (land_disjoint a b k Hk Hb) as Hd.
  rewrite <- Z.lxor_lor by assumption. symmetry. apply Z.add_nocarry_lxor. assumption.
Qed.
