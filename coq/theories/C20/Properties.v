(** C20 — property theorems only. *)
From Coq Require Import ZArith.
From C33 Require Import C20.Model C20.Proofs.
Open Scope Z_scope.

Theorem C20_work_antitone : forall c1 c2,
  0 < compact_to_big c1 <= compact_to_big c2 -> calc_work c2 <= calc_work c1.
Proof. exact calc_work_antitone. Qed.
Print Assumptions C20_work_antitone.
