(** C20 — property theorems only. *)
From Coq Require Import ZArith.
From C33 Require Import C20.Model C20.Spec C20.Proofs.
Open Scope Z_scope.

Theorem C20_decode_recode : forall c, 0 <= c < 2^32 ->
  compact_to_big (big_to_compact (compact_to_big c)) = compact_to_big c.
Proof. exact decode_recode. Qed.
Print Assumptions C20_decode_recode.

Theorem C20_recode_idempotent : forall c, 0 <= c < 2^32 ->
  big_to_compact (compact_to_big (big_to_compact (compact_to_big c))) =
  big_to_compact (compact_to_big c).
Proof. exact recode_idempotent. Qed.
Print Assumptions C20_recode_idempotent.

Theorem C20_canonical_form : forall c, 0 <= c < 2^32 ->
  let r := big_to_compact (compact_to_big c) in
  0 <= r < 2^32 /\
  compact_to_big r = compact_to_big c /\
  big_to_compact (compact_to_big r) = r /\
  (r = 0 \/ (16777216 <= r /\ 32768 <= r mod 8388608)) /\
  (compact_to_big c = 0 -> r = 0).
Proof. exact canonical_form. Qed.
Print Assumptions C20_canonical_form.

Theorem C20_precision : forall n, 0 <= n -> fits_format n = true ->
  let d := compact_to_big (big_to_compact n) in
  d = n - n mod 256 ^ lost_bytes n /\
  0 <= n - d < 256 ^ lost_bytes n /\
  (lost_bytes n = 0 -> d = n).
Proof. exact precision_full. Qed.
Print Assumptions C20_precision.

Theorem C20_truncated_shift : forall n, truncated_shift n = n - n mod 256 ^ lost_bytes n.
Proof. exact truncated_shift_eq. Qed.
Print Assumptions C20_truncated_shift.

Theorem C20_precision_bounds : forall n, 0 <= n -> bytelen n <= 254 ->
  let d := compact_to_big (big_to_compact n) in
  0 <= n - d /\
  (3 < bytelen n -> 2 * n < 256 ^ bytelen n -> n - d < 256 ^ (bytelen n - 3)) /\
  (3 <= bytelen n -> 256 ^ bytelen n <= 2 * n -> n - d < 256 ^ (bytelen n - 2)) /\
  (bytelen n <= 2 \/ (bytelen n = 3 /\ 2 * n < 256 ^ bytelen n) -> d = n).
Proof. exact precision_bounds. Qed.
Print Assumptions C20_precision_bounds.

Example C20_precision_nonvacuous :
  fits_format 0x123456789abcdef = true /\ lost_bytes 0x123456789abcdef = 5 /\
  fits_format (2 ^ 2039 - 1) = true /\ fits_format 0xff0001 = true /\ lost_bytes 0xff0001 = 1.
Proof. vm_compute. repeat split. Qed.

Theorem C20_precision_unguarded_refuted : ~ C20_precision_unguarded_full.
Proof. exact precision_unguarded_refuted. Qed.
Print Assumptions C20_precision_unguarded_refuted.

Theorem C20_negative_exact_partial : forall a, 0 < a -> fits_format a = true -> truncated a = a ->
  compact_to_big (big_to_compact (- a)) = - a.
Proof. exact roundtrip_neg_exact. Qed.
Print Assumptions C20_negative_exact_partial.

Theorem C20_precision_negative_refuted : ~ C20_precision_negative_full.
Proof. exact precision_negative_refuted. Qed.
Print Assumptions C20_precision_negative_refuted.

Theorem C20_work_antitone : forall c1 c2,
  0 < compact_to_big c1 <= compact_to_big c2 -> calc_work c2 <= calc_work c1.
Proof. exact calc_work_antitone. Qed.
Print Assumptions C20_work_antitone.

Theorem C20_work_antitone_encoded : forall t1 t2, 0 < t1 <= t2 -> fits_format t2 = true ->
  0 < compact_to_big (big_to_compact t1) <= compact_to_big (big_to_compact t2) /\
  calc_work (big_to_compact t2) <= calc_work (big_to_compact t1).
Proof. exact work_antitone_encoded. Qed.
Print Assumptions C20_work_antitone_encoded.

Example C20_nonvacuous :
  0 <= 486604799 < 2^32 /\ 0 < compact_to_big 486604799 /\
  big_to_compact (compact_to_big 486604799) = 486604799 /\
  0 < compact_to_big 0x1c00ffff <= compact_to_big 486604799 /\
  calc_work 486604799 = 4295032833.
Proof. vm_compute. repeat split; discriminate. Qed.
