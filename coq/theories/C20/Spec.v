(** C20 — abstract spec notions for the compact difficulty encoding.

    Everything here is executable: [Check.v] runs it as the violation oracle on
    the implementation's outputs, and [Properties.v] states the theorems with it. *)
From Coq Require Import ZArith Bool.
From C33 Require Import C20.Model.
Open Scope Z_scope.

(** a uint32 *)
Definition compact_ok (c : Z) : Prop := 0 <= c < 2^32.

(** decode, then re-encode: the canonical compact form of [c] *)
Definition recode (c : Z) : Z := big_to_compact (compact_to_big c).

(** the most significant bit of the most significant byte of [n] is set
    (then the encoder shifts one more byte out to keep the sign bit clear) *)
Definition top_set (n : Z) : bool := 256 ^ bytelen n <=? 2 * n.

(** number of low-order bytes the encoding drops *)
Definition lost_bytes (n : Z) : Z :=
  Z.max 0 (if top_set n then bytelen n - 2 else bytelen n - 3).

(** the exponent byte the encoder needs fits in 8 bits *)
Definition fits_format (n : Z) : bool :=
  bytelen n + (if top_set n then 1 else 0) <=? 255.

(** [n] with the dropped bytes zeroed: exactly what survives the encoding *)
Definition truncated (n : Z) : Z := n - n mod 256 ^ lost_bytes n.

(** the same value computed with shifts (what [Check.v] evaluates: [mod] on 2000-bit
    numbers is slow under [vm_compute]); equal to [truncated] by C20_truncated_shift *)
Definition truncated_shift (n : Z) : Z :=
  Z.shiftl (Z.shiftr n (8 * lost_bytes n)) (8 * lost_bytes n).

(** Statements that are NOT true of the code (refuted in [Properties.v]):
    precision without the format guard, and the analogous bound for negative integers. *)
Definition C20_precision_unguarded_full : Prop :=
  forall n, 0 <= n ->
    let d := compact_to_big (big_to_compact n) in 0 <= n - d < 256 ^ lost_bytes n.

Definition C20_precision_negative_full : Prop :=
  forall n, n < 0 -> fits_format (- n) = true ->
    let d := compact_to_big (big_to_compact n) in Z.abs (n - d) < 256 ^ lost_bytes (- n).
