(** C20 — correspondence cases: what the Go implementation returned. *)
From Coq Require Import ZArith List Bool.
From C33 Require Import Lib.Harness C20.Model.
Import ListNotations.
Open Scope Z_scope.

Inductive case :=
| CDecode (c : Z) (impl_big impl_recode impl_work : Z)
    (* CompactToBig c, BigToCompact (CompactToBig c), CalcWork c *)
| CEncode (n : Z) (impl_compact impl_back : Z)
    (* BigToCompact n, CompactToBig (BigToCompact n) *)
| CWorkPair (c1 c2 : Z) (impl_w1 impl_w2 : Z).

(** Spec side (the property text, run as an oracle on the implementation's
    own outputs):
    - recode is canonical: re-encoding its decoding changes nothing;
    - precision: 0 <= n - back < 256^(max 0 (len-3)) * 256 for n >= 0;
    - work antitone on positive targets. *)
Definition check_case (c : case) : verdict :=
  match c with
  | CDecode c b r w =>
      let m := (compact_to_big c =? b) && (big_to_compact b =? r)
               && (calc_work c =? w) in
      let s := (compact_to_big r =? b) && (big_to_compact (compact_to_big r) =? r) in
      mk_verdict m s
  | CEncode n cpt back =>
      let m := (big_to_compact n =? cpt) && (compact_to_big cpt =? back) in
      let s := if (n <? 0) || (254 <? bytelen n) then true
               (* the property speaks of non-negative integers; byte lengths that
                  do not fit the 8-bit exponent are outside the format *)
               else (0 <=? n - back) &&
                    (n - back <? 256 ^ (Z.max 0 (bytelen n - 3)) * 256) in
      mk_verdict m s
  | CWorkPair c1 c2 w1 w2 =>
      let m := (calc_work c1 =? w1) && (calc_work c2 =? w2) in
      let d1 := compact_to_big c1 in
      let d2 := compact_to_big c2 in
      let s := if (0 <? d1) && (d1 <=? d2) then w2 <=? w1 else true in
      mk_verdict m s
  end.
