(** C20 — correspondence cases: what the Go implementation returned. *)
From Coq Require Import ZArith List Bool.
From C33 Require Import Lib.Harness C20.Model C20.Spec.
Import ListNotations.
Open Scope Z_scope.

Inductive case :=
| CDecode (c : Z) (impl_big impl_recode impl_work : Z)
    (* CompactToBig c, BigToCompact (CompactToBig c), CalcWork c *)
| CEncode (n : Z) (impl_compact impl_back : Z)
    (* BigToCompact n, CompactToBig (BigToCompact n) *)
| CWorkPair (c1 c2 : Z) (impl_w1 impl_w2 : Z)
| CEncPair (t1 t2 : Z) (impl_w1 impl_w2 : Z).
    (* CalcWork (BigToCompact t1), CalcWork (BigToCompact t2) *)

(** Spec side (the property text, run as an oracle on the implementation's
    own outputs; every clause is implied by a theorem of [Properties.v]):
    - the recoded value is a uint32, decodes to the same integer, is a fixed point
      of decode/encode, is 0 or has a non-zero exponent and a normalised mantissa,
      and is 0 when the integer is 0            (C20_canonical_form, C20_decode_recode);
    - precision: for 0 <= n that fits the format, decoding the encoding gives exactly
      n with its [lost_bytes n] low bytes zeroed   (C20_precision, C20_truncated_shift);
      negative n whose dropped bytes are zero round-trip exactly (C20_negative_exact_partial);
      other negative n and byte lengths beyond the 8-bit exponent: correspondence only;
    - work antitone on positive targets            (C20_work_antitone), also for
      integer targets pushed through the encoder   (C20_work_antitone_encoded). *)
Definition check_case (c : case) : verdict :=
  match c with
  | CDecode c b r w =>
      let m := (compact_to_big c =? b) && (big_to_compact b =? r)
               && (calc_work c =? w) in
      let s := (0 <=? r) && (r <? 4294967296)
               && (compact_to_big r =? b) && (big_to_compact (compact_to_big r) =? r)
               && ((r =? 0) || ((16777216 <=? r) && (32768 <=? r mod 8388608)))
               && (negb (b =? 0) || (r =? 0)) in
      mk_verdict m s
  | CEncode n cpt back =>
      let m := (big_to_compact n =? cpt) && (compact_to_big cpt =? back) in
      let s := if n <? 0
               then (if fits_format (- n) && (truncated_shift (- n) =? - n) then back =? n else true)
               else (if fits_format n then back =? truncated_shift n else true) in
      mk_verdict m s
  | CWorkPair c1 c2 w1 w2 =>
      let m := (calc_work c1 =? w1) && (calc_work c2 =? w2) in
      let d1 := compact_to_big c1 in
      let d2 := compact_to_big c2 in
      let s := if (0 <? d1) && (d1 <=? d2) then w2 <=? w1 else true in
      mk_verdict m s
  | CEncPair t1 t2 w1 w2 =>
      let m := (calc_work (big_to_compact t1) =? w1) && (calc_work (big_to_compact t2) =? w2) in
      let s := if (0 <? t1) && (t1 <=? t2) && fits_format t2 then w2 <=? w1 else true in
      mk_verdict m s
  end.
