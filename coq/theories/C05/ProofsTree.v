(** C05 — facts about annotated trees: which node objects of a commit's tree
    are persisted ones (whole sub-trees of the parent version), and what
    happens to the leaves. *)
From Coq Require Import List ZArith NArith Bool Lia.
From C33 Require Import C01.Keys C01.KeysFacts C01.Model C01.Store C05.Model C05.ProofsErase.
Import ListNotations.
Open Scope Z_scope.

(** in-order leaves with their annotation *)
Fixpoint aleaves (t : atree) : list (bytes * bytes * option nref) :=
  match t with
  | ALeaf p k v => [(k, v, p)]
  | ANode _ _ _ _ l r => aleaves l ++ aleaves r
  end.

Definition lkey (x : bytes * bytes * option nref) : bytes := fst (fst x).

(** sub-tree relation *)
Inductive asub (x : atree) : atree -> Prop :=
| asub_refl : asub x x
| asub_l : forall p k h s l r, asub x l -> asub x (ANode p k h s l r)
| asub_r : forall p k h s l r, asub x r -> asub x (ANode p k h s l r).

Lemma asub_trans : forall a b c, asub a b -> asub b c -> asub a c.
Proof.
  intros a b c Hab Hbc. induction Hbc.
  - exact Hab.
  - apply asub_l. exact IHHbc.
  - apply asub_r. exact IHHbc.
Qed.

Lemma asub_node_inv : forall x p k h s l r,
  asub x (ANode p k h s l r) -> x = ANode p k h s l r \/ asub x l \/ asub x r.
Proof. intros x p k h s l r H. inversion H; subst; auto. Qed.

Lemma asub_leaf_inv : forall x p k v, asub x (ALeaf p k v) -> x = ALeaf p k v.
Proof. intros x p k v H. inversion H; subst; auto. Qed.

(** [fresh_or_old t t0]: every node of [t] is either a new object (no
    annotation) or a whole sub-tree of [t0]. *)
Definition from_old (t t0 : atree) : Prop :=
  forall x, asub x t -> annot x <> None -> asub x t0.

Lemma aleaves_calc_hs : forall t, aleaves (acalc_hs t) = aleaves t.
Proof. destruct t; reflexivity. Qed.

Lemma aleaves_rotate_right : forall t t', arotate_right t = Some t' -> aleaves t' = aleaves t.
Proof.
  intros [|p k h s [|lp lk lh ls ll lr] r] t' H; try discriminate.
  cbn in H. inversion H. cbn. rewrite app_assoc. reflexivity.
Qed.

Lemma aleaves_rotate_left : forall t t', arotate_left t = Some t' -> aleaves t' = aleaves t.
Proof.
  intros [|p k h s l [|rp rk rh rs rl rr]] t' H; try discriminate.
  cbn in H. inversion H. cbn. rewrite app_assoc. reflexivity.
Qed.

Lemma aleaves_balance : forall t t', abalance t = Some t' -> aleaves t' = aleaves t.
Proof.
  intros [|p k h s l r] t' H; [discriminate|].
  cbn [abalance] in H.
  destruct (aheight l - aheight r >? 1).
  - destruct (acalc_balance l) as [bl|]; [|discriminate].
    destruct (bl >=? 0).
    + apply aleaves_rotate_right in H. exact H.
    + destruct (arotate_left l) as [l'|] eqn:E; [|discriminate].
      apply aleaves_rotate_right in H. rewrite H. cbn.
      rewrite (aleaves_rotate_left _ _ E). reflexivity.
  - destruct (aheight l - aheight r <? -1).
    + destruct (acalc_balance r) as [br|]; [|discriminate].
      destruct (br <=? 0).
      * apply aleaves_rotate_left in H. exact H.
      * destruct (arotate_right r) as [r'|] eqn:E; [|discriminate].
        apply aleaves_rotate_left in H. rewrite H. cbn.
        rewrite (aleaves_rotate_right _ _ E). reflexivity.
    + inversion H. reflexivity.
Qed.

(** annotated sub-trees of a rotation / balance result are sub-trees of the input *)
Lemma asub_calc_hs_none : forall x k h s l r,
  asub x (ANode None k h s l r) -> annot x <> None -> asub x l \/ asub x r.
Proof.
  intros x k h s l r H A. apply asub_node_inv in H.
  destruct H as [H|H]; [subst x; cbn in A; congruence|exact H].
Qed.

Lemma from_old_rotate_right : forall t t', arotate_right t = Some t' ->
  forall x, asub x t' -> annot x <> None -> asub x t.
Proof.
  intros [|p k h s [|lp lk lh ls ll lr] r] t' H x Hx A; try discriminate.
  cbn [arotate_right] in H. inversion H; subst t'. clear H. cbn [acalc_hs] in Hx.
  apply asub_calc_hs_none in Hx; [|exact A].
  destruct Hx as [Hx|Hx].
  - apply asub_l. apply asub_l. exact Hx.
  - apply asub_calc_hs_none in Hx; [|exact A].
    destruct Hx as [Hx|Hx].
    + apply asub_l. apply asub_r. exact Hx.
    + apply asub_r. exact Hx.
Qed.

Lemma from_old_rotate_left : forall t t', arotate_left t = Some t' ->
  forall x, asub x t' -> annot x <> None -> asub x t.
Proof.
  intros [|p k h s l [|rp rk rh rs rl rr]] t' H x Hx A; try discriminate.
  cbn [arotate_left] in H. inversion H; subst t'. clear H. cbn [acalc_hs] in Hx.
  apply asub_calc_hs_none in Hx; [|exact A].
  destruct Hx as [Hx|Hx].
  - apply asub_calc_hs_none in Hx; [|exact A].
    destruct Hx as [Hx|Hx].
    + apply asub_l. exact Hx.
    + apply asub_r. apply asub_l. exact Hx.
  - apply asub_r. apply asub_r. exact Hx.
Qed.

(** for a node without annotation: sub-trees of the balanced result come from the children *)
Lemma from_old_balance : forall k h s l r t', abalance (ANode None k h s l r) = Some t' ->
  forall x, asub x t' -> annot x <> None -> asub x l \/ asub x r.
Proof.
  intros k h s l r t' H x Hx A.
  assert (G : forall y, asub y (ANode None k h s l r) -> annot y <> None -> asub y l \/ asub y r).
  { intros y Hy Ay. apply asub_node_inv in Hy. destruct Hy as [Hy|Hy]; [subst y; cbn in Ay; congruence|exact Hy]. }
  cbn [abalance] in H.
  destruct (aheight l - aheight r >? 1).
  - destruct (acalc_balance l) as [bl|]; [|discriminate].
    destruct (bl >=? 0).
    + apply G; [|exact A]. eapply from_old_rotate_right; eauto.
    + destruct (arotate_left l) as [l'|] eqn:E; [|discriminate].
      pose proof (from_old_rotate_right _ _ H x Hx A) as Hy.
      apply asub_node_inv in Hy. destruct Hy as [Hy|[Hy|Hy]].
      * subst x. cbn in A. congruence.
      * left. eapply from_old_rotate_left; eauto.
      * right. exact Hy.
  - destruct (aheight l - aheight r <? -1).
    + destruct (acalc_balance r) as [br|]; [|discriminate].
      destruct (br <=? 0).
      * apply G; [|exact A]. eapply from_old_rotate_left; eauto.
      * destruct (arotate_right r) as [r'|] eqn:E; [|discriminate].
        pose proof (from_old_rotate_left _ _ H x Hx A) as Hy.
        apply asub_node_inv in Hy. destruct Hy as [Hy|[Hy|Hy]].
        -- subst x. cbn in A. congruence.
        -- left. exact Hy.
        -- right. eapply from_old_rotate_right; eauto.
    + inversion H; subst t'. apply G; assumption.
Qed.

(** node.set: persisted node objects of the result are sub-trees of the input *)
Lemma from_old_set : forall t k v t' u, aset t k v = Some (t', u) -> from_old t' t.
Proof.
  induction t as [p lk lv|p nk h s l IHl r IHr]; intros k v t' u H x Hx A.
  - cbn in H. destruct (bcmp k lk); inversion H; subst t'; clear H.
    + apply asub_leaf_inv in Hx. subst x. cbn in A. congruence.
    + apply asub_node_inv in Hx. destruct Hx as [Hx|[Hx|Hx]].
      * subst x. cbn in A. congruence.
      * apply asub_leaf_inv in Hx. subst x. cbn in A. congruence.
      * exact Hx.
    + apply asub_node_inv in Hx. destruct Hx as [Hx|[Hx|Hx]].
      * subst x. cbn in A. congruence.
      * exact Hx.
      * apply asub_leaf_inv in Hx. subst x. cbn in A. congruence.
  - cbn [aset] in H. destruct (blt k nk).
    + destruct (aset l k v) as [[l' ul]|] eqn:E; [|discriminate].
      destruct ul.
      * inversion H; subst t'. apply asub_node_inv in Hx. destruct Hx as [Hx|[Hx|Hx]].
        -- subst x. cbn in A. congruence.
        -- apply asub_l. eapply IHl; eauto.
        -- apply asub_r. exact Hx.
      * destruct (abalance (acalc_hs (ANode None nk h s l' r))) as [tb|] eqn:B; [|discriminate].
        inversion H; subst t'. cbn [acalc_hs] in B.
        destruct (from_old_balance _ _ _ _ _ _ B x Hx A) as [Hy|Hy].
        -- apply asub_l. eapply IHl; eauto.
        -- apply asub_r. exact Hy.
    + destruct (aset r k v) as [[r' ur]|] eqn:E; [|discriminate].
      destruct ur.
      * inversion H; subst t'. apply asub_node_inv in Hx. destruct Hx as [Hx|[Hx|Hx]].
        -- subst x. cbn in A. congruence.
        -- apply asub_l. exact Hx.
        -- apply asub_r. eapply IHr; eauto.
      * destruct (abalance (acalc_hs (ANode None nk h s l r'))) as [tb|] eqn:B; [|discriminate].
        inversion H; subst t'. cbn [acalc_hs] in B.
        destruct (from_old_balance _ _ _ _ _ _ B x Hx A) as [Hy|Hy].
        -- apply asub_l. exact Hy.
        -- apply asub_r. eapply IHr; eauto.
Qed.

(** leaves: every leaf with another key keeps its annotation; the written key gets a new leaf object *)
Definition other (k : bytes) (x : bytes * bytes * option nref) : bool := negb (beq (lkey x) k).


Lemma aleaves_set_other : forall t k v t' u, aset t k v = Some (t', u) ->
  filter (other k) (aleaves t') = filter (other k) (aleaves t).
Proof.
  induction t as [p lk lv|p nk h s l IHl r IHr]; intros k v t' u H.
  - cbn in H. unfold other, lkey.
    destruct (bcmp k lk) eqn:C; inversion H; subst t'; cbn; rewrite ?beq_refl; cbn.
    + apply bcmp_eq in C. subst lk. rewrite beq_refl. reflexivity.
    + reflexivity.
    + reflexivity.
  - cbn [aset] in H. destruct (blt k nk).
    + destruct (aset l k v) as [[l' ul]|] eqn:E; [|discriminate].
      destruct ul.
      * inversion H; subst t'. cbn. rewrite !filter_app. f_equal. eapply IHl; eauto.
      * destruct (abalance (acalc_hs (ANode None nk h s l' r))) as [tb|] eqn:B; [|discriminate].
        inversion H; subst t'. rewrite (aleaves_balance _ _ B), aleaves_calc_hs. cbn.
        rewrite !filter_app. f_equal. eapply IHl; eauto.
    + destruct (aset r k v) as [[r' ur]|] eqn:E; [|discriminate].
      destruct ur.
      * inversion H; subst t'. cbn. rewrite !filter_app. f_equal. eapply IHr; eauto.
      * destruct (abalance (acalc_hs (ANode None nk h s l r'))) as [tb|] eqn:B; [|discriminate].
        inversion H; subst t'. rewrite (aleaves_balance _ _ B), aleaves_calc_hs. cbn.
        rewrite !filter_app. f_equal. eapply IHr; eauto.
Qed.

Lemma aleaves_set_new : forall t k v t' u, aset t k v = Some (t', u) -> In (k, v, None) (aleaves t').
Proof.
  induction t as [p lk lv|p nk h s l IHl r IHr]; intros k v t' u H.
  - cbn in H. destruct (bcmp k lk); inversion H; subst t'; cbn; auto.
  - cbn [aset] in H. destruct (blt k nk).
    + destruct (aset l k v) as [[l' ul]|] eqn:E; [|discriminate].
      destruct ul.
      * inversion H; subst t'. cbn. apply in_or_app. left. eapply IHl; eauto.
      * destruct (abalance (acalc_hs (ANode None nk h s l' r))) as [tb|] eqn:B; [|discriminate].
        inversion H; subst t'. rewrite (aleaves_balance _ _ B), aleaves_calc_hs. cbn.
        apply in_or_app. left. eapply IHl; eauto.
    + destruct (aset r k v) as [[r' ur]|] eqn:E; [|discriminate].
      destruct ur.
      * inversion H; subst t'. cbn. apply in_or_app. right. eapply IHr; eauto.
      * destruct (abalance (acalc_hs (ANode None nk h s l r'))) as [tb|] eqn:B; [|discriminate].
        inversion H; subst t'. rewrite (aleaves_balance _ _ B), aleaves_calc_hs. cbn.
        apply in_or_app. right. eapply IHr; eauto.
Qed.

(** the leaves of the erased tree *)
Lemma aleaves_elements : forall t, map (fun x => (fst (fst x), snd (fst x))) (aleaves t) = elements (erase t).
Proof.
  induction t; cbn; [reflexivity|]. rewrite map_app. congruence.
Qed.

(** a leaf of a sub-tree is a leaf of the tree *)
Lemma aleaves_sub : forall x t, asub x t -> forall e, In e (aleaves x) -> In e (aleaves t).
Proof.
  intros x t H. induction H; intros e He; [exact He| |]; cbn; apply in_or_app; auto.
Qed.

(** a leaf entry corresponds to a leaf sub-tree *)
Lemma aleaves_in_sub : forall t k v p, In (k, v, p) (aleaves t) -> asub (ALeaf p k v) t.
Proof.
  induction t as [p0 k0 v0|p0 nk h s l IHl r IHr]; intros k v p H; cbn in H.
  - destruct H as [H|[]]. inversion H. apply asub_refl.
  - apply in_app_or in H. destruct H; [apply asub_l|apply asub_r]; auto.
Qed.
